/- C02: executable model of the compiler proper (/repo/src/core/compile.c + specials.c) for a core fragment of the
   macro-expanded language, on top of the emit-layer model (Emit/Model.lean: regalloc.c + emit.c, `W.*`).

   Mirrored function by function (same control structure; mutation = returned state; C loops = list recursion):
     compile.c   janetc_fopts_default janetc_freeslot janetc_nameslot janetc_cslot janetc_farslot janetc_scope janetc_popscope
                 janetc_popscope_keepslot janetc_resolve (locals, global constants, upvalue capture incl. env propagation)
                 janetc_return janetc_gettarget janetc_toslots janetc_pushslots janetc_freeslots janetc_throwaway
                 janetc_call (no call-site optimizers) janetc_maker/janetc_array/janetc_tuple janetc_value
                 janetc_pop_funcdef janet_compile
     specials.c  janetc_varset (symbol) namelocal varleaf/defleaf (local scopes) janetc_var janetc_def (symbol pattern)
                 janetc_if janetc_do janetc_upscope janetc_break janetc_while (incl. the loop-as-function rewrite)
                 janetc_fn (symbol parameters, optional self name) janetc_fn_moveargs
   Everything else (destructuring patterns, &-parameters, quote/quasiquote/splice, table/struct literals, top-level def/var,
   global vars, calls of functions that have a call-site optimizer) makes the model return `none` = "outside the fragment".

   `lim` = first register number the compile refuses (the C refuses > 0xFFFF, "ran out of internal registers"); the
   compile-correctness theorem (Compile/Correct.lean) is about `lim ≤ 0xF0` (near registers only).
   The result is real instruction words (`CI.word`); harness/C02/compser.c compares them with the real compiler's.
   Core Lean only. -/
import JanetModel.Emit.Model
import JanetModel.Lang.Sem
namespace JanetModel.Compile
open JanetModel.Emit JanetModel.Lang JanetModel.Bytecode.Exec JanetModel.Gen.Bytecode

/-! ### instructions: emit-layer instructions + what compile.c / specials.c emit raw -/

inductive CI where
  | mi (i : MI)
  | jump (off : Int)          -- JOP_JUMP | off << 8
  | brk                       -- 0x80 | JOP_JUMP: tag that `janetc_while` rewrites into a jump to :done
  | retNil                    -- JOP_RETURN_NIL
  | loadSelf (r : Nat)        -- JOP_LOAD_SELF | r << 8
  | tailcall (r : Nat)        -- JOP_TAILCALL | r << 8
  | closure (r d : Nat)       -- JOP_CLOSURE | r << 8 | d << 16
  | call (d f : Nat)          -- JOP_CALL | d << 8 | f << 16
  deriving Inhabited

def CI.word : CI → Nat
  | .mi i => i.word
  | .jump off => Op.jump.toNat + imod off 16777216 * 256
  | .brk => 128 + Op.jump.toNat
  | .retNil => Op.returnNil.toNat
  | .loadSelf r => Op.loadSelf.toNat + r * 256
  | .tailcall r => Op.tailcall.toNat + r * 256
  | .closure r d => Op.closure.toNat + r * 256 + d * 65536
  | .call d f => Op.call.toNat + d * 256 + f * 65536

/-! ### slots, scopes, compiler state -/

/-- `JanetSlot`: kind + index/envindex/constant (`Emit.Slot`) + the flags the compiler tests -/
structure JSlot where
  k : Slot
  cflag : Bool := false       -- JANET_SLOT_CONSTANT
  named : Bool := false       -- JANET_SLOT_NAMED
  mutable : Bool := false     -- JANET_SLOT_MUTABLE
  returned : Bool := false    -- JANET_SLOT_RETURNED
  deriving Inhabited

/-- `janetc_cslot` -/
def cslot (k : KConst) : JSlot := { k := .const k, cflag := true }

def JSlot.isRef (s : JSlot) : Bool := match s.k with | .ref _ => true | _ => false
def JSlot.isUp (s : JSlot) : Bool := match s.k with | .up _ _ => true | _ => false

/-- `SymPair` (sym = NULL ⇔ not visible; sym2 only feeds the symbol map, not modelled) -/
structure SymPair where
  name : String
  visible : Bool := true
  slot : JSlot
  keep : Bool := false
  deriving Inhabited

/-- finished `JanetFuncDef` -/
inductive FDef where
  | mk (arity minA maxA slotcount : Nat) (vararg structarg : Bool) (code : List CI) (smap : List Pos) (consts : List KConst)
       (envs : List Int) (bitset : Option (List Bool)) (defs : List FDef)
  deriving Inhabited

/-- `JanetScope` (constants and defs of function scopes live in `CState.pools` / `CState.fdefs`) -/
structure Scope where
  fn : Bool := false          -- JANET_SCOPE_FUNCTION
  whl : Bool := false         -- JANET_SCOPE_WHILE
  top : Bool := false         -- JANET_SCOPE_TOP
  unused : Bool := false      -- JANET_SCOPE_UNUSED
  closure : Bool := false     -- JANET_SCOPE_CLOSURE
  envf : Bool := false        -- JANET_SCOPE_ENV
  ra : RA := { alloc := fun _ => false }
  ua : List Nat := []         -- registers touched in `scope->ua`
  syms : List SymPair := []
  envs : List Int := []       -- `scope->envs[j].envindex`
  start : Nat := 0            -- bytecode_start
  deriving Inhabited

/-- what the compiler knows about a global symbol (`janet_resolve_ext` on the core environment; regenerated per run by
    harness/C02/compser.c) -/
inductive Glob where
  | cfun                              -- cfunction
  | func (minA maxA tag : Nat)        -- janet function; tag ≠ 0: has a call-site optimizer (cfuns.c)
  | other                             -- macro, var, non-function value: outside the fragment
  deriving Inhabited

structure CState where
  scopes : List Scope := []                -- head = `c->scope`
  pools : List (List KConst) := []         -- `scope->consts` of the enclosing function scopes, innermost first
  fdefs : List (List FDef) := []           -- `scope->defs` likewise
  buf : List CI := []                      -- `c->buffer`
  map : List Pos := []                     -- `c->mapbuffer`
  cur : Pos := {}                          -- `c->current_mapping`
  vals : Array Value := #[]                -- value table: `KConst.other i` stands for `vals[i]`
  lim : Nat := 65536
  globs : String → Option Glob := fun _ => none

/-- `JanetFopts`: the flags the fragment uses -/
structure Fopts where
  tail : Bool := false
  drop : Bool := false
  hint : Option JSlot := none              -- JANET_FOPTS_HINT + opts.hint
  deriving Inhabited

/-! ### constants -/

mutual
/-- `janet_equals` on the constants the fragment produces -/
def constEq : Value → Value → Bool
  | .nil, .nil => true
  | .bool a, .bool b => a == b
  | .num x, .num y => x.toBits == y.toBits
  | .str a, .str b => a == b
  | .sym a, .sym b => a == b
  | .kw a, .kw b => a == b
  | .cfun a, .cfun b => a == b
  | .tuple xs _, .tuple ys _ => constEqL xs ys
  | _, _ => false
def constEqL : List Value → List Value → Bool
  | [], [] => true
  | x :: xs, y :: ys => constEq x y && constEqL xs ys
  | _, _ => false
end

/-- is the double an integer that `janetc_loadconst` emits as LOAD_INTEGER? -/
def intLit (x : Float) : Option Int :=
  if x.floor == x && (-32768.0 : Float) ≤ x && x ≤ (32767.0 : Float) && !(x == 0.0 && (1.0 / x) < 0.0) then some x.toInt64.toInt else none

def findVal (vals : Array Value) (v : Value) : Option Nat := (List.range vals.size).find? (fun i => constEq (vals.getD i .nil) v)

/-- the `KConst` standing for a constant value (extends the value table when the value is new) -/
def kOf (c : CState) (v : Value) : KConst × CState :=
  match v with
  | .nil => (.nil, c)
  | .bool true => (.tru, c)
  | .bool false => (.fls, c)
  | .num x =>
    match intLit x with
    | some n => (.int n, c)
    | none => match findVal c.vals v with
      | some i => (.other i, c)
      | none => (.other c.vals.size, { c with vals := c.vals.push v })
  | v => match findVal c.vals v with
    | some i => (.other i, c)
    | none => (.other c.vals.size, { c with vals := c.vals.push v })

def litOf (vals : Array Value) : KConst → Value
  | .nil => .nil
  | .tru => .bool true
  | .fls => .bool false
  | .int n => .num (Float.ofInt n)
  | .refarr _ => .nil
  | .other i => vals.getD i .nil

def constSlot (c : CState) (v : Value) : JSlot × CState := let (k, c') := kOf c v; (cslot k, c')

/-! ### emission -/

/-- `janetc_emit` -/
def emitRaw (c : CState) (i : CI) : CState := { c with buf := c.buf ++ [i], map := c.map ++ [c.cur] }

/-- run an emit-layer wrapper (`W.*`) on the current scope's allocator and the current function's constant pool -/
def emitW (c : CState) (f : Emit.C → Emit.C) : Option CState :=
  match c.scopes, c.pools with
  | sc :: rest, pool :: pools =>
    let e := f { ra := sc.ra, buf := [], consts := pool }
    if e.ra.max ≥ c.lim then none else
    some { c with scopes := { sc with ra := e.ra } :: rest, pools := e.consts :: pools,
                  buf := c.buf ++ e.buf.map CI.mi, map := c.map ++ e.buf.map (fun _ => c.cur) }
  | _, _ => none

/-- `janetc_allocfar` -/
def allocFar (c : CState) : Option (Nat × CState) :=
  match c.scopes with
  | sc :: rest =>
    let (r, ra) := sc.ra.alloc1
    if r ≥ c.lim then none else some (r, { c with scopes := { sc with ra := ra } :: rest })
  | [] => none

/-- `janetc_farslot` -/
def farslot (c : CState) : Option (JSlot × CState) := do
  let (r, c') ← allocFar c
  pure ({ k := .loc r }, c')

/-- `janetc_freeslot` -/
def freeslot (c : CState) (s : JSlot) : Option CState :=
  if s.cflag || s.isRef || s.named then some c else
  match s.k with
  | .up _ _ => some c
  | .loc i => match c.scopes with
    | sc :: rest => some { c with scopes := { sc with ra := sc.ra.unmark i } :: rest }
    | [] => none
  | _ => none          -- index −1 without the constant flag: the C would index chunks[−1]

def freeslots (c : CState) : List JSlot → Option CState
  | [] => some c
  | s :: ss => do let c' ← freeslot c s; freeslots c' ss

def sameFlags (a b : JSlot) : Bool := a.cflag == b.cflag && a.named == b.named && a.mutable == b.mutable && a.returned == b.returned

/-- `janetc_copy` (`janetc_sequal` also compares the flags: with equal place and different flags the C falls through to the
    moves, which emit nothing for a near register; the far case is left outside the fragment) -/
def copySlot (c : CState) (dest src : JSlot) : Option CState :=
  if dest.cflag then none else
  if dest.k = src.k && !sameFlags dest src && !dest.k.nearLocal then none else
  emitW c (fun e => W.copy e dest.k src.k)

def emitS (c : CState) (op : Op) (s : JSlot) (wr : Bool) : Option CState := emitW c (fun e => W.emitS e op.toNat wr s.k)
def emitSS (c : CState) (op : Op) (s1 s2 : JSlot) (wr : Bool) : Option CState := emitW c (fun e => W.emitSS e op.toNat wr s1.k s2.k)
def emitSSS (c : CState) (op : Op) (s1 s2 s3 : JSlot) (wr : Bool) : Option CState :=
  emitW c (fun e => W.emitSSS e op.toNat wr s1.k s2.k s3.k)
def emitSI (c : CState) (op : Op) (s : JSlot) (imm : Nat) (wr : Bool) : Option CState := emitW c (fun e => W.emitSI e op.toNat wr s.k imm)

/-- label returned by `emit1s` with wr = 0: the payload is the last instruction -/
def lastLabel (c : CState) : Nat := c.buf.length - 1

/-! ### scopes -/

/-- `janetc_scope` -/
def pushScope (c : CState) (fn whl top unused : Bool) : CState :=
  let ra : RA := match fn, c.scopes with
    | false, sc :: _ => { alloc := sc.ra.alloc, max := sc.ra.max }          -- janetc_regalloc_clone: regtemps = 0
    | _, _ => { alloc := fun _ => false }
  let sc : Scope := { fn := fn, whl := whl, top := top, unused := unused, ra := ra, start := c.buf.length }
  { c with scopes := sc :: c.scopes,
           pools := if fn then [] :: c.pools else c.pools,
           fdefs := if fn then [] :: c.fdefs else c.fdefs }

/-- `janetc_popscope` -/
def popScope (c : CState) : Option CState :=
  match c.scopes with
  | [] => none
  | old :: [] => some { c with scopes := [], pools := if old.fn then c.pools.tail else c.pools, fdefs := if old.fn then c.fdefs.tail else c.fdefs }
  | old :: nw :: rest =>
    if old.fn || old.unused then
      some { c with scopes := nw :: rest, pools := if old.fn then c.pools.tail else c.pools, fdefs := if old.fn then c.fdefs.tail else c.fdefs }
    else
      let kept := old.syms.map (fun p => { p with visible := false })
      let ra1 : RA := { nw.ra with max := if nw.ra.max < old.ra.max then old.ra.max else nw.ra.max }
      let ra2 := kept.foldl (fun (ra : RA) p => if p.keep then (match p.slot.k with | .loc i => ra.mark i | _ => ra) else ra) ra1
      some { c with scopes := { nw with closure := nw.closure || old.closure, ra := ra2, syms := nw.syms ++ kept } :: rest }

/-- `janetc_popscope_keepslot` -/
def popScopeKeep (c : CState) (s : JSlot) : Option CState := do
  let c' ← popScope c
  match c'.scopes, s.k with
  | sc :: rest, .loc i => pure { c' with scopes := { sc with ra := sc.ra.mark i } :: rest }
  | _, _ => pure c'

/-- `janetc_nameslot` -/
def nameslot (c : CState) (name : String) (s : JSlot) : CState :=
  match c.scopes with
  | sc :: rest => { c with scopes := { sc with syms := sc.syms ++ [{ name := name, slot := { s with named := true } }] } :: rest }
  | [] => c

/-! ### `janetc_resolve` -/

/-- last visible pair named `x` (the C searches in reverse order) -/
def findSym (syms : List SymPair) (x : String) : Option Nat :=
  (List.range syms.length).reverse.find? (fun i => let p := syms.getD i default; p.visible && p.name == x)

/-- scope search: (scope position from the innermost, pair index, unused seen, foundlocal) -/
def searchScopes (x : String) : List Scope → Nat → Bool → Bool → Option (Nat × Nat × Bool × Bool)
  | [], _, _, _ => none
  | sc :: rest, pos, unused, local_ =>
    let unused := unused || sc.unused
    match findSym sc.syms x with
    | some i => some (pos, i, unused, local_)
    | none => searchScopes x rest (pos + 1) unused (local_ && !sc.fn)

/-- propagate the environment reference through the function scopes between the capturing scope and the current one
    (`scs` = those scopes, outermost first); returns the updated scopes and the final envindex -/
def propagateEnv : List Scope → Int → List Scope × Int
  | [], e => ([], e)
  | sc :: rest, e =>
    if sc.fn then
      match (List.range sc.envs.length).find? (fun j => sc.envs.getD j 0 == e) with
      | some j => let (r, e') := propagateEnv rest (Int.ofNat j); (sc :: r, e')
      | none => let (r, e') := propagateEnv rest (Int.ofNat sc.envs.length); ({ sc with envs := sc.envs ++ [e] } :: r, e')
    else let (r, e') := propagateEnv rest e; (sc :: r, e')

def globalSlot (c : CState) (x : String) : Option (JSlot × CState) :=
  match c.globs x with
  | some .cfun | some (.func _ _ _) => some (constSlot c (.cfun x))
  | _ => none

def resolve (c : CState) (x : String) : Option (JSlot × CState) :=
  match searchScopes x c.scopes 0 false true with
  | none => globalSlot c x
  | some (pos, i, unused, local_) =>
    let sc := c.scopes.getD pos default
    let ret := (sc.syms.getD i default).slot
    if ret.cflag || ret.isRef then some (ret, c) else
    if unused || local_ then some (ret, c) else      -- a local found this way always has envindex −1
    match ret.k with
    | .loc idx =>
      if idx > 0xFF then none else
      -- pair->keep = 1
      let scopes1 := c.scopes.modify pos (fun s => { s with syms := s.syms.modify i (fun p => { p with keep := true }) })
      -- the function scope that owns the slot
      match (List.range (scopes1.length - pos)).find? (fun d => (scopes1.getD (pos + d) default).fn) with
      | none => none
      | some d =>
        let q := pos + d
        let scopes2 := scopes1.modify q (fun s => { s with envf := true, ua := if s.ua.contains idx then s.ua else s.ua ++ [idx] })
        let inner := (scopes2.take q).reverse            -- children of that scope, outermost first
        let (inner', e) := propagateEnv inner (-1)
        some ({ ret with k := .up e.toNat idx }, { c with scopes := inner'.reverse ++ scopes2.drop q })
    | _ => none

/-! ### `janetc_return`, `janetc_gettarget`, `janetc_pushslots` -/

def cReturn (c : CState) (s : JSlot) : Option (JSlot × CState) :=
  if s.returned then some (s, c) else do
    let c' ← if s.cflag && s.k == Slot.const .nil then pure (emitRaw c .retNil) else emitS c .return s false
    pure ({ s with returned := true }, c')

def getTarget (c : CState) (opts : Fopts) : Option (JSlot × CState) :=
  match opts.hint with
  | some h => match h.k with
    | .loc i => if i ≤ 0xFF then some (h, c) else do let (r, c') ← allocFar c; pure ({ k := .loc r }, c')
    | _ => do let (r, c') ← allocFar c; pure ({ k := .loc r }, c')
  | none => do let (r, c') ← allocFar c; pure ({ k := .loc r }, c')

def pushSlots (c : CState) : List JSlot → Option CState
  | [] => some c
  | [a] => emitS c .push a false
  | [a, b] => emitSS c .push2 a b false
  | a :: b :: d :: rest => do let c' ← emitSSS c .push3 a b d false; pushSlots c' rest

/-- `janetc_toslots` -/
def toSlots (rec : Fopts → Expr → CState → Option (JSlot × CState)) : List Expr → CState → Option (List JSlot × CState)
  | [], c => some ([], c)
  | x :: xs, c => do
    let (s, c1) ← rec {} x c
    let (ss, c2) ← toSlots rec xs c1
    pure (s :: ss, c2)

/-! ### funcdefs -/

def popPools (c : CState) : CState := { c with pools := c.pools.tail, fdefs := c.fdefs.tail }

/-- `janetc_pop_funcdef` (the two bytecode passes it ends with are C15's) -/
def popFuncdef (c : CState) (arity minA maxA : Nat) (vararg : Bool) : Option (FDef × CState) :=
  match c.scopes with
  | [] => none
  | sc :: _ =>
    if !sc.fn then none else
    let slotcount := sc.ra.max + 1
    let code := c.buf.drop sc.start
    let smap := c.map.drop sc.start
    let bitset := if sc.ua.isEmpty then none else some ((List.range slotcount).map (fun i => sc.ua.contains i && !(0xF0 ≤ i && i ≤ 0xFF)))
    let d := FDef.mk arity minA maxA slotcount vararg false code smap (c.pools.headD []) sc.envs bitset (c.fdefs.headD [])
    do
      let c1 ← popScope { c with buf := c.buf.take sc.start, map := c.map.take sc.start }
      pure (d, c1)

/-- `janetc_addfuncdef` -/
def addFuncdef (c : CState) (d : FDef) : Nat × CState :=
  match c.fdefs with
  | ds :: rest => (ds.length, { c with fdefs := (ds ++ [d]) :: rest })
  | [] => (0, c)

def FDef.withSlots : FDef → Nat → FDef
  | .mk a mn mx sl va sa code smap consts envs bs defs, n => .mk a mn mx (if n > sl then n else sl) va sa code smap consts envs bs defs

/-! ### special forms -/

def specials : List String := ["break", "def", "do", "fn", "if", "quasiquote", "quote", "set", "splice", "unquote", "upscope", "var", "while"]

def modBuf (buf : List CI) (i : Nat) (f : CI → CI) : List CI := buf.modify i f

/-- `c->buffer[label] |= off << 16` on a conditional jump emitted with offset 0 -/
def patchCond (off : Nat) : CI → CI
  | .mi (.pay op .si wr rs _) => .mi (.pay op .si wr rs off)
  | i => i

def curTop (c : CState) : Bool := (c.scopes.headD default).top

/-- `namelocal` -/
def namelocal (c : CState) (name : String) (mutFlag : Bool) (ret : JSlot) : Option CState :=
  let isUnnamedRegister := !ret.named && (match ret.k with | .up _ i => i > 0 | _ => false)
  let canAlias := !mutFlag && !ret.mutable && ret.named && (match ret.k with | .loc _ => true | _ => false)
  if canAlias then some (nameslot c name { ret with mutable := false })
  else if !isUnnamedRegister then do
    let (ls, c1) ← farslot c
    let c2 ← copySlot c1 ls ret
    pure (nameslot c2 name { ls with mutable := mutFlag })
  else some (nameslot c name { ret with mutable := ret.mutable || mutFlag })

/-- body statements of `do` / `upscope`: all but the last dropped and freed -/
def doBody (rec : Fopts → Expr → CState → Option (JSlot × CState)) (opts : Fopts) : List Expr → CState → Option (JSlot × CState)
  | [], c => some (cslot .nil, c)
  | [x], c => rec opts x c
  | x :: xs, c => do
    let (s, c1) ← rec { drop := true } x c
    let c2 ← freeslot c1 s
    doBody rec opts xs c2

/-- body statements of `while`: every one dropped and freed -/
def whileBody (rec : Fopts → Expr → CState → Option (JSlot × CState)) : List Expr → CState → Option CState
  | [], c => some c
  | x :: xs, c => do
    let (s, c1) ← rec { drop := true } x c
    let c2 ← freeslot c1 s
    whileBody rec xs c2

/-- body statements of `fn`: last in tail position, others dropped (not freed) -/
def fnBody (rec : Fopts → Expr → CState → Option (JSlot × CState)) : List Expr → CState → Option CState
  | [], c => some c
  | [x], c => do let (_, c1) ← rec { tail := true } x c; pure c1
  | x :: xs, c => do let (_, c1) ← rec { drop := true } x c; fnBody rec xs c1

def constTruthy : KConst → Bool
  | .nil => false
  | .fls => false
  | _ => true

def isConstSlot (s : JSlot) : Option KConst := if s.cflag then (match s.k with | .const k => some k | _ => none) else none

/-- `janetc_throwaway` -/
def throwaway (rec : Fopts → Expr → CState → Option (JSlot × CState)) (opts : Fopts) (x : Expr) (c : CState) : Option CState := do
  let n := c.buf.length
  let c1 := pushScope c false false false true
  let (_, c2) ← rec opts x c1
  let c3 ← popScope c2
  pure { c3 with buf := c3.buf.take n, map := c3.map.take n }

def symParams : List Expr → Option (List String)
  | [] => some []
  | .sym s :: rest => if s.startsWith "&" then none else (symParams rest).map (s :: ·)
  | _ => none

/-! ### `janetc_fn_moveargs` (fix 71c4f8f): the VM puts argument k in stack slot k, the allocator never hands out 0xF0–0xFF, so
    from the 241st argument on the parameter's register is higher than the slot the argument arrives in -/

/-- `for (k = lo + m − 1; k >= lo; k--)`: arguments at 0x100 and above go through the temporary 0xFF -/
def movesHigh (reg : Nat → Nat) (lo : Nat) : Nat → List MI
  | 0 => []
  | m + 1 => [.movn 0xFF (lo + m), .movf 0xFF (reg (lo + m))] ++ movesHigh reg lo m

/-- `for (k = lo + m − 1; k >= lo; k--) MOVE_FAR k → reg k` -/
def movesLow (reg : Nat → Nat) (lo : Nat) : Nat → List MI
  | 0 => []
  | m + 1 => .movf (lo + m) (reg (lo + m)) :: movesLow reg lo m

/-- the whole entry sequence for `n` stack arguments (`n > 0xF0`), `reg k` = register of argument k, `park` = spare register -/
def moveArgsCode (n : Nat) (reg : Nat → Nat) (park : Nat) : List MI :=
  if n > 0x100 then
    .movf 0xFF park :: (movesHigh reg 0x100 (n - 0x100) ++ movesLow reg 0xF0 15 ++ [.movn 0xFF park, .movf 0xFF (reg 0xFF)])
  else movesLow reg 0xF0 (n - 0xF0)

def emitMIs (c : CState) (is : List MI) : CState := is.foldl (fun cc i => emitRaw cc (.mi i)) c

/-- `janetc_fn_moveargs` -/
def fnMoveArgs (c : CState) (argregs : List Nat) : Option CState :=
  let n := argregs.length
  let reg := fun k => argregs.getD k 0
  if n ≤ 0xF0 then some c else
  if n > 0x100 then do
    let (park, c1) ← allocFar c
    let c2 := emitMIs c1 (moveArgsCode n reg park)
    match c2.scopes with
    | sc :: rest => some { c2 with scopes := { sc with ra := sc.ra.unmark park } :: rest }      -- janetc_regalloc_free
    | [] => none
  else some (emitMIs c (moveArgsCode n reg 0))

/-- register of a parameter's slot (`argslot.index`) -/
def slotReg (s : JSlot) : Nat := match s.k with | .loc i => i | _ => 0

/-- function call: `janetc_value` tuple case + `janetc_call` -/
def cCall (rec' : Fopts → Expr → CState → Option (JSlot × CState)) (opts : Fopts) (hd : Expr) (args : List Expr) (c : CState) :
    Option (JSlot × CState) := do
  let (head, c1) ← rec' {} hd c
  let (slots, c2) ← toSlots rec' args c1
  -- call-site optimizers and compile-time arity errors: outside the fragment
  let okHead : Bool := match isConstSlot head with
    | some (.other i) => match c2.vals.getD i .nil with
      | .cfun name => match c2.globs name with
        | some .cfun => true
        | some (.func mn mx tag) => tag == 0 && mn ≤ slots.length && slots.length ≤ mx
        | _ => false
      | _ => false
    | some .nil => true            -- `case JANET_NIL: break;`
    | some _ => false
    | none => true
  if !okHead then none else do
    let c3 ← pushSlots c2 slots
    let (retslot, c4) ←
      if opts.tail && !curTop c3 then do
        let c' ← emitS c3 .tailcall head false
        pure (({ k := .const .nil, returned := true } : JSlot), c')
      else do
        let (t, c') ← getTarget c3 opts
        let c'' ← emitSS c' .call t head true
        pure (t, c'')
    let c5 ← freeslots c4 slots
    let c6 ← freeslot c5 head
    pure (retslot, c6)

/-- the compiler: `janetc_value` with the special forms inlined by name -/
def cValue : Nat → Fopts → Expr → CState → Option (JSlot × CState)
  | 0, _, _, _ => none
  | fuel + 1, opts, x, c0 =>
    let rec' := cValue fuel
    let last := c0.cur
    -- macroexpand1: a non-empty tuple with a source position moves the mapping cursor
    let c := match x with
      | .form (_ :: _) p => if p.line ≥ 0 then { c0 with cur := p } else c0
      | _ => c0
    let res : Option (JSlot × CState) :=
      match x with
      | .lit (.tuple _ _) | .lit (.struct _) | .lit (.arr _) | .lit (.tbl _) | .lit (.buf _) | .lit (.fn _) => none
      | .lit v => some (constSlot c v)
      | .sym s => resolve c s
      | .form [] _ => some (constSlot c (.tuple [] false))
      | .btup [] => some (constSlot c (.tuple [] false))
      | .btup xs => do
        -- janetc_tuple -> janetc_maker JOP_MAKE_TUPLE
        let (slots, c1) ← toSlots rec' xs c
        match slots.mapM isConstSlot with
        | some ks => do
          let c2 ← freeslots c1 slots
          pure (constSlot c2 (.tuple (ks.map (litOf c2.vals)) false))
        | none => do
          let c2 ← pushSlots c1 slots
          let c3 ← freeslots c2 slots
          let (t, c4) ← getTarget c3 opts
          let c5 ← emitS c4 .makeTuple t true
          pure (t, c5)
      | .arr xs => do
        let (slots, c1) ← toSlots rec' xs c
        let c2 ← pushSlots c1 slots
        let c3 ← freeslots c2 slots
        let (t, c4) ← getTarget c3 opts
        let c5 ← emitS c4 .makeArray t true
        pure (t, c5)
      | .tbl _ | .stc _ => none
      | .form (.sym "do" :: body) _ => do
        let c1 := pushScope c false false false false
        let (r, c2) ← doBody rec' opts body c1
        let c3 ← popScopeKeep c2 r
        pure (r, c3)
      | .form (.sym "upscope" :: body) _ => doBody rec' opts body c
      | .form [.sym "def", .sym name, v] _ =>
        if curTop c then none else do
          let (r, c1) ← rec' {} v c
          let c2 ← namelocal c1 name false r
          pure (r, c2)
      | .form [.sym "var", .sym name, v] _ =>
        if curTop c then none else do
          let (r, c1) ← rec' { hint := opts.hint } v c
          let c2 ← namelocal c1 name true r
          pure (r, c2)
      | .form [.sym "set", .sym name, v] _ => do
        let (dest, c1) ← resolve c name
        if !dest.mutable then none else do
          let (r, c2) ← rec' { hint := some dest } v c1
          let c3 ← copySlot c2 dest r
          pure (r, c3)
      | .form (.sym "if" :: cnd :: tb :: rest) _ =>
        match rest with
        | _ :: _ :: _ => none
        | _ =>
          let fb : Expr := rest.headD (.lit .nil)
          let fbNil : Bool := match fb with | .lit .nil => true | _ => false
          let bodyopts := opts
          do
            let (target, c1) ← if opts.drop || opts.tail then pure (cslot .nil, c) else getTarget c opts
            let c2 := pushScope c1 false false false false
            -- (janetc_check_nil_form needs a function VALUE as head: outside the fragment, see `cValue` call case)
            let (cond, c3) ← rec' {} cnd c2
            match isConstSlot cond with
            | some k =>
              let (tb', fb') := if !constTruthy k then (fb, tb) else (tb, fb)
              let fbNil' : Bool := match fb' with | .lit .nil => true | _ => false
              let c4 := pushScope c3 false false false false
              let (right, c5) ← rec' bodyopts tb' c4
              let c6 ← if !opts.drop && !opts.tail then copySlot c5 target right else pure c5
              let c7 ← popScope c6
              let c8 ← if !fbNil' then throwaway rec' bodyopts fb' c7 else pure c7
              let c9 ← popScope c8
              pure (target, c9)
            | none =>
              let c4 ← emitSI c3 .jumpIfNot cond 0 false
              let labeljr := lastLabel c4
              let c5 := pushScope c4 false false false false
              let (left, c6) ← rec' bodyopts tb c5
              let c7 ← if !opts.drop && !opts.tail then copySlot c6 target left else pure c6
              let c8 ← popScope c7
              let labeljd := c8.buf.length
              let c9 := if !opts.tail && !(opts.drop && fbNil) then emitRaw c8 (.jump 0) else c8
              let labelr := c9.buf.length
              let c10 := pushScope c9 false false false false
              let (right, c11) ← rec' bodyopts fb c10
              let c12 ← if !opts.drop && !opts.tail then copySlot c11 target right else pure c11
              let c13 ← popScope c12
              let c14 ← popScope c13
              let labeld := c14.buf.length
              if labelr - labeljr > 32767 || labeld - labeljd > 0x7FFFFF then none else
              let buf1 := modBuf c14.buf labeljr (patchCond (labelr - labeljr))
              -- `if (!tail) c->buffer[labeljd] |= (labeld - labeljd) << 8`: when no jump was emitted (dropped, no else branch)
              -- labeljd = labeld - (size of the nil branch) and the |= would hit the first instruction of that branch:
              -- that branch is the constant nil and emits nothing, so labeld = labeljd and the |= adds 0
              let jumped := !opts.tail && !(opts.drop && fbNil)
              if !opts.tail && !jumped && labeld ≠ labeljd then none else
              let buf2 := if jumped then modBuf buf1 labeljd (fun _ => .jump (Int.ofNat (labeld - labeljd))) else buf1
              pure ({ target with returned := target.returned || opts.tail }, { c14 with buf := buf2 })
      | .form (.sym "while" :: cnd :: body) _ => do
        let labelwt := c.buf.length
        let c1 := pushScope c false true false false
        let (cond, c2) ← rec' {} cnd c1
        let infinite : Option Bool := match isConstSlot cond with
          | some k => if !constTruthy k then none else some true
          | none => some false
        match infinite with
        | none => do let c3 ← popScope c2; pure (cslot .nil, c3)
        | some inf => do
          let c3 ← if inf then pure c2 else emitSI c2 .jumpIfNot cond 0 false
          let labelc := if inf then 0 else lastLabel c3
          let c4 ← whileBody rec' body c3
          if (c4.scopes.headD default).closure then do
            -- a closure was created in the loop: recompile the loop as a tail-recursive function
            let c5 ← popScope { c4 with scopes := c4.scopes.modify 0 (fun s => { s with unused := true }) }
            let c6 : CState := { c5 with buf := c5.buf.take labelwt, map := c5.map.take labelwt }
            let c7 := pushScope c6 true false false false
            let (cond2, c8) ← rec' {} cnd c7
            let c9 ← if (isConstSlot cond2).isNone then do
                        let c' ← emitSI c8 .jumpIf cond2 2 false
                        pure (emitRaw c' .retNil)
                      else pure c8
            let c10 ← whileBody rec' body c9
            match c10.scopes with
            | [] => none
            | sc :: rest =>
              let (tself, ra1) := sc.ra.allocTemp 0
              if ra1.max ≥ c10.lim then none else
              let c11 := emitRaw (emitRaw { c10 with scopes := { sc with ra := ra1.freeTemp tself 0 } :: rest } (.loadSelf tself)) (.tailcall tself)
              let (d, c12) ← popFuncdef c11 0 0 2147483647 false
              let (di, c13) := addFuncdef c12 d
              match c13.scopes with
              | [] => none
              | sc2 :: rest2 =>
                let (clo, ra2) := sc2.ra.allocTemp 0
                if ra2.max ≥ c13.lim then none else
                let c14 := emitRaw (emitRaw { c13 with scopes := { sc2 with ra := ra2.freeTemp clo 0, closure := true } :: rest2 } (.closure clo di)) (.call clo clo)
                pure (cslot .nil, c14)
          else
            let labeljt := c4.buf.length
            let c5 := emitRaw c4 (.jump 0)
            let labeld := c5.buf.length
            if (!inf && labeld - labelc > 32767) || labeljt - labelwt > 0x7FFFFF then none else
            let buf1 := if inf then c5.buf else modBuf c5.buf labelc (patchCond (labeld - labelc))
            let buf2 := modBuf buf1 labeljt (fun _ => .jump (Int.ofNat labelwt - Int.ofNat labeljt))
            let buf3 := (List.range buf2.length).map (fun i =>
              match buf2.getD i default with
              | .brk => if labelwt ≤ i && i < labeld then CI.jump (Int.ofNat (labeld - i)) else .brk
              | ci => ci)
            do
              let c6 ← popScope { c5 with buf := buf3 }
              pure (cslot .nil, c6)
      | .form (.sym "break" :: args) _ =>
        match args with
        | _ :: _ :: _ => none
        | _ =>
          -- the scope to break from
          match c.scopes.find? (fun s => s.fn || s.whl) with
          | none => none
          | some sc =>
            if sc.fn then
              match (if sc.whl then none else args.head?) with
              | some a => do let (_, c1) ← rec' { tail := true } a c; pure (cslot .nil, c1)
              | none => do
                let c1 ← match args.head? with
                  | some a => do let (_, c') ← rec' { drop := true } a c; pure c'
                  | none => pure c
                pure (cslot .nil, emitRaw c1 .retNil)
            else do
              let c1 ← match args.head? with
                | some a => do let (_, c') ← rec' { drop := true } a c; pure c'
                | none => pure c
              pure (cslot .nil, emitRaw c1 .brk)
      | .form (.sym "fn" :: args) _ =>
        let (self, rest) : Option String × List Expr := match args with
          | .sym n :: r => (some n, r)
          | .lit (.kw _) :: r => (none, r)
          | r => (none, r)
        match rest with
        | .btup ps :: body =>
          match symParams ps with
          | none => none
          | some names => do
            let c1 : CState := { c with scopes := c.scopes.modify 0 (fun s => { s with closure := true }) }
            let c2 := pushScope c1 true false false false
            let c3p ← names.foldlM (fun (cc : CState) nm => do let (s, cc') ← farslot cc; pure (nameslot cc' nm s)) c2
            -- `argregs`: the fresh function scope's symbols are exactly the parameters, in stack order
            let c3 ← fnMoveArgs c3p ((c3p.scopes.headD default).syms.map (fun p => slotReg p.slot))
            let c4 ← match self with
              | some nm =>
                if names.contains nm then pure c3 else do
                  let (s, cc) ← farslot c3
                  let s' : JSlot := { s with named := true }
                  let cc1 ← emitS cc .loadSelf s' true
                  pure (nameslot cc1 nm s')
              | none => pure c3
            let c5 ← if body.isEmpty then pure (emitRaw c4 .retNil) else fnBody rec' body c4
            let arity := names.length
            let (d, c6) ← popFuncdef c5 arity arity arity false
            let (di, c7) := addFuncdef c6 (d.withSlots arity)
            let (t, c8) ← getTarget c7 opts
            let c9 ← emitSI c8 .closure t di true
            pure (t, c9)
        | _ => none
      | .form (hd :: args) _ =>
        match hd with
        | .sym s => if specials.contains s then none else cCall rec' opts hd args c
        | _ => cCall rec' opts hd args c
    match res with
    | none => none
    | some (ret, c1) => do
      let (ret1, c2) ← if opts.tail then cReturn c1 ret else pure (ret, c1)
      let (ret2, c3) ← match opts.hint with
        | some h => do let c' ← copySlot c2 h ret1; pure (h, c')
        | none => pure (ret1, c2)
      pure (ret2, { c3 with cur := last })
/-- `janet_compile`: root function scope, tail position -/
def compileTop (fuel lim : Nat) (globs : String → Option Glob) (x : Expr) : Option (FDef × Array Value) := do
  let c0 : CState := { lim := lim, globs := globs }
  let c1 := pushScope c0 true false true false
  let (_, c2) ← cValue fuel { tail := true } x c1
  let (d, c3) ← popFuncdef c2 0 0 2147483647 false
  pure (d, c3.vals)

end JanetModel.Compile
