/- C02: error propagation in TAIL position (first part): a call of a global core function compiled in tail position whose
   operands evaluate and whose APPLICATION raises: the VM reaches the JOP_TAILCALL in the world `Lang/Sem` has, its next step
   raises the same error at the source-map entry of that instruction = the compiler's cursor = the position of the call form.
   (Adapted from `tail_call_core`, Compile/SeqTail.lean, and `err_call_core`, Compile/SeqErr.lean.) -/
import JanetModel.Compile.SeqErrIfCond
import JanetModel.Compile.SeqShapeMaxT
namespace JanetModel.Compile
open JanetModel.Emit JanetModel.Lang JanetModel.Bytecode.Exec JanetModel.Gen.Bytecode

section
variable (p : Program) (f0 : Frame) (rest : List Frame) (V : Array Value) (P : List KConst)

theorem err_tailcall_core (hP : P.length < 65536)
    (hK : ∀ i, i < P.length → (p.defs.getD f0.defIdx default).consts.getD i .nil = litOf V (P.getD i .nil))
    (FF : FloatFacts) (G : String → Prop) (b w : Bool) (fuel : Nat) (IH : CorrectAt p f0 rest V P G (TF G b) w fuel)
    (opts : Fopts) (htl : opts.tail = true)
    (f : String) (args : List Expr) (hna : f ≠ "apply") (hG : G f) (hTa : ∀ a, a ∈ args → TF G b a)
    (c cq : CState) (slot0 : JSlot) (sc : Scope) (rs : List Scope) (pool : List KConst) (ps : List (List KConst))
    (n2 : Nat) (env env_a : Env) (s s_a s' : SS) (vs : List Value) (ev : Value) (epos : Pos)
    (hs : c.scopes = sc :: rs) (hp : c.pools = pool :: ps) (hl : c.lim ≤ 240) (htop : sc.top = false)
    (hm : c.map.length = c.buf.length)
    (hcc : cCall (cValue fuel) opts (.sym f) args c = some (slot0, cq))
    (hsa : evalArgs (n2 + 1) c.cur env args s = .ok (vs, env_a) s_a) (happ : applyFn (n2 + 1) c.cur (.cfun f) vs s_a = .err ev epos s')
    (hE : EnvS G c.scopes env s.boxes.size sc.ra) :
    epos = c.cur ∧ s' = s_a ∧
    ∃ (mx : Nat) (more : List KConst) (seg : List CI) (segm : List Pos),
      cq.buf = c.buf ++ seg ∧ cq.map = c.map ++ segm ∧ cq.pools = (pool ++ more) :: ps ∧ PrefA c.vals cq.vals ∧
      (∃ sc', cq.scopes = sc' :: rs ∧ sc'.ra.max = mx) ∧
      ∀ (k : Cfg), k.w = s.st.world → k.args = #[] → EnvD c.scopes env s k.regs →
        CodeAt (p.defs.getD f0.defIdx default).code k.pc seg → MapAt (p.defs.getD f0.defIdx default).smap k.pc segm →
        PrefL (pool ++ more) P → PrefA cq.vals V → mx < k.regs.size →
        ∃ (regs' A : Array Value) (pc' : Nat),
          Reach p (inj f0 rest k) (inj f0 rest { regs := regs', pc := pc', args := A, w := s'.st.world }) ∧ regs'.size = k.regs.size ∧
          step p (inj f0 rest { regs := regs', pc := pc', args := A, w := s'.st.world }) =
            .err ev epos (inj f0 rest { regs := regs', pc := pc', args := A, w := s'.st.world }) := by
  obtain ⟨hpos, hst, hraise⟩ := applyFn_cfun_err n2 c.cur f hna vs s_a s' ev epos happ
  subst hpos hst
  refine ⟨rfl, rfl, ?_⟩
  obtain ⟨head, c1, slots, c2, c3, h1, h2, h3, hrest⟩ := cCallT_inv (cValue fuel) opts htl f args c cq slot0 hcc
  cases fuel with
  | zero => simp [cValue] at h1
  | succ fuel' =>
  have hg0 : lookupSlot c f = none := by rw [lookupSlot_lk]; exact hE.1 f hG
  rw [cValue_sym, resolve_global _ f hg0] at h1
  have hgs : globalSlot c f = some (constSlot c (.cfun f)) := by
    unfold globalSlot at h1 ⊢
    split at h1 <;> simp_all [fin]
  rw [hgs] at h1
  simp only [fin, Option.some.injEq, Prod.mk.injEq] at h1
  obtain ⟨hh, hc1⟩ := h1
  obtain ⟨vals1, kf, k1, k2, k3, k4⟩ := kOf_spec' FF c (.cfun f) trivial
  have cs : constSlot c (.cfun f) = (cslot kf, { c with vals := vals1 }) := by
    unfold constSlot; rw [k1]
  rw [cs] at hh hc1
  have hhead : head = cslot kf := hh.symm
  have hc1eq : c1 = { c with vals := vals1 } := hc1.symm
  subst hhead hc1eq
  have hs1 : ({ c with vals := vals1 } : CState).scopes = sc :: rs := hs
  have hp1 : ({ c with vals := vals1 } : CState).pools = pool :: ps := hp
  obtain ⟨ra2, ns2, more2, seg2, segm2, hc2, pv2, r1a, r3a, sok2, bx2, es2, nf2, vm2⟩ :=
    toSlots_correct p f0 rest V P G (TF G b) w (fuel' + 1) IH (tf_ML G b w (fuel' + 1)) (fun a h => h.notSplice) args hTa _ c2 slots sc rs pool ps
      (n2 + 1) c.cur env env_a s s' vs hs1 hp1 hl htop (fun _ => hm) h2 hsa hE
  -- compile-only: the operands' map segment is as long as their code
  have hlen2 : segm2.length = seg2.length := by
    obtain ⟨ra', ns', more', seg', segm', hc2', _, _, hl'⟩ :=
      toSlots_shapeM G (fuel' + 1) (tf_shapeM_at G (fuel' + 1)) b args hTa _ c2 slots sc rs pool ps hs1 hp1 htop hm hE.lkl h2
    have eb : ({ c with vals := vals1 } : CState).buf ++ seg2 = ({ c with vals := vals1 } : CState).buf ++ seg' := by
      have e1 : c2.buf = ({ c with vals := vals1 } : CState).buf ++ seg2 := by rw [hc2]
      have e2 : c2.buf = ({ c with vals := vals1 } : CState).buf ++ seg' := by rw [hc2']
      rw [← e1, e2]
    have em : ({ c with vals := vals1 } : CState).map ++ segm2 = ({ c with vals := vals1 } : CState).map ++ segm' := by
      have e1 : c2.map = ({ c with vals := vals1 } : CState).map ++ segm2 := by rw [hc2]
      have e2 : c2.map = ({ c with vals := vals1 } : CState).map ++ segm' := by rw [hc2']
      rw [← e1, e2]
    rw [List.append_cancel_left eb, List.append_cancel_left em]; exact hl'
  have hs2 : c2.scopes = { sc with ra := ra2, syms := sc.syms ++ ns2 } :: rs := by rw [hc2]
  have hp2 : c2.pools = (pool ++ more2) :: ps := by rw [hc2]
  have hl2 : c2.lim ≤ 240 := by rw [hc2]; exact hl
  have hsk : ∀ sl, sl ∈ slots → SK sl := fun sl h => (sok2 sl h).sk
  have hal2 : ∀ sl r, sl ∈ slots → sl.k = .loc r → ra2.alloc r = true := by
    intro sl r hsl hk
    rcases sok2 sl hsl with ⟨_, kc, hk', _⟩ | ⟨_, _, r', hk', a4, _⟩ | ⟨_, _, d', hk', _, a5, _, _⟩
    · rw [hk] at hk'; exact absurd hk' (by simp)
    · rw [hk] at hk'; injection hk' with e; subst e; exact a4
    · rw [hk] at hk'; injection hk' with e; subst e; exact a5
  obtain ⟨ra3, more3, seg3, segm3, hc3, e3, m3, vm3⟩ :=
    pushN p f0 rest V P hP hK slots c2 c3 { sc with ra := ra2, syms := sc.syms ++ ns2 } rs (pool ++ more2) ps hs2 hp2 hl2 hsk hal2 h3
  have hlen3 : segm3.length = seg3.length := by
    obtain ⟨ra', more', seg', segm', hc3', hl'⟩ := pushSlots_stepR slots c2 c3 _ rs (pool ++ more2) ps hs2 hp2 h3
    have eb : c2.buf ++ seg3 = c2.buf ++ seg' := by
      have e1 : c3.buf = c2.buf ++ seg3 := by rw [hc3]
      have e2 : c3.buf = c2.buf ++ seg' := by rw [hc3']
      rw [← e1, e2]
    have em : c2.map ++ segm3 = c2.map ++ segm' := by
      have e1 : c3.map = c2.map ++ segm3 := by rw [hc3]
      have e2 : c3.map = c2.map ++ segm' := by rw [hc3']
      rw [← e1, e2]
    rw [List.append_cancel_left eb, List.append_cancel_left em]; exact hl'
  have hs3 : c3.scopes = { sc with ra := ra3, syms := sc.syms ++ ns2 } :: rs := by rw [hc3]
  have hp3 : c3.pools = ((pool ++ more2) ++ more3) :: ps := by rw [hc3]
  have hl3 : c3.lim ≤ 240 := by rw [hc3]; exact hl2
  have hct : curTop c3 = false := by simp [curTop, hs3, htop]
  obtain ⟨c4, c5, hem, hsl, hf1, hf2⟩ := hrest hct
  obtain ⟨t, ra4, a1, a2, a3, a4, a5, a6, hc4⟩ :=
    emitS_const c3 c4 .tailcall (cslot kf) kf rfl { sc with ra := ra3, syms := sc.syms ++ ns2 } rs ((pool ++ more2) ++ more3) ps hs3 hp3 hl3 hem
  obtain ⟨m4, hm4⟩ : PrefL ((pool ++ more2) ++ more3) (if kf.pooled then W.intern ((pool ++ more2) ++ more3) kf else (pool ++ more2) ++ more3) := by
    split
    · exact intern_pref _ kf
    · exact PrefL.refl _
  have hs4 : c4.scopes = { sc with ra := ra4, syms := sc.syms ++ ns2 } :: rs := by rw [hc4]
  -- freeing the operand slots and the head changes only the allocator
  obtain ⟨ra5, hc5, hmax5, _⟩ := freeslots_keep (fun _ => False) slots c4 c5 { sc with ra := ra4, syms := sc.syms ++ ns2 } rs hs4
    (by
      intro sl hsl
      rcases sok2 sl hsl with ⟨hcf, _⟩ | ⟨_, hnm, _⟩ | ⟨hcf, hnm, da, hka', _⟩
      · exact Or.inl hcf
      · exact Or.inr (Or.inl hnm)
      · exact Or.inr (Or.inr ⟨hcf, hnm, da, hka', fun h => h⟩)) hf1
  rw [freeslot_const c5 (cslot kf) rfl] at hf2
  have hcq : c5 = cq := Option.some.inj hf2
  subst hcq
  have e3' : ∀ j, ra3.alloc j = ra2.alloc j := e3
  have m3' : ra2.max ≤ ra3.max := m3
  have a4' : ra3.max ≤ ra4.max := a4
  have a1' : ra3.alloc t = false := a1
  have hcur3 : c3.cur = c.cur := by rw [hc3, hc2]
  refine ⟨ra4.max, more2 ++ more3 ++ m4, seg2 ++ seg3 ++
      [CI.mi (MI.ldk t kf (W.poolIdx (if kf.pooled = true then W.intern ((pool ++ more2) ++ more3) kf else (pool ++ more2) ++ more3) kf)),
       CI.mi (MI.pay Op.tailcall.toNat Shape.s false [t] 0)], segm2 ++ segm3 ++ [c.cur, c.cur], ?_, ?_, ?_, ?_, ?_, ?_⟩
  · rw [hc5, hc4, hc3, hc2]; simp [List.append_assoc]
  · rw [hc5, hc4, hcur3, hc3, hc2]; simp [List.append_assoc]
  · rw [hc5, hc4, hm4]; simp [List.append_assoc]
  · rw [hc5, hc4, hc3]; exact PrefA.trans k2 pv2
  · exact ⟨_, by rw [hc5], hmax5⟩
  · intro k hkw hka hD hcode hmap hpre hV hsz
    have hvals : c5.vals = c2.vals := by rw [hc5, hc4, hc3]
    rw [hvals] at hV
    have hcodeA : CodeAt (p.defs.getD f0.defIdx default).code k.pc seg2 := by
      rw [List.append_assoc] at hcode; exact hcode.left
    have hcodeB : CodeAt (p.defs.getD f0.defIdx default).code (k.pc + seg2.length) seg3 := by
      rw [List.append_assoc] at hcode; exact hcode.right.left
    have hcodeC := by
      rw [List.append_assoc] at hcode; exact hcode.right.right
    have hpreC : PrefL (if kf.pooled then W.intern ((pool ++ more2) ++ more3) kf else (pool ++ more2) ++ more3) P := by
      rw [hm4]; refine PrefL.trans ⟨[], ?_⟩ hpre; simp [List.append_assoc]
    have hpreA : PrefL (pool ++ more2) P := PrefL.trans ⟨more3 ++ m4, by simp [List.append_assoc]⟩ hpre
    have hpreB : PrefL (pool ++ more2 ++ more3) P := PrefL.trans ⟨m4, by simp [List.append_assoc]⟩ hpre
    obtain ⟨regs2, rch2, sz2, pr2, sv2, ed2⟩ := vm2 k hkw hka hD hcodeA hpreA hV (by omega)
    obtain ⟨regs3, A, rch3, hA, sz3, pr3⟩ := vm3 { regs := regs2, pc := k.pc + seg2.length, args := #[], w := s'.st.world } hcodeB hpreB
      (by show ra3.max < regs2.size; omega)
    have sz3' : regs3.size = regs2.size := sz3
    have hlit : litOf V kf = .cfun f := by
      rw [litOf_pref (PrefA.trans pv2 hV) kf k3]; exact k4
    have hargs : A.toList = vs := by
      rw [hA, ← sv2]; simp
    let k3 : Cfg := { regs := regs3, pc := k.pc + seg2.length + seg3.length, args := A, w := s'.st.world }
    have hidx : W.poolIdx (if kf.pooled then W.intern ((pool ++ more2) ++ more3) kf else (pool ++ more2) ++ more3) kf < 65536 := by
      have := poolIdx_le (if kf.pooled then W.intern ((pool ++ more2) ++ more3) kf else (pool ++ more2) ++ more3) kf
      have := hpreC.length
      omega
    have hconst : kf.pooled = true → (p.defs.getD f0.defIdx default).consts.getD
        (W.poolIdx (if kf.pooled then W.intern ((pool ++ more2) ++ more3) kf else (pool ++ more2) ++ more3) kf) .nil = litOf V kf := by
      intro hpl
      obtain ⟨h1, h2⟩ := pooled_const_at P ((pool ++ more2) ++ more3) kf hpreC hpl
      rw [hK _ h1, h2]
    have s1 := run_ldk p f0 rest k3 t kf _ V (by omega) hidx hcodeC.head hconst
    let k4 : Cfg := { k3 with regs := k3.regs.setIfInBounds t (litOf V kf), pc := k3.pc + 1 }
    have hcode2 : (p.defs.getD f0.defIdx default).code[k4.pc]? = some (CI.tailcall t).word := by
      rw [← tailcall_word]; exact hcodeC.tail.head
    have hreg : (inj f0 rest k4).getReg t = .cfun f := by
      rw [inj_getReg]
      show (regs3.setIfInBounds t (litOf V kf)).getD t .nil = .cfun f
      rw [getD_set_eq _ _ _ (by omega), hlit]
    have s2 := step_tailcall p (inj f0 rest k4) t (by omega) (by rw [inj_curDef, inj_pc]; exact hcode2)
    rw [hreg, doTailcall_cfun] at s2
    have hw1 : (inj f0 rest k4).world = s'.st.world := rfl
    have ha1 : (inj f0 rest k4).args = A := rfl
    rw [hw1, ha1, hargs] at s2
    have hpos : curPos p (inj f0 rest k4) = c.cur := by
      rw [inj_curPos]
      have hi : (segm2 ++ segm3 ++ [c.cur, c.cur])[seg2.length + seg3.length + 1]? = some c.cur := by
        rw [List.getElem?_append_right (by simp [hlen2, hlen3])]
        simp [hlen2, hlen3]
      have := hmap (seg2.length + seg3.length + 1) c.cur hi
      have e : k.pc + (seg2.length + seg3.length + 1) = k4.pc := by show _ = k.pc + seg2.length + seg3.length + 1; omega
      rw [e] at this
      rw [this]
    refine ⟨regs3.setIfInBounds t (litOf V kf), A, k.pc + seg2.length + seg3.length + 1, ?_, by simp; omega, ?_⟩
    · exact Reach.trans rch2 (Reach.trans rch3 (Reach.head s1 (Reach.refl _ _)))
    · rcases hraise with ⟨hcp, hev⟩ | hcp
      · rw [hcp] at s2
        simp only [raise] at s2
        rw [hpos] at s2
        rw [hev]
        exact s2
      · rw [hcp] at s2
        simp only [raise] at s2
        rw [hpos] at s2
        exact s2

end

end JanetModel.Compile
