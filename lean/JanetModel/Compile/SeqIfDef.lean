/- C02: `janetc_if` (specials.c) as the model compiles it, for options without tail / hint: `Compile.cValue` on
   `(if cnd tb [fb])` unfolded once into `cIf` (prologue: target, condition scope, condition), `cIfConst` (constant condition:
   folding, the other branch thrown away) and `cIfJump` (JUMP_IF_NOT / JUMP with the two patches). -/
import JanetModel.Compile.SeqSpec
namespace JanetModel.Compile
open JanetModel.Emit JanetModel.Lang JanetModel.Bytecode.Exec JanetModel.Gen.Bytecode

def fbNilOf (fb : Expr) : Bool := match fb with | .lit .nil => true | _ => false

/-- constant condition: only the live branch is kept -/
def cIfConst (rec' : Fopts → Expr → CState → Option (JSlot × CState)) (opts : Fopts) (target : JSlot) (tb fb : Expr) (k : KConst) (c3 : CState) :
    Option (JSlot × CState) :=
  let (tb', fb') := if !constTruthy k then (fb, tb) else (tb, fb)
  let fbNil' : Bool := fbNilOf fb'
  let c4 := pushScope c3 false false false false
  do
    let (right, c5) ← rec' opts tb' c4
    let c6 ← if !opts.drop && !false then copySlot c5 target right else pure c5
    let c7 ← popScope c6
    let c8 ← if !fbNil' then throwaway rec' opts fb' c7 else pure c7
    let c9 ← popScope c8
    pure (target, c9)

/-- non-constant condition: conditional jump over the then-branch, jump over the else-branch -/
def cIfJump (rec' : Fopts → Expr → CState → Option (JSlot × CState)) (opts : Fopts) (target cond : JSlot) (tb fb : Expr) (fbNil : Bool) (c3 : CState) :
    Option (JSlot × CState) := do
  let c4 ← emitSI c3 .jumpIfNot cond 0 false
  let labeljr := lastLabel c4
  let c5 := pushScope c4 false false false false
  let (left, c6) ← rec' opts tb c5
  let c7 ← if !opts.drop && !false then copySlot c6 target left else pure c6
  let c8 ← popScope c7
  let labeljd := c8.buf.length
  let c9 := if !false && !(opts.drop && fbNil) then emitRaw c8 (.jump 0) else c8
  let labelr := c9.buf.length
  let c10 := pushScope c9 false false false false
  let (right, c11) ← rec' opts fb c10
  let c12 ← if !opts.drop && !false then copySlot c11 target right else pure c11
  let c13 ← popScope c12
  let c14 ← popScope c13
  let labeld := c14.buf.length
  if labelr - labeljr > 32767 || labeld - labeljd > 0x7FFFFF then none else
  let buf1 := modBuf c14.buf labeljr (patchCond (labelr - labeljr))
  let jumped := !false && !(opts.drop && fbNil)
  if !false && !jumped && labeld ≠ labeljd then none else
  let buf2 := if jumped then modBuf buf1 labeljd (fun _ => .jump (Int.ofNat (labeld - labeljd))) else buf1
  pure ({ target with returned := target.returned || false }, { c14 with buf := buf2 })

/-- target, condition scope, condition; then one of the two paths -/
def cIfBody (rec' : Fopts → Expr → CState → Option (JSlot × CState)) (opts : Fopts) (cnd tb fb : Expr) (c : CState) : Option (JSlot × CState) :=
  let fbNil : Bool := fbNilOf fb
  do
    let (target, c1) ← if opts.drop || false then pure (cslot .nil, c) else getTarget c opts
    let c2 := pushScope c1 false false false false
    let (cond, c3) ← rec' {} cnd c2
    match isConstSlot cond with
    | some k => cIfConst rec' opts target tb fb k c3
    | none => cIfJump rec' opts target cond tb fb fbNil c3

def cIf (rec' : Fopts → Expr → CState → Option (JSlot × CState)) (opts : Fopts) (cnd tb : Expr) (rest : List Expr) (c : CState) :
    Option (JSlot × CState) :=
  match rest with
  | _ :: _ :: _ => none
  | _ => cIfBody rec' opts cnd tb (rest.headD (.lit .nil)) c

theorem cIf_le1 (rec' : Fopts → Expr → CState → Option (JSlot × CState)) (opts : Fopts) (cnd tb : Expr) (rest : List Expr) (c : CState)
    (h : rest.length ≤ 1) : cIf rec' opts cnd tb rest c = cIfBody rec' opts cnd tb (rest.headD (.lit .nil)) c := by
  rcases rest with _ | ⟨e, _ | ⟨e2, r⟩⟩
  · rfl
  · rfl
  · simp at h

theorem cValue_if_o (fuel : Nat) (opts : Fopts) (ht : opts.tail = false) (hh : opts.hint = none) (cnd tb : Expr) (rest : List Expr) (p : Pos) (c : CState) :
    cValue (fuel + 1) opts (.form (.sym "if" :: cnd :: tb :: rest) p) c = fin c.cur (cIf (cValue fuel) opts cnd tb rest (curAt c p)) := by
  simp only [cValue, ht, hh]
  split
  · rename_i h; exact (congrArg (fin c.cur) h).symm
  · rename_i r c1 h
    simp only [Bool.false_eq_true, if_false, Option.pure_def, Option.bind_eq_bind, Option.bind_some]
    exact (congrArg (fin c.cur) h).symm


def ifCopy (drop : Bool) (c : CState) (target s : JSlot) : Option CState := if drop then some c else copySlot c target s
def ifJmp (nojump : Bool) (c8 : CState) : CState := if nojump then c8 else emitRaw c8 (.jump 0)

/-- the two patches of `janetc_if` -/
def ifPatch (nojump : Bool) (buf : List CI) (ljr offr ljd : Nat) : List CI :=
  if nojump then modBuf buf ljr (patchCond offr)
  else modBuf (modBuf buf ljr (patchCond offr)) ljd (fun _ => .jump (Int.ofNat (buf.length - ljd)))

/-- the steps of the jump path -/
theorem cIfJump_inv (rec' : Fopts → Expr → CState → Option (JSlot × CState)) (opts : Fopts) (target cond : JSlot) (tb fb : Expr) (fbNil : Bool)
    (c3 c' : CState) (slot : JSlot) (h : cIfJump rec' opts target cond tb fb fbNil c3 = some (slot, c')) :
    ∃ c4 left c6 c7 c8 right c11 c12 c13 c14,
      emitSI c3 .jumpIfNot cond 0 false = some c4 ∧
      rec' opts tb (pushScope c4 false false false false) = some (left, c6) ∧
      ifCopy opts.drop c6 target left = some c7 ∧ popScope c7 = some c8 ∧
      rec' opts fb (pushScope (ifJmp (opts.drop && fbNil) c8) false false false false) = some (right, c11) ∧
      ifCopy opts.drop c11 target right = some c12 ∧ popScope c12 = some c13 ∧ popScope c13 = some c14 ∧
      (ifJmp (opts.drop && fbNil) c8).buf.length ≤ 32767 + lastLabel c4 ∧ c14.buf.length ≤ 8388607 + c8.buf.length ∧
      ((opts.drop && fbNil) = true → c14.buf.length = c8.buf.length) ∧
      slot = target ∧
      c' = { c14 with buf := ifPatch (opts.drop && fbNil) c14.buf (lastLabel c4) ((ifJmp (opts.drop && fbNil) c8).buf.length - lastLabel c4) c8.buf.length } := by
  cases hd : opts.drop <;> cases fbNil
  · simp [cIfJump, hd, Option.bind_eq_some_iff] at h
    obtain ⟨c4, h1, left, c6, h2, c7, h3, c8, h4, right, c11, h5, c12, h6, c13, h7, c14, h8, ⟨h9, h10⟩, h11, h12⟩ := h
    exact ⟨c4, left, c6, c7, c8, right, c11, c12, c13, c14, h1, h2, by simpa [ifCopy] using h3, h4, by simpa [ifJmp] using h5,
      by simpa [ifCopy] using h6, h7, h8, by simpa [ifJmp] using h9, h10, by simp, h11.symm, by rw [← h12]; simp [ifPatch, ifJmp]⟩
  · simp [cIfJump, hd, Option.bind_eq_some_iff] at h
    obtain ⟨c4, h1, left, c6, h2, c7, h3, c8, h4, right, c11, h5, c12, h6, c13, h7, c14, h8, ⟨h9, h10⟩, h11, h12⟩ := h
    exact ⟨c4, left, c6, c7, c8, right, c11, c12, c13, c14, h1, h2, by simpa [ifCopy] using h3, h4, by simpa [ifJmp] using h5,
      by simpa [ifCopy] using h6, h7, h8, by simpa [ifJmp] using h9, h10, by simp, h11.symm, by rw [← h12]; simp [ifPatch, ifJmp]⟩
  · simp [cIfJump, hd, Option.bind_eq_some_iff] at h
    obtain ⟨c4, h1, left, c6, h2, c8, h4, right, c11, h5, c13, h7, c14, h8, ⟨h9, h10⟩, h11, h12⟩ := h
    exact ⟨c4, left, c6, c6, c8, right, c11, c11, c13, c14, h1, h2, by simp [ifCopy], h4, by simpa [ifJmp] using h5,
      by simp [ifCopy], h7, h8, by simpa [ifJmp] using h9, h10, by simp, h11.symm, by rw [← h12]; simp [ifPatch, ifJmp]⟩
  · simp [cIfJump, hd, Option.bind_eq_some_iff] at h
    obtain ⟨c4, h1, left, c6, h2, c8, h4, right, c11, h5, c13, h7, c14, h8, ⟨h9, h10⟩, h10b, h11, h12⟩ := h
    exact ⟨c4, left, c6, c6, c8, right, c11, c11, c13, c14, h1, h2, by simp [ifCopy], h4, by simpa [ifJmp] using h5,
      by simp [ifCopy], h7, h8, by simpa [ifJmp] using h9, h10, by intro _; exact h10b, h11.symm, by rw [← h12]; simp [ifPatch, ifJmp]⟩


/-- the prologue of `janetc_if` -/
theorem cIfBody_inv (rec' : Fopts → Expr → CState → Option (JSlot × CState)) (opts : Fopts) (cnd tb fb : Expr) (c c' : CState) (slot : JSlot)
    (h : cIfBody rec' opts cnd tb fb c = some (slot, c')) :
    ∃ target c1 cond c3, (if opts.drop then some (cslot .nil, c) else getTarget c opts) = some (target, c1) ∧
      rec' {} cnd (pushScope c1 false false false false) = some (cond, c3) ∧
      (match isConstSlot cond with
       | some k => cIfConst rec' opts target tb fb k c3
       | none => cIfJump rec' opts target cond tb fb (fbNilOf fb) c3) = some (slot, c') := by
  cases hd : opts.drop
  · simp only [cIfBody, hd, Bool.false_or, Bool.false_eq_true, if_false, Option.bind_eq_bind, Option.bind_eq_some_iff, Prod.exists] at h
    obtain ⟨target, c1, hT, cond, c3, hcond, hrest⟩ := h
    exact ⟨target, c1, cond, c3, by simpa using hT, hcond, hrest⟩
  · simp only [cIfBody, hd, Bool.true_or, if_true, Option.pure_def, Option.bind_eq_bind, Option.bind_some, Option.bind_eq_some_iff, Prod.exists] at h
    obtain ⟨cond, c3, hcond, hrest⟩ := h
    exact ⟨cslot .nil, c, cond, c3, by simp, hcond, hrest⟩


/-- the steps of the folding path -/
theorem cIfConst_inv (rec' : Fopts → Expr → CState → Option (JSlot × CState)) (opts : Fopts) (target : JSlot) (tb fb : Expr) (k : KConst)
    (c3 c' : CState) (slot : JSlot) (h : cIfConst rec' opts target tb fb k c3 = some (slot, c')) :
    ∃ right c5 c6 c7 c8, rec' opts (if constTruthy k then tb else fb) (pushScope c3 false false false false) = some (right, c5) ∧
      ifCopy opts.drop c5 target right = some c6 ∧ popScope c6 = some c7 ∧
      (if fbNilOf (if constTruthy k then fb else tb) then some c7 else throwaway rec' opts (if constTruthy k then fb else tb) c7) = some c8 ∧
      popScope c8 = some c' ∧ target = slot := by
  cases hk : constTruthy k <;> cases hd : opts.drop <;> cases hn : fbNilOf (if constTruthy k then fb else tb) <;>
    simp only [hk, Bool.false_eq_true, if_false, if_true] at hn <;>
    simp [cIfConst, hk, hd, hn, ifCopy, Option.bind_eq_some_iff] at h ⊢
  all_goals exact h

end JanetModel.Compile
