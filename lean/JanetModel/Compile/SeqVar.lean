/- C02: `janetc_var` with a symbol pattern in a local scope: `namelocal` with the mutable flag never aliases — always a fresh
   register and a copy, the new name's slot flagged MUTABLE — against `Lang/Sem`'s fresh box (same as `def`).  Without `set`
   in the fragment the variable is never written; this is the declaration half of `var` / `set`. -/
import JanetModel.Compile.SeqCoreIf
namespace JanetModel.Compile
open JanetModel.Emit JanetModel.Lang JanetModel.Bytecode.Exec JanetModel.Gen.Bytecode

/-- `janetc_var` with a symbol pattern in a local scope (no hint) -/
def cVar (rec' : Fopts → Expr → CState → Option (JSlot × CState)) (name : String) (v : Expr) (c : CState) : Option (JSlot × CState) :=
  if curTop c then none else do
    let (r, c1) ← rec' {} v c
    let c2 ← namelocal c1 name true r
    pure (r, c2)

theorem cValue_var_o (fuel : Nat) (opts : Fopts) (ht : opts.tail = false) (hh : opts.hint = none) (name : String) (v : Expr) (p : Pos) (c : CState) :
    cValue (fuel + 1) opts (.form [.sym "var", .sym name, v] p) c = fin c.cur (cVar (cValue fuel) name v (curAt c p)) := by
  simp only [cValue, ht, hh]
  split
  · rename_i h; exact (congrArg (fin c.cur) h).symm
  · rename_i r c1 h
    simp only [Bool.false_eq_true, if_false, Option.pure_def, Option.bind_eq_bind, Option.bind_some]
    exact (congrArg (fin c.cur) h).symm

theorem eval_var_inv (n : Nat) (cur : Pos) (env env' : Env) (x : String) (ve : Expr) (p : Pos) (s s' : SS) (v : Value)
    (h : eval n cur env (.form [.sym "var", .sym x, ve] p) s = .ok (v, env') s') :
    ∃ n2 env1 s1, n = n2 + 1 ∧ eval n2 (posOf cur p) env ve s = .ok (v, env1) s1 ∧
      env' = (x, s1.boxes.size) :: env1 ∧ s' = { s1 with boxes := s1.boxes.push v } := by
  cases n with
  | zero => simp [eval] at h
  | succ n2 =>
    have e : eval (n2 + 1) cur env (.form [.sym "var", .sym x, ve] p) s =
        (match eval n2 (posOf cur p) env ve s with
         | .ok (v, env1) s' =>
           match destructure n2 (posOf cur p) env1 (.sym x) v s' with
           | .ok env2 s'' => .ok (v, env2) s''
           | .err v p s'' => .err v p s'' | .brk v s'' => .brk v s'' | .stop w => .stop w
         | r => r) := by
      simp only [eval, List.getLast?, List.getLast_singleton] <;> rfl
    rw [e] at h
    cases he : eval n2 (posOf cur p) env ve s with
    | ok r s1 =>
      obtain ⟨v1, env1⟩ := r
      rw [he] at h
      cases n2 with
      | zero => simp [eval] at he
      | succ n3 =>
        simp only [destructure, Lang.bind, R.ok.injEq, Prod.mk.injEq] at h
        obtain ⟨⟨hv, henv⟩, hs⟩ := h
        subst hv
        exact ⟨n3 + 1, env1, s1, rfl, he, henv.symm, hs.symm⟩
    | err _ _ _ => rw [he] at h; exact absurd h (by simp)
    | brk _ _ => rw [he] at h; exact absurd h (by simp)
    | stop _ => rw [he] at h; exact absurd h (by simp)

theorem namelocal_copy_mut (c c2 : CState) (x : String) (r : JSlot) (hsk : SK r) (h : namelocal c x true r = some c2) :
    ∃ ls c1a c1b, farslot c = some (ls, c1a) ∧ copySlot c1a ls r = some c1b ∧ c2 = nameslot c1b x { ls with mutable := true } := by
  obtain ⟨k, cf, nm, mu, ret⟩ := r
  have hX : namelocal c x true { k := k, cflag := cf, named := nm, mutable := mu, returned := ret } =
      (do let (ls, c1) ← farslot c
          let c2 ← copySlot c1 ls { k := k, cflag := cf, named := nm, mutable := mu, returned := ret }
          pure (nameslot c2 x { ls with mutable := true })) := by
    rcases hsk with ⟨kc, hk⟩ | ⟨r0, hk, _⟩
    · simp only at hk; subst hk
      simp [namelocal]
    · simp only at hk; subst hk
      cases nm <;> cases mu <;> simp_all [namelocal]
  rw [hX] at h
  simp only [Option.bind_eq_bind, Option.bind_eq_some_iff, Prod.exists, Option.pure_def, Option.some.injEq] at h
  obtain ⟨ls, c1a, h1, c1b, h2, h3⟩ := h
  exact ⟨ls, c1a, c1b, h1, h2, h3.symm⟩

section
variable (p : Program) (f0 : Frame) (rest : List Frame) (V : Array Value) (P : List KConst)

/-- `janetc_var` -/
theorem var_core (hP : P.length < 65536)
    (hK : ∀ i, i < P.length → (p.defs.getD f0.defIdx default).consts.getD i .nil = litOf V (P.getD i .nil))
    (G : String → Prop) (T : Expr → Prop) (w : Bool) (fuel : Nat) (IH : CorrectAt p f0 rest V P G T w fuel) (x : String) (ve : Expr) (hGx : ¬ G x) (hTv : T ve)
    (c c' : CState) (slot : JSlot) (sc : Scope) (rs : List Scope) (pool : List KConst) (ps : List (List KConst))
    (n2 : Nat) (pos : Pos) (env env1 : Env) (s s1 : SS) (v : Value)
    (hs : c.scopes = sc :: rs) (hp : c.pools = pool :: ps) (hl : c.lim ≤ 240) (htop : sc.top = false)
    (hm : w = true → c.map.length = c.buf.length)
    (hc : cVar (cValue fuel) x ve c = some (slot, c')) (hsem : eval n2 pos env ve s = .ok (v, env1) s1)
    (hE : EnvS G c.scopes env s.boxes.size sc.ra) :
    Correct2 p f0 rest V P G false c c' slot sc rs pool ps env ((x, s1.boxes.size) :: env1) s { s1 with boxes := s1.boxes.push v } v := by
  have hct : curTop c = false := by simp [curTop, hs, htop]
  simp only [cVar, hct, Bool.false_eq_true, if_false, Option.bind_eq_bind, Option.bind_eq_some_iff, Prod.exists, Option.pure_def,
    Option.some.injEq, Prod.mk.injEq] at hc
  obtain ⟨r, c1, hv, c2, hnl, hslot, hc2⟩ := hc
  subst hslot hc2
  obtain ⟨ra1, ns1, more1, seg1, segm1, hc1, pv1, mono1, max1, sok1, bx1, es1, nf1, vm1⟩ :=
    IH ve {} c c1 r sc rs pool ps n2 pos env env1 s s1 v rfl rfl hs hp hl htop hm hTv hv hsem hE
  have hs1 : c1.scopes = { sc with ra := ra1, syms := sc.syms ++ ns1 } :: rs := by rw [hc1]
  have hp1 : c1.pools = (pool ++ more1) :: ps := by rw [hc1]
  have hl1 : c1.lim ≤ 240 := by rw [hc1]; exact hl
  rw [hs1] at es1
  have hbx : PrefA s.boxes ({ s1 with boxes := s1.boxes.push v } : SS).boxes := PrefA.trans bx1 (PrefA.push _ _)
  have hsk : SK r := sok1.sk
  have hcopy := namelocal_copy_mut c1 c2 x r hsk hnl
  obtain ⟨ls, c1a, c1b, hfar, hcp, hc2⟩ := hcopy
  rw [farslot_eq] at hfar
  obtain ⟨d', raT, hls, b1, b2, b3, b4, b5, hc1a⟩ := getTarget_spec c1 c1a ls { sc with ra := ra1, syms := sc.syms ++ ns1 } rs hs1 hl1 hfar
  have b1' : ra1.alloc d' = false := b1
  have b4' : ra1.max ≤ raT.max := b4
  have b5' : ∀ j, raT.alloc j = (if j = d' then true else ra1.alloc j) := b5
  have hd240 : d' < 240 := by omega
  have hs1a : c1a.scopes = { sc with ra := raT, syms := sc.syms ++ ns1 } :: rs := by rw [hc1a]
  have hp1a : c1a.pools = (pool ++ more1) :: ps := by rw [hc1a]; exact hp1
  have hne : ∀ r0, r.k = .loc r0 → r0 ≠ d' := by
    intro r0 hk0 e
    subst e
    rcases sok1 with ⟨_, kc, hk, _⟩ | ⟨_, _, r', hk, a3, _⟩ | ⟨_, _, d, hk, _, a5, _⟩
    · rw [hk0] at hk; exact absurd hk (by simp)
    · rw [hk0] at hk; injection hk with e; subst e; rw [b1'] at a3; exact Bool.noConfusion a3
    · rw [hk0] at hk; injection hk with e; subst e; rw [b1'] at a5; exact Bool.noConfusion a5
  obtain ⟨moreC, segC, segmC, hc1b, vmC⟩ :=
    copyFresh p f0 rest V P hP hK c1a c1b ls r d' (by rw [hls]) (by rw [hls]) _ rs (pool ++ more1) ps hs1a hp1a hd240 hsk hne hcp
  have hs1b : c1b.scopes = { sc with ra := raT, syms := sc.syms ++ ns1 } :: rs := by rw [hc1b]
  let pair : SymPair := { name := x, slot := { ({ ls with mutable := true } : JSlot) with named := true } }
  have hs2 : c2.scopes = { sc with ra := raT, syms := (sc.syms ++ ns1) ++ [pair] } :: rs := by
    rw [hc2]; simp only [nameslot, hs1b] <;> rfl
  have hsc2 : c2.scopes = ({ ({ sc with syms := sc.syms ++ ns1 } : Scope) with ra := raT, syms := ({ sc with syms := sc.syms ++ ns1 } : Scope).syms ++ [pair] } :: rs) := hs2
  have hpk : pair.slot.k = .loc d' := by show ls.k = _; rw [hls]
  have hpc : pair.slot.cflag = false := by show ls.cflag = _; rw [hls]
  have hsupT : ∀ r0, ra1.alloc r0 = true → raT.alloc r0 = true := by
    intro r0 h0; rw [b5' r0]; split
    · rfl
    · exact h0
  have hdT : raT.alloc d' = true := by rw [b5' d']; simp
  have hv2 : c2.vals = c1.vals := by rw [hc2]; simp only [nameslot, hs1b]; rw [hc1b, hc1a]
  have nfC : NameFrame sc c.scopes c2.scopes r := by
    refine ⟨fun d hd hno y sl u l hy hk => ?_, nf1.2⟩
    rw [hsc2, lk_def _ rs raT pair rfl y] at hy
    cases hb : (pair.name == y) with
    | true =>
      rw [hb] at hy
      simp only [if_true, Option.some.injEq, Prod.mk.injEq] at hy
      obtain ⟨e1, _, _⟩ := hy
      subst e1
      rw [hpk] at hk
      injection hk with e
      subst e
      have := mono1 d' hd
      rw [b1'] at this
      exact Bool.noConfusion this
    | false =>
      rw [hb] at hy
      simp only [Bool.false_eq_true, if_false] at hy
      have := nf1.1 d hd hno
      rw [hs1] at this
      exact this y sl u l hy hk
  refine ⟨raT, ns1 ++ [pair], more1 ++ moreC, seg1 ++ segC, segm1 ++ segmC, ?_, ?_, fun r0 h0 => hsupT r0 (mono1 r0 h0), by omega, ?_, hbx, ?_, nfC, ?_⟩
  · rw [hc2]; simp only [nameslot, hs1b]
    rw [hc1b, hc1a, hc1]; simp [List.append_assoc, pair]
  · rw [hv2]; exact pv1
  · rw [hv2]
    rcases sok1 with h | ⟨a1, a2, r', a3, a4, a5⟩ | ⟨a1, a2, d, a3, a4, a5, a6, a7⟩
    · exact Or.inl h
    · exact Or.inr (Or.inl ⟨a1, a2, r', a3, hsupT r' a4, a5⟩)
    · refine Or.inr (Or.inr ⟨a1, a2, d, a3, a4, hsupT d a5, a6, ?_⟩)
      intro y sl u l hy hk
      rw [hsc2, lk_def _ rs raT pair rfl y] at hy
      cases hb : (pair.name == y) with
      | true =>
        rw [hb] at hy
        simp only [if_true, Option.some.injEq, Prod.mk.injEq] at hy
        obtain ⟨e1, _, _⟩ := hy
        subst e1
        rw [hpk] at hk
        injection hk with e
        subst e
        rw [b1'] at a5
        exact Bool.noConfusion a5
      | false =>
        rw [hb] at hy
        simp only [Bool.false_eq_true, if_false] at hy
        rw [hs1] at a7
        exact a7 y sl u l hy hk
  · rw [hsc2]
    have := def_envS G { sc with syms := sc.syms ++ ns1 } rs env1 s1.boxes.size ra1 raT pair d' es1 hGx rfl hpk rfl hpc hsupT hdT hd240
    simpa using this
  · intro k hkw hka hD hcode hpre hV hsz
    rw [hv2] at hV
    obtain ⟨regs1, rch1, sz1, pr1, sv1, ed1⟩ :=
      vm1 k hkw hka hD hcode.left (PrefL.trans ⟨moreC, by simp [List.append_assoc]⟩ hpre) hV (by omega)
    have rchC := vmC { regs := regs1, pc := k.pc + seg1.length, args := #[], w := s1.st.world } hcode.right
      (by rw [List.append_assoc]; exact hpre) (by show d' < regs1.size; omega)
    rw [hs1] at ed1
    have hsame : ∀ r0, ra1.alloc r0 = true → (regs1.setIfInBounds d' (slotVal V regs1 r)).getD r0 .nil = regs1.getD r0 .nil := by
      intro r0 h0
      exact getD_set_ne _ _ _ _ (by intro e; rw [e] at h0; rw [b1'] at h0; exact Bool.noConfusion h0)
    have hval : (regs1.setIfInBounds d' (slotVal V regs1 r)).getD d' .nil = v := by
      rw [getD_set_eq _ _ _ (by omega)]; exact sv1 rfl
    refine ⟨regs1.setIfInBounds d' (slotVal V regs1 r), ?_, by simp [sz1], ?_, ?_, ?_⟩
    · have e : k.pc + (seg1 ++ segC).length = k.pc + seg1.length + segC.length := by
        simp [List.length_append]; omega
      rw [e]
      exact Reach.trans rch1 rchC
    · intro r0 h0
      rw [hsame r0 (mono1 r0 h0), pr1 r0 h0]
    · intro _
      rcases hsk with ⟨kc, hk⟩ | ⟨r0, hk, _⟩
      · have := sv1 rfl
        simp only [slotVal, hk] at this ⊢
        exact this
      · have := sv1 rfl
        simp only [slotVal, hk] at this ⊢
        rw [getD_set_ne _ _ _ _ (hne r0 hk)]
        exact this
    · rw [hsc2]
      exact def_envD G { sc with syms := sc.syms ++ ns1 } rs env1 s1 ra1 raT pair d' regs1 _ v es1 ed1 rfl hpk hsame hval


end

end JanetModel.Compile
