/- C13: WRAP-FREEDOM of the unsigned C arithmetic in strtod.c.  The C-typed model (Strtod/ModelW.lean: every `uint64_t` /
   `uint32_t` intermediate reduced modulo 2^width, widths regenerated from the declarations) coincides with the unbounded
   model (Strtod/Model.lean) on every state the scanner can reach — i.e. no `uint64_t` intermediate ever reaches 2^64 and
   no value stored into a `uint32_t` ever reaches 2^32:

     bignat_muladd : digits < 2^31, factor ≤ 2^31, carry < factor  ⇒  carry + digit·factor < 2^62 + 2^31
     bignat_div    : remainder < divisor ≤ 2^31  ⇒  dividend < 2^62, quotient < 2^31, remainder < 2^31
     bignat_extract: d1,d2,d3 < 2^31  ⇒  top53 < 2^55 at every step
     scanner / convert: the invariants hold along every accepted string (`scanNumberBaseW_eq`). -/
import JanetModel.Strtod.ModelW
import JanetModel.Strtod.ScanLemmas
import JanetModel.Strtod.Extract
import JanetModel.Strtod.Plumbing

namespace JanetModel.Strtod
open JanetModel.Gen.Strtod

/-- `wrap` IS reduction modulo 2^bits -/
theorem wrap_eq_mod (bits x : Nat) : wrap bits x = x % 2 ^ bits := by
  unfold wrap
  split
  · rename_i h
    rw [Nat.shiftRight_eq_div_pow] at h
    have : x < 2 ^ bits := by
      by_contra hc
      have : 1 ≤ x / 2 ^ bits := (Nat.one_le_div_iff (Nat.two_pow_pos _)).2 (by omega)
      omega
    exact (Nat.mod_eq_of_lt this).symm
  · rfl

theorem wrap_of_lt {bits x : Nat} (h : x < 2 ^ bits) : wrap bits x = x := by
  rw [wrap_eq_mod]; exact Nat.mod_eq_of_lt h

private theorem bb : bigBase = 2147483648 := rfl

/-! the regenerated widths are consumed HERE: each lemma fails to build if the declared C type is narrower -/
theorem wrapD {x : Nat} (h : x < 4294967296) : wrap digitBits x = x := wrap_of_lt (by norm_num [digitBits]; exact h)
theorem wrapF {x : Nat} (h : x < 4294967296) : wrap factorBits x = x := wrap_of_lt (by norm_num [factorBits]; exact h)
theorem wrapQ {x : Nat} (h : x < 4294967296) : wrap quotBits x = x := wrap_of_lt (by norm_num [quotBits]; exact h)
theorem wrapC {x : Nat} (h : x < 18446744073709551616) : wrap carryBits x = x :=
  wrap_of_lt (by norm_num [carryBits]; exact h)
theorem wrapV {x : Nat} (h : x < 18446744073709551616) : wrap dividendBits x = x :=
  wrap_of_lt (by norm_num [dividendBits]; exact h)
theorem wrapM {x : Nat} (h : x < 18446744073709551616) : wrap mulBits x = x :=
  wrap_of_lt (by norm_num [mulBits]; exact h)
theorem wrapDM {x : Nat} (h : x < 18446744073709551616) : wrap divMulBits x = x :=
  wrap_of_lt (by norm_num [divMulBits]; exact h)
theorem wrapDv {x : Nat} (h : x < 4294967296) : wrap divisorBits x = x := wrap_of_lt (by norm_num [divisorBits]; exact h)
theorem wrapT {x : Nat} (h : x < 18446744073709551616) : wrap top53Bits x = x :=
  wrap_of_lt (by norm_num [top53Bits]; exact h)

/-! ### bignat_muladd -/

theorem muladdDigitsW_eq (f : Nat) (hf : f ≤ bigBase) (ds : List Nat) (carry : Nat) (hl : AllLt ds) (hc : carry < f) :
    muladdDigitsW f ds carry = muladdDigits f ds carry := by
  induction ds generalizing carry with
  | nil => simp only [muladdDigitsW, muladdDigits, wrap_eq_mod]; rfl
  | cons d r ih =>
    obtain ⟨hd, hr⟩ := AllLt_cons.1 hl
    have hf' : f ≤ 2147483648 := by rw [bb] at hf; exact hf
    have hdf : d * f ≤ 2147483647 * 2147483648 := Nat.mul_le_mul (by rw [bb] at hd; omega) hf'
    have w1 : wrap mulBits (d * f) = d * f := wrapM (by omega)
    have w2 : wrap carryBits (carry + d * f) = carry + d * f := wrapC (by omega)
    have hm := Nat.mod_lt (carry + d * f) bigBase_pos
    have w3 : wrap digitBits ((carry + d * f) % bigBase) = (carry + d * f) % bigBase := wrapD (by rw [bb] at hm ⊢; omega)
    simp only [muladdDigitsW, muladdDigits]
    rw [w1, w2, w3, ih _ hr (carry_step hd hc)]

theorem bignat_muladdW_eq (x : BigNat) (f term : Nat) (hf : f ≤ bigBase) (ht : term < f) (hi : MantInv x) :
    bignat_muladdW x f term = bignat_muladd x f term := by
  have hf' : f ≤ 2147483648 := by rw [bb] at hf; exact hf
  have hx := hi.first_lt
  rw [bb] at hx
  have wf : wrap factorBits f = f := wrapF (by omega)
  have wt : wrap factorBits term = term := wrapF (by omega)
  have hxf : x.first * f ≤ 2147483647 * 2147483648 := Nat.mul_le_mul (by omega) hf'
  have w1 : wrap mulBits (x.first * f) = x.first * f := wrapM (by omega)
  have w2 : wrap mulBits (x.first * f + term) = x.first * f + term := wrapM (by omega)
  have w2' : wrap carryBits (x.first * f + term) = x.first * f + term := wrapC (by omega)
  have hm := Nat.mod_lt (x.first * f + term) bigBase_pos
  have w3 : wrap digitBits ((x.first * f + term) % bigBase) = (x.first * f + term) % bigBase := wrapD (by rw [bb] at hm ⊢; omega)
  unfold bignat_muladdW bignat_muladd
  simp only
  rw [wf, wt, w1, w2, w2', w3, muladdDigitsW_eq f hf _ _ hi.allLt (first_carry hi.first_lt ht)]

/-! ### bignat_div -/

/-- one step of the long division: `remainder < divisor ≤ 2^31`, incoming digit `< 2^31` ⇒ the 64-bit dividend does not
    wrap and quotient and remainder fit 32 (even 31) bits -/
theorem div_step (dv rem lo : Nat) (hdv : 0 < dv) (hle : dv ≤ 2147483648) (hrem : rem < dv) (hlo : lo < 2147483648) :
    wrap dividendBits (wrap divMulBits (wrap divMulBits (rem * bigBase) + lo)) = rem * bigBase + lo ∧
    (rem * bigBase + lo) / dv < 2147483648 ∧ (rem * bigBase + lo) % dv < 2147483648 := by
  have hrb : rem * bigBase ≤ 2147483647 * 2147483648 := Nat.mul_le_mul (by omega) (by rw [bb])
  have w1 : wrap divMulBits (rem * bigBase) = rem * bigBase := wrapDM (by omega)
  have w2 : wrap divMulBits (rem * bigBase + lo) = rem * bigBase + lo := wrapDM (by omega)
  have w3 : wrap dividendBits (rem * bigBase + lo) = rem * bigBase + lo := wrapV (by omega)
  refine ⟨by rw [w1, w2, w3], ?_, ?_⟩
  · rw [Nat.div_lt_iff_lt_mul hdv]
    have h1 : (rem + 1) * 2147483648 ≤ dv * 2147483648 := Nat.mul_le_mul_right _ (by omega)
    have h2 : (rem + 1) * 2147483648 = rem * bigBase + 2147483648 := by rw [bb]; ring
    have h3 : 2147483648 * dv = dv * 2147483648 := Nat.mul_comm _ _
    omega
  · have := Nat.mod_lt (rem * bigBase + lo) hdv
    omega

theorem divDigitsW_eq (dv : Nat) (hdv : 0 < dv) (hle : dv ≤ bigBase) (ds : List Nat) (hl : AllLt ds) :
    divDigitsW dv ds = divDigits dv ds := by
  induction ds with
  | nil => rfl
  | cons d r ih =>
    obtain ⟨hd, hr⟩ := AllLt_cons.1 hl
    have hrem := divDigits_rem_lt dv hdv r
    simp only [divDigitsW, divDigits]
    rw [ih hr]
    obtain ⟨e1, e2, e3⟩ := div_step dv (divDigits dv r).2 d hdv (by rw [bb] at hle; exact hle) hrem (by rw [bb] at hd; exact hd)
    have q1 : wrap quotBits (((divDigits dv r).2 * bigBase + d) / dv) = ((divDigits dv r).2 * bigBase + d) / dv :=
      wrapQ (by omega)
    have q2 : wrap quotBits (((divDigits dv r).2 * bigBase + d) % dv) = ((divDigits dv r).2 * bigBase + d) % dv :=
      wrapQ (by omega)
    rw [e1, q1, q2]

theorem bignat_divW_eq (x : BigNat) (dv : Nat) (hdv : 0 < dv) (hle : dv ≤ bigBase) (hf : x.first < bigBase)
    (hl : AllLt x.digits) : bignat_divW x dv = bignat_div x dv := by
  have hle' : dv ≤ 2147483648 := by rw [bb] at hle; exact hle
  have hf' : x.first < 2147483648 := by rw [bb] at hf; exact hf
  have wd : wrap divisorBits dv = dv := wrapDv (by omega)
  unfold bignat_divW bignat_div
  simp only
  rw [wd]
  cases hdg : x.digits with
  | nil =>
    simp only
    obtain ⟨e1, e2, _⟩ := div_step dv 0 x.first hdv hle' hdv hf'
    have q1 : wrap digitBits ((0 * bigBase + x.first) / dv) = (0 * bigBase + x.first) / dv := wrapD (by omega)
    rw [e1, q1]
    simp
  | cons d0 rest =>
    simp only
    rw [hdg] at hl
    obtain ⟨hd0, hrest⟩ := AllLt_cons.1 hl
    rw [bb] at hd0
    rw [divDigitsW_eq dv hdv hle rest hrest]
    have hrem := divDigits_rem_lt dv hdv rest
    obtain ⟨e1, _, e3⟩ := div_step dv (divDigits dv rest).2 d0 hdv hle' hrem hd0
    have q1 : wrap quotBits (((divDigits dv rest).2 * bigBase + d0) % dv) = ((divDigits dv rest).2 * bigBase + d0) % dv :=
      wrapQ (by omega)
    rw [e1, q1]
    have hr0 : ((divDigits dv rest).2 * bigBase + d0) % dv < dv := Nat.mod_lt _ hdv
    obtain ⟨e4, e5, _⟩ := div_step dv (((divDigits dv rest).2 * bigBase + d0) % dv) x.first hdv hle' hr0 hf'
    have q2 : wrap digitBits (((((divDigits dv rest).2 * bigBase + d0) % dv) * bigBase + x.first) / dv) =
        ((((divDigits dv rest).2 * bigBase + d0) % dv) * bigBase + x.first) / dv := wrapD (lt_trans e5 (by norm_num))
    rw [e4, q2]

/-! ### the scaling loops -/

theorem iter_muladdW_eq (f : Nat) (hf0 : 0 < f) (hf : f ≤ bigBase) (k : Nat) (x : BigNat) (hi : MantInv x) :
    iter (fun m => bignat_muladdW m f 0) k x = iter (fun m => bignat_muladd m f 0) k x ∧
    MantInv (iter (fun m => bignat_muladd m f 0) k x) := by
  induction k generalizing x with
  | zero => exact ⟨rfl, hi⟩
  | succ k ih =>
    simp only [iter]
    rw [bignat_muladdW_eq x f 0 hf hf0 hi]
    exact ih _ (muladd_inv x f 0 hf hf0 hi)

/-- what `bignat_div` needs and preserves -/
def DivInv (x : BigNat) : Prop := x.first < bigBase ∧ AllLt x.digits

theorem iter_divW_eq (dv : Nat) (hdv : 0 < dv) (hle : dv ≤ bigBase) (k : Nat) (x : BigNat) (hi : DivInv x) :
    iter (fun m => bignat_divW m dv) k x = iter (fun m => bignat_div m dv) k x ∧
    DivInv (iter (fun m => bignat_div m dv) k x) := by
  induction k generalizing x with
  | zero => exact ⟨rfl, hi⟩
  | succ k ih =>
    simp only [iter]
    rw [bignat_divW_eq x dv hdv hle hi.1 hi.2]
    exact ih _ ⟨div_first_lt x dv hdv hi.1, div_allLt x dv hdv hle hi.2⟩

theorem lshift_divInv (x : BigNat) (n : Nat) (hi : MantInv x) : DivInv (bignat_lshift_n x n) := by
  unfold bignat_lshift_n
  by_cases hn : n = 0
  · rw [if_pos hn]; exact ⟨hi.first_lt, hi.allLt⟩
  · rw [if_neg hn]
    exact ⟨bigBase_pos, AllLt_replicate_append _ (AllLt_cons.2 ⟨hi.first_lt, hi.allLt⟩)⟩

theorem scaleW_eq (mant : BigNat) (base : Nat) (ex : Int) (hb1 : 1 ≤ base) (hb : base ≤ 36) (hi : MantInv mant) :
    scaleW mant base ex = scale mant base ex ∧ DivInv (scale mant base ex).1 := by
  have h4 := pow4_le base hb
  have h2 := pow2_le base hb
  have h1 : base ≤ bigBase := le_trans hb (by decide)
  have p4 : 0 < base * base * base * base := by positivity
  have p2 : 0 < base * base := by positivity
  unfold scaleW scale
  by_cases he : ex ≥ 0
  · rw [if_pos he, if_pos he]
    simp only
    obtain ⟨e1, i1⟩ := iter_muladdW_eq _ p4 h4 (ex.toNat / 4) mant hi
    rw [e1]
    obtain ⟨e2, i2⟩ := iter_muladdW_eq _ p2 h2 (ex.toNat % 4 / 2) _ i1
    rw [e2]
    obtain ⟨e3, i3⟩ := iter_muladdW_eq _ hb1 h1 (ex.toNat % 2) _ i2
    rw [e3]
    exact ⟨rfl, i3.first_lt, i3.allLt⟩
  · rw [if_neg he, if_neg he]
    simp only
    have i0 := lshift_divInv mant (shamtBase + (-ex).toNat / shamtDiv) hi
    obtain ⟨e1, i1⟩ := iter_divW_eq _ p4 h4 ((-ex).toNat / 4) _ i0
    rw [e1]
    obtain ⟨e2, i2⟩ := iter_divW_eq _ p2 h2 ((-ex).toNat % 4 / 2) _ i1
    rw [e2]
    obtain ⟨e3, i3⟩ := iter_divW_eq _ hb1 h1 ((-ex).toNat % 2) _ i2
    rw [e3]
    exact ⟨rfl, i3⟩

/-! ### bignat_extract -/

/-- the pair returned by `extractPartsW` when there is at least one array digit (same shape as `extractParts_eq`) -/
theorem extractPartsW_form (x : BigNat) (e2 : Int) (d1 : Nat) (below : List Nat) (hrev : x.digits.reverse = d1 :: below) :
    extractPartsW x e2 =
      (let t2 := ((wrap top53Bits (wrap top53Bits (sel2 x.first below <<< (window - nbit)) +
                    (sel3 x.first below >>> (2 * nbit - window)))) >>> bitLen (wrap 32 d1))
                  ||| wrap top53Bits (d1 <<< (window - bitLen (wrap 32 d1)))
       let t4 := (if t2 % 2 = 1 then wrap top53Bits (t2 + 1) else t2) >>> 1
       let r := if t4 > mantMax then (t4 >>> 1, e2 + 1) else (t4, e2)
       (r.1, r.2 + ((bitLen (wrap 32 d1) : Int) - mantBits) + nbit * x.digits.length)) := by
  unfold extractPartsW
  rw [hrev]
  cases below with
  | nil => rfl
  | cons b r => cases r <;> rfl

theorem extractPartsW_eq (x : BigNat) (e2 : Int) (hi : DivInv x) : extractPartsW x e2 = extractParts x e2 := by
  cases hr : x.digits.reverse with
  | nil =>
    unfold extractPartsW extractParts
    rw [hr]
    simp only
    have := hi.1
    rw [wrapT (by rw [bb] at this; omega)]
  | cons d1 below =>
    obtain ⟨h1, h2, h3⟩ := sel_lt x d1 below hr hi.1 hi.2
    rw [extractPartsW_form x e2 d1 below hr, extractParts_eq x e2 d1 below hr]
    have hb1 : bitLen d1 ≤ 31 := bitLen_le_31 d1 h1
    rw [bb] at h1 h2 h3
    set d2 := sel2 x.first below
    set d3 := sel3 x.first below
    have wd1 : wrap 32 d1 = d1 := wrap_of_lt (by norm_num; omega)
    have hw : window = 54 := rfl
    have hnbit : nbit = 31 := rfl
    have p54 : (2 : Nat) ^ 54 = 18014398509481984 := by norm_num
    have p55 : (2 : Nat) ^ 55 = 36028797018963968 := by norm_num
    have s1 : d2 <<< (window - nbit) < 2 ^ 54 := by
      rw [Nat.shiftLeft_eq, hw, hnbit]
      calc d2 * 2 ^ (54 - 31) < 2147483648 * 2 ^ (54 - 31) := Nat.mul_lt_mul_of_pos_right h2 (Nat.two_pow_pos _)
        _ = 2 ^ 54 := by norm_num
    have s2 : d3 >>> (2 * nbit - window) ≤ d3 := by rw [Nat.shiftRight_eq_div_pow]; exact Nat.div_le_self _ _
    have w1 : wrap top53Bits (d2 <<< (window - nbit)) = d2 <<< (window - nbit) := wrapT (by omega)
    have w2 : wrap top53Bits (d2 <<< (window - nbit) + d3 >>> (2 * nbit - window)) =
        d2 <<< (window - nbit) + d3 >>> (2 * nbit - window) := wrapT (by omega)
    have s3 : d1 <<< (window - bitLen d1) < 2 ^ 54 := by
      rw [Nat.shiftLeft_eq, hw]
      by_cases hz : d1 = 0
      · rw [hz]; simp
      · obtain ⟨_, hup, hbp⟩ := bitLen_bounds d1 hz
        calc d1 * 2 ^ (54 - bitLen d1) < 2 ^ bitLen d1 * 2 ^ (54 - bitLen d1) :=
              Nat.mul_lt_mul_of_pos_right hup (Nat.two_pow_pos _)
          _ = 2 ^ 54 := by rw [← pow_add, show bitLen d1 + (54 - bitLen d1) = 54 by omega]
    have w3 : wrap top53Bits (d1 <<< (window - bitLen d1)) = d1 <<< (window - bitLen d1) := wrapT (by omega)
    simp only
    rw [wd1, w1, w2, w3]
    set t2 := ((d2 <<< (window - nbit) + d3 >>> (2 * nbit - window)) >>> bitLen d1) ||| d1 <<< (window - bitLen d1) with ht2
    have ht2lt : t2 < 2 ^ 55 := by
      apply Nat.or_lt_two_pow
      · rw [Nat.shiftRight_eq_div_pow]
        have := Nat.div_le_self (d2 <<< (window - nbit) + d3 >>> (2 * nbit - window)) (2 ^ bitLen d1)
        omega
      · omega
    rw [wrapT (show t2 + 1 < 18446744073709551616 by omega)]

/-! ### convert and the scanner -/

theorem convertW_eq (neg : Bool) (mant : BigNat) (base : Nat) (ex : Int) (hb1 : 1 ≤ base) (hb : base ≤ 36)
    (hi : MantInv mant) : convertW neg mant base ex = convert neg mant base ex := by
  obtain ⟨es, hinv⟩ := scaleW_eq mant base ex hb1 hb hi
  unfold convertW convert bignat_extractW bignat_extract
  simp only
  rw [es, extractPartsW_eq _ _ hinv]

theorem scanDigitsW_eq (s : List Nat) (st : ScanSt) (hst : StInv st) : scanDigitsW s st = scanDigits s st := by
  induction s generalizing st with
  | nil => rfl
  | cons c rest ih =>
    unfold scanDigitsW scanDigits
    by_cases h46 : c = 46
    · rw [if_pos h46, if_pos h46]
      by_cases hsp : st.seenpoint
      · rw [if_pos hsp, if_pos hsp]
      · rw [if_neg hsp, if_neg hsp]; exact ih _ hst
    rw [if_neg h46, if_neg h46]
    by_cases h38 : c = 38
    · rw [if_pos h38, if_pos h38]
    rw [if_neg h38, if_neg h38]
    by_cases hp : st.base = 16 ∧ (c = 80 ∨ c = 112)
    · rw [if_pos hp, if_pos hp]
    rw [if_neg hp, if_neg hp]
    by_cases he : st.base = 10 ∧ (c = 69 ∨ c = 101)
    · rw [if_pos he, if_pos he]
    rw [if_neg he, if_neg he]
    by_cases hu : c = 95
    · rw [if_pos hu, if_pos hu]
      by_cases hsd : st.seenadigit
      · rw [if_pos hsd, if_pos hsd]; exact ih _ hst
      · rw [if_neg hsd, if_neg hsd]
    rw [if_neg hu, if_neg hu]
    simp only
    by_cases hbad : c > 127 ∨ digitOf c ≥ st.base
    · rw [if_pos hbad, if_pos hbad]
    rw [if_neg hbad, if_neg hbad]
    obtain ⟨hm, hb1, hb36⟩ := hst
    have hlt : digitOf c < st.base := by omega
    have hbb : st.base ≤ bigBase := le_trans hb36 (by decide)
    rw [bignat_muladdW_eq st.mant st.base (digitOf c) hbb hlt hm]
    exact ih _ ⟨muladd_inv st.mant st.base (digitOf c) hbb hlt hm, hb1, hb36⟩

theorem parseBodyW_eq (neg : Bool) (b : Nat) (s2 : List Nat) (hb : 1 ≤ b ∧ b ≤ 36) :
    parseBodyW neg b s2 = parseBody neg b s2 := by
  unfold parseBodyW parseBody
  simp only
  generalize hst : (⟨b, b, 0, false, false, false, BigNat.zero⟩ : ScanSt) = st0
  cases hz : skipZeros s2 st0 with
  | none => rfl
  | some r =>
    obtain ⟨s3, st1⟩ := r
    have hk := skipZeros_keep _ _ _ _ hz
    have hi1 : StInv st1 := by
      subst hst
      exact ⟨by rw [hk.1]; exact zero_inv, by rw [hk.2]; exact hb.1, by rw [hk.2]; exact hb.2⟩
    simp only
    rw [scanDigitsW_eq s3 st1 hi1]
    rfl

theorem parseNumberW_eq (str : List Nat) (base0 : Nat) (hb : base0 ≤ 36) : parseNumberW str base0 = parseNumber str base0 := by
  unfold parseNumberW parseNumber
  cases hh : numHeader str base0 with
  | none => rfl
  | some r =>
    obtain ⟨neg, b, s2⟩ := r
    simp only
    exact parseBodyW_eq neg b s2 (numHeader_base str base0 hb neg b s2 hh)

/-- ★★ the C-typed model of `janet_scan_number_base` returns, on EVERY byte string and every radix parameter ≤ 36, exactly
    what the unbounded model returns: no `uint64_t` / `uint32_t` intermediate of `bignat_muladd`, `bignat_div`,
    `bignat_extract` wraps on any reachable state. -/
theorem scanNumberBaseW_eq (str : List Nat) (base0 : Nat) (hb : base0 ≤ 36) :
    scanNumberBaseW str base0 = scanNumberBase str base0 := by
  unfold scanNumberBaseW scanNumberBase
  rw [parseNumberW_eq str base0 hb]
  cases hp : parseNumber str base0 with
  | none => rfl
  | some p =>
    obtain ⟨hi, h1, h36⟩ := parseNumber_inv str base0 hb p hp
    simp only [Option.map]
    rw [convertW_eq p.neg p.mant p.base p.ex h1 h36 hi]

/-! ### `int` / `int32_t` intermediates of `convert` (signed: overflow would be undefined behaviour, so: in range) -/

theorem muladdDigits_length_le (f : Nat) (ds : List Nat) (carry : Nat) : (muladdDigits f ds carry).length ≤ ds.length + 1 := by
  induction ds generalizing carry with
  | nil => simp only [muladdDigits]; split <;> simp
  | cons d r ih => simp only [muladdDigits, List.length_cons]; have := ih ((carry + d * f) / bigBase); omega

/-- every digit character appends at most one array digit -/
theorem scanDigits_length (s : List Nat) (st : ScanSt) (s' : List Nat) (st' : ScanSt)
    (h : scanDigits s st = some (s', st')) : st'.mant.digits.length + s'.length ≤ st.mant.digits.length + s.length := by
  induction s generalizing st with
  | nil => simp [scanDigits] at h; obtain ⟨rfl, rfl⟩ := h; simp
  | cons c rest ih =>
    simp only [scanDigits] at h
    split at h
    · split at h
      · simp at h
      · have := ih _ h; simp only [List.length_cons] at this ⊢; omega
    · split at h
      · simp at h; obtain ⟨rfl, rfl⟩ := h; simp
      · split at h
        · simp at h; obtain ⟨rfl, rfl⟩ := h; simp
        · split at h
          · simp at h; obtain ⟨rfl, rfl⟩ := h; simp
          · split at h
            · split at h
              · have := ih _ h; simp only [List.length_cons] at this ⊢; omega
              · simp at h
            · split at h
              · simp at h
              · have := ih _ h
                have hl := muladdDigits_length_le st.base st.mant.digits ((st.mant.first * st.base + digitOf c) / bigBase)
                simp only [bignat_muladd, List.length_cons] at this ⊢
                omega

theorem skipZeros_length (s : List Nat) (st : ScanSt) (s' : List Nat) (st' : ScanSt)
    (h : skipZeros s st = some (s', st')) : s'.length ≤ s.length := by
  induction s generalizing st with
  | nil => simp [skipZeros] at h; obtain ⟨rfl, _⟩ := h; simp
  | cons c rest ih =>
    simp only [skipZeros] at h
    split at h
    · split at h
      · split at h
        · simp at h
        · have := ih _ h; simp only [List.length_cons]; omega
      · have := ih _ h; simp only [List.length_cons]; omega
    · simp at h; obtain ⟨rfl, _⟩ := h; simp

theorem parseNumber_digits_le (str : List Nat) (base0 : Nat) (p : Parsed) (h : parseNumber str base0 = some p) :
    p.mant.digits.length ≤ str.length ∧ str.length ≤ lenLimit := by
  unfold parseNumber at h
  split at h
  · simp at h
  rename_i neg b s2 hh
  obtain ⟨_, hlen, hs2⟩ := numHeader_spec str base0 neg b s2 hh
  refine ⟨le_trans ?_ hs2, hlen⟩
  unfold parseBody at h
  simp only at h
  split at h
  · simp at h
  rename_i s3 st1 hz
  have hk := skipZeros_keep _ _ _ _ hz
  have hz3 : s3.length ≤ s2.length := skipZeros_length _ _ _ _ hz
  split at h
  · simp at h
  rename_i s4 st2 hd
  have hl := scanDigits_length _ _ _ _ hd
  rw [hk.1] at hl
  have h0 : (BigNat.zero).digits.length = 0 := rfl
  simp only [h0] at hl
  have hfin : st2.mant.digits.length ≤ s2.length := by omega
  split at h
  · simp at h
  · split at h
    · simp at h; rw [← h]; exact hfin
    · split at h
      · simp at h; rw [← h]; exact hfin
      · split at h
        · simp at h
        · simp at h; rw [← h]; exact hfin

/-- ★ the `int32_t` intermediates of `convert` that depend only on the scanner's output stay in range for every accepted
    literal: `mant->n * BIGNAT_NBIT + 16` (computed in `int` before it is widened to `int64_t`), the radix powers
    `base * base * base * base`, and the exponent handed over (|ex| < 2^31 is `scan_number_faithful`).
    NOT covered (named gap): `shamt * BIGNAT_NBIT` and `bignat_extra`'s `2 * newn` on the negative-exponent branch — they
    are bounded through the tiny short-circuit (a ≤ len + ~1200 whenever it does not fire), which is not formalised. -/
theorem convert_int32_in_range (str : List Nat) (base0 : Nat) (hb : base0 ≤ 36) (p : Parsed)
    (h : parseNumber str base0 = some p) :
    p.mant.digits.length * approxPerDigit + approxBias < 2 ^ 31 ∧ p.base * p.base * p.base * p.base < 2 ^ 31 ∧
    p.base * p.base < 2 ^ 31 := by
  obtain ⟨h1, h2⟩ := parseNumber_digits_le str base0 p h
  obtain ⟨_, _, h36⟩ := parseNumber_inv str base0 hb p h
  have hL : lenLimit = 53687091 := rfl
  have hA : approxPerDigit = 31 := rfl
  have hB : approxBias = 16 := rfl
  have p31 : (2 : Nat) ^ 31 = 2147483648 := by norm_num
  rw [hL] at h2
  rw [hA, hB, p31]
  refine ⟨by omega, ?_, ?_⟩
  · calc p.base * p.base * p.base * p.base ≤ 36 * 36 * 36 * 36 := by gcongr
      _ < 2147483648 := by norm_num
  · calc p.base * p.base ≤ 36 * 36 := by gcongr
      _ < 2147483648 := by norm_num

end JanetModel.Strtod
