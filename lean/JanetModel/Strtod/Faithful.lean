/- C13: assembling the stage theorems of `convert` into ONE statement about the returned bit pattern:
   `convert_adjacent` — for every mantissa the scanner can produce, radix 2..36 and |exponent| < 2^31, the magnitude
   pattern returned by `convert` is `Adjacent` to the exact value `mant · base^exponent`:  it IS that value whenever a
   double (or the overflow threshold 2^1024, standing for ±inf) has that value, and otherwise no double lies between
   the exact value and the result (one of the two neighbours).  Covers the zero / huge / tiny short-circuits, both
   scaling branches, the 54-bit extraction with its rounding and renormalisation, and the three regimes of the final
   `ldexp` (exact, subnormal second rounding, overflow). -/
import JanetModel.Strtod.Approx

namespace JanetModel.Strtod
open JanetModel.Gen.Strtod

/-- value of the sign-less bit pattern `k ≤ infBits`, in units of 2^−1074 (a natural number).  The pattern of +inf counts
    as 2^1024 (the overflow threshold of the faithful rule). -/
def ulps (k : Nat) : Nat := (decodeBits k).1 * 2 ^ ((decodeBits k).2 + 1074).toNat

/-- `mag` (a sign-less pattern, at most that of +inf) is *the* double of value `N/D` (units 2^−1074) if there is one, and
    otherwise one of the two doubles adjacent to `N/D`:  every double strictly below `mag` is strictly below `N/D`, and
    every double strictly above `mag` is strictly above `N/D` — so no double lies strictly between the result and the
    exact value, and none equals the exact value unless the result does. -/
def Adjacent (mag N D : Nat) : Prop :=
  mag ≤ infBits ∧ (∀ k, k ≤ infBits → ulps k < ulps mag → ulps k * D < N) ∧
    (∀ k, k ≤ infBits → ulps mag < ulps k → N < ulps k * D)

/-- exact when representable: if some pattern `k` has exactly the value `N/D`, the result has that value too -/
theorem Adjacent.exact {mag N D : Nat} (h : Adjacent mag N D) (k : Nat) (hk : k ≤ infBits) (hv : ulps k * D = N) :
    ulps mag = ulps k := by
  obtain ⟨_, hb, ha⟩ := h
  rcases Nat.lt_trichotomy (ulps k) (ulps mag) with c | c | c
  · have := hb k hk c; omega
  · exact c.symm
  · have := ha k hk c; omega

theorem Adjacent.congr {mag N D N' D' : Nat} (h : Adjacent mag N D) (_hD : 0 < D) (hD' : 0 < D')
    (hx : N * D' = N' * D) : Adjacent mag N' D' := by
  obtain ⟨hle, hb, ha⟩ := h
  refine ⟨hle, fun k hk hu => ?_, fun k hk hu => ?_⟩
  · have h1 := hb k hk hu
    have h2 : ulps k * D * D' < N * D' := Nat.mul_lt_mul_of_pos_right h1 hD'
    rw [hx] at h2
    have h3 : ulps k * D' * D < N' * D := by rw [Nat.mul_right_comm]; exact h2
    exact Nat.lt_of_mul_lt_mul_right h3
  · have h1 := ha k hk hu
    have h2 : N * D' < ulps k * D * D' := Nat.mul_lt_mul_of_pos_right h1 hD'
    rw [hx] at h2
    have h3 : N' * D < ulps k * D' * D := by rw [Nat.mul_right_comm]; exact h2
    exact Nat.lt_of_mul_lt_mul_right h3

/-! ### shape of the set of doubles -/

theorem ulps_eq (k : Nat) :
    ulps k = if k / 4503599627370496 % 2048 = 0 then k % 4503599627370496
      else (k % 4503599627370496 + 4503599627370496) * 2 ^ (k / 4503599627370496 % 2048 - 1) := by
  unfold ulps decodeBits
  by_cases h : k / 4503599627370496 % 2048 = 0
  · simp only [h, if_true]
    simp
  · simp only [h, if_false]
    have : (((k / 4503599627370496 % 2048 : Nat) : Int) - 1075 + 1074).toNat = k / 4503599627370496 % 2048 - 1 := by omega
    rw [this]

/-- every double is `m·2^g` ulps with a significand below 2^53 -/
theorem ulps_form (k : Nat) : ∃ m g : Nat, ulps k = m * 2 ^ g ∧ m < 2 ^ 53 := by
  have p53 : (2 : Nat) ^ 53 = 9007199254740992 := by norm_num
  rw [ulps_eq]
  by_cases h : k / 4503599627370496 % 2048 = 0
  · rw [if_pos h]
    exact ⟨k % 4503599627370496, 0, by simp, by rw [p53]; omega⟩
  · rw [if_neg h]
    exact ⟨_, _, rfl, by rw [p53]; omega⟩

/-- patterns up to 2^52 (zero, the subnormals, the smallest normal) are their own count of ulps -/
theorem ulps_small (k : Nat) (hk : k ≤ 2 ^ 52) : ulps k = k := by
  have p52 : (2 : Nat) ^ 52 = 4503599627370496 := by norm_num
  rw [p52] at hk
  rw [ulps_eq]
  by_cases h : k / 4503599627370496 % 2048 = 0
  · rw [if_pos h]; omega
  · rw [if_neg h]
    have h1 : k / 4503599627370496 % 2048 = 1 := by omega
    rw [h1]; simp; omega

theorem ulps_inf : ulps infBits = 2 ^ 52 * 2 ^ 2046 := by
  have p52 : (2 : Nat) ^ 52 = 4503599627370496 := by norm_num
  rw [ulps_eq, p52]
  have h1 : infBits / 4503599627370496 % 2048 = 2047 := by decide
  have h2 : infBits % 4503599627370496 = 0 := by decide
  rw [h1, h2]; simp

/-- every finite double is at most DBL_MAX = (2^53−1)·2^971 = (2^53−1)·2^2045 ulps -/
theorem ulps_finite_le (k : Nat) (hk : k < infBits) : ulps k ≤ (2 ^ 53 - 1) * 2 ^ 2045 := by
  have c53 : (2 : Nat) ^ 53 - 1 = 9007199254740991 := by norm_num
  have hk' : k < 0x7FF0000000000000 := hk
  rw [ulps_eq, c53]
  by_cases h : k / 4503599627370496 % 2048 = 0
  · rw [if_pos h]
    have : 1 ≤ 2 ^ 2045 := Nat.one_le_two_pow
    calc k % 4503599627370496 ≤ 9007199254740991 * 1 := by omega
      _ ≤ 9007199254740991 * 2 ^ 2045 := Nat.mul_le_mul_left _ this
  · rw [if_neg h]
    have he : k / 4503599627370496 % 2048 - 1 ≤ 2045 := by omega
    exact Nat.mul_le_mul (by omega) (Nat.pow_le_pow_right (by decide) he)

theorem dblmax_lt_inf : (2 ^ 53 - 1) * 2 ^ 2045 < 2 ^ 52 * 2 ^ 2046 := by
  have e : (2 : Nat) ^ 2046 = 2 * 2 ^ 2045 := by rw [show (2046 : Nat) = 1 + 2045 by rfl, pow_add]; norm_num
  have hP : 0 < 2 ^ 2045 := Nat.two_pow_pos _
  rw [e]
  generalize (2 : Nat) ^ 2045 = P at *
  have c53 : (2 : Nat) ^ 53 - 1 = 9007199254740991 := by norm_num
  have p52 : (2 : Nat) ^ 52 = 4503599627370496 := by norm_num
  rw [c53, p52]; omega

/-! ### the adjacency lemmas for the four kinds of result -/

theorem FaithfulN.below {t N D u : Nat} (hD : 0 < D) (h : FaithfulN t N D) (hu : u < t) : u * D < N := by
  obtain ⟨h1, _⟩ := h.within hD
  have : (u + 1) * D ≤ t * D := Nat.mul_le_mul_right _ hu
  rw [Nat.add_mul, Nat.one_mul] at this
  omega

theorem FaithfulN.above {t N D u : Nat} (hD : 0 < D) (h : FaithfulN t N D) (hu : t < u) : N < u * D := by
  obtain ⟨_, h2⟩ := h.within hD
  have : (t + 1) * D ≤ u * D := Nat.mul_le_mul_right _ hu
  rw [Nat.add_mul, Nat.one_mul] at this
  omega

/-- the result has exactly the value `N/D` -/
theorem adjacent_exact (mag N D : Nat) (hle : mag ≤ infBits) (hD : 0 < D) (h : ulps mag * D = N) : Adjacent mag N D := by
  refine ⟨hle, fun k _ hu => ?_, fun k _ hu => ?_⟩
  · rw [← h]; exact Nat.mul_lt_mul_of_pos_right hu hD
  · rw [← h]; exact Nat.mul_lt_mul_of_pos_right hu hD

/-- results in the subnormal range (pattern = count of ulps ≤ 2^52): all doubles are whole numbers of ulps -/
theorem adjacent_of_count (c N D : Nat) (hD : 0 < D) (hc : c ≤ 2 ^ 52) (hF : FaithfulN c N D) : Adjacent c N D := by
  have hu := ulps_small c hc
  have p52 : (2 : Nat) ^ 52 = 4503599627370496 := by norm_num
  refine ⟨?_, fun k _ h => ?_, fun k _ h => ?_⟩
  · rw [p52] at hc; unfold infBits; omega
  · rw [hu] at h; exact hF.below hD h
  · rw [hu] at h; exact hF.above hD h

/-- ±inf (or anything at the overflow threshold): the exact value is above DBL_MAX -/
theorem adjacent_inf (N D : Nat) (hD : 0 < D) (h : (2 ^ 53 - 1) * 2 ^ 2045 * D < N) : Adjacent infBits N D := by
  refine ⟨le_refl _, fun k hk hu => ?_, fun k hk hu => ?_⟩
  · have hlt : k < infBits := by
      rcases Nat.lt_or_ge k infBits with c | c
      · exact c
      · have : k = infBits := Nat.le_antisymm hk c
        rw [this] at hu; exact absurd hu (lt_irrefl _)
    have := Nat.mul_le_mul_right D (ulps_finite_le k hlt)
    omega
  · exfalso
    rcases Nat.lt_or_ge k infBits with c | c
    · have h1 := ulps_finite_le k c
      have h2 := dblmax_lt_inf
      rw [ulps_inf] at hu; omega
    · have : k = infBits := Nat.le_antisymm hk c
      rw [this] at hu; exact absurd hu (lt_irrefl _)

/-- ±0 for a value below one ulp (including the value 0 itself) -/
theorem adjacent_zero (N D : Nat) (h : N < D) : Adjacent 0 N D := by
  have h0 : ulps 0 = 0 := ulps_small 0 (Nat.zero_le _)
  refine ⟨Nat.zero_le _, fun k _ hu => ?_, fun k _ hu => ?_⟩
  · rw [h0] at hu; exact absurd hu (Nat.not_lt_zero _)
  · rw [h0] at hu
    calc N < D := h
      _ = 1 * D := (Nat.one_mul D).symm
      _ ≤ ulps k * D := Nat.mul_le_mul_right D hu

/-- a normalised significand `t ∈ [2^52, 2^53)` on the grid 2^G (G ≥ 0 in ulps): doubles above are at least one grid step
    away; doubles below are one grid step away, or — at the binade edge t = 2^52 — half a step, which the magnitude
    conjunct `(2^54−1)·D ≤ 4·N` (value ≥ 2^52 − ¼) of `extract_faithful_*` covers. -/
theorem adjacent_of_grid (mag t G N D : Nat) (hle : mag ≤ infBits) (hu : ulps mag = t * 2 ^ G) (hD : 0 < D)
    (hlo : 2 ^ 52 ≤ t) (hhi : t < 2 ^ 53) (hF : FaithfulN t N D) (hmag : (2 ^ 54 - 1) * D ≤ 4 * N) :
    Adjacent mag (N * 2 ^ G) D := by
  have p52 : (2 : Nat) ^ 52 = 4503599627370496 := by norm_num
  have p53 : (2 : Nat) ^ 53 = 9007199254740992 := by norm_num
  have c54 : (2 : Nat) ^ 54 - 1 = 18014398509481983 := by norm_num
  rw [p52] at hlo; rw [p53] at hhi; rw [c54] at hmag
  refine ⟨hle, fun k _ hk => ?_, fun k _ hk => ?_⟩
  · obtain ⟨m, g, hm, hm53⟩ := ulps_form k
    rw [p53] at hm53
    rw [hm, hu] at hk
    rw [hm]
    rcases Nat.lt_or_ge g G with hc | hc
    · obtain ⟨h, rfl⟩ : ∃ h, G = g + 1 + h := ⟨G - g - 1, by omega⟩
      have h1 : m * D ≤ 9007199254740991 * D := Nat.mul_le_mul_right D (by omega)
      have h3 : m * D < 2 * N := by omega
      have h4 : m * D * 2 ^ g < 2 * N * 2 ^ g := Nat.mul_lt_mul_of_pos_right h3 (Nat.two_pow_pos _)
      have h5 : 2 * N * 2 ^ g ≤ 2 * N * 2 ^ g * 2 ^ h := Nat.le_mul_of_pos_right _ (Nat.two_pow_pos _)
      calc m * 2 ^ g * D = m * D * 2 ^ g := by ring
        _ < 2 * N * 2 ^ g := h4
        _ ≤ 2 * N * 2 ^ g * 2 ^ h := h5
        _ = N * 2 ^ (g + 1 + h) := by rw [pow_add, pow_add]; ring
    · obtain ⟨h, rfl⟩ := Nat.le.dest hc
      have e1 : m * 2 ^ (G + h) = m * 2 ^ h * 2 ^ G := by rw [pow_add]; ring
      rw [e1] at hk ⊢
      have h1 : m * 2 ^ h < t := Nat.lt_of_mul_lt_mul_right hk
      have h2 := hF.below hD h1
      calc m * 2 ^ h * 2 ^ G * D = m * 2 ^ h * D * 2 ^ G := by ring
        _ < N * 2 ^ G := Nat.mul_lt_mul_of_pos_right h2 (Nat.two_pow_pos _)
  · obtain ⟨m, g, hm, hm53⟩ := ulps_form k
    rw [p53] at hm53
    rw [hm, hu] at hk
    rw [hm]
    rcases Nat.lt_or_ge g G with hc | hc
    · exfalso
      obtain ⟨h, rfl⟩ : ∃ h, G = g + 1 + h := ⟨G - g - 1, by omega⟩
      have e1 : t * 2 ^ (g + 1 + h) = t * 2 * 2 ^ h * 2 ^ g := by rw [pow_add, pow_add]; ring
      rw [e1] at hk
      have h1 : t * 2 * 2 ^ h < m := Nat.lt_of_mul_lt_mul_right hk
      have h2 : t * 2 ≤ t * 2 * 2 ^ h := Nat.le_mul_of_pos_right _ (Nat.two_pow_pos _)
      omega
    · obtain ⟨h, rfl⟩ := Nat.le.dest hc
      have e1 : m * 2 ^ (G + h) = m * 2 ^ h * 2 ^ G := by rw [pow_add]; ring
      rw [e1] at hk ⊢
      have h1 : t < m * 2 ^ h := Nat.lt_of_mul_lt_mul_right hk
      have h2 := hF.above hD h1
      calc N * 2 ^ G < m * 2 ^ h * D * 2 ^ G := Nat.mul_lt_mul_of_pos_right h2 (Nat.two_pow_pos _)
        _ = m * 2 ^ h * 2 ^ G * D := by ring

/-! ### the final `ldexp`, all three regimes -/

theorem ldexpBits_le (m : Nat) (e : Int) : ldexpBits m e ≤ infBits := by
  unfold ldexpBits infBits
  by_cases h0 : m = 0
  · rw [if_pos h0]; omega
  rw [if_neg h0]
  simp only
  by_cases h1 : e + (bitLen m : Int) - 1 > 1100
  · rw [if_pos h1]
  rw [if_neg h1]
  split_ifs <;> omega

/-- ★ `(t, e2)` as produced by `bignat_extract` (normalised, faithful to `N/D` in units 2^e2, with the magnitude
    conjunct) goes through `ldexp` to a pattern adjacent to the exact value `N/D·2^e2` — for EVERY `e2`:
    exact in the normal range, second rounding onto the subnormal grid, overflow to +inf. -/
theorem finish_adjacent (t : Nat) (e2 : Int) (N D : Nat) (hD : 0 < D) (hlo : 2 ^ 52 ≤ t) (hhi : t < 2 ^ 53)
    (hF : FaithfulN t N D) (hmag : (2 ^ 54 - 1) * D ≤ 4 * N) :
    Adjacent (ldexpBits t e2) (N * 2 ^ (e2 + 1074).toNat) (D * 2 ^ (-1074 - e2).toNat) := by
  have p52 : (2 : Nat) ^ 52 = 4503599627370496 := by norm_num
  have ht0 : t ≠ 0 := by rw [p52] at hlo; omega
  by_cases h1 : e2 < -1074
  · have hz : (e2 + 1074).toNat = 0 := by omega
    rw [hz, pow_zero, Nat.mul_one]
    obtain ⟨hF', hb⟩ := ldexp_faithful_subnormal t N D e2 hD ht0 hhi h1 hF
    exact adjacent_of_count _ _ _ (Nat.mul_pos hD (Nat.two_pow_pos _)) hb hF'
  · by_cases h2 : e2 ≤ 971
    · have hz : (-1074 - e2).toNat = 0 := by omega
      rw [hz, pow_zero, Nat.mul_one]
      have hd := ldexp_exact_normal t e2 hlo hhi (by omega) h2
      have hu : ulps (ldexpBits t e2) = t * 2 ^ (e2 + 1074).toNat := by unfold ulps; rw [hd]
      exact adjacent_of_grid _ t _ N D (ldexpBits_le _ _) hu hD hlo hhi hF hmag
    · have hz : (-1074 - e2).toNat = 0 := by omega
      rw [hz, pow_zero, Nat.mul_one]
      obtain ⟨e, rfl⟩ : ∃ e : Nat, e2 = (e : Int) := ⟨e2.toNat, by omega⟩
      have he : 972 ≤ e := by omega
      rw [ldexp_overflow_bits t e hlo hhi (by omega)]
      have hv := overflow_value_gt_dblmax N D e hD hmag he
      have hx : ((e : Int) + 1074).toNat = e + 1074 := by omega
      rw [hx]
      apply adjacent_inf _ _ hD
      have e1 : (2 : Nat) ^ 2045 = 2 ^ 971 * 2 ^ 1074 := pow_add 2 971 1074
      have e2' : (2 : Nat) ^ (e + 1074) = 2 ^ e * 2 ^ 1074 := pow_add 2 e 1074
      rw [e1, e2']
      have hP : 0 < 2 ^ 1074 := Nat.two_pow_pos _
      generalize (2 : Nat) ^ 1074 = P at *
      generalize (2 : Nat) ^ 971 = Q at *
      generalize (2 : Nat) ^ e = R at *
      calc (2 ^ 53 - 1) * (Q * P) * D = (2 ^ 53 - 1) * Q * D * P := by ring
        _ < N * R * P := Nat.mul_lt_mul_of_pos_right hv hP
        _ = N * (R * P) := by ring

/-! ### `convert` -/

theorem convert_zero (neg : Bool) (mant : BigNat) (base : Nat) (ex : Int)
    (hz : mant.digits.length = 0 ∧ mant.first = 0) : convert neg mant base ex = withSign neg 0 := by
  unfold convert
  simp only
  rw [if_pos hz]

theorem convert_huge (neg : Bool) (mant : BigNat) (base : Nat) (ex : Int)
    (hnz : ¬ (mant.digits.length = 0 ∧ mant.first = 0)) (h : exp2Approx mant base ex > hugeThresh) :
    convert neg mant base ex = withSign neg infBits := by
  unfold exp2Approx at h
  unfold convert
  simp only
  rw [if_neg hnz, if_pos h]

theorem convert_tiny (neg : Bool) (mant : BigNat) (base : Nat) (ex : Int)
    (hnz : ¬ (mant.digits.length = 0 ∧ mant.first = 0)) (h1 : ¬ exp2Approx mant base ex > hugeThresh)
    (h2 : exp2Approx mant base ex < tinyThresh) : convert neg mant base ex = withSign neg 0 := by
  unfold exp2Approx at h1 h2
  unfold convert
  simp only
  rw [if_neg hnz, if_neg h1, if_pos h2]

theorem convert_main (neg : Bool) (mant : BigNat) (base : Nat) (ex : Int)
    (hnz : ¬ (mant.digits.length = 0 ∧ mant.first = 0)) (h1 : ¬ exp2Approx mant base ex > hugeThresh)
    (h2 : ¬ exp2Approx mant base ex < tinyThresh) :
    convert neg mant base ex =
      withSign neg (ldexpBits (extractParts (scale mant base ex).1 (scale mant base ex).2).1
        (extractParts (scale mant base ex).1 (scale mant base ex).2).2) := by
  unfold exp2Approx at h1 h2
  unfold convert
  simp only
  rw [if_neg hnz, if_neg h1, if_neg h2]
  rfl

theorem val_zero_of (x : BigNat) (hz : x.digits.length = 0 ∧ x.first = 0) : x.val = 0 := by
  obtain ⟨h1, h2⟩ := hz
  have : x.digits = [] := List.eq_nil_of_length_eq_zero h1
  simp [BigNat.val, this, h2, digitsVal]

/-- ★★ `convert` end to end: the returned pattern is `withSign neg mag` with `mag` adjacent to the exact value
    `mant·base^ex` (numerator `mant·base^max(ex,0)·2^1074`, denominator `base^max(−ex,0)`, i.e. the value in ulps). -/
theorem convert_adjacent (neg : Bool) (mant : BigNat) (base : Nat) (ex : Int) (hi : MantInv mant)
    (hb2 : 2 ≤ base) (hb : base ≤ 36) (hex : ex.natAbs < 2 ^ 31) (hL : Log2Within1Ulp base) :
    ∃ mag, convert neg mant base ex = withSign neg mag ∧
      Adjacent mag (mant.val * base ^ ex.toNat * 2 ^ 1074) (base ^ (-ex).toNat) := by
  have hb1 : 1 ≤ base := by omega
  have hbpos : ∀ n, 0 < base ^ n := fun n => Nat.pow_pos (by omega)
  by_cases hz : mant.digits.length = 0 ∧ mant.first = 0
  · refine ⟨0, convert_zero neg mant base ex hz, ?_⟩
    rw [val_zero_of mant hz]
    apply adjacent_zero
    simpa using hbpos _
  have hM := val_pos_of_nonzero mant hi hz
  have hnz' : mant.digits = [] → mant.first ≠ 0 := by intro hd hf; exact hz ⟨by simp [hd], hf⟩
  have hdm : (2 ^ 53 - 1) * 2 ^ 2045 < 2 ^ 1024 * 2 ^ 1074 := by
    have := dblmax_lt_inf
    have e : (2 : Nat) ^ 52 * 2 ^ 2046 = 2 ^ 1024 * 2 ^ 1074 := by rw [← pow_add, ← pow_add]
    omega
  by_cases hneg : ex < 0
  · -- negative exponent −a
    obtain ⟨a, rfl⟩ : ∃ a : Nat, ex = -(a : Int) := ⟨(-ex).toNat, by omega⟩
    have ha : 0 < a := by omega
    have ha31 : a < 2 ^ 31 := by simpa using hex
    have t1 : (-(a : Int)).toNat = 0 := by omega
    have t2 : (- -(a : Int)).toNat = a := by omega
    rw [t1, t2, pow_zero, Nat.mul_one]
    by_cases hh : exp2Approx mant base (-(a : Int)) > hugeThresh
    · refine ⟨infBits, convert_huge neg mant base _ hz hh, ?_⟩
      have hv := huge_sound_neg mant base a hi hz hb2 hb ha ha31 hL hh
      apply adjacent_inf _ _ (hbpos a)
      have hP : 0 < 2 ^ 1074 := Nat.two_pow_pos _
      have hB := hbpos a
      generalize (2 : Nat) ^ 1074 = P at *
      generalize (2 : Nat) ^ 1024 = Q at *
      generalize base ^ a = B at *
      generalize (2 ^ 53 - 1) * 2 ^ 2045 = X at *
      calc X * B < Q * P * B := Nat.mul_lt_mul_of_pos_right hdm hB
        _ = Q * B * P := by ring
        _ ≤ mant.val * P := Nat.mul_le_mul_right P hv
    · by_cases ht : exp2Approx mant base (-(a : Int)) < tinyThresh
      · refine ⟨0, convert_tiny neg mant base _ hz hh ht, ?_⟩
        exact adjacent_zero _ _ (tiny_sound_neg mant base a hi hz hb2 hb ha ha31 hL ht)
      · refine ⟨_, convert_main neg mant base _ hz hh ht, ?_⟩
        rw [scale_neg_eq _ _ _ ha]
        simp only
        obtain ⟨hl, hn, hu⟩ := scaleNeg_facts mant base a hb1 hb hi hnz'
        have hlen := scaleNeg_length mant base a hb1 hb hi hnz' hM
        have htop := scaleNeg_topnz mant base a hb1 hb hi hnz' hM
        have hfirst : (scaleNeg mant base a).first < bigBase := scaleNeg_first_lt mant base a hb1 hb hi
        obtain ⟨G, he, hF, _, hMg, hlo, hhi⟩ := extract_faithful_neg_core (scaleNeg mant base a)
          (-(((shamtBase + a / shamtDiv) * nbit : Nat) : Int)) _ _ (hbpos a) hfirst hl htop hlen hu
        have hadj := finish_adjacent _ (extractParts (scaleNeg mant base a)
          (-(((shamtBase + a / shamtDiv) * nbit : Nat) : Int))).2 _ _ (Nat.mul_pos (hbpos a) (Nat.two_pow_pos G)) hlo hhi hF hMg
        refine hadj.congr (Nat.mul_pos (Nat.mul_pos (hbpos a) (Nat.two_pow_pos G)) (Nat.two_pow_pos _)) (hbpos a) ?_
        rw [he]
        have h2 : 2 ≤ shamtBase + a / shamtDiv := le_trans (by decide : 2 ≤ shamtBase) (Nat.le_add_right _ _)
        generalize shamtBase + a / shamtDiv = S at *
        obtain ⟨S', rfl⟩ : ∃ S', S = S' + 2 := ⟨S - 2, by omega⟩
        have hk : (((S' + 2) * nbit : Nat) : Int) = 31 * (S' : Int) + 62 := by
          have : nbit = 31 := rfl
          rw [this]; push_cast; ring
        rw [hk]
        simp only [Nat.add_sub_cancel]
        rw [bigBase_pow]
        generalize hxp : (-(31 * (S' : Int) + 62) + 62 + (G : Int) + 1074).toNat = xp
        generalize hxm : (-1074 - (-(31 * (S' : Int) + 62) + 62 + (G : Int))).toNat = xm
        have hkk : 2 ^ (31 * S') * 2 ^ xp = 2 ^ 1074 * 2 ^ G * 2 ^ xm := by
          rw [← pow_add, ← pow_add, ← pow_add]; congr 1; omega
        generalize (2 : Nat) ^ (31 * S') = A at *
        generalize (2 : Nat) ^ xp = Xp at *
        generalize (2 : Nat) ^ xm = Xm at *
        generalize (2 : Nat) ^ G = Gg at *
        generalize (2 : Nat) ^ 1074 = T at *
        generalize base ^ a = B at *
        calc mant.val * A * Xp * B = mant.val * (A * Xp) * B := by ring
          _ = mant.val * (T * Gg * Xm) * B := by rw [hkk]
          _ = mant.val * T * (B * Gg * Xm) := by ring
  · -- non-negative exponent a
    obtain ⟨a, rfl⟩ : ∃ a : Nat, ex = (a : Int) := ⟨ex.toNat, by omega⟩
    have ha31 : a < 2 ^ 31 := by simpa using hex
    have t1 : ((a : Int)).toNat = a := by omega
    have t2 : (-(a : Int)).toNat = 0 := by omega
    rw [t1, t2, pow_zero]
    by_cases hh : exp2Approx mant base (a : Int) > hugeThresh
    · refine ⟨infBits, convert_huge neg mant base _ hz hh, ?_⟩
      have hv := huge_sound_pos mant base a hi hz hb2 hb ha31 hL hh
      apply adjacent_inf _ _ Nat.one_pos
      rw [Nat.mul_one]
      calc (2 ^ 53 - 1) * 2 ^ 2045 < 2 ^ 1024 * 2 ^ 1074 := hdm
        _ ≤ mant.val * base ^ a * 2 ^ 1074 := Nat.mul_le_mul_right _ hv
    · have ht : ¬ exp2Approx mant base (a : Int) < tinyThresh := tiny_needs_negative mant base a
      refine ⟨_, convert_main neg mant base _ hz hh ht, ?_⟩
      rw [scale_pos_eq]
      simp only
      obtain ⟨hi', hv⟩ := scalePos_facts mant base a hb1 hb hi
      rw [← hv]
      by_cases hd : (scalePos mant base a).digits = []
      · have hp : extractParts (scalePos mant base a) 0 = ((scalePos mant base a).val, 0) := by
          simp only [extractParts, hd, List.reverse_nil]
          rw [BigNat.val, hd]; simp [digitsVal]
        rw [hp]
        simp only
        have hV0 : (scalePos mant base a).val ≠ 0 := by
          rw [hv]; exact Nat.ne_of_gt (Nat.mul_pos hM (hbpos a))
        have hV53 : (scalePos mant base a).val < 2 ^ 53 := by
          have : (scalePos mant base a).val = (scalePos mant base a).first := by
            rw [BigNat.val, hd]; simp [digitsVal]
          rw [this]
          exact lt_trans hi'.first_lt (by decide)
        generalize (scalePos mant base a).val = V at *
        apply adjacent_exact _ _ _ (ldexpBits_le _ _) Nat.one_pos
        have hd2 := ldexp_exact_int V hV0 hV53
        have hl := bitLen_le_53 V hV53
        unfold ulps
        rw [hd2]
        simp only
        have hx : (-((53 - bitLen V : Nat) : Int) + 1074).toNat = 1074 - (53 - bitLen V) := by omega
        rw [hx, Nat.mul_one, Nat.mul_assoc, ← pow_add]
        congr 2; omega
      · obtain ⟨G, he, hF, _, hMg, hlo, hhi⟩ := extract_faithful_pos_core _ hi' hd
        have hadj := finish_adjacent _ (extractParts (scalePos mant base a) 0).2 _ _ (Nat.two_pow_pos G) hlo hhi hF hMg
        refine hadj.congr (Nat.mul_pos (Nat.two_pow_pos G) (Nat.two_pow_pos _)) Nat.one_pos ?_
        have hx1 : ((extractParts (scalePos mant base a) 0).2 + 1074).toNat = G + 1043 := by omega
        have hx2 : (-1074 - (extractParts (scalePos mant base a) 0).2).toNat = 0 := by omega
        rw [hx1, hx2, pow_zero, Nat.mul_one, Nat.mul_one]
        have e1 : (2 : Nat) ^ 1074 = 2 ^ 31 * 2 ^ 1043 := pow_add 2 31 1043
        rw [e1, pow_add]
        generalize (2 : Nat) ^ 1043 = P
        generalize (2 : Nat) ^ G = Gg
        generalize (2 : Nat) ^ 31 = Q
        ring

/-! ### transfer between two astronomically large / small exact values (used for over-long exponents) -/

theorem ulps_le_inf (k : Nat) (hk : k ≤ infBits) : ulps k ≤ 2 ^ 52 * 2 ^ 2046 := by
  rcases Nat.lt_or_ge k infBits with c | c
  · have h1 := ulps_finite_le k c
    have h2 := dblmax_lt_inf
    omega
  · have : k = infBits := Nat.le_antisymm hk c
    rw [this, ulps_inf]

/-- a result adjacent to a value at or above the overflow threshold is the overflow pattern, which is adjacent to every
    such value -/
theorem Adjacent.huge_transfer {mag N D N' D' : Nat} (h : Adjacent mag N D)
    (hN : 2 ^ 52 * 2 ^ 2046 * D ≤ N) (hN' : 2 ^ 52 * 2 ^ 2046 * D' ≤ N') (hD' : 0 < D') : Adjacent mag N' D' := by
  obtain ⟨hle, hb, ha⟩ := h
  have hmag : 2 ^ 52 * 2 ^ 2046 ≤ ulps mag := by
    by_contra hc
    have hlt : ulps mag < ulps infBits := by rw [ulps_inf]; omega
    have := ha infBits (le_refl _) hlt
    rw [ulps_inf] at this
    omega
  refine ⟨hle, fun k hk hu => ?_, fun k hk hu => ?_⟩
  · have h1 := ulps_le_inf mag hle
    have h2 : ulps k < 2 ^ 52 * 2 ^ 2046 := by omega
    calc ulps k * D' < 2 ^ 52 * 2 ^ 2046 * D' := Nat.mul_lt_mul_of_pos_right h2 hD'
      _ ≤ N' := hN'
  · have := ulps_le_inf k hk
    omega

/-- a result adjacent to a positive value below one ulp (±0 or the smallest subnormal) is adjacent to every such value -/
theorem Adjacent.tiny_transfer {mag N D N' D' : Nat} (h : Adjacent mag N D)
    (hN : N < D) (hN0 : 0 < N') (hN' : N' < D') : Adjacent mag N' D' := by
  obtain ⟨hle, hb, ha⟩ := h
  refine ⟨hle, fun k hk hu => ?_, fun k hk hu => ?_⟩
  · have h1 := hb k hk hu
    have h0 : ulps k = 0 := by
      by_contra hc
      have : 1 * D ≤ ulps k * D := Nat.mul_le_mul_right D (by omega)
      omega
    rw [h0, Nat.zero_mul]; exact hN0
  · have h1 : 1 ≤ ulps k := by omega
    calc N' < D' := hN'
      _ = 1 * D' := (Nat.one_mul _).symm
      _ ≤ ulps k * D' := Nat.mul_le_mul_right D' h1

end JanetModel.Strtod
