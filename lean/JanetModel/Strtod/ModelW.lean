/- C13: the C-TYPED executable model of the arithmetic in src/core/strtod.c.  CORE LEAN ONLY (linked into jm_c13; this is
   the model the correspondence harness runs against the real code).

   Same functions as Strtod/Model.lean, but every unsigned C intermediate is reduced modulo 2^width exactly where the C
   type system does it (`wrap`): `uint64_t carry / dividend / top53 / d1..d3`, `uint32_t` digits, `first_digit`,
   `quotient`, `remainder`, the `uint32_t factor / term / divisor` parameters, the `(uint32_t)` casts.  The widths are
   REGENERATED from the declarations and casts in the source (Gen/Strtod.lean: carryBits, dividendBits, top53Bits,
   digitBits, quotBits, factorBits; mulBits / divMulBits = the width in which `digit * factor` / `remainder * BASE` are
   evaluated: 64 with the `(uint64_t)` cast on the operand, 32 without it).  Strtod/WrapFree.lean proves that on every state the scanner can reach no reduction ever
   changes a value (`scanNumberBaseW_eq`), so all theorems about the unbounded model hold for this one. -/
import JanetModel.Strtod.Model

namespace JanetModel.Strtod
open JanetModel.Gen.Strtod

/-- reduction of an unsigned C value of the given width: `x mod 2^bits` (`wrap_eq_mod` in WrapFree.lean).  Written with
    a shift test first so that the compiled driver stays on machine words when nothing is cut off. -/
def wrap (bits x : Nat) : Nat := if x >>> bits = 0 then x else x % 2 ^ bits

/-- loop of `bignat_muladd`: `carry += ((uint64_t) digits[i]) * factor; digits[i] = carry % BASE; carry /= BASE;`
    then `if (carry) bignat_append(mant, (uint32_t) carry)` -/
def muladdDigitsW (factor : Nat) : List Nat → Nat → List Nat
  | [], carry => if carry = 0 then [] else [wrap digitBits carry]
  | d :: rest, carry =>
    let c := wrap carryBits (carry + wrap mulBits (d * factor))
    wrap digitBits (c % bigBase) :: muladdDigitsW factor rest (c / bigBase)

/-- `bignat_muladd(mant, uint32_t factor, uint32_t term)` -/
def bignat_muladdW (x : BigNat) (factor0 term0 : Nat) : BigNat :=
  let factor := wrap factorBits factor0
  let term := wrap factorBits term0
  let c := wrap carryBits (wrap mulBits (wrap mulBits (x.first * factor) + term))
  { first := wrap digitBits (c % bigBase), digits := muladdDigitsW factor x.digits (c / bigBase) }

/-- loop of `bignat_div`: `dividend = ((uint64_t)remainder * BASE) + digits[i]; quotient = (uint32_t)(dividend / divisor);
    remainder = (uint32_t)(dividend % divisor);` -/
def divDigitsW (dv : Nat) : List Nat → List Nat × Nat
  | [] => ([], 0)
  | d :: rest =>
    let qr := divDigitsW dv rest
    let dividend := wrap dividendBits (wrap divMulBits (wrap divMulBits (qr.2 * bigBase) + d))
    (wrap quotBits (dividend / dv) :: qr.1, wrap quotBits (dividend % dv))

/-- `bignat_div(mant, uint32_t divisor)` (keeps the remainder in `digits[0]`, see Model.lean) -/
def bignat_divW (x : BigNat) (dv0 : Nat) : BigNat :=
  let dv := wrap divisorBits dv0
  match x.digits with
  | [] => { first := wrap digitBits (wrap dividendBits (wrap divMulBits (wrap divMulBits (0 * bigBase) + x.first)) / dv), digits := [] }
  | d0 :: rest =>
    let qr := divDigitsW dv rest
    let r0 := wrap quotBits (wrap dividendBits (wrap divMulBits (wrap divMulBits (qr.2 * bigBase) + d0)) % dv)
    { first := wrap digitBits (wrap dividendBits (wrap divMulBits (wrap divMulBits (r0 * bigBase) + x.first)) / dv),
      digits := dropLastZero (r0 :: qr.1) }

/-- (top53, exponent2) of `bignat_extract` with `uint64_t top53, d1, d2, d3` and `clz((uint32_t) d1)` -/
def extractPartsW (x : BigNat) (exponent2 : Int) : Nat × Int :=
  match x.digits.reverse with
  | [] => (wrap top53Bits x.first, exponent2)
  | d1 :: below =>
    let n := x.digits.length
    let d2 := match below with
      | [] => x.first
      | b :: _ => b
    let d3 := match below with
      | [] => 0
      | [_] => x.first
      | _ :: c :: _ => c
    let nbits := bitLen (wrap 32 d1)
    let t0 := wrap top53Bits (wrap top53Bits (d2 <<< (window - nbit)) + (d3 >>> (2 * nbit - window)))
    let t1 := t0 >>> nbits
    let t2 := t1 ||| wrap top53Bits (d1 <<< (window - nbits))
    let t3 := if t2 % 2 = 1 then wrap top53Bits (t2 + 1) else t2
    let t4 := t3 >>> 1
    let (t5, e2) := if t4 > mantMax then (t4 >>> 1, exponent2 + 1) else (t4, exponent2)
    (t5, e2 + ((nbits : Int) - mantBits) + nbit * n)

def bignat_extractW (x : BigNat) (exponent2 : Int) : Nat :=
  let p := extractPartsW x exponent2
  ldexpBits p.1 p.2

/-- the scaling part of `convert` on the C-typed BigNat routines -/
def scaleW (mant : BigNat) (base : Nat) (exponent : Int) : BigNat × Int :=
  if exponent ≥ 0 then
    let e := exponent.toNat
    let m1 := iter (fun m => bignat_muladdW m (base * base * base * base) 0) (e / 4) mant
    let m2 := iter (fun m => bignat_muladdW m (base * base) 0) (e % 4 / 2) m1
    let m3 := iter (fun m => bignat_muladdW m base 0) (e % 2) m2
    (m3, 0)
  else
    let a := (-exponent).toNat
    let shamt := shamtBase + a / shamtDiv
    let m0 := bignat_lshift_n mant shamt
    let m1 := iter (fun m => bignat_divW m (base * base * base * base)) (a / 4) m0
    let m2 := iter (fun m => bignat_divW m (base * base)) (a % 4 / 2) m1
    let m3 := iter (fun m => bignat_divW m base) (a % 2) m2
    (m3, -((shamt * nbit : Nat) : Int))

def convertW (neg : Bool) (mant : BigNat) (base : Nat) (exponent : Int) : Nat :=
  let mantApprox : Int := (mant.digits.length * approxPerDigit + approxBias : Nat)
  let expApprox := log2MulFloor base exponent
  let approx := mantApprox + expApprox
  if mant.digits.length = 0 ∧ mant.first = 0 then withSign neg 0
  else if approx > hugeThresh then withSign neg infBits
  else if approx < tinyThresh then withSign neg 0
  else
    let s := scaleW mant base exponent
    withSign neg (bignat_extractW s.1 s.2)

/-- "Parse significant digits" loop on `bignat_muladdW` -/
def scanDigitsW : List Nat → ScanSt → Option (List Nat × ScanSt)
  | [], st => some ([], st)
  | c :: rest, st =>
    if c = 46 then
      if st.seenpoint then none else scanDigitsW rest { st with seenpoint := true }
    else if c = 38 then some (c :: rest, { st with foundexp := true })
    else if st.base = 16 ∧ (c = 80 ∨ c = 112) then
      some (c :: rest, { st with foundexp := true, expBase := 10, base := 2, ex := st.ex * 4 })
    else if st.base = 10 ∧ (c = 69 ∨ c = 101) then some (c :: rest, { st with foundexp := true })
    else if c = 95 then
      if st.seenadigit then scanDigitsW rest st else none
    else
      let digit := digitOf c
      if c > 127 ∨ digit ≥ st.base then none
      else scanDigitsW rest { st with ex := if st.seenpoint then st.ex - 1 else st.ex,
                                      mant := bignat_muladdW st.mant st.base digit, seenadigit := true }

def parseBodyW (neg : Bool) (b : Nat) (s2 : List Nat) : Option Parsed :=
  let st0 : ScanSt := { base := b, expBase := b, ex := 0, seenpoint := false, seenadigit := false,
                        foundexp := false, mant := BigNat.zero }
  match skipZeros s2 st0 with
  | none => none
  | some (s3, st1) =>
    match scanDigitsW s3 st1 with
    | none => none
    | some (s4, st2) =>
      if !st2.seenadigit then none
      else
        match s4 with
        | [] => some ⟨neg, st2.mant, st2.base, st2.ex⟩
        | _marker :: s5 =>
          if !st2.foundexp then some ⟨neg, st2.mant, st2.base, st2.ex⟩
          else
            match parseExponent st2 s5 with
            | none => none
            | some ex => some ⟨neg, st2.mant, st2.base, ex⟩

def parseNumberW (str : List Nat) (base : Nat) : Option Parsed :=
  match numHeader str base with
  | none => none
  | some (neg, b, s2) => parseBodyW neg b s2

/-- `janet_scan_number_base` on the C-typed arithmetic -/
def scanNumberBaseW (str : List Nat) (base : Nat) : Option Nat :=
  (parseNumberW str base).map (fun p => convertW p.neg p.mant p.base p.ex)

/-- `janet_scan_number(str, len, out)`: `return janet_scan_number_base(str, len, 0, out);` (shape asserted by the
    translator) — radix prefix `0x` / `Dr` / `DDr` read from the text, default radix 10 -/
def scanNumber (str : List Nat) : Option Nat := scanNumberBaseW str 0

end JanetModel.Strtod
