/- C13: ONE end-to-end theorem about `scanNumberBase` (model of `janet_scan_number_base`): plumbing (Plumbing.lean)
   + `convert_adjacent` (Faithful.lean) against the independent value `denote` (Denote.lean). -/
import JanetModel.Strtod.Plumbing
import JanetModel.Strtod.Faithful

namespace JanetModel.Strtod
open JanetModel.Gen.Strtod

/-- when is the exponent clamp harmless for a literal of `len` bytes: the code drops over-long exponent digits
    (`eeSat = 0`) and the literal is short enough that its mantissa cannot cancel the clamped exponent, or the code
    saturates (`else ee = INT32_MAX / 4`) — then for every length the scanner accepts -/
def ClampSafe (len : Nat) : Prop :=
  (eeSat = 0 ∧ 4 * len + 1100 ≤ eeLimit) ∨
  (eeLimit ≤ eeSat ∧ 4 * lenLimit + 1100 ≤ eeSat ∧ eeSat + 4 * lenLimit < 2 ^ 31)

theorem zero_of_val_zero (x : BigNat) (hi : MantInv x) (h : x.val = 0) : x.digits.length = 0 ∧ x.first = 0 := by
  by_contra hc
  have := val_pos_of_nonzero x hi hc
  omega

theorem two_pow_le_base_pow (b n : Nat) (hb : 2 ≤ b) : 2 ^ n ≤ b ^ n := Nat.pow_le_pow_left hb n

theorem scan_number_adjacent (str : List Nat) (base0 : Nat) (hb : base0 ≤ 36)
    (hL : ∀ b, 2 ≤ b → b ≤ 36 → Log2Within1Ulp b) (hsafe : ClampSafe str.length)
    (bits : Nat) (h : scanNumberBase str base0 = some bits) :
    ∃ mag, bits = withSign (denote str base0).neg mag ∧
      Adjacent mag ((denote str base0).M * (denote str base0).b ^ (denote str base0).E.toNat * 2 ^ 1074)
        ((denote str base0).b ^ (-(denote str base0).E).toNat) ∧
      ∃ p, parseNumber str base0 = some p ∧ p.ex.natAbs < 2 ^ 31 := by
  unfold scanNumberBase at h
  cases hp : parseNumber str base0 with
  | none => rw [hp] at h; simp at h
  | some p =>
    rw [hp] at h
    simp at h
    subst h
    have hp0 := hp
    unfold parseNumber at hp
    split at hp
    · simp at hp
    rename_i neg b s2 hh
    obtain ⟨hb1, hb36⟩ := numHeader_base str base0 hb neg b s2 hh
    obtain ⟨hden, hlen, hs2⟩ := numHeader_spec str base0 neg b s2 hh
    have hsat : SatOK := by
      rcases hsafe with ⟨h0, _⟩ | ⟨h1, _, h3⟩
      · exact Or.inl h0
      · exact Or.inr ⟨h1, h3⟩
    obtain ⟨hneg, hbase, hM, hinv, hp1, hp36, K, cF, Y, X, eneg, hpex, hlE, hcF, hK, hMK, hYK, hrel⟩ :=
      parseBody_spec neg b s2 p hb1 hb36 (le_trans hs2 hlen) hsat hp
    rw [hden]
    generalize denoteBody neg b s2 = l at *
    have hex31 : p.ex.natAbs < 2 ^ 31 := by
      have p31 : (2 : Nat) ^ 31 = 2147483648 := by norm_num
      rw [p31] at hYK ⊢
      cases eneg <;> simp at hpex <;> omega
    suffices hs : ∃ mag, convert p.neg p.mant p.base p.ex = withSign l.neg mag ∧
        Adjacent mag (l.M * l.b ^ l.E.toNat * 2 ^ 1074) (l.b ^ (-l.E).toNat) by
      obtain ⟨mag, h1, h2⟩ := hs
      exact ⟨mag, h1, h2, p, rfl, hex31⟩
    rw [← hneg, ← hbase, ← hM]
    rw [← hbase, ← hM] at hMK
    by_cases hb2 : 2 ≤ p.base
    · obtain ⟨mag, hc, hadj⟩ := convert_adjacent p.neg p.mant p.base p.ex hinv hb2 hp36 hex31 (hL _ hb2 hp36)
      refine ⟨mag, hc, ?_⟩
      have hbpos : ∀ n, 0 < p.base ^ n := fun n => Nat.pow_pos (by omega)
      rcases hrel with hYX | ⟨hX, hY1, hY2⟩
      · have : p.ex = l.E := by rw [hpex, hlE, hYX]
        rw [← this]; exact hadj
      · by_cases hM0 : p.mant.val = 0
        · rw [hM0] at hadj ⊢
          exact hadj.congr (hbpos _) (hbpos _) (by simp)
        have hM1 : 1 ≤ p.mant.val := by omega
        have hX' := hX hb2
        have hY' : K + 1100 ≤ Y := by
          rcases hsafe with ⟨_, h2⟩ | ⟨_, h2, _⟩
          · omega
          · rcases hY2 with h0 | h0
            · omega
            · have hL1 : lenLimit = 53687091 := rfl
              omega
        have hT : (2 : Nat) ^ 52 * 2 ^ 2046 = 2 ^ 1024 * 2 ^ 1074 := by rw [← pow_add, ← pow_add]
        cases eneg
        · -- positive over-long exponent: both values are at least 2^1024
          simp only [Bool.false_eq_true, if_false] at hpex hlE
          have big : ∀ Z : Nat, K + 1100 ≤ Z →
              2 ^ 52 * 2 ^ 2046 * p.base ^ (-((Z : Int) - (cF : Int))).toNat ≤
                p.mant.val * p.base ^ ((Z : Int) - (cF : Int)).toNat * 2 ^ 1074 := by
            intro Z hZ
            have e1 : (-((Z : Int) - (cF : Int))).toNat = 0 := by omega
            obtain ⟨n, hn⟩ : ∃ n : Nat, ((Z : Int) - (cF : Int)).toNat = 1024 + n := ⟨Z - cF - 1024, by omega⟩
            rw [e1, hn, pow_zero, Nat.mul_one, hT]
            apply Nat.mul_le_mul_right
            calc 2 ^ 1024 ≤ 2 ^ (1024 + n) := Nat.pow_le_pow_right (by decide) (by omega)
              _ ≤ p.base ^ (1024 + n) := two_pow_le_base_pow _ _ hb2
              _ = 1 * p.base ^ (1024 + n) := (Nat.one_mul _).symm
              _ ≤ p.mant.val * p.base ^ (1024 + n) := Nat.mul_le_mul_right _ hM1
          rw [hpex] at hadj
          rw [hlE]
          exact hadj.huge_transfer (big Y hY') (big X hX') (hbpos _)
        · -- negative over-long exponent: both values are positive and below 2^-1074
          simp only [if_true] at hpex hlE
          have small : ∀ Z : Nat, K + 1100 ≤ Z →
              p.mant.val * p.base ^ (-(Z : Int) - (cF : Int)).toNat * 2 ^ 1074 <
                p.base ^ (-(-(Z : Int) - (cF : Int))).toNat ∧
              0 < p.mant.val * p.base ^ (-(Z : Int) - (cF : Int)).toNat * 2 ^ 1074 := by
            intro Z hZ
            have e1 : (-(Z : Int) - (cF : Int)).toNat = 0 := by omega
            obtain ⟨n, hn⟩ : ∃ n : Nat, (-(-(Z : Int) - (cF : Int))).toNat = K + 1074 + n := ⟨Z + cF - K - 1074, by omega⟩
            rw [e1, hn, pow_zero, Nat.mul_one]
            constructor
            · calc p.mant.val * 2 ^ 1074 < p.base ^ K * 2 ^ 1074 := Nat.mul_lt_mul_of_pos_right hMK (Nat.two_pow_pos _)
                _ ≤ p.base ^ K * p.base ^ 1074 := Nat.mul_le_mul_left _ (two_pow_le_base_pow _ _ hb2)
                _ = p.base ^ (K + 1074) * 1 := by rw [← pow_add, Nat.mul_one]
                _ ≤ p.base ^ (K + 1074) * p.base ^ n := Nat.mul_le_mul_left _ (hbpos n)
                _ = p.base ^ (K + 1074 + n) := by rw [← pow_add]
            · exact Nat.mul_pos hM1 (Nat.two_pow_pos _)
          rw [hpex] at hadj
          rw [hlE]
          exact hadj.tiny_transfer (small Y hY').1 (small X hX').2 (small X hX').1
    · -- radix 1 (only through base0 = 1 or the `1r` prefix): every digit is 0
      have hb1' : p.base = 1 := by omega
      have hM0 : p.mant.val = 0 := by
        rw [hb1', Nat.one_pow] at hMK; omega
      refine ⟨0, convert_zero p.neg p.mant p.base p.ex (zero_of_val_zero p.mant hinv hM0), ?_⟩
      rw [hM0, hb1']
      apply adjacent_zero
      simp

end JanetModel.Strtod
