/- C13: every text of the shape libc's `%.17g` can produce for a finite double — `[-] D+ [. D*] [e (+|-)? D+]` — is ACCEPTED by
   the scanner model (radix parameter 0 or 10).  Closes the syntactic side condition of `print17_roundtrip`. -/
import JanetModel.Strtod.WrapFree

namespace JanetModel.Strtod
open JanetModel.Gen.Strtod

/-- decimal digit characters -/
def IsDecCh (c : Nat) : Prop := 48 ≤ c ∧ c ≤ 57

theorem digitOf_dec (c : Nat) (h : IsDecCh c) : digitOf c < 10 ∧ c ≤ 127 := by
  obtain ⟨h1, h2⟩ := h
  refine ⟨?_, by omega⟩
  have : ∀ k : Fin 10, digitOf (48 + k.val) < 10 := by decide +kernel
  obtain ⟨k, rfl⟩ : ∃ k : Nat, c = 48 + k := ⟨c - 48, by omega⟩
  exact this ⟨k, by omega⟩

/-- a mantissa body: decimal digits and — unless a point was already seen — at most one point -/
def MantShape : Bool → List Nat → Prop
  | _, [] => True
  | seen, c :: r => (IsDecCh c ∧ MantShape seen r) ∨ (c = 46 ∧ seen = false ∧ MantShape true r)

def hasDigit (l : List Nat) : Bool := l.any (fun c => decide (48 ≤ c) && decide (c ≤ 57))

/-- the "Parse significant digits" loop over a mantissa body followed by nothing or by `e…` -/
theorem scanDigits_shape (ds : List Nat) : ∀ (st : ScanSt) (t : List Nat), MantShape st.seenpoint ds → st.base = 10 →
    (t = [] ∨ ∃ r, t = 101 :: r) →
    ∃ st', scanDigits (ds ++ t) st = some (t, st') ∧ st'.base = 10 ∧ st'.expBase = st.expBase ∧
      st'.seenadigit = (st.seenadigit || hasDigit ds) ∧ (t ≠ [] → st'.foundexp = true) := by
  induction ds with
  | nil =>
    intro st t _ hb ht
    rcases ht with rfl | ⟨r, rfl⟩
    · exact ⟨st, by simp [scanDigits], hb, rfl, by simp [hasDigit], by simp⟩
    · refine ⟨{ st with foundexp := true }, ?_, hb, rfl, by simp [hasDigit], by simp⟩
      simp [scanDigits, hb]
  | cons c r ih =>
    intro st t hs hb ht
    rcases hs with ⟨hc, hr⟩ | ⟨rfl, hseen, hr⟩
    · obtain ⟨hd, h127⟩ := digitOf_dec c hc
      obtain ⟨h1, h2⟩ := hc
      have n46 : c ≠ 46 := by omega
      have n38 : c ≠ 38 := by omega
      have n95 : c ≠ 95 := by omega
      have ne : ¬ (st.base = 10 ∧ (c = 69 ∨ c = 101)) := by omega
      have np : ¬ (st.base = 16 ∧ (c = 80 ∨ c = 112)) := by omega
      have nb : ¬ (c > 127 ∨ digitOf c ≥ st.base) := by omega
      obtain ⟨st', h, b1, b2, b3, b4⟩ := ih ⟨st.base, st.expBase, (if st.seenpoint then st.ex - 1 else st.ex), st.seenpoint,
          true, st.foundexp, bignat_muladd st.mant st.base (digitOf c)⟩ t hr hb ht
      refine ⟨st', ?_, b1, b2, ?_, b4⟩
      · simp only [List.cons_append, scanDigits, if_neg n46, if_neg n38, if_neg np, if_neg ne, if_neg n95, if_neg nb]
        exact h
      · rw [b3]; simp [hasDigit, h1, h2]
    · obtain ⟨st', h, b1, b2, b3, b4⟩ := ih ⟨st.base, st.expBase, st.ex, true, st.seenadigit, st.foundexp, st.mant⟩ t hr hb ht
      refine ⟨st', ?_, b1, b2, ?_, b4⟩
      · simp only [List.cons_append, scanDigits, if_true, hseen, Bool.false_eq_true, if_false]
        exact h
      · rw [b3]; simp [hasDigit]

/-- the "Skip leading zeros" loop over a mantissa body: never an error, leaves a mantissa body -/
theorem skipZeros_shape (ds : List Nat) : ∀ (st : ScanSt) (t : List Nat), MantShape st.seenpoint ds →
    (t = [] ∨ ∃ r, t = 101 :: r) →
    ∃ ds' st1, skipZeros (ds ++ t) st = some (ds' ++ t, st1) ∧ MantShape st1.seenpoint ds' ∧ st1.base = st.base ∧
      st1.expBase = st.expBase ∧ (st1.seenadigit || hasDigit ds') = (st.seenadigit || hasDigit ds) := by
  induction ds with
  | nil =>
    intro st t _ ht
    rcases ht with rfl | ⟨r, rfl⟩
    · exact ⟨[], st, by simp [skipZeros], trivial, rfl, rfl, rfl⟩
    · exact ⟨[], st, by simp [skipZeros], trivial, rfl, rfl, rfl⟩
  | cons c r ih =>
    intro st t hs ht
    rcases hs with ⟨hc, hr⟩ | ⟨rfl, hseen, hr⟩
    · by_cases h48 : c = 48
      · subst h48
        obtain ⟨b, eb, ex, sp, sa, fe, m⟩ := st
        have n46 : ¬ ((48 : Nat) = 46) := by decide
        cases sp
        · obtain ⟨ds', st1, h, b1, b2, b3, b4⟩ := ih ⟨b, eb, ex, false, true, fe, m⟩ t hr ht
          refine ⟨ds', st1, ?_, b1, b2, b3, ?_⟩
          · simp only [List.cons_append, skipZeros, true_or, if_true, if_neg n46, Bool.false_eq_true, if_false]
            exact h
          · rw [b4]; simp [hasDigit]
        · obtain ⟨ds', st1, h, b1, b2, b3, b4⟩ := ih ⟨b, eb, ex - 1, true, true, fe, m⟩ t hr ht
          refine ⟨ds', st1, ?_, b1, b2, b3, ?_⟩
          · simp only [List.cons_append, skipZeros, true_or, if_true, if_neg n46]
            exact h
          · rw [b4]; simp [hasDigit]
      · refine ⟨c :: r, st, ?_, Or.inl ⟨hc, hr⟩, rfl, rfl, rfl⟩
        obtain ⟨h1, h2⟩ := hc
        have n : ¬ (c = 48 ∨ c = 46) := by omega
        simp only [List.cons_append, skipZeros, if_neg n]
    · obtain ⟨ds', st1, h, b1, b2, b3, b4⟩ := ih ⟨st.base, st.expBase, st.ex, true, st.seenadigit, st.foundexp, st.mant⟩ t hr ht
      refine ⟨ds', st1, ?_, b1, b2, b3, ?_⟩
      · simp only [List.cons_append, skipZeros, or_true, if_true, hseen, Bool.false_eq_true, if_false]
        exact h
      · rw [b4]; simp [hasDigit]

/-! ### the exponent part -/

theorem skipExpZeros_dec (ed : List Nat) : ∀ sd, (∀ c ∈ ed, IsDecCh c) →
    ∃ s7 sd', skipExpZeros ed sd = (s7, sd') ∧ (∀ c ∈ s7, IsDecCh c) ∧ (sd' || !s7.isEmpty) = (sd || !ed.isEmpty) := by
  induction ed with
  | nil => intro sd _; exact ⟨[], sd, rfl, by simp, rfl⟩
  | cons c r ih =>
    intro sd h
    by_cases h48 : c = 48
    · obtain ⟨s7, sd', e, a, b⟩ := ih true (fun x hx => h x (List.mem_cons_of_mem _ hx))
      refine ⟨s7, sd', by simp only [skipExpZeros, if_pos h48]; exact e, a, ?_⟩
      rw [b]; simp
    · exact ⟨c :: r, sd, by simp only [skipExpZeros, if_neg h48], h, rfl⟩

theorem scanExpDigits_dec (s7 : List Nat) : ∀ ee sd, (∀ c ∈ s7, IsDecCh c) →
    ∃ ee', scanExpDigits 10 s7 ee sd = some (ee', sd || !s7.isEmpty) := by
  induction s7 with
  | nil => intro ee sd _; exact ⟨ee, by simp [scanExpDigits]⟩
  | cons c r ih =>
    intro ee sd h
    obtain ⟨hd, h127⟩ := digitOf_dec c (h c (List.mem_cons_self ..))
    have nb : ¬ (c > 127 ∨ digitOf c ≥ 10) := by omega
    obtain ⟨ee', e⟩ := ih (eeStep 10 ee (digitOf c)) true (fun x hx => h x (List.mem_cons_of_mem _ hx))
    refine ⟨ee', ?_⟩
    simp only [scanExpDigits, if_neg nb]
    rw [e]; simp

/-- exponent text: optional sign, then at least one decimal digit -/
theorem parseExponent_dec (st2 : ScanSt) (es ed : List Nat) (hb : st2.expBase = 10)
    (hes : es = [] ∨ es = [43] ∨ es = [45]) (hed : ed ≠ []) (hd : ∀ c ∈ ed, IsDecCh c) :
    ∃ ex, parseExponent st2 (es ++ ed) = some ex := by
  obtain ⟨c0, r0, rfl⟩ : ∃ c0 r0, ed = c0 :: r0 := by
    cases ed with
    | nil => exact absurd rfl hed
    | cons a b => exact ⟨a, b, rfl⟩
  have hc0 := hd c0 (List.mem_cons_self ..)
  have key : ∀ (eneg : Bool), ∃ ex, (match scanExpDigits st2.expBase (skipExpZeros (c0 :: r0) false).1 0 (skipExpZeros (c0 :: r0) false).2 with
      | none => none
      | some (ee, sd2) => if !sd2 then none else some (if eneg then st2.ex - ee else st2.ex + ee)) = some ex := by
    intro eneg
    obtain ⟨s7, sd', e, a, b⟩ := skipExpZeros_dec (c0 :: r0) false hd
    rw [e, hb]
    obtain ⟨ee', e2⟩ := scanExpDigits_dec s7 0 sd' a
    simp only [e2]
    have : (sd' || !s7.isEmpty) = true := by rw [b]; simp
    rw [this]
    exact ⟨_, rfl⟩
  obtain ⟨h1, h2⟩ := hc0
  rcases hes with rfl | rfl | rfl
  · obtain ⟨ex, e⟩ := key false
    refine ⟨ex, ?_⟩
    have n45 : c0 ≠ 45 := by omega
    have n43 : c0 ≠ 43 := by omega
    simp only [List.nil_append, parseExponent, if_neg n45, if_neg n43]
    exact e
  · obtain ⟨ex, e⟩ := key false
    refine ⟨ex, ?_⟩
    simp only [List.cons_append, List.nil_append, parseExponent]
    simp only [show ¬ ((43 : Nat) = 45) by decide, if_false, if_true]
    exact e
  · obtain ⟨ex, e⟩ := key true
    refine ⟨ex, ?_⟩
    simp only [List.cons_append, List.nil_append, parseExponent, if_true]
    exact e

/-! ### header and assembly -/

theorem scanPrefix_plain (s : List Nat) (h : ∀ c ∈ s, c ≠ 114 ∧ c ≠ 120) : scanPrefix s = some (0, s) := by
  unfold scanPrefix
  split
  · exact absurd rfl (h 120 (by simp)).2
  · exact absurd rfl (h 114 (by simp)).1
  · exact absurd rfl (h 114 (by simp)).1
  · rfl

/-- the characters of a decimal text: digits, point, `e`, signs -/
theorem mantShape_chars (seen : Bool) (ds : List Nat) (h : MantShape seen ds) : ∀ c ∈ ds, c ≠ 114 ∧ c ≠ 120 := by
  induction ds generalizing seen with
  | nil => intro c hc; simp at hc
  | cons d r ih =>
    intro c hc
    rcases List.mem_cons.1 hc with rfl | hc
    · rcases h with ⟨⟨h1, h2⟩, _⟩ | ⟨rfl, _, _⟩ <;> omega
    · rcases h with ⟨_, hr⟩ | ⟨_, _, hr⟩
      · exact ih seen hr c hc
      · exact ih true hr c hc

/-- ★ every text `[-] body [e [+|-] digits]` — body = decimal digits with at most one point, starting with a digit; at
    least one exponent digit — of at most `lenLimit` bytes is accepted by `janet_scan_number` (radix parameter 0).  This
    is the shape of libc's `%.17g` output for every finite double ("123", "-0.001", "1.5e+300", "4.9406564584124654e-324"). -/
theorem decimal_text_accepted (neg : Bool) (d0 : Nat) (ds es ed : List Nat) (hasExp : Bool)
    (hd0 : IsDecCh d0) (hds : MantShape false ds)
    (hes : es = [] ∨ es = [43] ∨ es = [45]) (hed : ed ≠ []) (hd : ∀ c ∈ ed, IsDecCh c)
    (hlen : ((if neg then [45] else []) ++ d0 :: ds ++ (if hasExp then 101 :: (es ++ ed) else [])).length ≤ lenLimit) :
    (parseNumber ((if neg then [45] else []) ++ d0 :: ds ++ (if hasExp then 101 :: (es ++ ed) else [])) 0).isSome = true := by
  set t : List Nat := if hasExp then 101 :: (es ++ ed) else [] with ht
  have htshape : t = [] ∨ ∃ r, t = 101 :: r := by
    cases hasExp
    · left; simp [ht]
    · right; exact ⟨es ++ ed, by simp [ht]⟩
  have hbody : MantShape false (d0 :: ds) := Or.inl ⟨hd0, hds⟩
  have hchars : ∀ c ∈ d0 :: ds ++ t, c ≠ 114 ∧ c ≠ 120 := by
    intro c hc
    rcases List.mem_append.1 hc with hc | hc
    · exact mantShape_chars false _ hbody c hc
    · cases hasExp
      · simp [ht] at hc
      · simp only [ht, if_true, List.mem_cons, List.mem_append] at hc
        rcases hc with rfl | hc | hc
        · omega
        · rcases hes with rfl | rfl | rfl <;> simp at hc <;> omega
        · obtain ⟨h1, h2⟩ := hd c hc; omega
  -- header
  have hhead : numHeader ((if neg then [45] else []) ++ d0 :: ds ++ t) 0 = some (neg, 10, d0 :: ds ++ t) := by
    unfold numHeader
    rw [if_neg (by omega)]
    obtain ⟨h1, h2⟩ := hd0
    cases neg
    · have n45 : d0 ≠ 45 := by omega
      have n43 : d0 ≠ 43 := by omega
      simp only [Bool.false_eq_true, if_false, List.nil_append, List.cons_append, if_neg n45, if_neg n43, if_true]
      rw [show d0 :: (ds ++ t) = d0 :: ds ++ t by rfl, scanPrefix_plain _ hchars]
      rfl
    · simp only [if_true, List.cons_append, List.nil_append]
      rw [show d0 :: (ds ++ t) = d0 :: ds ++ t by rfl, scanPrefix_plain _ hchars]
      rfl
  unfold parseNumber
  rw [hhead]
  simp only
  -- body
  unfold parseBody
  simp only
  obtain ⟨ds', st1, hz, hsh, hb1, hb2, hb3⟩ := skipZeros_shape (d0 :: ds) ⟨10, 10, 0, false, false, false, BigNat.zero⟩ t hbody htshape
  rw [hz]
  simp only
  obtain ⟨st2, hsd, c1, c2, c3, c4⟩ := scanDigits_shape ds' st1 t hsh hb1 htshape
  rw [hsd]
  simp only
  have hdig : hasDigit (d0 :: ds) = true := by
    obtain ⟨h1, h2⟩ := hd0
    simp [hasDigit, h1, h2]
  have hsa : st2.seenadigit = true := by
    rw [c3]
    simp only [hdig, Bool.false_or] at hb3
    rw [hb3]
  rw [hsa]
  simp only [Bool.not_true, Bool.false_eq_true, if_false]
  cases hasExp
  · simp [ht]
  · simp only [ht, if_true]
    have hfe : st2.foundexp = true := c4 (by simp [ht])
    rw [hfe]
    simp only [Bool.not_true, Bool.false_eq_true, if_false]
    obtain ⟨ex, hex⟩ := parseExponent_dec st2 es ed (by rw [c2, hb2]) hes hed hd
    rw [hex]
    rfl

end JanetModel.Strtod
