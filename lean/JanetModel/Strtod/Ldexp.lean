/- C13: the final `ldexp` step is exact for a normalised 53-bit significand in the normal exponent range. -/
import JanetModel.Strtod.Extract

namespace JanetModel.Strtod
open JanetModel.Gen.Strtod

theorem bitLen_53 (t : Nat) (hlo : 2 ^ 52 ≤ t) (hhi : t < 2 ^ 53) : bitLen t = 53 := by
  have h0 : t ≠ 0 := by
    intro h; rw [h] at hlo; exact absurd hlo (by norm_num)
  obtain ⟨h1, h2, h3⟩ := bitLen_bounds t h0
  have a : 2 ^ (bitLen t - 1) < 2 ^ 53 := lt_of_le_of_lt h1 hhi
  have b : 2 ^ 52 < 2 ^ bitLen t := lt_of_le_of_lt hlo h2
  have a' := (Nat.pow_lt_pow_iff_right (by decide : 1 < 2)).1 a
  have b' := (Nat.pow_lt_pow_iff_right (by decide : 1 < 2)).1 b
  omega

/-- ★ for 2^52 ≤ t < 2^53 and −1074 ≤ e ≤ 971 the double returned by `ldexp((double) t, e)` is exactly `t·2^e`:
    its bit pattern decodes to the same significand and exponent (no second rounding in the normal range). -/
theorem ldexp_exact_normal (t : Nat) (e : Int) (hlo : 2 ^ 52 ≤ t) (hhi : t < 2 ^ 53) (he1 : -1074 ≤ e) (he2 : e ≤ 971) :
    decodeBits (ldexpBits t e) = (t, e) := by
  have hl := bitLen_53 t hlo hhi
  have p52 : (2 : Nat) ^ 52 = 4503599627370496 := by norm_num
  have p53 : (2 : Nat) ^ 53 = 9007199254740992 := by norm_num
  rw [p52] at hlo; rw [p53] at hhi
  have h0 : t ≠ 0 := by omega
  unfold ldexpBits
  rw [if_neg h0]
  simp only [hl]
  have c1 : ¬ (e + ((53 : Nat) : Int) - 1 > 1100) := by omega
  rw [if_neg c1]
  have c2 : ¬ (e + ((53 : Nat) : Int) - 1 - 52 < -1074) := by omega
  rw [if_neg c2]
  have eq : e + ((53 : Nat) : Int) - 1 - 52 = e := by omega
  rw [eq]
  simp only [le_refl, if_true, Int.sub_self, Int.toNat_zero, Nat.shiftLeft_zero]
  obtain ⟨k, hk⟩ : ∃ k : Nat, e + 1074 = (k : Int) := ⟨(e + 1074).toNat, by omega⟩
  have hk2 : k ≤ 2045 := by omega
  rw [hk]
  have c3 : ¬ ((k : Int) * 4503599627370496 + (t : Int) ≥ 0x7FF0000000000000) := by omega
  rw [if_neg c3]
  have hnat : ((k : Int) * 4503599627370496 + (t : Int)).toNat = k * 4503599627370496 + t := by omega
  rw [hnat]
  unfold decodeBits
  have hef : (k * 4503599627370496 + t) / 4503599627370496 % 2048 = k + 1 := by omega
  have hf : (k * 4503599627370496 + t) % 4503599627370496 = t - 4503599627370496 := by omega
  simp only [hef, hf]
  have : k + 1 ≠ 0 := by omega
  rw [if_neg this]
  refine Prod.ext ?_ ?_
  · simp; omega
  · simp; omega

end JanetModel.Strtod
