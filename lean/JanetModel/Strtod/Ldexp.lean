/- C13: the final `ldexp` step is exact for a normalised 53-bit significand in the normal exponent range. -/
import JanetModel.Strtod.Extract

namespace JanetModel.Strtod
open JanetModel.Gen.Strtod

theorem bitLen_53 (t : Nat) (hlo : 2 ^ 52 ≤ t) (hhi : t < 2 ^ 53) : bitLen t = 53 := by
  have h0 : t ≠ 0 := by
    intro h; rw [h] at hlo; exact absurd hlo (by norm_num)
  obtain ⟨h1, h2, h3⟩ := bitLen_bounds t h0
  have a : 2 ^ (bitLen t - 1) < 2 ^ 53 := lt_of_le_of_lt h1 hhi
  have b : 2 ^ 52 < 2 ^ bitLen t := lt_of_le_of_lt hlo h2
  have a' := (Nat.pow_lt_pow_iff_right (by decide : 1 < 2)).1 a
  have b' := (Nat.pow_lt_pow_iff_right (by decide : 1 < 2)).1 b
  omega

/-- ★ for 2^52 ≤ t < 2^53 and −1074 ≤ e ≤ 971 the double returned by `ldexp((double) t, e)` is exactly `t·2^e`:
    its bit pattern decodes to the same significand and exponent (no second rounding in the normal range). -/
theorem ldexp_exact_normal (t : Nat) (e : Int) (hlo : 2 ^ 52 ≤ t) (hhi : t < 2 ^ 53) (he1 : -1074 ≤ e) (he2 : e ≤ 971) :
    decodeBits (ldexpBits t e) = (t, e) := by
  have hl := bitLen_53 t hlo hhi
  have p52 : (2 : Nat) ^ 52 = 4503599627370496 := by norm_num
  have p53 : (2 : Nat) ^ 53 = 9007199254740992 := by norm_num
  rw [p52] at hlo; rw [p53] at hhi
  have h0 : t ≠ 0 := by omega
  unfold ldexpBits
  rw [if_neg h0]
  simp only [hl]
  have c1 : ¬ (e + ((53 : Nat) : Int) - 1 > 1100) := by omega
  rw [if_neg c1]
  have c2 : ¬ (e + ((53 : Nat) : Int) - 1 - 52 < -1074) := by omega
  rw [if_neg c2]
  have eq : e + ((53 : Nat) : Int) - 1 - 52 = e := by omega
  rw [eq]
  simp only [le_refl, if_true, Int.sub_self, Int.toNat_zero, Nat.shiftLeft_zero]
  obtain ⟨k, hk⟩ : ∃ k : Nat, e + 1074 = (k : Int) := ⟨(e + 1074).toNat, by omega⟩
  have hk2 : k ≤ 2045 := by omega
  rw [hk]
  have c3 : ¬ ((k : Int) * 4503599627370496 + (t : Int) ≥ 0x7FF0000000000000) := by omega
  rw [if_neg c3]
  have hnat : ((k : Int) * 4503599627370496 + (t : Int)).toNat = k * 4503599627370496 + t := by omega
  rw [hnat]
  unfold decodeBits
  have hef : (k * 4503599627370496 + t) / 4503599627370496 % 2048 = k + 1 := by omega
  have hf : (k * 4503599627370496 + t) % 4503599627370496 = t - 4503599627370496 := by omega
  simp only [hef, hf]
  have : k + 1 ≠ 0 := by omega
  rw [if_neg this]
  refine Prod.ext ?_ ?_
  · simp; omega
  · simp; omega

/-! ### the second rounding inside `ldexp`: subnormal results and overflow -/

theorem rneShift_cases (t s : Nat) : rneShift t s = t / 2 ^ s ∨ (rneShift t s = t / 2 ^ s + 1 ∧ t % 2 ^ s ≠ 0) := by
  unfold rneShift
  by_cases hs : s = 0
  · left; simp [hs]
  · rw [if_neg hs]
    simp only [Nat.shiftRight_eq_div_pow]
    split
    · rename_i h
      right
      refine ⟨rfl, ?_⟩
      have hp : 0 < 2 ^ (s - 1) := Nat.two_pow_pos _
      rcases h with h | h <;> omega
    · left; rfl

theorem succ_div_cases (f P : Nat) (hp : 0 < P) :
    (f + 1) / P = f / P ∨ ((f + 1) / P = f / P + 1 ∧ (f + 1) % P = 0) := by
  have h1 := Nat.div_add_mod f P
  have h2 := Nat.mod_lt f hp
  by_cases hc : f % P + 1 = P
  · right
    have e : f + 1 = P * (f / P + 1) := by rw [Nat.mul_add]; omega
    constructor
    · rw [e, Nat.mul_div_cancel_left _ hp]
    · rw [e]; exact Nat.mul_mod_right _ _
  · left
    have e : f + 1 = P * (f / P) + (f % P + 1) := by omega
    have hlt : f % P + 1 < P := by omega
    rw [e, Nat.mul_add_div hp, Nat.div_eq_of_lt hlt]; simp

/-- ★ double rounding keeps faithfulness: a faithful rounding `t` of `N/D`, rounded again (to nearest even) onto the 2^s
    times coarser grid, is still the floor or — only if inexact — the ceiling of the exact value on that grid.
    (Not necessarily the *nearest* any more; "one of the two adjacent doubles" is what the property asks.) -/
theorem rne_faithful (t N D s : Nat) (hD : 0 < D) (hF : FaithfulN t N D) : FaithfulN (rneShift t s) N (D * 2 ^ s) := by
  have hp : 0 < 2 ^ s := Nat.two_pow_pos _
  have hdd : N / (D * 2 ^ s) = N / D / 2 ^ s := by rw [Nat.div_div_eq_div_mul]
  have hmul : ∀ k, (k * 2 ^ s * D) % (D * 2 ^ s) = 0 := by
    intro k
    have : k * 2 ^ s * D = (D * 2 ^ s) * k := by ring
    rw [this]; exact Nat.mul_mod_right _ _
  -- if D*2^s divides N then 2^s divides N/D and D divides N
  have hdiv : N % (D * 2 ^ s) = 0 → (N / D) % 2 ^ s = 0 ∧ N % D = 0 := by
    intro hz
    obtain ⟨k, hk⟩ := Nat.dvd_of_mod_eq_zero hz
    have e1 : N = D * (2 ^ s * k) := by rw [hk]; ring
    constructor
    · rw [e1, Nat.mul_div_cancel_left _ hD]; exact Nat.mul_mod_right _ _
    · rw [e1]; exact Nat.mul_mod_right _ _
  unfold FaithfulN at *
  rw [hdd]
  set f := N / D with hf
  rcases hF with h | ⟨h, hne⟩
  · -- t = floor
    rw [h]
    rcases rneShift_cases f s with r | ⟨r, rne⟩
    · left; exact r
    · right; refine ⟨r, ?_⟩
      intro hz; exact rne (hdiv hz).1
  · -- t = floor + 1, inexact
    have hinex : N % (D * 2 ^ s) ≠ 0 := fun hz => hne (hdiv hz).2
    rw [h]
    have hq := succ_div_cases f (2 ^ s) hp
    rcases rneShift_cases (f + 1) s with r | ⟨r, rne⟩
    · rcases hq with q | ⟨q, _⟩
      · left; rw [r, q]
      · right; exact ⟨by rw [r, q], hinex⟩
    · rcases hq with q | ⟨q, qz⟩
      · right; exact ⟨by rw [r, q], hinex⟩
      · exact absurd qz rne

theorem bitLen_le_53 (t : Nat) (h : t < 2 ^ 53) : bitLen t ≤ 53 := by
  by_cases h0 : t = 0
  · simp [bitLen, h0]
  · have := (bitLen_bounds t h0).1
    by_contra hc
    have h53 : 53 ≤ bitLen t - 1 := by omega
    have : 2 ^ 53 ≤ 2 ^ (bitLen t - 1) := Nat.pow_le_pow_right (by decide) h53
    omega

/-- below the normal range `ldexp((double) t, e)` returns the bit pattern `rneShift t (−1074 − e)`: a count of 2^−1074
    units (patterns 0..2^52 denote pattern·2^−1074, 2^52 being the smallest normal) -/
theorem ldexp_subnormal_bits (t : Nat) (e : Int) (ht0 : t ≠ 0) (ht : t < 2 ^ 53) (he : e < -1074) :
    ldexpBits t e = rneShift t (-1074 - e).toNat ∧ ldexpBits t e ≤ 2 ^ 52 := by
  have hl := bitLen_le_53 t ht
  have hb : rneShift t (-1074 - e).toNat ≤ 2 ^ 52 := by
    obtain ⟨s, hs⟩ : ∃ s : Nat, (-1074 - e).toNat = s + 1 := ⟨(-1074 - e).toNat - 1, by omega⟩
    rw [hs]
    have hdiv : t / 2 ^ (s + 1) < 2 ^ 52 := by
      rw [Nat.div_lt_iff_lt_mul (Nat.two_pow_pos _)]
      calc t < 2 ^ 53 := ht
        _ = 2 ^ 52 * 2 ^ 1 := by norm_num
        _ ≤ 2 ^ 52 * 2 ^ (s + 1) := Nat.mul_le_mul_left _ (Nat.pow_le_pow_right (by decide) (by omega))
    rcases rneShift_cases t (s + 1) with r | ⟨r, _⟩ <;> omega
  have hval : ldexpBits t e = rneShift t (-1074 - e).toNat := by
    unfold ldexpBits
    rw [if_neg ht0]
    simp only
    have c1 : ¬ (e + (bitLen t : Int) - 1 > 1100) := by omega
    rw [if_neg c1]
    have c2 : e + (bitLen t : Int) - 1 - 52 < -1074 := by omega
    rw [if_pos c2]
    have c3 : ¬ ((-1074 : Int) ≤ e) := by omega
    rw [if_neg c3]
    have p52 : (2 : Nat) ^ 52 = 4503599627370496 := by norm_num
    rw [p52] at hb
    generalize rneShift t (-1074 - e).toNat = mant at *
    have c4 : ¬ (((-1074 : Int) + 1074) * 4503599627370496 + (mant : Int) ≥ 0x7FF0000000000000) := by omega
    rw [if_neg c4]
    omega
  exact ⟨hval, by rw [hval]; exact hb⟩

/-- ★ subnormal results: `bignat_extract` + correctly rounded `ldexp` is still faithful — the returned pattern (a count
    of 2^−1074 units) is the floor or, only if inexact, the ceiling of the exact value measured in those units: one of
    the two adjacent doubles, the value itself when representable. -/
theorem ldexp_faithful_subnormal (t N D : Nat) (e : Int) (hD : 0 < D) (ht0 : t ≠ 0) (ht : t < 2 ^ 53) (he : e < -1074)
    (hF : FaithfulN t N D) :
    FaithfulN (ldexpBits t e) N (D * 2 ^ (-1074 - e).toNat) ∧ ldexpBits t e ≤ 2 ^ 52 := by
  obtain ⟨hv, hb⟩ := ldexp_subnormal_bits t e ht0 ht he
  exact ⟨by rw [hv]; exact rne_faithful t N D _ hD hF, hb⟩

/-- ★ overflow: for a normalised significand and e ≥ 972, `ldexp` returns +inf … -/
theorem ldexp_overflow_bits (t : Nat) (e : Int) (hlo : 2 ^ 52 ≤ t) (hhi : t < 2 ^ 53) (he : 972 ≤ e) :
    ldexpBits t e = infBits := by
  have hl := bitLen_53 t hlo hhi
  have p52 : (2 : Nat) ^ 52 = 4503599627370496 := by norm_num
  rw [p52] at hlo
  have h0 : t ≠ 0 := by omega
  unfold ldexpBits
  rw [if_neg h0]
  simp only [hl]
  by_cases c1 : e + ((53 : Nat) : Int) - 1 > 1100
  · rw [if_pos c1]
  · rw [if_neg c1]
    have c2 : ¬ (e + ((53 : Nat) : Int) - 1 - 52 < -1074) := by omega
    rw [if_neg c2]
    have eq : e + ((53 : Nat) : Int) - 1 - 52 = e := by omega
    rw [eq]
    simp only [le_refl, if_true, Int.sub_self, Int.toNat_zero, Nat.shiftLeft_zero]
    have c3 : (e + 1074) * 4503599627370496 + (t : Int) ≥ 0x7FF0000000000000 := by omega
    rw [if_pos c3]

/-- … and the exact value is then indeed above DBL_MAX = (2^53−1)·2^971 (so DBL_MAX and +inf are its two neighbours):
    from the magnitude fact `(2^54−1)·D ≤ 4·N` that `extract_faithful_*` provide for the exact value `N/D` (in units of
    2^e), `N/D · 2^e > (2^53−1)·2^971` whenever e ≥ 972. -/
theorem overflow_value_gt_dblmax (N D e : Nat) (hD : 0 < D) (hmag : (2 ^ 54 - 1) * D ≤ 4 * N) (he : 972 ≤ e) :
    (2 ^ 53 - 1) * 2 ^ 971 * D < N * 2 ^ e := by
  have hpe : 2 ^ 972 ≤ 2 ^ e := Nat.pow_le_pow_right (by decide) he
  have h1 : N * 2 ^ 972 ≤ N * 2 ^ e := Nat.mul_le_mul_left _ hpe
  have e972 : (2 : Nat) ^ 972 = 4 * 2 ^ 970 := by rw [show (972 : Nat) = 2 + 970 by rfl, pow_add]; norm_num
  have e971 : (2 : Nat) ^ 971 = 2 * 2 ^ 970 := by rw [show (971 : Nat) = 1 + 970 by rfl, pow_add]; norm_num
  have hP : 0 < 2 ^ 970 := Nat.two_pow_pos _
  generalize (2 : Nat) ^ 970 = P at *
  rw [e972] at h1
  rw [e971]
  have h3 : (2 ^ 54 - 1) * D * P ≤ 4 * N * P := Nat.mul_le_mul_right _ hmag
  have c53 : (2 : Nat) ^ 53 - 1 = 9007199254740991 := by norm_num
  have c54 : (2 : Nat) ^ 54 - 1 = 18014398509481983 := by norm_num
  rw [c54] at h3; rw [c53]
  have hDP : 0 < D * P := Nat.mul_pos hD hP
  nlinarith

/-- ★ the one-digit case of `bignat_extract` (`top53 = first_digit`, exponent 0) and any integer below 2^53:
    `ldexp((double) t, 0)` is exact — the pattern decodes to (t·2^k, −k) with k = 53 − bitlength(t). -/
theorem ldexp_exact_int (t : Nat) (ht0 : t ≠ 0) (ht : t < 2 ^ 53) :
    decodeBits (ldexpBits t 0) = (t * 2 ^ (53 - bitLen t), -((53 - bitLen t : Nat) : Int)) := by
  obtain ⟨hlo, hhi, hpos⟩ := bitLen_bounds t ht0
  have hl := bitLen_le_53 t ht
  have e52 : 2 ^ (bitLen t - 1) * 2 ^ (53 - bitLen t) = 2 ^ 52 := by rw [← pow_add]; congr 1; omega
  have e53 : 2 ^ bitLen t * 2 ^ (53 - bitLen t) = 2 ^ 53 := by rw [← pow_add]; congr 1; omega
  have m1 : 2 ^ 52 ≤ t * 2 ^ (53 - bitLen t) := by rw [← e52]; exact Nat.mul_le_mul_right _ hlo
  have m2 : t * 2 ^ (53 - bitLen t) < 2 ^ 53 := by
    rw [← e53]; exact Nat.mul_lt_mul_of_pos_right hhi (Nat.two_pow_pos _)
  have p52 : (2 : Nat) ^ 52 = 4503599627370496 := by norm_num
  have p53 : (2 : Nat) ^ 53 = 9007199254740992 := by norm_num
  rw [p52] at m1; rw [p53] at m2
  clear hlo hhi e52 e53 p52 p53 ht
  unfold ldexpBits
  rw [if_neg ht0]
  simp only
  have c1 : ¬ ((0 : Int) + (bitLen t : Int) - 1 > 1100) := by omega
  rw [if_neg c1]
  have c2 : ¬ ((0 : Int) + (bitLen t : Int) - 1 - 52 < -1074) := by omega
  rw [if_neg c2]
  have c3 : (0 : Int) + (bitLen t : Int) - 1 - 52 ≤ 0 := by omega
  rw [if_pos c3]
  have hs : (0 - ((0 : Int) + (bitLen t : Int) - 1 - 52)).toNat = 53 - bitLen t := by omega
  rw [hs, Nat.shiftLeft_eq]
  generalize t * 2 ^ (53 - bitLen t) = mant at *
  obtain ⟨k, hk⟩ : ∃ k : Nat, (0 : Int) + (bitLen t : Int) - 1 - 52 + 1074 = (k : Int) := ⟨bitLen t + 1021, by omega⟩
  have hkv : k = bitLen t + 1021 := by omega
  rw [hk]
  have c4 : ¬ ((k : Int) * 4503599627370496 + (mant : Int) ≥ 0x7FF0000000000000) := by omega
  rw [if_neg c4]
  have hnat : ((k : Int) * 4503599627370496 + (mant : Int)).toNat = k * 4503599627370496 + mant := by omega
  rw [hnat]
  unfold decodeBits
  have hef : (k * 4503599627370496 + mant) / 4503599627370496 % 2048 = k + 1 := by omega
  have hf : (k * 4503599627370496 + mant) % 4503599627370496 = mant - 4503599627370496 := by omega
  simp only [hef, hf]
  have : k + 1 ≠ 0 := by omega
  rw [if_neg this]
  refine Prod.ext ?_ ?_
  · simp; omega
  · simp; omega

end JanetModel.Strtod
