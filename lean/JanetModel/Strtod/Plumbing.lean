/- C13: the scanner plumbing of `janet_scan_number_base` (sign, radix prefix, leading zeros, digit accumulation into
   the BigNat, `ex` bookkeeping, `seenpoint`, separators, exponent marker / sign / digits with the clamp) proved correct
   against the independent value `denote` (Strtod/Denote.lean). -/
import JanetModel.Strtod.Denote
import JanetModel.Strtod.ScanLemmas

namespace JanetModel.Strtod
open JanetModel.Gen.Strtod

/-! ### small facts about the spec functions -/

theorem digitOf_eq_charVal_fin : ∀ c : Fin 128, digitOf c.val = charVal c.val := by decide +kernel

theorem digitOf_eq_charVal (c : Nat) (h : ¬ c > 127) : digitOf c = charVal c :=
  digitOf_eq_charVal_fin ⟨c, by omega⟩

/-- number of digit characters after the point, when `sp` says whether the point has already been passed -/
def fracFrom (sp : Bool) (ms : List Nat) : Nat := if sp then (mantChars ms).length else (fracChars ms).length

theorem fracFrom_nil (sp : Bool) : fracFrom sp [] = 0 := by cases sp <;> rfl

theorem fracFrom_point (sp : Bool) (r : List Nat) : fracFrom sp (46 :: r) = fracFrom true r := by
  cases sp <;> simp [fracFrom, mantChars, fracChars, List.filter, List.dropWhile]

theorem fracFrom_us (sp : Bool) (r : List Nat) : fracFrom sp (95 :: r) = fracFrom sp r := by
  cases sp <;> simp [fracFrom, mantChars, fracChars, List.filter, List.dropWhile]

theorem fracFrom_digit (sp : Bool) (c : Nat) (r : List Nat) (h46 : c ≠ 46) (h95 : c ≠ 95) :
    fracFrom sp (c :: r) = (if sp then 1 else 0) + fracFrom sp r := by
  have e1 : (c != 46) = true := by simp [h46]
  have e2 : (c != 95) = true := by simp [h95]
  cases sp
  · simp [fracFrom, fracChars, List.dropWhile_cons, e1]
  · simp [fracFrom, mantChars, List.filter_cons, e1, e2]; omega

theorem mantChars_point (r : List Nat) : mantChars (46 :: r) = mantChars r := by simp [mantChars, List.filter]
theorem mantChars_us (r : List Nat) : mantChars (95 :: r) = mantChars r := by simp [mantChars, List.filter]
theorem mantChars_digit (c : Nat) (r : List Nat) (h46 : c ≠ 46) (h95 : c ≠ 95) : mantChars (c :: r) = c :: mantChars r := by
  have e1 : (c != 46) = true := by simp [h46]
  have e2 : (c != 95) = true := by simp [h95]
  simp [mantChars, List.filter_cons, e1, e2]

theorem ofDigitsFrom_cons (b acc c : Nat) (l : List Nat) :
    ofDigitsFrom b acc (c :: l) = ofDigitsFrom b (acc * b + charVal c) l := rfl

theorem ofDigitsFrom_nil (b acc : Nat) : ofDigitsFrom b acc [] = acc := rfl

/-- the mantissa text / the rest from the marker on -/
def tw (b : Nat) (s : List Nat) : List Nat := s.takeWhile (fun c => !isExpMarker b c)
def dw (b : Nat) (s : List Nat) : List Nat := s.dropWhile (fun c => !isExpMarker b c)

theorem tw_cons_no (b c : Nat) (r : List Nat) (h : isExpMarker b c = false) : tw b (c :: r) = c :: tw b r := by
  simp [tw, List.takeWhile, h]
theorem dw_cons_no (b c : Nat) (r : List Nat) (h : isExpMarker b c = false) : dw b (c :: r) = dw b r := by
  simp [dw, List.dropWhile, h]
theorem tw_cons_yes (b c : Nat) (r : List Nat) (h : isExpMarker b c = true) : tw b (c :: r) = [] := by
  simp [tw, List.takeWhile, h]
theorem dw_cons_yes (b c : Nat) (r : List Nat) (h : isExpMarker b c = true) : dw b (c :: r) = c :: r := by
  simp [dw, List.dropWhile, h]

theorem isExpMarker_iff (b c : Nat) :
    isExpMarker b c = true ↔ (c = 38 ∨ (b = 10 ∧ (c = 69 ∨ c = 101)) ∨ (b = 16 ∧ (c = 80 ∨ c = 112))) := by
  simp [isExpMarker, or_assoc]

theorem isExpMarker_false (b c : Nat) (h1 : ¬ c = 38) (h2 : ¬ (b = 16 ∧ (c = 80 ∨ c = 112)))
    (h3 : ¬ (b = 10 ∧ (c = 69 ∨ c = 101))) : isExpMarker b c = false := by
  cases h : isExpMarker b c
  · rfl
  · rw [isExpMarker_iff] at h; tauto

/-- is the exponent of the hex-float kind (`p`/`P` after a radix-16 mantissa)? — the same test `denote` makes -/
def hexpOf (b : Nat) (s' : List Nat) : Bool :=
  match s' with
  | c :: _ => (c == 80 || c == 112) && b == 16
  | [] => false

/-! ### the digit loop -/

structure DigRes (b : Nat) (s : List Nat) (st st' : ScanSt) (s' : List Nat) : Prop where
  rest : s' = dw b s
  mval : st'.mant.val = ofDigitsFrom b st.mant.val (mantChars (tw b s))
  inv : MantInv st'.mant
  bound : st'.mant.val + 1 ≤ (st.mant.val + 1) * b ^ s.length
  ex : if hexpOf b s' then st'.base = 2 ∧ st'.expBase = 10 ∧ st'.ex = (st.ex - (fracFrom st.seenpoint (tw b s) : Int)) * 4
       else st'.base = b ∧ st'.expBase = st.expBase ∧ st'.ex = st.ex - (fracFrom st.seenpoint (tw b s) : Int)
  found : st'.foundexp = (st.foundexp || !s'.isEmpty)

theorem scanDigits_spec (s : List Nat) : ∀ (st : ScanSt) (s' : List Nat) (st' : ScanSt),
    scanDigits s st = some (s', st') → StInv st → DigRes st.base s st st' s' := by
  induction s with
  | nil =>
    intro st s' st' h hi
    simp [scanDigits] at h
    obtain ⟨rfl, rfl⟩ := h
    exact ⟨rfl, rfl, hi.1, by simp, by simp [hexpOf, tw, fracFrom_nil], by simp⟩
  | cons c rest ih =>
    intro st s' st' h hi
    have hb1 : 1 ≤ st.base := hi.2.1
    have hpow : ∀ n, st.base ^ n ≤ st.base ^ (n + 1) := fun n => Nat.pow_le_pow_right hb1 (Nat.le_succ n)
    simp only [scanDigits] at h
    by_cases c46 : c = 46
    · rw [if_pos c46] at h
      by_cases hsp : st.seenpoint = true
      · rw [if_pos hsp] at h; exact absurd h (by simp)
      · rw [if_neg hsp] at h
        have r := ih _ _ _ h hi
        have hm : isExpMarker st.base c = false := by subst c46; simp [isExpMarker]
        subst c46
        refine ⟨?_, ?_, r.inv, ?_, ?_, r.found⟩
        · rw [dw_cons_no _ _ _ hm]; exact r.rest
        · rw [tw_cons_no _ _ _ hm, mantChars_point]; exact r.mval
        · calc st'.mant.val + 1 ≤ (st.mant.val + 1) * st.base ^ rest.length := r.bound
            _ ≤ (st.mant.val + 1) * st.base ^ (rest.length + 1) := Nat.mul_le_mul_left _ (hpow _)
        · rw [tw_cons_no _ _ _ hm, fracFrom_point]; exact r.ex
    · rw [if_neg c46] at h
      by_cases c38 : c = 38
      · rw [if_pos c38] at h
        simp at h
        obtain ⟨rfl, rfl⟩ := h
        have hm : isExpMarker st.base c = true := by subst c38; simp [isExpMarker]
        refine ⟨by rw [dw_cons_yes _ _ _ hm], by rw [tw_cons_yes _ _ _ hm]; rfl, hi.1, ?_, ?_, by simp⟩
        · calc st.mant.val + 1 = (st.mant.val + 1) * 1 := (Nat.mul_one _).symm
            _ ≤ (st.mant.val + 1) * st.base ^ (rest.length + 1) := Nat.mul_le_mul_left _ (Nat.one_le_pow _ _ hb1)
        · subst c38; simp [hexpOf, tw_cons_yes _ _ _ hm, fracFrom_nil]
      · rw [if_neg c38] at h
        by_cases cp : st.base = 16 ∧ (c = 80 ∨ c = 112)
        · rw [if_pos cp] at h
          simp at h
          obtain ⟨rfl, rfl⟩ := h
          have hm : isExpMarker st.base c = true := by rw [isExpMarker_iff]; tauto
          refine ⟨by rw [dw_cons_yes _ _ _ hm], by rw [tw_cons_yes _ _ _ hm]; rfl, hi.1, ?_, ?_, by simp⟩
          · calc st.mant.val + 1 = (st.mant.val + 1) * 1 := (Nat.mul_one _).symm
              _ ≤ (st.mant.val + 1) * st.base ^ (rest.length + 1) := Nat.mul_le_mul_left _ (Nat.one_le_pow _ _ hb1)
          · have hh : hexpOf st.base (c :: rest) = true := by
              obtain ⟨h16, hc⟩ := cp
              rcases hc with rfl | rfl <;> simp [hexpOf, h16]
            rw [if_pos hh]; simp [tw_cons_yes _ _ _ hm, fracFrom_nil]
        · rw [if_neg cp] at h
          by_cases ce : st.base = 10 ∧ (c = 69 ∨ c = 101)
          · rw [if_pos ce] at h
            simp at h
            obtain ⟨rfl, rfl⟩ := h
            have hm : isExpMarker st.base c = true := by rw [isExpMarker_iff]; tauto
            refine ⟨by rw [dw_cons_yes _ _ _ hm], by rw [tw_cons_yes _ _ _ hm]; rfl, hi.1, ?_, ?_, by simp⟩
            · calc st.mant.val + 1 = (st.mant.val + 1) * 1 := (Nat.mul_one _).symm
                _ ≤ (st.mant.val + 1) * st.base ^ (rest.length + 1) := Nat.mul_le_mul_left _ (Nat.one_le_pow _ _ hb1)
            · have hh : hexpOf st.base (c :: rest) = false := by
                obtain ⟨h10, _⟩ := ce
                simp [hexpOf, h10]
              rw [hh]; simp [tw_cons_yes _ _ _ hm, fracFrom_nil]
          · rw [if_neg ce] at h
            have hm : isExpMarker st.base c = false := isExpMarker_false _ _ c38 cp ce
            by_cases c95 : c = 95
            · rw [if_pos c95] at h
              by_cases hsd : st.seenadigit = true
              · rw [if_pos hsd] at h
                have r := ih _ _ _ h hi
                subst c95
                refine ⟨?_, ?_, r.inv, ?_, ?_, r.found⟩
                · rw [dw_cons_no _ _ _ hm]; exact r.rest
                · rw [tw_cons_no _ _ _ hm, mantChars_us]; exact r.mval
                · calc st'.mant.val + 1 ≤ (st.mant.val + 1) * st.base ^ rest.length := r.bound
                    _ ≤ (st.mant.val + 1) * st.base ^ (rest.length + 1) := Nat.mul_le_mul_left _ (hpow _)
                · rw [tw_cons_no _ _ _ hm, fracFrom_us]; exact r.ex
              · rw [if_neg hsd] at h; exact absurd h (by simp)
            · rw [if_neg c95] at h
              by_cases hbad : c > 127 ∨ digitOf c ≥ st.base
              · rw [if_pos hbad] at h; exact absurd h (by simp)
              · rw [if_neg hbad] at h
                have hd : digitOf c < st.base := by omega
                have hcv : digitOf c = charVal c := digitOf_eq_charVal c (by omega)
                have hf : st.base ≤ bigBase := le_trans hi.2.2 (by decide)
                have hi1 : MantInv (bignat_muladd st.mant st.base (digitOf c)) := muladd_inv _ _ _ hf hd hi.1
                have hv1 := muladd_val st.mant st.base (digitOf c) hf hd hi.1
                have r := ih _ _ _ h ⟨hi1, hi.2.1, hi.2.2⟩
                have rb := r.bound
                have rm := r.mval
                have rx := r.ex
                simp only at rb rm rx
                refine ⟨?_, ?_, r.inv, ?_, ?_, r.found⟩
                · rw [dw_cons_no _ _ _ hm]; exact r.rest
                · rw [tw_cons_no _ _ _ hm, mantChars_digit _ _ c46 c95, ofDigitsFrom_cons, ← hcv, ← hv1]; exact rm
                · rw [hv1] at rb
                  calc st'.mant.val + 1 ≤ (st.mant.val * st.base + digitOf c + 1) * st.base ^ rest.length := rb
                    _ ≤ ((st.mant.val + 1) * st.base) * st.base ^ rest.length := by
                        apply Nat.mul_le_mul_right
                        rw [Nat.add_mul, Nat.one_mul]; omega
                    _ = (st.mant.val + 1) * st.base ^ (rest.length + 1) := by rw [pow_succ]; ring
                · rw [tw_cons_no _ _ _ hm, fracFrom_digit _ _ _ c46 c95]
                  cases hsp : st.seenpoint
                  · simp only [hsp] at rx ⊢
                    simpa using rx
                  · simp only [hsp] at rx ⊢
                    split at rx
                    · rw [if_pos (by assumption)]
                      refine ⟨rx.1, rx.2.1, ?_⟩
                      rw [rx.2.2]; push_cast; ring
                    · rw [if_neg (by assumption)]
                      refine ⟨rx.1, rx.2.1, ?_⟩
                      rw [rx.2.2]; push_cast; ring

/-! ### the leading-zeros loop -/

structure ZeroRes (b : Nat) (s : List Nat) (st st' : ScanSt) (s' : List Nat) : Prop where
  mant : st'.mant = st.mant
  base : st'.base = st.base
  ebase : st'.expBase = st.expBase
  found : st'.foundexp = st.foundexp
  rest : dw b s = dw b s'
  mval : ofDigitsFrom b 0 (mantChars (tw b s)) = ofDigitsFrom b 0 (mantChars (tw b s'))
  ex : st.ex - (fracFrom st.seenpoint (tw b s) : Int) = st'.ex - (fracFrom st'.seenpoint (tw b s') : Int)
  len : s'.length ≤ s.length

theorem marker_48 (b : Nat) : isExpMarker b 48 = false := by simp [isExpMarker]
theorem marker_46 (b : Nat) : isExpMarker b 46 = false := by simp [isExpMarker]

theorem skipZeros_spec (b : Nat) (s : List Nat) : ∀ (st : ScanSt) (s' : List Nat) (st' : ScanSt),
    skipZeros s st = some (s', st') → ZeroRes b s st st' s' := by
  induction s with
  | nil =>
    intro st s' st' h
    simp [skipZeros] at h
    obtain ⟨rfl, rfl⟩ := h
    exact ⟨rfl, rfl, rfl, rfl, rfl, rfl, rfl, le_refl _⟩
  | cons c rest ih =>
    intro st s' st' h
    simp only [skipZeros] at h
    by_cases hc : c = 48 ∨ c = 46
    · rw [if_pos hc] at h
      by_cases c46 : c = 46
      · rw [if_pos c46] at h
        by_cases hsp : st.seenpoint = true
        · rw [if_pos hsp] at h; exact absurd h (by simp)
        · rw [if_neg hsp] at h
          have hspf : st.seenpoint = false := by simpa using hsp
          simp only [hspf, Bool.false_eq_true, if_false] at h
          have r := ih _ _ _ h
          subst c46
          refine ⟨r.mant, r.base, r.ebase, r.found, ?_, ?_, ?_, Nat.le_succ_of_le r.len⟩
          · rw [dw_cons_no _ _ _ (marker_46 b)]; exact r.rest
          · rw [tw_cons_no _ _ _ (marker_46 b), mantChars_point]; exact r.mval
          · rw [tw_cons_no _ _ _ (marker_46 b), fracFrom_point]; exact r.ex
      · rw [if_neg c46] at h
        have c48 : c = 48 := by tauto
        subst c48
        have hcv : charVal 48 = 0 := by decide
        cases hsp : st.seenpoint
        · simp only [hsp, Bool.false_eq_true, if_false] at h
          have r := ih _ _ _ h
          have rx := r.ex
          simp only [hsp] at rx
          refine ⟨r.mant, r.base, r.ebase, r.found, ?_, ?_, ?_, Nat.le_succ_of_le r.len⟩
          · rw [dw_cons_no _ _ _ (marker_48 b)]; exact r.rest
          · rw [tw_cons_no _ _ _ (marker_48 b), mantChars_digit _ _ (by decide) (by decide), ofDigitsFrom_cons, hcv]
            simpa using r.mval
          · rw [tw_cons_no _ _ _ (marker_48 b), fracFrom_digit _ _ _ (by decide) (by decide), hsp]
            simpa using rx
        · simp only [hsp, if_true] at h
          have r := ih _ _ _ h
          have rx := r.ex
          simp only [hsp] at rx
          refine ⟨r.mant, r.base, r.ebase, r.found, ?_, ?_, ?_, Nat.le_succ_of_le r.len⟩
          · rw [dw_cons_no _ _ _ (marker_48 b)]; exact r.rest
          · rw [tw_cons_no _ _ _ (marker_48 b), mantChars_digit _ _ (by decide) (by decide), ofDigitsFrom_cons, hcv]
            simpa using r.mval
          · rw [tw_cons_no _ _ _ (marker_48 b), fracFrom_digit _ _ _ (by decide) (by decide), hsp]
            simp only [if_true]
            rw [← rx]; push_cast; ring
    · rw [if_neg hc] at h
      simp at h
      obtain ⟨rfl, rfl⟩ := h
      exact ⟨rfl, rfl, rfl, rfl, rfl, rfl, rfl, le_refl _⟩

/-! ### the exponent -/

theorem skipExpZeros_spec (eb : Nat) (s : List Nat) : ∀ (sd : Bool) (s' : List Nat) (sd' : Bool),
    skipExpZeros s sd = (s', sd') → ofDigitsFrom eb 0 s = ofDigitsFrom eb 0 s' ∧ s'.length ≤ s.length := by
  induction s with
  | nil => intro sd s' sd' h; simp [skipExpZeros] at h; obtain ⟨rfl, _⟩ := h; exact ⟨rfl, le_refl _⟩
  | cons c rest ih =>
    intro sd s' sd' h
    simp only [skipExpZeros] at h
    by_cases hc : c = 48
    · rw [if_pos hc] at h
      obtain ⟨r1, r2⟩ := ih _ _ _ h
      subst hc
      have hcv : charVal 48 = 0 := by decide
      refine ⟨?_, Nat.le_succ_of_le r2⟩
      rw [ofDigitsFrom_cons, hcv]; simpa using r1
    · rw [if_neg hc] at h
      simp at h
      obtain ⟨rfl, _⟩ := h
      exact ⟨rfl, le_refl _⟩

/-- relation between the scanner's clamped accumulator `ee` and the true accumulated exponent `X` -/
def ExpRel (eb ee X : Nat) : Prop :=
  ee = X ∨ (eeLimit ≤ ee ∧ (eeSat = 0 ∨ ee = eeSat) ∧ eb * eeLimit ≤ X)

theorem scanExpDigits_spec (eb : Nat) (heb1 : 1 ≤ eb) (hsat : eeSat = 0 ∨ eeLimit ≤ eeSat) (s : List Nat) :
    ∀ (ee X : Nat) (sd : Bool) (ee' : Nat) (sd' : Bool),
    scanExpDigits eb s ee sd = some (ee', sd') → ExpRel eb ee X → ee ≤ max (eb * eeLimit) eeSat →
    ExpRel eb ee' (ofDigitsFrom eb X s) ∧ ee' ≤ max (eb * eeLimit) eeSat := by
  induction s with
  | nil =>
    intro ee X sd ee' sd' h hr hb
    simp [scanExpDigits] at h
    obtain ⟨rfl, _⟩ := h
    exact ⟨hr, hb⟩
  | cons c rest ih =>
    intro ee X sd ee' sd' h hr hb
    simp only [scanExpDigits] at h
    by_cases hbad : c > 127 ∨ digitOf c ≥ eb
    · rw [if_pos hbad] at h; exact absurd h (by simp)
    · rw [if_neg hbad] at h
      have hd : digitOf c < eb := by omega
      have hcv : digitOf c = charVal c := digitOf_eq_charVal c (by omega)
      rw [ofDigitsFrom_cons, ← hcv]
      apply ih _ _ _ _ _ h
      · unfold eeStep
        by_cases hlt : ee < eeLimit
        · rw [if_pos hlt]
          rcases hr with rfl | ⟨h1, _, _⟩
          · left; ring
          · omega
        · rw [if_neg hlt]
          right
          have hX : eb * eeLimit ≤ X * eb + digitOf c := by
            rcases hr with rfl | ⟨_, _, h3⟩
            · have : eeLimit * eb ≤ ee * eb := Nat.mul_le_mul_right eb (by omega)
              rw [Nat.mul_comm] at this; omega
            · have : X * 1 ≤ X * eb := Nat.mul_le_mul_left X heb1
              omega
          by_cases hs0 : eeSat = 0
          · rw [if_pos hs0]; exact ⟨by omega, Or.inl hs0, hX⟩
          · rw [if_neg hs0]; exact ⟨by omega, Or.inr rfl, hX⟩
      · unfold eeStep
        by_cases hlt : ee < eeLimit
        · rw [if_pos hlt]
          have : eb * ee + eb ≤ eb * eeLimit := by
            have := Nat.mul_le_mul_left eb (show ee + 1 ≤ eeLimit by omega)
            rw [Nat.mul_add, Nat.mul_one] at this; exact this
          omega
        · rw [if_neg hlt]
          by_cases hs0 : eeSat = 0
          · rw [if_pos hs0]; exact hb
          · rw [if_neg hs0]; omega

theorem parseExponent_eq (st2 : ScanSt) (s5 : List Nat) :
    parseExponent st2 s5 =
      (if s5 = [] then none
       else match scanExpDigits st2.expBase (skipExpZeros (splitSign s5).2 false).1 0 (skipExpZeros (splitSign s5).2 false).2 with
        | none => none
        | some (ee, sd2) => if !sd2 then none else some (if (splitSign s5).1 then st2.ex - ee else st2.ex + ee)) := by
  cases s5 with
  | nil => rfl
  | cons c5 r5 =>
    by_cases h45 : c5 = 45
    · subst h45; rfl
    · by_cases h43 : c5 = 43
      · subst h43; rfl
      · simp only [parseExponent, splitSign, if_neg h45, if_neg h43]
        rfl

/-! ### sign and radix prefix -/

theorem splitRadix_len (s : List Nat) : (splitRadix s).2.length ≤ s.length := by
  unfold splitRadix
  split_ifs <;> simp [List.length_drop]

theorem splitSign_len (s : List Nat) : (splitSign s).2.length ≤ s.length := by
  cases s with
  | nil => simp [splitSign]
  | cons c r =>
    simp only [splitSign]
    split_ifs <;> simp

theorem scanPrefix_split (s : List Nat) (b0 : Nat) (r : List Nat) (h : scanPrefix s = some (b0, r)) :
    splitRadix s = (b0, r) := by
  unfold scanPrefix at h
  split at h
  · simp at h; obtain ⟨rfl, rfl⟩ := h; simp [splitRadix]
  · next c0 rest =>
    by_cases hd : 48 ≤ c0 ∧ c0 ≤ 57
    · rw [if_pos hd] at h; simp at h; obtain ⟨rfl, rfl⟩ := h
      simp [splitRadix, isDec, hd]
    · rw [if_neg hd] at h; simp at h; obtain ⟨rfl, rfl⟩ := h
      simp [splitRadix, isDec]
      omega
  · next c0 c1 rest hx1 hx2 =>
    by_cases hd : 48 ≤ c0 ∧ c0 ≤ 57 ∧ 48 ≤ c1 ∧ c1 ≤ 57
    · rw [if_pos hd] at h
      simp only at h
      by_cases hb : 10 * (c0 - 48) + (c1 - 48) < 2 ∨ 10 * (c0 - 48) + (c1 - 48) > 36
      · rw [if_pos hb] at h; exact absurd h (by simp)
      · rw [if_neg hb] at h; simp at h; obtain ⟨rfl, rfl⟩ := h
        have h1 : ¬ c1 = 120 := by omega
        have h2 : ¬ c1 = 114 := by omega
        simp [splitRadix, isDec, hd, h1, h2]
    · rw [if_neg hd] at h; simp at h; obtain ⟨rfl, rfl⟩ := h
      have h2 : ¬ c1 = 114 := fun e => hx2 e
      have h1 : ¬ (c0 = 48 ∧ c1 = 120) := fun e => hx1 e.1 e.2
      simp [splitRadix, isDec, h2]
      rw [if_neg h1, if_neg (by tauto)]
  · next hx1 hx2 hx3 =>
    simp at h; obtain ⟨rfl, rfl⟩ := h
    rcases s with _ | ⟨a, _ | ⟨b, _ | ⟨c, t⟩⟩⟩
    · simp [splitRadix]
    · simp [splitRadix]
    · have e1 := hx1 []
      have e2 := hx2 a []
      simp at e1 e2
      simp [splitRadix, isDec, e2]
      exact e1
    · have e1 := hx1 (c :: t)
      have e2 := hx2 a (c :: t)
      have e3 := hx3 a b t
      simp at e1 e2 e3
      simp [splitRadix, isDec, e2, e3]
      exact e1

theorem numHeader_spec (str : List Nat) (base0 : Nat) (neg : Bool) (b : Nat) (s2 : List Nat)
    (h : numHeader str base0 = some (neg, b, s2)) :
    denote str base0 = denoteBody neg b s2 ∧ str.length ≤ lenLimit ∧ s2.length ≤ str.length := by
  unfold numHeader at h
  by_cases hl : str.length > lenLimit
  · rw [if_pos hl] at h; exact absurd h (by simp)
  rw [if_neg hl] at h
  cases str with
  | nil => simp at h
  | cons c rest0 =>
    have hss : (if c = 45 then (true, rest0) else if c = 43 then (false, rest0) else (false, c :: rest0)) = splitSign (c :: rest0) := rfl
    simp only at h
    rw [hss] at h
    unfold denote
    have hsl := splitSign_len (c :: rest0)
    generalize splitSign (c :: rest0) = sg at *
    obtain ⟨sn, s1⟩ := sg
    simp only at h hsl ⊢
    by_cases hb0 : base0 = 0
    · simp only [hb0, if_true] at h ⊢
      cases hp : scanPrefix s1 with
      | none => rw [hp] at h; simp at h
      | some q =>
        obtain ⟨b0, r⟩ := q
        rw [hp] at h
        simp at h
        obtain ⟨rfl, rfl, rfl⟩ := h
        have hsr := scanPrefix_split _ _ _ hp
        have hrl := splitRadix_len s1
        rw [hsr] at hrl ⊢
        simp only at hrl ⊢
        exact ⟨by first | rfl | trivial, by omega, by omega⟩
    · simp only [hb0, if_false] at h ⊢
      simp at h
      obtain ⟨rfl, rfl, rfl⟩ := h
      exact ⟨by first | rfl | trivial, by omega, by omega⟩

/-! ### assembly: what the scanner hands to `convert`, against `denote` -/

/-- side condition on the clamp constants: either the code drops over-long exponent digits (`eeSat = 0`, the pinned
    tree) or it saturates to a value that dominates every mantissa exponent and cannot overflow `int32_t` -/
def SatOK : Prop := eeSat = 0 ∨ (eeLimit ≤ eeSat ∧ eeSat + 4 * lenLimit < 2 ^ 31)

theorem fracFrom_le (sp : Bool) (l : List Nat) : fracFrom sp l ≤ l.length := by
  cases sp
  · simp only [fracFrom, fracChars, mantChars]
    exact le_trans (List.length_filter_le _ _) (List.dropWhile_sublist _).length_le
  · simp only [fracFrom, mantChars]
    exact List.length_filter_le _ _

theorem tw_len (b : Nat) (s : List Nat) : (tw b s).length ≤ s.length := by
  unfold tw
  exact (List.takeWhile_sublist _).length_le

theorem denoteBody_nil (neg : Bool) (b : Nat) (s : List Nat) (h : dw b s = []) :
    denoteBody neg b s = ⟨neg, ofDigits b (mantChars (tw b s)), b, -(fracFrom false (tw b s) : Int)⟩ := by
  unfold dw at h
  unfold denoteBody
  simp only
  rw [h]
  rfl

theorem denoteBody_cons (neg : Bool) (b : Nat) (s : List Nat) (mk : Nat) (es : List Nat) (h : dw b s = mk :: es) :
    denoteBody neg b s =
      (if hexpOf b (mk :: es) then
        ⟨neg, ofDigits b (mantChars (tw b s)), 2,
          (if (splitSign es).1 then -(ofDigits 10 (splitSign es).2 : Int) else (ofDigits 10 (splitSign es).2 : Int))
            - 4 * (fracFrom false (tw b s) : Int)⟩
       else
        ⟨neg, ofDigits b (mantChars (tw b s)), b,
          (if (splitSign es).1 then -(ofDigits b (splitSign es).2 : Int) else (ofDigits b (splitSign es).2 : Int))
            - (fracFrom false (tw b s) : Int)⟩) := by
  unfold dw at h
  unfold denoteBody
  simp only
  rw [h]
  simp only [hexpOf]
  split_ifs <;> rfl

/-- the relation between what the scanner hands to `convert` (`p`) and the denoted value (`l`):
    same sign, radix and mantissa; the exponents are `±Y − cF` (scanner) and `±X − cF` (denoted) with the SAME sign and
    fraction shift `cF ≤ K`, mantissa below `b^K`, `K` at most 4·length; `Y = X` unless the exponent clamp was reached, in
    which case both are huge (`X ≥ K + 1100`; `Y ≥ eeLimit`, equal to `eeSat` when the code saturates). -/
def ExpOK (len : Nat) (p : Parsed) (l : Lit) : Prop :=
  ∃ (K cF Y X : Nat) (eneg : Bool),
    p.ex = (if eneg then -(Y : Int) else (Y : Int)) - cF ∧ l.E = (if eneg then -(X : Int) else (X : Int)) - cF ∧
    cF ≤ K ∧ K ≤ 4 * len ∧ l.M < l.b ^ K ∧ Y + K < 2 ^ 31 ∧
    (Y = X ∨ ((2 ≤ p.base → K + 1100 ≤ X) ∧ eeLimit ≤ Y ∧ (eeSat = 0 ∨ Y = eeSat)))

theorem exp_bound_aux (eb ee len : Nat) (hb36 : eb ≤ 36) (hlen : len ≤ lenLimit)
    (hB : ee ≤ max (eb * eeLimit) eeSat) (hsat : SatOK) :
    ee + len < 2 ^ 31 ∧ (eb = 10 → ee + 4 * len < 2 ^ 31) := by
  have hL1 : lenLimit = 53687091 := rfl
  have hL2 : eeLimit = 53687091 := rfl
  have p31 : (2 : Nat) ^ 31 = 2147483648 := by norm_num
  rw [hL1] at hlen
  rw [p31]
  rcases le_max_iff.mp hB with h | h
  · rw [hL2] at h
    have h36 : eb * 53687091 ≤ 36 * 53687091 := Nat.mul_le_mul_right _ hb36
    constructor
    · omega
    · intro h10; subst h10; omega
  · rcases hsat with h0 | ⟨_, h2⟩
    · rw [h0] at h; constructor
      · omega
      · intro _; omega
    · rw [hL1, p31] at h2
      constructor
      · omega
      · intro _; omega

theorem pow16 (n : Nat) : (16 : Nat) ^ n = 2 ^ (4 * n) := by
  rw [show (16 : Nat) = 2 ^ 4 by norm_num, ← pow_mul]

theorem parseBody_spec (neg : Bool) (b : Nat) (s2 : List Nat) (p : Parsed) (hb1 : 1 ≤ b) (hb36 : b ≤ 36)
    (hlen : s2.length ≤ lenLimit) (hsat : SatOK) (h : parseBody neg b s2 = some p) :
    p.neg = (denoteBody neg b s2).neg ∧ p.base = (denoteBody neg b s2).b ∧ p.mant.val = (denoteBody neg b s2).M ∧
    MantInv p.mant ∧ 1 ≤ p.base ∧ p.base ≤ 36 ∧ ExpOK s2.length p (denoteBody neg b s2) := by
  have hL1 : lenLimit = 53687091 := rfl
  have hL2 : eeLimit = 53687091 := rfl
  unfold parseBody at h
  simp only at h
  split at h
  · simp at h
  rename_i s3 st1 hz
  have Z := skipZeros_spec b s2 _ s3 st1 hz
  have hbase : st1.base = b := Z.base
  have hebase : st1.expBase = b := Z.ebase
  have hmant0 : st1.mant.val = 0 := by rw [Z.mant]; rfl
  have hZex : (0 : Int) - (fracFrom false (tw b s2) : Int) = st1.ex - (fracFrom st1.seenpoint (tw b s3) : Int) := Z.ex
  have hfound1 : st1.foundexp = false := Z.found
  split at h
  · simp at h
  rename_i s4 st2 hd
  have hi1 : StInv st1 := ⟨by rw [Z.mant]; exact zero_inv, by rw [hbase]; exact hb1, by rw [hbase]; exact hb36⟩
  have D := scanDigits_spec s3 st1 s4 st2 hd hi1
  rw [hbase] at D
  have hrest : s4 = dw b s2 := D.rest.trans Z.rest.symm
  have hM : st2.mant.val = ofDigits b (mantChars (tw b s2)) := by
    rw [D.mval, hmant0]; exact Z.mval.symm
  have hbound : st2.mant.val < b ^ s2.length := by
    have h1 := D.bound
    rw [hmant0] at h1
    have h2 : b ^ s3.length ≤ b ^ s2.length := Nat.pow_le_pow_right hb1 Z.len
    omega
  have hFle : fracFrom false (tw b s2) ≤ s2.length := le_trans (fracFrom_le _ _) (tw_len _ _)
  have hDex := D.ex
  have hDfound := D.found
  rw [hfound1] at hDfound
  generalize hF : fracFrom false (tw b s2) = F at *
  split at h
  · simp at h
  split at h
  · -- no exponent part
    simp at h
    subst h
    have hdw : dw b s2 = [] := hrest.symm
    rw [denoteBody_nil neg b s2 hdw, hF]
    simp only [hexpOf, Bool.false_eq_true, if_false] at hDex
    refine ⟨rfl, hDex.1, hM, D.inv, by rw [hDex.1]; exact hb1, by rw [hDex.1]; exact hb36, ?_⟩
    refine ⟨s2.length, F, 0, 0, false, ?_, ?_, hFle, by omega, ?_, by omega, Or.inl rfl⟩
    · simp only [Bool.false_eq_true, if_false]; rw [hDex.2.2]; omega
    · simp
    · simp only; rw [← hM]; exact hbound
  · rename_i mk s5
    have hdw : dw b s2 = mk :: s5 := hrest.symm
    have hfe : st2.foundexp = true := by simpa using hDfound
    split at h
    · rename_i hnf; rw [hfe] at hnf; simp at hnf
    split at h
    · simp at h
    rename_i exv hpe
    simp at h
    subst h
    rw [parseExponent_eq] at hpe
    by_cases hs5 : s5 = []
    · rw [if_pos hs5] at hpe; simp at hpe
    rw [if_neg hs5] at hpe
    generalize hsk : skipExpZeros (splitSign s5).2 false = sk at hpe
    obtain ⟨s7, sd⟩ := sk
    simp only at hpe
    cases hsc : scanExpDigits st2.expBase s7 0 sd with
    | none => rw [hsc] at hpe; simp at hpe
    | some q =>
      obtain ⟨ee, sd2⟩ := q
      rw [hsc] at hpe
      simp only at hpe
      by_cases hsd2 : (!sd2) = true
      · rw [if_pos hsd2] at hpe; simp at hpe
      rw [if_neg hsd2] at hpe
      simp at hpe
      rw [denoteBody_cons neg b s2 mk s5 hdw, hF]
      have hs5len : (splitSign s5).2.length ≤ s5.length := splitSign_len s5
      by_cases hhx : hexpOf b (mk :: s5) = true
      · -- hex float: radix 2, exponent digits decimal
        rw [if_pos hhx] at hDex ⊢
        obtain ⟨hb2, heb, hex⟩ := hDex
        have hb16 : b = 16 := by
          simp only [hexpOf, Bool.and_eq_true, beq_iff_eq] at hhx; exact hhx.2
        obtain ⟨hz1, _⟩ := skipExpZeros_spec 10 _ _ _ _ hsk
        rw [heb] at hsc
        have hsat' : eeSat = 0 ∨ eeLimit ≤ eeSat := by rcases hsat with h | h; exact Or.inl h; exact Or.inr h.1
        obtain ⟨hR, hB⟩ := scanExpDigits_spec 10 (by decide) hsat' s7 0 0 sd ee sd2 hsc (Or.inl rfl) (Nat.zero_le _)
        rw [← hz1] at hR
        refine ⟨rfl, hb2, hM, D.inv, by rw [hb2]; exact (by decide : 1 ≤ 2), by rw [hb2]; exact (by decide : 2 ≤ 36), ?_⟩
        refine ⟨4 * s2.length, 4 * F, ee, ofDigits 10 (splitSign s5).2, (splitSign s5).1, ?_, ?_, by omega, le_refl _, ?_, ?_, ?_⟩
        · rw [← hpe, hex, ← hZex]
          cases (splitSign s5).1 <;> simp <;> push_cast <;> ring
        · simp only; push_cast; ring
        · simp only
          rw [← hM, ← pow16, ← hb16]; exact hbound
        · exact (exp_bound_aux 10 ee s2.length (by decide) hlen hB hsat).2 rfl
        · rcases hR with hR | ⟨h1, h2, h3⟩
          · left; exact hR
          · right
            refine ⟨fun _ => ?_, h1, h2⟩
            unfold ofDigits
            rw [hL2] at h3; rw [hL1] at hlen
            clear hpe hex hZex hB
            omega
      · -- ordinary exponent in the literal's radix
        rw [if_neg hhx] at hDex ⊢
        obtain ⟨hb2, heb, hex⟩ := hDex
        rw [hebase] at heb
        obtain ⟨hz1, _⟩ := skipExpZeros_spec b _ _ _ _ hsk
        rw [heb] at hsc
        have hsat' : eeSat = 0 ∨ eeLimit ≤ eeSat := by rcases hsat with h | h; exact Or.inl h; exact Or.inr h.1
        obtain ⟨hR, hB⟩ := scanExpDigits_spec b hb1 hsat' s7 0 0 sd ee sd2 hsc (Or.inl rfl) (Nat.zero_le _)
        rw [← hz1] at hR
        have hbl : b * eeLimit ≤ 36 * eeLimit := Nat.mul_le_mul_right _ hb36
        refine ⟨rfl, hb2, hM, D.inv, by rw [hb2]; exact hb1, by rw [hb2]; exact hb36, ?_⟩
        refine ⟨s2.length, F, ee, ofDigits b (splitSign s5).2, (splitSign s5).1, ?_, ?_, hFle, by omega, ?_, ?_, ?_⟩
        · rw [← hpe, hex, ← hZex]
          cases (splitSign s5).1 <;> simp <;> ring
        · simp only
        · simp only
          rw [← hM]; exact hbound
        · exact (exp_bound_aux b ee s2.length hb36 hlen hB hsat).1
        · rcases hR with hR | ⟨h1, h2, h3⟩
          · left; exact hR
          · right
            refine ⟨fun hp2 => ?_, h1, h2⟩
            rw [hb2] at hp2
            have h4 : 2 * eeLimit ≤ b * eeLimit := Nat.mul_le_mul_right _ hp2
            unfold ofDigits
            rw [hL2] at h3 h4; rw [hL1] at hlen
            clear hpe hex hZex hB hbl
            omega

end JanetModel.Strtod
