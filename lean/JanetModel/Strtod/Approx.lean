/- C13: soundness of the two numeric short-circuits of `convert` (`exp2_approx > 1176` → ±inf, `< -1175` → ±0),
   including the floating-point term `floor(log2(base) * exponent)`.
   Named assumption `Log2Within1Ulp base`: the libm value `log2((double) base)` recorded in Gen/Strtod.lean is within one
   unit in the last place of the true logarithm. -/
import JanetModel.Strtod.Ldexp

namespace JanetModel.Strtod
open JanetModel.Gen.Strtod

/-- NAMED ASSUMPTION about libm: with (lm, le) the table entry (value lm·2^le, le < 0) and K = 2^(−le):
    (lm−1)/K ≤ log2(base) ≤ (lm+1)/K, written without logarithms as 2^(lm−1) ≤ base^K ≤ 2^(lm+1). -/
def Log2Within1Ulp (base : Nat) : Prop :=
  2 ^ ((log2Entry base).1 - 1) ≤ base ^ (2 ^ (-(log2Entry base).2).toNat) ∧
  base ^ (2 ^ (-(log2Entry base).2).toNat) ≤ 2 ^ ((log2Entry base).1 + 1)

/-- shape of the regenerated table: for every radix 2..36 the entry is a normalised 53-bit significand with exponent
    −52, −51 or −50 (values in [1, 8)) -/
theorem log2Table_shape : ∀ b : Fin 37, 2 ≤ b.val →
    2 ^ 52 ≤ (log2Entry b.val).1 ∧ (log2Entry b.val).1 < 2 ^ 53 ∧
    -52 ≤ (log2Entry b.val).2 ∧ (log2Entry b.val).2 ≤ -50 := by decide +kernel

/-! ### K-th root monotonicity -/

theorem pow_root_lower (b a K c m : Nat) (hK : K ≠ 0) (hlow : 2 ^ c ≤ b ^ K) (hm : m * K ≤ c * a) : 2 ^ m ≤ b ^ a := by
  by_contra hc
  have hlt : b ^ a < 2 ^ m := Nat.lt_of_not_le hc
  have h1 : (b ^ a) ^ K < (2 ^ m) ^ K := Nat.pow_lt_pow_left hlt hK
  have h2 : (2 ^ m) ^ K ≤ 2 ^ (c * a) := by rw [← pow_mul]; exact Nat.pow_le_pow_right (by decide) hm
  have h3 : 2 ^ (c * a) ≤ (b ^ K) ^ a := by rw [pow_mul]; exact Nat.pow_le_pow_left hlow a
  have h4 : (b ^ K) ^ a = (b ^ a) ^ K := by rw [← pow_mul, ← pow_mul, Nat.mul_comm]
  rw [h4] at h3
  exact absurd (lt_of_lt_of_le h1 (le_trans h2 h3)) (lt_irrefl _)

theorem pow_root_upper (b a K c m : Nat) (hK : K ≠ 0) (hup : b ^ K ≤ 2 ^ c) (hm : c * a ≤ m * K) : b ^ a ≤ 2 ^ m := by
  by_contra hc
  have hlt : 2 ^ m < b ^ a := Nat.lt_of_not_le hc
  have h1 : (2 ^ m) ^ K < (b ^ a) ^ K := Nat.pow_lt_pow_left hlt hK
  have h4 : (b ^ a) ^ K = (b ^ K) ^ a := by rw [← pow_mul, ← pow_mul, Nat.mul_comm]
  have h3 : (b ^ K) ^ a ≤ 2 ^ (c * a) := by rw [pow_mul]; exact Nat.pow_le_pow_left hup a
  have h2 : 2 ^ (c * a) ≤ (2 ^ m) ^ K := by rw [← pow_mul]; exact Nat.pow_le_pow_right (by decide) hm
  rw [h4] at h1
  exact absurd (lt_of_lt_of_le h1 (le_trans h3 h2)) (lt_irrefl _)

/-! ### the double product `L * a`, rounded and floored -/

theorem bitLen_le_of_lt (p k : Nat) (h : p < 2 ^ k) : bitLen p ≤ k := by
  by_cases h0 : p = 0
  · simp [bitLen, h0]
  · have := (bitLen_bounds p h0).1
    by_contra hc
    have hk : k ≤ bitLen p - 1 := by omega
    have : 2 ^ k ≤ 2 ^ (bitLen p - 1) := Nat.pow_le_pow_right (by decide) hk
    omega

/-- facts about `mulFloorMag lm le a` for a 53-bit `lm`, −52 ≤ le ≤ −50 and a < 2^31, with K = 2^(−le): there is the
    rounded product `r2` (in units of 1/K) with q·K ≤ r2 < (q+1)·K, r2 = q·K when no fraction was dropped, and
    |r2 − lm·a| ≤ 2^31 (rounding error of the double multiplication, crude). -/
theorem mulFloorMag_facts (lm : Nat) (le : Int) (a : Nat) (hlm : lm < 2 ^ 53) (hle1 : -52 ≤ le) (hle2 : le ≤ -50)
    (ha : a < 2 ^ 31) :
    ∃ r2 : Nat, (mulFloorMag lm le a).1 * 2 ^ (-le).toNat ≤ r2 ∧ r2 < ((mulFloorMag lm le a).1 + 1) * 2 ^ (-le).toNat ∧
      ((mulFloorMag lm le a).2 = false → r2 = (mulFloorMag lm le a).1 * 2 ^ (-le).toNat) ∧
      r2 ≤ lm * a + 2 ^ 31 ∧ lm * a ≤ r2 + 2 ^ 31 := by
  unfold mulFloorMag
  simp only
  by_cases hp : lm * a = 0
  · rw [if_pos hp]
    refine ⟨0, by simp, by simp [Nat.two_pow_pos], fun _ => by simp, by omega, by omega⟩
  · rw [if_neg hp]
    have hp84 : lm * a < 2 ^ 84 := by
      calc lm * a < 2 ^ 53 * 2 ^ 31 := Nat.mul_lt_mul'' hlm ha
        _ = 2 ^ 84 := by norm_num
    have hl := bitLen_le_of_lt _ 84 hp84
    set p := lm * a with hpdef
    set s := bitLen p - 53 with hs
    have hs31 : s ≤ 31 := by omega
    have hneg : ¬ (le + (s : Int) ≥ 0) := by omega
    rw [if_neg hneg]
    simp only
    obtain ⟨k, hk⟩ : ∃ k : Nat, (-(le + (s : Int))).toNat = k := ⟨_, rfl⟩
    have hkK : (-le).toNat = k + s := by omega
    rw [hk, hkK]
    set r := rneShift p s with hr
    have hK : 2 ^ (k + s) = 2 ^ k * 2 ^ s := pow_add 2 k s
    have hpk : 0 < 2 ^ k := Nat.two_pow_pos _
    have hps : 0 < 2 ^ s := Nat.two_pow_pos _
    have hps31 : 2 ^ s ≤ 2 ^ 31 := Nat.pow_le_pow_right (by decide) hs31
    have hq1 : r / 2 ^ k * 2 ^ k ≤ r := Nat.div_mul_le_self r (2 ^ k)
    have hq2 : r < (r / 2 ^ k + 1) * 2 ^ k := by
      have := Nat.div_add_mod r (2 ^ k)
      have := Nat.mod_lt r hpk
      rw [Nat.add_mul, Nat.mul_comm (r / 2 ^ k) (2 ^ k)]; omega
    have hpd1 : p / 2 ^ s * 2 ^ s ≤ p := Nat.div_mul_le_self p (2 ^ s)
    have hpd2 : p < (p / 2 ^ s + 1) * 2 ^ s := by
      have := Nat.div_add_mod p (2 ^ s)
      have := Nat.mod_lt p hps
      rw [Nat.add_mul, Nat.mul_comm (p / 2 ^ s) (2 ^ s)]; omega
    simp only [Nat.shiftRight_eq_div_pow]
    refine ⟨r * 2 ^ s, ?_, ?_, ?_, ?_, ?_⟩
    · rw [hK, ← Nat.mul_assoc]; exact Nat.mul_le_mul_right _ hq1
    · rw [hK, ← Nat.mul_assoc]; exact Nat.mul_lt_mul_of_pos_right hq2 hps
    · intro hfr
      have hz : r % 2 ^ k = 0 := by
        by_contra hne
        simp [hne] at hfr
      have := Nat.div_mul_cancel (Nat.dvd_of_mod_eq_zero hz)
      rw [hK, ← Nat.mul_assoc, this]
    · rcases rneShift_cases p s with h | ⟨h, _⟩
      · rw [hr, h]; omega
      · rw [hr, h, Nat.add_mul]; omega
    · rcases rneShift_cases p s with h | ⟨h, _⟩
      · rw [hr, h]
        have : p < p / 2 ^ s * 2 ^ s + 2 ^ s := by rw [Nat.add_mul] at hpd2; omega
        omega
      · rw [hr, h]; omega

/-! ### the mantissa half of the estimate -/

theorem mant_estimate (x : BigNat) (hi : MantInv x) (hnz : ¬ (x.digits.length = 0 ∧ x.first = 0)) :
    2 ^ (x.digits.length * approxPerDigit + approxBias) ≤ x.val * 2 ^ 16 ∧
    x.val * 2 ^ 16 < 2 ^ (x.digits.length * approxPerDigit + approxBias + 31) := by
  have hapd : approxPerDigit = 31 := by decide
  have hbias : approxBias = 16 := by decide
  have hB : ∀ k, bigBase ^ k = 2 ^ (k * 31) := by
    intro k
    have : bigBase = 2 ^ 31 := by decide
    rw [this, ← pow_mul, Nat.mul_comm]
  have hall : AllLt (x.first :: x.digits) := AllLt_cons.2 ⟨hi.first_lt, hi.allLt⟩
  have hup := digitsVal_lt hall
  rw [← val_def, hB] at hup
  have hlo : 2 ^ (x.digits.length * 31) ≤ x.val := by
    cases hd : x.digits with
    | nil => simpa using val_pos_of_nonzero x hi hnz
    | cons d r =>
      have := topnz_val_ge (ds := x.first :: x.digits) (by simp) (by rw [hd, TopNZ_cons_cons, ← hd]; exact hi.topnz)
      rw [← val_def, hB, hd] at this
      simpa using this
  rw [hapd, hbias]
  constructor
  · rw [pow_add]; exact Nat.mul_le_mul_right _ hlo
  · have e : x.digits.length * 31 + 16 + 31 = (x.digits.length + 1) * 31 + 16 := by ring
    rw [e, pow_add]
    simp only [List.length_cons] at hup
    exact Nat.mul_lt_mul_of_pos_right hup (by positivity)

/-! ### soundness of the short-circuits -/

/-- the quantity `exp2_approx` of `convert` -/
def exp2Approx (mant : BigNat) (base : Nat) (ex : Int) : Int :=
  ((mant.digits.length * approxPerDigit + approxBias : Nat) : Int) + log2MulFloor base ex

theorem log2MulFloor_nonneg (base a : Nat) :
    log2MulFloor base (a : Int) = ((mulFloorMag (log2Entry base).1 (log2Entry base).2 a).1 : Int) := by
  simp [log2MulFloor]

theorem log2MulFloor_neg (base a : Nat) (ha : 0 < a) :
    log2MulFloor base (-(a : Int)) =
      -(((mulFloorMag (log2Entry base).1 (log2Entry base).2 a).1 : Int) +
        (if (mulFloorMag (log2Entry base).1 (log2Entry base).2 a).2 then 1 else 0)) := by
  have h : ¬ (-(a : Int) ≥ 0) := by omega
  simp only [log2MulFloor, if_neg h, Int.natAbs_neg, Int.natAbs_natCast]
  split <;> simp

private theorem entry_facts (base : Nat) (hb2 : 2 ≤ base) (hb : base ≤ 36) :
    2 ^ 52 ≤ (log2Entry base).1 ∧ (log2Entry base).1 < 2 ^ 53 ∧ -52 ≤ (log2Entry base).2 ∧ (log2Entry base).2 ≤ -50 :=
  log2Table_shape ⟨base, by omega⟩ hb2

private theorem K_big (le : Int) (hle2 : le ≤ -50) : 2 ^ 50 ≤ 2 ^ (-le).toNat :=
  Nat.pow_le_pow_right (by decide) (by omega)

/-- ★ huge short-circuit, exponent a ≥ 0: `exp2_approx > 1176` implies the exact value is ≥ 2^1024 (> DBL_MAX). -/
theorem huge_sound_pos (mant : BigNat) (base a : Nat) (hi : MantInv mant)
    (hnz : ¬ (mant.digits.length = 0 ∧ mant.first = 0)) (hb2 : 2 ≤ base) (hb : base ≤ 36) (ha : a < 2 ^ 31)
    (hL : Log2Within1Ulp base) (happ : exp2Approx mant base (a : Int) > hugeThresh) :
    2 ^ 1024 ≤ mant.val * base ^ a := by
  obtain ⟨hlm1, hlm2, hle1, hle2⟩ := entry_facts base hb2 hb
  obtain ⟨r2, hq1, _, _, hr1, _⟩ := mulFloorMag_facts _ _ a hlm2 hle1 hle2 ha
  obtain ⟨hm1, _⟩ := mant_estimate mant hi hnz
  have hK := K_big _ hle2
  unfold exp2Approx at happ
  rw [log2MulFloor_nonneg] at happ
  have hth : hugeThresh = 1176 := by decide
  rw [hth] at happ
  set lm := (log2Entry base).1 with hlm
  set K := 2 ^ (-(log2Entry base).2).toNat with hKdef
  set q := (mulFloorMag lm (log2Entry base).2 a).1 with hq
  set A := mant.digits.length * approxPerDigit + approxBias with hA
  have p31 : (2 : Nat) ^ 31 = 2147483648 := by norm_num
  have p50 : (2 : Nat) ^ 50 = 1125899906842624 := by norm_num
  have p52 : (2 : Nat) ^ 52 = 4503599627370496 := by norm_num
  rw [p31] at ha hr1; rw [p50] at hK; rw [p52] at hlm1
  -- 2^q ≤ 2 * base^a
  have hpow : 2 ^ q ≤ 2 * base ^ a := by
    by_cases hq0 : q = 0
    · rw [hq0]; have : 1 ≤ base ^ a := Nat.one_le_pow _ _ (by omega); omega
    · obtain ⟨m, hm⟩ : ∃ m, q = m + 1 := ⟨q - 1, by omega⟩
      have hroot : 2 ^ m ≤ base ^ a := by
        apply pow_root_lower base a K (lm - 1) m (by omega) hL.1
        have e1 : (lm - 1) * a = lm * a - a := by rw [Nat.sub_mul]; simp
        have e2 : q * K = m * K + K := by rw [hm]; ring
        have hla : a ≤ lm * a := Nat.le_mul_of_pos_left a (by omega)
        omega
      rw [hm, pow_succ]; omega
  have hAq : 1024 + 17 ≤ A + q := by omega
  have h1 : 2 ^ (1024 + 17) ≤ 2 ^ (A + q) := Nat.pow_le_pow_right (by norm_num) hAq
  rw [pow_add] at h1
  have h2 : 2 ^ (A + q) ≤ mant.val * 2 ^ 16 * (2 * base ^ a) := by
    rw [pow_add]; exact Nat.mul_le_mul hm1 hpow
  have h4 : mant.val * 2 ^ 16 * (2 * base ^ a) = mant.val * base ^ a * 2 ^ 17 := by ring
  rw [h4] at h2
  generalize (2 : Nat) ^ 1024 = P at h1 ⊢
  exact Nat.le_of_mul_le_mul_right (le_trans h1 h2) (Nat.two_pow_pos 17)

/-- ★ huge short-circuit, exponent −a < 0: `exp2_approx > 1176` implies mant / base^a ≥ 2^1024. -/
theorem huge_sound_neg (mant : BigNat) (base a : Nat) (hi : MantInv mant)
    (hnz : ¬ (mant.digits.length = 0 ∧ mant.first = 0)) (hb2 : 2 ≤ base) (hb : base ≤ 36) (ha0 : 0 < a) (ha : a < 2 ^ 31)
    (hL : Log2Within1Ulp base) (happ : exp2Approx mant base (-(a : Int)) > hugeThresh) :
    2 ^ 1024 * base ^ a ≤ mant.val := by
  obtain ⟨hlm1, hlm2, hle1, hle2⟩ := entry_facts base hb2 hb
  obtain ⟨r2, hq1, hq2, hq3, hr1, hr2⟩ := mulFloorMag_facts _ _ a hlm2 hle1 hle2 ha
  obtain ⟨hm1, _⟩ := mant_estimate mant hi hnz
  have hK := K_big _ hle2
  unfold exp2Approx at happ
  rw [log2MulFloor_neg _ _ ha0] at happ
  have hth : hugeThresh = 1176 := by decide
  rw [hth] at happ
  set lm := (log2Entry base).1 with hlm
  set K := 2 ^ (-(log2Entry base).2).toNat with hKdef
  set q := (mulFloorMag lm (log2Entry base).2 a).1 with hq
  set fr := (mulFloorMag lm (log2Entry base).2 a).2 with hfr
  set A := mant.digits.length * approxPerDigit + approxBias with hA
  have p31 : (2 : Nat) ^ 31 = 2147483648 := by norm_num
  have p50 : (2 : Nat) ^ 50 = 1125899906842624 := by norm_num
  rw [p31] at ha hr1 hr2; rw [p50] at hK
  -- F' = q + δ ≥ r2 / K
  obtain ⟨F', hF', hFK⟩ : ∃ F' : Nat, ((q : Int) + (if fr then 1 else 0) = (F' : Int)) ∧ r2 ≤ F' * K := by
    cases hfrv : fr
    · refine ⟨q, by simp, ?_⟩
      have := hq3 hfrv; omega
    · refine ⟨q + 1, by simp, ?_⟩
      omega
  rw [hF'] at happ
  -- base^a ≤ 2^(F'+1)
  have hroot : base ^ a ≤ 2 ^ (F' + 1) := by
    apply pow_root_upper base a K (lm + 1) (F' + 1) (by omega) hL.2
    have e1 : (lm + 1) * a = lm * a + a := by ring
    have e2 : (F' + 1) * K = F' * K + K := by ring
    omega
  have hA16 : 16 ≤ A := by rw [hA]; have : approxBias = 16 := by decide
                           omega
  have hexp : 1024 + (F' + 1) + 16 ≤ A := by omega
  have h1 : 2 ^ (1024 + (F' + 1) + 16) ≤ 2 ^ A := Nat.pow_le_pow_right (by norm_num) hexp
  rw [pow_add, pow_add] at h1
  have h2 : 2 ^ 1024 * base ^ a * 2 ^ 16 ≤ 2 ^ 1024 * 2 ^ (F' + 1) * 2 ^ 16 :=
    Nat.mul_le_mul_right _ (Nat.mul_le_mul_left _ hroot)
  generalize (2 : Nat) ^ 1024 = P at h1 h2 ⊢
  exact Nat.le_of_mul_le_mul_right (le_trans h2 (le_trans h1 hm1)) (Nat.two_pow_pos 16)

/-- ★ tiny short-circuit can only fire for a negative exponent … -/
theorem tiny_needs_negative (mant : BigNat) (base a : Nat) :
    ¬ (exp2Approx mant base (a : Int) < tinyThresh) := by
  unfold exp2Approx
  rw [log2MulFloor_nonneg]
  have hth : tinyThresh = -1175 := by decide
  rw [hth]
  omega

/-- ★ … and then `exp2_approx < −1175` implies mant / base^a < 2^−1074: the exact value lies strictly between 0 and the
    smallest subnormal, so ±0 is one of its two adjacent doubles. -/
theorem tiny_sound_neg (mant : BigNat) (base a : Nat) (hi : MantInv mant)
    (hnz : ¬ (mant.digits.length = 0 ∧ mant.first = 0)) (hb2 : 2 ≤ base) (hb : base ≤ 36) (ha0 : 0 < a) (ha : a < 2 ^ 31)
    (hL : Log2Within1Ulp base) (happ : exp2Approx mant base (-(a : Int)) < tinyThresh) :
    mant.val * 2 ^ 1074 < base ^ a := by
  obtain ⟨hlm1, hlm2, hle1, hle2⟩ := entry_facts base hb2 hb
  obtain ⟨r2, hq1, hq2, hq3, hr1, hr2⟩ := mulFloorMag_facts _ _ a hlm2 hle1 hle2 ha
  obtain ⟨_, hm2⟩ := mant_estimate mant hi hnz
  have hK := K_big _ hle2
  unfold exp2Approx at happ
  rw [log2MulFloor_neg _ _ ha0] at happ
  have hth : tinyThresh = -1175 := by decide
  rw [hth] at happ
  set lm := (log2Entry base).1 with hlm
  set K := 2 ^ (-(log2Entry base).2).toNat with hKdef
  set q := (mulFloorMag lm (log2Entry base).2 a).1 with hq
  set fr := (mulFloorMag lm (log2Entry base).2 a).2 with hfr
  set A := mant.digits.length * approxPerDigit + approxBias with hA
  have p31 : (2 : Nat) ^ 31 = 2147483648 := by norm_num
  have p50 : (2 : Nat) ^ 50 = 1125899906842624 := by norm_num
  have p52 : (2 : Nat) ^ 52 = 4503599627370496 := by norm_num
  rw [p31] at ha hr1 hr2; rw [p50] at hK; rw [p52] at hlm1
  -- F' = q + δ, (F' − 1)·K ≤ q·K ≤ r2
  obtain ⟨F', hF', hFK⟩ : ∃ F' : Nat, ((q : Int) + (if fr then 1 else 0) = (F' : Int)) ∧ F' * K ≤ r2 + K := by
    cases hfrv : fr
    · refine ⟨q, by simp, by omega⟩
    · refine ⟨q + 1, by simp, ?_⟩
      have : (q + 1) * K = q * K + K := by ring
      omega
  rw [hF'] at happ
  have hF2 : A + 1176 ≤ F' := by omega
  obtain ⟨m, hm⟩ : ∃ m, F' = m + 2 := ⟨F' - 2, by omega⟩
  have hroot : 2 ^ m ≤ base ^ a := by
    apply pow_root_lower base a K (lm - 1) m (by omega) hL.1
    have e1 : (lm - 1) * a = lm * a - a := by rw [Nat.sub_mul]; simp
    have e2 : F' * K = m * K + 2 * K := by rw [hm]; ring
    have hla : a ≤ lm * a := Nat.le_mul_of_pos_left a (by omega)
    omega
  have hexp : A + 15 + 1074 ≤ m := by omega
  have h1 : 2 ^ (A + 15 + 1074) ≤ 2 ^ m := Nat.pow_le_pow_right (by norm_num) hexp
  have e31 : A + 31 = A + 15 + 16 := by ring
  rw [e31, pow_add] at hm2
  have hv : mant.val < 2 ^ (A + 15) := Nat.lt_of_mul_lt_mul_right hm2
  rw [pow_add] at h1
  generalize (2 : Nat) ^ 1074 = P at h1 ⊢
  have hP : 0 < P ∨ P = 0 := by omega
  rcases hP with hP | hP
  · exact lt_of_lt_of_le (Nat.mul_lt_mul_of_pos_right hv hP) (le_trans h1 hroot)
  · subst hP; simp; exact Nat.pow_pos (by omega)

end JanetModel.Strtod
