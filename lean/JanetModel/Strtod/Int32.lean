/- C13: the signed `int32_t` products on the negative-exponent branch of `convert` stay in range for every accepted
   literal: `shamt * BIGNAT_NBIT`, `bignat_extra`'s `2 * newn` (reached through `bignat_lshift_n(mant, shamt)`), and
   `BIGNAT_NBIT * n` in `bignat_extract`.

   Why they are in range: `shamt = 5 + a/4` with `a = -exponent`, and `a` can be as large as 36·(INT32_MAX/40) — far too
   large — but then the tiny short-circuit `exp2_approx < -1175` fires first.  When it does not fire,
        2^52·a  <  (31·n + 1193)·K          (K = 2^(-le), (lm, le) the libm `log2(base)` entry, lm ≥ 2^52)
   and the mantissa the scanner built is below `B^len` (B the radix the digits were read in), which bounds its digit count:
        31·n  <  c·len   with  B ≤ 2^c     (c = 2, 4, 6 according to le = -52, -51, -50;  c = 4 for the hex-float `p` form,
                                            where the digits are radix 16 but `convert` runs in radix 2).
   Together: a ≤ 4·len + 1192, so shamt ≤ len + 303 and every product is below 2^31 because len ≤ INT32_MAX/40. -/
import JanetModel.Strtod.WrapFree
import JanetModel.Strtod.Approx

namespace JanetModel.Strtod
open JanetModel.Gen.Strtod

/-- the mantissa handed to `convert` is below `b^len`, `b` the radix the digits were scanned in; `convert`'s radix is that
    one, or 2 after a radix-16 mantissa with a `p` exponent -/
theorem parseBody_mant_bound (neg : Bool) (b : Nat) (s2 : List Nat) (p : Parsed) (hb1 : 1 ≤ b) (hb36 : b ≤ 36)
    (h : parseBody neg b s2 = some p) :
    p.mant.val < b ^ s2.length ∧ (p.base = b ∨ (b = 16 ∧ p.base = 2)) := by
  unfold parseBody at h
  simp only at h
  split at h
  · simp at h
  rename_i s3 st1 hz
  have Z := skipZeros_spec b s2 _ s3 st1 hz
  have hbase : st1.base = b := Z.base
  have hmant0 : st1.mant.val = 0 := by rw [Z.mant]; rfl
  split at h
  · simp at h
  rename_i s4 st2 hd
  have hi1 : StInv st1 := ⟨by rw [Z.mant]; exact zero_inv, by rw [hbase]; exact hb1, by rw [hbase]; exact hb36⟩
  have D := scanDigits_spec s3 st1 s4 st2 hd hi1
  rw [hbase] at D
  have hbound : st2.mant.val < b ^ s2.length := by
    have h1 := D.bound
    rw [hmant0] at h1
    have h2 : b ^ s3.length ≤ b ^ s2.length := Nat.pow_le_pow_right hb1 Z.len
    omega
  have hbs : st2.base = b ∨ (b = 16 ∧ st2.base = 2) := by
    have hx := D.ex
    by_cases hh : hexpOf b s4 = true
    · rw [if_pos hh] at hx
      right
      refine ⟨?_, hx.1⟩
      unfold hexpOf at hh
      cases s4 with
      | nil => simp at hh
      | cons c r => simp at hh; exact hh.2
    · rw [if_neg hh] at hx
      exact Or.inl hx.1
  split at h
  · simp at h
  · split at h
    · simp at h; rw [← h]; exact ⟨hbound, hbs⟩
    · split at h
      · simp at h; rw [← h]; exact ⟨hbound, hbs⟩
      · split at h
        · simp at h
        · simp at h; rw [← h]; exact ⟨hbound, hbs⟩

theorem parseNumber_mant_bound (str : List Nat) (base0 : Nat) (hb : base0 ≤ 36) (p : Parsed)
    (h : parseNumber str base0 = some p) :
    ∃ B : Nat, 1 ≤ B ∧ B ≤ 36 ∧ p.mant.val < B ^ str.length ∧ (p.base = B ∨ (B = 16 ∧ p.base = 2)) := by
  unfold parseNumber at h
  split at h
  · simp at h
  rename_i neg b s2 hh
  obtain ⟨hb1, hb36⟩ := numHeader_base str base0 hb neg b s2 hh
  obtain ⟨_, _, hs2⟩ := numHeader_spec str base0 neg b s2 hh
  obtain ⟨h1, h2⟩ := parseBody_mant_bound neg b s2 p hb1 hb36 h
  exact ⟨b, hb1, hb36, lt_of_lt_of_le h1 (Nat.pow_le_pow_right hb1 hs2), h2⟩

/-- |exponent| handed to `convert` is below 2^31 (from `ExpOK`; the clamp constants satisfy `SatOK`) -/
theorem parseNumber_ex_lt (str : List Nat) (base0 : Nat) (hb : base0 ≤ 36) (hsat : SatOK) (p : Parsed)
    (h : parseNumber str base0 = some p) : p.ex.natAbs < 2 ^ 31 := by
  unfold parseNumber at h
  split at h
  · simp at h
  rename_i neg b s2 hh
  obtain ⟨hb1, hb36⟩ := numHeader_base str base0 hb neg b s2 hh
  obtain ⟨_, hlen, hs2⟩ := numHeader_spec str base0 neg b s2 hh
  obtain ⟨_, _, _, _, _, _, K, cF, Y, X, eneg, hpex, _, hcF, _, _, hYK, _⟩ :=
    parseBody_spec neg b s2 p hb1 hb36 (le_trans hs2 hlen) hsat h
  rw [hpex]
  cases eneg <;> simp <;> omega

/-- the regenerated libm table: which radices have `log2` in [1,2), [2,4), [4,8) -/
theorem log2Table_radix_class : ∀ b : Fin 37, 2 ≤ b.val →
    ((log2Entry b.val).2 = -52 → b.val ≤ 4) ∧ ((log2Entry b.val).2 = -51 → b.val ≤ 16) ∧
    (b.val = 2 → (log2Entry b.val).2 = -52) := by decide +kernel

/-- when the tiny short-circuit does NOT fire for the exponent `-a`:  2^52·a < (31·n + 1193)·K -/
theorem not_tiny_exp_bound (mant : BigNat) (base a : Nat) (hb2 : 2 ≤ base) (hb : base ≤ 36) (ha0 : 0 < a) (ha : a < 2 ^ 31)
    (happ : ¬ (exp2Approx mant base (-(a : Int)) < tinyThresh)) :
    2 ^ 52 * a < (mant.digits.length * 31 + 1193) * 2 ^ (-(log2Entry base).2).toNat := by
  obtain ⟨hlm1, hlm2, hle1, hle2⟩ := log2Table_shape ⟨base, by omega⟩ hb2
  simp only at hlm1 hlm2 hle1 hle2
  obtain ⟨r2, _, hq2, _, _, hr2⟩ := mulFloorMag_facts _ _ a hlm2 hle1 hle2 ha
  have hK : 2 ^ 50 ≤ 2 ^ (-(log2Entry base).2).toNat := Nat.pow_le_pow_right (by decide) (by omega)
  unfold exp2Approx at happ
  rw [log2MulFloor_neg _ _ ha0] at happ
  have hth : tinyThresh = -1175 := by decide
  have hapd : approxPerDigit = 31 := by decide
  have hbias : approxBias = 16 := by decide
  rw [hth, hapd, hbias] at happ
  set lm := (log2Entry base).1 with hlm
  set K := 2 ^ (-(log2Entry base).2).toNat with hKdef
  set q := (mulFloorMag lm (log2Entry base).2 a).1 with hq
  set fr := (mulFloorMag lm (log2Entry base).2 a).2 with hfr
  set n := mant.digits.length with hn
  have hq1 : q ≤ n * 31 + 16 + 1175 := by
    cases hfrv : fr <;> simp only [hfrv] at happ <;> push_cast at happ <;> omega
  have h1 : 2 ^ 52 * a ≤ lm * a := Nat.mul_le_mul_right _ hlm1
  have h2 : (q + 2) * K ≤ (n * 31 + 1193) * K := Nat.mul_le_mul_right _ (by omega)
  have h3 : (q + 2) * K = (q + 1) * K + K := by ring
  have p31 : (2 : Nat) ^ 31 = 2147483648 := by norm_num
  have p50 : (2 : Nat) ^ 50 = 1125899906842624 := by norm_num
  rw [p31] at hr2; rw [p50] at hK
  omega

/-- digit count of a BigNat below `2^m`: 31·n < m -/
theorem digits_lt_of_val_lt (x : BigNat) (hi : MantInv x) (hnz : ¬ (x.digits.length = 0 ∧ x.first = 0)) (m : Nat)
    (h : x.val < 2 ^ m) : x.digits.length * 31 < m := by
  obtain ⟨h1, _⟩ := mant_estimate x hi hnz
  have hapd : approxPerDigit = 31 := by decide
  have hbias : approxBias = 16 := by decide
  rw [hapd, hbias, pow_add] at h1
  have h2 : 2 ^ (x.digits.length * 31) ≤ x.val := Nat.le_of_mul_le_mul_right h1 (by positivity)
  exact (Nat.pow_lt_pow_iff_right (by decide : 1 < 2)).1 (lt_of_le_of_lt h2 h)

theorem pow_le_two_pow (B c n : Nat) (h : B ≤ 2 ^ c) : B ^ n ≤ 2 ^ (c * n) := by
  rw [pow_mul]; exact Nat.pow_le_pow_left h n

/-- `bignat_div` never lengthens the digit array -/
theorem bignat_div_length_le (x : BigNat) (dv : Nat) : (bignat_div x dv).digits.length ≤ x.digits.length := by
  cases hd : x.digits with
  | nil => rw [bignat_div_digits_nil x dv hd]
  | cons d0 rest =>
    rw [bignat_div_digits_cons x dv d0 rest hd]
    have h1 := dropLastZero_length (((divDigits dv rest).2 * bigBase + d0) % dv :: (divDigits dv rest).1)
    have h2 := divDigits_length dv rest
    simp only [List.length_cons] at h1 ⊢
    omega

theorem iter_div_length_le (dv : Nat) (k : Nat) (x : BigNat) :
    (iter (fun m => bignat_div m dv) k x).digits.length ≤ x.digits.length := by
  induction k generalizing x with
  | zero => simp [iter]
  | succ k ih =>
    rw [iter_succ]
    exact le_trans (ih _) (bignat_div_length_le x dv)

theorem scaleNeg_length_le (mant : BigNat) (base a : Nat) :
    (scaleNeg mant base a).digits.length ≤ mant.digits.length + (shamtBase + a / shamtDiv) := by
  unfold scaleNeg
  refine le_trans (iter_div_length_le _ _ _) (le_trans (iter_div_length_le _ _ _) (le_trans (iter_div_length_le _ _ _) ?_))
  have hs : 0 < shamtBase + a / shamtDiv := lt_of_lt_of_le (by decide : 0 < shamtBase) (Nat.le_add_right _ _)
  rw [lshift_digits _ _ hs]
  simp only [List.length_append, List.length_replicate, List.length_cons]
  omega

/-- ★ every accepted literal, negative exponent `-a`, zero and tiny short-circuits not taken:
    `a ≤ 4·len + 1192`, the mantissa has `31·n < 6·len` … and hence the three `int32_t` products are in range. -/
theorem convert_neg_branch_bounds (str : List Nat) (base0 : Nat) (hb : base0 ≤ 36) (hsat : SatOK) (p : Parsed)
    (h : parseNumber str base0 = some p) (a : Nat) (hex : p.ex = -(a : Int)) (ha0 : 0 < a)
    (hnz : ¬ (p.mant.digits.length = 0 ∧ p.mant.first = 0))
    (hnt : ¬ (exp2Approx p.mant p.base p.ex < tinyThresh)) :
    a ≤ 4 * str.length + 1192 ∧ p.mant.digits.length * 31 < 6 * str.length := by
  obtain ⟨hi, hp1, hp36⟩ := parseNumber_inv str base0 hb p h
  obtain ⟨B, hB1, hB36, hval, hbase⟩ := parseNumber_mant_bound str base0 hb p h
  have ha : a < 2 ^ 31 := by
    have := parseNumber_ex_lt str base0 hb hsat p h
    rw [hex] at this; simpa using this
  have hv1 : 1 ≤ p.mant.val := val_pos_of_nonzero p.mant hi hnz
  -- radix 1 is impossible with a non-zero mantissa
  have hB2 : 2 ≤ B := by
    by_contra hlt
    have : B = 1 := by omega
    rw [this, one_pow] at hval
    omega
  have hp2 : 2 ≤ p.base := by rcases hbase with h | ⟨_, h⟩ <;> omega
  rw [hex] at hnt
  have key := not_tiny_exp_bound p.mant p.base a hp2 hp36 ha0 ha hnt
  obtain ⟨_, _, hle1, hle2⟩ := log2Table_shape ⟨p.base, by omega⟩ hp2
  obtain ⟨hc1, hc2, hc3⟩ := log2Table_radix_class ⟨p.base, by omega⟩ hp2
  simp only at hle1 hle2 hc1 hc2 hc3
  have p52 : (2 : Nat) ^ 52 = 4503599627370496 := by norm_num
  rw [p52] at key
  have dig := fun (c : Nat) (hc : B ≤ 2 ^ c) =>
    digits_lt_of_val_lt p.mant hi hnz (c * str.length) (lt_of_lt_of_le hval (pow_le_two_pow B c str.length hc))
  rcases hbase with hbB | ⟨hB16, hb2⟩
  · -- digits were read in convert's radix
    rw [← hbB] at dig
    have hcases : (log2Entry p.base).2 = -52 ∨ (log2Entry p.base).2 = -51 ∨ (log2Entry p.base).2 = -50 := by omega
    rcases hcases with e | e | e
    · have d := dig 2 (by have := hc1 e; norm_num; omega)
      rw [e] at key
      have : (2 : Nat) ^ (-(-52 : Int)).toNat = 4503599627370496 := by decide
      rw [this] at key
      constructor <;> omega
    · have d := dig 4 (by have := hc2 e; norm_num; omega)
      rw [e] at key
      have : (2 : Nat) ^ (-(-51 : Int)).toNat = 2251799813685248 := by decide
      rw [this] at key
      constructor <;> omega
    · have d := dig 6 (by norm_num; omega)
      rw [e] at key
      have : (2 : Nat) ^ (-(-50 : Int)).toNat = 1125899906842624 := by decide
      rw [this] at key
      constructor <;> omega
  · -- hex float: radix-16 digits, convert in radix 2
    have d := dig 4 (by rw [hB16]; norm_num)
    have e := hc3 hb2
    rw [e] at key
    have : (2 : Nat) ^ (-(-52 : Int)).toNat = 4503599627370496 := by decide
    rw [this] at key
    constructor <;> omega

/-- ★★ the signed `int` intermediates of `convert` and of what it calls stay in range for EVERY accepted literal:
    `mant->n * BIGNAT_NBIT + 16`, the radix powers, and — on the negative-exponent branch, whenever neither the zero nor
    the tiny short-circuit returned first — `shamt * BIGNAT_NBIT` (`exponent2 -= …`), `2 * newn` in `bignat_extra` (called
    by `bignat_lshift_n(mant, shamt)` with `newn = mant->n + shamt`), and `BIGNAT_NBIT * n` in `bignat_extract` on the scaled
    mantissa. -/
theorem convert_int32_in_range_full (str : List Nat) (base0 : Nat) (hb : base0 ≤ 36) (hsat : SatOK) (p : Parsed)
    (h : parseNumber str base0 = some p) :
    (p.mant.digits.length * approxPerDigit + approxBias < 2 ^ 31 ∧ p.base * p.base * p.base * p.base < 2 ^ 31 ∧
      p.base * p.base < 2 ^ 31) ∧
    ∀ a : Nat, p.ex = -(a : Int) → 0 < a → ¬ (p.mant.digits.length = 0 ∧ p.mant.first = 0) →
      ¬ (exp2Approx p.mant p.base p.ex < tinyThresh) →
      (shamtBase + a / shamtDiv) * nbit < 2 ^ 31 ∧
      capFactor * (p.mant.digits.length + (shamtBase + a / shamtDiv)) < 2 ^ 31 ∧
      nbit * (scale p.mant p.base p.ex).1.digits.length < 2 ^ 31 := by
  refine ⟨convert_int32_in_range str base0 hb p h, ?_⟩
  intro a hex ha0 hnz hnt
  obtain ⟨hA, hN⟩ := convert_neg_branch_bounds str base0 hb hsat p h a hex ha0 hnz hnt
  obtain ⟨_, hlen⟩ := parseNumber_digits_le str base0 p h
  have hL : lenLimit = 53687091 := rfl
  rw [hL] at hlen
  have hlen2 := scaleNeg_length_le p.mant p.base a
  rw [hex, scale_neg_eq _ _ _ ha0]
  simp only
  have hsb : shamtBase = 5 := rfl
  have hsd : shamtDiv = 4 := rfl
  have hnb : nbit = 31 := rfl
  have hcf : capFactor = 2 := rfl
  have p31 : (2 : Nat) ^ 31 = 2147483648 := by norm_num
  rw [hsb, hsd] at hlen2 ⊢
  rw [hnb, hcf, p31]
  refine ⟨by omega, by omega, by omega⟩

end JanetModel.Strtod
