/- C13: executable model of src/core/strtod.c (number ⇄ text).  CORE LEAN ONLY (linked into jm_c13).

   Mirrors, function by function:  bignat_muladd / bignat_div / bignat_lshift_n / bignat_extract / convert /
   janet_scan_number_base / scan_uint64 / janet_scan_int64 / janet_scan_uint64, plus exact models of the libm
   pieces the C relies on (ldexp with IEEE round-to-nearest-even incl. subnormals and overflow, the double product
   `log2(base) * exponent`, and `%.17g` as correctly rounded decimal conversion — the last one is the SPEC side).

   A BigNat is kept exactly as in C: `first_digit` + array of base-2^31 digits, least significant first
   (`digits.length` = the C field `n`).  Its denotation is `BigNat.val`.  Constants and the digit table come from
   Gen/Strtod.lean (regenerated from the source on every run). -/
import JanetModel.Gen.Strtod

namespace JanetModel.Strtod
open JanetModel.Gen.Strtod

/-! ## BigNat -/

structure BigNat where
  first : Nat
  digits : List Nat
deriving Repr, DecidableEq

def digitsVal : List Nat → Nat
  | [] => 0
  | d :: r => d + bigBase * digitsVal r

/-- the natural number denoted by the digit array -/
def BigNat.val (x : BigNat) : Nat := x.first + bigBase * digitsVal x.digits

def BigNat.zero : BigNat := ⟨0, []⟩

/-- loop of `bignat_muladd` over `digits[0..n)`, then `if (carry) bignat_append(mant, (uint32_t) carry)` -/
def muladdDigits (factor : Nat) : List Nat → Nat → List Nat
  | [], carry => if carry = 0 then [] else [carry % 4294967296]
  | d :: rest, carry =>
    let c := carry + d * factor
    (c % bigBase) :: muladdDigits factor rest (c / bigBase)

def bignat_muladd (x : BigNat) (factor term : Nat) : BigNat :=
  let c := x.first * factor + term
  { first := c % bigBase, digits := muladdDigits factor x.digits (c / bigBase) }

/-- long division of the digit array from the most significant end: (quotient digits, remainder) -/
def divDigits (dv : Nat) : List Nat → List Nat × Nat
  | [] => ([], 0)
  | d :: rest =>
    let qr := divDigits dv rest
    let dividend := qr.2 * bigBase + d
    (dividend / dv :: qr.1, dividend % dv)

/-- `if (mant->n && mant->digits[mant->n - 1] == 0) mant->n--;` : drop the most significant digit if it is zero -/
def dropLastZero : List Nat → List Nat
  | [] => []
  | [d] => if d = 0 then [] else [d]
  | d :: r => d :: dropLastZero r

/-- `bignat_div`.  NOTE the C loop stores the quotient of step i+1 into `digits[i+1]` at step i and the *remainder*
    into `digits[i]`; nothing stores the last quotient, so after the loop `digits[0]` holds the remainder of the step
    for digit 0 (not its quotient).  `first_digit` is computed correctly from that remainder.  The model keeps this. -/
def bignat_div (x : BigNat) (dv : Nat) : BigNat :=
  match x.digits with
  | [] => { first := x.first / dv, digits := [] }
  | d0 :: rest =>
    let qr := divDigits dv rest
    let r0 := (qr.2 * bigBase + d0) % dv
    { first := (r0 * bigBase + x.first) / dv, digits := dropLastZero (r0 :: qr.1) }

/-- `bignat_lshift_n` (shift left by `n` whole digits) -/
def bignat_lshift_n (x : BigNat) (n : Nat) : BigNat :=
  if n = 0 then x
  else { first := 0, digits := List.replicate (n - 1) 0 ++ x.first :: x.digits }

/-- number of significant bits (`32 - clz(x)` for x ≠ 0; clz(0) is undefined in C, see `msd_nonzero`) -/
def bitLen (x : Nat) : Nat := if x = 0 then 0 else Nat.log2 x + 1

/-! ## IEEE double pieces (exact) -/

/-- `m / 2^s` rounded to nearest, ties to even -/
def rneShift (m s : Nat) : Nat :=
  if s = 0 then m
  else
    let q := m >>> s
    let rem := m % 2 ^ s
    let half := 2 ^ (s - 1)
    if rem > half ∨ (rem = half ∧ q % 2 = 1) then q + 1 else q

def infBits : Nat := 0x7FF0000000000000

/-- bit pattern (without sign) of the double nearest (ties-to-even) to `m * 2^e`; overflow gives +inf,
    subnormals are rounded on the 2^-1074 grid.  This is what `ldexp((double) m, e)` returns for m < 2^53. -/
def ldexpBits (m : Nat) (e : Int) : Nat :=
  if m = 0 then 0
  else
    let l := bitLen m
    let top : Int := e + l - 1                       -- exponent of the leading bit
    if top > 1100 then infBits
    else
      let q : Int := if top - 52 < -1074 then -1074 else top - 52   -- exponent of the result's last place
      let mant : Nat := if q ≤ e then m <<< (e - q).toNat else rneShift m (q - e).toNat
      let bits : Int := (q + 1074) * 4503599627370496 + mant
      if bits ≥ 0x7FF0000000000000 then infBits else bits.toNat

/-- the sign bit -/
def withSign (neg : Bool) (mag : Nat) : Nat := if neg then 0x8000000000000000 + mag else mag

def log2Entry (base : Nat) : Nat × Int :=
  match log2Table.find? (fun t => t.1 = base) with
  | some t => t.2
  | none => (0, 0)

/-- magnitude part of `floor(L * a)` in double arithmetic for L = lm·2^le, a ≥ 0: the product is rounded to 53 bits
    (ties-to-even); returns (integer part, whether a non-zero fraction was dropped) -/
def mulFloorMag (lm : Nat) (le : Int) (a : Nat) : Nat × Bool :=
  let p := lm * a
  if p = 0 then (0, false)
  else
    let s := bitLen p - 53
    let r := rneShift p s
    let e : Int := le + s
    if e ≥ 0 then (r <<< e.toNat, false)
    else (r >>> (-e).toNat, decide (r % 2 ^ (-e).toNat ≠ 0))

/-- `(int64_t) floor(log2(base) * exponent)` computed in double arithmetic: the product of two doubles is rounded
    to 53 bits (ties-to-even), then floored (towards −∞). -/
def log2MulFloor (base : Nat) (exponent : Int) : Int :=
  let qf := mulFloorMag (log2Entry base).1 (log2Entry base).2 exponent.natAbs
  if exponent ≥ 0 then (qf.1 : Int)
  else if qf.2 then -((qf.1 : Int) + 1) else -(qf.1 : Int)

/-! ## bignat_extract / convert -/

/-- (top53, exponent2) of `bignat_extract` before the final `ldexp` -/
def extractParts (x : BigNat) (exponent2 : Int) : Nat × Int :=
  match x.digits.reverse with
  | [] => (x.first, exponent2)
  | d1 :: below =>
    let n := x.digits.length
    let d2 := match below with
      | [] => x.first
      | b :: _ => b
    let d3 := match below with
      | [] => 0
      | [_] => x.first
      | _ :: c :: _ => c
    let nbits := bitLen d1
    let t0 := (d2 <<< (window - nbit)) + (d3 >>> (2 * nbit - window))
    let t1 := t0 >>> nbits
    let t2 := t1 ||| (d1 <<< (window - nbits))
    let t3 := if t2 % 2 = 1 then t2 + 1 else t2        -- rounding based on the lowest of the 54 bits
    let t4 := t3 >>> 1
    let (t5, e2) := if t4 > mantMax then (t4 >>> 1, exponent2 + 1) else (t4, exponent2)
    (t5, e2 + ((nbits : Int) - mantBits) + nbit * n)

def bignat_extract (x : BigNat) (exponent2 : Int) : Nat :=
  let p := extractParts x exponent2
  ldexpBits p.1 p.2

def iter {α : Type} (f : α → α) : Nat → α → α
  | 0, x => x
  | k + 1, x => iter f k (f x)

/-- the scaling part of `convert`: returns the BigNat handed to `bignat_extract` and `exponent2` -/
def scale (mant : BigNat) (base : Nat) (exponent : Int) : BigNat × Int :=
  if exponent ≥ 0 then
    let e := exponent.toNat
    let m1 := iter (fun m => bignat_muladd m (base * base * base * base) 0) (e / 4) mant
    let m2 := iter (fun m => bignat_muladd m (base * base) 0) (e % 4 / 2) m1
    let m3 := iter (fun m => bignat_muladd m base 0) (e % 2) m2
    (m3, 0)
  else
    let a := (-exponent).toNat
    let shamt := shamtBase + a / shamtDiv
    let m0 := bignat_lshift_n mant shamt
    let m1 := iter (fun m => bignat_div m (base * base * base * base)) (a / 4) m0
    let m2 := iter (fun m => bignat_div m (base * base)) (a % 4 / 2) m1
    let m3 := iter (fun m => bignat_div m base) (a % 2) m2
    (m3, -((shamt * nbit : Nat) : Int))

/-- `convert`: result as 64-bit pattern -/
def convert (neg : Bool) (mant : BigNat) (base : Nat) (exponent : Int) : Nat :=
  let mantApprox : Int := (mant.digits.length * approxPerDigit + approxBias : Nat)
  let expApprox := log2MulFloor base exponent
  let approx := mantApprox + expApprox
  if mant.digits.length = 0 ∧ mant.first = 0 then withSign neg 0
  else if approx > hugeThresh then withSign neg infBits
  else if approx < tinyThresh then withSign neg 0
  else
    let s := scale mant base exponent
    withSign neg (bignat_extract s.1 s.2)

/-! ## janet_scan_number_base -/

def digitOf (c : Nat) : Nat := digitLookup.getD (c % 128) 255

structure ScanSt where
  base : Nat
  expBase : Nat
  ex : Int
  seenpoint : Bool
  seenadigit : Bool
  foundexp : Bool
  mant : BigNat

/-- "Skip leading zeros" loop -/
def skipZeros : List Nat → ScanSt → Option (List Nat × ScanSt)
  | [], st => some ([], st)
  | c :: rest, st =>
    if c = 48 ∨ c = 46 then
      let st1 := if st.seenpoint then { st with ex := st.ex - 1 } else st
      if c = 46 then
        if st.seenpoint then none else skipZeros rest { st1 with seenpoint := true }
      else skipZeros rest { st1 with seenadigit := true }
    else some (c :: rest, st)

/-- "Parse significant digits" loop; stops (keeping the marker) at an exponent marker -/
def scanDigits : List Nat → ScanSt → Option (List Nat × ScanSt)
  | [], st => some ([], st)
  | c :: rest, st =>
    if c = 46 then
      if st.seenpoint then none else scanDigits rest { st with seenpoint := true }
    else if c = 38 then some (c :: rest, { st with foundexp := true })
    else if st.base = 16 ∧ (c = 80 ∨ c = 112) then
      some (c :: rest, { st with foundexp := true, expBase := 10, base := 2, ex := st.ex * 4 })
    else if st.base = 10 ∧ (c = 69 ∨ c = 101) then some (c :: rest, { st with foundexp := true })
    else if c = 95 then
      if st.seenadigit then scanDigits rest st else none
    else
      let digit := digitOf c
      if c > 127 ∨ digit ≥ st.base then none
      else scanDigits rest { st with ex := if st.seenpoint then st.ex - 1 else st.ex,
                                     mant := bignat_muladd st.mant st.base digit, seenadigit := true }

def skipExpZeros : List Nat → Bool → List Nat × Bool
  | [], sd => ([], sd)
  | c :: rest, sd => if c = 48 then skipExpZeros rest true else (c :: rest, sd)

/-- `if (ee < (INT32_MAX / 40)) ee = exp_base * ee + digit;` and, when the source has it (`eeSat ≠ 0`),
    `else ee = INT32_MAX / 4;`.  Without the else-branch further exponent digits are silently DROPPED. -/
def eeStep (expBase ee digit : Nat) : Nat :=
  if ee < eeLimit then expBase * ee + digit else if eeSat = 0 then ee else eeSat

/-- exponent digits: (ee, seenadigit) or error -/
def scanExpDigits (expBase : Nat) : List Nat → Nat → Bool → Option (Nat × Bool)
  | [], ee, sd => some (ee, sd)
  | c :: rest, ee, _sd =>
    let digit := digitOf c
    if c > 127 ∨ digit ≥ expBase then none
    else scanExpDigits expBase rest (eeStep expBase ee digit) true

/-- radix prefix when `base == 0`: returns (base, rest) or error -/
def scanPrefix (s : List Nat) : Option (Nat × List Nat) :=
  match s with
  | 48 :: 120 :: rest => some (16, rest)
  | c0 :: 114 :: rest =>
    -- `str[1] == 'r'`: a one-digit radix if str[0] is a digit; otherwise no prefix (the two-digit test needs str[1] to be a digit)
    if 48 ≤ c0 ∧ c0 ≤ 57 then some (c0 - 48, rest) else some (0, s)
  | c0 :: c1 :: 114 :: rest =>
    if 48 ≤ c0 ∧ c0 ≤ 57 ∧ 48 ≤ c1 ∧ c1 ≤ 57 then
      let b := 10 * (c0 - 48) + (c1 - 48)
      if b < 2 ∨ b > 36 then none else some (b, rest)
    else some (0, s)
  | _ => some (0, s)

/-- what the scanner hands to `convert` -/
structure Parsed where
  neg : Bool
  mant : BigNat
  base : Nat
  ex : Int

/-- length check, sign and radix prefix of `janet_scan_number_base`: (neg, base, rest) -/
def numHeader (str : List Nat) (base : Nat) : Option (Bool × Nat × List Nat) :=
  if str.length > lenLimit then none
  else
    match str with
    | [] => none
    | c :: rest0 =>
      let (neg, s1) := if c = 45 then (true, rest0) else if c = 43 then (false, rest0) else (false, str)
      let pre := if base = 0 then scanPrefix s1 else some (base, s1)
      match pre with
      | none => none
      | some (b0, s2) => some (neg, if b0 = 0 then 10 else b0, s2)

/-- exponent part (after the marker): the final exponent, or error -/
def parseExponent (st2 : ScanSt) (s5 : List Nat) : Option Int :=
  match s5 with
  | [] => none
  | c5 :: r5 =>
    let (eneg, s6) := if c5 = 45 then (true, r5) else if c5 = 43 then (false, r5) else (false, s5)
    let (s7, sd) := skipExpZeros s6 false
    match scanExpDigits st2.expBase s7 0 sd with
    | none => none
    | some (ee, sd2) =>
      if !sd2 then none
      else some (if eneg then st2.ex - ee else st2.ex + ee)

/-- digits and exponent of `janet_scan_number_base` -/
def parseBody (neg : Bool) (b : Nat) (s2 : List Nat) : Option Parsed :=
  let st0 : ScanSt := { base := b, expBase := b, ex := 0, seenpoint := false, seenadigit := false,
                        foundexp := false, mant := BigNat.zero }
  match skipZeros s2 st0 with
  | none => none
  | some (s3, st1) =>
    match scanDigits s3 st1 with
    | none => none
    | some (s4, st2) =>
      if !st2.seenadigit then none
      else
        match s4 with
        | [] => some ⟨neg, st2.mant, st2.base, st2.ex⟩
        | _marker :: s5 =>
          if !st2.foundexp then some ⟨neg, st2.mant, st2.base, st2.ex⟩  -- unreachable: the loop only stops at a marker
          else
            match parseExponent st2 s5 with
            | none => none
            | some ex => some ⟨neg, st2.mant, st2.base, ex⟩

/-- the scanning part of `janet_scan_number_base(str, len, base, &out)`: `none` = `goto error` -/
def parseNumber (str : List Nat) (base : Nat) : Option Parsed :=
  match numHeader str base with
  | none => none
  | some (neg, b, s2) => parseBody neg b s2

/-- `janet_scan_number_base`: `some bits` on success (return 0), `none` on error (return 1) -/
def scanNumberBase (str : List Nat) (base : Nat) : Option Nat :=
  (parseNumber str base).map (fun p => convert p.neg p.mant p.base p.ex)

/-! ## 64-bit integer scanning -/

/-- digit loop of `scan_uint64`: accumulates with the overflow guard -/
def scanU64Digits (base : Nat) : List Nat → Nat → Bool → Option (Nat × Bool)
  | [], accum, sd => some (accum, sd)
  | c :: rest, accum, sd =>
    if c = 95 then
      if sd then scanU64Digits base rest accum sd else none
    else
      let digit := digitOf c
      if c > 127 ∨ digit ≥ base then none
      else if accum > (u64Max - digit) / base then none
      else scanU64Digits base rest (accum * base + digit) true

def skipIntZeros : List Nat → Bool → List Nat × Bool
  | [], sd => ([], sd)
  | c :: rest, sd => if c = 48 then skipIntZeros rest true else (c :: rest, sd)

/-- integer radix prefix (always parsed; base defaults to 10) -/
def scanIntPrefix (s : List Nat) : Option (Nat × List Nat) :=
  match s with
  | 48 :: 120 :: rest => some (16, rest)
  | c0 :: 114 :: rest =>
    if 48 ≤ c0 ∧ c0 ≤ 57 then some (c0 - 48, rest) else some (10, s)
  | c0 :: c1 :: 114 :: rest =>
    if 48 ≤ c0 ∧ c0 ≤ 57 ∧ 48 ≤ c1 ∧ c1 ≤ 57 then
      let b := 10 * (c0 - 48) + (c1 - 48)
      if b < 2 ∨ b > 36 then none else some (b, rest)
    else some (10, s)
  | _ => some (10, s)

/-- length check, sign, radix prefix and leading zeros of `scan_uint64`: (neg, base, rest, seenadigit) -/
def intHeader (str : List Nat) : Option (Bool × Nat × List Nat × Bool) :=
  if str.length > intLenLimit then none
  else
    match str with
    | [] => none
    | c :: rest0 =>
      let (neg, s1) := if c = 45 then (true, rest0) else if c = 43 then (false, rest0) else (false, str)
      match scanIntPrefix s1 with
      | none => none
      | some (base, s2) =>
        let (s3, sd) := skipIntZeros s2 false
        some (neg, base, s3, sd)

/-- `scan_uint64`: (value, neg) -/
def scanUint64Core (str : List Nat) : Option (Nat × Bool) :=
  match intHeader str with
  | none => none
  | some (neg, base, s3, sd) =>
    match scanU64Digits base s3 0 sd with
    | none => none
    | some (accum, sd2) => if sd2 then some (accum, neg) else none

/-- `janet_scan_int64` -/
def scanInt64 (str : List Nat) : Option Int :=
  match scanUint64Core str with
  | none => none
  | some (bi, neg) =>
    if neg ∧ bi ≤ u64Max / 2 + 1 then
      (if bi > i64Max then some (-9223372036854775808) else some (-(bi : Int)))
    else if !neg ∧ bi ≤ i64Max then some (bi : Int)
    else none

/-- `janet_scan_uint64` -/
def scanUint64 (str : List Nat) : Option Nat :=
  match scanUint64Core str with
  | none => none
  | some (bi, neg) => if !neg then some bi else none

/-! ## printing: `%.17g` as exact correctly rounded decimal conversion (SPEC side) -/

/-- decode a finite double's magnitude bits into (m, e) with value = m * 2^e -/
def decodeBits (bits : Nat) : Nat × Int :=
  let ef := bits / 4503599627370496 % 2048
  let f := bits % 4503599627370496
  if ef = 0 then (f, -1074) else (f + 4503599627370496, (ef : Int) - 1075)

/-- `N/D` rounded to nearest integer, ties to even -/
def divRne (n d : Nat) : Nat :=
  let q := n / d
  let r := n % d
  if 2 * r > d ∨ (2 * r = d ∧ q % 2 = 1) then q + 1 else q

/-- is `num/den ≥ 10^x` ? -/
def geP10 (num den : Nat) (x : Int) : Bool :=
  if x ≥ 0 then num ≥ den * 10 ^ x.toNat else num * 10 ^ (-x).toNat ≥ den

/-- decimal exponent X with 10^X ≤ num/den < 10^(X+1), starting from an estimate and correcting -/
def decExp (num den : Nat) : Int :=
  let est : Int := (((bitLen num : Int) - (bitLen den : Int)) * 30103) / 100000
  let rec up (fuel : Nat) (x : Int) : Int :=
    match fuel with
    | 0 => x
    | f + 1 => if geP10 num den (x + 1) then up f (x + 1) else x
  let rec down (fuel : Nat) (x : Int) : Int :=
    match fuel with
    | 0 => x
    | f + 1 => if geP10 num den x then x else down f (x - 1)
  up 8 (down 8 est)

def natDigits (n : Nat) : List Char := (Nat.toDigits 10 n)

def padLeft (k : Nat) (cs : List Char) : List Char := List.replicate (k - cs.length) '0' ++ cs

def stripTrailingZeros (cs : List Char) : List Char :=
  (cs.reverse.dropWhile (· = '0')).reverse

/-- `%.<p>g` of the positive finite value num/den (p significant digits, correctly rounded, ties to even) -/
def fmtG (p : Nat) (num den : Nat) : List Char :=
  if num = 0 then ['0']
  else
    let x0 := decExp num den
    -- D = round(v / 10^(x0-(p-1)))
    let sh : Int := x0 - ((p : Int) - 1)
    let d0 := if sh ≥ 0 then divRne num (den * 10 ^ sh.toNat) else divRne (num * 10 ^ (-sh).toNat) den
    let (d, x) := if d0 ≥ 10 ^ p then (d0 / 10, x0 + 1) else (d0, x0)
    let ds := padLeft p (natDigits d)
    if x < -4 ∨ x ≥ (p : Int) then
      -- %e style: d.ddddde±XX
      let frac := stripTrailingZeros (ds.drop 1)
      let mant := if frac.isEmpty then ds.take 1 else ds.take 1 ++ '.' :: frac
      let ea := x.natAbs
      let es := padLeft 2 (natDigits ea)
      mant ++ 'e' :: (if x < 0 then '-' else '+') :: es
    else if x ≥ 0 then
      let ip := ds.take (x.toNat + 1)
      let frac := stripTrailingZeros (ds.drop (x.toNat + 1))
      if frac.isEmpty then ip else ip ++ '.' :: frac
    else
      let frac := stripTrailingZeros (List.replicate ((-x).toNat - 1) '0' ++ ds)
      '0' :: '.' :: frac

/-- `snprintf("%.17g", x)` for a finite double given by its 64-bit pattern -/
def print17 (bits : Nat) : List Char :=
  let neg := bits ≥ 0x8000000000000000
  let (m, e) := decodeBits (bits % 0x8000000000000000)
  let body := if e ≥ 0 then fmtG printDigits (m <<< e.toNat) 1 else fmtG printDigits m (2 ^ (-e).toNat)
  if neg then '-' :: body else body

/-! ## `number_to_string_b` (pp.c): what `string`, `describe`, `%v`, `%q`, `%p`, `print`, `pp` use for numbers -/

/-- `x == floor(x)` for the finite double m·2^e -/
def isIntValued (m : Nat) (e : Int) : Bool := e ≥ 0 || m % 2 ^ (-e).toNat = 0

/-- the integer |x| when x is integer-valued -/
def intValue (m : Nat) (e : Int) : Nat := if e ≥ 0 then m <<< e.toNat else m >>> (-e).toNat

/-- libc `snprintf("%.0f", x)` for an integer-valued x.  NAMED ASSUMPTION `libc_fixed0_exact`: libc prints the exact
    decimal expansion of an integer-valued double (compared with the implementation on every run, op `pint`/`pstr`). -/
def printFixed0 (neg : Bool) (v : Nat) : List Char := (if neg then ['-'] else []) ++ Nat.toDigits 10 v

/-- `number_to_string_b` for a finite double given by its 64-bit pattern: "0" for ±0, `%.0f` inside the integer window
    (`x == floor(x) && x <= JANET_INTMAX_DOUBLE && x >= JANET_INTMIN_DOUBLE`), `%.<DBL_DIG>g` otherwise -/
def numberToString (bits : Nat) : List Char :=
  let neg := bits ≥ 0x8000000000000000
  let (m, e) := decodeBits (bits % 0x8000000000000000)
  if m = 0 then ['0']
  else if isIntValued m e ∧ (if neg then intValue m e ≤ intMinDoubleAbs else intValue m e ≤ intMaxDouble) then
    printFixed0 neg (intValue m e)
  else
    let body := if e ≥ 0 then fmtG dblDig (m <<< e.toNat) 1 else fmtG dblDig m (2 ^ (-e).toNat)
    if neg then '-' :: body else body

end JanetModel.Strtod
