/- C13: the VALUE DENOTED by a numeric literal, defined from the grammar of literals and independently of the scanner's
   state machine (no loops over scanner state, no BigNat, no clamp):

     literal  ::= sign? radix-prefix? mantissa (marker sign? exp-digits)?
     sign     ::= '-' | '+'
     prefix   ::= "0x" | D 'r' | D D 'r'                      (only when the caller passes base 0; "0r" means radix 10)
     mantissa ::= digits, '_' separators, at most one '.'     (value: all digits read as ONE integer M in the radix,
                                                                scaled by radix^−F, F = number of digits after the '.')
     marker   ::= '&' | 'e' 'E' (radix 10) | 'p' 'P' (radix 16: hex float — exponent written in decimal, scale 2^X)
     value    =  ± M · radix^(−F) · radix^(±X)                 (hex float: ± M · 16^(−F) · 2^(±X))

   `denote` is TOTAL: it assigns a value to every byte string; the theorems only use it on strings the scanner accepts
   (validity is the scanner's business, the value is the spec's).  CORE LEAN ONLY (linked into jm_c13: the driver prints
   `denote` so that the run compares it with the generator's by-construction value of every literal). -/
import JanetModel.Strtod.Model

namespace JanetModel.Strtod

/-- the intended digit valuation: '0'..'9' ↦ 0..9, 'A'..'Z' / 'a'..'z' ↦ 10..35 (anything else: 255) -/
def charVal (c : Nat) : Nat :=
  if 48 ≤ c ∧ c ≤ 57 then c - 48
  else if 65 ≤ c ∧ c ≤ 90 then c - 55
  else if 97 ≤ c ∧ c ≤ 122 then c - 87
  else 255

/-- a denoted value: ± M · b^E -/
structure Lit where
  neg : Bool
  M : Nat
  b : Nat
  E : Int
deriving Repr, DecidableEq

def splitSign (s : List Nat) : Bool × List Nat :=
  match s with
  | [] => (false, [])
  | c :: r => if c = 45 then (true, r) else if c = 43 then (false, r) else (false, c :: r)

def isDec (c : Nat) : Bool := decide (48 ≤ c) && decide (c ≤ 57)

/-- radix prefix: `0x` → 16, `Dr` → D, `DDr` → DD; otherwise none (radix 0 = "not given") -/
def splitRadix (s : List Nat) : Nat × List Nat :=
  if s.take 2 = [48, 120] then (16, s.drop 2)
  else if 2 ≤ s.length ∧ isDec (s.getD 0 0) ∧ s.getD 1 0 = 114 then (s.getD 0 0 - 48, s.drop 2)
  else if 3 ≤ s.length ∧ isDec (s.getD 0 0) ∧ isDec (s.getD 1 0) ∧ s.getD 2 0 = 114 then
    (10 * (s.getD 0 0 - 48) + (s.getD 1 0 - 48), s.drop 3)
  else (0, s)

/-- is `c` an exponent marker in radix `b` -/
def isExpMarker (b c : Nat) : Bool :=
  c == 38 || (b == 10 && (c == 69 || c == 101)) || (b == 16 && (c == 80 || c == 112))

/-- the digit characters of a mantissa text: everything but the separators `_` and the point -/
def mantChars (ms : List Nat) : List Nat := ms.filter (fun c => c != 95 && c != 46)

/-- positional value of a digit string (most significant first), continuing from `acc` -/
def ofDigitsFrom (b acc : Nat) (cs : List Nat) : Nat := cs.foldl (fun a c => a * b + charVal c) acc

def ofDigits (b : Nat) (cs : List Nat) : Nat := ofDigitsFrom b 0 cs

/-- the digit characters after the (first) point -/
def fracChars (ms : List Nat) : List Nat := mantChars (ms.dropWhile (fun c => c != 46))

/-- the value of the text after sign and radix prefix: mantissa, then optionally marker, sign, exponent digits -/
def denoteBody (neg : Bool) (b : Nat) (s : List Nat) : Lit :=
  let ms := s.takeWhile (fun c => !isExpMarker b c)
  let M := ofDigits b (mantChars ms)
  let F := (fracChars ms).length
  match s.dropWhile (fun c => !isExpMarker b c) with
  | [] => ⟨neg, M, b, -(F : Int)⟩
  | mk :: es =>
    let esg := splitSign es
    let hexp := (mk == 80 || mk == 112) && b == 16
    let X := ofDigits (if hexp then 10 else b) esg.2
    let Xs : Int := if esg.1 then -(X : Int) else (X : Int)
    if hexp then ⟨neg, M, 2, Xs - 4 * (F : Int)⟩ else ⟨neg, M, b, Xs - (F : Int)⟩

/-- ★ the value denoted by the text `str` when the caller passes radix `base0` (0 = read the prefix, default 10) -/
def denote (str : List Nat) (base0 : Nat) : Lit :=
  let sg := splitSign str
  let pr := if base0 = 0 then splitRadix sg.2 else (base0, sg.2)
  denoteBody sg.1 (if pr.1 = 0 then 10 else pr.1) pr.2

end JanetModel.Strtod
