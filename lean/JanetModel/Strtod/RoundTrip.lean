/- C13: the 17-significant-digit round trip, READING side, closed end to end.

   `Close17 N D X` — the exact value `N/D` of a text is within half a unit in the 17th significant digit of `X`
   (`|N/D − X| ≤ (N/D) / (2·10^16)`; a decimal `d·10^k` with `d ≥ 10^16` and `|d·10^k − X| ≤ 10^k/2` satisfies it).
   This is the ONLY thing assumed about the printing side (libc `snprintf("%.17g")`).

   `finish_roundtrip`  : (t, e2) from `bignat_extract` (nearest, ties away, with the magnitude conjunct) + `ldexp`
                         return exactly the finite non-zero double `k` the value is `Close17` to — all binades incl.
                         the lower binade edge (value just below a power of two: the reader works on the finer grid and
                         renormalises), subnormal targets (second rounding inside `ldexp`), no overflow.
   `convert_roundtrip` : the same through `convert` (short-circuits cannot fire, both scaling branches, one-digit case).
   `scan_roundtrip`    : the same through `janet_scan_number_base` against the denoted value `denote`. -/
import JanetModel.Strtod.EndToEnd

namespace JanetModel.Strtod
open JanetModel.Gen.Strtod

/-- the value `N/D` is within half a unit in the 17th significant digit of `X` (all in the same unit):
    `(2·10^16 − 1)·N/D ≤ 2·10^16·X ≤ (2·10^16 + 1)·N/D`, i.e. `|N/D − X| ≤ (N/D)/(2·10^16)` -/
def Close17 (N D X : Nat) : Prop :=
  (2 * 10 ^ 16 - 1) * N ≤ 2 * 10 ^ 16 * (X * D) ∧ 2 * 10 ^ 16 * (X * D) ≤ (2 * 10 ^ 16 + 1) * N

theorem Close17.congr {N D N' D' X : Nat} (h : Close17 N D X) (hD : 0 < D) (hx : N * D' = N' * D) :
    Close17 N' D' X := by
  obtain ⟨h1, h2⟩ := h
  unfold Close17
  generalize 2 * 10 ^ 16 - 1 = c1 at *
  generalize 2 * 10 ^ 16 + 1 = c3 at *
  generalize 2 * 10 ^ 16 = c2 at *
  constructor
  · apply Nat.le_of_mul_le_mul_right _ hD
    calc c1 * N' * D = c1 * (N' * D) := by ring
      _ = c1 * (N * D') := by rw [hx]
      _ = c1 * N * D' := by ring
      _ ≤ c2 * (X * D) * D' := Nat.mul_le_mul_right _ h1
      _ = c2 * (X * D') * D := by ring
  · apply Nat.le_of_mul_le_mul_right _ hD
    calc c2 * (X * D') * D = c2 * (X * D) * D' := by ring
      _ ≤ c3 * N * D' := Nat.mul_le_mul_right _ h2
      _ = c3 * (N * D') := by ring
      _ = c3 * (N' * D) := by rw [hx]
      _ = c3 * N' * D := by ring

/-! ### bit patterns -/

theorem decodeBits_inj (a b : Nat) (ha : a < 2 ^ 63) (hb : b < 2 ^ 63) (h : decodeBits a = decodeBits b) : a = b := by
  have p63 : (2 : Nat) ^ 63 = 9223372036854775808 := by norm_num
  rw [p63] at ha hb
  unfold decodeBits at h
  simp only at h
  split_ifs at h with h1 h2 h2 <;> simp only [Prod.mk.injEq] at h <;> omega

theorem infBits_lt : infBits < 2 ^ 63 := by unfold infBits; norm_num

/-- a finite normal pattern: significand in [2^52, 2^53), exponent in [−1074, 971] -/
theorem decode_normal (k : Nat) (h1 : 2 ^ 52 ≤ k) (h2 : k < infBits) :
    ∃ T : Nat, ∃ q : Int, decodeBits k = (T, q) ∧ 2 ^ 52 ≤ T ∧ T < 2 ^ 53 ∧ -1074 ≤ q ∧ q ≤ 971 ∧
      ulps k = T * 2 ^ (q + 1074).toNat := by
  have p52 : (2 : Nat) ^ 52 = 4503599627370496 := by norm_num
  have p53 : (2 : Nat) ^ 53 = 9007199254740992 := by norm_num
  rw [p52] at h1
  unfold infBits at h2
  have hef : k / 4503599627370496 % 2048 ≠ 0 := by omega
  have hd : decodeBits k = (k % 4503599627370496 + 4503599627370496, ((k / 4503599627370496 % 2048 : Nat) : Int) - 1075) := by
    unfold decodeBits
    simp only
    rw [if_neg hef]
  refine ⟨_, _, hd, ?_, ?_, ?_, ?_, ?_⟩
  · rw [p52]; omega
  · rw [p53]; omega
  · omega
  · omega
  · unfold ulps; rw [hd]

theorem decode_subnormal (k : Nat) (h : k < 2 ^ 52) : decodeBits k = (k, -1074) := by
  have p52 : (2 : Nat) ^ 52 = 4503599627370496 := by norm_num
  rw [p52] at h
  unfold decodeBits
  simp only
  have hef : k / 4503599627370496 % 2048 = 0 := by omega
  rw [if_pos hef]
  congr 1
  omega

theorem ulps_pos (k : Nat) (h0 : 0 < k) (h : k < infBits) : 0 < ulps k := by
  by_cases hn : 2 ^ 52 ≤ k
  · obtain ⟨T, q, _, hT, _, _, _, hu⟩ := decode_normal k hn h
    rw [hu]
    exact Nat.mul_pos (lt_of_lt_of_le (Nat.two_pow_pos 52) hT) (Nat.two_pow_pos _)
  · rw [ulps_small k (by omega)]; exact h0

/-! ### round-to-nearest-even of something strictly within half a step of a grid point -/

theorem rneShift_of_close (t s k : Nat) (hs : 1 ≤ s) (h1 : 2 * t < (2 * k + 1) * 2 ^ s)
    (h2 : 2 * k * 2 ^ s < 2 * t + 2 ^ s) : rneShift t s = k := by
  obtain ⟨s', rfl⟩ : ∃ s', s = s' + 1 := ⟨s - 1, by omega⟩
  unfold rneShift
  rw [if_neg (by omega)]
  simp only [Nat.shiftRight_eq_div_pow, Nat.add_sub_cancel]
  have hp : 2 ^ (s' + 1) = 2 * 2 ^ s' := by rw [pow_succ]; ring
  rw [hp] at h1 h2 ⊢
  have hHpos : 0 < 2 ^ s' := Nat.two_pow_pos _
  generalize 2 ^ s' = H at *
  have e1 : (2 * k + 1) * (2 * H) = 4 * (k * H) + 2 * H := by ring
  have e2 : 2 * k * (2 * H) = 4 * (k * H) := by ring
  rw [e1] at h1; rw [e2] at h2
  have hdm := Nat.div_add_mod t (2 * H)
  have hml := Nat.mod_lt t (show 0 < 2 * H by omega)
  by_cases hge : 2 * (k * H) ≤ t
  · have hq : t / (2 * H) = k := by
      apply Nat.div_eq_of_lt_le
      · calc k * (2 * H) = 2 * (k * H) := by ring
          _ ≤ t := hge
      · calc t < 2 * (k * H) + 2 * H := by omega
          _ = (k + 1) * (2 * H) := by ring
    have e3 : 2 * H * (t / (2 * H)) = 2 * (k * H) := by rw [hq]; ring
    rw [e3] at hdm
    rw [hq]
    have hr : ¬ (t % (2 * H) > H ∨ (t % (2 * H) = H ∧ k % 2 = 1)) := by omega
    rw [if_neg hr]
  · have hk1 : 1 ≤ k := by
      rcases Nat.eq_zero_or_pos k with h0 | h0
      · subst h0; simp at hge
      · exact h0
    obtain ⟨k', rfl⟩ : ∃ k', k = k' + 1 := ⟨k - 1, by omega⟩
    have e4 : (k' + 1) * H = k' * H + H := by ring
    rw [e4] at h1 h2 hge
    have hq : t / (2 * H) = k' := by
      apply Nat.div_eq_of_lt_le
      · calc k' * (2 * H) = 2 * (k' * H) := by ring
          _ ≤ t := by omega
      · calc t < 2 * (k' * H) + 2 * H := by omega
          _ = (k' + 1) * (2 * H) := by ring
    have e3 : 2 * H * (t / (2 * H)) = 2 * (k' * H) := by rw [hq]; ring
    rw [e3] at hdm
    rw [hq]
    have hr : t % (2 * H) > H ∨ (t % (2 * H) = H ∧ k' % 2 = 1) := by left; omega
    rw [if_pos hr]

/-! ### (t, e2) + `ldexp`: the double the value is `Close17` to -/

/-- ★ the reader's last two steps return EXACTLY the finite non-zero double `k` whenever the exact value (`N/D` in units
    of 2^e2) is `Close17` to it.  `(t, e2)` as produced by `bignat_extract`: normalised, nearest (ties away) to `N/D`, with
    the magnitude conjunct `N/D ≥ 2^52 − ¼`.  Covers: same binade; value just below a power of two (reader on the finer
    grid, rounds up to 2^53 and renormalises — the magnitude conjunct rules out a stale grid); value just above the top of a
    binade; subnormal `k` (second rounding in `ldexp`: |t/2^s − k| < ½ strictly, so no double-rounding error); overflow
    impossible. -/
theorem finish_roundtrip (t : Nat) (e2 : Int) (N D k : Nat) (hD : 0 < D) (hlo : 2 ^ 52 ≤ t) (hhi : t < 2 ^ 53)
    (hN : NearestUpN t N D) (hmag : (2 ^ 54 - 1) * D ≤ 4 * N) (hk0 : 0 < k) (hk : k < infBits)
    (hc : Close17 (N * 2 ^ (e2 + 1074).toNat) (D * 2 ^ (-1074 - e2).toNat) (ulps k)) :
    ldexpBits t e2 = k := by
  have p52 : (2 : Nat) ^ 52 = 4503599627370496 := by norm_num
  have p53 : (2 : Nat) ^ 53 = 9007199254740992 := by norm_num
  have c54 : (2 : Nat) ^ 54 - 1 = 18014398509481983 := by norm_num
  have k1 : 2 * 10 ^ 16 - 1 = 19999999999999999 := by norm_num
  have k2 : 2 * 10 ^ 16 = 20000000000000000 := by norm_num
  have k3 : 2 * 10 ^ 16 + 1 = 20000000000000001 := by norm_num
  obtain ⟨hn1, hn2⟩ := hN
  obtain ⟨hc1, hc2⟩ := hc
  rw [k1, k2] at hc1; rw [k3, k2] at hc2
  rw [c54] at hmag
  by_cases hA : -1074 ≤ e2
  · -- reader in the normal / overflow range: grid 2^g ulps
    have hz : (-1074 - e2).toNat = 0 := by omega
    rw [hz, pow_zero, Nat.mul_one] at hc1 hc2
    obtain ⟨g, hg⟩ : ∃ g : Nat, (e2 + 1074).toNat = g := ⟨_, rfl⟩
    rw [hg] at hc1 hc2
    have hgp : 0 < 2 ^ g := Nat.two_pow_pos _
    -- atoms: aD = 2^g·D, PD = t·aD, Na = N·2^g
    have haD : 0 < 2 ^ g * D := Nat.mul_pos hgp hD
    have n1 : 2 * (t * (2 ^ g * D)) ≤ 2 * (N * 2 ^ g) + 2 ^ g * D := by
      calc 2 * (t * (2 ^ g * D)) = 2 * t * D * 2 ^ g := by ring
        _ ≤ (2 * N + D) * 2 ^ g := Nat.mul_le_mul_right _ hn1
        _ = 2 * (N * 2 ^ g) + 2 ^ g * D := by ring
    have n2 : 2 * (N * 2 ^ g) < 2 * (t * (2 ^ g * D)) + 2 ^ g * D := by
      calc 2 * (N * 2 ^ g) = 2 * N * 2 ^ g := by ring
        _ < (2 * t * D + D) * 2 ^ g := Nat.mul_lt_mul_of_pos_right hn2 hgp
        _ = 2 * (t * (2 ^ g * D)) + 2 ^ g * D := by ring
    have m1 : 18014398509481983 * (2 ^ g * D) ≤ 4 * (N * 2 ^ g) := by
      calc 18014398509481983 * (2 ^ g * D) = 18014398509481983 * D * 2 ^ g := by ring
        _ ≤ 4 * N * 2 ^ g := Nat.mul_le_mul_right _ hmag
        _ = 4 * (N * 2 ^ g) := by ring
    have tlo : 4503599627370496 * (2 ^ g * D) ≤ t * (2 ^ g * D) := Nat.mul_le_mul_right _ (by rw [← p52]; exact hlo)
    have thi : t * (2 ^ g * D) ≤ 9007199254740991 * (2 ^ g * D) := Nat.mul_le_mul_right _ (by rw [p53] at hhi; omega)
    by_cases hkn : 2 ^ 52 ≤ k
    · obtain ⟨T, q, hd, hT1, hT2, hq1, hq2, hu⟩ := decode_normal k hkn hk
      obtain ⟨h, hh⟩ : ∃ h : Nat, (q + 1074).toNat = h := ⟨_, rfl⟩
      rw [hu, hh] at hc1 hc2
      have hhp : 0 < 2 ^ h := Nat.two_pow_pos _
      have hcD : 0 < 2 ^ h * D := Nat.mul_pos hhp hD
      have eQ : T * 2 ^ h * D = T * (2 ^ h * D) := by ring
      rw [eQ] at hc1 hc2
      have Tlo : 4503599627370496 * (2 ^ h * D) ≤ T * (2 ^ h * D) := Nat.mul_le_mul_right _ (by rw [← p52]; exact hT1)
      have Thi : T * (2 ^ h * D) ≤ 9007199254740991 * (2 ^ h * D) := Nat.mul_le_mul_right _ (by rw [p53] at hT2; omega)
      rcases Nat.lt_trichotomy g h with hgh | hgh | hgh
      · exfalso
        have : 2 * (2 ^ g * D) ≤ 2 ^ h * D := by
          calc 2 * (2 ^ g * D) = 2 ^ (g + 1) * D := by rw [pow_succ]; ring
            _ ≤ 2 ^ h * D := Nat.mul_le_mul_right _ (Nat.pow_le_pow_right (by decide) hgh)
        generalize 2 ^ g * D = aD at *
        generalize 2 ^ h * D = cD at *
        generalize t * aD = PD at *
        generalize T * cD = QD at *
        generalize N * 2 ^ g = Na at *
        omega
      · subst hgh
        have hclose : t * (2 ^ g * D) < T * (2 ^ g * D) + 2 ^ g * D ∧ T * (2 ^ g * D) < t * (2 ^ g * D) + 2 ^ g * D := by
          generalize 2 ^ g * D = aD at *
          generalize t * aD = PD at *
          generalize T * aD = QD at *
          generalize N * 2 ^ g = Na at *
          omega
        have ht1 : t < T + 1 := by
          apply Nat.lt_of_mul_lt_mul_right (a := 2 ^ g * D)
          rw [Nat.add_mul, Nat.one_mul]; exact hclose.1
        have ht2 : T < t + 1 := by
          apply Nat.lt_of_mul_lt_mul_right (a := 2 ^ g * D)
          rw [Nat.add_mul, Nat.one_mul]; exact hclose.2
        have htT : t = T := by omega
        have heq : e2 = q := by omega
        have h1 := ldexp_exact_normal t e2 hlo hhi hA (by omega)
        apply decodeBits_inj _ _ (lt_of_le_of_lt (ldexpBits_le _ _) infBits_lt) (lt_trans hk infBits_lt)
        rw [h1, hd, htT, heq]
      · exfalso
        have : 2 * (2 ^ h * D) ≤ 2 ^ g * D := by
          calc 2 * (2 ^ h * D) = 2 ^ (h + 1) * D := by rw [pow_succ]; ring
            _ ≤ 2 ^ g * D := Nat.mul_le_mul_right _ (Nat.pow_le_pow_right (by decide) hgh)
        generalize 2 ^ g * D = aD at *
        generalize 2 ^ h * D = cD at *
        generalize t * aD = PD at *
        generalize T * cD = QD at *
        generalize N * 2 ^ g = Na at *
        omega
    · -- subnormal target but a reader result of at least 2^52 ulps: impossible
      exfalso
      have hks : k < 2 ^ 52 := by omega
      rw [ulps_small k (by omega)] at hc1 hc2
      rw [p52] at hks
      have hkD : k * D ≤ 4503599627370495 * D := Nat.mul_le_mul_right _ (by omega)
      have haD1 : D ≤ 2 ^ g * D := Nat.le_mul_of_pos_left D hgp
      generalize 2 ^ g * D = aD at *
      generalize t * aD = PD at *
      generalize k * D = QD at *
      generalize N * 2 ^ g = Na at *
      omega
  · -- reader below the normal range: result = rneShift t s, grid 2^−s ulps
    have hz : (e2 + 1074).toNat = 0 := by omega
    rw [hz, pow_zero, Nat.mul_one] at hc1 hc2
    obtain ⟨s, hs⟩ : ∃ s : Nat, (-1074 - e2).toNat = s := ⟨_, rfl⟩
    have hs1 : 1 ≤ s := by omega
    rw [hs] at hc1 hc2
    have ht0 : t ≠ 0 := by rw [p52] at hlo; omega
    obtain ⟨hv, _⟩ := ldexp_subnormal_bits t e2 ht0 hhi (by omega)
    rw [hv, hs]
    have hS2 : 2 * D ≤ D * 2 ^ s := by
      calc 2 * D = D * 2 ^ 1 := by ring
        _ ≤ D * 2 ^ s := Nat.mul_le_mul_left _ (Nat.pow_le_pow_right (by decide) hs1)
    have thi : t * D ≤ 9007199254740991 * D := Nat.mul_le_mul_right _ (by rw [p53] at hhi; omega)
    have tlo : 4503599627370496 * D ≤ t * D := Nat.mul_le_mul_right _ (by rw [← p52]; exact hlo)
    have en1 : 2 * t * D = 2 * (t * D) := by ring
    rw [en1] at hn1 hn2
    by_cases hkn : 2 ^ 52 ≤ k
    · exfalso
      obtain ⟨T, q, hd, hT1, hT2, hq1, hq2, hu⟩ := decode_normal k hkn hk
      have hX : 2 ^ 52 ≤ ulps k := by
        rw [hu]
        calc 2 ^ 52 ≤ T := hT1
          _ = T * 1 := (Nat.mul_one T).symm
          _ ≤ T * 2 ^ (q + 1074).toNat := Nat.mul_le_mul_left _ Nat.one_le_two_pow
      rw [p52] at hX
      have hXD : 4503599627370496 * (D * 2 ^ s) ≤ ulps k * (D * 2 ^ s) := Nat.mul_le_mul_right _ hX
      generalize D * 2 ^ s = SD at *
      generalize ulps k * SD = QD at *
      generalize t * D = PD at *
      omega
    · have hks : k < 2 ^ 52 := by omega
      rw [ulps_small k (by omega)] at hc1 hc2
      rw [p52] at hks
      have hkD : k * (D * 2 ^ s) ≤ 4503599627370495 * (D * 2 ^ s) := Nat.mul_le_mul_right _ (by omega)
      have hkD1 : 1 * (D * 2 ^ s) ≤ k * (D * 2 ^ s) := Nat.mul_le_mul_right _ hk0
      have hcl : 2 * (t * D) < 2 * (k * (D * 2 ^ s)) + D * 2 ^ s ∧ 2 * (k * (D * 2 ^ s)) < 2 * (t * D) + D * 2 ^ s := by
        generalize D * 2 ^ s = SD at *
        generalize k * SD = QD at *
        generalize t * D = PD at *
        omega
      apply rneShift_of_close t s k hs1
      · apply Nat.lt_of_mul_lt_mul_right (a := D)
        calc 2 * t * D = 2 * (t * D) := by ring
          _ < 2 * (k * (D * 2 ^ s)) + D * 2 ^ s := hcl.1
          _ = (2 * k + 1) * 2 ^ s * D := by ring
      · apply Nat.lt_of_mul_lt_mul_right (a := D)
        calc 2 * k * 2 ^ s * D = 2 * (k * (D * 2 ^ s)) := by ring
          _ < 2 * (t * D) + D * 2 ^ s := hcl.2
          _ = (2 * t + 2 ^ s) * D := by ring

/-! ### `convert` -/

/-- the tiny short-circuit has 85 bits of slack: it fires only for values below 2^−1159 (far below half the smallest
    subnormal), so it can never swallow a value that is `Close17` to a non-zero double -/
theorem tiny_sound_neg_strong (mant : BigNat) (base a : Nat) (hi : MantInv mant)
    (hnz : ¬ (mant.digits.length = 0 ∧ mant.first = 0)) (hb2 : 2 ≤ base) (hb : base ≤ 36) (ha0 : 0 < a) (ha : a < 2 ^ 31)
    (hL : Log2Within1Ulp base) (happ : exp2Approx mant base (-(a : Int)) < tinyThresh) :
    mant.val * 2 ^ 1159 < base ^ a := by
  obtain ⟨hlm1, hlm2, hle1, hle2⟩ := log2Table_shape ⟨base, by omega⟩ hb2
  simp only at hlm1 hlm2 hle1 hle2
  obtain ⟨r2, hq1, hq2, hq3, hr1, hr2⟩ := mulFloorMag_facts _ _ a hlm2 hle1 hle2 ha
  obtain ⟨_, hm2⟩ := mant_estimate mant hi hnz
  have hK : 2 ^ 50 ≤ 2 ^ (-(log2Entry base).2).toNat := Nat.pow_le_pow_right (by decide) (by omega)
  unfold exp2Approx at happ
  rw [log2MulFloor_neg _ _ ha0] at happ
  have hth : tinyThresh = -1175 := by decide
  rw [hth] at happ
  set lm := (log2Entry base).1 with hlm
  set K := 2 ^ (-(log2Entry base).2).toNat with hKdef
  set q := (mulFloorMag lm (log2Entry base).2 a).1 with hq
  set fr := (mulFloorMag lm (log2Entry base).2 a).2 with hfr
  set A := mant.digits.length * approxPerDigit + approxBias with hA
  have p31 : (2 : Nat) ^ 31 = 2147483648 := by norm_num
  have p50 : (2 : Nat) ^ 50 = 1125899906842624 := by norm_num
  have p52 : (2 : Nat) ^ 52 = 4503599627370496 := by norm_num
  rw [p31] at ha hr1 hr2; rw [p50] at hK; rw [p52] at hlm1
  obtain ⟨F', hF', hFK⟩ : ∃ F' : Nat, ((q : Int) + (if fr then 1 else 0) = (F' : Int)) ∧ F' * K ≤ r2 + K := by
    cases hfrv : fr
    · refine ⟨q, by simp, by omega⟩
    · refine ⟨q + 1, by simp, ?_⟩
      have : (q + 1) * K = q * K + K := by ring
      omega
  rw [hF'] at happ
  have hF2 : A + 1176 ≤ F' := by omega
  obtain ⟨m, hm⟩ : ∃ m, F' = m + 2 := ⟨F' - 2, by omega⟩
  have hroot : 2 ^ m ≤ base ^ a := by
    apply pow_root_lower base a K (lm - 1) m (by omega) hL.1
    have e1 : (lm - 1) * a = lm * a - a := by rw [Nat.sub_mul]; simp
    have e2 : F' * K = m * K + 2 * K := by rw [hm]; ring
    have hla : a ≤ lm * a := Nat.le_mul_of_pos_left a (by omega)
    omega
  have hexp : A + 15 + 1159 ≤ m := by omega
  have h1 : 2 ^ (A + 15 + 1159) ≤ 2 ^ m := Nat.pow_le_pow_right (by norm_num) hexp
  have e31 : A + 31 = A + 15 + 16 := by ring
  rw [e31, pow_add] at hm2
  have hv : mant.val < 2 ^ (A + 15) := Nat.lt_of_mul_lt_mul_right hm2
  rw [pow_add] at h1
  have hP : 0 < 2 ^ 1159 := Nat.two_pow_pos _
  generalize (2 : Nat) ^ 1159 = P at h1 hP ⊢
  exact lt_of_lt_of_le (Nat.mul_lt_mul_of_pos_right hv hP) (le_trans h1 hroot)

/-- ★★ `convert` returns EXACTLY the finite non-zero double `k` (with the literal's sign) whenever the exact value
    `mant·base^ex` is `Close17` to it — for every mantissa the scanner can build, radix 2..36, |ex| < 2^31. -/
theorem convert_roundtrip (neg : Bool) (mant : BigNat) (base : Nat) (ex : Int) (hi : MantInv mant)
    (hb2 : 2 ≤ base) (hb : base ≤ 36) (hex : ex.natAbs < 2 ^ 31) (hL : Log2Within1Ulp base)
    (k : Nat) (hk0 : 0 < k) (hk : k < infBits)
    (hc : Close17 (mant.val * base ^ ex.toNat * 2 ^ 1074) (base ^ (-ex).toNat) (ulps k)) :
    convert neg mant base ex = withSign neg k := by
  have hb1 : 1 ≤ base := by omega
  have hbpos : ∀ n, 0 < base ^ n := fun n => Nat.pow_pos (by omega)
  have hX := ulps_pos k hk0 hk
  have hXle := ulps_finite_le k hk
  have k1 : 2 * 10 ^ 16 - 1 = 19999999999999999 := by norm_num
  have k2 : 2 * 10 ^ 16 = 20000000000000000 := by norm_num
  have k3 : 2 * 10 ^ 16 + 1 = 20000000000000001 := by norm_num
  have p53 : (2 : Nat) ^ 53 = 9007199254740992 := by norm_num
  have c53 : (2 : Nat) ^ 53 - 1 = 9007199254740991 := by norm_num
  have e2098 : (2 : Nat) ^ 1024 * 2 ^ 1074 = 2 ^ 53 * 2 ^ 2045 := by rw [← pow_add, ← pow_add]
  obtain ⟨hc1, hc2⟩ := id hc
  rw [k1, k2] at hc1; rw [k3, k2] at hc2
  by_cases hz : mant.digits.length = 0 ∧ mant.first = 0
  · exfalso
    have hN0 : mant.val * base ^ ex.toNat * 2 ^ 1074 = 0 := by rw [val_zero_of mant hz]; simp
    rw [hN0] at hc2
    have : 0 < ulps k * base ^ (-ex).toNat := Nat.mul_pos hX (hbpos _)
    omega
  have hM := val_pos_of_nonzero mant hi hz
  have hnz' : mant.digits = [] → mant.first ≠ 0 := by intro hd hf; exact hz ⟨by simp [hd], hf⟩
  -- a value of at least 2^1024 is not Close17 to a finite double
  have nothuge : ∀ Nn Dd : Nat, 0 < Dd → 2 ^ 1024 * 2 ^ 1074 * Dd ≤ Nn →
      19999999999999999 * Nn ≤ 20000000000000000 * (ulps k * Dd) → False := by
    intro Nn Dd hDd hbig hcl
    rw [e2098, p53] at hbig
    rw [c53] at hXle
    have hXD : ulps k * Dd ≤ 9007199254740991 * (2 ^ 2045 * Dd) := by
      calc ulps k * Dd ≤ 9007199254740991 * 2 ^ 2045 * Dd := Nat.mul_le_mul_right _ hXle
        _ = 9007199254740991 * (2 ^ 2045 * Dd) := by ring
    have hbig' : 9007199254740992 * (2 ^ 2045 * Dd) ≤ Nn := by
      calc 9007199254740992 * (2 ^ 2045 * Dd) = 9007199254740992 * 2 ^ 2045 * Dd := by ring
        _ ≤ Nn := hbig
    have hPD : 0 < 2 ^ 2045 * Dd := Nat.mul_pos (Nat.two_pow_pos _) hDd
    generalize 2 ^ 2045 * Dd = PD at *
    generalize ulps k * Dd = QD at *
    omega
  by_cases hneg : ex < 0
  · obtain ⟨a, rfl⟩ : ∃ a : Nat, ex = -(a : Int) := ⟨(-ex).toNat, by omega⟩
    have ha : 0 < a := by omega
    have ha31 : a < 2 ^ 31 := by simpa using hex
    have t1 : (-(a : Int)).toNat = 0 := by omega
    have t2 : (- -(a : Int)).toNat = a := by omega
    rw [t1, t2, pow_zero, Nat.mul_one] at hc hc1 hc2
    by_cases hh : exp2Approx mant base (-(a : Int)) > hugeThresh
    · exfalso
      have hv := huge_sound_neg mant base a hi hz hb2 hb ha ha31 hL hh
      apply nothuge _ _ (hbpos a) _ hc1
      calc 2 ^ 1024 * 2 ^ 1074 * base ^ a = 2 ^ 1024 * base ^ a * 2 ^ 1074 := by ring
        _ ≤ mant.val * 2 ^ 1074 := Nat.mul_le_mul_right _ hv
    · by_cases ht : exp2Approx mant base (-(a : Int)) < tinyThresh
      · exfalso
        have hv := tiny_sound_neg_strong mant base a hi hz hb2 hb ha ha31 hL ht
        have e1159 : (2 : Nat) ^ 1159 = 2 ^ 1074 * 2 ^ 85 := by rw [← pow_add]
        have p85 : (2 : Nat) ^ 85 = 38685626227668133590597632 := by norm_num
        rw [e1159, ← Nat.mul_assoc, p85] at hv
        have hXB : 1 * base ^ a ≤ ulps k * base ^ a := Nat.mul_le_mul_right _ hX
        have hB := hbpos a
        generalize base ^ a = B at *
        generalize ulps k * B = QD at *
        generalize mant.val * 2 ^ 1074 = Na at *
        omega
      · suffices hfin : ldexpBits (extractParts (scale mant base (-(a : Int))).1 (scale mant base (-(a : Int))).2).1
            (extractParts (scale mant base (-(a : Int))).1 (scale mant base (-(a : Int))).2).2 = k by
          rw [convert_main neg mant base _ hz hh ht, hfin]
        rw [scale_neg_eq _ _ _ ha]
        simp only
        obtain ⟨hl, hn, hu⟩ := scaleNeg_facts mant base a hb1 hb hi hnz'
        have hlen := scaleNeg_length mant base a hb1 hb hi hnz' hM
        have htop := scaleNeg_topnz mant base a hb1 hb hi hnz' hM
        have hfirst : (scaleNeg mant base a).first < bigBase := scaleNeg_first_lt mant base a hb1 hb hi
        obtain ⟨G, he, _, hNr, hMg, hlo, hhi⟩ := extract_faithful_neg_core (scaleNeg mant base a)
          (-(((shamtBase + a / shamtDiv) * nbit : Nat) : Int)) _ _ (hbpos a) hfirst hl htop hlen hu
        apply finish_roundtrip _ _ _ _ k (Nat.mul_pos (hbpos a) (Nat.two_pow_pos G)) hlo hhi hNr hMg hk0 hk
        refine hc.congr (hbpos a) ?_
        rw [he]
        have h2 : 2 ≤ shamtBase + a / shamtDiv := le_trans (by decide : 2 ≤ shamtBase) (Nat.le_add_right _ _)
        generalize shamtBase + a / shamtDiv = S at *
        obtain ⟨S', rfl⟩ : ∃ S', S = S' + 2 := ⟨S - 2, by omega⟩
        have hk' : (((S' + 2) * nbit : Nat) : Int) = 31 * (S' : Int) + 62 := by
          have : nbit = 31 := rfl
          rw [this]; push_cast; ring
        rw [hk']
        simp only [Nat.add_sub_cancel]
        rw [bigBase_pow]
        generalize hxp : (-(31 * (S' : Int) + 62) + 62 + (G : Int) + 1074).toNat = xp
        generalize hxm : (-1074 - (-(31 * (S' : Int) + 62) + 62 + (G : Int))).toNat = xm
        have hkk : 2 ^ (31 * S') * 2 ^ xp = 2 ^ 1074 * 2 ^ G * 2 ^ xm := by
          rw [← pow_add, ← pow_add, ← pow_add, show 31 * S' + xp = 1074 + G + xm by omega]
        generalize (2 : Nat) ^ (31 * S') = A at *
        generalize (2 : Nat) ^ xp = Xp at *
        generalize (2 : Nat) ^ xm = Xm at *
        generalize (2 : Nat) ^ G = Gg at *
        generalize (2 : Nat) ^ 1074 = T at *
        generalize base ^ a = B at *
        calc mant.val * T * (B * Gg * Xm) = mant.val * (T * Gg * Xm) * B := by ring
          _ = mant.val * (A * Xp) * B := by rw [hkk]
          _ = mant.val * A * Xp * B := by ring
  · obtain ⟨a, rfl⟩ : ∃ a : Nat, ex = (a : Int) := ⟨ex.toNat, by omega⟩
    have ha31 : a < 2 ^ 31 := by simpa using hex
    have t1 : ((a : Int)).toNat = a := by omega
    have t2 : (-(a : Int)).toNat = 0 := by omega
    rw [t1, t2, pow_zero] at hc hc1 hc2
    by_cases hh : exp2Approx mant base (a : Int) > hugeThresh
    · exfalso
      have hv := huge_sound_pos mant base a hi hz hb2 hb ha31 hL hh
      apply nothuge _ _ Nat.one_pos _ hc1
      rw [Nat.mul_one]
      exact Nat.mul_le_mul_right _ hv
    · have ht : ¬ exp2Approx mant base (a : Int) < tinyThresh := tiny_needs_negative mant base a
      suffices hfin : ldexpBits (extractParts (scale mant base (a : Int)).1 (scale mant base (a : Int)).2).1
          (extractParts (scale mant base (a : Int)).1 (scale mant base (a : Int)).2).2 = k by
        rw [convert_main neg mant base _ hz hh ht, hfin]
      rw [scale_pos_eq]
      simp only
      obtain ⟨hi', hv⟩ := scalePos_facts mant base a hb1 hb hi
      rw [← hv] at hc
      by_cases hd : (scalePos mant base a).digits = []
      · have hp : extractParts (scalePos mant base a) 0 = ((scalePos mant base a).val, 0) := by
          simp only [extractParts, hd, List.reverse_nil]
          rw [BigNat.val, hd]; simp [digitsVal]
        rw [hp]
        simp only
        have hV0 : (scalePos mant base a).val ≠ 0 := by
          rw [hv]; exact Nat.ne_of_gt (Nat.mul_pos hM (hbpos a))
        have hV53 : (scalePos mant base a).val < 2 ^ 53 := by
          have : (scalePos mant base a).val = (scalePos mant base a).first := by
            rw [BigNat.val, hd]; simp [digitsVal]
          rw [this]
          exact lt_trans hi'.first_lt (by decide)
        generalize (scalePos mant base a).val = V at *
        -- the integer V as a normalised significand: t' = V·2^(53−L), e' = −(53−L)
        have hd2 := ldexp_exact_int V hV0 hV53
        have hl := bitLen_le_53 V hV53
        obtain ⟨hblo, hbhi, hbpos'⟩ := bitLen_bounds V hV0
        have e52 : 2 ^ (bitLen V - 1) * 2 ^ (53 - bitLen V) = 2 ^ 52 := by
          rw [← pow_add, show bitLen V - 1 + (53 - bitLen V) = 52 by omega]
        have e53 : 2 ^ bitLen V * 2 ^ (53 - bitLen V) = 2 ^ 53 := by
          rw [← pow_add, show bitLen V + (53 - bitLen V) = 53 by omega]
        have m1 : 2 ^ 52 ≤ V * 2 ^ (53 - bitLen V) := by rw [← e52]; exact Nat.mul_le_mul_right _ hblo
        have m2 : V * 2 ^ (53 - bitLen V) < 2 ^ 53 := by
          rw [← e53]; exact Nat.mul_lt_mul_of_pos_right hbhi (Nat.two_pow_pos _)
        have hd3 := ldexp_exact_normal (V * 2 ^ (53 - bitLen V)) (-((53 - bitLen V : Nat) : Int)) m1 m2 (by omega) (by omega)
        have heq : ldexpBits V 0 = ldexpBits (V * 2 ^ (53 - bitLen V)) (-((53 - bitLen V : Nat) : Int)) := by
          have b1 : ldexpBits V 0 < 2 ^ 63 := lt_of_le_of_lt (ldexpBits_le V 0) infBits_lt
          have b2 : ldexpBits (V * 2 ^ (53 - bitLen V)) (-((53 - bitLen V : Nat) : Int)) < 2 ^ 63 :=
            lt_of_le_of_lt (ldexpBits_le _ _) infBits_lt
          exact decodeBits_inj (ldexpBits V 0) (ldexpBits (V * 2 ^ (53 - bitLen V)) (-((53 - bitLen V : Nat) : Int))) b1 b2
            (by rw [hd2, hd3])
        rw [heq]
        have hmg : (2 ^ 54 - 1) * 1 ≤ 4 * (V * 2 ^ (53 - bitLen V)) := by
          have p52 : (2 : Nat) ^ 52 = 4503599627370496 := by norm_num
          have c54 : (2 : Nat) ^ 54 - 1 = 18014398509481983 := by norm_num
          rw [p52] at m1; rw [c54]; omega
        have hnear : NearestUpN (V * 2 ^ (53 - bitLen V)) (V * 2 ^ (53 - bitLen V)) 1 := by
          unfold NearestUpN; constructor <;> omega
        refine finish_roundtrip (V * 2 ^ (53 - bitLen V)) (-((53 - bitLen V : Nat) : Int)) (V * 2 ^ (53 - bitLen V)) 1 k
          Nat.one_pos m1 m2 hnear hmg hk0 hk ?_
        refine hc.congr Nat.one_pos ?_
        have hx1 : (-((53 - bitLen V : Nat) : Int) + 1074).toNat = 1074 - (53 - bitLen V) := by omega
        have hx2 : (-1074 - -((53 - bitLen V : Nat) : Int)).toNat = 0 := by omega
        rw [hx1, hx2, pow_zero, Nat.mul_one, Nat.mul_one, Nat.mul_one, Nat.mul_assoc, ← pow_add,
          show 53 - bitLen V + (1074 - (53 - bitLen V)) = 1074 by omega]
      · obtain ⟨G, he, _, hNr, hMg, hlo, hhi⟩ := extract_faithful_pos_core _ hi' hd
        apply finish_roundtrip _ _ _ _ k (Nat.two_pow_pos G) hlo hhi hNr hMg hk0 hk
        refine hc.congr Nat.one_pos ?_
        have hx1 : ((extractParts (scalePos mant base a) 0).2 + 1074).toNat = G + 1043 := by omega
        have hx2 : (-1074 - (extractParts (scalePos mant base a) 0).2).toNat = 0 := by omega
        rw [hx1, hx2, pow_zero, Nat.mul_one, Nat.mul_one]
        have e1 : (2 : Nat) ^ 1074 = 2 ^ 31 * 2 ^ 1043 := pow_add 2 31 1043
        rw [e1, pow_add]
        generalize (2 : Nat) ^ 1043 = P
        generalize (2 : Nat) ^ G = Gg
        generalize (2 : Nat) ^ 31 = Q
        ring

/-! ### `janet_scan_number_base` -/

theorem close17_pos {N D X : Nat} (h : Close17 N D X) (hX : 0 < X) (hD : 0 < D) : 0 < N := by
  obtain ⟨_, h2⟩ := h
  have k2 : 2 * 10 ^ 16 = 20000000000000000 := by norm_num
  have k3 : 2 * 10 ^ 16 + 1 = 20000000000000001 := by norm_num
  rw [k3, k2] at h2
  have : 0 < X * D := Nat.mul_pos hX hD
  generalize X * D = Q at *
  omega

/-- a value of at most half an ulp is not `Close17` to a non-zero double -/
theorem close17_not_tiny {N D X : Nat} (h : Close17 N D X) (hX : 0 < X) (hD : 0 < D) (ht : 2 * N ≤ D) : False := by
  obtain ⟨_, h2⟩ := h
  have k2 : 2 * 10 ^ 16 = 20000000000000000 := by norm_num
  have k3 : 2 * 10 ^ 16 + 1 = 20000000000000001 := by norm_num
  rw [k3, k2] at h2
  have : 1 * D ≤ X * D := Nat.mul_le_mul_right _ hX
  generalize X * D = Q at *
  omega

/-- a value of at least 2^1024 is not `Close17` to a finite double -/
theorem close17_not_huge {N D : Nat} (k : Nat) (hk : k < infBits) (h : Close17 N D (ulps k)) (hD : 0 < D)
    (hbig : 2 ^ 52 * 2 ^ 2046 * D ≤ N) : False := by
  obtain ⟨h1, _⟩ := h
  have k1 : 2 * 10 ^ 16 - 1 = 19999999999999999 := by norm_num
  have k2 : 2 * 10 ^ 16 = 20000000000000000 := by norm_num
  rw [k1, k2] at h1
  have hXle := ulps_finite_le k hk
  have p53 : (2 : Nat) ^ 53 = 9007199254740992 := by norm_num
  have c53 : (2 : Nat) ^ 53 - 1 = 9007199254740991 := by norm_num
  have e2098 : (2 : Nat) ^ 52 * 2 ^ 2046 = 2 ^ 53 * 2 ^ 2045 := by rw [← pow_add, ← pow_add]
  rw [e2098, p53] at hbig
  rw [c53] at hXle
  have hXD : ulps k * D ≤ 9007199254740991 * (2 ^ 2045 * D) := by
    calc ulps k * D ≤ 9007199254740991 * 2 ^ 2045 * D := Nat.mul_le_mul_right _ hXle
      _ = 9007199254740991 * (2 ^ 2045 * D) := by ring
  have hbig' : 9007199254740992 * (2 ^ 2045 * D) ≤ N := by
    calc 9007199254740992 * (2 ^ 2045 * D) = 9007199254740992 * 2 ^ 2045 * D := by ring
      _ ≤ N := hbig
  have hPD : 0 < 2 ^ 2045 * D := Nat.mul_pos (Nat.two_pow_pos _) hD
  generalize 2 ^ 2045 * D = PD at *
  generalize ulps k * D = QD at *
  omega

/-- ★★ the READING half of the round trip, end to end: whenever the value DENOTED by an accepted text (`denote`, the
    grammar-level spec) is within half a unit in the 17th significant digit of a finite non-zero double `k`, the scanner
    returns exactly that double with the text's sign. -/
theorem scan_roundtrip (str : List Nat) (base0 : Nat) (hb : base0 ≤ 36)
    (hL : ∀ b, 2 ≤ b → b ≤ 36 → Log2Within1Ulp b) (hsafe : ClampSafe str.length)
    (bits : Nat) (h : scanNumberBase str base0 = some bits) (k : Nat) (hk0 : 0 < k) (hk : k < infBits)
    (hc : Close17 ((denote str base0).M * (denote str base0).b ^ (denote str base0).E.toNat * 2 ^ 1074)
        ((denote str base0).b ^ (-(denote str base0).E).toNat) (ulps k)) :
    bits = withSign (denote str base0).neg k := by
  have hXpos := ulps_pos k hk0 hk
  unfold scanNumberBase at h
  cases hp : parseNumber str base0 with
  | none => rw [hp] at h; simp at h
  | some p =>
    rw [hp] at h
    simp at h
    subst h
    unfold parseNumber at hp
    split at hp
    · simp at hp
    rename_i neg b s2 hh
    obtain ⟨hb1, hb36⟩ := numHeader_base str base0 hb neg b s2 hh
    obtain ⟨hden, hlen, hs2⟩ := numHeader_spec str base0 neg b s2 hh
    have hsat : SatOK := by
      rcases hsafe with ⟨h0, _⟩ | ⟨h1, _, h3⟩
      · exact Or.inl h0
      · exact Or.inr ⟨h1, h3⟩
    obtain ⟨hneg, hbase, hM, hinv, hp1, hp36, K, cF, Y, X, eneg, hpex, hlE, hcF, hK, hMK, hYK, hrel⟩ :=
      parseBody_spec neg b s2 p hb1 hb36 (le_trans hs2 hlen) hsat hp
    rw [hden] at hc ⊢
    generalize denoteBody neg b s2 = l at *
    have hex31 : p.ex.natAbs < 2 ^ 31 := by
      have p31 : (2 : Nat) ^ 31 = 2147483648 := by norm_num
      rw [p31] at hYK ⊢
      cases eneg <;> simp at hpex <;> omega
    rw [← hneg]
    rw [← hbase, ← hM] at hc hMK
    have hbpos : ∀ n, 0 < p.base ^ n := fun n => Nat.pow_pos (by omega)
    by_cases hb2 : 2 ≤ p.base
    · rcases hrel with hYX | ⟨hX, hY1, hY2⟩
      · have : p.ex = l.E := by rw [hpex, hlE, hYX]
        rw [← this] at hc
        exact convert_roundtrip p.neg p.mant p.base p.ex hinv hb2 hp36 hex31 (hL _ hb2 hp36) k hk0 hk hc
      · exfalso
        by_cases hM0 : p.mant.val = 0
        · rw [hM0] at hc
          have := close17_pos hc hXpos (hbpos _)
          simp at this
        have hM1 : 1 ≤ p.mant.val := by omega
        have hX' := hX hb2
        cases eneg
        · simp only [Bool.false_eq_true, if_false] at hlE
          rw [hlE] at hc
          apply close17_not_huge k hk hc (hbpos _)
          have e1 : (-((X : Int) - (cF : Int))).toNat = 0 := by omega
          obtain ⟨n, hn⟩ : ∃ n : Nat, ((X : Int) - (cF : Int)).toNat = 1024 + n := ⟨X - cF - 1024, by omega⟩
          have hT : (2 : Nat) ^ 52 * 2 ^ 2046 = 2 ^ 1024 * 2 ^ 1074 := by rw [← pow_add, ← pow_add]
          rw [e1, hn, pow_zero, Nat.mul_one, hT]
          apply Nat.mul_le_mul_right
          calc 2 ^ 1024 ≤ 2 ^ (1024 + n) := Nat.pow_le_pow_right (by decide) (by omega)
            _ ≤ p.base ^ (1024 + n) := two_pow_le_base_pow _ _ hb2
            _ = 1 * p.base ^ (1024 + n) := (Nat.one_mul _).symm
            _ ≤ p.mant.val * p.base ^ (1024 + n) := Nat.mul_le_mul_right _ hM1
        · simp only [if_true] at hlE
          rw [hlE] at hc
          apply close17_not_tiny hc hXpos (hbpos _)
          have e1 : (-(X : Int) - (cF : Int)).toNat = 0 := by omega
          obtain ⟨n, hn⟩ : ∃ n : Nat, (-(-(X : Int) - (cF : Int))).toNat = K + 1074 + 1 + n := ⟨X + cF - K - 1075, by omega⟩
          rw [e1, hn, pow_zero, Nat.mul_one]
          calc 2 * (p.mant.val * 2 ^ 1074) = p.mant.val * 2 ^ 1074 * 2 := by ring
            _ ≤ p.base ^ K * 2 ^ 1074 * 2 := Nat.mul_le_mul_right _ (Nat.mul_le_mul_right _ (Nat.le_of_lt hMK))
            _ ≤ p.base ^ K * p.base ^ 1074 * p.base :=
                Nat.mul_le_mul (Nat.mul_le_mul_left _ (two_pow_le_base_pow _ _ hb2)) hb2
            _ = p.base ^ (K + 1074 + 1) * 1 := by rw [pow_add, pow_add, pow_one, Nat.mul_one]
            _ ≤ p.base ^ (K + 1074 + 1) * p.base ^ n := Nat.mul_le_mul_left _ (hbpos n)
            _ = p.base ^ (K + 1074 + 1 + n) := by rw [← pow_add]
    · exfalso
      have hb1' : p.base = 1 := by omega
      have hM0 : p.mant.val = 0 := by
        rw [hb1', Nat.one_pow] at hMK; omega
      rw [hM0] at hc
      have := close17_pos hc hXpos (hbpos _)
      simp at this

/-! ### from "half a unit in the 17th significant digit" to `Close17` -/

/-- The value `N/D` is the 17-significant-digit decimal `d·u` (`d ≥ 10^16` its digits read as an integer, `u = P/Q` the unit
    of its last digit) and lies within half such a unit of `X`  ⇒  `Close17 N D X`.  (2^53 < 10^16 is what makes 17 digits
    enough; it is used in `finish_roundtrip`.) -/
theorem close17_of_half_unit (N D X d P Q : Nat) (hd : 10 ^ 16 ≤ d) (hQ : 0 < Q) (hval : N * Q = d * P * D)
    (h1 : 2 * N * Q ≤ 2 * (X * D) * Q + P * D) (h2 : 2 * (X * D) * Q ≤ 2 * N * Q + P * D) : Close17 N D X := by
  have k1 : 2 * 10 ^ 16 - 1 = 19999999999999999 := by norm_num
  have k2 : 2 * 10 ^ 16 = 20000000000000000 := by norm_num
  have k3 : 2 * 10 ^ 16 + 1 = 20000000000000001 := by norm_num
  have p16 : (10 : Nat) ^ 16 = 10000000000000000 := by norm_num
  rw [p16] at hd
  have hdP : 10000000000000000 * (P * D) ≤ N * Q := by
    rw [hval]
    calc 10000000000000000 * (P * D) ≤ d * (P * D) := Nat.mul_le_mul_right _ hd
      _ = d * P * D := by ring
  unfold Close17
  rw [k1, k3, k2]
  have e1 : 2 * N * Q = 2 * (N * Q) := by ring
  have e2 : 2 * (X * D) * Q = 2 * (X * D * Q) := by ring
  rw [e1, e2] at h1 h2
  constructor
  · apply Nat.le_of_mul_le_mul_right _ hQ
    have e3 : 19999999999999999 * N * Q = 19999999999999999 * (N * Q) := by ring
    have e4 : 20000000000000000 * (X * D) * Q = 20000000000000000 * (X * D * Q) := by ring
    rw [e3, e4]
    generalize N * Q = NQ at *
    generalize X * D * Q = XQ at *
    generalize P * D = PD at *
    omega
  · apply Nat.le_of_mul_le_mul_right _ hQ
    have e3 : 20000000000000001 * N * Q = 20000000000000001 * (N * Q) := by ring
    have e4 : 20000000000000000 * (X * D) * Q = 20000000000000000 * (X * D * Q) := by ring
    rw [e3, e4]
    generalize N * Q = NQ at *
    generalize X * D * Q = XQ at *
    generalize P * D = PD at *
    omega

/-- a text denoting 0 reads as ±0 (the round trip of "0" / "-0") -/
theorem adjacent_zero_value (mag D : Nat) (h : Adjacent mag 0 D) : mag = 0 := by
  obtain ⟨hle, hb, _⟩ := h
  by_contra hne
  have hpos : 0 < ulps mag := by
    rcases Nat.lt_or_ge mag infBits with c | c
    · exact ulps_pos mag (Nat.pos_of_ne_zero hne) c
    · have : mag = infBits := Nat.le_antisymm hle c
      rw [this, ulps_inf]; exact Nat.mul_pos (Nat.two_pow_pos _) (Nat.two_pow_pos _)
  have h0 : ulps 0 = 0 := ulps_small 0 (Nat.zero_le _)
  have := hb 0 (Nat.zero_le _) (by rw [h0]; exact hpos)
  omega

end JanetModel.Strtod
