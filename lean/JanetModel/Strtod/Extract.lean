/- C13: `bignat_extract` — the 54-bit window, the rounding step and renormalisation give a faithful rounding. -/
import JanetModel.Strtod.Lemmas

namespace JanetModel.Strtod
open JanetModel.Gen.Strtod

/-- `t` is the floor of `N/D`, or — only when `N/D` is not an integer — its ceiling -/
def FaithfulN (t N D : Nat) : Prop := t = N / D ∨ (t = N / D + 1 ∧ N % D ≠ 0)

/-- ★ exact when representable on the grid -/
theorem FaithfulN.exact {t N D : Nat} (h : FaithfulN t N D) (hx : N % D = 0) : t * D = N := by
  rcases h with h | ⟨_, h⟩
  · rw [h]; exact Nat.div_mul_cancel (Nat.dvd_of_mod_eq_zero hx)
  · exact absurd hx h

/-- never off by a whole grid step: |t·D − N| < D -/
theorem FaithfulN.within {t N D : Nat} (hD : 0 < D) (h : FaithfulN t N D) : t * D < N + D ∧ N < t * D + D := by
  have h1 := Nat.div_add_mod N D
  have h2 := Nat.mod_lt N hD
  rcases h with h | ⟨h, hne⟩
  · subst h
    constructor
    · have : N / D * D = D * (N / D) := Nat.mul_comm _ _
      omega
    · have : N / D * D = D * (N / D) := Nat.mul_comm _ _
      omega
  · subst h
    have e : (N / D + 1) * D = D * (N / D) + D := by ring
    constructor <;> omega

/-- the rounding step `if (top & 1) top++; top >>= 1` on the floor `t2 = ⌊N/D1⌋` is a faithful rounding of `N/(2·D1)` -/
theorem round_step_faithful (N D1 : Nat) (hD : 0 < D1) :
    FaithfulN ((N / D1 + 1) / 2) N (2 * D1) := by
  have hdd : N / (2 * D1) = N / D1 / 2 := by rw [Nat.mul_comm, Nat.div_div_eq_div_mul]
  unfold FaithfulN
  rw [hdd]
  by_cases hev : N / D1 % 2 = 0
  · left; omega
  · right
    refine ⟨by omega, ?_⟩
    intro hz
    have hdvd : 2 * D1 ∣ N := Nat.dvd_of_mod_eq_zero hz
    obtain ⟨k, hk⟩ := hdvd
    have : N / D1 = 2 * k := by
      rw [hk, Nat.mul_comm 2 D1, Nat.mul_assoc, Nat.mul_div_cancel_left _ hD]
    omega

/-- renormalisation `top >>= 1; exponent2++` of an even value keeps faithfulness on the twice coarser grid -/
theorem faithful_halve {t N D : Nat} (hev : t % 2 = 0) (h : FaithfulN t N D) : FaithfulN (t / 2) N (2 * D) := by
  have hdd : N / (2 * D) = N / D / 2 := by rw [Nat.mul_comm, Nat.div_div_eq_div_mul]
  unfold FaithfulN at *
  rw [hdd]
  rcases h with h | ⟨h, hne⟩
  · left; rw [h]
  · right
    refine ⟨by omega, ?_⟩
    intro hz
    obtain ⟨k, hk⟩ := Nat.dvd_of_mod_eq_zero hz
    apply hne
    rw [hk]
    have : 2 * D * k = D * (2 * k) := by ring
    rw [this]; exact Nat.mul_mod_right _ _

/-- `t` is `N/D` rounded to the nearest integer, exact ties going up: t·D ≤ N + D/2 and N < t·D + D/2 -/
def NearestUpN (t N D : Nat) : Prop := 2 * t * D ≤ 2 * N + D ∧ 2 * N < 2 * t * D + D

/-- the rounding step decides on the parity of the floor `⌊N/D1⌋` only, and that is exactly round-to-nearest (ties up)
    of `N/(2·D1)`: the bits below the 54-bit window never matter -/
theorem round_step_nearest (N D1 : Nat) (hD : 0 < D1) : NearestUpN ((N / D1 + 1) / 2) N (2 * D1) := by
  have h1 : N / D1 * D1 ≤ N := Nat.div_mul_le_self N D1
  have h2 : N < (N / D1 + 1) * D1 := by
    have := Nat.lt_succ_iff.2 (le_refl (N / D1))
    exact (Nat.div_lt_iff_lt_mul hD).1 this
  generalize N / D1 = t2 at *
  unfold NearestUpN
  rcases Nat.even_or_odd' t2 with ⟨k, hk | hk⟩
  · have e : (t2 + 1) / 2 = k := by omega
    rw [e]; subst hk
    constructor <;> nlinarith
  · have e : (t2 + 1) / 2 = k + 1 := by omega
    rw [e]; subst hk
    constructor <;> nlinarith

theorem nearest_halve {t N D : Nat} (hev : t % 2 = 0) (h : NearestUpN t N D) : NearestUpN (t / 2) N (2 * D) := by
  obtain ⟨k, hk⟩ : ∃ k, t = 2 * k := ⟨t / 2, by omega⟩
  subst hk
  have e : 2 * k / 2 = k := by omega
  rw [e]
  unfold NearestUpN at *
  constructor <;> nlinarith [h.1, h.2]

/-- nearest implies faithful-with-ties: if the exact value is within half a grid step of a grid point `T`, the result is `T` -/
theorem NearestUpN.unique {t N D T : Nat} (hD : 0 < D) (h : NearestUpN t N D)
    (hlo : 2 * T * D < 2 * N + D) (hhi : 2 * N < 2 * T * D + D) : t = T := by
  unfold NearestUpN at h
  by_contra hne
  rcases Nat.lt_or_gt_of_ne hne with hlt | hgt
  · have : t + 1 ≤ T := hlt
    have : 2 * (t + 1) * D ≤ 2 * T * D := Nat.mul_le_mul_right _ (Nat.mul_le_mul_left _ this)
    nlinarith [h.2]
  · have : T + 1 ≤ t := hgt
    have : 2 * (T + 1) * D ≤ 2 * t * D := Nat.mul_le_mul_right _ (Nat.mul_le_mul_left _ this)
    nlinarith [h.1]

/-! ### the 54-bit window -/

theorem bitLen_bounds (d : Nat) (hd : d ≠ 0) : 2 ^ (bitLen d - 1) ≤ d ∧ d < 2 ^ bitLen d ∧ 1 ≤ bitLen d := by
  unfold bitLen
  rw [if_neg hd]
  exact ⟨by simpa using Nat.log2_self_le hd, Nat.lt_log2_self, by omega⟩

theorem bitLen_le_31 (d : Nat) (hd : d < bigBase) : bitLen d ≤ 31 := by
  by_cases h0 : d = 0
  · simp [bitLen, h0]
  · have := (bitLen_bounds d h0).1
    by_contra hc
    have h31 : 31 ≤ bitLen d - 1 := by omega
    have : 2 ^ 31 ≤ 2 ^ (bitLen d - 1) := Nat.pow_le_pow_right (by decide) h31
    simp only [bigBase] at hd
    omega

/-- the three most significant digits as one number -/
def win (d1 d2 d3 : Nat) : Nat := d1 * 2 ^ 62 + d2 * 2 ^ 31 + d3

/-- the bit manipulation of `bignat_extract` computes the top 54 bits of the 3-digit window -/
theorem window_top54 (d1 d2 d3 : Nat) (h1 : d1 ≠ 0) (h1b : d1 < bigBase) (h2 : d2 < bigBase) (h3 : d3 < bigBase) :
    (((d2 <<< (window - nbit)) + (d3 >>> (2 * nbit - window))) >>> bitLen d1) ||| (d1 <<< (window - bitLen d1))
      = win d1 d2 d3 / 2 ^ (bitLen d1 + 8) := by
  obtain ⟨hlo, hhi, hpos⟩ := bitLen_bounds d1 h1
  have h31 := bitLen_le_31 d1 h1b
  generalize bitLen d1 = nb at *
  have ew : window - nbit = 23 := by decide
  have e8 : 2 * nbit - window = 8 := by decide
  have ewin : window = 54 := by decide
  rw [ew, e8, ewin]
  simp only [Nat.shiftLeft_eq, Nat.shiftRight_eq_div_pow, bigBase] at *
  set t0 := d2 * 2 ^ 23 + d3 / 2 ^ 8 with ht0
  have ht0lt : t0 < 2 ^ 54 := by
    have : d3 / 2 ^ 8 < 2 ^ 23 := by omega
    omega
  have hsplit : (2 : Nat) ^ 54 = 2 ^ (54 - nb) * 2 ^ nb := by rw [← pow_add]; congr 1; omega
  have ht1 : t0 / 2 ^ nb < 2 ^ (54 - nb) := by
    rw [Nat.div_lt_iff_lt_mul (Nat.pow_pos (by decide))]; rw [← hsplit]; exact ht0lt
  have hor := Nat.shiftLeft_add_eq_or_of_lt ht1 d1
  rw [Nat.shiftLeft_eq] at hor
  rw [Nat.or_comm, ← hor]
  -- right-hand side
  unfold win
  have hw8 : (d1 * 2 ^ 62 + d2 * 2 ^ 31 + d3) / 2 ^ 8 = d1 * 2 ^ 54 + t0 := by
    rw [ht0]; omega
  rw [Nat.add_comm nb 8, pow_add, ← Nat.div_div_eq_div_mul, hw8, hsplit]
  have hdiv := Nat.add_mul_div_right t0 (d1 * 2 ^ (54 - nb)) (Nat.pow_pos (by decide : 0 < 2) : 0 < 2 ^ nb)
  rw [← Nat.mul_assoc, Nat.add_comm (d1 * 2 ^ (54 - nb) * 2 ^ nb) t0, hdiv, Nat.add_comm]

theorem top54_range (d1 d2 d3 : Nat) (h1 : d1 ≠ 0) (h2 : d2 < bigBase) (h3 : d3 < bigBase) :
    2 ^ 53 ≤ win d1 d2 d3 / 2 ^ (bitLen d1 + 8) ∧ win d1 d2 d3 / 2 ^ (bitLen d1 + 8) < 2 ^ 54 := by
  obtain ⟨hlo, hhi, hpos⟩ := bitLen_bounds d1 h1
  generalize bitLen d1 = nb at *
  have hp : 0 < 2 ^ (nb + 8) := Nat.two_pow_pos _
  have e1 : 2 ^ 53 * 2 ^ (nb + 8) = 2 ^ (nb - 1) * 2 ^ 62 := by rw [← pow_add, ← pow_add]; congr 1; omega
  have e2 : 2 ^ 54 * 2 ^ (nb + 8) = 2 ^ nb * 2 ^ 62 := by rw [← pow_add, ← pow_add]; congr 1; omega
  have hw : win d1 d2 d3 = d1 * 2 ^ 62 + d2 * 2 ^ 31 + d3 := rfl
  have m1 := Nat.mul_le_mul_right (2 ^ 62) hlo
  have m2 : (d1 + 1) * 2 ^ 62 ≤ 2 ^ nb * 2 ^ 62 := Nat.mul_le_mul_right _ hhi
  have h2' : d2 < 2147483648 := h2
  have h3' : d3 < 2147483648 := h3
  have p62 : (2 : Nat) ^ 62 = 4611686018427387904 := by norm_num
  have p31 : (2 : Nat) ^ 31 = 2147483648 := by norm_num
  rw [p62] at m1 m2
  constructor
  · apply (Nat.le_div_iff_mul_le hp).2
    rw [e1, hw, p62, p31]
    clear e1 e2 hp p62 p31 hhi hlo m2
    generalize 2 ^ (nb - 1) = p at *
    linarith
  · apply (Nat.div_lt_iff_lt_mul hp).2
    rw [e2, hw, p62, p31]
    clear e1 e2 hp p62 p31 hhi hlo m1
    generalize 2 ^ nb = q at *
    nlinarith

/-! ### `extractParts` in terms of the window -/

def sel2 (first : Nat) (below : List Nat) : Nat :=
  match below with
  | [] => first
  | b :: _ => b

def sel3 (first : Nat) (below : List Nat) : Nat :=
  match below with
  | [] => 0
  | [_] => first
  | _ :: c :: _ => c

/-- the pair returned by `extractParts` when there is at least one array digit -/
theorem extractParts_eq (x : BigNat) (e2 : Int) (d1 : Nat) (below : List Nat) (hrev : x.digits.reverse = d1 :: below) :
    extractParts x e2 =
      (let t2 := (((sel2 x.first below <<< (window - nbit)) + (sel3 x.first below >>> (2 * nbit - window))) >>> bitLen d1)
                  ||| (d1 <<< (window - bitLen d1))
       let t4 := (if t2 % 2 = 1 then t2 + 1 else t2) >>> 1
       let r := if t4 > mantMax then (t4 >>> 1, e2 + 1) else (t4, e2)
       (r.1, r.2 + ((bitLen d1 : Int) - mantBits) + nbit * x.digits.length)) := by
  unfold extractParts
  rw [hrev]
  cases below with
  | nil => rfl
  | cons b r => cases r <;> rfl

theorem round_if_eq (t2 : Nat) : (if t2 % 2 = 1 then t2 + 1 else t2) >>> 1 = (t2 + 1) / 2 := by
  rw [Nat.shiftRight_eq_div_pow]
  split <;> omega

/-- ★ core of `extract_faithful`: for any quantity `N/D1` whose floor is the 54-bit window, the pair produced is a
    faithful rounding with a 53-bit normalised significand; `k` records the renormalisation. -/
theorem extractParts_spec (x : BigNat) (e2 : Int) (d1 : Nat) (below : List Nat) (hrev : x.digits.reverse = d1 :: below)
    (h1 : d1 ≠ 0) (h1b : d1 < bigBase) (h2 : sel2 x.first below < bigBase) (h3 : sel3 x.first below < bigBase) :
    ∃ k : Nat, k ≤ 1 ∧
      (extractParts x e2).2 = e2 + (bitLen d1 : Int) - 53 + 31 * (x.digits.length : Int) + k ∧
      2 ^ 52 ≤ (extractParts x e2).1 ∧ (extractParts x e2).1 < 2 ^ 53 ∧
      ∀ N D1 : Nat, 0 < D1 → win d1 (sel2 x.first below) (sel3 x.first below) / 2 ^ (bitLen d1 + 8) = N / D1 →
        FaithfulN (extractParts x e2).1 N (2 * D1 * 2 ^ k) ∧ NearestUpN (extractParts x e2).1 N (2 * D1 * 2 ^ k) ∧
        (2 ^ 54 - 1) * (2 * D1 * 2 ^ k) ≤ 4 * N := by
  rw [extractParts_eq x e2 d1 below hrev]
  simp only
  rw [window_top54 d1 _ _ h1 h1b h2 h3, round_if_eq]
  obtain ⟨hlo, hhi⟩ := top54_range d1 _ _ h1 h2 h3
  generalize win d1 (sel2 x.first below) (sel3 x.first below) / 2 ^ (bitLen d1 + 8) = t2 at *
  have hmm : mantMax = 2 ^ 53 - 1 := by decide
  have hmb : ((mantBits : Nat) : Int) = 53 := by decide
  have hnb : ((nbit : Nat) : Int) = 31 := by decide
  have p53 : (2 : Nat) ^ 53 = 9007199254740992 := by norm_num
  have p54 : (2 : Nat) ^ 54 = 18014398509481984 := by norm_num
  have p52 : (2 : Nat) ^ 52 = 4503599627370496 := by norm_num
  by_cases hov : (t2 + 1) / 2 > mantMax
  · refine ⟨1, le_refl _, ?_, ?_, ?_, ?_⟩
    · rw [if_pos hov]; simp only [hmb, hnb]; push_cast; ring
    · rw [if_pos hov, Nat.shiftRight_eq_div_pow]; simp only [hmm] at hov; omega
    · rw [if_pos hov, Nat.shiftRight_eq_div_pow]; omega
    · intro N D1 hD ht
      rw [if_pos hov, Nat.shiftRight_eq_div_pow]
      have hf := round_step_faithful N D1 hD
      have hn := round_step_nearest N D1 hD
      rw [← ht] at hf hn
      have hev : (t2 + 1) / 2 % 2 = 0 := by simp only [hmm] at hov; omega
      have e : 2 * D1 * 2 ^ 1 = 2 * (2 * D1) := by ring
      rw [e]
      refine ⟨faithful_halve hev hf, nearest_halve hev hn, ?_⟩
      have ht2 : 2 ^ 54 - 1 ≤ t2 := by simp only [hmm] at hov; omega
      rw [ht] at ht2
      have := (Nat.le_div_iff_mul_le hD).1 ht2
      nlinarith
  · refine ⟨0, by omega, ?_, ?_, ?_, ?_⟩
    · rw [if_neg hov]; simp only [hmb, hnb]; push_cast; ring
    · rw [if_neg hov]; omega
    · rw [if_neg hov]; simp only [hmm] at hov; omega
    · intro N D1 hD ht
      rw [if_neg hov]
      have hf := round_step_faithful N D1 hD
      have hn := round_step_nearest N D1 hD
      rw [← ht] at hf hn
      have e : 2 * D1 * 2 ^ 0 = 2 * D1 := by ring
      rw [e]
      refine ⟨hf, hn, ?_⟩
      have ht2 : 2 ^ 53 ≤ t2 := hlo
      rw [ht] at ht2
      have := (Nat.le_div_iff_mul_le hD).1 ht2
      have p54' : (2 : Nat) ^ 54 - 1 ≤ 2 * 2 ^ 53 := by norm_num
      nlinarith

/-! ### the window brackets the number held in the array -/

theorem digitsVal_append (a b : List Nat) : digitsVal (a ++ b) = digitsVal a + bigBase ^ a.length * digitsVal b := by
  induction a with
  | nil => simp [digitsVal]
  | cons d r ih => simp only [List.cons_append, digitsVal, ih, List.length_cons, pow_succ]; ring

theorem AllLt_append_left {a b : List Nat} (h : AllLt (a ++ b)) : AllLt a := fun d hd => h d (List.mem_append_left _ hd)

theorem win_eq (d1 b c : Nat) : c + bigBase * (b + bigBase * (d1 + bigBase * 0)) = win d1 b c := by
  unfold win
  have : bigBase = 2 ^ 31 := by decide
  rw [this]; ring

/-- a number whose three most significant base-2^31 digits are d1, b, c lies in [W·B^m, (W+1)·B^m), m = number of
    lower digits -/
theorem top3_bracket (L : List Nat) (d1 b c : Nat) (r : List Nat) (hrev : L.reverse = d1 :: b :: c :: r) (hall : AllLt L) :
    win d1 b c * bigBase ^ r.length ≤ digitsVal L ∧ digitsVal L < (win d1 b c + 1) * bigBase ^ r.length := by
  have hL : L = r.reverse ++ [c, b, d1] := by
    have := congrArg List.reverse hrev
    simpa using this
  rw [hL] at hall ⊢
  have hlow := digitsVal_lt (AllLt_append_left hall)
  rw [digitsVal_append]
  simp only [List.length_reverse] at *
  have hw : digitsVal [c, b, d1] = win d1 b c := by simp only [digitsVal]; exact win_eq d1 b c
  rw [hw]
  constructor
  · rw [Nat.mul_comm]; omega
  · have : (win d1 b c + 1) * bigBase ^ r.length = bigBase ^ r.length * win d1 b c + bigBase ^ r.length := by ring
    rw [this]; omega

/-- positive branch: `val * 2^31` (the array with one zero digit appended below) is bracketed by the window that
    `bignat_extract` selects (`d2`,`d3` fall back to `first_digit` and 0 when the array is short) -/
theorem bracket_pos (x : BigNat) (d1 : Nat) (below : List Nat) (hrev : x.digits.reverse = d1 :: below)
    (hall : AllLt (x.first :: x.digits)) :
    win d1 (sel2 x.first below) (sel3 x.first below) * bigBase ^ (x.digits.length - 1) ≤ x.val * bigBase ∧
    x.val * bigBase < (win d1 (sel2 x.first below) (sel3 x.first below) + 1) * bigBase ^ (x.digits.length - 1) := by
  have hlen : x.digits.length = below.length + 1 := by
    have := congrArg List.length hrev; simpa using this
  have hZ : x.val * bigBase = digitsVal (0 :: x.first :: x.digits) := by
    rw [val_def]; simp only [digitsVal]; ring
  have hall' : AllLt (0 :: x.first :: x.digits) := AllLt_cons.2 ⟨bigBase_pos, hall⟩
  have hrev' : (0 :: x.first :: x.digits).reverse = d1 :: (below ++ [x.first, 0]) := by
    simp [hrev]
  rw [hZ, hlen]
  cases below with
  | nil =>
    have := top3_bracket _ d1 x.first 0 [] (by simpa using hrev') hall'
    simpa [sel2, sel3] using this
  | cons b r =>
    cases r with
    | nil =>
      have := top3_bracket _ d1 b x.first [0] (by simpa using hrev') hall'
      simpa [sel2, sel3] using this
    | cons c r2 =>
      have := top3_bracket _ d1 b c (r2 ++ [x.first, 0]) (by simpa using hrev') hall'
      simpa [sel2, sel3] using this

/-- negative branch (≥ 4 array digits): `upper` (the array without `digits[0]`) is bracketed by the window -/
theorem bracket_neg (x : BigNat) (d1 : Nat) (below : List Nat) (hrev : x.digits.reverse = d1 :: below)
    (hall : AllLt x.digits) (hn : 4 ≤ x.digits.length) :
    win d1 (sel2 x.first below) (sel3 x.first below) * bigBase ^ (x.digits.length - 4) ≤ upper x ∧
    upper x < (win d1 (sel2 x.first below) (sel3 x.first below) + 1) * bigBase ^ (x.digits.length - 4) := by
  have hlen : x.digits.length = below.length + 1 := by
    have := congrArg List.length hrev; simpa using this
  match below, hrev, hlen with
  | b :: c :: r, hrev, hlen =>
    have hb := top3_bracket x.digits d1 b c r hrev hall
    simp only [List.length_cons] at hlen
    obtain ⟨m, hm⟩ : ∃ m, r.length = m + 1 := ⟨r.length - 1, by omega⟩
    have e4 : x.digits.length - 4 = m := by omega
    rw [e4]
    rw [hm, pow_succ, ← Nat.mul_assoc] at hb
    simp only [sel2, sel3]
    unfold upper
    exact ⟨(Nat.le_div_iff_mul_le bigBase_pos).2 hb.1, (Nat.div_lt_iff_lt_mul bigBase_pos).2 (by rw [Nat.mul_assoc]; exact hb.2)⟩
  | [], _, hlen => simp at hlen; omega
  | [_], _, hlen => simp at hlen; omega

/-! ### faithful rounding of the two branches -/

theorem sel_lt (x : BigNat) (d1 : Nat) (below : List Nat) (hrev : x.digits.reverse = d1 :: below)
    (hf : x.first < bigBase) (hall : AllLt x.digits) :
    d1 < bigBase ∧ sel2 x.first below < bigBase ∧ sel3 x.first below < bigBase := by
  have hmem : ∀ d ∈ d1 :: below, d < bigBase := by
    intro d hd
    apply hall d
    have : d ∈ x.digits.reverse := by rw [hrev]; exact hd
    simpa using this
  refine ⟨hmem d1 (by simp), ?_, ?_⟩
  · cases below with
    | nil => exact hf
    | cons b r => exact hmem b (by simp)
  · cases below with
    | nil => exact bigBase_pos
    | cons b r =>
      cases r with
      | nil => exact hf
      | cons c r2 => exact hmem c (by simp)

theorem top_ne_zero (ds : List Nat) (d1 : Nat) (below : List Nat) (hrev : ds.reverse = d1 :: below) (ht : TopNZ ds) : d1 ≠ 0 := by
  have hL : ds = below.reverse ++ [d1] := by
    have := congrArg List.reverse hrev
    simpa using this
  rw [hL, TopNZ_append_singleton] at ht
  exact ht

theorem bigBase_pow (k : Nat) : bigBase ^ k = 2 ^ (31 * k) := by
  have : bigBase = 2 ^ 31 := by decide
  rw [this, ← pow_mul]

/-- ★ integers (non-negative exponent branch): with (t, e) = `extractParts x 0`, `t·2^e` is the floor or the ceiling of
    `val x` on the grid 2^e (stated after scaling both by 2^31 so that the grid exponent `G = e + 31` is a natural
    number), and 2^52 ≤ t < 2^53. -/
theorem extract_faithful_pos_core (x : BigNat) (hi : MantInv x) (hne : x.digits ≠ []) :
    ∃ G : Nat, (extractParts x 0).2 + 31 = (G : Int) ∧
      FaithfulN (extractParts x 0).1 (x.val * 2 ^ 31) (2 ^ G) ∧ NearestUpN (extractParts x 0).1 (x.val * 2 ^ 31) (2 ^ G) ∧
      (2 ^ 54 - 1) * 2 ^ G ≤ 4 * (x.val * 2 ^ 31) ∧
      2 ^ 52 ≤ (extractParts x 0).1 ∧ (extractParts x 0).1 < 2 ^ 53 := by
  cases hr : x.digits.reverse with
  | nil => simp at hr; exact absurd hr hne
  | cons d1 below =>
    obtain ⟨h1b, h2, h3⟩ := sel_lt x d1 below hr hi.first_lt hi.allLt
    have h1 := top_ne_zero _ _ _ hr hi.topnz
    obtain ⟨k, hk, he, hlo, hhi, hf⟩ := extractParts_spec x 0 d1 below hr h1 h1b h2 h3
    have hall : AllLt (x.first :: x.digits) := AllLt_cons.2 ⟨hi.first_lt, hi.allLt⟩
    obtain ⟨b1, b2⟩ := bracket_pos x d1 below hr hall
    have hnpos : 1 ≤ x.digits.length := by
      cases hd : x.digits with
      | nil => exact absurd hd hne
      | cons _ _ => simp
    have hnb := (bitLen_bounds d1 h1).2.2
    set n := x.digits.length with hn
    set W := win d1 (sel2 x.first below) (sel3 x.first below) with hW
    have hBp : 0 < bigBase ^ (n - 1) := Nat.pow_pos bigBase_pos
    have hdiv : x.val * bigBase / bigBase ^ (n - 1) = W := Nat.div_eq_of_lt_le b1 b2
    have h2p : 0 < 2 ^ (bitLen d1 + 8) := Nat.two_pow_pos _
    have hD1 : 0 < bigBase ^ (n - 1) * 2 ^ (bitLen d1 + 8) := Nat.mul_pos hBp h2p
    have ht : W / 2 ^ (bitLen d1 + 8) = x.val * bigBase / (bigBase ^ (n - 1) * 2 ^ (bitLen d1 + 8)) := by
      rw [← Nat.div_div_eq_div_mul, hdiv]
    have hF := hf (x.val * bigBase) _ hD1 ht
    have e : 2 * (bigBase ^ (n - 1) * 2 ^ (bitLen d1 + 8)) * 2 ^ k = 2 ^ (31 * (n - 1) + (bitLen d1 + 8) + 1 + k) := by
      rw [bigBase_pow]; ring
    have e31 : bigBase = 2 ^ 31 := by decide
    rw [e, e31] at hF
    refine ⟨31 * (n - 1) + (bitLen d1 + 8) + 1 + k, ?_, hF.1, hF.2.1, hF.2.2, hlo, hhi⟩
    rw [he]; push_cast; omega

/-- ★ fractions (negative exponent branch): if the part of the array above `digits[0]` is `⌊num/den⌋` (which
    `div_chain_exact` establishes) and the array has at least four digits, then with (t, e) = `extractParts x e2`,
    `t·2^(e − e2 − 62)` is the floor or the ceiling of `num/den` on that grid, and 2^52 ≤ t < 2^53. -/
theorem extract_faithful_neg_core (x : BigNat) (e2 : Int) (num den : Nat) (hden : 0 < den)
    (hf1 : x.first < bigBase) (hall : AllLt x.digits) (htop : TopNZ x.digits) (hn4 : 4 ≤ x.digits.length)
    (hU : upper x = num / den) :
    ∃ G : Nat, (extractParts x e2).2 = e2 + 62 + (G : Int) ∧
      FaithfulN (extractParts x e2).1 num (den * 2 ^ G) ∧ NearestUpN (extractParts x e2).1 num (den * 2 ^ G) ∧
      (2 ^ 54 - 1) * (den * 2 ^ G) ≤ 4 * num ∧
      2 ^ 52 ≤ (extractParts x e2).1 ∧ (extractParts x e2).1 < 2 ^ 53 := by
  cases hr : x.digits.reverse with
  | nil => simp at hr; rw [hr] at hn4; simp at hn4
  | cons d1 below =>
    obtain ⟨h1b, h2, h3⟩ := sel_lt x d1 below hr hf1 hall
    have h1 := top_ne_zero _ _ _ hr htop
    obtain ⟨k, hk, he, hlo, hhi, hf⟩ := extractParts_spec x e2 d1 below hr h1 h1b h2 h3
    obtain ⟨b1, b2⟩ := bracket_neg x d1 below hr hall hn4
    have hnb := (bitLen_bounds d1 h1).2.2
    set n := x.digits.length with hn
    set W := win d1 (sel2 x.first below) (sel3 x.first below) with hW
    have hBp : 0 < bigBase ^ (n - 4) := Nat.pow_pos bigBase_pos
    have hdiv : upper x / bigBase ^ (n - 4) = W := Nat.div_eq_of_lt_le b1 b2
    have h2p : 0 < 2 ^ (bitLen d1 + 8) := Nat.two_pow_pos _
    have hD1 : 0 < den * bigBase ^ (n - 4) * 2 ^ (bitLen d1 + 8) := Nat.mul_pos (Nat.mul_pos hden hBp) h2p
    have ht : W / 2 ^ (bitLen d1 + 8) = num / (den * bigBase ^ (n - 4) * 2 ^ (bitLen d1 + 8)) := by
      rw [← Nat.div_div_eq_div_mul, ← Nat.div_div_eq_div_mul, ← hU, hdiv]
    have hF := hf num _ hD1 ht
    have e : 2 * (den * bigBase ^ (n - 4) * 2 ^ (bitLen d1 + 8)) * 2 ^ k = den * 2 ^ (31 * (n - 4) + (bitLen d1 + 8) + 1 + k) := by
      rw [bigBase_pow]; ring
    rw [e] at hF
    refine ⟨31 * (n - 4) + (bitLen d1 + 8) + 1 + k, ?_, hF.1, hF.2.1, hF.2.2, hlo, hhi⟩
    rw [he]; push_cast; omega

end JanetModel.Strtod
