/- C13: a kernel-checked CERTIFICATE that the regenerated libm table `log2Table` (Gen/Strtod.lean: log2((double) b) as
   computed by the libm in use, b = 2..36) is within one unit in the last place of the true logarithm — i.e. the former
   named assumption `Log2Within1Ulp b` is now a theorem about the table of the current run.

   `Log2Within1Ulp b` says 2^(lm−1) ≤ b^K ≤ 2^(lm+1) with K = 2^50..2^52, far too large to evaluate.  Instead: repeated
   squaring with interval arithmetic on P-bit fixed point numbers.  State (lo, hi, c) with invariant
        lo·2^c ≤ B·2^P ≤ hi·2^c        (lo/2^P ≤ B/2^c ≤ hi/2^P),
   B ↦ B·B is followed by (⌊lo²/2^P⌋, ⌈hi²/2^P⌉, 2c) and one renormalisation.  After j = −le steps B = b^(2^j) = b^K and
   c = ⌊K·log2 b⌋ is compared with lm.  The 35 runs of ≤ 52 steps on 200-bit numbers are evaluated by the kernel. -/
import JanetModel.Strtod.Approx

namespace JanetModel.Strtod
open JanetModel.Gen.Strtod

def certStep (P : Nat) (s : Nat × Nat × Nat) : Nat × Nat × Nat :=
  let lo := s.1 * s.1 / 2 ^ P
  let hi := (s.2.1 * s.2.1 + (2 ^ P - 1)) / 2 ^ P
  let c := 2 * s.2.2
  if 2 ^ (P + 1) ≤ lo then (lo / 2, (hi + 1) / 2, c + 1) else (lo, hi, c)

def certInit (P b : Nat) : Nat × Nat × Nat := (b * 2 ^ (P - Nat.log2 b), b * 2 ^ (P - Nat.log2 b), Nat.log2 b)

def CInv (P B : Nat) (s : Nat × Nat × Nat) : Prop :=
  s.1 * 2 ^ s.2.2 ≤ B * 2 ^ P ∧ B * 2 ^ P ≤ s.2.1 * 2 ^ s.2.2

theorem certInit_inv (P b : Nat) (h : Nat.log2 b ≤ P) : CInv P b (certInit P b) := by
  unfold CInv certInit
  simp only
  have : b * 2 ^ (P - Nat.log2 b) * 2 ^ Nat.log2 b = b * 2 ^ P := by
    rw [Nat.mul_assoc, ← pow_add, Nat.sub_add_cancel h]
  rw [this]
  exact ⟨le_refl _, le_refl _⟩

theorem certStep_inv (P B : Nat) (s : Nat × Nat × Nat) (h : CInv P B s) : CInv P (B * B) (certStep P s) := by
  obtain ⟨lo, hi, c⟩ := s
  obtain ⟨h1, h2⟩ := h
  simp only at h1 h2
  have hQ : 0 < 2 ^ P := Nat.two_pow_pos _
  have e2c : 2 ^ (2 * c) = 2 ^ c * 2 ^ c := by rw [two_mul, pow_add]
  have e2c1 : 2 ^ (2 * c + 1) = 2 * (2 ^ c * 2 ^ c) := by rw [pow_succ, e2c]; ring
  have L : lo * lo / 2 ^ P * 2 ^ (2 * c) ≤ B * B * 2 ^ P := by
    apply Nat.le_of_mul_le_mul_right _ hQ
    have a1 : lo * lo / 2 ^ P * 2 ^ P ≤ lo * lo := Nat.div_mul_le_self _ _
    have a2 : (lo * 2 ^ c) * (lo * 2 ^ c) ≤ (B * 2 ^ P) * (B * 2 ^ P) := Nat.mul_le_mul h1 h1
    rw [e2c]
    generalize 2 ^ P = Q at *
    generalize 2 ^ c = C at *
    calc lo * lo / Q * (C * C) * Q = (lo * lo / Q * Q) * (C * C) := by ring
      _ ≤ lo * lo * (C * C) := Nat.mul_le_mul_right _ a1
      _ = (lo * C) * (lo * C) := by ring
      _ ≤ (B * Q) * (B * Q) := a2
      _ = B * B * Q * Q := by ring
  have U : B * B * 2 ^ P ≤ (hi * hi + (2 ^ P - 1)) / 2 ^ P * 2 ^ (2 * c) := by
    apply Nat.le_of_mul_le_mul_right _ hQ
    have a1 : hi * hi ≤ (hi * hi + (2 ^ P - 1)) / 2 ^ P * 2 ^ P := by
      have d1 := Nat.div_add_mod (hi * hi + (2 ^ P - 1)) (2 ^ P)
      have d2 := Nat.mod_lt (hi * hi + (2 ^ P - 1)) hQ
      rw [Nat.mul_comm] at d1
      generalize (hi * hi + (2 ^ P - 1)) / 2 ^ P * 2 ^ P = X at *
      generalize (hi * hi + (2 ^ P - 1)) % 2 ^ P = R at *
      omega
    have a2 : (B * 2 ^ P) * (B * 2 ^ P) ≤ (hi * 2 ^ c) * (hi * 2 ^ c) := Nat.mul_le_mul h2 h2
    rw [e2c]
    generalize (hi * hi + (2 ^ P - 1)) / 2 ^ P = H' at *
    generalize 2 ^ P = Q at *
    generalize 2 ^ c = C at *
    calc B * B * Q * Q = (B * Q) * (B * Q) := by ring
      _ ≤ (hi * C) * (hi * C) := a2
      _ = hi * hi * (C * C) := by ring
      _ ≤ H' * Q * (C * C) := Nat.mul_le_mul_right _ a1
      _ = H' * (C * C) * Q := by ring
  unfold certStep CInv
  simp only
  split
  · simp only
    rw [e2c1]
    rw [e2c] at L U
    generalize lo * lo / 2 ^ P = lo' at *
    generalize (hi * hi + (2 ^ P - 1)) / 2 ^ P = hi' at *
    generalize 2 ^ c * 2 ^ c = CC at *
    generalize B * B * 2 ^ P = BB at *
    constructor
    · have : lo' / 2 * (2 * CC) ≤ lo' * CC := by
        calc lo' / 2 * (2 * CC) = (lo' / 2 * 2) * CC := by ring
          _ ≤ lo' * CC := Nat.mul_le_mul_right _ (Nat.div_mul_le_self _ _)
      omega
    · have : hi' * CC ≤ (hi' + 1) / 2 * (2 * CC) := by
        have : hi' ≤ (hi' + 1) / 2 * 2 := by omega
        calc hi' * CC ≤ ((hi' + 1) / 2 * 2) * CC := Nat.mul_le_mul_right _ this
          _ = (hi' + 1) / 2 * (2 * CC) := by ring
      omega
  · exact ⟨L, U⟩

theorem certIter_inv (P : Nat) (j : Nat) : ∀ (B : Nat) (s : Nat × Nat × Nat), CInv P B s →
    CInv P (B ^ (2 ^ j)) (iter (certStep P) j s) := by
  induction j with
  | zero => intro B s h; simpa [iter] using h
  | succ j ih =>
    intro B s h
    have := ih (B * B) (certStep P s) (certStep_inv P B s h)
    have e : (B * B) ^ (2 ^ j) = B ^ (2 ^ (j + 1)) := by
      rw [← pow_two, ← pow_mul, pow_succ, Nat.mul_comm]
    rw [e] at this
    exact this

/-- the final comparison: plain `Nat` tests on the certificate state (2^c is never formed) -/
def certOK (P b : Nat) : Bool :=
  let e := log2Entry b
  let f := iter (certStep P) (-e.2).toNat (certInit P b)
  decide (Nat.log2 b ≤ P ∧ 2 ^ P ≤ f.1 ∧ f.2.1 ≤ 2 ^ (P + 1) ∧ e.1 - 1 ≤ f.2.2 ∧ f.2.2 ≤ e.1)

theorem certOK_sound (P b : Nat) (h : certOK P b = true) : Log2Within1Ulp b := by
  unfold certOK at h
  simp only [decide_eq_true_eq] at h
  obtain ⟨hl, hlo, hhi, hc1, hc2⟩ := h
  have hinv := certIter_inv P (-(log2Entry b).2).toNat b _ (certInit_inv P b hl)
  generalize iter (certStep P) (-(log2Entry b).2).toNat (certInit P b) = f at *
  obtain ⟨lo, hi, c⟩ := f
  obtain ⟨i1, i2⟩ := hinv
  simp only at hlo hhi hc1 hc2 i1 i2
  unfold Log2Within1Ulp
  generalize b ^ 2 ^ (-(log2Entry b).2).toNat = B at *
  generalize (log2Entry b).1 = lm at *
  have hQ : 0 < 2 ^ P := Nat.two_pow_pos _
  constructor
  · apply Nat.le_of_mul_le_mul_right _ hQ
    calc 2 ^ (lm - 1) * 2 ^ P ≤ 2 ^ c * lo := Nat.mul_le_mul (Nat.pow_le_pow_right (by decide) hc1) hlo
      _ = lo * 2 ^ c := Nat.mul_comm _ _
      _ ≤ B * 2 ^ P := i1
  · apply Nat.le_of_mul_le_mul_right _ hQ
    calc B * 2 ^ P ≤ hi * 2 ^ c := i2
      _ ≤ 2 ^ (P + 1) * 2 ^ c := Nat.mul_le_mul_right _ hhi
      _ = 2 ^ (c + 1) * 2 ^ P := by rw [pow_succ, pow_succ]; ring
      _ ≤ 2 ^ (lm + 1) * 2 ^ P := Nat.mul_le_mul_right _ (Nat.pow_le_pow_right (by decide) (by omega))

/-- the certificate passes for every radix of the regenerated table (evaluated by the kernel) -/
theorem certOK_all : ∀ b : Fin 37, 2 ≤ b.val → certOK 192 b.val = true := by decide +kernel

/-- ★ the libm values `log2((double) b)`, b = 2..36, recorded for this run are within one ulp of the true logarithms -/
theorem log2_table_within_1ulp (b : Nat) (h2 : 2 ≤ b) (h36 : b ≤ 36) : Log2Within1Ulp b :=
  certOK_sound 192 b (certOK_all ⟨b, by omega⟩ h2)

end JanetModel.Strtod
