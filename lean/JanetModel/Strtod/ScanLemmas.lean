/- C13: lemmas about the literal scanners of Strtod/Model.lean: 64-bit integer scanning is exact-or-rejected with respect
   to an unbounded reference accumulation; the number scanner hands `convert` a well-formed BigNat and a radix in 1..36. -/
import JanetModel.Strtod.Lemmas

namespace JanetModel.Strtod
open JanetModel.Gen.Strtod

/-! ## 64-bit integers -/

/-- reference digit loop: same syntax checks as `scan_uint64`, unbounded accumulation, no overflow test -/
def scanBigDigits (base : Nat) : List Nat → Nat → Bool → Option (Nat × Bool)
  | [], accum, sd => some (accum, sd)
  | c :: rest, accum, sd =>
    if c = 95 then
      if sd then scanBigDigits base rest accum sd else none
    else
      let digit := digitOf c
      if c > 127 ∨ digit ≥ base then none
      else scanBigDigits base rest (accum * base + digit) true

/-- the integer denoted by a literal (any size) and its sign flag: `scan_uint64` without the overflow test -/
def intSpec (str : List Nat) : Option (Nat × Bool) :=
  match intHeader str with
  | none => none
  | some (neg, base, s3, sd) =>
    match scanBigDigits base s3 0 sd with
    | none => none
    | some (v, sd2) => if sd2 then some (v, neg) else none

theorem scanBigDigits_ge (base : Nat) (s : List Nat) (acc : Nat) (sd : Bool) (v : Nat) (sd' : Bool)
    (h : scanBigDigits base s acc sd = some (v, sd')) : acc ≤ v := by
  induction s generalizing acc sd with
  | nil => simp [scanBigDigits] at h; omega
  | cons c rest ih =>
    simp only [scanBigDigits] at h
    by_cases h95 : c = 95
    · rw [if_pos h95] at h
      cases sd with
      | false => simp at h
      | true => simp at h; exact ih _ _ h
    · rw [if_neg h95] at h
      by_cases hbad : c > 127 ∨ digitOf c ≥ base
      · rw [if_pos hbad] at h; simp at h
      · rw [if_neg hbad] at h
        have := ih _ _ h
        have hb : 1 ≤ base := by omega
        have : acc * 1 ≤ acc * base := Nat.mul_le_mul_left _ hb
        omega

theorem guard_iff (accum digit base : Nat) (hb : 0 < base) (hd : digit ≤ u64Max) :
    accum > (u64Max - digit) / base ↔ accum * base + digit > u64Max := by
  show (u64Max - digit) / base < accum ↔ u64Max < accum * base + digit
  rw [Nat.div_lt_iff_lt_mul hb]
  omega

/-- the guarded loop equals the reference loop followed by one range test -/
theorem scanU64Digits_eq (base : Nat) (hbase : base ≤ 36) (s : List Nat) (acc : Nat) (sd : Bool) (hacc : acc ≤ u64Max) :
    scanU64Digits base s acc sd =
      match scanBigDigits base s acc sd with
      | none => none
      | some (v, sd') => if v ≤ u64Max then some (v, sd') else none := by
  induction s generalizing acc sd with
  | nil => simp [scanU64Digits, scanBigDigits, hacc]
  | cons c rest ih =>
    simp only [scanU64Digits, scanBigDigits]
    by_cases h95 : c = 95
    · rw [if_pos h95, if_pos h95]
      cases sd with
      | false => simp
      | true => simp; exact ih _ _ hacc
    · rw [if_neg h95, if_neg h95]
      by_cases hbad : c > 127 ∨ digitOf c ≥ base
      · rw [if_pos hbad, if_pos hbad]
      · rw [if_neg hbad, if_neg hbad]
        have hb : 0 < base := by omega
        have hd : digitOf c ≤ u64Max := by
          have : digitOf c < 36 := by omega
          simp only [u64Max]; omega
        by_cases hov : acc > (u64Max - digitOf c) / base
        · rw [if_pos hov]
          have hov' := (guard_iff acc (digitOf c) base hb hd).1 hov
          cases hr : scanBigDigits base rest (acc * base + digitOf c) true with
          | none => rfl
          | some p =>
            obtain ⟨v, sd'⟩ := p
            have := scanBigDigits_ge _ _ _ _ _ _ hr
            have : ¬ v ≤ u64Max := by omega
            simp [this]
        · rw [if_neg hov]
          have hov' : acc * base + digitOf c ≤ u64Max := by
            by_contra hc
            exact hov ((guard_iff acc (digitOf c) base hb hd).2 (by omega))
          exact ih _ _ hov'

theorem scanIntPrefix_le (s : List Nat) (b : Nat) (r : List Nat) (hp : scanIntPrefix s = some (b, r)) : b ≤ 36 := by
  unfold scanIntPrefix at hp
  split at hp
  · simp at hp; omega
  · split at hp <;> simp at hp <;> omega
  · split at hp
    · simp only at hp
      split at hp
      · simp at hp
      · simp at hp; omega
    · simp at hp; omega
  · simp at hp; omega

theorem intHeader_base_le (str : List Nat) (neg : Bool) (base : Nat) (s3 : List Nat) (sd : Bool)
    (h : intHeader str = some (neg, base, s3, sd)) : base ≤ 36 := by
  unfold intHeader at h
  split at h
  · simp at h
  · split at h
    · simp at h
    · simp only at h
      split at h
      · simp at h
      · rename_i b s2 hp
        simp only [Option.some.injEq, Prod.mk.injEq] at h
        obtain ⟨_, rfl, _, _⟩ := h
        exact scanIntPrefix_le _ _ _ hp

/-- `scan_uint64` = reference scan + range test -/
theorem scanUint64Core_eq (str : List Nat) :
    scanUint64Core str =
      match intSpec str with
      | none => none
      | some (v, neg) => if v ≤ u64Max then some (v, neg) else none := by
  unfold scanUint64Core intSpec
  cases hh : intHeader str with
  | none => rfl
  | some p =>
    obtain ⟨neg, base, s3, sd⟩ := p
    have hb := intHeader_base_le str neg base s3 sd hh
    simp only
    rw [scanU64Digits_eq base hb s3 0 sd (by decide)]
    cases hr : scanBigDigits base s3 0 sd with
    | none => rfl
    | some q =>
      obtain ⟨v, sd2⟩ := q
      simp only
      by_cases hv : v ≤ u64Max
      · simp only [if_pos hv]
        cases sd2 <;> simp [hv]
      · simp only [if_neg hv]
        cases sd2 <;> simp [hv]

/-! ## the number scanner hands `convert` a well-formed mantissa and a radix in 1..36 -/

theorem scanPrefix_le (s : List Nat) (b : Nat) (r : List Nat) (hp : scanPrefix s = some (b, r)) : b ≤ 36 := by
  unfold scanPrefix at hp
  split at hp
  · simp at hp; omega
  · split at hp <;> simp at hp <;> omega
  · split at hp
    · simp only at hp
      split at hp
      · simp at hp
      · simp at hp; omega
    · simp at hp; omega
  · simp at hp; omega

theorem numHeader_base (str : List Nat) (base : Nat) (hbase : base ≤ 36) (neg : Bool) (b : Nat) (s2 : List Nat)
    (h : numHeader str base = some (neg, b, s2)) : 1 ≤ b ∧ b ≤ 36 := by
  unfold numHeader at h
  split at h
  · simp at h
  · split at h
    · simp at h
    · simp only at h
      split at h
      · simp at h
      · rename_i b0 s2' hp
        simp only [Option.some.injEq, Prod.mk.injEq] at h
        obtain ⟨_, rfl, _⟩ := h
        have hb0 : b0 ≤ 36 := by
          by_cases hz : base = 0
          · rw [if_pos hz] at hp; exact scanPrefix_le _ _ _ hp
          · rw [if_neg hz] at hp; simp at hp; omega
        by_cases h0 : b0 = 0
        · simp [h0]
        · simp [h0]; omega

theorem zero_inv : MantInv BigNat.zero := ⟨by decide, AllLt_nil, by simp [BigNat.zero, TopNZ]⟩

theorem skipZeros_keep (s : List Nat) (st : ScanSt) (s' : List Nat) (st' : ScanSt)
    (h : skipZeros s st = some (s', st')) : st'.mant = st.mant ∧ st'.base = st.base := by
  induction s generalizing st with
  | nil => simp [skipZeros] at h; obtain ⟨_, rfl⟩ := h; exact ⟨rfl, rfl⟩
  | cons c rest ih =>
    simp only [skipZeros] at h
    split at h
    · split at h
      · split at h
        · simp at h
        · have := ih _ h
          first | (split at this <;> simpa using this) | simpa using this
      · have := ih _ h
        first | (split at this <;> simpa using this) | simpa using this
    · simp at h; obtain ⟨_, rfl⟩ := h; exact ⟨rfl, rfl⟩

/-- invariant of the digit loop -/
def StInv (st : ScanSt) : Prop := MantInv st.mant ∧ 1 ≤ st.base ∧ st.base ≤ 36

theorem scanDigits_inv (s : List Nat) (st : ScanSt) (s' : List Nat) (st' : ScanSt)
    (h : scanDigits s st = some (s', st')) (hi : StInv st) : StInv st' := by
  induction s generalizing st with
  | nil => simp [scanDigits] at h; obtain ⟨_, rfl⟩ := h; exact hi
  | cons c rest ih =>
    simp only [scanDigits] at h
    split at h
    · split at h
      · simp at h
      · exact ih _ h hi
    · split at h
      · simp at h; obtain ⟨_, rfl⟩ := h; exact hi
      · split at h
        · simp at h; obtain ⟨_, rfl⟩ := h; exact ⟨hi.1, by simp, by simp⟩
        · split at h
          · simp at h; obtain ⟨_, rfl⟩ := h; exact hi
          · split at h
            · split at h
              · exact ih _ h hi
              · simp at h
            · split at h
              · simp at h
              · rename_i hbad
                apply ih _ h
                have hd : digitOf c < st.base := by omega
                refine ⟨?_, hi.2.1, hi.2.2⟩
                exact muladd_inv _ _ _ (le_trans hi.2.2 (by decide)) hd hi.1

theorem parseBody_inv (neg : Bool) (b : Nat) (s2 : List Nat) (p : Parsed) (hb : 1 ≤ b ∧ b ≤ 36)
    (h : parseBody neg b s2 = some p) : MantInv p.mant ∧ 1 ≤ p.base ∧ p.base ≤ 36 := by
  unfold parseBody at h
  simp only at h
  split at h
  · simp at h
  · rename_i s3 st1 hz
    have hk := skipZeros_keep _ _ _ _ hz
    split at h
    · simp at h
    · rename_i s4 st2 hd
      have hi1 : StInv st1 := by
        refine ⟨?_, ?_, ?_⟩
        · rw [hk.1]; exact zero_inv
        · rw [hk.2]; exact hb.1
        · rw [hk.2]; exact hb.2
      have hi2 := scanDigits_inv _ _ _ _ hd hi1
      split at h
      · simp at h
      · split at h
        · simp at h; rw [← h]; exact hi2
        · split at h
          · simp at h; rw [← h]; exact hi2
          · split at h
            · simp at h
            · simp at h; rw [← h]; exact hi2

/-- ★ whatever literal is accepted, `convert` receives a BigNat with 31-bit digits whose top digit is non-zero, and a
    radix between 1 and 36 (radix 1 only through the `1r` prefix, where the only digit is 0) -/
theorem parseNumber_inv (str : List Nat) (base : Nat) (hbase : base ≤ 36) (p : Parsed)
    (h : parseNumber str base = some p) : MantInv p.mant ∧ 1 ≤ p.base ∧ p.base ≤ 36 := by
  unfold parseNumber at h
  split at h
  · simp at h
  · rename_i neg b s2 hh
    exact parseBody_inv neg b s2 p (numHeader_base str base hbase neg b s2 hh) h

end JanetModel.Strtod
