/- C13: the end-to-end statement in RATIONAL numbers, with every side condition discharged:
   `scan_end_to_end_q` — about the C-TYPED model `scanNumberBaseW` (what the correspondence harness runs), the value of
   the text as a rational `± M·b^E` (grammar-level `denote`), the value of the returned bit pattern as a rational.
   Discharged: wrap-freedom (`scanNumberBaseW_eq`), the exponent clamp (`ClampSafe` from the regenerated constants), the
   libm table (`log2_table_within_1ulp`, kernel-checked certificate). -/
import JanetModel.Strtod.RoundTrip
import JanetModel.Strtod.WrapFree
import JanetModel.Strtod.Log2Cert
import Mathlib.Tactic.FieldSimp
import Mathlib.Algebra.Order.Field.Basic

namespace JanetModel.Strtod
open JanetModel.Gen.Strtod

/-- the rational value of a sign-less bit pattern `mag ≤ +inf` (the pattern of +inf counts as 2^1024, the overflow
    threshold of the faithful rule) -/
def dval (mag : Nat) : ℚ := (ulps mag : ℚ) / 2 ^ 1074

/-- the magnitude `M·b^E` of a denoted literal, as a rational -/
def Lit.absVal (l : Lit) : ℚ := (l.M : ℚ) * (l.b : ℚ) ^ l.E

theorem absVal_eq (l : Lit) (hb : 0 < l.b) :
    l.absVal = ((l.M * l.b ^ l.E.toNat * 2 ^ 1074 : Nat) : ℚ) / (((l.b ^ (-l.E).toNat : Nat) : ℚ) * 2 ^ 1074) := by
  unfold Lit.absVal
  have hb' : (l.b : ℚ) ≠ 0 := by exact_mod_cast hb.ne'
  rcases le_or_gt 0 l.E with h | h
  · obtain ⟨n, hn⟩ := Int.eq_ofNat_of_zero_le h
    rw [hn]
    have e1 : ((n : Int)).toNat = n := by omega
    have e2 : (-(n : Int)).toNat = 0 := by omega
    rw [e1, e2, zpow_natCast]
    push_cast
    field_simp
  · obtain ⟨n, hn⟩ : ∃ n : Nat, l.E = -(n : Int) := ⟨(-l.E).toNat, by omega⟩
    rw [hn]
    have e1 : (-(n : Int)).toNat = 0 := by omega
    have e2 : (- -(n : Int)).toNat = n := by omega
    rw [e1, e2, zpow_neg, zpow_natCast]
    push_cast
    field_simp

theorem denoteBody_b_pos (neg : Bool) (b : Nat) (s : List Nat) (hb : 0 < b) : 0 < (denoteBody neg b s).b := by
  unfold denoteBody
  simp only
  split
  · exact hb
  · split
    · exact Nat.succ_pos 1
    · exact hb

theorem denote_b_pos (str : List Nat) (base0 : Nat) : 0 < (denote str base0).b := by
  unfold denote
  apply denoteBody_b_pos
  have key : ∀ n : Nat, 0 < (if n = 0 then 10 else n) := fun n => by split <;> omega
  exact key _

theorem dval_lt_iff (a b : Nat) : dval a < dval b ↔ ulps a < ulps b := by
  unfold dval
  rw [div_lt_div_iff_of_pos_right (by positivity)]
  exact Nat.cast_lt

/-- comparison of a double (in ulps) with the literal's value, in ℚ and in the ℕ form used by `Adjacent` -/
theorem dval_cmp (l : Lit) (hb : 0 < l.b) (k : Nat) :
    (dval k < l.absVal ↔ ulps k * l.b ^ (-l.E).toNat < l.M * l.b ^ l.E.toNat * 2 ^ 1074) ∧
    (l.absVal < dval k ↔ l.M * l.b ^ l.E.toNat * 2 ^ 1074 < ulps k * l.b ^ (-l.E).toNat) ∧
    (dval k = l.absVal ↔ ulps k * l.b ^ (-l.E).toNat = l.M * l.b ^ l.E.toNat * 2 ^ 1074) := by
  rw [absVal_eq l hb]
  unfold dval
  have hD : (0 : ℚ) < ((l.b ^ (-l.E).toNat : Nat) : ℚ) := by exact_mod_cast Nat.pow_pos hb
  have hP : (0 : ℚ) < 2 ^ 1074 := by positivity
  generalize l.M * l.b ^ l.E.toNat * 2 ^ 1074 = N
  generalize l.b ^ (-l.E).toNat = D at *
  refine ⟨?_, ?_, ?_⟩
  · rw [div_lt_div_iff₀ hP (mul_pos hD hP)]
    rw [show (ulps k : ℚ) * ((D : ℚ) * 2 ^ 1074) = ((ulps k * D : Nat) : ℚ) * 2 ^ 1074 by push_cast; ring]
    rw [mul_lt_mul_iff_left₀ hP]
    exact Nat.cast_lt
  · rw [div_lt_div_iff₀ (mul_pos hD hP) hP]
    rw [show (ulps k : ℚ) * ((D : ℚ) * 2 ^ 1074) = ((ulps k * D : Nat) : ℚ) * 2 ^ 1074 by push_cast; ring]
    rw [mul_lt_mul_iff_left₀ hP]
    exact Nat.cast_lt
  · rw [div_eq_div_iff hP.ne' (mul_pos hD hP).ne']
    rw [show (ulps k : ℚ) * ((D : ℚ) * 2 ^ 1074) = ((ulps k * D : Nat) : ℚ) * 2 ^ 1074 by push_cast; ring]
    rw [mul_left_inj' hP.ne']
    exact Nat.cast_inj

/-- ★★★ END TO END, in rationals, no remaining hypothesis but the radix bound of the API: for every byte string and radix
    parameter ≤ 36 on which the C-typed model of `janet_scan_number_base` succeeds, the returned 64-bit pattern is
    `sign(text) | mag` where `mag ≤ +inf` and, with `v = M·b^E` the magnitude denoted by the text:
    * if SOME double (or the overflow threshold 2^1024 standing for ±inf) has exactly the value `v`, the result has it;
    * no double lies strictly between the result and `v`, on either side: every double below the result is `< v`, every
      double above it is `> v` — so otherwise the result is one of the two doubles adjacent to `v`
      (incl. subnormals on the 2^−1074 grid, ±0 / min-subnormal for `v < 2^−1074`, DBL_MAX / ±inf for `v > DBL_MAX`). -/
theorem scan_end_to_end_q (str : List Nat) (base0 : Nat) (hb : base0 ≤ 36) (bits : Nat)
    (h : scanNumberBaseW str base0 = some bits) :
    ∃ mag, mag ≤ infBits ∧ bits = withSign (denote str base0).neg mag ∧
      (∀ k, k ≤ infBits → dval k = (denote str base0).absVal → dval mag = (denote str base0).absVal) ∧
      (∀ k, k ≤ infBits → dval k < dval mag → dval k < (denote str base0).absVal) ∧
      (∀ k, k ≤ infBits → dval mag < dval k → (denote str base0).absVal < dval k) := by
  rw [scanNumberBaseW_eq str base0 hb] at h
  obtain ⟨mag, hbits, hadj, _⟩ := scan_number_adjacent str base0 hb (fun b h2 h36 => log2_table_within_1ulp b h2 h36)
    (Or.inr (by decide)) bits h
  have hbp := denote_b_pos str base0
  generalize denote str base0 = l at *
  refine ⟨mag, hadj.1, hbits, ?_, ?_, ?_⟩
  · intro k hk hv
    have := hadj.exact k hk ((dval_cmp l hbp k).2.2.1 hv)
    rw [← hv]; unfold dval; rw [this]
  · intro k hk hlt
    exact (dval_cmp l hbp k).1.2 (hadj.2.1 k hk ((dval_lt_iff _ _).1 hlt))
  · intro k hk hlt
    exact (dval_cmp l hbp k).2.1.2 (hadj.2.2 k hk ((dval_lt_iff _ _).1 hlt))

/-! ### integers up to 2^53 are representable, hence read exactly -/

/-- every integer 0 < v ≤ 2^53 is the value of a finite double -/
theorem int_representable (v : Nat) (h0 : 0 < v) (h : v ≤ 2 ^ 53) : ∃ k, k ≤ infBits ∧ ulps k = v * 2 ^ 1074 := by
  rcases Nat.lt_or_ge v (2 ^ 53) with hlt | hge
  · refine ⟨ldexpBits v 0, ldexpBits_le _ _, ?_⟩
    have hd := ldexp_exact_int v (Nat.ne_of_gt h0) hlt
    have hl := bitLen_le_53 v hlt
    unfold ulps
    rw [hd]
    simp only
    have hx : (-((53 - bitLen v : Nat) : Int) + 1074).toNat = 1074 - (53 - bitLen v) := by omega
    rw [hx, Nat.mul_assoc, ← pow_add, show 53 - bitLen v + (1074 - (53 - bitLen v)) = 1074 by omega]
  · have hv : v = 2 ^ 53 := Nat.le_antisymm h hge
    refine ⟨ldexpBits (2 ^ 52) 1, ldexpBits_le _ _, ?_⟩
    have hd := ldexp_exact_normal (2 ^ 52) 1 (le_refl _) (by norm_num) (by norm_num) (by norm_num)
    unfold ulps
    rw [hd, hv]
    simp only
    rw [show ((1 : Int) + 1074).toNat = 1 + 1074 by rfl, pow_add, ← Nat.mul_assoc]
    norm_num

/-- ★ a text denoting an INTEGER `M·b^E` (E ≥ 0) with 0 < value ≤ 2^53 reads as exactly that integer -/
theorem integer_read_exact_q (str : List Nat) (base0 : Nat) (hb : base0 ≤ 36) (bits : Nat)
    (h : scanNumberBaseW str base0 = some bits) (hE : 0 ≤ (denote str base0).E)
    (h0 : 0 < (denote str base0).M * (denote str base0).b ^ (denote str base0).E.toNat)
    (h53 : (denote str base0).M * (denote str base0).b ^ (denote str base0).E.toNat ≤ 2 ^ 53) :
    ∃ mag, bits = withSign (denote str base0).neg mag ∧
      dval mag = (((denote str base0).M * (denote str base0).b ^ (denote str base0).E.toNat : Nat) : ℚ) := by
  obtain ⟨mag, _, hbits, hex, _, _⟩ := scan_end_to_end_q str base0 hb bits h
  have hbp := denote_b_pos str base0
  generalize denote str base0 = l at *
  obtain ⟨k, hk, hu⟩ := int_representable _ h0 h53
  have hval : l.absVal = ((l.M * l.b ^ l.E.toNat : Nat) : ℚ) := by
    unfold Lit.absVal
    obtain ⟨n, hn⟩ := Int.eq_ofNat_of_zero_le hE
    rw [hn]
    have e1 : ((n : Int)).toNat = n := by omega
    rw [e1, zpow_natCast]
    push_cast
    ring
  have hk' : dval k = l.absVal := by
    rw [hval]
    unfold dval
    rw [hu]
    push_cast
    field_simp
  exact ⟨mag, hbits, by rw [hex k hk hk', hval]⟩

end JanetModel.Strtod
