/- C13: lemmas about the BigNat digit-array routines of Strtod/Model.lean (refinement to `Nat`). -/
import JanetModel.Strtod.Model
import Mathlib.Tactic.Ring
import Mathlib.Tactic.Linarith
import Mathlib.Tactic.Positivity

namespace JanetModel.Strtod
open JanetModel.Gen.Strtod

/-- every digit fits in 31 bits -/
def AllLt (ds : List Nat) : Prop := ∀ d ∈ ds, d < bigBase

/-- the part of the number held in `digits[1..n)`, i.e. `val / 2^62`: the part `bignat_div` computes correctly -/
def upper (x : BigNat) : Nat := digitsVal x.digits / bigBase

theorem bigBase_pos : 0 < bigBase := by decide

/-! ### long division -/

theorem divDigits_eq (dv : Nat) (ds : List Nat) :
    digitsVal ds = dv * digitsVal (divDigits dv ds).1 + (divDigits dv ds).2 := by
  induction ds with
  | nil => simp [divDigits, digitsVal]
  | cons d rest ih =>
    simp only [divDigits, digitsVal]
    have h := Nat.div_add_mod ((divDigits dv rest).2 * bigBase + d) dv
    generalize (divDigits dv rest).2 = r at *
    generalize digitsVal (divDigits dv rest).1 = q at *
    generalize (r * bigBase + d) / dv = a at *
    generalize (r * bigBase + d) % dv = b at *
    have e : dv * (a + bigBase * q) + b = (dv * a + b) + bigBase * (dv * q) := by ring
    rw [e, h, ih]; ring

theorem divDigits_rem_lt (dv : Nat) (hdv : 0 < dv) (ds : List Nat) : (divDigits dv ds).2 < dv := by
  cases ds with
  | nil => simpa [divDigits] using hdv
  | cons d rest => simp only [divDigits]; exact Nat.mod_lt _ hdv

theorem divDigits_quot (dv : Nat) (hdv : 0 < dv) (ds : List Nat) :
    digitsVal (divDigits dv ds).1 = digitsVal ds / dv := by
  have h1 := divDigits_eq dv ds
  have h2 := divDigits_rem_lt dv hdv ds
  rw [h1, Nat.mul_add_div hdv, Nat.div_eq_of_lt h2]; simp

theorem divDigits_rem (dv : Nat) (hdv : 0 < dv) (ds : List Nat) :
    (divDigits dv ds).2 = digitsVal ds % dv := by
  have h1 := divDigits_eq dv ds
  have h2 := divDigits_rem_lt dv hdv ds
  rw [h1, Nat.mul_add_mod, Nat.mod_eq_of_lt h2]

/-! ### generic facts about digit lists -/

/-- most significant digit (if any) is non-zero -/
def TopNZ : List Nat → Prop
  | [] => True
  | [d] => d ≠ 0
  | _ :: r => TopNZ r

theorem AllLt_cons {d : Nat} {r : List Nat} : AllLt (d :: r) ↔ d < bigBase ∧ AllLt r := by
  simp [AllLt]

theorem AllLt_nil : AllLt [] := by simp [AllLt]

theorem TopNZ_cons_cons {d e : Nat} {r : List Nat} : TopNZ (d :: e :: r) ↔ TopNZ (e :: r) := by
  simp [TopNZ]

theorem digitsVal_lt {ds : List Nat} (h : AllLt ds) : digitsVal ds < bigBase ^ ds.length := by
  induction ds with
  | nil => simp [digitsVal]
  | cons d r ih =>
    rw [AllLt_cons] at h
    have := ih h.2
    simp only [digitsVal, List.length_cons, pow_succ]
    have h1 : bigBase * (digitsVal r + 1) ≤ bigBase * bigBase ^ r.length := Nat.mul_le_mul_left _ this
    have h2 := h.1
    rw [Nat.mul_comm (bigBase ^ r.length) bigBase]
    simp only [bigBase] at *
    omega

theorem topnz_val_ge {ds : List Nat} (hne : ds ≠ []) (h : TopNZ ds) : bigBase ^ (ds.length - 1) ≤ digitsVal ds := by
  induction ds with
  | nil => exact absurd rfl hne
  | cons d r ih =>
    cases r with
    | nil => simp [TopNZ] at h; simp [digitsVal]; omega
    | cons e r2 =>
      have := ih (by simp) (TopNZ_cons_cons.1 h)
      simp only [digitsVal, List.length_cons, Nat.add_sub_cancel, pow_succ] at *
      have h1 : bigBase * bigBase ^ r2.length ≤ bigBase * (e + bigBase * digitsVal r2) := Nat.mul_le_mul_left _ this
      rw [Nat.mul_comm (bigBase ^ r2.length) bigBase]
      omega

theorem val_ge_topnz {ds : List Nat} (hl : AllLt ds) (hne : ds ≠ []) (h : bigBase ^ (ds.length - 1) ≤ digitsVal ds) :
    TopNZ ds := by
  induction ds with
  | nil => exact absurd rfl hne
  | cons d r ih =>
    rw [AllLt_cons] at hl
    cases r with
    | nil =>
      simp [digitsVal] at h
      simp [TopNZ]; omega
    | cons e r2 =>
      rw [TopNZ_cons_cons]
      apply ih hl.2 (by simp)
      simp only [digitsVal, List.length_cons, Nat.add_sub_cancel, pow_succ] at *
      by_contra hc
      have hc : e + bigBase * digitsVal r2 + 1 ≤ bigBase ^ r2.length := by omega
      have h1 : bigBase * (e + bigBase * digitsVal r2 + 1) ≤ bigBase * bigBase ^ r2.length := Nat.mul_le_mul_left _ hc
      rw [Nat.mul_comm (bigBase ^ r2.length) bigBase] at h
      have := hl.1
      simp only [bigBase] at *
      omega

theorem TopNZ_append_singleton (a : List Nat) (d : Nat) : TopNZ (a ++ [d]) ↔ d ≠ 0 := by
  induction a with
  | nil => simp [TopNZ]
  | cons x r ih =>
    cases r with
    | nil => simp [TopNZ]
    | cons y r2 =>
      have : (x :: y :: r2) ++ [d] = x :: (y :: (r2 ++ [d])) := by simp
      rw [this, TopNZ_cons_cons]
      simpa using ih

/-! ### dropLastZero -/

theorem dropLastZero_val (ds : List Nat) : digitsVal (dropLastZero ds) = digitsVal ds := by
  induction ds with
  | nil => simp [dropLastZero]
  | cons d r ih =>
    cases r with
    | nil =>
      by_cases h : d = 0 <;> simp [dropLastZero, h, digitsVal]
    | cons e r2 =>
      simp only [dropLastZero, digitsVal] at *
      rw [ih]

theorem dropLastZero_allLt {ds : List Nat} (h : AllLt ds) : AllLt (dropLastZero ds) := by
  induction ds with
  | nil => simpa [dropLastZero] using h
  | cons d r ih =>
    cases r with
    | nil => by_cases h0 : d = 0 <;> simp [dropLastZero, h0, AllLt_nil]; exact h
    | cons e r2 =>
      rw [AllLt_cons] at h
      simp only [dropLastZero]
      exact AllLt_cons.2 ⟨h.1, ih h.2⟩

theorem dropLastZero_length (ds : List Nat) :
    (dropLastZero ds).length = ds.length ∨ (dropLastZero ds).length + 1 = ds.length := by
  induction ds with
  | nil => simp [dropLastZero]
  | cons d r ih =>
    cases r with
    | nil => by_cases h0 : d = 0 <;> simp [dropLastZero, h0]
    | cons e r2 =>
      simp only [dropLastZero, List.length_cons] at *
      omega

/-- if nothing was dropped although the list is non-empty, the top digit is non-zero -/
theorem dropLastZero_same_topnz (ds : List Nat) (h : (dropLastZero ds).length = ds.length) : TopNZ ds := by
  induction ds with
  | nil => simp [TopNZ]
  | cons d r ih =>
    cases r with
    | nil =>
      by_cases h0 : d = 0
      · simp [dropLastZero, h0] at h
      · simpa [TopNZ] using h0
    | cons e r2 =>
      rw [TopNZ_cons_cons]
      apply ih
      simpa [dropLastZero] using h

/-! ### quotient digits stay below the base -/

theorem divDigits_allLt (dv : Nat) (hdv : 0 < dv) {ds : List Nat} (h : AllLt ds) : AllLt (divDigits dv ds).1 := by
  induction ds with
  | nil => simp [divDigits, AllLt_nil]
  | cons d r ih =>
    rw [AllLt_cons] at h
    simp only [divDigits]
    refine AllLt_cons.2 ⟨?_, ih h.2⟩
    have hr := divDigits_rem_lt dv hdv r
    rw [Nat.div_lt_iff_lt_mul hdv]
    have : ((divDigits dv r).2 + 1) * bigBase ≤ dv * bigBase := Nat.mul_le_mul_right _ hr
    have := h.1
    rw [Nat.mul_comm bigBase dv]
    simp only [bigBase] at *
    omega

theorem divDigits_length (dv : Nat) (ds : List Nat) : (divDigits dv ds).1.length = ds.length := by
  induction ds with
  | nil => simp [divDigits]
  | cons d r ih => simp [divDigits, ih]

/-! ### bignat_div on the digit array -/

/-- value form of "at least two digits ⇒ the most significant one is non-zero" -/
def Norm2 (ds : List Nat) : Prop := 2 ≤ ds.length → bigBase ^ (ds.length - 1) ≤ digitsVal ds

theorem bignat_div_digits_nil (x : BigNat) (dv : Nat) (h : x.digits = []) : (bignat_div x dv).digits = [] := by
  simp [bignat_div, h]

theorem bignat_div_digits_cons (x : BigNat) (dv d0 : Nat) (rest : List Nat) (h : x.digits = d0 :: rest) :
    (bignat_div x dv).digits =
      dropLastZero (((divDigits dv rest).2 * bigBase + d0) % dv :: (divDigits dv rest).1) := by
  simp [bignat_div, h]

/-- ★ one `bignat_div` is an exact floor division on the part of the number above `digits[0]` -/
theorem div_upper (x : BigNat) (dv : Nat) (hdv : 0 < dv) (hle : dv ≤ bigBase) (hl : AllLt x.digits) :
    upper (bignat_div x dv) = upper x / dv := by
  unfold upper
  cases hx : x.digits with
  | nil => rw [bignat_div_digits_nil x dv hx]; simp [digitsVal]
  | cons d0 rest =>
    rw [bignat_div_digits_cons x dv d0 rest hx, dropLastZero_val]
    rw [hx] at hl
    rw [AllLt_cons] at hl
    simp only [digitsVal]
    rw [divDigits_quot dv hdv]
    have hr : ((divDigits dv rest).2 * bigBase + d0) % dv < bigBase := lt_of_lt_of_le (Nat.mod_lt _ hdv) hle
    rw [Nat.add_mul_div_left _ _ bigBase_pos, Nat.add_mul_div_left _ _ bigBase_pos,
        Nat.div_eq_of_lt hr, Nat.div_eq_of_lt hl.1]
    simp

theorem div_allLt (x : BigNat) (dv : Nat) (hdv : 0 < dv) (hle : dv ≤ bigBase) (hl : AllLt x.digits) :
    AllLt (bignat_div x dv).digits := by
  cases hx : x.digits with
  | nil => rw [bignat_div_digits_nil x dv hx]; exact AllLt_nil
  | cons d0 rest =>
    rw [bignat_div_digits_cons x dv d0 rest hx]
    rw [hx, AllLt_cons] at hl
    apply dropLastZero_allLt
    exact AllLt_cons.2 ⟨lt_of_lt_of_le (Nat.mod_lt _ hdv) hle, divDigits_allLt dv hdv hl.2⟩

theorem pow_le_of_mul_lt {k v : Nat} (h : bigBase * bigBase ^ k < bigBase * (v + 1)) : bigBase ^ k ≤ v := by
  have := Nat.lt_of_mul_lt_mul_left h
  omega

theorem div_norm2 (x : BigNat) (dv : Nat) (hdv : 0 < dv) (hle : dv ≤ bigBase) (hl : AllLt x.digits)
    (hn : Norm2 x.digits) : Norm2 (bignat_div x dv).digits := by
  cases hx : x.digits with
  | nil => rw [bignat_div_digits_nil x dv hx]; intro h; simp at h
  | cons d0 rest =>
    rw [bignat_div_digits_cons x dv d0 rest hx]
    rw [hx] at hl hn
    rw [AllLt_cons] at hl
    set r0 := ((divDigits dv rest).2 * bigBase + d0) % dv with hr0
    set q := (divDigits dv rest).1 with hq
    have hqlen : q.length = rest.length := divDigits_length dv rest
    intro h2
    rw [dropLastZero_val]
    rcases dropLastZero_length (r0 :: q) with hsame | hdrop
    · -- nothing dropped: the top digit is non-zero
      rw [hsame]
      exact topnz_val_ge (by simp) (dropLastZero_same_topnz _ hsame)
    · -- one digit dropped: at least three digits before
      have hlen : (dropLastZero (r0 :: q)).length = rest.length := by
        simp only [List.length_cons] at hdrop; omega
      rw [hlen] at h2 ⊢
      obtain ⟨k, hk⟩ : ∃ k, rest.length = k + 2 := ⟨rest.length - 2, by omega⟩
      have hn' := hn (by simp [hk])
      simp only [List.length_cons, hk, Nat.add_sub_cancel, digitsVal] at hn'
      -- B^(k+2) ≤ d0 + B * V(rest)  ⇒  B^(k+1) ≤ V(rest)
      have hv : bigBase ^ (k + 1) ≤ digitsVal rest := by
        apply pow_le_of_mul_lt
        have : bigBase ^ (k + 2) = bigBase * bigBase ^ (k + 1) := by ring
        have h1 := hl.1
        rw [this] at hn'
        simp only [bigBase] at *
        omega
      have hdiv : bigBase ^ k ≤ digitsVal rest / dv := by
        rw [Nat.le_div_iff_mul_le hdv]
        calc bigBase ^ k * dv ≤ bigBase ^ k * bigBase := Nat.mul_le_mul_left _ hle
          _ = bigBase ^ (k + 1) := by ring
          _ ≤ digitsVal rest := hv
      simp only [digitsVal, hk]
      rw [hq, divDigits_quot dv hdv]
      have : bigBase ^ (k + 2 - 1) = bigBase * bigBase ^ k := by
        have : k + 2 - 1 = k + 1 := by omega
        rw [this]; ring
      rw [this]
      have := Nat.mul_le_mul_left bigBase hdiv
      omega

/-! ### iterating -/

theorem iter_succ {α : Type} (f : α → α) (k : Nat) (x : α) : iter f (k + 1) x = iter f k (f x) := rfl

theorem iter_div_inv (dv : Nat) (hdv : 0 < dv) (hle : dv ≤ bigBase) (k : Nat) (x : BigNat)
    (hl : AllLt x.digits) (hn : Norm2 x.digits) :
    AllLt (iter (fun m => bignat_div m dv) k x).digits ∧ Norm2 (iter (fun m => bignat_div m dv) k x).digits ∧
    upper (iter (fun m => bignat_div m dv) k x) = upper x / dv ^ k := by
  induction k generalizing x with
  | zero => simp [iter, hl, hn]
  | succ k ih =>
    rw [iter_succ]
    have := ih (bignat_div x dv) (div_allLt x dv hdv hle hl) (div_norm2 x dv hdv hle hl hn)
    refine ⟨this.1, this.2.1, ?_⟩
    rw [this.2.2, div_upper x dv hdv hle hl, Nat.div_div_eq_div_mul, pow_succ']

/-! ### bignat_lshift_n -/

theorem digitsVal_replicate_append (k : Nat) (l : List Nat) :
    digitsVal (List.replicate k 0 ++ l) = bigBase ^ k * digitsVal l := by
  induction k with
  | zero => simp
  | succ k ih =>
    simp only [List.replicate_succ, List.cons_append, digitsVal, ih]
    ring

theorem AllLt_replicate_append (k : Nat) {l : List Nat} (h : AllLt l) : AllLt (List.replicate k 0 ++ l) := by
  intro d hd
  rcases List.mem_append.1 hd with h1 | h1
  · rw [List.mem_replicate] at h1; rw [h1.2]; exact bigBase_pos
  · exact h d h1

theorem TopNZ_cons_of_ne_nil (d : Nat) {l : List Nat} (h : l ≠ []) : TopNZ (d :: l) ↔ TopNZ l := by
  cases l with
  | nil => exact absurd rfl h
  | cons e r => exact TopNZ_cons_cons

theorem TopNZ_replicate_append (k : Nat) {l : List Nat} (h : l ≠ []) : TopNZ (List.replicate k 0 ++ l) ↔ TopNZ l := by
  induction k with
  | zero => simp
  | succ k ih =>
    simp only [List.replicate_succ, List.cons_append]
    rw [TopNZ_cons_of_ne_nil _ (by simp [h]), ih]

theorem lshift_digits (x : BigNat) (n : Nat) (hn : 0 < n) :
    (bignat_lshift_n x n).digits = List.replicate (n - 1) 0 ++ x.first :: x.digits := by
  simp [bignat_lshift_n, Nat.ne_of_gt hn]

/-- what the scanner guarantees about the mantissa handed to `convert` -/
structure MantInv (x : BigNat) : Prop where
  first_lt : x.first < bigBase
  allLt : AllLt x.digits
  topnz : TopNZ x.digits

theorem val_def (x : BigNat) : x.val = digitsVal (x.first :: x.digits) := rfl

theorem lshift_facts (x : BigNat) (n : Nat) (hn : 2 ≤ n) (hi : MantInv x) (hnz : x.digits = [] → x.first ≠ 0) :
    AllLt (bignat_lshift_n x n).digits ∧ Norm2 (bignat_lshift_n x n).digits ∧
    upper (bignat_lshift_n x n) = bigBase ^ (n - 2) * x.val := by
  rw [upper, lshift_digits x n (by omega)]
  have hall : AllLt (x.first :: x.digits) := AllLt_cons.2 ⟨hi.first_lt, hi.allLt⟩
  refine ⟨AllLt_replicate_append _ hall, ?_, ?_⟩
  · intro _
    apply topnz_val_ge (by simp)
    rw [TopNZ_replicate_append _ (by simp)]
    cases hd : x.digits with
    | nil => simpa [TopNZ] using hnz hd
    | cons e r => rw [TopNZ_cons_cons, ← hd]; exact hi.topnz
  · rw [digitsVal_replicate_append, ← val_def]
    obtain ⟨k, rfl⟩ : ∃ k, n = k + 2 := ⟨n - 2, by omega⟩
    have : k + 2 - 1 = k + 1 := by omega
    rw [this, pow_succ]
    have : bigBase ^ k * bigBase * x.val = bigBase * (bigBase ^ k * x.val) := by ring
    rw [this, Nat.mul_div_cancel_left _ bigBase_pos]
    simp

/-! ### the negative-exponent branch of `convert` -/

theorem pow4_le (base : Nat) (hb : base ≤ 36) : base * base * base * base ≤ bigBase := by
  have h1 : base * base ≤ 36 * 36 := Nat.mul_le_mul hb hb
  have h2 : base * base * base ≤ 36 * 36 * 36 := Nat.mul_le_mul h1 hb
  have h3 : base * base * base * base ≤ 36 * 36 * 36 * 36 := Nat.mul_le_mul h2 hb
  exact le_trans h3 (by decide)

theorem pow2_le (base : Nat) (hb : base ≤ 36) : base * base ≤ bigBase := by
  have h1 : base * base ≤ 36 * 36 := Nat.mul_le_mul hb hb
  exact le_trans h1 (by decide)

theorem base_pow_split (base a : Nat) :
    (base * base * base * base) ^ (a / 4) * ((base * base) ^ (a % 4 / 2) * base ^ (a % 2)) = base ^ a := by
  have e1 : base * base * base * base = base ^ 4 := by ring
  have e2 : base * base = base ^ 2 := by ring
  rw [e1, e2, ← pow_mul, ← pow_mul, ← pow_add, ← pow_add]
  congr 1
  omega

/-- the BigNat handed to `bignat_extract` when the exponent is `-a`, a > 0 -/
def scaleNeg (mant : BigNat) (base a : Nat) : BigNat :=
  iter (fun m => bignat_div m base) (a % 2)
    (iter (fun m => bignat_div m (base * base)) (a % 4 / 2)
      (iter (fun m => bignat_div m (base * base * base * base)) (a / 4)
        (bignat_lshift_n mant (shamtBase + a / shamtDiv))))

theorem scale_neg_eq (mant : BigNat) (base a : Nat) (ha : 0 < a) :
    scale mant base (-(a : Int)) = (scaleNeg mant base a, -(((shamtBase + a / shamtDiv) * nbit : Nat) : Int)) := by
  have h1 : ¬ (-(a : Int) ≥ 0) := by omega
  have h2 : (- -(a : Int)).toNat = a := by simp
  simp only [scale, scaleNeg, if_neg h1, h2]

theorem scaleNeg_facts (mant : BigNat) (base a : Nat) (hb1 : 1 ≤ base) (hb : base ≤ 36)
    (hi : MantInv mant) (hnz : mant.digits = [] → mant.first ≠ 0) :
    AllLt (scaleNeg mant base a).digits ∧ Norm2 (scaleNeg mant base a).digits ∧
    upper (scaleNeg mant base a) = mant.val * bigBase ^ (shamtBase + a / shamtDiv - 2) / base ^ a := by
  have hs : 2 ≤ shamtBase + a / shamtDiv := le_trans (by decide : 2 ≤ shamtBase) (Nat.le_add_right _ _)
  obtain ⟨l0, n0, u0⟩ := lshift_facts mant (shamtBase + a / shamtDiv) hs hi hnz
  have p4 : 0 < base * base * base * base := by positivity
  have p2 : 0 < base * base := by positivity
  obtain ⟨l1, n1, u1⟩ := iter_div_inv _ p4 (pow4_le base hb) (a / 4) _ l0 n0
  obtain ⟨l2, n2, u2⟩ := iter_div_inv _ p2 (pow2_le base hb) (a % 4 / 2) _ l1 n1
  obtain ⟨l3, n3, u3⟩ := iter_div_inv base hb1 (le_trans hb (by decide)) (a % 2) _ l2 n2
  refine ⟨l3, n3, ?_⟩
  unfold scaleNeg
  rw [u3, u2, u1, u0, Nat.div_div_eq_div_mul, Nat.div_div_eq_div_mul, base_pow_split, Nat.mul_comm]

/-! ### bignat_muladd -/

theorem carry_step {d f carry : Nat} (hd : d < bigBase) (hc : carry < f) : (carry + d * f) / bigBase < f := by
  rw [Nat.div_lt_iff_lt_mul bigBase_pos]
  have : (d + 1) * f ≤ bigBase * f := Nat.mul_le_mul_right _ hd
  have e : (d + 1) * f = d * f + f := by ring
  rw [Nat.mul_comm f bigBase]
  omega

theorem muladdDigits_val (f : Nat) (hf : f ≤ bigBase) (ds : List Nat) (carry : Nat) (hl : AllLt ds) (hc : carry < f) :
    digitsVal (muladdDigits f ds carry) = digitsVal ds * f + carry := by
  induction ds generalizing carry with
  | nil =>
    by_cases h0 : carry = 0
    · simp [muladdDigits, h0, digitsVal]
    · have : carry % 4294967296 = carry := Nat.mod_eq_of_lt (by simp only [bigBase] at hf; omega)
      simp [muladdDigits, h0, digitsVal, this]
  | cons d r ih =>
    rw [AllLt_cons] at hl
    simp only [muladdDigits, digitsVal]
    rw [ih _ hl.2 (carry_step hl.1 hc)]
    have := Nat.mod_add_div (carry + d * f) bigBase
    generalize (carry + d * f) % bigBase = lo at *
    generalize (carry + d * f) / bigBase = hi at *
    have e : lo + bigBase * (digitsVal r * f + hi) = (lo + bigBase * hi) + bigBase * digitsVal r * f := by ring
    rw [e, this]; ring

theorem muladdDigits_allLt (f : Nat) (hf : f ≤ bigBase) (ds : List Nat) (carry : Nat) (hl : AllLt ds) (hc : carry < f) :
    AllLt (muladdDigits f ds carry) := by
  induction ds generalizing carry with
  | nil =>
    by_cases h0 : carry = 0
    · simp [muladdDigits, h0, AllLt_nil]
    · have : carry % 4294967296 = carry := Nat.mod_eq_of_lt (by simp only [bigBase] at hf; omega)
      simp only [muladdDigits, h0, if_false, this]
      exact AllLt_cons.2 ⟨lt_of_lt_of_le hc hf, AllLt_nil⟩
  | cons d r ih =>
    rw [AllLt_cons] at hl
    simp only [muladdDigits]
    exact AllLt_cons.2 ⟨Nat.mod_lt _ bigBase_pos, ih _ hl.2 (carry_step hl.1 hc)⟩

theorem muladdDigits_ne_nil (f : Nat) (d : Nat) (r : List Nat) (carry : Nat) : muladdDigits f (d :: r) carry ≠ [] := by
  simp [muladdDigits]

theorem muladdDigits_topnz (f : Nat) (hf0 : 0 < f) (hf : f ≤ bigBase) (ds : List Nat) (carry : Nat) (hl : AllLt ds)
    (ht : TopNZ ds) (hc : carry < f) : TopNZ (muladdDigits f ds carry) := by
  induction ds generalizing carry with
  | nil =>
    by_cases h0 : carry = 0
    · simp [muladdDigits, h0, TopNZ]
    · have : carry % 4294967296 = carry := Nat.mod_eq_of_lt (by simp only [bigBase] at hf; omega)
      simp [muladdDigits, h0, TopNZ, this]
  | cons d r ih =>
    rw [AllLt_cons] at hl
    have hstep := carry_step hl.1 hc
    cases r with
    | nil =>
      simp only [muladdDigits]
      have hd : d ≠ 0 := by simpa [TopNZ] using ht
      by_cases h0 : (carry + d * f) / bigBase = 0
      · simp only [h0, if_true, TopNZ]
        have hlt : carry + d * f < bigBase := by
          rcases Nat.div_eq_zero_iff.1 h0 with h | h
          · simp [bigBase] at h
          · exact h
        rw [Nat.mod_eq_of_lt hlt]
        have : 0 < d * f := Nat.mul_pos (Nat.pos_of_ne_zero hd) hf0
        omega
      · have : ((carry + d * f) / bigBase) % 4294967296 = (carry + d * f) / bigBase :=
          Nat.mod_eq_of_lt (by simp only [bigBase] at hf; omega)
        simp only [h0, if_false, TopNZ, this]
        exact h0
    | cons e r2 =>
      have ht' : TopNZ (e :: r2) := TopNZ_cons_cons.1 ht
      simp only [muladdDigits] at *
      rw [TopNZ_cons_of_ne_nil _ (by simp)]
      exact ih _ hl.2 ht' hstep

theorem first_carry {first f term : Nat} (h1 : first < bigBase) (ht : term < f) : (first * f + term) / bigBase < f := by
  have := carry_step (d := first) (f := f) (carry := term) h1 ht
  rwa [Nat.add_comm] at this

theorem muladd_inv (x : BigNat) (f term : Nat) (hf : f ≤ bigBase) (ht : term < f) (hi : MantInv x) :
    MantInv (bignat_muladd x f term) := by
  have hf0 : 0 < f := by omega
  have hc := first_carry hi.first_lt ht
  exact ⟨Nat.mod_lt _ bigBase_pos, muladdDigits_allLt f hf _ _ hi.allLt hc, muladdDigits_topnz f hf0 hf _ _ hi.allLt hi.topnz hc⟩

/-- ★ `bignat_muladd` computes `x * factor + term` exactly -/
theorem muladd_val (x : BigNat) (f term : Nat) (hf : f ≤ bigBase) (ht : term < f) (hi : MantInv x) :
    (bignat_muladd x f term).val = x.val * f + term := by
  have hc := first_carry hi.first_lt ht
  simp only [bignat_muladd, BigNat.val]
  rw [muladdDigits_val f hf _ _ hi.allLt hc]
  have := Nat.mod_add_div (x.first * f + term) bigBase
  generalize (x.first * f + term) % bigBase = lo at *
  generalize (x.first * f + term) / bigBase = hi' at *
  have e : lo + bigBase * (digitsVal x.digits * f + hi') = (lo + bigBase * hi') + bigBase * digitsVal x.digits * f := by ring
  rw [e, this]; ring

theorem iter_muladd (f : Nat) (hf0 : 0 < f) (hf : f ≤ bigBase) (k : Nat) (x : BigNat) (hi : MantInv x) :
    MantInv (iter (fun m => bignat_muladd m f 0) k x) ∧ (iter (fun m => bignat_muladd m f 0) k x).val = x.val * f ^ k := by
  induction k generalizing x with
  | zero => simp [iter, hi]
  | succ k ih =>
    rw [iter_succ]
    have := ih _ (muladd_inv x f 0 hf hf0 hi)
    refine ⟨this.1, ?_⟩
    rw [this.2, muladd_val x f 0 hf hf0 hi, pow_succ]; ring

/-- the BigNat handed to `bignat_extract` when the exponent is `e ≥ 0` -/
def scalePos (mant : BigNat) (base e : Nat) : BigNat :=
  iter (fun m => bignat_muladd m base 0) (e % 2)
    (iter (fun m => bignat_muladd m (base * base) 0) (e % 4 / 2)
      (iter (fun m => bignat_muladd m (base * base * base * base) 0) (e / 4) mant))

theorem scale_pos_eq (mant : BigNat) (base e : Nat) : scale mant base (e : Int) = (scalePos mant base e, 0) := by
  have h1 : ((e : Int) ≥ 0) := by omega
  simp only [scale, scalePos, if_pos h1, Int.toNat_natCast]

/-- ★ positive exponents: the scaled mantissa is exactly `mant * base^e` -/
theorem scalePos_facts (mant : BigNat) (base e : Nat) (hb1 : 1 ≤ base) (hb : base ≤ 36) (hi : MantInv mant) :
    MantInv (scalePos mant base e) ∧ (scalePos mant base e).val = mant.val * base ^ e := by
  have p4 : 0 < base * base * base * base := by positivity
  have p2 : 0 < base * base := by positivity
  obtain ⟨i1, v1⟩ := iter_muladd _ p4 (pow4_le base hb) (e / 4) mant hi
  obtain ⟨i2, v2⟩ := iter_muladd _ p2 (pow2_le base hb) (e % 4 / 2) _ i1
  obtain ⟨i3, v3⟩ := iter_muladd base hb1 (le_trans hb (by decide)) (e % 2) _ i2
  refine ⟨i3, ?_⟩
  unfold scalePos
  rw [v3, v2, v1, Nat.mul_assoc, Nat.mul_assoc, base_pow_split]

/-! ### size of the scaled mantissa on the negative branch: at least four array digits, top one non-zero -/

theorem small_pow_le (base j i : Nat) (hb : base ≤ 36) (hj : j ≤ 1) (hi : i ≤ 1) : (base * base) ^ j * base ^ i ≤ bigBase := by
  have h2 : base * base ≤ 1296 := le_trans (Nat.mul_le_mul hb hb) (by decide)
  have hj' : j = 0 ∨ j = 1 := by omega
  have hi' : i = 0 ∨ i = 1 := by omega
  rcases hj' with rfl | rfl <;> rcases hi' with rfl | rfl <;> simp only [pow_zero, pow_one, Nat.one_mul, Nat.mul_one]
  · decide
  · exact le_trans hb (by decide)
  · exact le_trans h2 (by decide)
  · exact le_trans (Nat.mul_le_mul h2 hb) (by decide)

theorem base_pow_le (base a : Nat) (hb : base ≤ 36) : base ^ a ≤ bigBase ^ (a / 4) * bigBase := by
  rw [← base_pow_split base a]
  exact Nat.mul_le_mul (Nat.pow_le_pow_left (pow4_le base hb) _) (small_pow_le base _ _ hb (by omega) (by omega))

theorem scaleNeg_upper_ge (mant : BigNat) (base a : Nat) (hb1 : 1 ≤ base) (hb : base ≤ 36)
    (hi : MantInv mant) (hnz : mant.digits = [] → mant.first ≠ 0) (hv : 1 ≤ mant.val) :
    bigBase ^ 2 ≤ upper (scaleNeg mant base a) := by
  rw [(scaleNeg_facts mant base a hb1 hb hi hnz).2.2]
  have hpos : 0 < base ^ a := Nat.pow_pos hb1
  rw [Nat.le_div_iff_mul_le hpos]
  have e : shamtBase + a / shamtDiv - 2 = 3 + a / 4 := by simp only [shamtBase, shamtDiv]; omega
  rw [e]
  calc bigBase ^ 2 * base ^ a ≤ bigBase ^ 2 * (bigBase ^ (a / 4) * bigBase) := Nat.mul_le_mul_left _ (base_pow_le base a hb)
    _ = 1 * bigBase ^ (3 + a / 4) := by ring
    _ ≤ mant.val * bigBase ^ (3 + a / 4) := Nat.mul_le_mul_right _ hv

theorem scaleNeg_length (mant : BigNat) (base a : Nat) (hb1 : 1 ≤ base) (hb : base ≤ 36)
    (hi : MantInv mant) (hnz : mant.digits = [] → mant.first ≠ 0) (hv : 1 ≤ mant.val) :
    4 ≤ (scaleNeg mant base a).digits.length := by
  have hu := scaleNeg_upper_ge mant base a hb1 hb hi hnz hv
  have hl := (scaleNeg_facts mant base a hb1 hb hi hnz).1
  have hlt := digitsVal_lt hl
  unfold upper at hu
  rw [Nat.le_div_iff_mul_le bigBase_pos] at hu
  have h3 : bigBase ^ 3 < bigBase ^ (scaleNeg mant base a).digits.length := by
    calc bigBase ^ 3 = bigBase ^ 2 * bigBase := by ring
      _ ≤ _ := hu
      _ < _ := hlt
  have := (Nat.pow_lt_pow_iff_right (by decide : 1 < bigBase)).1 h3
  omega

theorem scaleNeg_topnz (mant : BigNat) (base a : Nat) (hb1 : 1 ≤ base) (hb : base ≤ 36)
    (hi : MantInv mant) (hnz : mant.digits = [] → mant.first ≠ 0) (hv : 1 ≤ mant.val) :
    TopNZ (scaleNeg mant base a).digits := by
  have hlen := scaleNeg_length mant base a hb1 hb hi hnz hv
  obtain ⟨hl, hn, _⟩ := scaleNeg_facts mant base a hb1 hb hi hnz
  exact val_ge_topnz hl (by intro h; simp [h] at hlen) (hn (by omega))

theorem val_pos_of_nonzero (x : BigNat) (hi : MantInv x) (hnz : ¬ (x.digits.length = 0 ∧ x.first = 0)) : 1 ≤ x.val := by
  unfold BigNat.val
  cases hd : x.digits with
  | nil => simp [hd] at hnz; simp [digitsVal]; omega
  | cons d r =>
    have := topnz_val_ge (ds := x.digits) (by simp [hd]) hi.topnz
    rw [hd] at this
    have hp : 0 < bigBase ^ ((d :: r).length - 1) := Nat.pow_pos bigBase_pos
    have : 1 ≤ digitsVal (d :: r) := by omega
    have := Nat.mul_le_mul_left bigBase this
    simp only [bigBase] at *
    omega

/-! ### first_digit stays below the base through divisions -/

theorem div_first_lt (x : BigNat) (dv : Nat) (hdv : 0 < dv) (hf : x.first < bigBase) : (bignat_div x dv).first < bigBase := by
  cases hx : x.digits with
  | nil =>
    simp only [bignat_div, hx]
    exact lt_of_le_of_lt (Nat.div_le_self _ _) hf
  | cons d0 rest =>
    simp only [bignat_div, hx]
    rw [Nat.div_lt_iff_lt_mul hdv]
    have hr : ((divDigits dv rest).2 * bigBase + d0) % dv < dv := Nat.mod_lt _ hdv
    generalize ((divDigits dv rest).2 * bigBase + d0) % dv = r0 at *
    have : (r0 + 1) * bigBase ≤ dv * bigBase := Nat.mul_le_mul_right _ hr
    rw [Nat.mul_comm bigBase dv]
    simp only [bigBase] at *
    omega

theorem iter_div_first_lt (dv : Nat) (hdv : 0 < dv) (k : Nat) (x : BigNat) (hf : x.first < bigBase) :
    (iter (fun m => bignat_div m dv) k x).first < bigBase := by
  induction k generalizing x with
  | zero => simpa [iter] using hf
  | succ k ih => rw [iter_succ]; exact ih _ (div_first_lt x dv hdv hf)

theorem scaleNeg_first_lt (mant : BigNat) (base a : Nat) (hb1 : 1 ≤ base) (_hb : base ≤ 36) (_hi : MantInv mant) :
    (scaleNeg mant base a).first < bigBase := by
  unfold scaleNeg
  have p4 : 0 < base * base * base * base := by positivity
  have p2 : 0 < base * base := by positivity
  apply iter_div_first_lt _ hb1
  apply iter_div_first_lt _ p2
  apply iter_div_first_lt _ p4
  have hs : shamtBase + a / shamtDiv ≠ 0 := by
    have : 2 ≤ shamtBase + a / shamtDiv := le_trans (by decide : 2 ≤ shamtBase) (Nat.le_add_right _ _)
    omega
  simp [bignat_lshift_n, hs, bigBase_pos]

end JanetModel.Strtod
