/- C10 (PEG): generic soundness of the verifier in `peg_unmarshal` with respect to the operand uses of `peg_rule`. -/
import JanetModel.PegVerify.Defs
namespace JanetModel.PegVerify

/-- what `peg_rule` needs at an instruction index `i` it evaluates -/
structure InstrSafe (T : PegTables) (bc : List Nat) (nc : Nat) (starts : List Nat) (i : Nat) : Prop where
  inBounds : i + (T.urow (word bc i)).maxOperand < bc.length
  rules : ∀ k ∈ (T.urow (word bc i)).ruleOps, word bc (i + k) ∈ starts
  consts : ∀ k ∈ (T.urow (word bc i)).constOps, word bc (i + k) < nc
  signedIdx : ∀ k ∈ (T.urow (word bc i)).signedIndexOps, word bc (i + k) < 2147483648
  list : (T.urow (word bc i)).listRules = true → ∀ j, j < word bc (i + 1) → i + 2 + j < bc.length ∧ word bc (i + 2 + j) ∈ starts
  literal : (T.urow (word bc i)).literal = true → i + 2 + (word bc (i + 1) + 3) / 4 ≤ bc.length

theorem scan_spec (T : PegTables) (bc : List Nat) (nc : Nat) :
    ∀ (fuel i : Nat) (st : List Nat) (e : Nat) (st' : List Nat), scan T bc nc fuel i st = some (e, st') →
      (∀ j ∈ st, j ∈ st') ∧ (∀ j ∈ st', j ∈ st ∨ (j < bc.length ∧ localOk T bc nc j = true)) ∧ (i < bc.length → i ∈ st') := by
  intro fuel
  induction fuel with
  | zero => intro i st e st' h; simp [scan] at h
  | succ n ih =>
    intro i st e st' h
    simp only [scan] at h
    by_cases hi : i ≥ bc.length
    · rw [if_pos hi] at h
      injection h with h; injection h with h1 h2
      subst h2
      exact ⟨fun j hj => hj, fun j hj => Or.inl hj, fun hlt => absurd hi (by omega)⟩
    · rw [if_neg hi] at h
      by_cases hl : localOk T bc nc i = true
      · rw [if_pos hl] at h
        obtain ⟨h1, h2, _⟩ := ih _ _ _ _ h
        refine ⟨fun j hj => h1 j (List.mem_cons_of_mem _ hj), ?_, fun _ => h1 i (List.mem_cons_self)⟩
        intro j hj
        rcases h2 j hj with hc | hc
        · rcases List.mem_cons.mp hc with rfl | hc'
          · exact Or.inr ⟨by omega, hl⟩
          · exact Or.inl hc'
        · exact Or.inr hc
      · rw [if_neg hl] at h; exact absurd h (by simp)

theorem vrow_known_lt (T : PegTables) (op : Nat) (h : (T.vrow op).known = true) : op < T.count := by
  unfold PegTables.vrow PegTables.count at *
  by_cases hlt : op < T.vrows.length
  · exact hlt
  · have : T.vrows.getD op {} = ({} : VRow) := by
      simp [List.getD, List.getElem?_eq_none (by omega : T.vrows.length ≤ op)]
    rw [this] at h
    exact absurd h (by decide)

/-- **peg_verify_sound** (generic): for any tables that pass `PegTables.consistent`, bytecode accepted by the verifier has a
    set of instruction starts containing the entry point 0, closed under every rule offset `peg_rule` follows, and at every
    start all operand words read are inside the bytecode and all constant indices are below `num_constants`. -/
theorem peg_verify_sound_generic (T : PegTables) (hT : T.consistent = true) (bc : List Nat) (nc : Nat)
    (hv : pegVerify T bc nc = true) :
    ∃ starts : List Nat, 0 ∈ starts ∧ ∀ i ∈ starts, i < bc.length ∧ InstrSafe T bc nc starts i := by
  simp only [PegTables.consistent, Bool.and_eq_true, List.all_eq_true, List.mem_range] at hT
  obtain ⟨⟨⟨hE, hM⟩, hN⟩, hrows⟩ := hT
  unfold pegVerify at hv
  cases hs : scan T bc nc (bc.length + 1) 0 [] with
  | none => rw [hs] at hv; simp at hv
  | some p =>
    obtain ⟨e, st⟩ := p
    rw [hs] at hv
    simp only [hE, hM, hN, Bool.not_true, Bool.false_or, Bool.and_eq_true, List.all_eq_true, decide_eq_true_eq,
      List.contains_iff_mem] at hv
    obtain ⟨⟨_, hmarks⟩, hpos⟩ := hv
    obtain ⟨_, hst, h0⟩ := scan_spec T bc nc _ _ _ _ _ hs
    refine ⟨st, h0 hpos, ?_⟩
    intro i hi
    rcases hst i hi with hnil | ⟨hlt, hloc⟩
    · exact absurd hnil (by simp)
    refine ⟨hlt, ?_⟩
    -- unpack the local checks
    simp only [localOk, Bool.and_eq_true, decide_eq_true_eq, List.all_eq_true] at hloc
    obtain ⟨⟨⟨⟨⟨⟨⟨hk, hneed⟩, hvar⟩, hcr⟩, hcc⟩, hnn⟩, _⟩, hlist⟩ := hloc
    have hop := vrow_known_lt T _ hk
    have hrow := hrows _ hop
    simp only [rowOk, hk, Bool.not_true, Bool.false_or, Bool.and_eq_true, List.all_eq_true, decide_eq_true_eq,
      List.contains_iff_mem] at hrow
    obtain ⟨⟨⟨⟨⟨⟨⟨⟨⟨⟨⟨hw, hur⟩, _⟩, huc⟩, husi⟩, hul⟩, _⟩, hulit⟩, hmax⟩, _⟩, _⟩, hvar2⟩ := hrow
    have hm := hmarks i hi
    refine ⟨by omega, ?_, ?_, ?_, ?_, ?_⟩
    · intro k hk'
      apply hm
      simp only [marksAt, List.mem_append, List.mem_map]
      exact Or.inl ⟨k, hur k hk', rfl⟩
    · intro k hk'
      exact hcc k (huc k hk')
    · intro k hk'
      exact hnn k (husi k hk')
    · intro hl j hj
      simp only [hl, Bool.not_true, Bool.false_or, Bool.and_eq_true, beq_iff_eq] at hul
      obtain ⟨⟨⟨hv1, hv2⟩, hv3⟩, hv4⟩ := hul
      rw [hv1] at hvar hvar2
      simp [hv2] at hvar hvar2
      simp only [hv1, hv3, beq_self_eq_true, Bool.and_self, Bool.not_true, Bool.false_or, List.all_eq_true, List.mem_range,
        decide_eq_true_eq] at hlist
      have hlj := hlist j hj
      refine ⟨by omega, ?_⟩
      apply hm
      simp only [marksAt, hv1, hv4, beq_self_eq_true, Bool.and_self, if_true, List.mem_append, List.mem_map, List.mem_range]
      exact Or.inr ⟨j, hj, rfl⟩
    · intro hl
      simp only [hl, Bool.not_true, Bool.false_or, Bool.and_eq_true, beq_iff_eq] at hulit
      obtain ⟨hv1, hv2⟩ := hulit
      rw [hv1] at hvar hvar2
      simp [hv2] at hvar hvar2
      omega

/-- the rule offsets `peg_rule` follows from instruction `i` -/
inductive Follows (T : PegTables) (bc : List Nat) : Nat → Nat → Prop
  | op (i k : Nat) : k ∈ (T.urow (word bc i)).ruleOps → Follows T bc i (word bc (i + k))
  | list (i j : Nat) : (T.urow (word bc i)).listRules = true → j < word bc (i + 1) → Follows T bc i (word bc (i + 2 + j))

/-- every instruction index `peg_rule` can be called on, starting from `bytecode[0]` -/
inductive Reach (T : PegTables) (bc : List Nat) : Nat → Prop
  | entry : Reach T bc 0
  | step (i t : Nat) : Reach T bc i → Follows T bc i t → Reach T bc t

theorem reach_safe (T : PegTables) (hT : T.consistent = true) (bc : List Nat) (nc : Nat) (hv : pegVerify T bc nc = true) :
    ∃ starts : List Nat, ∀ i, Reach T bc i → i ∈ starts ∧ i < bc.length ∧ InstrSafe T bc nc starts i := by
  obtain ⟨st, h0, hall⟩ := peg_verify_sound_generic T hT bc nc hv
  refine ⟨st, ?_⟩
  intro i hr
  have hmem : i ∈ st := by
    induction hr with
    | entry => exact h0
    | step i t _ hf ih =>
      have hs := (hall i ih).2
      cases hf with
      | op k hk => exact hs.rules k hk
      | list j hl hj => exact (hs.list hl j hj).2
  exact ⟨hmem, hall i hmem⟩

end JanetModel.PegVerify
