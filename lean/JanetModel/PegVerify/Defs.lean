/- C10 (PEG): model of the bytecode verifier inside `peg_unmarshal` (peg.c) and of the operand uses of `peg_rule`,
   parametrised by the tables regenerated from the current source (Gen/PegAccess.lean).  Core Lean only. -/
namespace JanetModel.PegVerify

inductive VarKind where
  | fixed | literal | list
  deriving DecidableEq, Repr, Inhabited

/-- one `case RULE_x` of the verify loop -/
structure VRow where
  known : Bool := false            -- has a case (otherwise `default: goto bad`)
  need : Nat := 0                  -- `if (left < need) goto bad`  (0 = no such check)
  width : Nat := 0                 -- `i += width` (fixed part for literal / list)
  var : VarKind := .fixed          -- literal: `i += 2 + ((rule[1]+3)>>2)`, list: `i += 2 + rule[1]`
  varBound : Bool := false         -- the variable part is compared with `left` before it is used
  checkedRules : List Nat := []    -- `if (rule[k] >= blen) goto bad`
  markedRules : List Nat := []     -- `op_flags[rule[k]] |= 1`
  checkedConsts : List Nat := []   -- `if (rule[k] >= clen) goto bad`
  listChecked : Bool := false      -- list elements `rule[2+j] >= blen`
  listMarked : Bool := false       -- list elements marked
  nonNeg : List Nat := []          -- `if (rule[k] > INT32_MAX) goto bad`  (operand later read as int32 index)
  immBounds : List (Nat × Nat × Nat × Nat) := []  -- (k, m, a, b): `if ((rule[k] & (m-1)) > a || rule[k] > b) goto bad`
  deriving Repr, Inhabited

/-- one `case RULE_x` of `peg_rule` -/
structure URow where
  known : Bool := false
  ruleOps : List Nat := []         -- `s->bytecode + rule[k]` is followed
  constOps : List Nat := []        -- `s->constants[rule[k]]`
  listRules : Bool := false        -- `s->bytecode + args[i]`, args = rule + 2, i < rule[1]
  literal : Bool := false          -- reads rule[1] bytes starting at rule + 2
  maxOperand : Nat := 0            -- highest fixed operand word read
  signedIndexOps : List Nat := []  -- `((int32_t *)rule)[k]` used as array index, bounded from above only
  deriving Repr, Inhabited

structure PegTables where
  vrows : List VRow      -- indexed by opcode number; opcodes beyond the list have no case
  urows : List URow
  exactEnd : Bool        -- `if (i != blen) goto bad`
  marksChecked : Bool    -- every marked index must start an instruction
  nonEmpty : Bool        -- `if (blen == 0) goto bad`   (peg/match starts at bytecode[0])

def PegTables.count (T : PegTables) : Nat := T.vrows.length
def PegTables.vrow (T : PegTables) (op : Nat) : VRow := T.vrows.getD op {}
def PegTables.urow (T : PegTables) (op : Nat) : URow := T.urows.getD op {}

def word (bc : List Nat) (i : Nat) : Nat := bc.getD i 0

/-- words occupied by the instruction at `i` -/
def instrWidth (T : PegTables) (bc : List Nat) (i : Nat) : Nat :=
  let r := T.vrow (word bc i)
  match r.var with
  | .fixed => r.width
  | .literal => r.width + (word bc (i + 1) + 3) / 4
  | .list => r.width + word bc (i + 1)

/-- the checks of one loop iteration of the verifier at instruction index `i` (true = no `goto bad`) -/
def localOk (T : PegTables) (bc : List Nat) (nc : Nat) (i : Nat) : Bool :=
  let r := T.vrow (word bc i)
  let left := bc.length - i
  r.known && decide (r.need ≤ left) &&
  (match r.var with
   | .fixed => true
   | .literal => !r.varBound || decide (word bc (i + 1) ≤ (left - 2) * 4)
   | .list => !r.varBound || decide (word bc (i + 1) ≤ left - 2)) &&
  r.checkedRules.all (fun k => decide (word bc (i + k) < bc.length)) &&
  r.checkedConsts.all (fun k => decide (word bc (i + k) < nc)) &&
  r.nonNeg.all (fun k => decide (word bc (i + k) < 2147483648)) &&
  r.immBounds.all (fun q => decide (word bc (i + q.1) % q.2.1 ≤ q.2.2.1 ∧ word bc (i + q.1) ≤ q.2.2.2)) &&
  (!(r.var == .list && r.listChecked) || (List.range (word bc (i + 1))).all (fun j => decide (word bc (i + 2 + j) < bc.length)))

/-- indices the verifier marks as jump targets while looking at instruction `i` -/
def marksAt (T : PegTables) (bc : List Nat) (i : Nat) : List Nat :=
  let r := T.vrow (word bc i)
  r.markedRules.map (fun k => word bc (i + k)) ++
  (if r.var == .list && r.listMarked then (List.range (word bc (i + 1))).map (fun j => word bc (i + 2 + j)) else [])

/-- the linear scan `while (i < blen)`: returns the final `i` and the instruction starts, `none` = `goto bad` -/
def scan (T : PegTables) (bc : List Nat) (nc : Nat) : Nat → Nat → List Nat → Option (Nat × List Nat)
  | 0, _, _ => none
  | fuel + 1, i, st =>
    if i ≥ bc.length then some (i, st)
    else if localOk T bc nc i then scan T bc nc fuel (i + instrWidth T bc i) (i :: st)
    else none

/-- accept / reject of the verifier -/
def pegVerify (T : PegTables) (bc : List Nat) (nc : Nat) : Bool :=
  match scan T bc nc (bc.length + 1) 0 [] with
  | none => false
  | some (e, st) =>
    (!T.exactEnd || e == bc.length) &&
    (!T.marksChecked || st.all (fun i => (marksAt T bc i).all (fun t => st.contains t))) &&
    (!T.nonEmpty || decide (0 < bc.length))

/-- a verifier row covers what `peg_rule` does with the same opcode -/
def rowOk (v : VRow) (u : URow) : Bool :=
  !v.known ||
  (decide (1 ≤ v.width) &&
   u.ruleOps.all (fun k => v.markedRules.contains k) &&
   v.markedRules.all (fun k => v.checkedRules.contains k) &&
   u.constOps.all (fun k => v.checkedConsts.contains k) &&
   u.signedIndexOps.all (fun k => v.nonNeg.contains k) &&
   (!u.listRules || (v.var == .list && v.varBound && v.listChecked && v.listMarked)) &&
   (!(v.var == .list && v.listMarked) || (v.listChecked && v.varBound)) &&
   (!u.literal || (v.var == .literal && v.varBound)) &&
   decide (u.maxOperand < v.need) &&
   v.checkedRules.all (fun k => decide (k < v.need)) &&
   v.checkedConsts.all (fun k => decide (k < v.need)) &&
   (!(v.var != .fixed) || decide (2 ≤ v.need ∧ v.width = 2)))

def PegTables.badRows (T : PegTables) : List Nat :=
  (List.range T.count).filter (fun op => !rowOk (T.vrow op) (T.urow op))

def PegTables.consistent (T : PegTables) : Bool :=
  T.exactEnd && T.marksChecked && T.nonEmpty &&
  (List.range T.count).all (fun op => rowOk (T.vrow op) (T.urow op))

end JanetModel.PegVerify
