/- C10 (PEG): REGENERATED obligation - the verifier rows of `peg_unmarshal` cover the operand uses of `peg_rule` in the
   CURRENT peg.c.  Built separately by checks/C10.py; fails (naming nothing itself - the driver's `pegrows` names the
   RULE_*) when a mark / bound is on the wrong operand, missing, or the entry point is not guaranteed to exist. -/
import JanetModel.PegVerify.Sound
import JanetModel.Gen.PegAccess
namespace JanetModel.PegVerify.Obligations
open JanetModel.PegVerify JanetModel.Gen.PegAccess

theorem peg_tables_consistent : tables.consistent = true := by decide +kernel

theorem peg_verify_sound (bc : List Nat) (nc : Nat) (hv : pegVerify tables bc nc = true) :
    ∃ starts : List Nat, ∀ i, Reach tables bc i → i ∈ starts ∧ i < bc.length ∧ InstrSafe tables bc nc starts i :=
  reach_safe tables peg_tables_consistent bc nc hv

end JanetModel.PegVerify.Obligations
