import JanetModel.Sandbox.Model
/-
C18 - proofs (independent of the generated graph, so they are not rebuilt when Gen/Sandbox.lean changes).
The property theorems are restated in Props/C18.lean.

C18 - sandboxed capabilities stay disabled.

* `flags_monotone`, `spawn_inherits`, `thread_keeps_parent_flags`: no transition of the flag-word model clears a bit;
  a new thread starts with (a superset of) its parent's word.
* `interp_sound`: for EVERY graph and certificate accepted by `certOK`: the interpreter may run any sequence of entry-point
  calls and `(sandbox …)` calls under one thread-global flag word, entry points re-entering the interpreter at their
  indirect calls to any depth (`Ex`, `Ob` in Model.lean); every OS-level call `c` that is reached is reached with a flag word
  in which no requirement group of `c` - for the open(2) access mode in force - is completely disabled.
  `checker_sound` is the special case of one entry-point call; `checker_sound_entry`: if the group was disabled when the run
  started, `c` is not reached (the path ended in the panic of a `janet_sandbox_assert` before).
* `gen_certOK` etc.: the per-run obligations on the graph regenerated from the current tree, by kernel evaluation.
-/
namespace JanetModel.Sandbox.Sound
open JanetModel.Sandbox

/-! ### bit-mask lemmas -/

theorem subMask_iff {r f : Nat} : subMask r f = true ↔ r &&& f = r := by
  unfold subMask; exact beq_iff_eq

theorem subMask_refl (f : Nat) : subMask f f = true := by
  rw [subMask_iff]; exact Nat.and_self f

theorem subMask_trans {a b c : Nat} (h1 : subMask a b = true) (h2 : subMask b c = true) : subMask a c = true := by
  rw [subMask_iff] at *
  calc a &&& c = (a &&& b) &&& c := by rw [h1]
    _ = a &&& (b &&& c) := Nat.and_assoc a b c
    _ = a &&& b := by rw [h2]
    _ = a := h1

theorem subMask_zero (f : Nat) : subMask 0 f = true := by
  rw [subMask_iff]; exact Nat.zero_and f

theorem subMask_or_left (f x : Nat) : subMask f (f ||| x) = true := by
  rw [subMask_iff]
  apply Nat.eq_of_testBit_eq
  intro i
  simp only [Nat.testBit_and, Nat.testBit_or]
  cases f.testBit i <;> simp

/-- an assert of `m` that is passed shows that every group meeting `m` has an enabled capability -/
theorem assert_gives {f m g : Nat} (hp : assertPasses f m = true) (hg : (g &&& m != 0) = true) : subMask g f = false := by
  unfold assertPasses at hp
  have hp' : f &&& m = 0 := beq_iff_eq.mp hp
  cases hs : subMask g f with
  | false => rfl
  | true =>
    exfalso
    rw [subMask_iff] at hs
    have : g &&& m = 0 := by
      calc g &&& m = (g &&& f) &&& m := by rw [hs]
        _ = g &&& (f &&& m) := Nat.and_assoc g f m
        _ = 0 := by rw [hp']; exact Nat.and_zero g
    rw [this] at hg
    simp at hg

theorem holds_imp {ks : List Nat} {f g' : Nat} (hk : holds ks f) (hi : imp g' ks = true) : subMask g' f = false := by
  unfold imp at hi
  rw [List.any_eq_true] at hi
  obtain ⟨g, hg, hsub⟩ := hi
  cases hs : subMask g' f with
  | false => rfl
  | true =>
    have := subMask_trans hsub hs
    rw [hk g hg] at this
    cases this

theorem holds_impAll {ks gs : List Nat} {f : Nat} (hk : holds ks f) (hi : impAll gs ks = true) : holds gs f := by
  intro g' hg'
  unfold impAll at hi
  rw [List.all_eq_true] at hi
  exact holds_imp hk (hi g' hg')

theorem not_dead_of_holds {ks : List Nat} {f : Nat} (hk : holds ks f) : ks.contains 0 = false := by
  cases h : ks.contains 0 with
  | false => rfl
  | true =>
    have hm : 0 ∈ ks := by simpa using h
    have := hk 0 hm
    rw [subMask_zero] at this
    cases this

theorem holds_nil (f : Nat) : holds [] f := by
  intro g hg; cases hg

/-! ### the flag word never loses a bit -/

theorem sandboxOp_mono {fl f fl' : Nat} (h : sandboxOp fl f = some fl') : subMask fl fl' = true := by
  unfold sandboxOp at h
  split at h
  · cases h
  · cases h; exact subMask_or_left fl f

/-- the sandbox capability guards `sandbox` itself -/
theorem sandboxOp_guarded (fl f : Nat) (h : fl &&& capSandbox ≠ 0) : sandboxOp fl f = none := by
  unfold sandboxOp
  have : (fl &&& capSandbox != 0) = true := bne_iff_ne.mpr h
  rw [if_pos this]

theorem subMask_or_right (f x : Nat) : subMask x (f ||| x) = true := by
  rw [Nat.or_comm]; exact subMask_or_left x f

/-- corelib.c `janet_core_sandbox`: the mask handed to `janet_sandbox` contains the accumulator and the table entry of
    every keyword given -/
theorem sandboxMask_spec (tbl : List (String × Nat)) : ∀ (kws : List String) (acc m : Nat), sandboxMask tbl acc kws = some m →
    subMask acc m = true ∧ ∀ k ∈ kws, ∃ mk, kwLookup tbl k = some mk ∧ subMask mk m = true := by
  intro kws
  induction kws with
  | nil =>
    intro acc m h
    simp only [sandboxMask] at h
    cases h
    exact ⟨subMask_refl acc, fun k hk => by cases hk⟩
  | cons k ks ih =>
    intro acc m h
    simp only [sandboxMask] at h
    cases hk : kwLookup tbl k with
    | none => rw [hk] at h; cases h
    | some mk =>
      rw [hk] at h
      obtain ⟨h1, h2⟩ := ih (acc ||| mk) m h
      refine ⟨subMask_trans (subMask_or_left acc mk) h1, ?_⟩
      intro k' hk'
      cases hk' with
      | head => exact ⟨mk, hk, subMask_trans (subMask_or_right acc mk) h1⟩
      | tail _ ht => exact h2 k' ht

/-- ★ `(sandbox :k1 :k2 …)` that returns has disabled - for every keyword given - every capability the table lists for it,
    and has cleared nothing; it is an instance of `sandboxOp` (so `flags_monotone` etc. apply to it). -/
theorem sandboxCfun_disables (tbl : List (String × Nat)) (fl fl' : Nat) (kws : List String)
    (h : sandboxCfun tbl fl kws = some fl') :
    subMask fl fl' = true ∧ (∀ k ∈ kws, ∃ mk, kwLookup tbl k = some mk ∧ subMask mk fl' = true) ∧
    ∃ m, sandboxMask tbl 0 kws = some m ∧ sandboxOp fl m = some fl' := by
  unfold sandboxCfun at h
  cases hm : sandboxMask tbl 0 kws with
  | none => rw [hm] at h; cases h
  | some m =>
    rw [hm] at h
    replace h : sandboxOp fl m = some fl' := h
    have hs := (sandboxMask_spec tbl kws 0 m hm).2
    have hfl : fl' = fl ||| m := by
      unfold sandboxOp at h
      by_cases hc : (fl &&& capSandbox != 0) = true
      · rw [if_pos hc] at h; cases h
      · rw [if_neg hc] at h
        exact (Option.some.inj h).symm
    refine ⟨sandboxOp_mono h, ?_, m, rfl, h⟩
    intro k hk
    obtain ⟨mk, h1, h2⟩ := hs k hk
    exact ⟨mk, h1, subMask_trans h2 (by rw [hfl]; exact subMask_or_right fl m)⟩

/-- an unknown keyword, or a disabled `sandbox` capability: panic, nothing changes -/
theorem sandboxCfun_unknown (tbl : List (String × Nat)) (fl : Nat) (kws : List String) (k : String) (hk : k ∈ kws)
    (hu : kwLookup tbl k = none) : sandboxCfun tbl fl kws = none := by
  cases h : sandboxCfun tbl fl kws with
  | none => rfl
  | some fl' =>
    obtain ⟨mk, h1, _⟩ := (sandboxCfun_disables tbl fl fl' kws h).2.1 k hk
    rw [hu] at h1; cases h1

theorem step_length_le (s : Sys) (o : SysOp) : s.length ≤ (s.step o).length := by
  cases o with
  | sandbox tid f =>
    simp only [Sys.step]
    split
    · split <;> simp
    · exact Nat.le_refl _
  | spawn tid =>
    simp only [Sys.step]
    split
    · simp
    · exact Nat.le_refl _
  | other tid => exact Nat.le_refl _

theorem step_monotone (s : Sys) (o : SysOp) (tid fl : Nat) (h : s[tid]? = some fl) :
    ∃ fl', (s.step o)[tid]? = some fl' ∧ subMask fl fl' = true := by
  have hlt : tid < s.length := by
    rcases List.getElem?_eq_some_iff.mp h with ⟨hl, _⟩
    exact hl
  cases o with
  | sandbox t f =>
    cases ht : s[t]? with
    | none => simp only [Sys.step, ht]; exact ⟨fl, h, subMask_refl fl⟩
    | some flt =>
      cases hso : sandboxOp flt f with
      | none => simp only [Sys.step, ht, hso]; exact ⟨fl, h, subMask_refl fl⟩
      | some flt' =>
        simp only [Sys.step, ht, hso]
        by_cases hEq : t = tid
        · subst hEq
          rw [h] at ht
          cases ht
          refine ⟨flt', ?_, sandboxOp_mono hso⟩
          simp [List.getElem?_set, hlt]
        · refine ⟨fl, ?_, subMask_refl fl⟩
          rw [List.getElem?_set_ne hEq]
          exact h
  | spawn t =>
    cases ht : s[t]? with
    | none => simp only [Sys.step, ht]; exact ⟨fl, h, subMask_refl fl⟩
    | some flt =>
      simp only [Sys.step, ht]
      refine ⟨fl, ?_, subMask_refl fl⟩
      rw [List.getElem?_append_left hlt]
      exact h
  | other t => exact ⟨fl, h, subMask_refl fl⟩

/-- ★ No sequence of operations, by any threads, clears a bit of any thread's flag word. -/
theorem flags_monotone (ops : List SysOp) : ∀ (s : Sys) (tid fl : Nat), s[tid]? = some fl →
    ∃ fl', (s.run ops)[tid]? = some fl' ∧ subMask fl fl' = true := by
  induction ops with
  | nil => intro s tid fl h; exact ⟨fl, h, subMask_refl fl⟩
  | cons o os ih =>
    intro s tid fl h
    obtain ⟨fl1, h1, hm1⟩ := step_monotone s o tid fl h
    obtain ⟨fl2, h2, hm2⟩ := ih (s.step o) tid fl1 h1
    exact ⟨fl2, h2, subMask_trans hm1 hm2⟩

/-- ★ A thread started by `tid` begins with exactly its parent's flag word … -/
theorem spawn_inherits (s : Sys) (tid fl : Nat) (h : s[tid]? = some fl) :
    (s.step (.spawn tid))[s.length]? = some fl := by
  simp only [Sys.step, h]
  simp

/-- … and therefore, whatever happens afterwards, always has at least the capabilities disabled that its parent had
    disabled when it was started. -/
theorem thread_keeps_parent_flags (s : Sys) (tid fl : Nat) (h : s[tid]? = some fl) (ops : List SysOp) :
    ∃ fl', ((s.step (.spawn tid)).run ops)[s.length]? = some fl' ∧ subMask fl fl' = true :=
  flags_monotone ops _ _ _ (spawn_inherits s tid fl h)

/-- thread start followed through the message (`spawnC`): with every step of the checked shape the new thread's word is its
    parent's word - `SysOp.spawn` -/
theorem spawnC_spec (c : ThreadCfg) (h : c.allChecked = true) (parent junk : Nat) : spawnC c parent junk = parent := by
  unfold ThreadCfg.allChecked at h
  simp only [Bool.and_eq_true] at h
  obtain ⟨⟨⟨h1, h2⟩, h3⟩, h4⟩ := h
  simp [spawnC, h1, h2, h3, h4]

theorem spawn_is_spawnC (c : ThreadCfg) (h : c.allChecked = true) (s : Sys) (tid fl junk : Nat) (hs : s[tid]? = some fl) :
    (s.step (.spawn tid))[s.length]? = some (spawnC c fl junk) := by
  rw [spawnC_spec c h]
  exact spawn_inherits s tid fl hs

/-- … and each step matters: a hand-over site that does not pass the flag word (seed C18-1), a spawner that patches the
    message, a subroutine that does not copy - each lets a thread start with a capability enabled that its parent had disabled -/
example : spawnC ⟨false, true, true, true⟩ 8193 0 = 0 ∧ spawnC ⟨true, true, false, true⟩ 8193 0 = 0 ∧
    spawnC ⟨true, true, true, false⟩ 8193 0 = 0 ∧ spawnC ⟨true, false, true, true⟩ 8193 0 = 0 := by decide

/-! ### soundness of the certificate checker -/

section sound
variable {need : String → String → Nat → List Nat} {G : Graph} {C : Cert}

theorem nodeOK_of_lt (h : certOK need G C = true) {n : Nat} (hn : n < G.size) : nodeOK need G C n = true := by
  unfold certOK at h
  rw [Bool.and_eq_true] at h
  have := h.1
  rw [List.all_eq_true] at this
  exact this n (List.mem_range.mpr hn)

theorem cover_spec {K' : List Case} {m : Nat} {p : Nat → Bool} (h : cover K' m p = true) :
    ∃ c' ∈ K', c'.1 = m ∧ ∀ g' ∈ c'.2, p g' = true := by
  unfold cover at h
  rw [List.any_eq_true] at h
  obtain ⟨c', hc, hp⟩ := h
  rw [Bool.and_eq_true] at hp
  refine ⟨c', hc, beq_iff_eq.mp hp.1, ?_⟩
  have := hp.2
  rw [List.all_eq_true] at this
  exact this

/-- a covering case whose groups all follow from groups that hold -/
theorem inv_of_cover {K' : List Case} {m F : Nat} {p : Nat → Bool} (h : cover K' m p = true)
    (hp : ∀ g', p g' = true → subMask g' F = false) : inv K' m F := by
  obtain ⟨c', hc, hm, hall⟩ := cover_spec h
  exact ⟨c', hc, hm, fun g' hg' => hp g' (hall g' hg')⟩

/-- the conjuncts of `nodeOK` -/
theorem nodeOK_parts {n : Nat} (h : nodeOK need G C n = true) :
    ((G.node n).succs.all (fun s => (G.node s).fn == (G.node n).fn) = true) ∧
    ((!C.isPure (G.node n).fn || (match (G.node n).op with
                       | .havoc => false
                       | .call g _ => C.isPure g
                       | _ => true)) = true) ∧
    ((match (G.node n).op with
       | .call g _ => (G.node (G.fnEntry g)).fn == g
       | _ => true) = true) ∧
    (∀ c ∈ C.k n, caseOK need G C (G.node n) c.1 c.2 = true) := by
  unfold nodeOK at h
  simp only [Bool.and_eq_true] at h
  refine ⟨h.1.1.1, h.1.1.2, h.1.2, ?_⟩
  have := h.2
  rw [List.all_eq_true] at this
  exact this

theorem succ_fn {n s : Nat} (h : nodeOK need G C n = true) (hs : s ∈ (G.node n).succs) : (G.node s).fn = (G.node n).fn := by
  have := (nodeOK_parts h).1
  rw [List.all_eq_true] at this
  exact beq_iff_eq.mp (this s hs)

/-- Invariant carried along an activation (nothing is claimed about interpreter runs: they only matter through `Ob`). -/
theorem ex_inv (h : certOK need G C = true) {b : Bool} {n F md n' F' md' : Nat} (hr : Ex G b n F md n' F' md') :
    b = false → inv (C.k n) md F →
    inv (C.k n') md' F' ∧ (G.node n').fn = (G.node n).fn ∧ (C.isPure (G.node n).fn = true → F' = F) := by
  induction hr with
  | refl n F md => intro _ hk; exact ⟨hk, rfl, fun _ => rfl⟩
  | @nop n F md s n' F' md' hlt hop hs _ ih =>
    intro _ hk
    have hok := nodeOK_of_lt h hlt
    obtain ⟨c, hc, hm, hh⟩ := hk
    have hp := (nodeOK_parts hok).2.2.2 c hc
    unfold caseOK at hp
    rw [hop] at hp
    simp only [] at hp
    rw [List.all_eq_true] at hp
    have hks : inv (C.k s) md F := by
      rw [← hm]
      exact inv_of_cover (hp s hs) (fun g' hg' => holds_imp hh hg')
    obtain ⟨a, b', c'⟩ := ih rfl hks
    have hf := succ_fn hok hs
    exact ⟨a, by rw [b', hf], fun hpure => c' (by rw [hf]; exact hpure)⟩
  | @libc n F md s n' F' md' fn nm hlt hop hs _ ih =>
    intro _ hk
    have hok := nodeOK_of_lt h hlt
    obtain ⟨c, hc, hm, hh⟩ := hk
    have hp := (nodeOK_parts hok).2.2.2 c hc
    unfold caseOK at hp
    rw [hop] at hp
    simp only [Bool.and_eq_true] at hp
    have hp1 := hp.1
    rw [List.all_eq_true] at hp1
    have hks : inv (C.k s) md F := by
      rw [← hm]
      exact inv_of_cover (hp1 s hs) (fun g' hg' => holds_imp hh hg')
    obtain ⟨a, b', c'⟩ := ih rfl hks
    have hf := succ_fn hok hs
    exact ⟨a, by rw [b', hf], fun hpure => c' (by rw [hf]; exact hpure)⟩
  | @assert n F md s n' F' md' m hlt hop hpass hs _ ih =>
    intro _ hk
    have hok := nodeOK_of_lt h hlt
    obtain ⟨c, hc, hm, hh⟩ := hk
    have hp := (nodeOK_parts hok).2.2.2 c hc
    unfold caseOK at hp
    rw [hop] at hp
    simp only [] at hp
    rw [List.all_eq_true] at hp
    have hks : inv (C.k s) md F := by
      rw [← hm]
      refine inv_of_cover (hp s hs) (fun g' hg' => ?_)
      rw [Bool.or_eq_true] at hg'
      cases hg' with
      | inl hm' => exact assert_gives hpass hm'
      | inr hi => exact holds_imp hh hi
    obtain ⟨a, b', c'⟩ := ih rfl hks
    have hf := succ_fn hok hs
    exact ⟨a, by rw [b', hf], fun hpure => c' (by rw [hf]; exact hpure)⟩
  | @modeSet n F md s n' F' md' m hlt hop hs _ ih =>
    intro _ hk
    have hok := nodeOK_of_lt h hlt
    obtain ⟨c, hc, _, hh⟩ := hk
    have hp := (nodeOK_parts hok).2.2.2 c hc
    unfold caseOK at hp
    rw [hop] at hp
    simp only [] at hp
    rw [List.all_eq_true] at hp
    have hks : inv (C.k s) m F := inv_of_cover (hp s hs) (fun g' hg' => holds_imp hh hg')
    obtain ⟨a, b', c'⟩ := ih rfl hks
    have hf := succ_fn hok hs
    exact ⟨a, by rw [b', hf], fun hpure => c' (by rw [hf]; exact hpure)⟩
  | @modeOr n F md s n' F' md' m hlt hop hs _ ih =>
    intro _ hk
    have hok := nodeOK_of_lt h hlt
    obtain ⟨c, hc, hm, hh⟩ := hk
    have hp := (nodeOK_parts hok).2.2.2 c hc
    unfold caseOK at hp
    rw [hop] at hp
    simp only [] at hp
    rw [List.all_eq_true] at hp
    have hks : inv (C.k s) (md ||| m) F := by
      rw [← hm]
      exact inv_of_cover (hp s hs) (fun g' hg' => holds_imp hh hg')
    obtain ⟨a, b', c'⟩ := ih rfl hks
    have hf := succ_fn hok hs
    exact ⟨a, by rw [b', hf], fun hpure => c' (by rw [hf]; exact hpure)⟩
  | @modeUpd n F md s n' F' md' kp o hlt hop hs _ ih =>
    intro _ hk
    have hok := nodeOK_of_lt h hlt
    obtain ⟨c, hc, hm, hh⟩ := hk
    have hp := (nodeOK_parts hok).2.2.2 c hc
    unfold caseOK at hp
    rw [hop] at hp
    simp only [] at hp
    rw [List.all_eq_true] at hp
    have hks : inv (C.k s) ((md &&& kp) ||| o) F := by
      rw [← hm]
      exact inv_of_cover (hp s hs) (fun g' hg' => holds_imp hh hg')
    obtain ⟨a, b', c'⟩ := ih rfl hks
    have hf := succ_fn hok hs
    exact ⟨a, by rw [b', hf], fun hpure => c' (by rw [hf]; exact hpure)⟩
  | @assertMd n F md s n' F' md' sh hlt hop hpass hs _ ih =>
    intro _ hk
    have hok := nodeOK_of_lt h hlt
    obtain ⟨c, hc, hm, hh⟩ := hk
    have hp := (nodeOK_parts hok).2.2.2 c hc
    unfold caseOK at hp
    rw [hop] at hp
    simp only [] at hp
    rw [List.all_eq_true] at hp
    have hks : inv (C.k s) md F := by
      rw [← hm]
      refine inv_of_cover (hp s hs) (fun g' hg' => ?_)
      rw [Bool.or_eq_true] at hg'
      cases hg' with
      | inl hm' => rw [hm] at hm'; exact assert_gives hpass hm'
      | inr hi => exact holds_imp hh hi
    obtain ⟨a, b', c'⟩ := ih rfl hks
    have hf := succ_fn hok hs
    exact ⟨a, by rw [b', hf], fun hpure => c' (by rw [hf]; exact hpure)⟩
  | @modeGuard n F md s n' F' md' v eq hlt hop hg hs _ ih =>
    intro _ hk
    have hok := nodeOK_of_lt h hlt
    obtain ⟨c, hc, hm, hh⟩ := hk
    have hp := (nodeOK_parts hok).2.2.2 c hc
    unfold caseOK at hp
    rw [hop] at hp
    simp only [] at hp
    rw [hm, hg] at hp
    simp only [Bool.not_true, Bool.false_or] at hp
    rw [List.all_eq_true] at hp
    have hks : inv (C.k s) md F := inv_of_cover (hp s hs) (fun g' hg' => holds_imp hh hg')
    obtain ⟨a, b', c'⟩ := ih rfl hks
    have hf := succ_fn hok hs
    exact ⟨a, by rw [b', hf], fun hpure => c' (by rw [hf]; exact hpure)⟩
  | @modeTest n F md s n' F' md' k v eq hlt hop hg hs _ ih =>
    intro _ hk
    have hok := nodeOK_of_lt h hlt
    obtain ⟨c, hc, hm, hh⟩ := hk
    have hp := (nodeOK_parts hok).2.2.2 c hc
    unfold caseOK at hp
    rw [hop] at hp
    simp only [] at hp
    rw [hm, hg] at hp
    simp only [Bool.not_true, Bool.false_or] at hp
    rw [List.all_eq_true] at hp
    have hks : inv (C.k s) md F := inv_of_cover (hp s hs) (fun g' hg' => holds_imp hh hg')
    obtain ⟨a, b', c'⟩ := ih rfl hks
    have hf := succ_fn hok hs
    exact ⟨a, by rw [b', hf], fun hpure => c' (by rw [hf]; exact hpure)⟩
  | @havoc n F md F1 s n' F' md' hlt hop _ hs _ _ ih2 =>
    intro _ hk
    have hok := nodeOK_of_lt h hlt
    obtain ⟨c, hc, hm, _⟩ := hk
    have hp := (nodeOK_parts hok).2.2.2 c hc
    unfold caseOK at hp
    rw [hop] at hp
    simp only [] at hp
    rw [List.all_eq_true] at hp
    have hks : inv (C.k s) md F1 := by
      rw [← hm]
      exact inv_of_cover (hp s hs) (fun g' hg' => by cases hg')
    obtain ⟨a, b', _⟩ := ih2 rfl hks
    have hf := succ_fn hok hs
    refine ⟨a, by rw [b', hf], fun hpure => ?_⟩
    have hpu := (nodeOK_parts hok).2.1
    rw [hpure, hop] at hpu
    simp at hpu
  | @call n F md g m0 r F1 mdr s n' F' md' hlt hop _ hrlt hret hs _ ih1 ih2 =>
    intro _ hk
    have hok := nodeOK_of_lt h hlt
    have hparts := nodeOK_parts hok
    obtain ⟨c, hc, hm, hh⟩ := hk
    have hp := hparts.2.2.2 c hc
    unfold caseOK at hp
    rw [hop] at hp
    simp only [Bool.and_eq_true] at hp
    obtain ⟨hentry, hsucc⟩ := hp
    have hkent : inv (C.k (G.fnEntry g)) m0 F := inv_of_cover hentry (fun g' hg' => holds_imp hh hg')
    obtain ⟨hkr, hfr, hpr⟩ := ih1 rfl hkent
    have hfg : (G.node (G.fnEntry g)).fn = g := by
      have := hparts.2.2.1
      rw [hop] at this
      exact beq_iff_eq.mp this
    -- at the return node
    have hokr : nodeOK need G C r = true := nodeOK_of_lt h hrlt
    obtain ⟨cr, hcr, _, hhr⟩ := hkr
    have hpr2 := (nodeOK_parts hokr).2.2.2 cr hcr
    unfold caseOK at hpr2
    rw [hret] at hpr2
    simp only [] at hpr2
    rw [hfr, hfg] at hpr2
    have hkpost := holds_impAll hhr hpr2
    rw [List.all_eq_true] at hsucc
    have hks : inv (C.k s) md F1 := by
      rw [← hm]
      refine inv_of_cover (hsucc s hs) (fun g' hg' => ?_)
      rw [Bool.or_eq_true] at hg'
      cases hg' with
      | inl hm' =>
        rw [Bool.and_eq_true] at hm'
        have hF : F1 = F := hpr (by rw [hfg]; exact hm'.1)
        rw [hF]
        exact holds_imp hh hm'.2
      | inr hi => exact holds_imp hkpost hi
    obtain ⟨a, b', c'⟩ := ih2 rfl hks
    have hf := succ_fn hok hs
    refine ⟨a, by rw [b', hf], fun hpure => ?_⟩
    have hpu := hparts.2.1
    rw [hpure, hop] at hpu
    simp only [Bool.not_true, Bool.false_or] at hpu
    have hF1 : F1 = F := hpr (by rw [hfg]; exact hpu)
    rw [c' (by rw [hf]; exact hpure), hF1]
  | idone F => intro hb; cases hb
  | igrow _ _ _ => intro hb; cases hb
  | ienter _ _ _ _ _ => intro hb; cases hb

theorem entry_inv (h : certOK need G C = true) {f : Nat} (hf : f ∈ G.entries) (F : Nat) : inv (C.k (G.fnEntry f)) 0 F := by
  unfold certOK at h
  rw [Bool.and_eq_true] at h
  have := h.2
  rw [List.all_eq_true] at this
  exact inv_of_cover (this f hf) (fun g' hg' => by cases hg')

/-- Whatever is observed - in the activation, in callees, or in entry points re-entered through the interpreter - is
    described by the certificate.  For an interpreter run (`b = true`) nothing has to be assumed. -/
theorem ob_inv (h : certOK need G C = true) {b : Bool} {n F md c F' md' : Nat} (ho : Ob G b n F md c F' md') :
    (b = false → inv (C.k n) md F) → inv (C.k c) md' F' := by
  induction ho with
  | here hr => intro hk; exact (ex_inv h hr rfl (hk rfl)).1
  | @inCall n F md n1 F1 md1 g m0 c F' md' hr hlt1 hop _ ih =>
    intro hk
    obtain ⟨c1, hc1, _, hh1⟩ := (ex_inv h hr rfl (hk rfl)).1
    have hok : nodeOK need G C n1 = true := nodeOK_of_lt h hlt1
    have hp := (nodeOK_parts hok).2.2.2 c1 hc1
    unfold caseOK at hp
    rw [hop] at hp
    simp only [Bool.and_eq_true] at hp
    exact ih (fun _ => inv_of_cover hp.1 (fun g' hg' => holds_imp hh1 hg'))
  | inHavoc _ _ _ _ ih => intro _; exact ih (fun hb => by cases hb)
  | iskipGrow _ _ ih => intro _; exact ih (fun hb => by cases hb)
  | iskipEnter _ _ _ ih => intro _; exact ih (fun hb => by cases hb)
  | @iin F f c F' md' hf _ ih => intro _; exact ih (fun _ => entry_inv h hf F)

/-- requirement at an observed OS-level call -/
theorem need_at (h : certOK need G C = true) {c md F : Nat} {fn nm : String} (hk : inv (C.k c) md F) (hlt : c < G.size)
    (hc : (G.node c).op = .libc fn nm) (R : Nat) (hR : R ∈ need fn nm md) : subMask R F = false := by
  obtain ⟨cs, hcs, hm, hh⟩ := hk
  have hok : nodeOK need G C c = true := nodeOK_of_lt h hlt
  have hp := (nodeOK_parts hok).2.2.2 cs hcs
  unfold caseOK at hp
  rw [hc] at hp
  simp only [Bool.and_eq_true] at hp
  have hneed := hp.2
  rw [List.all_eq_true, hm] at hneed
  exact holds_imp hh (hneed R hR)

/-- ★ Soundness lifted through re-entrant calls, for every graph and certificate: let the interpreter run ANY sequence of
    entry-point calls and `(sandbox …)` calls under one thread-global flag word, entry points re-entering the interpreter at
    their indirect calls to any depth.  Every OS-level call `c` that is reached is reached with a flag word in which none
    of its requirement groups (for the access mode in force at the call) is completely disabled. -/
theorem interp_sound (need : String → String → Nat → List Nat) (G : Graph) (C : Cert) (h : certOK need G C = true)
    (F0 c F md : Nat) (fn nm : String) (hobs : Ob G true 0 F0 0 c F md) (hlt : c < G.size)
    (hc : (G.node c).op = .libc fn nm) (R : Nat) (hR : R ∈ need fn nm md) : subMask R F = false :=
  need_at h (ob_inv h hobs (fun hb => by cases hb)) hlt hc R hR

/-- ★ Same, for one call of one entry point (a special case of `interp_sound`). -/
theorem checker_sound (need : String → String → Nat → List Nat) (G : Graph) (C : Cert) (h : certOK need G C = true)
    (f : Nat) (hf : f ∈ G.entries) (F0 c F md : Nat) (fn nm : String)
    (hobs : Ob G false (G.fnEntry f) F0 0 c F md) (hlt : c < G.size) (hc : (G.node c).op = .libc fn nm)
    (R : Nat) (hR : R ∈ need fn nm md) : subMask R F = false :=
  interp_sound need G C h F0 c F md fn nm (.iin hf hobs) hlt hc R hR

end sound

/-! ### executions never clear a bit either (semantics only, no certificate) -/

theorem ex_mono {G : Graph} {b : Bool} {n F md n' F' md' : Nat} (hr : Ex G b n F md n' F' md') : subMask F F' = true := by
  induction hr with
  | refl n F md => exact subMask_refl F
  | nop _ _ _ _ ih => exact ih
  | libc _ _ _ _ ih => exact ih
  | assert _ _ _ _ _ ih => exact ih
  | modeSet _ _ _ _ ih => exact ih
  | modeOr _ _ _ _ ih => exact ih
  | modeUpd _ _ _ _ ih => exact ih
  | assertMd _ _ _ _ _ ih => exact ih
  | modeGuard _ _ _ _ _ ih => exact ih
  | modeTest _ _ _ _ _ ih => exact ih
  | havoc _ _ _ _ _ ih1 ih2 => exact subMask_trans ih1 ih2
  | call _ _ _ _ _ _ _ ih1 ih2 => exact subMask_trans ih1 ih2
  | idone F => exact subMask_refl F
  | igrow hg _ ih => exact subMask_trans hg ih
  | ienter _ _ _ ih1 ih2 => exact subMask_trans ih1 ih2

theorem ob_mono {G : Graph} {b : Bool} {n F md c F' md' : Nat} (ho : Ob G b n F md c F' md') : subMask F F' = true := by
  induction ho with
  | here hr => exact ex_mono hr
  | inCall hr _ _ _ ih => exact subMask_trans (ex_mono hr) ih
  | inHavoc hr _ _ _ ih => exact subMask_trans (ex_mono hr) ih
  | iskipGrow hg _ ih => exact subMask_trans hg ih
  | iskipEnter _ hr _ ih => exact subMask_trans (ex_mono hr) ih
  | iin _ _ ih => exact ih

/-- ★ In terms of the flag word at the moment the interpreter run (or the core function) starts: if a requirement group of
    `c` is completely disabled then, no execution reaches `c` (every path ends in a sandbox panic, or never gets there). -/
theorem checker_sound_entry (need : String → String → Nat → List Nat) (G : Graph) (C : Cert) (h : certOK need G C = true)
    (F0 c F md : Nat) (fn nm : String) (hlt : c < G.size) (hc : (G.node c).op = .libc fn nm)
    (R : Nat) (hR : R ∈ need fn nm md) (hdis : subMask R F0 = true) : ¬ Ob G true 0 F0 0 c F md := by
  intro hobs
  have h1 := interp_sound need G C h F0 c F md fn nm hobs hlt hc R hR
  have h2 := subMask_trans hdis (ob_mono hobs)
  rw [h1] at h2
  cases h2

/-! ### entry points: the address-taken functions of the slice -/

theorem entriesCover_spec {ids : List Nat} {entries : List Nat} {taken : List Nat}
    (h : entriesCover ids entries taken = true) :
    ∀ p ∈ taken, ∀ i, ids[i]? = some p → i ∈ entries := by
  intro p hp i hi
  unfold entriesCover at h
  rw [List.all_eq_true] at h
  obtain ⟨hlt, hget⟩ := List.getElem?_eq_some_iff.mp hi
  have hi' := h i (List.mem_range.mpr hlt)
  have hgd : ids.getD i 0 = p := by
    rw [List.getD_eq_getElem?_getD, hi]; rfl
  rw [hgd] at hi'
  have hc : taken.contains p = true := List.contains_iff_mem.mpr hp
  rw [hc] at hi'
  simpa using hi'

theorem addrEntries_sub {ids : List Nat} {entries : List Nat} {taken : List Nat}
    (h : entriesCover ids entries taken = true) : ∀ i ∈ addrEntries ids taken, i ∈ entries := by
  intro i hi
  unfold addrEntries at hi
  rw [List.mem_filter] at hi
  unfold entriesCover at h
  rw [List.all_eq_true] at h
  have := h i hi.1
  rw [hi.2] at this
  simpa using this

/-- executions of a graph with fewer entry points are executions of the graph -/
theorem ex_entries_mono {G : Graph} {es : List Nat} (hsub : ∀ f ∈ es, f ∈ G.entries)
    {b : Bool} {n F md n' F' md' : Nat} (hr : Ex (G.withEntries es) b n F md n' F' md') : Ex G b n F md n' F' md' := by
  induction hr with
  | refl n F md => exact .refl n F md
  | nop hlt hop hs _ ih => exact .nop hlt hop hs ih
  | libc hlt hop hs _ ih => exact .libc hlt hop hs ih
  | assert hlt hop hp hs _ ih => exact .assert hlt hop hp hs ih
  | modeSet hlt hop hs _ ih => exact .modeSet hlt hop hs ih
  | modeOr hlt hop hs _ ih => exact .modeOr hlt hop hs ih
  | modeUpd hlt hop hs _ ih => exact .modeUpd hlt hop hs ih
  | assertMd hlt hop hp hs _ ih => exact .assertMd hlt hop hp hs ih
  | modeGuard hlt hop hg hs _ ih => exact .modeGuard hlt hop hg hs ih
  | modeTest hlt hop hg hs _ ih => exact .modeTest hlt hop hg hs ih
  | havoc hlt hop _ hs _ ih1 ih2 => exact .havoc hlt hop ih1 hs ih2
  | call hlt hop _ hrlt hret hs _ ih1 ih2 => exact .call hlt hop ih1 hrlt hret hs ih2
  | idone F => exact .idone F
  | igrow hg _ ih => exact .igrow hg ih
  | ienter hf _ _ ih1 ih2 => exact .ienter (hsub _ hf) ih1 ih2

theorem ob_entries_mono {G : Graph} {es : List Nat} (hsub : ∀ f ∈ es, f ∈ G.entries)
    {b : Bool} {n F md c F' md' : Nat} (ho : Ob (G.withEntries es) b n F md c F' md') : Ob G b n F md c F' md' := by
  induction ho with
  | here hr => exact .here (ex_entries_mono hsub hr)
  | inCall hr hlt hop _ ih => exact .inCall (ex_entries_mono hsub hr) hlt hop ih
  | inHavoc hr hlt hop _ ih => exact .inHavoc (ex_entries_mono hsub hr) hlt hop ih
  | iskipGrow hg _ ih => exact .iskipGrow hg ih
  | iskipEnter hf hr _ ih => exact .iskipEnter (hsub _ hf) (ex_entries_mono hsub hr) ih
  | iin hf _ ih => exact .iin (hsub _ hf) ih

/-- ★ `interp_sound` with the entry points *defined* as the address-taken functions of the slice: the interpreter (and any
    code outside the slice) may call, at any time and to any depth, every function of the slice whose address occurs
    anywhere in the program; `entriesCover` (per-run obligation `gen_entries`) says the checked entry list contains them. -/
theorem interp_sound_addr (need : String → String → Nat → List Nat) (G : Graph) (C : Cert) (h : certOK need G C = true)
    (ids : List Nat) (taken : List Nat) (hcov : entriesCover ids G.entries taken = true)
    (F0 c F md : Nat) (fn nm : String) (hobs : Ob (G.withEntries (addrEntries ids taken)) true 0 F0 0 c F md)
    (hlt : c < G.size) (hc : (G.node c).op = .libc fn nm) (R : Nat) (hR : R ∈ need fn nm md) : subMask R F = false :=
  interp_sound need G C h F0 c F md fn nm (ob_entries_mono (addrEntries_sub hcov) hobs) hlt hc R hR

theorem checker_sound_entry_addr (need : String → String → Nat → List Nat) (G : Graph) (C : Cert) (h : certOK need G C = true)
    (ids : List Nat) (taken : List Nat) (hcov : entriesCover ids G.entries taken = true)
    (F0 c F md : Nat) (fn nm : String) (hlt : c < G.size) (hc : (G.node c).op = .libc fn nm)
    (R : Nat) (hR : R ∈ need fn nm md) (hdis : subMask R F0 = true) :
    ¬ Ob (G.withEntries (addrEntries ids taken)) true 0 F0 0 c F md :=
  fun hobs => checker_sound_entry need G C h F0 c F md fn nm hlt hc R hR hdis (ob_entries_mono (addrEntries_sub hcov) hobs)

/-! ### the property end to end: flag-word system (threads) + program graph -/

/-- ★ Same thread, later: once a requirement group `R` of the OS-level call `c` is disabled in thread `tid`, then after ANY
    sequence of operations of any threads (further `sandbox` calls, thread starts, anything else) an interpreter run of that
    thread never reaches `c`. -/
theorem stays_enforced (need : String → String → Nat → List Nat) (G : Graph) (C : Cert) (h : certOK need G C = true)
    (s : Sys) (tid fl : Nat) (hs : s[tid]? = some fl) (ops : List SysOp)
    (c F md : Nat) (fn nm : String) (hlt : c < G.size) (hc : (G.node c).op = .libc fn nm)
    (R : Nat) (hR : R ∈ need fn nm md) (hdis : subMask R fl = true) :
    ∃ fl', (s.run ops)[tid]? = some fl' ∧ ¬ Ob G true 0 fl' 0 c F md := by
  obtain ⟨fl', h1, hm⟩ := flags_monotone ops s tid fl hs
  exact ⟨fl', h1, checker_sound_entry need G C h fl' c F md fn nm hlt hc R hR (subMask_trans hdis hm)⟩

/-- ★ A thread started later: if `R` is disabled in thread `tid` when it starts a thread, then whatever any thread does
    afterwards, an interpreter run of the NEW thread never reaches `c`. -/
theorem thread_enforced (need : String → String → Nat → List Nat) (G : Graph) (C : Cert) (h : certOK need G C = true)
    (s : Sys) (tid fl : Nat) (hs : s[tid]? = some fl) (ops : List SysOp)
    (c F md : Nat) (fn nm : String) (hlt : c < G.size) (hc : (G.node c).op = .libc fn nm)
    (R : Nat) (hR : R ∈ need fn nm md) (hdis : subMask R fl = true) :
    ∃ fl', ((s.step (.spawn tid)).run ops)[s.length]? = some fl' ∧ ¬ Ob G true 0 fl' 0 c F md := by
  obtain ⟨fl', h1, hm⟩ := thread_keeps_parent_flags s tid fl hs ops
  exact ⟨fl', h1, checker_sound_entry need G C h fl' c F md fn nm hlt hc R hR (subMask_trans hdis hm)⟩

/-! ### the tracked variables are independent bit fields -/

theorem upd_read (md k o f : Nat) (hkf : k &&& f = 0) (hof : o &&& f = o) : ((md &&& k) ||| o) &&& f = o := by
  rw [Nat.and_or_distrib_right, Nat.and_assoc, hkf, Nat.and_zero, Nat.zero_or, hof]

theorem upd_keep (md k o g : Nat) (hkg : k &&& g = g) (hog : o &&& g = 0) : ((md &&& k) ||| o) &&& g = md &&& g := by
  rw [Nat.and_or_distrib_right, Nat.and_assoc, hkg, hog, Nat.or_zero]

theorem or_keep (md x g : Nat) (hxg : x &&& g = 0) : (md ||| x) &&& g = md &&& g := by
  rw [Nat.and_or_distrib_right, hxg, Nat.or_zero]

theorem fields_facts : ∀ f ∈ fields, (wordAll - f) &&& f = 0 ∧
    ∀ g ∈ fields, g ≠ f → (wordAll - f) &&& g = g ∧ f &&& g = 0 := by decide

theorem within_other {o f g : Nat} (hof : o &&& f = o) (hfg : f &&& g = 0) : o &&& g = 0 := by
  rw [← hof, Nat.and_assoc, hfg, Nat.and_zero]

/-- ★ a `modeUpd` node accepted by `fieldsOK` is an assignment `x := o` to ONE tracked variable (field `f`): afterwards the
    field holds `o`, and every other tracked variable holds what it held before -/
theorem upd_semantics (k o : Nat) (h : opFieldsOK (.modeUpd k o) = true) (md : Nat) :
    ∃ f ∈ fields, ((md &&& k) ||| o) &&& f = o ∧ ∀ g ∈ fields, g ≠ f → ((md &&& k) ||| o) &&& g = md &&& g := by
  unfold opFieldsOK at h
  rw [List.any_eq_true] at h
  obtain ⟨f, hf, hk⟩ := h
  rw [Bool.and_eq_true] at hk
  have hk1 : k = wordAll - f := beq_iff_eq.mp hk.1
  have hof : o &&& f = o := beq_iff_eq.mp hk.2
  obtain ⟨h0, hoth⟩ := fields_facts f hf
  refine ⟨f, hf, ?_, ?_⟩
  · rw [hk1]; exact upd_read md _ o f h0 hof
  · intro g hg hne
    obtain ⟨h1, h2⟩ := hoth g hg hne
    rw [hk1]; exact upd_keep md _ o g h1 (within_other hof h2)

/-- ★ a `modeOr` node accepted by `fieldsOK` is `x |= c` on the open-flags or the assert-mask variable: no other tracked
    variable changes -/
theorem or_semantics (x : Nat) (h : opFieldsOK (.modeOr x) = true) (md : Nat) :
    ∃ f ∈ fields, (md ||| x) &&& f = (md &&& f) ||| x ∧ ∀ g ∈ fields, g ≠ f → (md ||| x) &&& g = md &&& g := by
  unfold opFieldsOK at h
  rw [Bool.or_eq_true] at h
  have key : ∀ f ∈ fields, x &&& f = x →
      (md ||| x) &&& f = (md &&& f) ||| x ∧ ∀ g ∈ fields, g ≠ f → (md ||| x) &&& g = md &&& g := by
    intro f hf hx
    refine ⟨by rw [Nat.and_or_distrib_right, hx], ?_⟩
    intro g hg hne
    exact or_keep md x g (within_other hx ((fields_facts f hf).2 g hg hne).2)
  cases h with
  | inl hl => exact ⟨fieldLo, by decide, key fieldLo (by decide) (beq_iff_eq.mp hl)⟩
  | inr hr => exact ⟨fieldHi, by decide, key fieldHi (by decide) (beq_iff_eq.mp hr)⟩

/-- ★ a `modeTest` node accepted by `fieldsOK` looks at ONE guard variable only: two words that agree on that field take the
    same branch -/
theorem test_semantics (m v : Nat) (eq : Bool) (_h : opFieldsOK (.modeTest m v eq) = true) (md md' : Nat)
    (hagree : md &&& m = md' &&& m) : (((md &&& m) == v) == eq) = (((md' &&& m) == v) == eq) := by
  rw [hagree]

/-- non-vacuity: writing guard variable 1 of a word that holds open flags 577, assert mask 96 and guard 0 = 1 -/
example : opFieldsOK (.modeUpd (wordAll - fieldGuard 1) (1 <<< 56)) = true ∧
    (((577 + 96 <<< 16 + 1 <<< 48) &&& (wordAll - fieldGuard 1)) ||| (1 <<< 56)) = 577 + 96 <<< 16 + 1 <<< 48 + 1 <<< 56 := by decide
/-- … and an assignment that spills into a neighbouring field is rejected -/
example : opFieldsOK (.modeUpd (wordAll - fieldGuard 1) (1 <<< 48)) = false ∧ opFieldsOK (.modeUpd 65535 0) = false := by decide

/-! ### the `mayGrow` summary -/

/-- ★ a callee that the slice transcribes as "no event" never reaches - through direct calls or type-compatible indirect
    calls, to any depth - a function that writes the flag word -/
theorem benign_never_writes {may : Nat → Bool} {edges : List (Nat × Nat)} {benign writers : List Nat}
    (h : mayGrowOK may edges benign writers = true) {g w : Nat} (hg : g ∈ benign) (hp : CallPath edges g w) : w ∉ writers := by
  unfold mayGrowOK at h
  simp only [Bool.and_eq_true, List.all_eq_true] at h
  obtain ⟨⟨he, hb⟩, hw⟩ := h
  have hng : may g = false := by
    have := hb g hg
    simpa using this
  have hnw : may w = false := by
    clear hg
    induction hp with
    | refl a => exact hng
    | @step a b c hab _ ih =>
      apply ih
      have := he (a, b) hab
      simp only [hng, Bool.false_or] at this
      simpa using this
  intro hmem
  have := hw w hmem
  rw [hnw] at this
  cases this

/-! ### non-vacuity -/

/-- a two-function graph: entry `f0` asserts fs-write then calls `f1`, which removes a file -/
def exNodes : Array Node := #[⟨0, .assert 32, [1]⟩, ⟨0, .call 1 0, [2]⟩, ⟨0, .ret, []⟩,
                      ⟨1, .libc "f1" "remove", [4]⟩, ⟨1, .ret, []⟩]
def exG : Graph := ⟨5, fun n => exNodes.getD n ⟨0, .nop, []⟩, fun f => #[0, 3].getD f 0, [0]⟩
def exC : Cert := ⟨fun n => #[[(0, [])], [(0, [32])], [(0, [32])], [(0, [32])], [(0, [32])]].getD n [],
  fun f => #[[32], [32]].getD f [], fun _ => true⟩
example : certOK need exG exC = true := by decide
/-- the call is really reachable when fs-write is enabled (flag word 64 = only fs-read disabled), through the interpreter -/
example : Ob exG true 0 64 0 3 64 0 :=
  .iin (f := 0) (by decide)
    (.inCall (.assert (n := 0) (s := 1) (by decide) rfl (by decide) (by decide) (.refl 1 64 0)) (g := 1) (by decide) rfl
      (.here (.refl 3 64 0)))
/-- without the assert the checker rejects: the shape of `os/rm` on the pinned tree -/
example : certOK need ⟨2, fun n => #[⟨0, .libc "os_remove" "remove", [1]⟩, ⟨0, .ret, []⟩].getD n ⟨0, .nop, []⟩, fun _ => 0, [0]⟩
    ⟨fun _ => [(0, [])], fun _ => [], fun _ => true⟩ = false := by
  decide
/-- the shape of the `os/open :a` escape: the read-write open is reached with no assert; a certificate that tracks the mode
    cannot be accepted, while the fixed shape (assert fs-read|fs-write on that branch) is -/
example : certOK need ⟨3, fun n => #[⟨0, .modeOr 2, [1]⟩, ⟨0, .libc "os_open" "open64", [2]⟩, ⟨0, .ret, []⟩].getD n ⟨0, .nop, []⟩, fun _ => 0, [0]⟩
    ⟨fun n => #[[(0, [])], [(2, [])], [(2, [])]].getD n [], fun _ => [], fun _ => true⟩ = false := by decide
example : certOK need ⟨4, fun n => #[⟨0, .assert 96, [1]⟩, ⟨0, .modeOr 2, [2]⟩, ⟨0, .libc "os_open" "open64", [3]⟩, ⟨0, .ret, []⟩].getD n ⟨0, .nop, []⟩,
      fun _ => 0, [0]⟩
    ⟨fun n => #[[(0, [])], [(0, [32, 64])], [(2, [32, 64])], [(2, [32, 64])]].getD n [], fun _ => [], fun _ => true⟩ = true := by decide
/-- collected mask: `x = 0; x |= FS_WRITE (on the :c path); x = FS_READ (the seeded `=` for `|=`); assert(x); open(O_CREAT)`
    is rejected (the certificate can only know fs-read at the open, mode O_CREAT needs fs-write); with `|=` it is accepted -/
example : certOK need ⟨6, fun n => #[⟨0, .modeUpd 65535 0, [1]⟩, ⟨0, .modeOr 64, [2]⟩, ⟨0, .modeOr (32 <<< 16), [3]⟩, ⟨0, .modeUpd 65535 (64 <<< 16), [4]⟩,
      ⟨0, .assertMd 16, [5]⟩, ⟨0, .libc "os_open" "open64", []⟩].getD n ⟨0, .nop, []⟩, fun _ => 0, [0]⟩
    ⟨fun n => #[[(0, [])], [(0, [])], [(64, [])], [(64 + 32 <<< 16, [])], [(64 + 64 <<< 16, [])], [(64 + 64 <<< 16, [64])]].getD n [],
     fun _ => [], fun _ => true⟩ = false := by decide
example : certOK need ⟨6, fun n => #[⟨0, .modeUpd 65535 0, [1]⟩, ⟨0, .modeOr 64, [2]⟩, ⟨0, .modeOr (32 <<< 16), [3]⟩, ⟨0, .modeOr (64 <<< 16), [4]⟩,
      ⟨0, .assertMd 16, [5]⟩, ⟨0, .libc "os_open" "open64", []⟩].getD n ⟨0, .nop, []⟩, fun _ => 0, [0]⟩
    ⟨fun n => #[[(0, [])], [(0, [])], [(64, [])], [(64 + 32 <<< 16, [])], [(64 + 96 <<< 16, [])], [(64 + 96 <<< 16, [32, 64])]].getD n [],
     fun _ => [], fun _ => true⟩ = true := by decide
/-- helper keyed by a constant argument: `f1(passive)` asserts `passive ? LISTEN : CONNECT` and resolves; called with 1 from an
    entry that then listens: accepted; the same helper called with 0 is rejected at `listen` -/
def exH (m0 : Nat) : Graph := ⟨9, fun n => #[⟨0, .call 1 m0, [1]⟩, ⟨0, .libc "f0" "listen", [2]⟩, ⟨0, .ret, []⟩,
      ⟨1, .nop, [4, 6]⟩, ⟨1, .modeGuard 0 false, [5]⟩, ⟨1, .assert 8, [8]⟩, ⟨1, .modeGuard 0 true, [7]⟩, ⟨1, .assert 4, [8]⟩,
      ⟨1, .ret, []⟩].getD n ⟨0, .nop, []⟩, fun f => #[0, 3].getD f 0, [0]⟩
example : certOK need (exH 1) ⟨fun n => #[[(0, [])], [(0, [8])], [(0, [8])], [(1, [])], [(1, [])], [(1, [])], [(1, [])], [], [(1, [8])]].getD n [],
    fun f => #[[], [8]].getD f [], fun _ => true⟩ = true := by decide
example : certOK need (exH 0) ⟨fun n => #[[(0, [])], [(0, [4])], [(0, [4])], [(0, [])], [(0, [])], [], [(0, [])], [(0, [])], [(0, [4])]].getD n [],
    fun f => #[[], [4]].getD f [], fun _ => true⟩ = false := by decide
/-- guard variables (`modeTest`): `rd = 0; wr = 0; loop { 'r': rd = 1; assert READ | 'w': wr = 1; assert WRITE };
    if (rd && !wr) open(O_RDONLY) else { assert READ|WRITE; open(O_RDWR) }` - the read-only open has no assert of its own on
    that branch, the per-character assert protects it: accepted with the guards.  Field of `rd`: bits 48..55, of `wr`: 56..63. -/
def exT (guarded : Bool) : Graph := ⟨12, fun n => #[
      ⟨0, .nop, [1, 3, 5]⟩,                                                    -- loop head: 'r' | 'w' | done
      ⟨0, .modeUpd (1208925819614629174706175 - 255 <<< 48) (1 <<< 48), [2]⟩, ⟨0, .assert 64, [0]⟩,
      ⟨0, .modeUpd (1208925819614629174706175 - 255 <<< 56) (1 <<< 56), [4]⟩, ⟨0, .assert 32, [0]⟩,
      ⟨0, .nop, if guarded then [6, 7] else [8, 9]⟩,                           -- if (rd …
      ⟨0, .modeTest (255 <<< 48) 0 false, [10]⟩,                               --   rd != 0  → && !wr
      ⟨0, .modeTest (255 <<< 48) 0 true, [9]⟩,                                 --   rd == 0  → else
      ⟨0, .libc "os_open" "open64", [11]⟩,                                     -- open(O_RDONLY): mode bits 0
      ⟨0, .assert 96, [11]⟩,                                                   -- else: assert READ|WRITE (then open O_RDWR, elided)
      ⟨0, .modeTest (255 <<< 56) 0 true, [8]⟩,                                 --   wr == 0 → then-branch
      ⟨0, .ret, []⟩].getD n ⟨0, .nop, []⟩, fun _ => 0, [0]⟩
/-- certificates computed by tools/gen/sandbox.py `certify` on these two graphs -/
def exTK (guarded : Bool) : Nat → List Case := fun n =>
  let r := 1 <<< 48; let w := 1 <<< 56
  let all : List Case := [(0, []), (r, [64]), (w, [32]), (r + w, [32, 64])]
  if guarded then
    #[all, all, [(r, []), (r + w, [32])], all, [(w, []), (r + w, [64])], all, all, all,
      [(r, [64])], [(0, []), (w, [32])], [(r, [64]), (r + w, [32, 64])], [(0, [32, 64]), (r, [64]), (w, [32, 64])]].getD n []
  else
    #[all, all, [(r, []), (r + w, [32])], all, [(w, []), (r + w, [64])], all, [], [], all, all, [], all].getD n []
example : certOK need (exT true) ⟨exTK true, fun _ => [64], fun _ => true⟩ = true := by decide
/-- … and without the guards (every path possible) the open is reachable with `rd = 0`, where nothing is known: rejected -/
example : certOK need (exT false) ⟨exTK false, fun _ => [], fun _ => true⟩ = false := by decide
/-- the end-to-end statements are not vacuous: thread 0 has fs-write disabled, starts a thread, which then also disables
    fs-read; `remove` (node 3 of `exG`) is never reached in the new thread -/
example (F : Nat) : ∃ fl', ((Sys.run (Sys.step [32] (.spawn 0)) [.sandbox 1 64])[1]? = some fl') ∧ ¬ Ob exG true 0 fl' 0 3 F 0 :=
  thread_enforced need exG exC (by decide) [32] 0 32 rfl [.sandbox 1 64] 3 F 0 "f1" "remove" (by decide) rfl 32 (by decide) (by decide)
/-- assert-forwarding helper `need(cap) { janet_sandbox_assert(cap); }` (`assertMd 0`: the word of the activation is the
    constant argument): cloned per constant it has one postcondition per constant and `need(32); remove(); need(64); stat()`
    is accepted; as ONE function its postcondition is the join of both calls and `stat` is not covered
    (certificates computed by tools/gen/sandbox.py `certify`) -/
def exN (cloned : Bool) : Graph :=
  if cloned then
    ⟨9, fun n => #[⟨0, .call 1 32, [1]⟩, ⟨0, .libc "f0" "remove", [2]⟩, ⟨0, .call 2 64, [3]⟩, ⟨0, .libc "f0" "stat", [4]⟩, ⟨0, .ret, []⟩,
        ⟨1, .assertMd 0, [6]⟩, ⟨1, .ret, []⟩, ⟨2, .assertMd 0, [8]⟩, ⟨2, .ret, []⟩].getD n ⟨0, .nop, []⟩, fun f => #[0, 5, 7].getD f 0, [0]⟩
  else
    ⟨7, fun n => #[⟨0, .call 1 32, [1]⟩, ⟨0, .libc "f0" "remove", [2]⟩, ⟨0, .call 1 64, [3]⟩, ⟨0, .libc "f0" "stat", [4]⟩, ⟨0, .ret, []⟩,
        ⟨1, .assertMd 0, [6]⟩, ⟨1, .ret, []⟩].getD n ⟨0, .nop, []⟩, fun f => #[0, 5].getD f 0, [0]⟩
example : certOK need (exN true) ⟨fun n => #[[(0, [])], [(0, [32])], [(0, [32])], [(0, [32, 64])], [(0, [32, 64])], [(32, [])], [(32, [32])],
    [(64, [32])], [(64, [32, 64])]].getD n [], fun f => #[[32, 64], [32], [32, 64]].getD f [], fun _ => true⟩ = true := by decide
example : certOK need (exN false) ⟨fun n => #[[(0, [])], [(0, [32])], [(0, [32])], [(0, [32])], [(0, [32])], [(32, []), (64, [32])],
    [(32, [32]), (64, [32, 64])]].getD n [], fun f => #[[32], [32]].getD f [], fun _ => true⟩ = false := by decide
/-- the name table check accepts a function that occurs once per constant argument (repeated program id) -/
example : namesAgree ["a", "b", "c", "d"] [1, 1, 3] #["b", "b", "d"] = true ∧ namesAgree ["a", "b", "c", "d"] [1, 1, 3] #["b", "c", "d"] = false := by decide
example : sandboxOp 0 96 = some 96 ∧ sandboxOp 1 96 = none := by decide
example : sandboxCfun keywordTable 64 ["fs-write", "net"] = some (64 + 32 + 12) ∧ sandboxCfun keywordTable 0 ["fs", "bogus"] = none ∧
    sandboxCfun keywordTable 1 ["fs"] = none := by decide

end JanetModel.Sandbox.Sound
