/-
C18 - SPECIFICATION TABLE (hand written, trusted, meant to be read):
which OS-level call needs which sandbox capability to be *enabled*.

A requirement is a list of *groups* (bit masks).  Meaning of a group `R` for a call `c`:
"if every capability in `R` has been disabled, `c` must not be performed".
Single-capability calls have one single-bit group.  Mode-dependent calls (`fopen`, `open`: read or write
depending on the mode argument) and calls shared by two features (`getaddrinfo`: connect or listen;
`dlopen`/`dlsym`: native modules or FFI) have one multi-bit group in `sensitive` (which features the call belongs to);
what is *required* at a call site is refined by `need` below: `needOpen` / `needFileFlags` (by the tracked mode),
`siteRole` / `byRole` (by the enclosing C function), `needAddrinfo` (by the constant `passive` argument).
The dynamic sweep (harness/C18) checks the same per observed call with its own per-binding table.

tools/gen/sandbox.py reads the *names* in `sensitive`, `benign` and `spawners` from this file (single source).
-/
namespace JanetModel.Sandbox

abbrev Mask := Nat

/-! Capability bits (janet.h `JANET_SANDBOX_*`; `Gen.Sandbox.defines` is compared against `capTable`). -/
abbrev capSandbox : Mask := 1
abbrev capSubprocess : Mask := 2
abbrev capNetConnect : Mask := 4
abbrev capNetListen : Mask := 8
abbrev capFfiDefine : Mask := 16
abbrev capFsWrite : Mask := 32
abbrev capFsRead : Mask := 64
abbrev capHrtime : Mask := 128
abbrev capEnv : Mask := 256
abbrev capModules : Mask := 512
abbrev capFsTemp : Mask := 1024
abbrev capFfiUse : Mask := 2048
abbrev capFfiJit : Mask := 4096
abbrev capSignal : Mask := 8192

/-- header constant name ↦ value expected by this specification -/
def capTable : List (String × Nat) := [
  ("JANET_SANDBOX_SANDBOX", 1), ("JANET_SANDBOX_SUBPROCESS", 2), ("JANET_SANDBOX_NET_CONNECT", 4),
  ("JANET_SANDBOX_NET_LISTEN", 8), ("JANET_SANDBOX_FFI_DEFINE", 16), ("JANET_SANDBOX_FS_WRITE", 32),
  ("JANET_SANDBOX_FS_READ", 64), ("JANET_SANDBOX_HRTIME", 128), ("JANET_SANDBOX_ENV", 256),
  ("JANET_SANDBOX_DYNAMIC_MODULES", 512), ("JANET_SANDBOX_FS_TEMP", 1024), ("JANET_SANDBOX_FFI_USE", 2048),
  ("JANET_SANDBOX_FFI_JIT", 4096), ("JANET_SANDBOX_SIGNAL", 8192),
  ("JANET_FILE_WRITE", 1), ("JANET_FILE_READ", 2), ("JANET_FILE_APPEND", 4), ("JANET_FILE_UPDATE", 8)]

/-- keyword accepted by `(sandbox …)` ↦ mask it must disable (corelib.c `sandbox_options[]`). -/
def keywordTable : List (String × Nat) := [
  ("all", 4294967295),
  ("env", 256),
  ("ffi", 16 + 2048 + 4096),
  ("ffi-define", 16),
  ("ffi-jit", 4096),
  ("ffi-use", 2048),
  ("fs", 32 + 64 + 1024),
  ("fs-read", 64),
  ("fs-temp", 1024),
  ("fs-write", 32),
  ("hrtime", 128),
  ("modules", 512),
  ("net", 4 + 8),
  ("net-connect", 4),
  ("net-listen", 8),
  ("sandbox", 1),
  ("signal", 8192),
  ("subprocess", 2)]

/-- OS-level call (libc symbol, external variable, or the runtime's raw FFI trampoline) ↦ requirement. -/
def sensitive : List (String × List Mask) := [
  -- file system, write
  ("remove", [capFsWrite]), ("unlink", [capFsWrite]), ("unlinkat", [capFsWrite]), ("rename", [capFsWrite]),
  ("renameat", [capFsWrite]), ("mkdir", [capFsWrite]), ("mkdirat", [capFsWrite]), ("rmdir", [capFsWrite]),
  ("link", [capFsWrite]), ("linkat", [capFsWrite]), ("symlink", [capFsWrite]), ("symlinkat", [capFsWrite]),
  ("chmod", [capFsWrite]), ("fchmodat", [capFsWrite]), ("chown", [capFsWrite]), ("lchown", [capFsWrite]),
  ("utime", [capFsWrite]), ("utimes", [capFsWrite]), ("utimensat", [capFsWrite]), ("truncate", [capFsWrite]),
  ("truncate64", [capFsWrite]), ("mkfifo", [capFsWrite]), ("mknod", [capFsWrite]), ("creat", [capFsWrite]),
  ("creat64", [capFsWrite]),
  -- file system, read
  ("opendir", [capFsRead]), ("scandir", [capFsRead]), ("stat", [capFsRead]), ("stat64", [capFsRead]),
  ("lstat", [capFsRead]), ("lstat64", [capFsRead]), ("fstatat", [capFsRead]), ("fstatat64", [capFsRead]),
  ("statx", [capFsRead]), ("access", [capFsRead]), ("faccessat", [capFsRead]),
  ("readlink", [capFsRead]), ("readlinkat", [capFsRead]), ("realpath", [capFsRead]), ("chdir", [capFsRead]),
  ("inotify_add_watch", [capFsRead]),
  -- file system, by mode
  ("open", [capFsRead ||| capFsWrite]), ("open64", [capFsRead ||| capFsWrite]), ("openat", [capFsRead ||| capFsWrite]),
  ("openat64", [capFsRead ||| capFsWrite]), ("fopen", [capFsRead ||| capFsWrite]), ("fopen64", [capFsRead ||| capFsWrite]),
  ("freopen", [capFsRead ||| capFsWrite]), ("freopen64", [capFsRead ||| capFsWrite]),
  -- temporary files
  ("tmpfile", [capFsTemp]), ("tmpfile64", [capFsTemp]), ("mkstemp", [capFsTemp]), ("mkstemp64", [capFsTemp]),
  ("mkdtemp", [capFsTemp]), ("tmpnam", [capFsTemp]), ("tempnam", [capFsTemp]), ("mktemp", [capFsTemp]),
  -- network
  ("connect", [capNetConnect]),
  ("bind", [capNetConnect ||| capNetListen]),   -- net/connect binds the local end when given :bindhost
  ("listen", [capNetListen]),
  ("getaddrinfo", [capNetConnect ||| capNetListen]), ("gethostbyname", [capNetConnect ||| capNetListen]),
  -- subprocesses
  ("fork", [capSubprocess]), ("vfork", [capSubprocess]), ("execv", [capSubprocess]), ("execve", [capSubprocess]),
  ("execvp", [capSubprocess]), ("execvpe", [capSubprocess]), ("execl", [capSubprocess]), ("execlp", [capSubprocess]),
  ("execle", [capSubprocess]), ("fexecve", [capSubprocess]), ("posix_spawn", [capSubprocess]),
  ("posix_spawnp", [capSubprocess]), ("system", [capSubprocess]), ("popen", [capSubprocess]),
  -- environment
  ("getenv", [capEnv]), ("secure_getenv", [capEnv]), ("setenv", [capEnv]), ("unsetenv", [capEnv]),
  ("putenv", [capEnv]), ("clearenv", [capEnv]), ("environ", [capEnv]),
  -- dynamic modules / FFI
  ("dlopen", [capModules ||| capFfiDefine]), ("dlmopen", [capModules ||| capFfiDefine]),
  ("dlsym", [capModules ||| capFfiDefine]), ("dlvsym", [capModules ||| capFfiDefine]),
  ("janet_ffi_sysv64", [capFfiUse]), ("janet_ffi_aapcs64", [capFfiUse]), ("janet_ffi_win64", [capFfiUse]),
  ("mmap", [capFfiJit]), ("mmap64", [capFfiJit]), ("mprotect", [capFfiJit]),
  -- signal handlers
  ("sigaction", [capSignal]), ("signal", [capSignal]), ("sigset", [capSignal]), ("bsd_signal", [capSignal]),
  -- high resolution time
  ("clock_gettime", [capHrtime]), ("clock_gettime64", [capHrtime]), ("gettimeofday", [capHrtime]),
  ("clock", [capHrtime]), ("mach_absolute_time", [capHrtime])]

/-- Reviewed exemptions: `(C function, call)` sites that are the runtime's own use of a sensitive call and do not
    act on behalf of the program. -/
def exempt : List (String × String) := [
  ("ts_now", "clock_gettime"),        -- event-loop deadline arithmetic (ev.c); the value is never returned to the program
  ("janet_cryptorand", "open64"),     -- fixed path /dev/urandom (os/cryptorand)
  ("janet_ev_init_common", "sigaction"),  -- event-loop start-up: reads the SIGPIPE disposition …
  ("janet_ev_init_common", "signal"),     -- … and ignores SIGPIPE if the host left the default (writes to a closed pipe
                                          -- must give EPIPE, not kill the process); no program-supplied handler is involved
  ("os_execute_impl", "signal"),      -- around fork/exec: SIGPIPE back to the default for the new program, then ignored again
  ("os_execute_impl", "environ")      -- the child process is handed the parent's environment block (or a caller-made
                                      -- one); no variable is read for or returned to the program
]

/-- Functions that take a function pointer and run it once (in a worker thread) on behalf of the caller: a constant
    function argument is treated as a *call* at that point (the worker does the work the caller was allowed to start). -/
def spawners : List String := ["janet_ev_threaded_call", "janet_ev_threaded_await"]

/-- External symbols reviewed as not being an operation of any sandboxed kind (memory, strings, maths, threads and
    locks, I/O on handles that are already open, waiting for / signalling processes that already exist, terminal,
    time of day at one-second resolution, the event loop's own descriptors). -/
def benign : List String := [
  "malloc", "calloc", "realloc", "free", "abort", "exit", "_Exit", "longjmp", "_setjmp", "__errno_location",
  "strlen", "strcmp", "strncmp", "strchr", "strdup", "strerror_r", "memcmp", "atoi", "__ctype_b_loc", "snprintf",
  "fprintf", "fputs", "putc", "fflush", "fgetc", "feof", "ferror", "fread", "fwrite", "fseek", "ftell", "fclose",
  "fileno", "setvbuf", "fdopen", "fstat64", "dup", "close", "read", "write", "pipe", "fcntl64", "isatty",
  "pthread_mutexattr_init", "pthread_mutexattr_settype", "pthread_mutex_init", "pthread_mutex_destroy",
  "pthread_mutex_lock", "pthread_mutex_unlock", "pthread_rwlock_init", "pthread_rwlock_destroy",
  "pthread_rwlock_rdlock", "pthread_rwlock_wrlock", "pthread_rwlock_unlock", "pthread_attr_init",
  "pthread_attr_setdetachstate", "pthread_attr_destroy", "pthread_cancel", "pthread_join", "pthread_create",
  "pthread_exit", "timerfd_settime", "timerfd_create", "epoll_wait", "epoll_create1", "epoll_ctl", "sleep", "nanosleep",
  "recvfrom", "recv", "sendto", "send", "socket", "shutdown", "getsockopt", "setsockopt", "getsockname", "getpeername",
  "accept4", "accept", "freeaddrinfo", "gai_strerror", "htonl", "ntohs", "inet_pton", "inet_ntop",
  "dlerror", "dlclose", "munmap",
  "ldexp", "acos", "asin", "atan", "cos", "cosh", "acosh", "sin", "sinh", "asinh", "tan", "tanh", "atanh", "exp", "exp2",
  "expm1", "log", "log10", "log2", "sqrt", "cbrt", "log1p", "erf", "erfc", "lgamma", "tgamma", "atan2", "pow", "hypot",
  "nextafter", "frexp", "fmod",
  "sched_getaffinity", "__sched_cpucount", "kill", "getpid", "waitpid", "raise", "sigaddset", "sigemptyset", "sigprocmask",
  "time", "strftime", "mktime", "timegm", "tzset", "localtime_r", "gmtime_r", "setlocale",
  "getcwd", "umask", "readdir64", "closedir",
  "inotify_init1", "inotify_rm_watch",
  "posix_spawn_file_actions_init", "posix_spawn_file_actions_addchdir_np", "posix_spawn_file_actions_adddup2",
  "posix_spawn_file_actions_addclose", "posix_spawn_file_actions_destroy",
  "posix_spawnattr_init", "posix_spawnattr_destroy", "posix_spawnattr_setflags", "posix_spawnattr_setsigdefault",
  "stdin", "stdout", "stderr"]

def lookup (name : String) : List (String × List Mask) → Option (List Mask)
  | [] => none
  | (k, v) :: t => if k == name then some v else lookup name t

/-! open(2): the requirement follows the flags argument.  The translator tracks the flags variable of the calling
    function, projected onto `modeRelevant` (Linux values of O_ACCMODE, O_CREAT, O_TRUNC; O_APPEND/O_EXCL/O_SYNC/… do not
    change what kind of access the descriptor gives).  Access mode 3 is not a valid mode and is used by the translator for
    "flags argument could not be tracked": it requires both capabilities. -/
abbrev modeRelevant : Nat := 3 ||| 64 ||| 512

def openLike : List String := ["open", "open64", "openat", "openat64"]

def needOpen (md : Nat) : List Mask :=
  let acc := md &&& 3
  (if acc == 0 || acc == 2 || acc == 3 then [capFsRead] else []) ++
  (if acc == 1 || acc == 2 || acc == 3 || md &&& 64 != 0 || md &&& 512 != 0 then [capFsWrite] else [])

/-! fopen: the mode string is parsed by io.c `checkflags`, whose result (JANET_FILE_* bits: WRITE 1, READ 2, APPEND 4,
    UPDATE 8) says what the file will be opened for.  The translator tracks that result variable in the functions listed in
    `modeFunctions` and places the pseudo call `janet-file-flags` where the value is handed back: at that point the
    capabilities matching the parsed mode must have been asserted.  ("w+" truncates: write-kind only; "a+" can read what
    was there.)  That libc's fopen reads the same string the same way is part of the trusted base and is compared with the
    observed mode strings by the dynamic sweep. -/
abbrev fileFlagsRelevant : Nat := 1 ||| 2 ||| 4 ||| 8

def modeFunctions : List (String × String) := [("checkflags", "janet-file-flags")]

def needFileFlags (md : Nat) : List Mask :=
  (if md &&& (1 ||| 4 ||| 8) != 0 then [capFsWrite] else []) ++
  (if md &&& 2 != 0 || (md &&& 4 != 0 && md &&& 8 != 0) then [capFsRead] else [])

/-! Calls shared by two features (`dlopen`/`dlsym`: native modules or FFI; `getaddrinfo`/`bind`: connecting or listening):
    the capability follows from what the enclosing C function does with it.  `siteRole` is the reviewed table of call sites;
    a call site that is NOT listed must have asserted every capability of `byRole` (so a new site is reported until it is
    reviewed and given its role here). -/
def byRole : List (String × List Mask) := [
  ("dlopen", [capModules, capFfiDefine]), ("dlmopen", [capModules, capFfiDefine]),
  ("dlsym", [capModules, capFfiDefine]), ("dlvsym", [capModules, capFfiDefine]),
  ("getaddrinfo", [capNetConnect, capNetListen]), ("gethostbyname", [capNetConnect, capNetListen]),
  ("bind", [capNetConnect, capNetListen])]

def siteRole : List ((String × String) × Mask) := [
  (("janet_native", "dlopen"), capModules),              -- corelib.c: `native`, loading a native module
  (("janet_native", "dlsym"), capModules),
  (("janet_core_raw_native", "dlopen"), capFfiDefine),   -- ffi.c: `ffi/native`
  (("janet_core_native_lookup", "dlsym"), capFfiDefine), -- ffi.c: `ffi/lookup`
  (("cfun_net_connect", "getaddrinfo"), capNetConnect),  -- net/connect: resolving :bindhost for the outgoing connection
  (("cfun_net_connect", "bind"), capNetConnect),         -- net/connect: binding the local end
  (("cfun_net_listen", "bind"), capNetListen)]           -- net/listen

def lookupSite (k : String × String) : List ((String × String) × Mask) → Option Mask
  | [] => none
  | (k', v) :: t => if k' == k then some v else lookupSite k t

/-! net.c `janet_get_addrinfo(argv, offset, socktype, passive, is_unix)` is shared by net/address, net/connect (passive = 0)
    and net/listen (passive = 1: `AI_PASSIVE`, an address to bind and listen on).  `paramModes` names the parameter (index)
    whose *constant* argument value becomes the callee's tracked variable (`Op.call g m0`; the translator checks that the
    callee never assigns it and that every call site passes an integer constant - anything else is an ExtractError).
    A `janet_sandbox_assert(p ? A : B)` on that parameter becomes two guarded arms (`Op.modeGuard`). -/
def paramModes : List (String × Nat) := [("janet_get_addrinfo", 3)]

def needAddrinfo (md : Nat) : List Mask :=
  if md == 0 then [capNetConnect] else [capNetListen]

/-- requirement of call `name` made from C function `fn` while the tracked flags variable of the activation is `md`
    (`[]` = nothing required) -/
def need (fn name : String) (md : Nat) : List Mask :=
  if exempt.contains (fn, name) then []
  else if openLike.contains name then needOpen md
  else if name == "janet-file-flags" then needFileFlags md
  else if fn == "janet_get_addrinfo" && name == "getaddrinfo" then needAddrinfo md
  else match lookupSite (fn, name) siteRole with
    | some r => [r]
    | none => match lookup name byRole with
      | some rs => rs
      | none => (lookup name sensitive).getD []

/-- every external symbol of the program is classified (sensitive or reviewed-benign) -/
def classified (name : String) : Bool :=
  (lookup name sensitive).isSome || benign.contains name

def allKnown : List String := sensitive.map (·.1) ++ benign

/-- same, with an (untrusted) index into `allKnown` for each name so that the kernel does one comparison per name -/
def classifiedAll (names : List String) (idx : List Nat) : Bool :=
  names.length == idx.length && (names.zip idx).all (fun p => allKnown.getD p.2 "" == p.1)

end JanetModel.Sandbox
