import JanetModel.Sandbox.Cap
/-
C18 - model of the sandbox flag word and of the program as a sliced interprocedural control-flow graph.

* Flag word: `janet_vm.sandbox_flags` (thread local).  Transitions (vm.c `janet_sandbox`, `janet_sandbox_assert`,
  ev.c `janet_go_thread_subr`): see `Thread`, `Sys` below.
* Program: `Graph` = nodes (one *event* each) with successor lists, grouped into functions.  Generated from the LLVM
  IR of the amalgamation by tools/gen/sandbox.py (`Gen.Sandbox.graph`).
* `Reach`/`Obs`: big-step executions of the graph under the real semantics of the flag word
  (an assert is passed only when none of its capabilities is disabled; `havoc` = the flag word may have grown).
* `certOK`: executable checker of an untrusted certificate; `Props/C18.lean` proves it sound.
-/
namespace JanetModel.Sandbox

/-! ## Flag word -/

/-- `R ⊆ F` on bit masks: every capability of `R` is disabled in `F`. -/
def subMask (r f : Nat) : Bool := r &&& f == r

/-- vm.c `janet_sandbox`: guarded by the `sandbox` capability itself, then `flags |= f`.  `none` = panic. -/
def sandboxOp (flags f : Nat) : Option Nat :=
  if flags &&& capSandbox != 0 then none else some (flags ||| f)

/-- corelib.c `janet_core_sandbox`, the `(sandbox & keywords)` core function: each argument is looked up in
    `sandbox_options[]` by a linear scan that stops at the first match (`tbl`: the regenerated table `Gen.Sandbox.options`,
    equal to `Cap.keywordTable` by `gen_tables`); its mask is or-ed into a local that starts at 0; an unknown keyword panics
    before anything is changed; then `janet_sandbox(flags)`. -/
def kwLookup : List (String × Nat) → String → Option Nat
  | [], _ => none
  | (k, m) :: t, kw => if k == kw then some m else kwLookup t kw

def sandboxMask (tbl : List (String × Nat)) (acc : Nat) : List String → Option Nat
  | [] => some acc
  | k :: ks => match kwLookup tbl k with
               | some m => sandboxMask tbl (acc ||| m) ks
               | none => none

def sandboxCfun (tbl : List (String × Nat)) (flags : Nat) (kws : List String) : Option Nat :=
  match sandboxMask tbl 0 kws with
  | some m => sandboxOp flags m
  | none => none

/-- vm.c `janet_sandbox_assert`: returns (`true`) iff no capability of `m` is disabled. -/
def assertPasses (flags m : Nat) : Bool := flags &&& m == 0

/-- A system of threads, each with its own flag word (index = thread id). -/
abbrev Sys := List Nat

inductive SysOp where
  | sandbox (tid : Nat) (f : Nat)   -- thread `tid` evaluates `(sandbox …)` with mask `f`
  | spawn (tid : Nat)               -- thread `tid` starts a thread (ev/thread, ev/spawn-thread): janet_init then flags := parent's
  | other (tid : Nat)               -- anything else: flag word untouched

def Sys.step (s : Sys) : SysOp → Sys
  | .sandbox tid f =>
    match s[tid]? with
    | some fl => match sandboxOp fl f with
                 | some fl' => s.set tid fl'
                 | none => s
    | none => s
  | .spawn tid =>
    match s[tid]? with
    | some fl => s ++ [fl]
    | none => s
  | .other _ => s

def Sys.run (s : Sys) : List SysOp → Sys
  | [] => s
  | o :: os => (s.step o).run os

/-! ## Program graph -/

inductive Op where
  | nop
  | assert (m : Nat)                    -- call of janet_sandbox_assert with constant mask
  | libc (fn : String) (name : String)  -- OS-level call `name` made by C function `fn`
  | call (g : Nat) (m0 : Nat)           -- direct call (or hand-over to a worker thread) of function `g` of the slice; the
                                        -- callee's tracked variable starts at `m0` (constant argument bound to a parameter
                                        -- listed in `Cap.paramModes`; 0 for every other function)
  | havoc                               -- indirect call, call into the interpreter / of a function that may reach
                                        -- janet_sandbox, store to the flag word: the interpreter runs (see `Ex`)
  | ret
  | modeSet (m : Nat)                   -- the tracked open(2)-flags variable of this activation := m  (relevant bits only)
  | modeOr (m : Nat)                    -- … |= m
  | modeUpd (keep : Nat) (or : Nat)     -- … := (… &&& keep) ||| or   (assignment to one of two variables packed in the word)
  | assertMd (shift : Nat)              -- call of janet_sandbox_assert with the tracked *mask variable* (32 bits at `shift`):
                                        -- `x = 0; x |= C1; if (…) x |= C2; janet_sandbox_assert(x)`
  | modeGuard (v : Nat) (eq : Bool)     -- control passes only when `(md == v) == eq`: one arm of `p ? A : B` where `p` is the
                                        -- tracked parameter (`Cap.paramModes`)
  | modeTest (mask v : Nat) (eq : Bool) -- control passes only when `((md &&& mask) == v) == eq`: one edge of a conditional
                                        -- branch `if (x)` / `if (x == K)` on a tracked *guard variable* `x` (an int local that
                                        -- is only ever assigned constants; it lives in the bit field `mask` of the word)
  deriving Repr, DecidableEq

structure Node where
  fn : Nat
  op : Op
  succs : List Nat
  deriving Repr

/-- Nodes are numbered `0 … size-1`; `node`, `fnEntry` are total lookup functions (the generated graph implements them
    by chunked array access so that the kernel can evaluate the checker quickly). -/
structure Graph where
  size : Nat
  node : Nat → Node
  fnEntry : Nat → Nat      -- entry node of each function
  entries : List Nat       -- functions callable from outside the slice (address escapes)

/-- One *case* of the knowledge at a program point: the exact value of the tracked mode variable and a list of groups
    `G` (bit masks), each meaning "some capability of `G` is still enabled" (`¬ G ⊆ flags`). -/
abbrev Case := Nat × List Nat

/-- Untrusted certificate.  Per node a list of cases (disjunction: one of them describes the current state; no case =
    unreachable); per function a postcondition (groups only) and a purity flag.  The precondition of a function is the
    case list of its entry node: one case per initial value of the tracked variable (`Op.call g m0`). -/
structure Cert where
  k : Nat → List Case      -- per node, on entry to the node
  fpost : Nat → List Nat   -- per function, at every return
  isPure : Nat → Bool      -- per function: never changes the flag word

/-- two-level table lookup used by the generated graph and certificate -/
def chunkGet {α : Type} (chunks : Array (Array α)) (d : α) (n : Nat) : α :=
  (chunks.getD (n / 32) #[]).getD (n % 32) d

/-- group `g'` follows from knowledge `ks`: some known group is contained in it -/
def imp (g' : Nat) (ks : List Nat) : Bool := ks.any (fun g => subMask g g')
def impAll (gs ks : List Nat) : Bool := gs.all (fun g' => imp g' ks)

/-- all groups of `ks` hold of the flag word `f` -/
def holds (ks : List Nat) (f : Nat) : Prop := ∀ g ∈ ks, subMask g f = false

/-- some case of `K` describes (mode `md`, flag word `f`) -/
def inv (K : List Case) (md f : Nat) : Prop := ∃ c ∈ K, c.1 = md ∧ holds c.2 f

/-- `K'` has a case with mode `m` all of whose groups satisfy `p` -/
def cover (K' : List Case) (m : Nat) (p : Nat → Bool) : Bool := K'.any (fun c' => c'.1 == m && c'.2.all p)

section semantics
variable (G : Graph)

/-- Executions.  `Ex false n F md n' F' md'`: starting at node `n` with flag word `F` and mode variable `md`, control
    reaches node `n'` *of the same activation* with `F'`, `md'` (calls are executed to completion, with a fresh mode variable
    that starts at the call's `m0`).
    `Ex true 0 F 0 0 F' 0`: a run of the interpreter / of code outside the slice that changes the flag word from `F` to `F'`:
    any sequence of (a) growth of the flag word (janet_sandbox) and (b) calls of entry points of the graph, each executed
    up to any point (completion, or abandoned by a panic) - under the same thread-global flag word.
    A `havoc` node is exactly such a run. -/
inductive Ex : Bool → Nat → Nat → Nat → Nat → Nat → Nat → Prop
  | refl (n F md) : Ex false n F md n F md
  | nop {n F md s n' F' md'} : n < G.size → (G.node n).op = .nop → s ∈ (G.node n).succs →
      Ex false s F md n' F' md' → Ex false n F md n' F' md'
  | libc {n F md s n' F' md' fn nm} : n < G.size → (G.node n).op = .libc fn nm → s ∈ (G.node n).succs →
      Ex false s F md n' F' md' → Ex false n F md n' F' md'
  | assert {n F md s n' F' md' m} : n < G.size → (G.node n).op = .assert m → assertPasses F m = true →
      s ∈ (G.node n).succs → Ex false s F md n' F' md' → Ex false n F md n' F' md'
  | modeSet {n F md s n' F' md' m} : n < G.size → (G.node n).op = .modeSet m → s ∈ (G.node n).succs →
      Ex false s F m n' F' md' → Ex false n F md n' F' md'
  | modeOr {n F md s n' F' md' m} : n < G.size → (G.node n).op = .modeOr m → s ∈ (G.node n).succs →
      Ex false s F (md ||| m) n' F' md' → Ex false n F md n' F' md'
  | modeUpd {n F md s n' F' md' kp o} : n < G.size → (G.node n).op = .modeUpd kp o → s ∈ (G.node n).succs →
      Ex false s F ((md &&& kp) ||| o) n' F' md' → Ex false n F md n' F' md'
  | assertMd {n F md s n' F' md' sh} : n < G.size → (G.node n).op = .assertMd sh →
      assertPasses F ((md >>> sh) &&& 4294967295) = true →
      s ∈ (G.node n).succs → Ex false s F md n' F' md' → Ex false n F md n' F' md'
  | modeGuard {n F md s n' F' md' v eq} : n < G.size → (G.node n).op = .modeGuard v eq → ((md == v) == eq) = true →
      s ∈ (G.node n).succs → Ex false s F md n' F' md' → Ex false n F md n' F' md'
  | modeTest {n F md s n' F' md' k v eq} : n < G.size → (G.node n).op = .modeTest k v eq →
      (((md &&& k) == v) == eq) = true → s ∈ (G.node n).succs → Ex false s F md n' F' md' → Ex false n F md n' F' md'
  | havoc {n F md F1 s n' F' md'} : n < G.size → (G.node n).op = .havoc → Ex true 0 F 0 0 F1 0 →
      s ∈ (G.node n).succs → Ex false s F1 md n' F' md' → Ex false n F md n' F' md'
  | call {n F md g m0 r F1 mdr s n' F' md'} : n < G.size → (G.node n).op = .call g m0 →
      Ex false (G.fnEntry g) F m0 r F1 mdr → r < G.size → (G.node r).op = .ret →
      s ∈ (G.node n).succs → Ex false s F1 md n' F' md' → Ex false n F md n' F' md'
  | idone (F) : Ex true 0 F 0 0 F 0
  | igrow {F F1 F2} : subMask F F1 = true → Ex true 0 F1 0 0 F2 0 → Ex true 0 F 0 0 F2 0
  | ienter {F f m F1 md1 F2} : f ∈ G.entries → Ex false (G.fnEntry f) F 0 m F1 md1 → Ex true 0 F1 0 0 F2 0 →
      Ex true 0 F 0 0 F2 0

/-- Observations.  `Ob false n F md c F' md'`: starting at `n`, node `c` is reached - in this activation, inside a callee,
    or inside an entry point re-entered from a `havoc` node, at any depth - with flag word `F'` and (its activation's) mode
    `md'`.  `Ob true 0 F 0 c F' md'`: same, during an interpreter run that starts with flag word `F`. -/
inductive Ob : Bool → Nat → Nat → Nat → Nat → Nat → Nat → Prop
  | here {n F md c F' md'} : Ex G false n F md c F' md' → Ob false n F md c F' md'
  | inCall {n F md n1 F1 md1 g m0 c F' md'} : Ex G false n F md n1 F1 md1 → n1 < G.size → (G.node n1).op = .call g m0 →
      Ob false (G.fnEntry g) F1 m0 c F' md' → Ob false n F md c F' md'
  | inHavoc {n F md n1 F1 md1 c F' md'} : Ex G false n F md n1 F1 md1 → n1 < G.size → (G.node n1).op = .havoc →
      Ob true 0 F1 0 c F' md' → Ob false n F md c F' md'
  | iskipGrow {F F1 c F' md'} : subMask F F1 = true → Ob true 0 F1 0 c F' md' → Ob true 0 F 0 c F' md'
  | iskipEnter {F f m F1 md1 c F' md'} : f ∈ G.entries → Ex G false (G.fnEntry f) F 0 m F1 md1 →
      Ob true 0 F1 0 c F' md' → Ob true 0 F 0 c F' md'
  | iin {F f c F' md'} : f ∈ G.entries → Ob false (G.fnEntry f) F 0 c F' md' → Ob true 0 F 0 c F' md'

end semantics

/-! ## Checker -/

def caseOK (need : String → String → Nat → List Nat) (G : Graph) (C : Cert) (nd : Node) (m : Nat) (gs : List Nat) : Bool :=
  match nd.op with
  | .nop => nd.succs.all (fun s => cover (C.k s) m (fun g' => imp g' gs))
  | .libc fn nm => nd.succs.all (fun s => cover (C.k s) m (fun g' => imp g' gs)) && (need fn nm m).all (fun r => imp r gs)
  | .assert a => nd.succs.all (fun s => cover (C.k s) m (fun g' => g' &&& a != 0 || imp g' gs))
  | .modeSet x => nd.succs.all (fun s => cover (C.k s) x (fun g' => imp g' gs))
  | .modeOr x => nd.succs.all (fun s => cover (C.k s) (m ||| x) (fun g' => imp g' gs))
  | .modeUpd kp o => nd.succs.all (fun s => cover (C.k s) ((m &&& kp) ||| o) (fun g' => imp g' gs))
  | .assertMd sh => nd.succs.all (fun s => cover (C.k s) m (fun g' => g' &&& ((m >>> sh) &&& 4294967295) != 0 || imp g' gs))
  | .modeGuard v eq => !((m == v) == eq) || nd.succs.all (fun s => cover (C.k s) m (fun g' => imp g' gs))
  | .modeTest k v eq => !(((m &&& k) == v) == eq) || nd.succs.all (fun s => cover (C.k s) m (fun g' => imp g' gs))
  | .havoc => nd.succs.all (fun s => cover (C.k s) m (fun _ => false))
  | .call g m0 => cover (C.k (G.fnEntry g)) m0 (fun g' => imp g' gs) &&
      nd.succs.all (fun s => cover (C.k s) m (fun g' => (C.isPure g && imp g' gs) || imp g' (C.fpost g)))
  | .ret => impAll (C.fpost nd.fn) gs

def nodeOK (need : String → String → Nat → List Nat) (G : Graph) (C : Cert) (n : Nat) : Bool :=
  let nd := G.node n
  -- structural
  nd.succs.all (fun s => (G.node s).fn == nd.fn) &&
  (!C.isPure nd.fn || (match nd.op with
                       | .havoc => false
                       | .call g _ => C.isPure g
                       | _ => true)) &&
  (match nd.op with
   | .call g _ => (G.node (G.fnEntry g)).fn == g
   | _ => true) &&
  -- every case known at the node is carried on correctly
  (C.k n).all (fun c => caseOK need G C nd c.1 c.2)

def certOK (need : String → String → Nat → List Nat) (G : Graph) (C : Cert) : Bool :=
  (List.range G.size).all (nodeOK need G C) &&
  G.entries.all (fun f => cover (C.k (G.fnEntry f)) 0 (fun _ => false))

/-- the nodes the checker rejects (for diagnostics / the witness synthesiser) -/
def badNodes (need : String → String → Nat → List Nat) (G : Graph) (C : Cert) : List Nat :=
  (List.range G.size).filter (fun n => !nodeOK need G C n)

/-! ## The tracked variables of an activation are bit fields of one word

`md` packs up to six variables of the C function: the open(2)-flags variable (bits 0..15), the assert-mask variable (bits
16..47) and up to four guard variables (8 bits each from bit 48).  `fieldsOK` (per-run obligation `gen_fieldsOK`) checks
that every node of the regenerated graph reads / writes ONE of these fields and nothing else; `Sound.upd_semantics` etc. show
that such a node is an assignment to that variable which leaves the other variables alone. -/
abbrev fieldLo : Nat := 65535
abbrev fieldHi : Nat := 4294967295 <<< 16
def fieldGuard (k : Nat) : Nat := 255 <<< (48 + 8 * k)
abbrev wordAll : Nat := 1208925819614629174706175     -- 2^80 - 1
def fields : List Nat := [fieldLo, fieldHi, fieldGuard 0, fieldGuard 1, fieldGuard 2, fieldGuard 3]

def opFieldsOK : Op → Bool
  | .modeSet m => m &&& fieldLo == m || m &&& fieldHi == m            -- (functions with ONE tracked variable only)
  | .modeOr x => x &&& fieldLo == x || x &&& fieldHi == x
  | .modeUpd k o => fields.any (fun f => k == wordAll - f && o &&& f == o)
  | .modeTest m v _ => (List.range 4).any (fun j => m == fieldGuard j) && v &&& m == v
  | .assertMd sh => sh == 16 || sh == 0
  | _ => true

def fieldsOK (G : Graph) : Bool := (List.range G.size).all (fun n => opFieldsOK (G.node n).op)

/-! ## Out-parameter functions: one clone per value the activation stores through the parameter

`janet_get_addrinfo(…, int *is_unix)` only ever does `*is_unix = constant`, and an activation stores at most one value (checked by
the translator on the CFG).  The translator emits one graph function per case "stores v" / "stores nothing" (value 256), in
which the stores of the other constants are `nop` nodes WITHOUT successors (an activation of that case never executes them), and
the call becomes a fork to one arm per clone: `call clone_v; x := v` (`modeUpd` on the caller's guard variable).
`outParamsOK` (per-run obligation `gen_outParams`) checks on the regenerated graph that nothing else distinguishes the clones:
same events and same edges node by node, except that at a listed store of `c` exactly the clones for other values stop; that
every stored constant and "nothing" has a clone; that every fork offers every clone of the family, each followed by the
assignment of that clone's value to one guard field; and that no other node calls a clone. -/
def relSuccs (G : Graph) (e j : Nat) : List Nat := (G.node (e + j)).succs.map (· - e)

def storeAt (j : Nat) : List (Nat × Nat) → Option Nat
  | [] => none
  | (k, c) :: t => if k == j then some c else storeAt j t

/-- node `j` of clone `(f, v)` against node `j` of the family's first clone `f0` -/
def outNodeOK (G : Graph) (stores : List (Nat × Nat)) (f0 f v j : Nat) : Bool :=
  let e0 := G.fnEntry f0
  let e := G.fnEntry f
  let b := G.node (e + j)
  b.fn == f && b.succs.all (fun s => e ≤ s) &&
  match storeAt j stores with
  | some c => b.op == .nop && (v == c || b.succs == [])
  | none => b.op == (G.node (e0 + j)).op && relSuccs G e j == relSuccs G e0 j

def outFamilyOK (G : Graph) (fam : Nat × List (Nat × Nat) × List (Nat × Nat)) : Bool :=
  match fam.2.1 with
  | [] => false
  | (f0, _) :: _ =>
    fam.2.1.all (fun fv => (List.range fam.1).all (fun j => outNodeOK G fam.2.2 f0 fv.1 fv.2 j)) &&
    fam.2.2.all (fun st => st.1 < fam.1 && st.2 < 256 && fam.2.1.any (fun fv => fv.2 == st.2)) &&
    fam.2.1.any (fun fv => fv.2 == 256)

/-- arm of a fork: `call f _`, and for a clone that stores `v` into a tracked guard variable at `off`: then `x := v` -/
def outArmOK (G : Graph) (off : Nat) (fv : Nat × Nat) (a : Nat) : Bool :=
  (match (G.node a).op with
   | .call g _ => g == fv.1
   | _ => false) &&
  (off == 0 || fv.2 == 256 ||
    match (G.node a).succs with
    | [u] => (G.node u).op == .modeUpd (wordAll - (255 <<< off)) (fv.2 <<< off)
    | _ => false)

def outSiteOK (G : Graph) (fams : List (Nat × List (Nat × Nat) × List (Nat × Nat))) (site : Nat × Nat × Nat) : Bool :=
  match fams[site.2.1]? with
  | none => false
  | some fam =>
    (G.node site.1).op == .nop && (G.node site.1).succs.length == fam.2.1.length &&
    (site.2.2 == 0 || (List.range 4).any (fun k => site.2.2 == 48 + 8 * k)) &&
    (fam.2.1.zip (G.node site.1).succs).all (fun p => outArmOK G site.2.2 p.1 p.2)

def outParamsOK (G : Graph) (fams : List (Nat × List (Nat × Nat) × List (Nat × Nat))) (sites : List (Nat × Nat × Nat)) : Bool :=
  fams.all (outFamilyOK G) && sites.all (outSiteOK G fams) &&
  -- a clone is called from the arms of the listed forks only
  (List.range G.size).all (fun n =>
    match (G.node n).op with
    | .call g _ => !(fams.any (fun fam => fam.2.1.any (fun fv => fv.1 == g))) ||
                   sites.any (fun site => (G.node site.1).succs.contains n)
    | _ => true) &&
  G.entries.all (fun f => !(fams.any (fun fam => fam.2.1.any (fun fv => fv.1 == f))))

/-! ## Entry points = address-taken functions of the slice

Functions of the *program* are identified by their position in the IR (`Gen.Sandbox.progFns`: id ↦ C name, definition
order); `ids` maps the functions of the slice (graph function index) to program ids.  (Comparing names as strings is ~2 ms
per comparison in the kernel; the numbering is checked against the name table of the graph by `namesAgree`.) -/

/-- same graph, other entry list -/
def Graph.withEntries (G : Graph) (es : List Nat) : Graph := { G with entries := es }

/-- The functions of the slice whose address is taken anywhere in the program (`taken`: program ids found by the
    translator's independent scan of the IR text for every mention of a defined function outside the callee position of a
    direct call - initialisers of `JanetReg`/`JanetMethod`/abstract-type tables, stores, call arguments). -/
def addrEntries (ids : List Nat) (taken : List Nat) : List Nat :=
  (List.range ids.length).filter (fun i => taken.contains (ids.getD i 0))

/-- executable form of `∀ f ∈ taken, f ∈ slice → f ∈ entries` (evaluated function by function of the slice) -/
def entriesCover (ids : List Nat) (entries : List Nat) (taken : List Nat) : Bool :=
  (List.range ids.length).all (fun i => entries.contains i || !taken.contains (ids.getD i 0))

/-- Functions handed to a spawner (`Cap.spawners`) as a constant argument are *called* at the hand-over point: for every
    such (function, caller) pair with the function in the slice, the caller is in the slice and has a `call` node for it. -/
def handoversOK (G : Graph) (ids : List Nat) (hs : List (Nat × Nat)) : Bool :=
  hs.all (fun h =>
    let g := ids.idxOf h.1
    let f := ids.idxOf h.2
    g ≥ ids.length ||
      (f < ids.length && (List.range G.size).any (fun n => (G.node n).fn == f &&
        (match (G.node n).op with
         | .call g' _ => g' == g
         | _ => false))))

/-- `x` once for every leading element of `ids` equal to `k`, and the remaining ids -/
def takeEq (x : String) (k : Nat) : List Nat → List String × List Nat
  | [] => ([], [])
  | i :: is => if i == k then let r := takeEq x k is; (x :: r.1, r.2) else ([], i :: is)

/-- the names of `prog` (position `k`, `k+1`, …) at the non-decreasing positions `ids`; a position may be repeated: a
    parameter-keyed function (`Cap.paramModes`, assert-forwarding helpers) occurs once per constant argument -/
def pickNames : List String → Nat → List Nat → List String
  | [], _, _ => []
  | _ :: _, _, [] => []
  | x :: xs, k, ids => let r := takeEq x k ids; r.1 ++ pickNames xs (k + 1) r.2

/-- the slice's name table is the program's name table at the slice's (non-decreasing) ids -/
def namesAgree (prog : List String) (ids : List Nat) (names : Array String) : Bool :=
  pickNames prog 0 ids == names.toList

/-! ## The summary `mayGrow` of functions outside the slice -/

/-- Certificate check for the translator's summary: no call edge leaves the complement of `may` into `may`, the callees that
    the slice treats as "no event" are outside `may`, and every function that writes the flag word is inside. -/
def mayGrowOK (may : Nat → Bool) (edges : List (Nat × Nat)) (benign writers : List Nat) : Bool :=
  edges.all (fun e => may e.1 || !may e.2) && benign.all (fun g => !may g) && writers.all may

/-- `b` is reachable from `a` through the listed call edges -/
inductive CallPath (edges : List (Nat × Nat)) : Nat → Nat → Prop
  | refl (a) : CallPath edges a a
  | step {a b c} : (a, b) ∈ edges → CallPath edges b c → CallPath edges a c

/-! ## Side tables -/

def tableEq (a b : List (String × Nat)) : Bool := a == b

/-- every header constant the specification knows has the expected value and no single-bit capability is unknown -/
def definesOK (defs spec : List (String × Nat)) : Bool :=
  spec.all (fun p => defs.contains p) && defs.all (fun p => spec.contains p)

/-- every capability of the header (`JANET_SANDBOX_*` single bits in `defs`) can be disabled on its own by some keyword of
    the table, and the keyword `all` disables every one of them -/
def keywordsCover (tbl defs : List (String × Nat)) : Bool :=
  (defs.filter (fun d => d.1.startsWith "JANET_SANDBOX_")).all (fun d =>
    tbl.any (fun o => o.2 == d.2) &&
    (match kwLookup tbl "all" with
     | some a => subMask d.2 a
     | none => false))

/-- the flag word is written only by: janet_init (zero, a fresh VM), janet_sandbox (or-in), janet_go_thread_subr
    (copy of the parent's word: `janet_init(); flags = msg->argi`), and the embedding API janet_vm_load (whole-VM restore; not
    reachable from core functions).  The list has EVERY store to the word found in the IR, every use of its address other
    than load/store (`addr`), every access to the field through a JanetVM pointer (`viaptr`) and every whole-VM overwrite;
    a store of any other shape has kind `other`. -/
def flagWritesOK (ws : List (String × String)) : Bool :=
  ws.all (fun w => [("janet_init", "zero"), ("janet_sandbox", "or"), ("janet_go_thread_subr", "copy"),
                    ("janet_vm_load", "vmcopy")].contains w) &&
  ws.contains ("janet_sandbox", "or") && ws.contains ("janet_go_thread_subr", "copy")

/-- Shape of thread start (ev.c), regenerated by tools/gen/sandbox.py `thread_start_shape`: the function with the `copy`
    store runs `janet_init` and then sets the flag word from the `argi` field of its message; EVERY site that hands that
    function to a spawner stores the *current* flag word of the calling thread into that field (or passes it as the `argi`
    argument of janet_ev_threaded_await, which forwards it).  This is `SysOp.spawn`: the child starts with its parent's
    word.  Any other use of the function (direct call, address stored elsewhere, a hand-over whose `argi` is not a load of
    the flag word) is listed with a different fact and rejected. -/
def threadStartFacts : List String := [
  "janet_init; flags := msg.argi",
  "janet_ev_threaded_call: msg.argi := flags",
  "janet_ev_threaded_await: argi := flags",
  "msg.argi := parameter argi; janet_ev_threaded_call(fp, msg)",
  -- the message path inside the spawner (tools/gen/sandbox.py `thread_message_path`, data flow):
  "init.msg := arguments; init.subr := fp; pthread_create(body, init)",   -- janet_ev_threaded_call: whole-struct copy into the
                                                                         -- heap block handed to the new thread, not patched afterwards
  "msg := init.msg; subr := init.subr; subr(msg)"]                        -- the thread body calls the subroutine with that copy

/-- Thread start followed step by step, as a configuration of regenerated booleans (the general statement is proved under
    `allChecked`; the instance for the current tree is `gen_threadStart`). -/
structure ThreadCfg where
  handover : Bool   -- every site that hands the thread-start subroutine to a spawner puts the CURRENT flag word into msg.argi
                    -- (directly, or as the `argi` argument of janet_ev_threaded_await) - and no site does anything else with it
  forward : Bool    -- janet_ev_threaded_await forwards its `argi` parameter as msg.argi to janet_ev_threaded_call
  carried : Bool    -- janet_ev_threaded_call copies the message whole into the block it hands to pthread_create, and the thread
                    -- body calls the subroutine with that copy
  initCopy : Bool   -- the subroutine runs janet_init (word := 0) and then word := msg.argi
  deriving DecidableEq, Repr

def ThreadCfg.allChecked (c : ThreadCfg) : Bool := c.handover && c.forward && c.carried && c.initCopy

def threadCfgOf (ts : List (String × String)) : ThreadCfg :=
  { handover := ts.all (fun t => threadStartFacts.contains t.2) &&
      ts.any (fun t => t.2 == "janet_ev_threaded_call: msg.argi := flags" || t.2 == "janet_ev_threaded_await: argi := flags"),
    forward := ts.contains ("janet_ev_threaded_await", "msg.argi := parameter argi; janet_ev_threaded_call(fp, msg)"),
    carried := ts.contains ("janet_ev_threaded_call", "init.msg := arguments; init.subr := fp; pthread_create(body, init)") &&
      ts.contains ("thread body", "msg := init.msg; subr := init.subr; subr(msg)"),
    initCopy := ts.contains ("janet_go_thread_subr", "janet_init; flags := msg.argi") }

/-- The flag word a new thread ends up with, following the message from the hand-over site to the subroutine; `junk` stands
    for whatever a step that is NOT of the checked shape may deliver. -/
def spawnC (c : ThreadCfg) (parent junk : Nat) : Nat :=
  let atSite := if c.handover && c.forward then parent else junk      -- msg.argi as handed to janet_ev_threaded_call
  let atSubr := if c.carried then atSite else junk                    -- msg.argi as seen by the subroutine in the new thread
  if c.initCopy then atSubr else 0                                    -- janet_init zeroes the word; then the copy (or not)

def threadStartOK (ts : List (String × String)) : Bool := (threadCfgOf ts).allChecked

/-- Data-flow shape of the two C functions behind `(sandbox & keywords)`, regenerated by tools/gen/sandbox.py
    `sandbox_cfun_shape` (loop syntax, block order and local names are free):
    * vm.c `janet_sandbox` = `sandboxOp`: the `sandbox` capability (mask 1 = `capSandbox`) is asserted first, then
      `flags |= parameter`, nothing else;
    * the C function registered as `sandbox` = `sandboxCfun`: exactly one call of `janet_sandbox`; its argument is a local
      that starts at 0 and is otherwise only or-ed with the `flag` field of an entry of `sandbox_options[]` (the accumulator
      of `sandboxMask`; the entries are `Gen.Sandbox.options`, compared with `Cap.keywordTable` by `gen_tables`); the entry
      pointer only takes the values `sandbox_options`, `+1`; an unknown keyword ends in the noreturn `janet_panic*`.
    Which entry is or-ed in for which keyword (first match by name) is tied by the keyword-sequence scenarios only. -/
def sandboxShapeFacts : List (String × String) := [
  ("janet_sandbox", "janet_sandbox_assert(1); flags |= parameter"),
  ("janet_core_sandbox", "mask := 0; mask |= opt->flag; janet_sandbox(mask)"),
  ("janet_core_sandbox", "opt := sandbox_options; opt++"),
  ("janet_core_sandbox", "unknown keyword: janet_panic*; unreachable")]

def sandboxShapeOK (fs : List (String × String)) : Bool :=
  fs.all (fun f => sandboxShapeFacts.contains f) && sandboxShapeFacts.all (fun f => fs.contains f)

end JanetModel.Sandbox
