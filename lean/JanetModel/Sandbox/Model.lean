import JanetModel.Sandbox.Cap
/-
C18 - model of the sandbox flag word and of the program as a sliced interprocedural control-flow graph.

* Flag word: `janet_vm.sandbox_flags` (thread local).  Transitions (vm.c `janet_sandbox`, `janet_sandbox_assert`,
  ev.c `janet_go_thread_subr`): see `Thread`, `Sys` below.
* Program: `Graph` = nodes (one *event* each) with successor lists, grouped into functions.  Generated from the LLVM
  IR of the amalgamation by tools/gen/sandbox.py (`Gen.Sandbox.graph`).
* `Reach`/`Obs`: big-step executions of the graph under the real semantics of the flag word
  (an assert is passed only when none of its capabilities is disabled; `havoc` = the flag word may have grown).
* `certOK`: executable checker of an untrusted certificate; `Props/C18.lean` proves it sound.
-/
namespace JanetModel.Sandbox

/-! ## Flag word -/

/-- `R ⊆ F` on bit masks: every capability of `R` is disabled in `F`. -/
def subMask (r f : Nat) : Bool := r &&& f == r

/-- vm.c `janet_sandbox`: guarded by the `sandbox` capability itself, then `flags |= f`.  `none` = panic. -/
def sandboxOp (flags f : Nat) : Option Nat :=
  if flags &&& capSandbox != 0 then none else some (flags ||| f)

/-- vm.c `janet_sandbox_assert`: returns (`true`) iff no capability of `m` is disabled. -/
def assertPasses (flags m : Nat) : Bool := flags &&& m == 0

/-- A system of threads, each with its own flag word (index = thread id). -/
abbrev Sys := List Nat

inductive SysOp where
  | sandbox (tid : Nat) (f : Nat)   -- thread `tid` evaluates `(sandbox …)` with mask `f`
  | spawn (tid : Nat)               -- thread `tid` starts a thread (ev/thread, ev/spawn-thread): janet_init then flags := parent's
  | other (tid : Nat)               -- anything else: flag word untouched

def Sys.step (s : Sys) : SysOp → Sys
  | .sandbox tid f =>
    match s[tid]? with
    | some fl => match sandboxOp fl f with
                 | some fl' => s.set tid fl'
                 | none => s
    | none => s
  | .spawn tid =>
    match s[tid]? with
    | some fl => s ++ [fl]
    | none => s
  | .other _ => s

def Sys.run (s : Sys) : List SysOp → Sys
  | [] => s
  | o :: os => (s.step o).run os

/-! ## Program graph -/

inductive Op where
  | nop
  | assert (m : Nat)                    -- call of janet_sandbox_assert with constant mask
  | libc (fn : String) (name : String)  -- OS-level call `name` made by C function `fn`
  | call (g : Nat)                      -- direct call (or hand-over to a worker thread) of function `g` of the slice
  | havoc                               -- indirect call, call into the interpreter / of a function that may reach
                                        -- janet_sandbox, store to the flag word: the flag word may have grown
  | ret
  deriving Repr, DecidableEq

structure Node where
  fn : Nat
  op : Op
  succs : List Nat
  deriving Repr

/-- Nodes are numbered `0 … size-1`; `node`, `fnEntry` are total lookup functions (the generated graph implements them
    by chunked array access so that the kernel can evaluate the checker quickly). -/
structure Graph where
  size : Nat
  node : Nat → Node
  fnEntry : Nat → Nat      -- entry node of each function
  entries : List Nat       -- functions callable from outside the slice (address escapes)

/-- Untrusted certificate.  Knowledge at a program point = list of groups `G` (bit masks), each meaning
    "some capability of `G` is still enabled" (`¬ G ⊆ flags`).  The group `0` means *false* (unreachable). -/
structure Cert where
  k : Nat → List Nat       -- per node, on entry to the node
  fpre : Nat → List Nat    -- per function, at its entry (valid at every call site)
  fpost : Nat → List Nat   -- per function, at every return
  isPure : Nat → Bool      -- per function: never changes the flag word

/-- two-level table lookup used by the generated graph and certificate -/
def chunkGet {α : Type} (chunks : Array (Array α)) (d : α) (n : Nat) : α :=
  (chunks.getD (n / 32) #[]).getD (n % 32) d

/-- group `g'` follows from knowledge `ks`: some known group is contained in it -/
def imp (g' : Nat) (ks : List Nat) : Bool := ks.any (fun g => subMask g g')
def impAll (gs ks : List Nat) : Bool := gs.all (fun g' => imp g' ks)

/-- all groups known at `n` hold of the flag word `f` -/
def holds (ks : List Nat) (f : Nat) : Prop := ∀ g ∈ ks, subMask g f = false

section semantics
variable (G : Graph)

/-- `Reach n F n' F'`: starting at node `n` with flag word `F`, control reaches node `n'` *of the same activation*
    with flag word `F'` (calls are executed to completion). -/
inductive Reach : Nat → Nat → Nat → Nat → Prop
  | refl (n F) : Reach n F n F
  | nop {n F s n' F'} : n < G.size → (G.node n).op = .nop → s ∈ (G.node n).succs → Reach s F n' F' → Reach n F n' F'
  | libc {n F s n' F' fn nm} : n < G.size → (G.node n).op = .libc fn nm → s ∈ (G.node n).succs → Reach s F n' F' → Reach n F n' F'
  | assert {n F s n' F' m} : n < G.size → (G.node n).op = .assert m → assertPasses F m = true → s ∈ (G.node n).succs →
      Reach s F n' F' → Reach n F n' F'
  | havoc {n F F1 s n' F'} : n < G.size → (G.node n).op = .havoc → subMask F F1 = true → s ∈ (G.node n).succs →
      Reach s F1 n' F' → Reach n F n' F'
  | call {n F g r F1 s n' F'} : n < G.size → (G.node n).op = .call g → Reach (G.fnEntry g) F r F1 →
      r < G.size → (G.node r).op = .ret →
      s ∈ (G.node n).succs → Reach s F1 n' F' → Reach n F n' F'

/-- `Obs n F c F'`: starting at `n` with `F`, node `c` is reached - in this activation or inside a callee, at any
    depth - with flag word `F'`. -/
inductive Obs : Nat → Nat → Nat → Nat → Prop
  | here {n F c F'} : Reach G n F c F' → Obs n F c F'
  | inside {n F n1 F1 g c F'} : Reach G n F n1 F1 → n1 < G.size → (G.node n1).op = .call g →
      Obs (G.fnEntry g) F1 c F' → Obs n F c F'

end semantics

/-! ## Checker -/

def nodeOK (need : String → String → List Nat) (G : Graph) (C : Cert) (n : Nat) : Bool :=
  let nd := G.node n
  let k := C.k n
  -- structural
  nd.succs.all (fun s => (G.node s).fn == nd.fn) &&
  (!C.isPure nd.fn || (match nd.op with
                       | .havoc => false
                       | .call g => C.isPure g
                       | _ => true)) &&
  (match nd.op with
   | .call g => (G.node (G.fnEntry g)).fn == g
   | _ => true) &&
  -- knowledge (a node at which `false` is known is unreachable: nothing to check)
  (k.contains 0 ||
   (match nd.op with
    | .nop => nd.succs.all (fun s => impAll (C.k s) k)
    | .libc fn nm => nd.succs.all (fun s => impAll (C.k s) k) && (need fn nm).all (fun r => imp r k)
    | .assert m => nd.succs.all (fun s => (C.k s).all (fun g' => g' &&& m != 0 || imp g' k))
    | .havoc => nd.succs.all (fun s => (C.k s).isEmpty)
    | .call g => impAll (C.fpre g) k && impAll (C.k (G.fnEntry g)) (C.fpre g) &&
        nd.succs.all (fun s => (C.k s).all (fun g' => (C.isPure g && imp g' k) || imp g' (C.fpost g)))
    | .ret => impAll (C.fpost nd.fn) k))

def certOK (need : String → String → List Nat) (G : Graph) (C : Cert) : Bool :=
  (List.range G.size).all (nodeOK need G C) &&
  G.entries.all (fun f => (C.k (G.fnEntry f)).isEmpty)

/-- the nodes the checker rejects (for diagnostics / the witness synthesiser) -/
def badNodes (need : String → String → List Nat) (G : Graph) (C : Cert) : List Nat :=
  (List.range G.size).filter (fun n => !nodeOK need G C n)

/-! ## Side tables -/

def tableEq (a b : List (String × Nat)) : Bool := a == b

/-- every header constant the specification knows has the expected value and no single-bit capability is unknown -/
def definesOK (defs spec : List (String × Nat)) : Bool :=
  spec.all (fun p => defs.contains p) && defs.all (fun p => spec.contains p)

/-- the flag word is written only by: janet_init (zero, a fresh VM), janet_sandbox (or-in), janet_go_thread_subr
    (copy of the parent's word), and the embedding API janet_vm_load (whole-VM restore; not reachable from core functions) -/
def flagWritesOK (ws : List (String × String)) : Bool :=
  ws.all (fun w => [("janet_init", "zero"), ("janet_sandbox", "or"), ("janet_go_thread_subr", "copy"),
                    ("janet_vm_load", "vmcopy")].contains w) &&
  ws.contains ("janet_sandbox", "or") && ws.contains ("janet_go_thread_subr", "copy")

end JanetModel.Sandbox
