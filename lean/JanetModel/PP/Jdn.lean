/- Executable model of the `%j` (JDN) printer: pp.c `print_jdn_one`, `janet_escape_string_impl`, `contains_bad_chars`.
   CORE LEAN ONLY.  Number formatting is abstract (`fmt : tag → Option text`; `none` = NaN / infinity, refused). -/
import JanetModel.Parse.Model

namespace JanetModel.PP
open JanetModel.Parse JanetModel.Gen.Parse

/-- one byte of `janet_escape_string_impl` -/
def escapeByte (c : B) : List B :=
  match ppEscape.find? (fun kv => kv.1 == c.toNat) with
  | some kv => [92, kv.2.toUInt8]
  | none =>
    if c.toNat < ppPrintLo || c.toNat > ppPrintHi then
      [92, 120, (hexAlphabet.getD ((c.toNat >>> 4) &&& 0xF) 0).toUInt8, (hexAlphabet.getD (c.toNat &&& 0xF) 0).toUInt8]
    else [c]

/-- body of the string literal (between the quotes) -/
def escapeBody (bs : List B) : List B := (bs.map escapeByte).flatten

/-- `janet_escape_string_impl` -/
def escapeString (bs : List B) : List B := [34] ++ escapeBody bs ++ [34]

/-- `contains_bad_chars`.  The extra symbol conditions exist in the source only after the C11 fix
    (`Gen.ppRefusesMisreadSymbols`); the model follows the current source. -/
def containsBadChars (scan : List B → Option String) (sym : List B) (issym : Bool) : Bool :=
  let b0 := sym.headD 0
  let extra :=
    if ppRefusesMisreadSymbols && issym then
      sym.isEmpty || b0 == 58 || isConst nilBytes sym || isConst trueBytes sym || isConst falseBytes sym
        || ((b0 == 45 || b0 == 43 || b0 == 46) && (scan sym).isSome)
    else false
  extra || (!sym.isEmpty && issym && 48 ≤ b0.toNat && b0.toNat ≤ 57) || !validUtf8 sym || !sym.all isSymbolChar

def sepBy (sep : List B) : List (List B) → List B
  | [] => []
  | [x] => x
  | x :: xs => x ++ sep ++ sepBy sep xs

def allSome {α : Type} : List (Option α) → Option (List α)
  | [] => some []
  | none :: _ => none
  | some x :: xs => (allSome xs).map (x :: ·)

/-- `print_jdn_one` (depth-fuelled exactly like the C: `depth == 0` refuses).  Dictionaries are printed in the order
    of the model's association list (the C order is hash-slot order). -/
def jdn (scan : List B → Option String) (fmt : String → Option (List B)) : Nat → Value → Option (List B)
  | 0, _ => none
  | depth + 1, v =>
    let items (l : List Value) : Option (List B) := (allSome (l.map (jdn scan fmt depth))).map (sepBy [32])
    let pairs (ks vs : List Value) : Option (List B) :=
      (allSome ((ks.zip vs).map (fun kv => match jdn scan fmt depth kv.1, jdn scan fmt depth kv.2 with
        | some a, some b => some (a ++ [32] ++ b)
        | _, _ => none))).map (sepBy [32])
    match v with
    | .nil => some nilBytes
    | .bool true => some trueBytes
    | .bool false => some falseBytes
    | .num tag => fmt tag
    | .str bs => some (escapeString bs)
    | .buf bs => some (64 :: escapeString bs)
    | .sym bs => if containsBadChars scan bs true then none else some bs
    | .kw bs => if containsBadChars scan bs false then none else some (58 :: bs)
    | .tuple br _ _ l => (items l).map (fun s => [if br then 91 else 40] ++ s ++ [if br then 93 else 41])
    | .array l => (items l).map (fun s => [64, 91] ++ s ++ [93])
    | .table ks vs => (pairs ks vs).map (fun s => [64, 123] ++ s ++ [125])
    | .struct ks vs => (pairs ks vs).map (fun s => [123] ++ s ++ [125])

end JanetModel.PP
