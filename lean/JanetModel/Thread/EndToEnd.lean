/- C08 - exactly-once up to the resumption of the receiving fiber: every item that janet_schedule handed to a fiber is in
   exactly one of: a queued task of a run queue, the `got` events of the log, the tasks skipped by janet_loop1 (`dropped`).
   Holds for every configuration and every interleaving; `dropped` stays empty when no waiting fiber is abandoned. -/
import JanetModel.Thread.Order

namespace JanetModel.Thread

def Conserved2 (s : St) : Prop :=
  ∀ x : Item, s.delivered.countP (fun d => d.2 == x) =
    s.runq.countP (fun k => k.item == some x) + (gotAll s.log).countP (fun d => d.2 == x) + s.dropped.countP (fun d => d.2 == x)

@[simp] theorem task_item_item (t f c : Nat) (x : Item) : (Task.mk t f c (.item x)).item = some x := rfl
@[simp] theorem task_item_wake (t f c : Nat) (k : Kind) : (Task.mk t f c (.wake k)).item = none := rfl
@[simp] theorem task_item_other (t f c : Nat) : (Task.mk t f c .other).item = none := rfl

theorem gotAll_append (a b : List Ev) : gotAll (a ++ b) = gotAll a ++ gotAll b := by simp [gotAll]
@[simp] theorem gotAll_gave (f : Nat) (x : Item) : gotAll [.gave f x] = [] := rfl
@[simp] theorem gotAll_got (f : Nat) (x : Item) : gotAll [.got f x] = [(f, x)] := rfl

theorem give_conserved2 (s : St) (t f : Nat) (x : Item) (h : Conserved2 s) : Conserved2 (give s t f x) := by
  intro y
  have hy := h y
  unfold give
  (repeat' split) <;> simpa [gotAll_append] using hy

theorem giveNB_conserved2 (s : St) (f : Nat) (x : Item) (h : Conserved2 s) : Conserved2 (giveNB s f x) := by
  rw [giveNB_eq]
  exact give_conserved2 { s with limit := s.items.length + 1 } 0 f x h

theorem take_conserved2 (s : St) (t f : Nat) (h : Conserved2 s) : Conserved2 (take s t f) := by
  intro y
  have hy := h y
  unfold take
  (repeat' split) <;> simp [List.countP_append, List.countP_cons] at hy ⊢ <;> omega

theorem closeLocal_countP (t : Nat) (y : Item) : ∀ (ps : List Pending) (g : Nat → Nat),
    (closeLocal t g ps).2.2.countP (fun k => k.item == some y) = 0 := by
  intro ps g
  apply List.countP_eq_zero.mpr
  intro k hk
  simp [closeLocal_item t ps g k hk]

theorem close_conserved2 (s : St) (t : Nat) (h : Conserved2 s) : Conserved2 (close s t) := by
  intro y
  have hy := h y
  unfold close
  split
  · exact hy
  · simp [List.countP_append, closeLocal_countP] at hy ⊢; omega

theorem abandon_conserved2 (s : St) (f : Nat) (h : Conserved2 s) : Conserved2 (abandon s f) := by
  intro y
  have hy := h y
  unfold abandon
  split <;> simp [List.countP_append, List.countP_cons] at hy ⊢ <;> omega

theorem cb_conserved2 (cfg : Cfg) (s : St) (m : Msg) (h : Conserved2 s) : Conserved2 (cb cfg s m) := by
  intro y
  have hy := h y
  obtain ⟨ml, mf, ms, mk⟩ := m
  unfold cb
  cases mk <;> simp only [] <;> (repeat' split) <;>
    first | exact hy | (simp [List.countP_append, List.countP_cons] at hy ⊢; omega)

theorem handle_conserved2 (cfg : Cfg) (s : St) (i : Nat) (h : Conserved2 s) : Conserved2 (handle cfg s i) := by
  unfold handle
  cases hx : extract i s.flight with
  | none => exact h
  | some mr =>
    obtain ⟨m, rest⟩ := mr
    simp only []
    split
    · exact cb_conserved2 cfg { s with flight := rest } m (fun y => h y)
    · exact h

theorem resume_conserved2 (cfg : Cfg) (s : St) (i : Nat) (h : Conserved2 s) : Conserved2 (resume cfg s i) := by
  unfold resume
  cases hx : extract i s.runq with
  | none => exact h
  | some mr =>
    obtain ⟨k, rest⟩ := mr
    simp only []
    split
    · intro y
      have hy := h y
      have hcnt := extract_countP (fun k => k.item == some y) s.runq i k rest hx
      obtain ⟨kt, kf, ks, kv⟩ := k
      unfold runTask
      cases kv <;> simp only [] <;> (repeat' split) <;>
        simp [List.countP_append, List.countP_cons, gotAll_append] at hy hcnt ⊢ <;> omega
    · exact h

theorem step_conserved2 (cfg : Cfg) (s : St) (a : Act) (h : Conserved2 s) : Conserved2 (step cfg s a) := by
  cases a with
  | give t f x => show Conserved2 (if s.waiting f then s else give s t f x); split; exact h; exact give_conserved2 s t f x h
  | take t f => show Conserved2 (if s.waiting f then s else take s t f); split; exact h; exact take_conserved2 s t f h
  | abandon f => exact abandon_conserved2 s f h
  | handle i => exact handle_conserved2 cfg s i h
  | close t => exact close_conserved2 s t h
  | resume i => exact resume_conserved2 cfg s i h
  | giveNB f x => exact giveNB_conserved2 s f x h

theorem run_conserved2 (cfg : Cfg) : ∀ (acts : List Act) (s : St), Conserved2 s → Conserved2 (run cfg acts s) := by
  intro acts
  induction acts with
  | nil => intro s h; exact h
  | cons a acts ih => intro s h; exact ih _ (step_conserved2 cfg s a h)

theorem conserved2_init (l : Nat) : Conserved2 (init l) := by
  intro x; simp [init, gotAll]

/-! ### nothing is dropped by the run loop when no waiting fiber is abandoned -/

theorem cb_dropped (cfg : Cfg) (s : St) (m : Msg) : (cb cfg s m).dropped = s.dropped := by
  obtain ⟨ml, mf, ms, mk⟩ := m
  unfold cb
  cases mk <;> simp only [] <;> (repeat' split) <;> rfl

theorem step_dropped (cfg : Cfg) (s : St) (a : Act) (ha : InvA s) : (step cfg s a).dropped = s.dropped := by
  cases a with
  | give t f x => show (if s.waiting f then s else give s t f x).dropped = _; unfold give; (repeat' split) <;> rfl
  | take t f => show (if s.waiting f then s else take s t f).dropped = _; unfold take; (repeat' split) <;> rfl
  | abandon f => show (abandon s f).dropped = _; unfold abandon; split <;> rfl
  | handle i =>
    show (handle cfg s i).dropped = _
    unfold handle
    (repeat' split) <;> first | rfl | exact cb_dropped cfg _ _
  | close t => show (close s t).dropped = _; unfold close; split <;> rfl
  | giveNB f x => show (giveNB s f x).dropped = _; unfold giveNB; (repeat' split) <;> rfl
  | resume i =>
    show (resume cfg s i).dropped = _
    unfold resume
    cases hx : extract i s.runq with
    | none => rfl
    | some mr =>
      obtain ⟨k, rest⟩ := mr
      simp only []
      split
      · obtain ⟨a, b, h1, h2⟩ := extract_split s.runq i k rest hx
        have h0 : TOK (k.tk :: tickets { s with runq := rest }) s.waiting s.sched := by
          unfold InvA tickets at *
          rw [h1] at ha
          simp only [h2]
          exact ha.sub (fun q => by simp [List.countP_append, List.countP_cons]; omega) (fun tk htk => by simp at htk ⊢; grind)
        have hc : k.sched = s.sched k.fiber := h0.head_cur
        unfold runTask
        simp only [hc, if_true]
        split <;> rfl
      · rfl

theorem run_nodrop (cfg : Cfg) : ∀ (acts : List Act) (s : St), (run cfg acts s).abandons = s.abandons → Clean s →
    (run cfg acts s).dropped = s.dropped := by
  intro acts
  induction acts with
  | nil => intro s _ _; rfl
  | cons a acts ih =>
    intro s hz h
    have hm1 := step_abandons_mono cfg s a
    have hm2 := run_abandons_mono cfg acts (step cfg s a)
    have hz' : (run cfg acts (step cfg s a)).abandons = s.abandons := hz
    have h1 : (step cfg s a).abandons = s.abandons := by omega
    have := ih (step cfg s a) (by omega) (step_clean cfg s a h1 h)
    show (run cfg acts (step cfg s a)).dropped = s.dropped
    rw [this, step_dropped cfg s a h.a]

end JanetModel.Thread
