/- C08 - the REQUEUE branch of janet_thread_chan_cb (stale read message, no other reader pending: the still packed item goes
   back into `channel->items`).  The hand-out order is the give order again after the step exactly when the item is put back at
   the FRONT (`janet_q_push_head`, `Cfg.requeueHead`): when the item was handed to the (stale) reader the queue was empty
   (a pending reader excludes queued items), so everything that is in the queue at the time of the requeue was given LATER.
   `handed` is the ghost log of dispatches; the dispatch that was returned is discounted (`handed := h1`). -/
import JanetModel.Thread.Lemmas

namespace JanetModel.Thread

/-- janet_thread_chan_cb on a stale read message with no other pending reader is exactly the requeue -/
theorem cb_requeue (cfg : Cfg) (s : St) (m : Msg) (x : Item) (hk : m.kind = .read x) (hc : cfg.checkSched = true)
    (hd : cfg.redispatch = true) (hq : cfg.requeue = true) (hst : s.sched m.fiber ≠ m.sched) (hr : s.readers = []) :
    cb cfg s m = { s with items := if cfg.requeueHead then x :: s.items else s.items ++ [x], staleReads := s.staleReads + 1 } := by
  obtain ⟨ml, mf, ms, mk⟩ := m
  simp only at hk hst
  subst hk
  have hb : (s.sched mf == ms) = false := by simpa using hst
  unfold cb
  simp [hc, hd, hq, hr, hb]

/-- the state just before the stale hand-off of `x` comes back: `x` is the LAST item that left the channel (nothing given
    after it has been taken or dispatched yet) and everything given after it is still queued, in give order -/
structure ReturnPoint (s : St) (f : Nat) (x : Item) (h1 : List (Nat × Item)) : Prop where
  noReader : s.readers = []
  last : s.handed = h1 ++ [(f, x)]
  order : h1.map Prod.snd ++ x :: s.items = s.sent

/-- requeue at the head restores `Fifo` (hand-out log ++ queue = send log) -/
theorem requeue_restores_fifo (cfg : Cfg) (hc : cfg.checkSched = true) (hd : cfg.redispatch = true) (hq : cfg.requeue = true)
    (hh : cfg.requeueHead = true) (s : St) (m : Msg) (x : Item) (h1 : List (Nat × Item)) (hk : m.kind = .read x)
    (hst : s.sched m.fiber ≠ m.sched) (hp : ReturnPoint s m.fiber x h1) :
    Fifo { cb cfg s m with handed := h1 } := by
  rw [cb_requeue cfg s m x hk hc hd hq hst hp.noReader]
  unfold Fifo
  simp only [hh, if_true]
  exact ⟨Or.inl hp.noReader, hp.order⟩

end JanetModel.Thread
