/- C08 - executable model of janet's threaded channels, `ev/thread` completion and shared-abstract reference counts.
   Mirrors src/core/ev.c (janet_channel_push_with_lock / janet_channel_pop_with_lock in threaded mode,
   janet_thread_chan_cb, cfun_channel_close, janet_ev_post_event / janet_ev_handle_selfpipe, janet_thread_body),
   marsh.c (LB_THREADED_ABSTRACT) and gc.c (sweep of janet_vm.threaded_abstracts).

   * a channel critical section (janet_chan_lock .. janet_chan_unlock) is ONE atomic step;
   * every event loop has a self-pipe; all pipes are kept in one list `flight`, the pipe of loop `l` is the sub-sequence of
     messages with `loop = l` (FIFO per loop = a message may be handled only if no earlier message has the same loop);
   * the scheduler is arbitrary: a behaviour is `run cfg acts s` for ANY list of actions (a disabled action is a no-op);
   * pack/unpack (janet_chan_pack = marshal, C09) is an injective encoding: an item is represented by itself;
   * `abandon f` is anything that reschedules fiber `f` while it waits (ev/cancel, deadline, another select clause firing):
     it bumps `sched_id`, which is all the channel code can observe.
   * Session 3: every `janet_schedule` made by the channel code (direct take, janet_thread_chan_cb, local close wake-up) pushes a
     JanetTask onto the run queue (`janet_vm.spawn`) of the fiber's loop; all run queues are kept in one list `runq`, the queue of
     loop `l` is the sub-sequence of tasks with `thread = l` (janet_q_push at the tail, janet_q_pop at the head: a task may be run
     only if no earlier task has the same thread); `resume i` = one iteration of the run loop of janet_loop1 (pop, compare
     `expected_sched_id`, janet_continue).  A fiber that called ev/take / a parked ev/give sits in janet_await (`waiting`) until
     a task resumes it; a waiting fiber performs no channel operation.  `log` is the event log (`gave` / `got`).
   Core Lean only (linked into the driver). -/
namespace JanetModel.Thread

/-- Shape of the current source, filled in from Gen/Thread.lean (tools/gen/thread.py). -/
structure Cfg where
  /-- janet_thread_chan_cb: stale read message, no other pending reader => item goes back into `items` -/
  requeue : Bool
  /-- ... at the head of the queue (janet_q_push_head) -/
  requeueHead : Bool
  /-- janet_thread_chan_cb: stale message is passed on to the next pending reader / writer -/
  redispatch : Bool
  /-- janet_thread_chan_cb delivers only if `fiber->sched_id == sched_id` -/
  checkSched : Bool
  /-- janet_thread_chan_cb, forwarding a stale wake-up to the next pending reader / writer: the forwarded message carries the
      NEXT entry's own `sched_id` (`reader.sched_id` / `writer.sched_id`), not the stale one it arrived with -/
  forwardOwnSched : Bool := true
  /-- janet_loop1 bumps `fiber->sched_id` once more when it resumes a task (after the `expected_sched_id` filter): whatever the
      fiber registered before this resumption belongs to a wait that is over -/
  resumeBumps : Bool := true
  deriving Repr, DecidableEq

abbrev Item := Nat

/-- mode of a pending entry / tag of a message; a read message carries the (packed) item in `argj` -/
inductive Kind | read (x : Item) | write | close
  deriving DecidableEq, Repr

/-- JanetChannelPending -/
structure Pending where
  thread : Nat
  fiber : Nat
  sched : Nat
  deriving DecidableEq, Repr

/-- JanetSelfPipeEvent carrying a janet_thread_chan_cb message -/
structure Msg where
  loop : Nat
  fiber : Nat
  sched : Nat
  kind : Kind
  deriving DecidableEq, Repr

def Msg.item (m : Msg) : Option Item :=
  match m.kind with
  | .read x => some x
  | _ => none

/-- value a queued JanetTask resumes its fiber with: a channel item (ev/take result), a wake-up of kind `k` (give completed /
    channel closed), or anything else (`janet_cancel` by ev/cancel or a deadline, another select clause) -/
inductive TVal | item (x : Item) | wake (k : Kind) | other
  deriving DecidableEq, Repr

/-- JanetTask in `janet_vm.spawn` of loop `thread`; `sched` = expected_sched_id -/
structure Task where
  thread : Nat
  fiber : Nat
  sched : Nat
  val : TVal
  deriving DecidableEq, Repr

def Task.item (t : Task) : Option Item :=
  match t.val with
  | .item x => some x
  | _ => none

/-- event log: `gave f x` = ev/give of fiber f accepted x; `got f x` = ev/take in fiber f returned x (fiber resumed with x) -/
inductive Ev | gave (f : Nat) (x : Item) | got (f : Nat) (x : Item)
  deriving DecidableEq, Repr

def setb (g : Nat → Bool) (f : Nat) (b : Bool) : Nat → Bool := fun h => if h = f then b else g h
def setn (g : Nat → Nat) (f : Nat) (n : Nat) : Nat → Nat := fun h => if h = f then n else g h

structure St where
  limit : Nat
  items : List Item := []
  readers : List Pending := []
  writers : List Pending := []
  closed : Bool := false
  flight : List Msg := []
  /-- fiber -> current sched_id -/
  sched : Nat → Nat := fun _ => 0
  /-- (fiber, item): the item was scheduled to the fiber (janet_schedule(fiber, x)); the fiber is resumed with it by `resume` -/
  delivered : List (Nat × Item) := []
  /-- items accepted by a give (ev/give did not raise) -/
  sent : List Item := []
  /-- (fiber, item) in the order in which items left `items` / were dispatched to a pending reader -/
  handed : List (Nat × Item) := []
  /-- ghost: number of read messages found stale by janet_thread_chan_cb -/
  staleReads : Nat := 0
  /-- ghost: fibers resumed by a close / write wake-up: (fiber, kind) -/
  woken : List (Nat × Kind) := []
  /-- run queues (janet_vm.spawn) of all loops, in push order -/
  runq : List Task := []
  /-- fiber is suspended in janet_await (after ev/take, or a parked ev/give) -/
  waiting : Nat → Bool := fun _ => false
  /-- fiber -> its thread (set when it starts to wait) -/
  home : Nat → Nat := fun _ => 0
  /-- ghost: (fiber, item) of run-queue tasks skipped by janet_loop1 because `expected_sched_id != fiber->sched_id` -/
  dropped : List (Nat × Item) := []
  /-- ghost: number of `abandon` actions that hit a waiting fiber -/
  abandons : Nat := 0
  /-- event log -/
  log : List Ev := []

def init (limit : Nat) : St := { limit := limit }

def bump (g : Nat → Nat) (f : Nat) : Nat → Nat := fun h => if h = f then g h + 1 else g h

inductive Act
  | give (thread fiber : Nat) (x : Item)
  | take (thread fiber : Nat)
  | abandon (fiber : Nat)
  | handle (i : Nat)
  | close (thread : Nat)
  | resume (i : Nat)
  /-- mode-2 push (supervisor event about fiber `f`, thread-start error, C API give) -/
  | giveNB (fiber : Nat) (x : Item)
  deriving DecidableEq, Repr

/-- remove the `i`-th element -/
def extract {α : Type} : Nat → List α → Option (α × List α)
  | _, [] => none
  | 0, a :: l => some (a, l)
  | n + 1, a :: l =>
    match extract n l with
    | some (b, l') => some (b, a :: l')
    | none => none

/-- janet_channel_push_with_lock, threaded channel, mode 0 (ev/give) -/
def give (s : St) (t f : Nat) (x : Item) : St :=
  if s.closed then s
  else
    match s.readers with
    | r :: rs =>
      { s with readers := rs, flight := s.flight ++ [⟨r.thread, r.fiber, r.sched, .read x⟩],
               sent := s.sent ++ [x], handed := s.handed ++ [(r.fiber, x)], log := s.log ++ [.gave f x] }
    | [] =>
      if s.items.length + 1 > s.limit then
        { s with items := s.items ++ [x], writers := s.writers ++ [⟨t, f, s.sched f⟩], sent := s.sent ++ [x],
                 log := s.log ++ [.gave f x], waiting := setb s.waiting f true, home := setn s.home f t }
      else
        { s with items := s.items ++ [x], sent := s.sent ++ [x], log := s.log ++ [.gave f x] }

/-- janet_channel_push_with_lock, threaded channel, mode 2: a supervisor event pushed by janet_loop1 when a task of fiber `f`
    ends / signals (`janet_channel_push(chan, make_supervisor_event(..), 2)`), the thread-start error report of
    janet_go_thread_subr, the C API janet_channel_give.  Never parks: over capacity the item stays queued and the call
    returns 1 without registering a pending writer. -/
def giveNB (s : St) (f : Nat) (x : Item) : St :=
  if s.closed then s
  else
    match s.readers with
    | r :: rs =>
      { s with readers := rs, flight := s.flight ++ [⟨r.thread, r.fiber, r.sched, .read x⟩],
               sent := s.sent ++ [x], handed := s.handed ++ [(r.fiber, x)], log := s.log ++ [.gave f x] }
    | [] => { s with items := s.items ++ [x], sent := s.sent ++ [x], log := s.log ++ [.gave f x] }

/-- janet_channel_pop_with_lock, threaded channel (ev/take) + cfun_channel_pop: an item obtained directly is scheduled to the
    calling fiber itself (`janet_schedule(janet_vm.root_fiber, item)`), then the fiber awaits in every case -/
def take (s : St) (t f : Nat) : St :=
  if s.closed then { s with woken := s.woken ++ [(f, .close)], sched := bump s.sched f,
                            runq := s.runq ++ [⟨t, f, s.sched f + 1, .wake .close⟩],
                            waiting := setb s.waiting f true, home := setn s.home f t }
  else
    match s.items with
    | [] => { s with readers := s.readers ++ [⟨t, f, s.sched f⟩], waiting := setb s.waiting f true, home := setn s.home f t }
    | x :: xs =>
      match s.writers with
      | w :: ws =>
        { s with items := xs, delivered := s.delivered ++ [(f, x)], handed := s.handed ++ [(f, x)], sched := bump s.sched f,
                 writers := ws, flight := s.flight ++ [⟨w.thread, w.fiber, w.sched, .write⟩],
                 runq := s.runq ++ [⟨t, f, s.sched f + 1, .item x⟩],
                 waiting := setb s.waiting f true, home := setn s.home f t }
      | [] =>
        { s with items := xs, delivered := s.delivered ++ [(f, x)], handed := s.handed ++ [(f, x)], sched := bump s.sched f,
                 runq := s.runq ++ [⟨t, f, s.sched f + 1, .item x⟩],
                 waiting := setb s.waiting f true, home := setn s.home f t }

/-- cfun_channel_close: every pending entry of another thread gets a CLOSE message; entries of the closing thread are
    resumed directly (if the fiber can be resumed - here: if the entry is not stale) -/
def closeMsgs (t : Nat) : List Pending → List Msg
  | [] => []
  | p :: ps => if p.thread = t then closeMsgs t ps else ⟨p.thread, p.fiber, p.sched, .close⟩ :: closeMsgs t ps

def closeLocal (t : Nat) (g : Nat → Nat) : List Pending → (Nat → Nat) × List (Nat × Kind) × List Task
  | [] => (g, [], [])
  | p :: ps =>
    if p.thread = t ∧ g p.fiber = p.sched then
      let r := closeLocal t (bump g p.fiber) ps
      (r.1, (p.fiber, Kind.close) :: r.2.1, ⟨t, p.fiber, g p.fiber + 1, .wake .close⟩ :: r.2.2)
    else closeLocal t g ps

def close (s : St) (t : Nat) : St :=
  if s.closed then s
  else
    let r := closeLocal t s.sched (s.writers ++ s.readers)
    { s with closed := true, writers := [], readers := [],
             flight := s.flight ++ closeMsgs t s.writers ++ closeMsgs t s.readers,
             sched := r.1, woken := s.woken ++ r.2.1, runq := s.runq ++ r.2.2 }

/-- janet_thread_chan_cb for message `m` (already read from the pipe) -/
def cb (cfg : Cfg) (s : St) (m : Msg) : St :=
  if (!cfg.checkSched) || s.sched m.fiber == m.sched then
    match m.kind with
    | .read x => { s with delivered := s.delivered ++ [(m.fiber, x)], sched := bump s.sched m.fiber,
                          runq := s.runq ++ [⟨m.loop, m.fiber, s.sched m.fiber + 1, .item x⟩] }
    | k => { s with sched := bump s.sched m.fiber, woken := s.woken ++ [(m.fiber, k)],
                    runq := s.runq ++ [⟨m.loop, m.fiber, s.sched m.fiber + 1, .wake k⟩] }
  else
    match m.kind with
    | .close => s
    | .read x =>
      if cfg.redispatch then
        match s.readers with
        | r :: rs =>
          let sid := if cfg.forwardOwnSched then r.sched else m.sched
          { s with readers := rs, flight := s.flight ++ [⟨r.thread, r.fiber, sid, .read x⟩], staleReads := s.staleReads + 1 }
        | [] =>
          if cfg.requeue then
            { s with items := if cfg.requeueHead then x :: s.items else s.items ++ [x], staleReads := s.staleReads + 1 }
          else { s with staleReads := s.staleReads + 1 }
      else { s with staleReads := s.staleReads + 1 }
    | .write =>
      if cfg.redispatch then
        match s.writers with
        | w :: ws =>
          let sid := if cfg.forwardOwnSched then w.sched else m.sched
          { s with writers := ws, flight := s.flight ++ [⟨w.thread, w.fiber, sid, .write⟩] }
        | [] => s
      else s

/-- janet_ev_handle_selfpipe on the `i`-th message in flight; enabled only if it is the first of its pipe -/
def handle (cfg : Cfg) (s : St) (i : Nat) : St :=
  match extract i s.flight with
  | none => s
  | some (m, rest) =>
    if (s.flight.take i).all (fun m' => m'.loop != m.loop) then cb cfg { s with flight := rest } m else s

/-- anything that reschedules fiber `f` (`janet_cancel` by ev/cancel or an expired deadline, another select clause firing):
    `janet_schedule_general` bumps `sched_id`; if the fiber is suspended in a wait, the task that will resume it is queued -/
def abandon (s : St) (f : Nat) : St :=
  if s.waiting f then
    { s with sched := bump s.sched f, runq := s.runq ++ [⟨s.home f, f, s.sched f + 1, .other⟩], abandons := s.abandons + 1 }
  else { s with sched := bump s.sched f }

/-- janet_loop1, body of the run loop for the popped task `t`: skipped unless `expected_sched_id == fiber->sched_id` -/
def runTask (cfg : Cfg) (s : St) (t : Task) : St :=
  if t.sched = s.sched t.fiber then
    match t.val with
    | .item x => { s with waiting := setb s.waiting t.fiber false, log := s.log ++ [.got t.fiber x],
                          sched := if cfg.resumeBumps then bump s.sched t.fiber else s.sched }
    | _ => { s with waiting := setb s.waiting t.fiber false,
                    sched := if cfg.resumeBumps then bump s.sched t.fiber else s.sched }
  else
    match t.val with
    | .item x => { s with dropped := s.dropped ++ [(t.fiber, x)] }
    | _ => s

/-- janet_loop1 pops the `i`-th queued task; enabled only if it is the first of its loop's run queue -/
def resume (cfg : Cfg) (s : St) (i : Nat) : St :=
  match extract i s.runq with
  | none => s
  | some (t, rest) =>
    if (s.runq.take i).all (fun t' => t'.thread != t.thread) then runTask cfg { s with runq := rest } t else s

def step (cfg : Cfg) (s : St) : Act → St
  | .give t f x => if s.waiting f then s else give s t f x
  | .take t f => if s.waiting f then s else take s t f
  | .abandon f => abandon s f
  | .handle i => handle cfg s i
  | .close t => close s t
  | .resume i => resume cfg s i
  | .giveNB f x => giveNB s f x

def run (cfg : Cfg) (acts : List Act) (s : St) : St := acts.foldl (step cfg) s

/-! ### reading the event log -/

/-- items accepted by gives, in order -/
def gaveSeq (L : List Ev) : List Item :=
  L.filterMap (fun e => match e with | .gave _ x => some x | _ => none)

/-- items given by fiber `sd`, in order -/
def gaveBy (sd : Nat) (L : List Ev) : List Item :=
  L.filterMap (fun e => match e with | .gave f x => if f == sd then some x else none | _ => none)

/-- items that fiber `r` was resumed with (results of its ev/take calls), in order -/
def gotSeq (r : Nat) (L : List Ev) : List Item :=
  L.filterMap (fun e => match e with | .got f x => if f == r then some x else none | _ => none)

/-- all (fiber, item) resumptions, in order -/
def gotAll (L : List Ev) : List (Nat × Item) :=
  L.filterMap (fun e => match e with | .got f x => some (f, x) | _ => none)

/-! ## `ev/thread` / janet_ev_threaded_call: janet_thread_body runs `subr` (the whole interpreter + event loop of the new
    thread) and then writes the completion record into the caller's self-pipe; the caller's loop reads it and the callback
    resumes the waiting fiber. -/

structure TCfg where
  /-- janet_thread_body: `response.msg = subr(msg)` is evaluated before `write(fd, &response, ..)` -/
  completionAfterBody : Bool
  deriving Repr, DecidableEq

structure TSt where
  started : Bool := false
  /-- remaining steps of the body (fibers of the new thread still to run) -/
  bodyLeft : Nat
  bodyDone : Bool := false
  posted : Bool := false
  callerResumed : Bool := false
  /-- ghost: was the body finished at the moment the caller was resumed -/
  resumedAfterBody : Bool := true
  deriving Repr, DecidableEq

inductive TAct | start | bodyStep | post | callerLoop
  deriving DecidableEq, Repr

def tstep (cfg : TCfg) (s : TSt) : TAct → TSt
  | .start => { s with started := true }
  | .bodyStep =>
    if s.started && !s.bodyDone then
      (if s.bodyLeft = 0 then { s with bodyDone := true } else { s with bodyLeft := s.bodyLeft - 1 })
    else s
  | .post =>
    if s.started && !s.posted && (s.bodyDone || !cfg.completionAfterBody) then { s with posted := true } else s
  | .callerLoop =>
    if s.posted && !s.callerResumed then { s with callerResumed := true, resumedAfterBody := s.bodyDone } else s

def trun (cfg : TCfg) (acts : List TAct) (s : TSt) : TSt := acts.foldl (tstep cfg) s

/-! ## reference count of one shared (threaded) abstract -/

structure RCfg where
  /-- marshal_one_abstract: janet_abstract_incref before the pointer is written into the message -/
  increfBeforeSend : Bool
  /-- unmarshal LB_THREADED_ABSTRACT: "already registered in this thread's table?" is decided by the ABSENCE of the key
      (`janet_checktype(check, JANET_NIL)`); a known object => the in-transit reference is dropped.  (A test on the entry's
      value is wrong: entries hold `false` between mark phases.) -/
  recvKnownDecref : Bool
  /-- janet_chan_deinit (finalizer of a thread channel): every UNDELIVERED item is handed to `janet_chan_unpack(.., is_cleanup=1)`,
      i.e. unmarshalled with JANET_MARSHAL_DECREF, whose LB_THREADED_ABSTRACT case gives the in-transit reference back
      (`janet_abstract_decref(u.ptr)`) without creating a table entry.  (`false`: the packed buffer is merely freed.) -/
  deinitDecref : Bool := true
  /-- ... and when that decrement brings the count to 0 the object is finalized and freed on the spot (it is in no thread's
      table any more: no collector would ever visit it again) -/
  decrefFreesAtZero : Bool := true
  /-- janet_chan_pack: when janet_marshal fails AFTER the pointer was already written into the transit buffer (an unmarshalable
      value later in the same message), the failure branch gives the reference taken for the transit back (clean-up unmarshal
      of the partial buffer with JANET_MARSHAL_DECREF) before the buffer is discarded -/
  packFailDecref : Bool := true
  deriving Repr, DecidableEq

structure RSt where
  refcount : Nat := 1
  freed : Bool := false
  /-- threads whose `threaded_abstracts` table has an entry for the object -/
  holds : List Nat := [0]
  /-- threads whose heap still references the object (mark phase will visit it) -/
  reach : Nat → Bool := fun t => t == 0
  /-- copies of the pointer inside messages in transit (channel buffers / thread start-up buffers) -/
  transit : Nat := 0
  /-- ghost: a thread used (received / re-sent / held) the object after it was freed -/
  useAfterFree : Bool := false

inductive RAct
  | send (t : Nat)      -- thread t marshals the object into a message
  | recv (t : Nat)      -- thread t unmarshals one message
  | drop (t : Nat)      -- thread t's heap stops referencing it
  | sweep (t : Nat)     -- thread t's collector sweeps its table
  /-- thread t, which reaches the object, uses its memory: ev/acquire-lock, ev/release-lock, ev/acquire-rlock .. on a lock
      (janet_os_mutex_lock on the OS primitive INSIDE the abstract), any channel operation on a thread channel -/
  | use (t : Nat)
  /-- the finalizer of a thread channel that still holds an undelivered message with a copy of the pointer runs (in whatever
      thread swept the carrier, or at its thread's exit): `janet_chan_deinit` → `janet_chan_unpack(.., 1)` → DECREF unmarshal -/
  | discard
  /-- thread t tries to send a message that contains the object but fails to pack (ev/give raises): the buffer is discarded -/
  | failSend (t : Nat)
  deriving DecidableEq, Repr

def rstep (cfg : RCfg) (s : RSt) : RAct → RSt
  | .send t =>
    if t ∈ s.holds ∧ s.reach t = true then
      { s with refcount := if cfg.increfBeforeSend then s.refcount + 1 else s.refcount, transit := s.transit + 1,
               useAfterFree := s.useAfterFree || s.freed }
    else s
  | .recv t =>
    if s.transit = 0 then s
    else if t ∈ s.holds then
      -- already known: "Heap reference already accounted for, remove threaded channel reference"
      { s with transit := s.transit - 1, refcount := if cfg.recvKnownDecref then s.refcount - 1 else s.refcount,
               reach := fun u => u == t || s.reach u, useAfterFree := s.useAfterFree || s.freed }
    else
      { s with transit := s.transit - 1, holds := t :: s.holds, reach := fun u => u == t || s.reach u,
               useAfterFree := s.useAfterFree || s.freed }
  | .drop t => { s with reach := fun u => if u = t then false else s.reach u }
  | .use t => if s.reach t = true then { s with useAfterFree := s.useAfterFree || s.freed } else s
  | .failSend t =>
    if t ∈ s.holds ∧ s.reach t = true then
      { s with refcount := if cfg.increfBeforeSend && !cfg.packFailDecref then s.refcount + 1 else s.refcount,
               useAfterFree := s.useAfterFree || s.freed }
    else s
  | .discard =>
    if s.transit = 0 then s
    else if cfg.deinitDecref then
      { s with transit := s.transit - 1, refcount := s.refcount - 1,
               freed := s.freed || (cfg.decrefFreesAtZero && (s.refcount - 1 == 0)) }
    else { s with transit := s.transit - 1 }
  | .sweep t =>
    if t ∈ s.holds ∧ s.reach t = false then
      { s with holds := s.holds.erase t, refcount := s.refcount - 1, freed := s.freed || (s.refcount - 1 == 0) }
    else s

def rrun (cfg : RCfg) (acts : List RAct) (s : RSt) : RSt := acts.foldl (rstep cfg) s

end JanetModel.Thread
