/- C08 - the full theorems instantiated at the configuration of the CURRENT source (Gen/Thread.lean, regenerated on every
   run by tools/gen/thread.py).  Not imported by Props/C08: this file builds only if the current source satisfies the
   hypotheses (`by decide` on the generated flags), which is exactly the obligation "the property holds for today's code". -/
import JanetModel.Gen.Thread
import JanetModel.Gen.ThreadLock
import JanetModel.Props.C08

namespace JanetModel.Thread.Current
open JanetModel.Thread JanetModel.Props.C08

abbrev cfg : Cfg :=
  { requeue := Gen.Thread.requeueOnNoReader, requeueHead := Gen.Thread.requeueAtHead,
    redispatch := Gen.Thread.redispatchToNext, checkSched := Gen.Thread.cbChecksSchedId,
    forwardOwnSched := Gen.Thread.forwardOwnSchedId, resumeBumps := Gen.Thread.loopBumpsSchedAtResume }
abbrev tcfg : TCfg := { completionAfterBody := Gen.Thread.completionAfterBody }
abbrev rcfg : RCfg :=
  { increfBeforeSend := Gen.Thread.increfBeforeSend, recvKnownDecref := Gen.Thread.unmarshalKnownTestIsAbsent,
    deinitDecref := Gen.Thread.chanDeinitDecrefsUndelivered, decrefFreesAtZero := Gen.Thread.decrefCleanupFreesAtZero,
    packFailDecref := Gen.Thread.packFailureReturnsTransitRefs }

/-- the callback must not deliver to a fiber that moved on -/
theorem checks_sched_id : cfg.checkSched = true := by decide

/-- a forwarded wake-up must carry the next waiter's own sched_id (else a parked writer is never resumed) -/
theorem forward_own_sched_id : cfg.forwardOwnSched = true := by decide

theorem exactly_once_current (limit : Nat) (acts : List Act) : Conserved (run cfg acts (init limit)) :=
  exactly_once cfg (by decide) (by decide) limit acts

/-- the part of the model that is not parametrised - run queue, wait discipline, one-event-at-a-time pipe - has the shape of the
    current source: ev/take schedules the calling fiber with a directly obtained item and awaits; a parked ev/give awaits;
    janet_schedule bumps `sched_id` and pushes at the TAIL of `janet_vm.spawn`; janet_loop1 pops at the head and skips a task
    whose `expected_sched_id` is not the fiber's; the self pipe is read one event per read(), in order, until it is empty;
    a pending entry carries the waiting fiber's current `sched_id`; the accepting callback schedules the fiber -/
theorem runqueue_shape :
    Gen.Thread.takeSchedulesSelf = true ∧ Gen.Thread.giveAwaitsWhenParked = true ∧ Gen.Thread.scheduleBumpsPushesTail = true ∧
    Gen.Thread.loopPopsHeadChecksExpected = true ∧ Gen.Thread.selfpipeOneEventPerReadUntilEmpty = true ∧
    Gen.Thread.pendingCarriesCurrentSchedId = true ∧ Gen.Thread.cbSchedulesFiber = true := by decide

/-- per-sender order for the configuration of the current source (holds for every `Cfg`; the obligation here is
    `runqueue_shape` + the correspondence of `jm_c08` with the implementation on burst histories) -/
theorem per_sender_order_current (limit : Nat) (acts : List Act) (hclean : (run cfg acts (init limit)).abandons = 0)
    (tag : Item → Nat) (htag : ∀ f x, Ev.gave f x ∈ (run cfg acts (init limit)).log → tag x = f) (sender receiver : Nat) :
    ((gotSeq receiver (run cfg acts (init limit)).log).filter (fun x => tag x == sender)).Sublist
      (gaveBy sender (run cfg acts (init limit)).log) :=
  have _ := runqueue_shape
  per_sender_order cfg limit acts hclean tag htag sender receiver

/-- today's janet_thread_chan_cb puts a stale hand-off that finds no other reader back into the queue, at the FRONT
    (`janet_q_push_head`); with `janet_q_push` this does not build (seed C08-8) -/
theorem requeue_at_head : cfg.requeue = true ∧ cfg.requeueHead = true := by decide

/-- per-sender order across a requeued stale hand-off, for the configuration of the current source -/
theorem per_sender_order_requeue_current (s : St) (m : Msg) (x : Item) (h1 : List (Nat × Item)) (hk : m.kind = .read x)
    (hst : s.sched m.fiber ≠ m.sched) (hp : ReturnPoint s m.fiber x h1) (acts : List Act)
    (hz : (run cfg acts { cb cfg s m with handed := h1 }).staleReads = (cb cfg s m).staleReads) :
    let s1 : St := { cb cfg s m with handed := h1 }
    s1.items = x :: s.items ∧
      (run cfg acts s1).handed.map Prod.snd ++ (run cfg acts s1).items = (run cfg acts s1).sent :=
  per_sender_order_requeue cfg (by decide) (by decide) requeue_at_head.1 requeue_at_head.2 s m x h1 hk hst hp acts hz

theorem exactly_once_resumed_current (limit : Nat) (acts : List Act) (x : Item) :
    let s := run cfg acts (init limit)
    (gaveSeq s.log).countP (· == x) =
      s.items.countP (· == x) + s.flight.countP (fun m => m.item == some x) + s.runq.countP (fun k => k.item == some x) +
        (gotAll s.log).countP (fun d => d.2 == x) + s.dropped.countP (fun d => d.2 == x) :=
  exactly_once_resumed cfg (by decide) (by decide) limit acts x

/-- thread channels pack with `janet_marshal(.., JANET_MARSHAL_UNSAFE)` and unpack with `janet_unmarshal(.., JANET_MARSHAL_UNSAFE ..)` -
    the functions modelled by C09's `Marsh/Graph.lean` - with the same pass-through set on both sides, and the UNSAFE flag is
    consulted in pointer-like cases only: `payload_roundtrip` (an instance of C09's `roundtrip_graph_top`) speaks about today's code -/
theorem payload_codec_shape :
    Gen.Thread.packUsesMarshalUnsafe = true ∧ Gen.Thread.unpackUsesUnmarshalUnsafe = true ∧
    Gen.Thread.packUnpackSamePassthrough = true ∧ Gen.Thread.unsafeFlagOnlyPointerLike = true := by decide

/-- supervisor events are mode-2 pushes (`giveNB`), ev/give-supervisor is a give, mode 2 never parks -/
theorem supervisor_shape :
    Gen.Thread.supervisorEventIsMode2Push = true ∧ Gen.Thread.giveSupervisorIsGive = true ∧ Gen.Thread.mode2NeverParks = true := by
  decide

open JanetModel.Thread.Spawn in
/-- cfun_ev_thread and janet_go_thread_subr follow the same plan; `main` and `value` are unconditional; both sides use
    JANET_MARSHAL_UNSAFE and the same flag word; the buffer goes to exactly one thread and is freed once -/
theorem thread_plans_agree :
    Gen.Thread.threadWritePlan = Gen.Thread.threadReadPlan ∧
    (⟨true, 0, true, .main⟩ : PStep) ∈ Gen.Thread.threadWritePlan ∧ (⟨true, 0, true, .value⟩ : PStep) ∈ Gen.Thread.threadWritePlan ∧
    Gen.Thread.threadArgsUnsafeBothSides = true ∧ Gen.Thread.threadFlagsInTag = true ∧
    Gen.Thread.threadBufferOneThreadFreedOnce = true ∧ Gen.Thread.threadSchedulesMainWithValue = true := by
  decide

open JanetModel.Thread.Spawn in
/-- for the plans of the current source: whatever the flags, the new thread reads back exactly the buffer written for it -/
theorem thread_args_roundtrip_current (flags : Nat) (a : Args) :
    readBuf Gen.Thread.threadReadPlan flags (writeBuf Gen.Thread.threadWritePlan flags a) =
      some (writeBuf Gen.Thread.threadWritePlan flags a, []) := by
  rw [← thread_plans_agree.1]
  exact thread_args_roundtrip _ flags a

theorem thread_returns_after_body_current (n : Nat) (acts : List TAct) :
    let s := trun tcfg acts { bodyLeft := n }
    (s.callerResumed = true → s.bodyDone = true) ∧ s.resumedAfterBody = true :=
  thread_returns_after_body tcfg (by decide) n acts

/-- the unmarshaller and the sweep must do their part of the protocol as well -/
theorem refcount_protocol_shape :
    Gen.Thread.unmarshalAccounts = true ∧ Gen.Thread.sweepDecrefFrees = true ∧ Gen.Thread.markSetsVisited = true := by decide

theorem refcount_ge_reachers_current (acts : List RAct) :
    let s := rrun rcfg acts {}
    (s.freed = false → s.refcount = s.holds.length + s.transit) ∧ (s.freed = true → s.holds = [] ∧ s.transit = 0) ∧
      s.useAfterFree = false :=
  refcount_ge_reachers rcfg (by decide) (by decide) (by decide) (by decide) acts

/-- for today's source no shared object is ever stranded: unreferenced (no table entry, no message) ⇒ freed, at every point
    of every interleaving, including finalizer runs of thread channels that still carry undelivered messages -/
theorem shared_never_stranded_current (acts : List RAct) :
    let s := rrun rcfg acts {}
    s.holds = [] → s.transit = 0 → s.freed = true :=
  shared_never_stranded rcfg (by decide) (by decide) (by decide) (by decide) (by decide) acts

/-- ev/lock and ev/rwlock are threaded abstracts with no marshal hooks (they cross threads only as pointer + incref, the
    threaded path being taken before any type hook), their finalizers only destroy the OS primitive, and every lock operation
    works on the primitive inside the abstract's memory -/
theorem lock_types_shape :
    Gen.Thread.lockTypesThreaded = true ∧ Gen.Thread.lockTypesNoMarshalHook = true ∧ Gen.Thread.lockFinalizerDeinitsOnly = true ∧
    Gen.Thread.lockOpsUseAbstractMemory = true ∧ Gen.Thread.threadedPathBeforeTypeHook = true := by decide

theorem locks_valid_while_reachable_current (acts : List RAct) :
    let s := rrun rcfg acts {}
    (∀ t, s.reach t = true → s.freed = false) ∧ (0 < s.transit → s.freed = false) ∧ s.useAfterFree = false :=
  have _ := lock_types_shape
  shared_valid_while_reachable rcfg (by decide) (by decide) (by decide) (by decide) acts

/-- lock discipline of today's ev.c: the kernel evaluates the path checker on the regenerated statement tree of every function
    that takes / releases the thread-channel mutex; all eleven are accepted (incl. the supervisor push of janet_loop1:
    lock; closed ? unlock : push_with_lock); the only other user of the mutex is ev/select's multi-lock scan
    (cfun_channel_choice + chan_unlock_args: see `select_lock_discipline_current`) -/
theorem lock_discipline_current :
    Gen.ThreadLock.lockProgs.map (·.1) =
      ["janet_thread_chan_cb", "janet_channel_push_with_lock", "janet_channel_pop_with_lock", "janet_channel_push", "janet_channel_pop",
       "cfun_channel_close", "cfun_channel_full", "cfun_channel_capacity", "cfun_channel_count", "janet_chan_deinit", "janet_loop1"] ∧
    Gen.ThreadLock.lockProgs.all (fun p => LockCert.accepts p.2.1 p.2.2) = true ∧
    Gen.ThreadLock.outsideCertificate.all (fun f => f ∈ ["cfun_channel_choice", "chan_unlock_args"]) = true := by
  decide

/-- ... hence: every path through each of them releases the mutex exactly once per acquisition and leaves with it released -/
theorem lock_paths_current (p : String × Bool × LockCert.LS) (hp : p ∈ Gen.ThreadLock.lockProgs) (o : LockCert.Out)
    (hr : LockCert.Run (.seq p.2.2 .ret) { held := p.2.1 } o) :
    ∃ s', o = .exit s' ∧ s'.held = false ∧ s'.rel = s'.acq + LockCert.b2n p.2.1 := by
  have hall := lock_discipline_current.2.1
  rw [List.all_eq_true] at hall
  exact lock_paths_release_exactly_once p.2.1 p.2.2 (hall p hp) o hr

end JanetModel.Thread.Current
