/- C08 - the full theorems instantiated at the configuration of the CURRENT source (Gen/Thread.lean, regenerated on every
   run by tools/gen/thread.py).  Not imported by Props/C08: this file builds only if the current source satisfies the
   hypotheses (`by decide` on the generated flags), which is exactly the obligation "the property holds for today's code". -/
import JanetModel.Gen.Thread
import JanetModel.Props.C08

namespace JanetModel.Thread.Current
open JanetModel.Thread JanetModel.Props.C08

abbrev cfg : Cfg :=
  { requeue := Gen.Thread.requeueOnNoReader, requeueHead := Gen.Thread.requeueAtHead,
    redispatch := Gen.Thread.redispatchToNext, checkSched := Gen.Thread.cbChecksSchedId,
    forwardOwnSched := Gen.Thread.forwardOwnSchedId }
abbrev tcfg : TCfg := { completionAfterBody := Gen.Thread.completionAfterBody }
abbrev rcfg : RCfg :=
  { increfBeforeSend := Gen.Thread.increfBeforeSend, recvKnownDecref := Gen.Thread.unmarshalKnownTestIsAbsent }

/-- the callback must not deliver to a fiber that moved on -/
theorem checks_sched_id : cfg.checkSched = true := by decide

/-- a forwarded wake-up must carry the next waiter's own sched_id (else a parked writer is never resumed) -/
theorem forward_own_sched_id : cfg.forwardOwnSched = true := by decide

theorem exactly_once_current (limit : Nat) (acts : List Act) : Conserved (run cfg acts (init limit)) :=
  exactly_once cfg (by decide) (by decide) limit acts

theorem thread_returns_after_body_current (n : Nat) (acts : List TAct) :
    let s := trun tcfg acts { bodyLeft := n }
    (s.callerResumed = true → s.bodyDone = true) ∧ s.resumedAfterBody = true :=
  thread_returns_after_body tcfg (by decide) n acts

/-- the unmarshaller and the sweep must do their part of the protocol as well -/
theorem refcount_protocol_shape :
    Gen.Thread.unmarshalAccounts = true ∧ Gen.Thread.sweepDecrefFrees = true ∧ Gen.Thread.markSetsVisited = true := by decide

theorem refcount_ge_reachers_current (acts : List RAct) :
    let s := rrun rcfg acts {}
    (s.freed = false → s.refcount = s.holds.length + s.transit) ∧ (s.freed = true → s.holds = [] ∧ s.transit = 0) ∧
      s.useAfterFree = false :=
  refcount_ge_reachers rcfg (by decide) (by decide) acts

end JanetModel.Thread.Current
