/- C08 - invariants of the threaded-channel model over all interleavings. -/
import JanetModel.Thread.Model

namespace JanetModel.Thread

/-- every sent item is in exactly one of: the `items` queue, a pipe message in flight, delivered -/
def Conserved (s : St) : Prop :=
  ∀ x : Item, s.sent.countP (· == x) =
    s.items.countP (· == x) + s.flight.countP (fun m => m.item == some x) + s.delivered.countP (fun d => d.2 == x)

@[simp] theorem item_read (l f c : Nat) (x : Item) : (Msg.mk l f c (.read x)).item = some x := rfl
@[simp] theorem item_write (l f c : Nat) : (Msg.mk l f c .write).item = none := rfl
@[simp] theorem item_close (l f c : Nat) : (Msg.mk l f c .close).item = none := rfl

theorem extract_countP {α : Type} (p : α → Bool) :
    ∀ (l : List α) (i : Nat) (m : α) (r : List α), extract i l = some (m, r) →
      l.countP p = r.countP p + (if p m then 1 else 0) := by
  intro l
  induction l with
  | nil => intro i m r h; cases i <;> simp [extract] at h
  | cons a l ih =>
    intro i m r h
    cases i with
    | zero =>
      simp [extract] at h
      obtain ⟨rfl, rfl⟩ := h
      simp [List.countP_cons]
    | succ n =>
      simp only [extract] at h
      cases hx : extract n l with
      | none => simp [hx] at h
      | some br =>
        obtain ⟨b, l'⟩ := br
        simp [hx] at h
        obtain ⟨rfl, rfl⟩ := h
        have := ih n b l' hx
        simp [List.countP_cons, this]; omega

theorem conserved_init (l : Nat) : Conserved (init l) := by
  intro x; simp [init]

theorem give_conserved (s : St) (t f : Nat) (x : Item) (h : Conserved s) : Conserved (give s t f x) := by
  intro y
  have hy := h y
  unfold give
  by_cases hc : s.closed = true
  · simp [hc]; exact hy
  · simp only [hc]
    cases hr : s.readers with
    | nil =>
      by_cases hl : s.items.length + 1 > s.limit
      · simp [hl, List.countP_append, List.countP_cons]; omega
      · simp [hl, List.countP_append, List.countP_cons]; omega
    | cons r rs =>
      by_cases hxy : x = y
      · subst hxy; simp [List.countP_append, List.countP_cons]; omega
      · simp [List.countP_append, List.countP_cons, hxy]; omega

/-- a mode-2 push is a give that never finds the queue over capacity -/
theorem giveNB_eq (s : St) (f : Nat) (x : Item) :
    giveNB s f x = { give { s with limit := s.items.length + 1 } 0 f x with limit := s.limit } := by
  unfold giveNB give
  by_cases hc : s.closed = true
  · simp only [hc, if_true]
    cases s; simp_all
  · simp only [hc]
    cases hr : s.readers with
    | nil => simp
    | cons r rs => simp

theorem giveNB_conserved (s : St) (f : Nat) (x : Item) (h : Conserved s) : Conserved (giveNB s f x) := by
  rw [giveNB_eq]
  exact give_conserved { s with limit := s.items.length + 1 } 0 f x h

theorem take_conserved (s : St) (t f : Nat) (h : Conserved s) : Conserved (take s t f) := by
  intro y
  have hy := h y
  unfold take
  by_cases hc : s.closed = true
  · simp [hc]; exact hy
  · simp only [hc]
    cases hi : s.items with
    | nil => simp [hi] at hy ⊢; exact hy
    | cons x xs =>
      rw [hi] at hy
      cases hw : s.writers with
      | nil => simp [List.countP_append, List.countP_cons] at hy ⊢; omega
      | cons w ws => simp [List.countP_append, List.countP_cons] at hy ⊢; omega

theorem closeMsgs_countP (t : Nat) (y : Item) (ps : List Pending) :
    (closeMsgs t ps).countP (fun m => m.item == some y) = 0 := by
  induction ps with
  | nil => simp [closeMsgs]
  | cons p ps ih =>
    unfold closeMsgs
    by_cases hp : p.thread = t
    · simp [hp, ih]
    · simp [hp, ih]

theorem close_conserved (s : St) (t : Nat) (h : Conserved s) : Conserved (close s t) := by
  intro y
  have hy := h y
  unfold close
  by_cases hc : s.closed = true
  · simp [hc]; exact hy
  · simp [hc, List.countP_append, closeMsgs_countP]; omega

/-- number of copies of item `y` held by the channel machinery -/
def total (y : Item) (s : St) : Nat :=
  s.items.countP (· == y) + s.flight.countP (fun m => m.item == some y) + s.delivered.countP (fun d => d.2 == y)

theorem conserved_iff (s : St) : Conserved s ↔ ∀ y, s.sent.countP (· == y) = total y s := Iff.rfl

/-- janet_thread_chan_cb neither loses nor duplicates the item it was handed, provided it re-dispatches stale read messages
    and puts the item back when no reader waits - or provided the message was not stale -/
theorem cb_total (cfg : Cfg) (s : St) (m : Msg) (y : Item)
    (hok : (cfg.requeue = true ∧ cfg.redispatch = true) ∨ (cb cfg s m).staleReads = s.staleReads) :
    total y (cb cfg s m) = total y s + (if m.item == some y then 1 else 0) ∧ (cb cfg s m).sent = s.sent := by
  obtain ⟨ml, mf, ms, mk⟩ := m
  unfold cb at hok ⊢
  unfold total
  cases mk with
  | close => simp only []; split <;> simp
  | write =>
    simp only []
    split
    · simp
    · split
      · cases hw : s.writers <;> simp [List.countP_append, List.countP_cons]
      · simp
  | read x =>
    simp only [] at hok ⊢
    split
    · by_cases hxy : x = y
      · subst hxy; simp [List.countP_append, List.countP_cons]; omega
      · simp [List.countP_append, List.countP_cons, hxy]
    · rename_i hst
      simp only [hst] at hok
      rcases hok with ⟨hq, hd⟩ | hz
      · simp only [hq, hd]
        cases hr : s.readers <;> by_cases hh : cfg.requeueHead = true <;> by_cases hxy : x = y <;>
          simp [hh, hxy, List.countP_append, List.countP_cons] <;> omega
      · exfalso
        revert hz
        (repeat' split) <;> first | contradiction | simp

theorem cb_stale_mono (cfg : Cfg) (s : St) (m : Msg) : s.staleReads ≤ (cb cfg s m).staleReads := by
  obtain ⟨ml, mf, ms, mk⟩ := m
  unfold cb
  cases mk <;> simp only [] <;> (repeat' split) <;> first | exact Nat.le_refl _ | simp

theorem handle_conserved' (cfg : Cfg) (s : St) (i : Nat)
    (hok : (cfg.requeue = true ∧ cfg.redispatch = true) ∨ (handle cfg s i).staleReads = s.staleReads)
    (h : Conserved s) : Conserved (handle cfg s i) := by
  intro y
  have hy := h y
  unfold handle at hok ⊢
  cases hx : extract i s.flight with
  | none => simpa using hy
  | some mr =>
    obtain ⟨m, rest⟩ := mr
    have hcnt := extract_countP (fun m => m.item == some y) s.flight i m rest hx
    rw [hx] at hok
    simp only [] at hok ⊢
    split
    · rename_i hf
      simp only [hf, if_true] at hok
      have := cb_total cfg { s with flight := rest } m y hok
      have h1 := this.1
      have h2 := this.2
      show List.countP (· == y) (cb cfg { s with flight := rest } m).sent = total y (cb cfg { s with flight := rest } m)
      rw [h1, h2]
      simp only [total] at hy ⊢
      omega
    · exact hy

theorem handle_conserved (cfg : Cfg) (hq : cfg.requeue = true) (hd : cfg.redispatch = true)
    (s : St) (i : Nat) (h : Conserved s) : Conserved (handle cfg s i) :=
  handle_conserved' cfg s i (Or.inl ⟨hq, hd⟩) h

theorem handle_stale_mono (cfg : Cfg) (s : St) (i : Nat) : s.staleReads ≤ (handle cfg s i).staleReads := by
  unfold handle
  cases hx : extract i s.flight with
  | none => simp
  | some mr =>
    obtain ⟨m, rest⟩ := mr
    simp only []
    split
    · exact cb_stale_mono cfg { s with flight := rest } m
    · exact Nat.le_refl _

/-- `abandon` and `resume` touch neither the queue, the pipes nor the scheduled/sent logs -/
theorem abandon_frame (s : St) (f : Nat) :
    (abandon s f).items = s.items ∧ (abandon s f).flight = s.flight ∧ (abandon s f).delivered = s.delivered ∧
    (abandon s f).sent = s.sent ∧ (abandon s f).handed = s.handed ∧ (abandon s f).readers = s.readers ∧
    (abandon s f).staleReads = s.staleReads := by
  unfold abandon; split <;> simp

theorem runTask_frame (cfg : Cfg) (s : St) (t : Task) :
    (runTask cfg s t).items = s.items ∧ (runTask cfg s t).flight = s.flight ∧ (runTask cfg s t).delivered = s.delivered ∧
    (runTask cfg s t).sent = s.sent ∧ (runTask cfg s t).handed = s.handed ∧ (runTask cfg s t).readers = s.readers ∧
    (runTask cfg s t).staleReads = s.staleReads := by
  unfold runTask; (repeat' split) <;> simp

theorem resume_frame (cfg : Cfg) (s : St) (i : Nat) :
    (resume cfg s i).items = s.items ∧ (resume cfg s i).flight = s.flight ∧ (resume cfg s i).delivered = s.delivered ∧
    (resume cfg s i).sent = s.sent ∧ (resume cfg s i).handed = s.handed ∧ (resume cfg s i).readers = s.readers ∧
    (resume cfg s i).staleReads = s.staleReads := by
  unfold resume
  split
  · simp
  · split
    · exact runTask_frame _ _ _
    · simp

theorem abandon_conserved (s : St) (f : Nat) (h : Conserved s) : Conserved (abandon s f) := by
  intro y
  obtain ⟨h1, h2, h3, h4, _⟩ := abandon_frame s f
  rw [h1, h2, h3, h4]; exact h y

theorem resume_conserved (cfg : Cfg) (s : St) (i : Nat) (h : Conserved s) : Conserved (resume cfg s i) := by
  intro y
  obtain ⟨h1, h2, h3, h4, _⟩ := resume_frame cfg s i
  rw [h1, h2, h3, h4]; exact h y

theorem step_conserved (cfg : Cfg) (hq : cfg.requeue = true) (hd : cfg.redispatch = true)
    (s : St) (a : Act) (h : Conserved s) : Conserved (step cfg s a) := by
  cases a with
  | give t f x => show Conserved (if s.waiting f then s else give s t f x); split; exact h; exact give_conserved s t f x h
  | take t f => show Conserved (if s.waiting f then s else take s t f); split; exact h; exact take_conserved s t f h
  | abandon f => exact abandon_conserved s f h
  | handle i => exact handle_conserved cfg hq hd s i h
  | close t => exact close_conserved s t h
  | resume i => exact resume_conserved cfg s i h
  | giveNB f x => exact giveNB_conserved s f x h

theorem run_conserved (cfg : Cfg) (hq : cfg.requeue = true) (hd : cfg.redispatch = true) :
    ∀ (acts : List Act) (s : St), Conserved s → Conserved (run cfg acts s) := by
  intro acts
  induction acts with
  | nil => intro s h; exact h
  | cons a acts ih => intro s h; exact ih _ (step_conserved cfg hq hd s a h)

/-! ### partial results that hold for every configuration: executions in which no read message was found stale -/

theorem step_stale_mono (cfg : Cfg) (s : St) (a : Act) : s.staleReads ≤ (step cfg s a).staleReads := by
  cases a with
  | give t f x => show s.staleReads ≤ (if s.waiting f then s else give s t f x).staleReads; unfold give; (repeat' split) <;> first | exact Nat.le_refl _ | simp
  | take t f => show s.staleReads ≤ (if s.waiting f then s else take s t f).staleReads; unfold take; (repeat' split) <;> first | exact Nat.le_refl _ | simp
  | abandon f => show s.staleReads ≤ (abandon s f).staleReads; rw [(abandon_frame s f).2.2.2.2.2.2]; exact Nat.le_refl _
  | handle i => exact handle_stale_mono cfg s i
  | close t => show s.staleReads ≤ (close s t).staleReads; unfold close; (repeat' split) <;> first | exact Nat.le_refl _ | simp
  | resume i => show s.staleReads ≤ (resume cfg s i).staleReads; rw [(resume_frame cfg s i).2.2.2.2.2.2]; exact Nat.le_refl _
  | giveNB f x => show s.staleReads ≤ (giveNB s f x).staleReads; unfold giveNB; (repeat' split) <;> first | exact Nat.le_refl _ | simp

theorem step_conserved_partial (cfg : Cfg) (s : St) (a : Act) (hz : (step cfg s a).staleReads = s.staleReads)
    (h : Conserved s) : Conserved (step cfg s a) := by
  cases a with
  | give t f x => show Conserved (if s.waiting f then s else give s t f x); split; exact h; exact give_conserved s t f x h
  | take t f => show Conserved (if s.waiting f then s else take s t f); split; exact h; exact take_conserved s t f h
  | abandon f => exact abandon_conserved s f h
  | handle i => exact handle_conserved' cfg s i (Or.inr hz) h
  | close t => exact close_conserved s t h
  | resume i => exact resume_conserved cfg s i h
  | giveNB f x => exact giveNB_conserved s f x h

theorem run_stale_mono (cfg : Cfg) : ∀ (acts : List Act) (s : St), s.staleReads ≤ (run cfg acts s).staleReads := by
  intro acts
  induction acts with
  | nil => intro s; exact Nat.le_refl _
  | cons a acts ih => intro s; exact Nat.le_trans (step_stale_mono cfg s a) (ih _)

theorem run_conserved_partial (cfg : Cfg) :
    ∀ (acts : List Act) (s : St), (run cfg acts s).staleReads = s.staleReads → Conserved s → Conserved (run cfg acts s) := by
  intro acts
  induction acts with
  | nil => intro s _ h; exact h
  | cons a acts ih =>
    intro s hz h
    have hm1 := step_stale_mono cfg s a
    have hm2 := run_stale_mono cfg acts (step cfg s a)
    have hz' : (run cfg acts (step cfg s a)).staleReads = s.staleReads := hz
    have h1 : (step cfg s a).staleReads = s.staleReads := by omega
    exact ih _ (by omega) (step_conserved_partial cfg s a h1 h)

/-! ### hand-out order: items leave the channel in the order in which they were given (no stale read message) -/

/-- items leave the channel (are taken directly or dispatched to a pending reader) in the order in which they were given -/
def Fifo (s : St) : Prop :=
  (s.readers = [] ∨ s.items = []) ∧ s.handed.map Prod.snd ++ s.items = s.sent

theorem cb_fifo (cfg : Cfg) (s : St) (m : Msg) (hz : (cb cfg s m).staleReads = s.staleReads) (h : Fifo s) : Fifo (cb cfg s m) := by
  obtain ⟨ml, mf, ms, mk⟩ := m
  unfold cb at hz ⊢
  unfold Fifo at h ⊢
  cases mk with
  | close => simp only []; split <;> exact h
  | write => simp only []; (repeat' split) <;> exact h
  | read x =>
    simp only [] at hz ⊢
    split
    · exact h
    · rename_i hst
      simp only [hst] at hz
      exfalso
      revert hz
      (repeat' split) <;> first | contradiction | simp

theorem step_fifo_give (s : St) (t f : Nat) (x : Item) (h : Fifo s) : Fifo (give s t f x) := by
  unfold give Fifo at *
  obtain ⟨h1, h2⟩ := h
  split
  · exact ⟨h1, h2⟩
  · split
    · rename_i r rs hr
      have hi : s.items = [] := by
        rcases h1 with h1 | h1
        · rw [hr] at h1; cases h1
        · exact h1
      simp [hi] at h2 ⊢
      simp [hi, ← h2]
    · rename_i hr
      split <;> simp [hr, ← h2, List.append_assoc]

theorem step_fifo (cfg : Cfg) (s : St) (a : Act) (hz : (step cfg s a).staleReads = s.staleReads) (h : Fifo s) :
    Fifo (step cfg s a) := by
  cases a with
  | give t f x =>
    show Fifo (if s.waiting f then s else give s t f x)
    split
    · exact h
    unfold give Fifo at *
    obtain ⟨h1, h2⟩ := h
    split
    · exact ⟨h1, h2⟩
    · split
      · rename_i r rs hr
        have hi : s.items = [] := by
          rcases h1 with h1 | h1
          · rw [hr] at h1; cases h1
          · exact h1
        simp [hi] at h2 ⊢
        simp [hi, ← h2]
      · rename_i hr
        split <;> simp [hr, ← h2, List.append_assoc]
  | take t f =>
    show Fifo (if s.waiting f then s else take s t f)
    split
    · exact h
    unfold take Fifo at *
    obtain ⟨h1, h2⟩ := h
    split
    · exact ⟨h1, h2⟩
    · split
      · rename_i hi; simp [hi] at h2 ⊢; exact h2
      · rename_i x xs hi
        have hr : s.readers = [] := by
          rcases h1 with h1 | h1
          · exact h1
          · rw [hi] at h1; cases h1
        split <;> simp [hr, hi, ← h2, List.append_assoc] at *
  | abandon f =>
    show Fifo (abandon s f)
    obtain ⟨h1, _, _, h4, h5, h6, _⟩ := abandon_frame s f
    unfold Fifo; rw [h1, h4, h5, h6]; exact h
  | resume i =>
    show Fifo (resume cfg s i)
    obtain ⟨h1, _, _, h4, h5, h6, _⟩ := resume_frame cfg s i
    unfold Fifo; rw [h1, h4, h5, h6]; exact h
  | giveNB f x =>
    show Fifo (giveNB s f x)
    rw [giveNB_eq]
    have h' : Fifo { s with limit := s.items.length + 1 } := h
    have := step_fifo_give { s with limit := s.items.length + 1 } 0 f x h'
    exact this
  | handle i =>
    show Fifo (handle cfg s i)
    have hz' : (handle cfg s i).staleReads = s.staleReads := hz
    unfold handle at hz' ⊢
    cases hx : extract i s.flight with
    | none => simpa using h
    | some mr =>
      obtain ⟨m, rest⟩ := mr
      rw [hx] at hz'
      simp only [] at hz' ⊢
      split
      · rename_i hf
        simp only [hf, if_true] at hz'
        exact cb_fifo cfg { s with flight := rest } m hz' h
      · exact h
  | close t =>
    show Fifo (close s t)
    unfold close Fifo at *
    split
    · exact h
    · exact ⟨Or.inl rfl, h.2⟩

theorem run_fifo (cfg : Cfg) :
    ∀ (acts : List Act) (s : St), (run cfg acts s).staleReads = s.staleReads → Fifo s → Fifo (run cfg acts s) := by
  intro acts
  induction acts with
  | nil => intro s _ h; exact h
  | cons a acts ih =>
    intro s hz h
    have hm1 := step_stale_mono cfg s a
    have hm2 := run_stale_mono cfg acts (step cfg s a)
    have hz' : (run cfg acts (step cfg s a)).staleReads = s.staleReads := hz
    have h1 : (step cfg s a).staleReads = s.staleReads := by omega
    exact ih _ (by omega) (step_fifo cfg s a h1 h)

end JanetModel.Thread
