/- C08 - ev/thread hand-over: read ∘ write = identity for every plan and flag word; every started thread consumes its own
   buffer exactly once. -/
import JanetModel.Thread.Spawn

namespace JanetModel.Thread.Spawn

theorem read_write (plan : List PStep) (flags : Nat) (a : Args) (tail : Buf) :
    readBuf plan flags (writeBuf plan flags a ++ tail) = some (writeBuf plan flags a, tail) := by
  induction plan with
  | nil => simp [readBuf, writeBuf]
  | cons p ps ih =>
    by_cases he : p.enabled flags = true
    · have hw : writeBuf (p :: ps) flags a = (p.kind, a p.kind) :: writeBuf ps flags a := by simp [writeBuf, he]
      rw [hw]
      simp only [readBuf, he, if_true, List.cons_append]
      rw [ih]
    · have hw : writeBuf (p :: ps) flags a = writeBuf ps flags a := by simp [writeBuf, he]
      rw [hw]
      simp only [readBuf, he]
      exact ih

theorem removeNth_length {α : Type} : ∀ (l : List α) (i : Nat) (m : α) (r : List α), removeNth i l = some (m, r) →
    l.length = r.length + 1 := by
  intro l
  induction l with
  | nil => intro i m r h; cases i <;> simp [removeNth] at h
  | cons a l ih =>
    intro i m r h
    cases i with
    | zero => simp [removeNth] at h; obtain ⟨rfl, rfl⟩ := h; rfl
    | succ n =>
      simp only [removeNth] at h
      cases hx : removeNth n l with
      | none => simp [hx] at h
      | some br =>
        obtain ⟨b, l'⟩ := br
        simp [hx] at h
        obtain ⟨rfl, rfl⟩ := h
        simp [ih n b l' hx]

theorem removeNth_mem {α : Type} : ∀ (l : List α) (i : Nat) (m : α) (r : List α), removeNth i l = some (m, r) →
    m ∈ l ∧ ∀ x ∈ r, x ∈ l := by
  intro l
  induction l with
  | nil => intro i m r h; cases i <;> simp [removeNth] at h
  | cons a l ih =>
    intro i m r h
    cases i with
    | zero => simp [removeNth] at h; obtain ⟨rfl, rfl⟩ := h; exact ⟨List.mem_cons_self, fun x hx => List.mem_cons_of_mem _ hx⟩
    | succ n =>
      simp only [removeNth] at h
      cases hx : removeNth n l with
      | none => simp [hx] at h
      | some br =>
        obtain ⟨b, l'⟩ := br
        simp [hx] at h
        obtain ⟨rfl, rfl⟩ := h
        obtain ⟨h1, h2⟩ := ih n b l' hx
        refine ⟨List.mem_cons_of_mem _ h1, fun x hx => ?_⟩
        rcases List.mem_cons.mp hx with rfl | hx
        · exact List.mem_cons_self
        · exact List.mem_cons_of_mem _ (h2 x hx)

/-- invariant of the hand-over: every spawn is either still waiting for its thread or was consumed by exactly one thread;
    one buffer freed per thread that ran; every pending buffer is what `writeBuf` produced for its flags; with equal plans
    every thread that ran read back exactly what was written for it -/
structure HInv (plan : List PStep) (s : HSt) : Prop where
  count : s.spawned.length = s.started.length + s.ran.length
  freed : s.freed = s.ran.length
  wf : ∀ fb ∈ s.started, ∃ a, fb.2 = writeBuf plan fb.1 a
  ok : ∀ r ∈ s.ran, ∃ got, r = some (got, [])

theorem hstep_inv (plan : List PStep) (s : HSt) (a : HAct) (h : HInv plan s) : HInv plan (hstep plan plan s a) := by
  cases a with
  | spawn flags a =>
    refine ⟨by simp [hstep, h.count]; omega, h.freed, ?_, h.ok⟩
    intro fb hfb
    simp only [hstep, List.mem_append, List.mem_singleton] at hfb
    rcases hfb with hfb | rfl
    · exact h.wf fb hfb
    · exact ⟨mkArgs a, rfl⟩
  | run i =>
    simp only [hstep]
    cases hx : removeNth i s.started with
    | none => exact h
    | some mr =>
      obtain ⟨⟨flags, b⟩, rest⟩ := mr
      have hl := removeNth_length s.started i (flags, b) rest hx
      obtain ⟨hm, hr⟩ := removeNth_mem s.started i (flags, b) rest hx
      obtain ⟨a, ha⟩ := h.wf (flags, b) hm
      simp only at ha
      refine ⟨by simp [h.count, hl]; omega, by simp [h.freed], fun fb hfb => h.wf fb (hr fb hfb), ?_⟩
      intro r hr'
      simp only [List.mem_append, List.mem_singleton] at hr'
      rcases hr' with hr' | rfl
      · exact h.ok r hr'
      · have := read_write plan flags a []
        simp only [List.append_nil] at this
        exact ⟨writeBuf plan flags a, by rw [ha, this]⟩

theorem hrun_inv (plan : List PStep) : ∀ (acts : List HAct) (s : HSt), HInv plan s → HInv plan (hrun plan plan acts s) := by
  intro acts
  induction acts with
  | nil => intro s h; exact h
  | cons a acts ih => intro s h; exact ih _ (hstep_inv plan s a h)

end JanetModel.Thread.Spawn
