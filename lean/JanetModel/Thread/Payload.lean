/- C08 - message payloads: janet_chan_pack / janet_chan_unpack of a thread channel (and the start-up buffer of ev/thread) use the
   marshaller of C09 (`janet_marshal(buf, x, NULL, JANET_MARSHAL_UNSAFE)` / `janet_unmarshal(buf->data, buf->count,
   JANET_MARSHAL_UNSAFE, NULL, NULL)`), except for nil, numbers, booleans (and raw pointers / cfunctions) which travel as the
   Janet word itself.  The model below is `Marsh/Graph.lean`'s `marshal` / `unmarshal` (the same functions C09 ties to marsh.c)
   wrapped in that switch; `Props/C08.payload_roundtrip` instantiates C09's `roundtrip_graph_top`.
   That thread channels use this codec, that the switch has exactly these cases on both sides and that JANET_MARSHAL_UNSAFE
   changes the encoding of pointer-like values only is REGENERATED (Gen/Thread.lean: packUsesMarshalUnsafe,
   unpackUsesUnmarshalUnsafe, packUnpackSamePassthrough, unsafeFlagOnlyPointerLike). -/
import JanetModel.Marsh.GraphRoundtrip

namespace JanetModel.Thread.Payload
open JanetModel.Marsh

/-- janet_chan_pack: `case JANET_NIL / JANET_NUMBER / JANET_BOOLEAN: return 0` - the value is not packed.  In the graph
    presentation a number is either an int32 (`Val.int`) or a reference to a `real` object. -/
def passthrough (H : List Obj) (x : Val) : Bool :=
  match x with
  | .nil => true
  | .bool _ => true
  | .int _ => true
  | .ref id =>
    match H[id]? with
    | some (.real _) => true
    | _ => false

/-- what sits in `channel->items` / in a pipe message (`msg.argj`) -/
inductive Packed
  | raw (x : Val) (H : List Obj)      -- the Janet word itself (a double carries its 8 bytes)
  | bytes (bs : List Nat)             -- malloc'ed JanetBuffer holding the image
  deriving DecidableEq, Repr

/-- janet_chan_pack (threaded channel) -/
def pack (H : List Obj) (x : Val) : Option Packed :=
  if passthrough H x then some (.raw x H) else (marshal H x).map .bytes

/-- janet_chan_unpack (threaded channel, is_cleanup = 0): value and reachable heap -/
def unpack : Packed → Option (Val × List Obj)
  | .raw x H => some (x, H)
  | .bytes bs => (unmarshal bs).map (fun r => (r.1, r.2.1))

end JanetModel.Thread.Payload
