/- C08 - path-level certificate of the lock discipline of the threaded-channel functions of ev.c.

   `tools/gen/threadlock.py` parses the body of every function that takes / releases the channel mutex into the statement
   tree `LS` below (Gen/ThreadLock.lean, regenerated on every run): lock = `janet_chan_lock`, unlock = `janet_chan_unlock`,
   access = a statement that reads or writes the channel's queues / `closed` / `limit`, callRel = a call of
   `janet_channel_push_with_lock` / `janet_channel_pop_with_lock` (contract: entered with the lock held, the lock is released
   on every way out, including a panic), ret = `return`, panic = `janet_panic*` / `janet_await` (leaves the function).

   `Run` is the path semantics (every branch may be taken, a loop runs any number of times); `chk` is a one-pass checker
   over the lock state; `chk_sound` / `lock_paths_release_exactly_once`: if `chk` accepts a function then EVERY path through
   it ends with the lock released, never locks a held lock, never unlocks / accesses the queues without holding it, and the
   number of releases on the path equals the number of acquisitions (+1 if the function is entered with the lock held). -/
namespace JanetModel.Thread.LockCert

inductive LS
  | skip | lock | unlock | access | callRel | ret | panic | brk | cont
  | seq (a b : LS)
  | ite (acc : Bool) (t e : LS)
  | loop (acc : Bool) (body : LS)
  deriving Repr, DecidableEq

structure LSt where
  held : Bool
  acq : Nat := 0
  rel : Nat := 0
  deriving Repr, DecidableEq

inductive Out
  | fall (s : LSt) | brk (s : LSt) | cont (s : LSt) | exit (s : LSt) | fault
  deriving Repr, DecidableEq

def Out.isFall : Out → Bool
  | .fall _ => true
  | _ => false

def acquire (s : LSt) : LSt := { s with held := true, acq := s.acq + 1 }
def release (s : LSt) : LSt := { s with held := false, rel := s.rel + 1 }

/-- path semantics: `Run p s o` - some path through `p` started in lock state `s` ends in outcome `o` -/
inductive Run : LS → LSt → Out → Prop
  | skip (s) : Run .skip s (.fall s)
  | lock_ok (s) : s.held = false → Run .lock s (.fall (acquire s))
  | lock_bad (s) : s.held = true → Run .lock s .fault
  | unlock_ok (s) : s.held = true → Run .unlock s (.fall (release s))
  | unlock_bad (s) : s.held = false → Run .unlock s .fault
  | access_ok (s) : s.held = true → Run .access s (.fall s)
  | access_bad (s) : s.held = false → Run .access s .fault
  | call_ok (s) : s.held = true → Run .callRel s (.fall (release s))
  | call_panic (s) : s.held = true → Run .callRel s (.exit (release s))
  | call_bad (s) : s.held = false → Run .callRel s .fault
  | ret (s) : Run .ret s (.exit s)
  | panic (s) : Run .panic s (.exit s)
  | brk (s) : Run .brk s (.brk s)
  | cont (s) : Run .cont s (.cont s)
  | seq_fall (a b s s1 o) : Run a s (.fall s1) → Run b s1 o → Run (.seq a b) s o
  | seq_stop (a b s o) : Run a s o → o.isFall = false → Run (.seq a b) s o
  | ite_bad (acc t e s) : acc = true → s.held = false → Run (.ite acc t e) s .fault
  | ite_t (acc t e s o) : (acc = true → s.held = true) → Run t s o → Run (.ite acc t e) s o
  | ite_e (acc t e s o) : (acc = true → s.held = true) → Run e s o → Run (.ite acc t e) s o
  | loop_bad (acc body s) : acc = true → s.held = false → Run (.loop acc body) s .fault
  | loop_done (acc body s) : (acc = true → s.held = true) → Run (.loop acc body) s (.fall s)
  | loop_next (acc body s s1 o) : (acc = true → s.held = true) → Run body s (.fall s1) → Run (.loop acc body) s1 o →
      Run (.loop acc body) s o
  | loop_cont (acc body s s1 o) : (acc = true → s.held = true) → Run body s (.cont s1) → Run (.loop acc body) s1 o →
      Run (.loop acc body) s o
  | loop_brk (acc body s s1) : (acc = true → s.held = true) → Run body s (.brk s1) → Run (.loop acc body) s (.fall s1)
  | loop_exit (acc body s s1) : (acc = true → s.held = true) → Run body s (.exit s1) → Run (.loop acc body) s (.exit s1)
  | loop_fault (acc body s) : (acc = true → s.held = true) → Run body s .fault → Run (.loop acc body) s .fault

/-- join of the fall-through states of two branches: they must agree -/
def join : Option Bool → Option Bool → Option (Option Bool)
  | none, r => some r
  | r, none => some r
  | some a, some b => if a = b then some (some a) else none

/-- `chk p h lh`: `none` = discipline violated on some path; `some none` = accepted, no path falls through;
    `some (some h')` = accepted, every path that falls through does so in lock state `h'`.
    `h` = lock state at entry, `lh` = lock state required at `break` / `continue` (that of the enclosing loop's entry). -/
def chk : LS → Bool → Option Bool → Option (Option Bool)
  | .skip, h, _ => some (some h)
  | .lock, h, _ => if h then none else some (some true)
  | .unlock, h, _ => if h then some (some false) else none
  | .access, h, _ => if h then some (some true) else none
  | .callRel, h, _ => if h then some (some false) else none
  | .ret, h, _ => if h then none else some none
  | .panic, h, _ => if h then none else some none
  | .brk, h, lh => if lh = some h then some none else none
  | .cont, h, lh => if lh = some h then some none else none
  | .seq a b, h, lh =>
    match chk a h lh with
    | none => none
    | some none => some none
    | some (some h1) => chk b h1 lh
  | .ite acc t e, h, lh =>
    if acc && !h then none
    else match chk t h lh, chk e h lh with
      | some r1, some r2 => join r1 r2
      | _, _ => none
  | .loop acc body, h, _ =>
    if acc && !h then none
    else match chk body h (some h) with
      | none => none
      | some none => some (some h)
      | some (some h1) => if h1 = h then some (some h) else none

theorem join_left {r1 r2 : Option Bool} {r : Option Bool} {a : Bool} (h : join r1 r2 = some r) (h1 : r1 = some a) : r = some a := by
  subst h1
  cases r2 with
  | none => simp [join] at h; exact h.symm
  | some b =>
    simp only [join] at h
    split at h
    · simp at h; exact h.symm
    · cases h

theorem join_right {r1 r2 : Option Bool} {r : Option Bool} {a : Bool} (h : join r1 r2 = some r) (h2 : r2 = some a) : r = some a := by
  subst h2
  cases r1 with
  | none => simp [join] at h; exact h.symm
  | some b =>
    simp only [join] at h
    split at h
    · rename_i hab; simp at h; rw [← h, hab]
    · cases h

/-- what an accepted program guarantees about one outcome -/
def Good (lh : Option Bool) (r : Option Bool) : Out → Prop
  | .fall s' => r = some s'.held
  | .brk s' => lh = some s'.held
  | .cont s' => lh = some s'.held
  | .exit s' => s'.held = false
  | .fault => False

theorem chk_sound {p : LS} {s : LSt} {o : Out} (hr : Run p s o) :
    ∀ (lh r : Option Bool), chk p s.held lh = some r → Good lh r o := by
  induction hr with
  | skip s => intro lh r h; simp [chk] at h; simp [Good, h]
  | lock_ok s hs => intro lh r h; simp [chk, hs] at h; simp [Good, acquire, h]
  | lock_bad s hs => intro lh r h; simp [chk, hs] at h
  | unlock_ok s hs => intro lh r h; simp [chk, hs] at h; simp [Good, release, h]
  | unlock_bad s hs => intro lh r h; simp [chk, hs] at h
  | access_ok s hs => intro lh r h; simp [chk, hs] at h; simp [Good, hs, h]
  | access_bad s hs => intro lh r h; simp [chk, hs] at h
  | call_ok s hs => intro lh r h; simp [chk, hs] at h; simp [Good, release, h]
  | call_panic s hs => intro lh r h; simp [Good, release]
  | call_bad s hs => intro lh r h; simp [chk, hs] at h
  | ret s =>
    intro lh r h
    cases hh : s.held with
    | true => simp [chk, hh] at h
    | false => simp [Good, hh]
  | panic s =>
    intro lh r h
    cases hh : s.held with
    | true => simp [chk, hh] at h
    | false => simp [Good, hh]
  | brk s =>
    intro lh r h
    simp only [chk] at h
    split at h
    · rename_i hl; simp [Good, hl]
    · cases h
  | cont s =>
    intro lh r h
    simp only [chk] at h
    split at h
    · rename_i hl; simp [Good, hl]
    · cases h
  | seq_fall a b s s1 o _ _ iha ihb =>
    intro lh r h
    simp only [chk] at h
    cases ha : chk a s.held lh with
    | none => simp [ha] at h
    | some ra =>
      have g := iha lh ra ha
      simp only [Good] at g
      subst g
      simp only [ha] at h
      exact ihb lh r h
  | seq_stop a b s o _ hnf iha =>
    intro lh r h
    simp only [chk] at h
    cases ha : chk a s.held lh with
    | none => simp [ha] at h
    | some ra =>
      have g := iha lh ra ha
      cases o with
      | fall s' => simp [Out.isFall] at hnf
      | brk s' => exact g
      | cont s' => exact g
      | exit s' => exact g
      | fault => exact g
  | ite_bad acc t e s ha hs => intro lh r h; simp [chk, ha, hs] at h
  | ite_t acc t e s o hacc _ ih =>
    intro lh r h
    simp only [chk] at h
    split at h
    · cases h
    · cases ht : chk t s.held lh with
      | none => simp [ht] at h
      | some r1 =>
        cases he : chk e s.held lh with
        | none => simp [ht, he] at h
        | some r2 =>
          simp only [ht, he] at h
          have g := ih lh r1 ht
          cases o with
          | fall s' => simp only [Good] at g ⊢; exact join_left h g
          | brk s' => exact g
          | cont s' => exact g
          | exit s' => exact g
          | fault => exact g
  | ite_e acc t e s o hacc _ ih =>
    intro lh r h
    simp only [chk] at h
    split at h
    · cases h
    · cases ht : chk t s.held lh with
      | none => simp [ht] at h
      | some r1 =>
        cases he : chk e s.held lh with
        | none => simp [ht, he] at h
        | some r2 =>
          simp only [ht, he] at h
          have g := ih lh r2 he
          cases o with
          | fall s' => simp only [Good] at g ⊢; exact join_right h g
          | brk s' => exact g
          | cont s' => exact g
          | exit s' => exact g
          | fault => exact g
  | loop_bad acc body s ha hs => intro lh r h; simp [chk, ha, hs] at h
  | loop_done acc body s hacc =>
    intro lh r h
    simp only [chk] at h
    split at h
    · cases h
    · cases hb : chk body s.held (some s.held) with
      | none => simp [hb] at h
      | some rb =>
        cases rb with
        | none => simp [hb] at h; simp [Good, h]
        | some h1 =>
          simp only [hb] at h
          split at h
          · simp at h; simp [Good, h]
          · cases h
  | loop_next acc body s s1 o hacc _ _ ihb ihl =>
    intro lh r h
    have h0 := h
    simp only [chk] at h
    split at h
    · cases h
    · cases hb : chk body s.held (some s.held) with
      | none => simp [hb] at h
      | some rb =>
        have g := ihb (some s.held) rb hb
        simp only [Good] at g
        subst g
        simp only [hb] at h
        split at h
        · rename_i heq
          rw [← heq] at h0
          exact ihl lh r h0
        · cases h
  | loop_cont acc body s s1 o hacc _ _ ihb ihl =>
    intro lh r h
    have h0 := h
    simp only [chk] at h
    split at h
    · cases h
    · cases hb : chk body s.held (some s.held) with
      | none => simp [hb] at h
      | some rb =>
        have g := ihb (some s.held) rb hb
        simp only [Good] at g
        have heq : s.held = s1.held := by simpa using g
        rw [heq] at h0
        exact ihl lh r h0
  | loop_brk acc body s s1 hacc _ ihb =>
    intro lh r h
    simp only [chk] at h
    split at h
    · cases h
    · cases hb : chk body s.held (some s.held) with
      | none => simp [hb] at h
      | some rb =>
        have g := ihb (some s.held) rb hb
        simp only [Good] at g
        have heq : s.held = s1.held := by simpa using g
        cases rb with
        | none => simp [hb] at h; simp [Good, ← h, heq]
        | some h1 =>
          simp only [hb] at h
          split at h
          · simp at h; simp [Good, ← h, heq]
          · cases h
  | loop_exit acc body s s1 hacc _ ihb =>
    intro lh r h
    simp only [chk] at h
    split at h
    · cases h
    · cases hb : chk body s.held (some s.held) with
      | none => simp [hb] at h
      | some rb => exact ihb (some s.held) rb hb
  | loop_fault acc body s hacc _ ihb =>
    intro lh r h
    simp only [chk] at h
    split at h
    · cases h
    · cases hb : chk body s.held (some s.held) with
      | none => simp [hb] at h
      | some rb => exact ihb (some s.held) rb hb

def b2n (b : Bool) : Nat := if b then 1 else 0

/-- final state of an outcome -/
def Out.st : Out → Option LSt
  | .fall s => some s | .brk s => some s | .cont s => some s | .exit s => some s | .fault => none

/-- along every fault-free path: acquisitions + (held at start) = releases + (held at the end) -/
theorem run_counts {p : LS} {s : LSt} {o : Out} (hr : Run p s o) :
    ∀ s', o.st = some s' → s'.acq + b2n s.held + s.rel = s'.rel + b2n s'.held + s.acq := by
  induction hr with
  | skip s => intro s' h; simp [Out.st] at h; subst h; omega
  | lock_ok s hs => intro s' h; simp [Out.st] at h; subst h; simp [acquire, hs, b2n]; omega
  | lock_bad s hs => intro s' h; simp [Out.st] at h
  | unlock_ok s hs => intro s' h; simp [Out.st] at h; subst h; simp [release, hs, b2n]; omega
  | unlock_bad s hs => intro s' h; simp [Out.st] at h
  | access_ok s hs => intro s' h; simp [Out.st] at h; subst h; omega
  | access_bad s hs => intro s' h; simp [Out.st] at h
  | call_ok s hs => intro s' h; simp [Out.st] at h; subst h; simp [release, hs, b2n]; omega
  | call_panic s hs => intro s' h; simp [Out.st] at h; subst h; simp [release, hs, b2n]; omega
  | call_bad s hs => intro s' h; simp [Out.st] at h
  | ret s => intro s' h; simp [Out.st] at h; subst h; omega
  | panic s => intro s' h; simp [Out.st] at h; subst h; omega
  | brk s => intro s' h; simp [Out.st] at h; subst h; omega
  | cont s => intro s' h; simp [Out.st] at h; subst h; omega
  | seq_fall a b s s1 o _ _ iha ihb =>
    intro s' h
    have e1 := iha s1 rfl
    have e2 := ihb s' h
    omega
  | seq_stop a b s o _ _ iha => intro s' h; exact iha s' h
  | ite_bad acc t e s _ _ => intro s' h; simp [Out.st] at h
  | ite_t acc t e s o _ _ ih => intro s' h; exact ih s' h
  | ite_e acc t e s o _ _ ih => intro s' h; exact ih s' h
  | loop_bad acc body s _ _ => intro s' h; simp [Out.st] at h
  | loop_done acc body s _ => intro s' h; simp [Out.st] at h; subst h; omega
  | loop_next acc body s s1 o _ _ _ ihb ihl =>
    intro s' h
    have e1 := ihb s1 rfl
    have e2 := ihl s' h
    omega
  | loop_cont acc body s s1 o _ _ _ ihb ihl =>
    intro s' h
    have e1 := ihb s1 rfl
    have e2 := ihl s' h
    omega
  | loop_brk acc body s s1 _ _ ihb =>
    intro s' h
    simp [Out.st] at h; subst h
    exact ihb s1 rfl
  | loop_exit acc body s s1 _ _ ihb =>
    intro s' h
    simp [Out.st] at h; subst h
    exact ihb s1 rfl
  | loop_fault acc body s _ _ _ => intro s' h; simp [Out.st] at h

/-- a whole function: body followed by the implicit `return` at its end; accepted iff no path falls off the checker -/
def accepts (pre : Bool) (body : LS) : Bool := chk (.seq body .ret) pre none == some none

end JanetModel.Thread.LockCert
