/- C08 - from hand-out order to resume order: executions without abandoned waits.
   Invariants over all interleavings of the extended model (run queues, waiting fibers, event log):
   * `TOK` (tickets): every pending entry, pipe message and queued task is a claim ("ticket") on the next resumption of its
     fiber; a fiber holds at most one ticket, only while it waits, and the ticket carries the fiber's current `sched_id`;
   * `InvO`: per receiving fiber, what it got ++ what is queued / in flight for it = what was handed to it, in order. -/
import JanetModel.Thread.Lemmas

namespace JanetModel.Thread

abbrev Ticket := Nat × Nat

def Pending.tk (p : Pending) : Ticket := (p.fiber, p.sched)
def Msg.tk (m : Msg) : Ticket := (m.fiber, m.sched)
def Task.tk (t : Task) : Ticket := (t.fiber, t.sched)

def tickets (s : St) : List Ticket :=
  s.readers.map Pending.tk ++ s.writers.map Pending.tk ++ s.flight.map Msg.tk ++ s.runq.map Task.tk

structure TOK (tks : List Ticket) (w : Nat → Bool) (g : Nat → Nat) : Prop where
  cnt : ∀ f, tks.countP (fun tk => tk.1 == f) ≤ if w f = true then 1 else 0
  cur : ∀ tk ∈ tks, tk.2 = g tk.1

def InvA (s : St) : Prop := TOK (tickets s) s.waiting s.sched

theorem bump_self (g : Nat → Nat) (f : Nat) : bump g f f = g f + 1 := by simp [bump]
theorem bump_ne (g : Nat → Nat) (f h : Nat) (hne : h ≠ f) : bump g f h = g h := by simp [bump, hne]
theorem setb_self (w : Nat → Bool) (f : Nat) (b : Bool) : setb w f b f = b := by simp [setb]
theorem setb_ne (w : Nat → Bool) (f h : Nat) (b : Bool) (hne : h ≠ f) : setb w f b h = w h := by simp [setb, hne]

theorem TOK.sub {tks tks' : List Ticket} {w : Nat → Bool} {g : Nat → Nat} (h : TOK tks w g)
    (hc : ∀ f, tks'.countP (fun tk => tk.1 == f) ≤ tks.countP (fun tk => tk.1 == f)) (hm : ∀ tk ∈ tks', tk ∈ tks) :
    TOK tks' w g :=
  ⟨fun f => Nat.le_trans (hc f) (h.cnt f), fun tk htk => h.cur tk (hm tk htk)⟩

/-- a ticketed fiber is waiting -/
theorem TOK.waiting_of_mem {tks : List Ticket} {w : Nat → Bool} {g : Nat → Nat} (h : TOK tks w g) (tk : Ticket) (htk : tk ∈ tks) :
    w tk.1 = true := by
  have h1 := h.cnt tk.1
  have h2 : 0 < tks.countP (fun t => t.1 == tk.1) := List.countP_pos_iff.mpr ⟨tk, htk, by simp⟩
  by_cases hw : w tk.1 = true
  · exact hw
  · rw [if_neg hw] at h1; omega

/-- a fiber that does not wait has no ticket -/
theorem TOK.none_of_running {tks : List Ticket} {w : Nat → Bool} {g : Nat → Nat} (h : TOK tks w g) (f : Nat) (hw : w f = false) :
    ∀ tk ∈ tks, tk.1 ≠ f := by
  intro tk htk hf
  have := h.waiting_of_mem tk htk
  rw [hf, hw] at this; cases this

/-- with the head ticket of fiber `f`, no other ticket is `f`'s -/
theorem TOK.head_unique {f c : Nat} {tks : List Ticket} {w : Nat → Bool} {g : Nat → Nat} (h : TOK ((f, c) :: tks) w g) :
    ∀ tk ∈ tks, tk.1 ≠ f := by
  intro tk htk hf
  have h1 := h.cnt f
  have h2 : 0 < tks.countP (fun t => t.1 == f) := List.countP_pos_iff.mpr ⟨tk, htk, by simp [hf]⟩
  simp [List.countP_cons] at h1
  split at h1 <;> omega

/-- a running fiber starts to wait with a ticket carrying its current sched_id (pending read / parked give) -/
theorem TOK.add {tks : List Ticket} {w : Nat → Bool} {g : Nat → Nat} (h : TOK tks w g) (f : Nat) (hw : w f = false) :
    TOK ((f, g f) :: tks) (setb w f true) g := by
  have hn := h.none_of_running f hw
  refine ⟨fun r => ?_, fun tk htk => ?_⟩
  · by_cases hr : r = f
    · subst hr
      have : tks.countP (fun tk => tk.1 == r) = 0 := List.countP_eq_zero.mpr (fun tk htk => by simpa using hn tk htk)
      simp [List.countP_cons, this, setb]
    · have h1 := h.cnt r
      have hfr : ¬ f = r := fun e => hr e.symm
      simpa [List.countP_cons, setb, hr, hfr] using h1
  · rcases List.mem_cons.mp htk with rfl | htk
    · rfl
    · exact h.cur tk htk

/-- a running fiber schedules itself (direct take / take on a closed channel) and waits: ticket with the bumped sched_id -/
theorem TOK.add_bumped {tks : List Ticket} {w : Nat → Bool} {g : Nat → Nat} (h : TOK tks w g) (f : Nat) (hw : w f = false) :
    TOK ((f, g f + 1) :: tks) (setb w f true) (bump g f) := by
  have hn := h.none_of_running f hw
  refine ⟨fun r => ?_, fun tk htk => ?_⟩
  · by_cases hr : r = f
    · subst hr
      have : tks.countP (fun tk => tk.1 == r) = 0 := List.countP_eq_zero.mpr (fun tk htk => by simpa using hn tk htk)
      simp [List.countP_cons, this, setb]
    · have h1 := h.cnt r
      have hfr : ¬ f = r := fun e => hr e.symm
      simpa [List.countP_cons, setb, hr, hfr] using h1
  · rcases List.mem_cons.mp htk with rfl | htk
    · simp [bump]
    · rw [bump_ne _ _ _ (hn tk htk)]; exact h.cur tk htk

/-- the head ticket's fiber is scheduled (janet_schedule bumps its sched_id): the ticket moves on with the new id -/
theorem TOK.rebump {f c : Nat} {tks : List Ticket} {w : Nat → Bool} {g : Nat → Nat} (h : TOK ((f, c) :: tks) w g) :
    TOK ((f, g f + 1) :: tks) w (bump g f) := by
  have hu := h.head_unique
  refine ⟨fun r => by simpa [List.countP_cons] using h.cnt r, fun tk htk => ?_⟩
  rcases List.mem_cons.mp htk with rfl | htk
  · simp [bump]
  · rw [bump_ne _ _ _ (hu tk htk)]; exact h.cur tk (List.mem_cons_of_mem _ htk)

/-- the head ticket is redeemed: its fiber runs again -/
theorem TOK.remove {f c : Nat} {tks : List Ticket} {w : Nat → Bool} {g : Nat → Nat} (h : TOK ((f, c) :: tks) w g) :
    TOK tks (setb w f false) g := by
  have hu := h.head_unique
  refine ⟨fun r => ?_, fun tk htk => h.cur tk (List.mem_cons_of_mem _ htk)⟩
  by_cases hr : r = f
  · subst hr
    have : tks.countP (fun tk => tk.1 == r) = 0 := List.countP_eq_zero.mpr (fun tk htk => by simpa using hu tk htk)
    simp [this]
  · have h1 := h.cnt r
    have hfr : ¬ f = r := fun e => hr e.symm
    simpa [List.countP_cons, setb, hr, hfr] using h1

/-- the sched_id of a running fiber may move freely -/
theorem TOK.bump_free {tks : List Ticket} {w : Nat → Bool} {g : Nat → Nat} (h : TOK tks w g) (f : Nat) (hw : w f = false) :
    TOK tks w (bump g f) := by
  have hn := h.none_of_running f hw
  exact ⟨h.cnt, fun tk htk => by rw [bump_ne _ _ _ (hn tk htk)]; exact h.cur tk htk⟩

theorem TOK.head_cur {f c : Nat} {tks : List Ticket} {w : Nat → Bool} {g : Nat → Nat} (h : TOK ((f, c) :: tks) w g) : c = g f :=
  h.cur (f, c) (List.mem_cons_self)

/-! ### list surgery -/

theorem extract_split {α : Type} : ∀ (l : List α) (i : Nat) (m : α) (r : List α), extract i l = some (m, r) →
    ∃ a b, l = a ++ m :: b ∧ r = a ++ b := by
  intro l
  induction l with
  | nil => intro i m r h; cases i <;> simp [extract] at h
  | cons x l ih =>
    intro i m r h
    cases i with
    | zero =>
      simp [extract] at h
      obtain ⟨rfl, rfl⟩ := h
      exact ⟨[], l, rfl, rfl⟩
    | succ n =>
      simp only [extract] at h
      cases hx : extract n l with
      | none => simp [hx] at h
      | some br =>
        obtain ⟨b, l'⟩ := br
        simp [hx] at h
        obtain ⟨rfl, rfl⟩ := h
        obtain ⟨a, b', h1, h2⟩ := ih n b l' hx
        exact ⟨x :: a, b', by simp [h1], by simp [h2]⟩

/-- `extract i` removes the element at position `i`: the prefix is `l.take i` -/
theorem extract_split_take {α : Type} : ∀ (l : List α) (i : Nat) (m : α) (r : List α), extract i l = some (m, r) →
    ∃ b, l = l.take i ++ m :: b ∧ r = l.take i ++ b := by
  intro l
  induction l with
  | nil => intro i m r h; cases i <;> simp [extract] at h
  | cons x l ih =>
    intro i m r h
    cases i with
    | zero =>
      simp [extract] at h
      obtain ⟨rfl, rfl⟩ := h
      exact ⟨l, by simp, by simp⟩
    | succ n =>
      simp only [extract] at h
      cases hx : extract n l with
      | none => simp [hx] at h
      | some br =>
        obtain ⟨b, l'⟩ := br
        simp [hx] at h
        obtain ⟨rfl, rfl⟩ := h
        obtain ⟨b', h1, h2⟩ := ih n b l' hx
        refine ⟨b', ?_, ?_⟩
        · simp only [List.take_succ_cons, List.cons_append]; rw [← h1]
        · simp only [List.take_succ_cons, List.cons_append]; rw [← h2]

/-- taking out an element that is the first with its key leaves, among the elements with that key, exactly the tail -/
theorem extract_first_of_key {α : Type} (key : α → Nat) (l : List α) (i : Nat) (m : α) (r : List α) (h : extract i l = some (m, r))
    (hfirst : (l.take i).all (fun y => key y != key m) = true) :
    l.filter (fun y => key y == key m) = m :: r.filter (fun y => key y == key m) := by
  obtain ⟨b, h1, h2⟩ := extract_split_take l i m r h
  have h0 : (l.take i).filter (fun y => key y == key m) = [] := by
    apply List.filter_eq_nil_iff.mpr
    intro y hy
    have := List.all_eq_true.mp hfirst y hy
    simpa using this
  rw [h2, List.filter_append, h0]
  conv => lhs; rw [h1]
  rw [List.filter_append, h0]
  simp

theorem closeMsgs_append (t : Nat) (a b : List Pending) : closeMsgs t (a ++ b) = closeMsgs t a ++ closeMsgs t b := by
  induction a with
  | nil => rfl
  | cons p ps ih =>
    simp only [List.cons_append, closeMsgs]
    split <;> simp [ih]

theorem closeMsgs_item (t : Nat) (ps : List Pending) : ∀ m ∈ closeMsgs t ps, m.item = none := by
  induction ps with
  | nil => simp [closeMsgs]
  | cons p ps ih =>
    unfold closeMsgs
    split
    · exact ih
    · intro m hm
      rcases List.mem_cons.mp hm with rfl | hm
      · rfl
      · exact ih m hm

theorem closeLocal_item (t : Nat) : ∀ (ps : List Pending) (g : Nat → Nat), ∀ k ∈ (closeLocal t g ps).2.2, k.item = none := by
  intro ps
  induction ps with
  | nil => intro g; simp [closeLocal]
  | cons p ps ih =>
    intro g
    unfold closeLocal
    split
    · intro k hk
      rcases List.mem_cons.mp hk with rfl | hk
      · rfl
      · exact ih _ k hk
    · exact ih g

/-- cfun_channel_close on a list of pending entries whose tickets are in order: every entry turns into exactly one close
    message (other thread) or one queued wake-up carrying the bumped sched_id (closing thread) -/
theorem closeLocal_tok (t : Nat) (w : Nat → Bool) : ∀ (ps : List Pending) (g : Nat → Nat) (rest : List Ticket),
    TOK (ps.map Pending.tk ++ rest) w g →
    TOK ((closeMsgs t ps).map Msg.tk ++ (closeLocal t g ps).2.2.map Task.tk ++ rest) w (closeLocal t g ps).1 := by
  intro ps
  induction ps with
  | nil => intro g rest h; simpa [closeMsgs, closeLocal] using h
  | cons p ps ih =>
    intro g rest h
    have hcur : p.sched = g p.fiber := h.cur (p.fiber, p.sched) (by simp [Pending.tk])
    by_cases ht : p.thread = t
    · have hc : p.thread = t ∧ g p.fiber = p.sched := ⟨ht, hcur.symm⟩
      simp only [closeMsgs, closeLocal, ht, if_true, hc, and_self]
      have h1 : TOK ((p.fiber, p.sched) :: (ps.map Pending.tk ++ rest)) w g := by simpa [Pending.tk] using h
      have h2 := h1.rebump
      have h3 : TOK (ps.map Pending.tk ++ ((p.fiber, g p.fiber + 1) :: rest)) w (bump g p.fiber) :=
        h2.sub (fun f => by simp [List.countP_append, List.countP_cons]; omega) (fun tk htk => by simp at htk ⊢; grind)
      have h4 := ih (bump g p.fiber) ((p.fiber, g p.fiber + 1) :: rest) h3
      exact h4.sub (fun f => by simp [List.countP_append, List.countP_cons, Task.tk]; omega)
        (fun tk htk => by simp [Task.tk] at htk ⊢; grind)
    · have hc : ¬ (p.thread = t ∧ g p.fiber = p.sched) := fun h => ht h.1
      simp only [closeMsgs, closeLocal, ht, if_false, hc]
      have h3 : TOK (ps.map Pending.tk ++ ((p.fiber, p.sched) :: rest)) w g :=
        h.sub (fun f => by simp [List.countP_append, List.countP_cons, Pending.tk]; omega)
          (fun tk htk => by simp [Pending.tk] at htk ⊢; grind)
      have h4 := ih g ((p.fiber, p.sched) :: rest) h3
      exact h4.sub (fun f => by simp [List.countP_append, List.countP_cons, Msg.tk]; omega)
        (fun tk htk => by simp [Msg.tk] at htk ⊢; grind)

/-! ### the ticket invariant is kept by every step that is not an abandoned wait -/

theorem InvA.no_ticket {s : St} (h : InvA s) (f : Nat) (hw : s.waiting f = false) :
    (∀ p ∈ s.readers, p.fiber ≠ f) ∧ (∀ p ∈ s.writers, p.fiber ≠ f) ∧ (∀ m ∈ s.flight, m.fiber ≠ f) ∧
      (∀ k ∈ s.runq, k.fiber ≠ f) := by
  have hn := TOK.none_of_running h f hw
  refine ⟨fun p hp => hn (p.fiber, p.sched) ?_, fun p hp => hn (p.fiber, p.sched) ?_, fun m hm => hn (m.fiber, m.sched) ?_,
    fun k hk => hn (k.fiber, k.sched) ?_⟩
  · simp only [tickets, List.mem_append, List.mem_map]; exact Or.inl (Or.inl (Or.inl ⟨p, hp, rfl⟩))
  · simp only [tickets, List.mem_append, List.mem_map]; exact Or.inl (Or.inl (Or.inr ⟨p, hp, rfl⟩))
  · simp only [tickets, List.mem_append, List.mem_map]; exact Or.inl (Or.inr ⟨m, hm, rfl⟩)
  · simp only [tickets, List.mem_append, List.mem_map]; exact Or.inr ⟨k, hk, rfl⟩

theorem give_invA (s : St) (t f : Nat) (x : Item) (h : InvA s) (hw : s.waiting f = false) : InvA (give s t f x) := by
  unfold give
  split
  · exact h
  · split
    · rename_i r rs hr
      unfold InvA tickets at *
      rw [hr] at h
      exact h.sub (fun q => by simp [List.countP_append, List.countP_cons, Pending.tk, Msg.tk]; omega)
        (fun tk htk => by simp [Pending.tk, Msg.tk] at htk ⊢; grind)
    · split
      · have h1 := TOK.add h f hw
        unfold InvA tickets at *
        exact h1.sub (fun q => by simp [List.countP_append, List.countP_cons, Pending.tk]; omega)
          (fun tk htk => by simp [Pending.tk] at htk ⊢; grind)
      · exact h

theorem giveNB_invA (s : St) (f : Nat) (x : Item) (h : InvA s) : InvA (giveNB s f x) := by
  unfold giveNB
  split
  · exact h
  · split
    · rename_i r rs hr
      unfold InvA tickets at *
      rw [hr] at h
      exact h.sub (fun q => by simp [List.countP_append, List.countP_cons, Pending.tk, Msg.tk]; omega)
        (fun tk htk => by simp [Pending.tk, Msg.tk] at htk ⊢; grind)
    · exact h

theorem take_invA (s : St) (t f : Nat) (h : InvA s) (hw : s.waiting f = false) : InvA (take s t f) := by
  unfold take
  split
  · have h1 := TOK.add_bumped h f hw
    unfold InvA tickets at *
    exact h1.sub (fun q => by simp [List.countP_append, List.countP_cons, Task.tk]; omega)
      (fun tk htk => by simp [Task.tk] at htk ⊢; grind)
  · split
    · have h1 := TOK.add h f hw
      unfold InvA tickets at *
      exact h1.sub (fun q => by simp [List.countP_append, List.countP_cons, Pending.tk]; omega)
        (fun tk htk => by simp [Pending.tk] at htk ⊢; grind)
    · split
      · rename_i x xs hi w ws hwr
        -- the popped writer's ticket moves to the pipe; the taker gets a fresh ticket
        have hnw : w.fiber ≠ f := (h.no_ticket f hw).2.1 w (by rw [hwr]; exact List.mem_cons_self)
        unfold InvA tickets at h
        rw [hwr] at h
        have h0 : TOK (s.readers.map Pending.tk ++ ws.map Pending.tk ++ (s.flight ++ [(⟨w.thread, w.fiber, w.sched, .write⟩ : Msg)]).map Msg.tk
            ++ s.runq.map Task.tk) s.waiting s.sched :=
          h.sub (fun q => by simp [List.countP_append, List.countP_cons, Pending.tk, Msg.tk]; omega)
            (fun tk htk => by simp [Pending.tk, Msg.tk] at htk ⊢; grind)
        have h1 := TOK.add_bumped h0 f hw
        unfold InvA tickets
        exact h1.sub (fun q => by simp [List.countP_append, List.countP_cons, Task.tk]; omega)
          (fun tk htk => by simp [Task.tk] at htk ⊢; grind)
      · have h1 := TOK.add_bumped h f hw
        unfold InvA tickets at *
        exact h1.sub (fun q => by simp [List.countP_append, List.countP_cons, Task.tk]; omega)
          (fun tk htk => by simp [Task.tk] at htk ⊢; grind)

theorem close_invA (s : St) (t : Nat) (h : InvA s) : InvA (close s t) := by
  unfold close
  split
  · exact h
  · unfold InvA tickets at *
    have h0 : TOK ((s.writers ++ s.readers).map Pending.tk ++ (s.flight.map Msg.tk ++ s.runq.map Task.tk)) s.waiting s.sched :=
      h.sub (fun q => by simp [List.countP_append]; omega) (fun tk htk => by simp at htk ⊢; grind)
    have h1 := closeLocal_tok t s.waiting (s.writers ++ s.readers) s.sched _ h0
    rw [closeMsgs_append] at h1
    exact h1.sub (fun q => by simp [List.countP_append]; omega) (fun tk htk => by simp at htk ⊢; grind)

theorem abandon_invA (s : St) (f : Nat) (h : InvA s) (hw : s.waiting f = false) : InvA (abandon s f) := by
  unfold abandon
  simp only [hw, Bool.false_eq_true, if_false]
  exact TOK.bump_free h f hw

/-- janet_thread_chan_cb on a message whose ticket is in order: the message is accepted (never stale), the fiber is scheduled -/
theorem cb_invA (cfg : Cfg) (s : St) (m : Msg) (h : TOK (m.tk :: tickets s) s.waiting s.sched) :
    InvA (cb cfg s m) ∧ (cb cfg s m).staleReads = s.staleReads := by
  obtain ⟨ml, mf, ms, mk⟩ := m
  have hc : ms = s.sched mf := h.head_cur
  have h1 := h.rebump
  unfold cb
  have hcond : ((!cfg.checkSched) || s.sched mf == ms) = true := by simp [hc]
  simp only [hcond, if_true]
  cases mk with
  | read x =>
    refine ⟨?_, rfl⟩
    unfold InvA tickets at *
    exact h1.sub (fun q => by simp [List.countP_append, List.countP_cons, Task.tk, Msg.tk]; omega)
      (fun tk htk => by simp [Task.tk, Msg.tk] at htk ⊢; grind)
  | write =>
    refine ⟨?_, rfl⟩
    unfold InvA tickets at *
    exact h1.sub (fun q => by simp [List.countP_append, List.countP_cons, Task.tk, Msg.tk]; omega)
      (fun tk htk => by simp [Task.tk, Msg.tk] at htk ⊢; grind)
  | close =>
    refine ⟨?_, rfl⟩
    unfold InvA tickets at *
    exact h1.sub (fun q => by simp [List.countP_append, List.countP_cons, Task.tk, Msg.tk]; omega)
      (fun tk htk => by simp [Task.tk, Msg.tk] at htk ⊢; grind)

theorem handle_invA (cfg : Cfg) (s : St) (i : Nat) (h : InvA s) :
    InvA (handle cfg s i) ∧ (handle cfg s i).staleReads = s.staleReads := by
  unfold handle
  cases hx : extract i s.flight with
  | none => exact ⟨h, rfl⟩
  | some mr =>
    obtain ⟨m, rest⟩ := mr
    simp only []
    split
    · obtain ⟨a, b, h1, h2⟩ := extract_split s.flight i m rest hx
      have h0 : TOK (m.tk :: tickets { s with flight := rest }) s.waiting s.sched := by
        unfold InvA tickets at *
        rw [h1] at h
        simp only [h2]
        exact h.sub (fun q => by simp [List.countP_append, List.countP_cons]; omega) (fun tk htk => by simp at htk ⊢; grind)
      exact cb_invA cfg { s with flight := rest } m h0
    · exact ⟨h, rfl⟩

/-- janet_loop1 on a task whose ticket is in order: the sched_id matches, the fiber runs -/
theorem runTask_invA (cfg : Cfg) (s : St) (k : Task) (h : TOK (k.tk :: tickets s) s.waiting s.sched) :
    InvA (runTask cfg s k) ∧ k.sched = s.sched k.fiber := by
  have hc : k.sched = s.sched k.fiber := h.head_cur
  have h1 := h.remove
  have h2 := TOK.bump_free h1 k.fiber (setb_self _ _ _)
  refine ⟨?_, hc⟩
  unfold runTask
  simp only [hc, if_true]
  by_cases hb : cfg.resumeBumps = true
  · simp only [hb, if_true]; split <;> exact h2
  · simp only [hb]; split <;> exact h1

theorem resume_invA (cfg : Cfg) (s : St) (i : Nat) (h : InvA s) : InvA (resume cfg s i) := by
  unfold resume
  cases hx : extract i s.runq with
  | none => exact h
  | some mr =>
    obtain ⟨k, rest⟩ := mr
    simp only []
    split
    · obtain ⟨a, b, h1, h2⟩ := extract_split s.runq i k rest hx
      have h0 : TOK (k.tk :: tickets { s with runq := rest }) s.waiting s.sched := by
        unfold InvA tickets at *
        rw [h1] at h
        simp only [h2]
        exact h.sub (fun q => by simp [List.countP_append, List.countP_cons]; omega) (fun tk htk => by simp at htk ⊢; grind)
      exact (runTask_invA cfg { s with runq := rest } k h0).1
    · exact h

/-! ### per receiving fiber: got ++ queued ++ in flight = handed, in order -/

def outQ (r : Nat) (q : List Task) : List Item := q.filterMap (fun k => if k.fiber == r then k.item else none)
def outF (r : Nat) (fl : List Msg) : List Item := fl.filterMap (fun m => if m.fiber == r then m.item else none)
def handedTo (r : Nat) (h : List (Nat × Item)) : List Item := (h.filter (fun p => p.1 == r)).map Prod.snd

def InvO (s : St) : Prop := ∀ r, gotSeq r s.log ++ outQ r s.runq ++ outF r s.flight = handedTo r s.handed

theorem outQ_nil (r : Nat) (q : List Task) (h : ∀ k ∈ q, k.fiber ≠ r) : outQ r q = [] := by
  simp only [outQ, List.filterMap_eq_nil_iff]
  intro k hk; simp [h k hk]

theorem outF_nil (r : Nat) (fl : List Msg) (h : ∀ m ∈ fl, m.fiber ≠ r) : outF r fl = [] := by
  simp only [outF, List.filterMap_eq_nil_iff]
  intro m hm; simp [h m hm]

theorem outQ_none (r : Nat) (q : List Task) (h : ∀ k ∈ q, k.item = none) : outQ r q = [] := by
  simp only [outQ, List.filterMap_eq_nil_iff]
  intro k hk; simp [h k hk]

theorem outF_none (r : Nat) (fl : List Msg) (h : ∀ m ∈ fl, m.item = none) : outF r fl = [] := by
  simp only [outF, List.filterMap_eq_nil_iff]
  intro m hm; simp [h m hm]

theorem outQ_append (r : Nat) (a b : List Task) : outQ r (a ++ b) = outQ r a ++ outQ r b := by simp [outQ]
theorem outF_append (r : Nat) (a b : List Msg) : outF r (a ++ b) = outF r a ++ outF r b := by simp [outF]
theorem handedTo_append (r : Nat) (a b : List (Nat × Item)) : handedTo r (a ++ b) = handedTo r a ++ handedTo r b := by
  simp [handedTo]
theorem gotSeq_append (r : Nat) (a b : List Ev) : gotSeq r (a ++ b) = gotSeq r a ++ gotSeq r b := by simp [gotSeq]
theorem gotSeq_gave (r f : Nat) (x : Item) : gotSeq r [.gave f x] = [] := rfl

theorem give_invO (s : St) (t f : Nat) (x : Item) (ho : InvO s) : InvO (give s t f x) := by
  unfold give
  split
  · exact ho
  · split
    · rename_i r rs hr
      intro q
      have := ho q
      simp only [gotSeq_append, gotSeq_gave, List.append_nil, outF_append, handedTo_append]
      by_cases hq : r.fiber = q
      · simp [outF, handedTo, hq, Msg.item] at this ⊢
        rw [← this]; simp
      · simp [outF, handedTo, hq] at this ⊢
        exact this
    · split <;> (intro q; have := ho q; simpa only [gotSeq_append, gotSeq_gave, List.append_nil] using this)

theorem giveNB_invO (s : St) (f : Nat) (x : Item) (ho : InvO s) : InvO (giveNB s f x) := by
  rw [giveNB_eq]
  exact give_invO { s with limit := s.items.length + 1 } 0 f x ho

theorem outQ_single_item (q t f c : Nat) (x : Item) : outQ q [⟨t, f, c, .item x⟩] = if f = q then [x] else [] := by
  by_cases h : f = q <;> simp [outQ, h, Task.item]
theorem handedTo_single (q f : Nat) (x : Item) : handedTo q [(f, x)] = if f = q then [x] else [] := by
  by_cases h : f = q <;> simp [handedTo, h]

theorem take_invO (s : St) (t f : Nat) (ha : InvA s) (hw : s.waiting f = false) (ho : InvO s) : InvO (take s t f) := by
  have hnf : outF f s.flight = [] := outF_nil f s.flight (ha.no_ticket f hw).2.2.1
  unfold take
  split
  · intro q
    have := ho q
    simp only [outQ_append]
    rw [outQ_none q [_] (by intro k hk; simp at hk; subst hk; rfl)]
    simpa using this
  · split
    · exact ho
    · split
      · intro q
        have := ho q
        simp only [outQ_append, outF_append, handedTo_append, outQ_single_item, handedTo_single]
        rw [outF_none q [_] (by intro m hm; simp at hm; subst hm; rfl)]
        by_cases hq : f = q
        · subst hq
          rw [hnf] at this ⊢
          simp only [if_true, List.append_nil] at this ⊢
          rw [← this, List.append_assoc]
        · simp only [hq, if_false, List.append_nil] at this ⊢
          exact this
      · intro q
        have := ho q
        simp only [outQ_append, handedTo_append, outQ_single_item, handedTo_single]
        by_cases hq : f = q
        · subst hq
          rw [hnf] at this ⊢
          simp only [if_true, List.append_nil] at this ⊢
          rw [← this, List.append_assoc]
        · simp only [hq, if_false, List.append_nil] at this ⊢
          exact this

theorem close_invO (s : St) (t : Nat) (ho : InvO s) : InvO (close s t) := by
  unfold close
  split
  · exact ho
  · intro q
    have := ho q
    simp only [outQ_append, outF_append]
    rw [outQ_none q _ (closeLocal_item t _ _), outF_none q _ (closeMsgs_item t _), outF_none q _ (closeMsgs_item t _)]
    simpa using this

theorem abandon_invO (s : St) (f : Nat) (hw : s.waiting f = false) (ho : InvO s) : InvO (abandon s f) := by
  unfold abandon
  simp only [hw, Bool.false_eq_true, if_false]
  exact ho

theorem tickets_flight_ne {s : St} {f : Nat} (h : ∀ tk ∈ tickets s, tk.1 ≠ f) :
    (∀ m ∈ s.flight, m.fiber ≠ f) ∧ (∀ k ∈ s.runq, k.fiber ≠ f) := by
  refine ⟨fun m hm => h (m.fiber, m.sched) ?_, fun k hk => h (k.fiber, k.sched) ?_⟩
  · simp only [tickets, List.mem_append, List.mem_map]; exact Or.inl (Or.inr ⟨m, hm, rfl⟩)
  · simp only [tickets, List.mem_append, List.mem_map]; exact Or.inr ⟨k, hk, rfl⟩

theorem outF_single (q : Nat) (m : Msg) : outF q [m] = if m.fiber = q then m.item.toList else [] := by
  by_cases h : m.fiber = q
  · cases hi : m.item <;> simp [outF, h, hi]
  · simp [outF, h]
theorem outQ_single (q : Nat) (k : Task) : outQ q [k] = if k.fiber = q then k.item.toList else [] := by
  by_cases h : k.fiber = q
  · cases hi : k.item <;> simp [outQ, h, hi]
  · simp [outQ, h]

/-- janet_thread_chan_cb (accepting) moves the item of the message from the pipe to the run queue of its fiber -/
theorem cb_invO (cfg : Cfg) (s : St) (m : Msg) (hc : m.sched = s.sched m.fiber) (hu : ∀ tk ∈ tickets s, tk.1 ≠ m.fiber)
    (ho : ∀ r, gotSeq r s.log ++ outQ r s.runq ++ (outF r s.flight ++ outF r [m]) = handedTo r s.handed) :
    InvO (cb cfg s m) := by
  obtain ⟨hfl, hrq⟩ := tickets_flight_ne hu
  obtain ⟨ml, mf, ms, mk⟩ := m
  simp only at hc hfl hrq
  unfold cb
  have hcond : ((!cfg.checkSched) || s.sched mf == ms) = true := by simp [hc]
  simp only [hcond, if_true]
  cases mk with
  | read x =>
    intro q
    have := ho q
    simp only [outQ_append, outQ_single_item]
    simp only [outF_single, item_read, Option.toList] at this
    by_cases hq : mf = q
    · subst hq
      rw [outF_nil mf s.flight hfl, outQ_nil mf s.runq hrq] at this ⊢
      simpa using this
    · simp only [hq, if_false, List.append_nil] at this ⊢
      exact this
  | write =>
    intro q
    have := ho q
    simp only [outQ_append]
    rw [outQ_none q [_] (by intro k hk; simp at hk; subst hk; rfl)]
    rw [outF_none q [_] (by intro k hk; simp at hk; subst hk; rfl)] at this
    simpa using this
  | close =>
    intro q
    have := ho q
    simp only [outQ_append]
    rw [outQ_none q [_] (by intro k hk; simp at hk; subst hk; rfl)]
    rw [outF_none q [_] (by intro k hk; simp at hk; subst hk; rfl)] at this
    simpa using this

theorem handle_invO (cfg : Cfg) (s : St) (i : Nat) (ha : InvA s) (ho : InvO s) : InvO (handle cfg s i) := by
  unfold handle
  cases hx : extract i s.flight with
  | none => exact ho
  | some mr =>
    obtain ⟨m, rest⟩ := mr
    simp only []
    split
    · obtain ⟨a, b, h1, h2⟩ := extract_split s.flight i m rest hx
      have h0 : TOK (m.tk :: tickets { s with flight := rest }) s.waiting s.sched := by
        unfold InvA tickets at *
        rw [h1] at ha
        simp only [h2]
        exact ha.sub (fun q => by simp [List.countP_append, List.countP_cons]; omega) (fun tk htk => by simp at htk ⊢; grind)
      have hu : ∀ tk ∈ tickets { s with flight := rest }, tk.1 ≠ m.fiber := h0.head_unique
      have hfl := (tickets_flight_ne hu).1
      simp only at hfl
      refine cb_invO cfg { s with flight := rest } m h0.head_cur hu (fun r => ?_)
      have := ho r
      rw [h1] at this
      simp only [h2] at hfl ⊢
      rw [← this]
      have e : a ++ m :: b = a ++ ([m] ++ b) := by simp
      rw [e]
      simp only [outF_append]
      by_cases hr : m.fiber = r
      · subst hr
        have ha0 : outF m.fiber a = [] := outF_nil _ a (fun x hx => hfl x (List.mem_append_left _ hx))
        have hb0 : outF m.fiber b = [] := outF_nil _ b (fun x hx => hfl x (List.mem_append_right _ hx))
        rw [ha0, hb0]; simp
      · rw [outF_single]; simp [hr]
    · exact ho

theorem gotSeq_got (r f : Nat) (x : Item) : gotSeq r [.got f x] = if f = r then [x] else [] := by
  by_cases h : f = r <;> simp [gotSeq, h]

theorem runTask_invO (cfg : Cfg) (s : St) (k : Task) (hc : k.sched = s.sched k.fiber) (hu : ∀ tk ∈ tickets s, tk.1 ≠ k.fiber)
    (ho : ∀ r, gotSeq r s.log ++ (outQ r [k] ++ outQ r s.runq) ++ outF r s.flight = handedTo r s.handed) :
    InvO (runTask cfg s k) := by
  obtain ⟨hfl, hrq⟩ := tickets_flight_ne hu
  obtain ⟨kt, kf, ks, kv⟩ := k
  simp only at hc hfl hrq
  unfold runTask
  simp only [hc, if_true]
  cases kv with
  | item x =>
    intro q
    have := ho q
    simp only [gotSeq_append, gotSeq_got]
    rw [outQ_single_item] at this
    by_cases hq : kf = q
    · subst hq
      rw [outF_nil kf s.flight hfl, outQ_nil kf s.runq hrq] at this ⊢
      simpa using this
    · simp only [hq, if_false, List.append_nil, List.nil_append] at this ⊢
      exact this
  | wake kk =>
    intro q
    have := ho q
    rw [outQ_none q [_] (by intro k hk; simp at hk; subst hk; rfl)] at this
    simpa using this
  | other =>
    intro q
    have := ho q
    rw [outQ_none q [_] (by intro k hk; simp at hk; subst hk; rfl)] at this
    simpa using this

theorem resume_invO (cfg : Cfg) (s : St) (i : Nat) (ha : InvA s) (ho : InvO s) : InvO (resume cfg s i) := by
  unfold resume
  cases hx : extract i s.runq with
  | none => exact ho
  | some mr =>
    obtain ⟨k, rest⟩ := mr
    simp only []
    split
    · obtain ⟨a, b, h1, h2⟩ := extract_split s.runq i k rest hx
      have h0 : TOK (k.tk :: tickets { s with runq := rest }) s.waiting s.sched := by
        unfold InvA tickets at *
        rw [h1] at ha
        simp only [h2]
        exact ha.sub (fun q => by simp [List.countP_append, List.countP_cons]; omega) (fun tk htk => by simp at htk ⊢; grind)
      have hu : ∀ tk ∈ tickets { s with runq := rest }, tk.1 ≠ k.fiber := h0.head_unique
      have hrq := (tickets_flight_ne hu).2
      simp only at hrq
      refine runTask_invO cfg { s with runq := rest } k h0.head_cur hu (fun r => ?_)
      have := ho r
      rw [h1] at this
      simp only [h2] at hrq ⊢
      rw [← this]
      have e : a ++ k :: b = a ++ ([k] ++ b) := by simp
      rw [e]
      simp only [outQ_append]
      by_cases hr : k.fiber = r
      · subst hr
        have ha0 : outQ k.fiber a = [] := outQ_nil _ a (fun x hx => hrq x (List.mem_append_left _ hx))
        have hb0 : outQ k.fiber b = [] := outQ_nil _ b (fun x hx => hrq x (List.mem_append_right _ hx))
        rw [ha0, hb0]; simp
      · rw [outQ_single]; simp [hr]
    · exact ho

/-! ### assembling: executions without abandoned waits -/

theorem cb_abandons (cfg : Cfg) (s : St) (m : Msg) : (cb cfg s m).abandons = s.abandons := by
  obtain ⟨ml, mf, ms, mk⟩ := m
  unfold cb
  cases mk <;> simp only [] <;> (repeat' split) <;> rfl

theorem step_abandons_mono (cfg : Cfg) (s : St) (a : Act) : s.abandons ≤ (step cfg s a).abandons := by
  cases a with
  | give t f x => show s.abandons ≤ (if s.waiting f then s else give s t f x).abandons; unfold give; (repeat' split) <;> exact Nat.le_refl _
  | take t f => show s.abandons ≤ (if s.waiting f then s else take s t f).abandons; unfold take; (repeat' split) <;> exact Nat.le_refl _
  | abandon f => show s.abandons ≤ (abandon s f).abandons; unfold abandon; split <;> simp
  | handle i =>
    show s.abandons ≤ (handle cfg s i).abandons
    unfold handle
    (repeat' split) <;> first | exact Nat.le_refl _ | (rw [cb_abandons]; exact Nat.le_refl _)
  | close t => show s.abandons ≤ (close s t).abandons; unfold close; (repeat' split) <;> exact Nat.le_refl _
  | resume i =>
    show s.abandons ≤ (resume cfg s i).abandons
    unfold resume runTask
    (repeat' split) <;> exact Nat.le_refl _
  | giveNB f x => show s.abandons ≤ (giveNB s f x).abandons; unfold giveNB; (repeat' split) <;> exact Nat.le_refl _

theorem run_abandons_mono (cfg : Cfg) : ∀ (acts : List Act) (s : St), s.abandons ≤ (run cfg acts s).abandons := by
  intro acts
  induction acts with
  | nil => intro s; exact Nat.le_refl _
  | cons a acts ih => intro s; exact Nat.le_trans (step_abandons_mono cfg s a) (ih _)

/-- the invariants of an execution in which no waiting fiber was abandoned -/
structure Clean (s : St) : Prop where
  a : InvA s
  o : InvO s
  f : Fifo s
  stale : s.staleReads = 0

theorem step_clean (cfg : Cfg) (s : St) (a : Act) (hz : (step cfg s a).abandons = s.abandons) (h : Clean s) :
    Clean (step cfg s a) := by
  have hfifo : (step cfg s a).staleReads = s.staleReads → Fifo (step cfg s a) := fun e => step_fifo cfg s a e h.f
  cases a with
  | give t f x =>
    by_cases hw : s.waiting f = true
    · have e : step cfg s (.give t f x) = s := by simp [step, hw]
      rw [e]; exact h
    · have hw' : s.waiting f = false := by simpa using hw
      have e : step cfg s (.give t f x) = give s t f x := by simp [step, hw']
      have hs : (give s t f x).staleReads = s.staleReads := by unfold give; (repeat' split) <;> rfl
      rw [e] at hfifo ⊢
      exact ⟨give_invA s t f x h.a hw', give_invO s t f x h.o, hfifo hs, by rw [hs]; exact h.stale⟩
  | take t f =>
    by_cases hw : s.waiting f = true
    · have e : step cfg s (.take t f) = s := by simp [step, hw]
      rw [e]; exact h
    · have hw' : s.waiting f = false := by simpa using hw
      have e : step cfg s (.take t f) = take s t f := by simp [step, hw']
      have hs : (take s t f).staleReads = s.staleReads := by unfold take; (repeat' split) <;> rfl
      rw [e] at hfifo ⊢
      exact ⟨take_invA s t f h.a hw', take_invO s t f h.a hw' h.o, hfifo hs, by rw [hs]; exact h.stale⟩
  | abandon f =>
    have hw : s.waiting f = false := by
      by_cases hw : s.waiting f = true
      · exfalso
        have : (abandon s f).abandons = s.abandons := hz
        simp [abandon, hw] at this
      · simpa using hw
    have hs : (abandon s f).staleReads = s.staleReads := (abandon_frame s f).2.2.2.2.2.2
    exact ⟨abandon_invA s f h.a hw, abandon_invO s f hw h.o, hfifo hs, by show (abandon s f).staleReads = 0; rw [hs]; exact h.stale⟩
  | handle i =>
    have h1 := handle_invA cfg s i h.a
    exact ⟨h1.1, handle_invO cfg s i h.a h.o, hfifo h1.2, by show (handle cfg s i).staleReads = 0; rw [h1.2]; exact h.stale⟩
  | close t =>
    have hs : (close s t).staleReads = s.staleReads := by unfold close; (repeat' split) <;> rfl
    exact ⟨close_invA s t h.a, close_invO s t h.o, hfifo hs, by show (close s t).staleReads = 0; rw [hs]; exact h.stale⟩
  | giveNB f x =>
    have hs : (giveNB s f x).staleReads = s.staleReads := by unfold giveNB; (repeat' split) <;> rfl
    exact ⟨giveNB_invA s f x h.a, giveNB_invO s f x h.o, hfifo hs, by show (giveNB s f x).staleReads = 0; rw [hs]; exact h.stale⟩
  | resume i =>
    have hs : (resume cfg s i).staleReads = s.staleReads := (resume_frame cfg s i).2.2.2.2.2.2
    exact ⟨resume_invA cfg s i h.a, resume_invO cfg s i h.a h.o, hfifo hs, by show (resume cfg s i).staleReads = 0; rw [hs]; exact h.stale⟩

theorem run_clean (cfg : Cfg) : ∀ (acts : List Act) (s : St), (run cfg acts s).abandons = s.abandons → Clean s →
    Clean (run cfg acts s) := by
  intro acts
  induction acts with
  | nil => intro s _ h; exact h
  | cons a acts ih =>
    intro s hz h
    have hm1 := step_abandons_mono cfg s a
    have hm2 := run_abandons_mono cfg acts (step cfg s a)
    have hz' : (run cfg acts (step cfg s a)).abandons = s.abandons := hz
    have h1 : (step cfg s a).abandons = s.abandons := by omega
    exact ih _ (by omega) (step_clean cfg s a h1 h)

theorem clean_init (limit : Nat) : Clean (init limit) :=
  ⟨⟨fun f => by simp [tickets, init], fun tk htk => by simp [tickets, init] at htk⟩, fun r => by simp [init, gotSeq, outQ, outF, handedTo],
   ⟨Or.inl rfl, rfl⟩, rfl⟩

/-- what a fiber got is an initial segment of what was handed to it; what was handed out is an initial segment of what was sent -/
theorem Clean.got_sublist_sent {s : St} (h : Clean s) (r : Nat) : (gotSeq r s.log).Sublist s.sent := by
  have h1 : (gotSeq r s.log).Sublist (handedTo r s.handed) := by
    rw [← h.o r, List.append_assoc]
    exact List.sublist_append_left _ _
  have h2 : (handedTo r s.handed).Sublist (s.handed.map Prod.snd) := List.Sublist.map _ List.filter_sublist
  have h3 : (s.handed.map Prod.snd).Sublist s.sent := by
    rw [← h.f.2]; exact List.sublist_append_left _ _
  exact h1.trans (h2.trans h3)

/-! ### the event log agrees with the ghost logs -/

theorem cb_log (cfg : Cfg) (s : St) (m : Msg) : (cb cfg s m).log = s.log ∧ (cb cfg s m).sent = s.sent := by
  obtain ⟨ml, mf, ms, mk⟩ := m
  unfold cb
  cases mk <;> simp only [] <;> (repeat' split) <;> exact ⟨rfl, rfl⟩

theorem gaveSeq_append (a b : List Ev) : gaveSeq (a ++ b) = gaveSeq a ++ gaveSeq b := by simp [gaveSeq]

theorem step_logOK (cfg : Cfg) (s : St) (a : Act) (h : gaveSeq s.log = s.sent) : gaveSeq (step cfg s a).log = (step cfg s a).sent := by
  cases a with
  | give t f x =>
    show gaveSeq (if s.waiting f then s else give s t f x).log = (if s.waiting f then s else give s t f x).sent
    unfold give
    (repeat' split) <;> first | exact h | (simp only [gaveSeq_append, h]; rfl)
  | take t f =>
    show gaveSeq (if s.waiting f then s else take s t f).log = (if s.waiting f then s else take s t f).sent
    unfold take
    (repeat' split) <;> exact h
  | abandon f => show gaveSeq (abandon s f).log = (abandon s f).sent; unfold abandon; split <;> exact h
  | handle i =>
    show gaveSeq (handle cfg s i).log = (handle cfg s i).sent
    unfold handle
    (repeat' split) <;> first | exact h | (rw [(cb_log cfg _ _).1, (cb_log cfg _ _).2]; exact h)
  | close t => show gaveSeq (close s t).log = (close s t).sent; unfold close; split <;> exact h
  | giveNB f x =>
    show gaveSeq (giveNB s f x).log = (giveNB s f x).sent
    unfold giveNB
    (repeat' split) <;> first | exact h | (simp only [gaveSeq_append, h]; rfl)
  | resume i =>
    show gaveSeq (resume cfg s i).log = (resume cfg s i).sent
    unfold resume runTask
    (repeat' split) <;> first | exact h | (simp only [gaveSeq_append, h]; simp [gaveSeq])

theorem run_logOK (cfg : Cfg) : ∀ (acts : List Act) (s : St), gaveSeq s.log = s.sent → gaveSeq (run cfg acts s).log = (run cfg acts s).sent := by
  intro acts
  induction acts with
  | nil => intro s h; exact h
  | cons a acts ih => intro s h; exact ih _ (step_logOK cfg s a h)

/-- if every item carries its sender (`tag x` = the giving fiber), the items of one sender are its gives, in order -/
theorem gaveBy_eq_filter (tag : Item → Nat) (sd : Nat) : ∀ (L : List Ev), (∀ f x, Ev.gave f x ∈ L → tag x = f) →
    (gaveSeq L).filter (fun x => tag x == sd) = gaveBy sd L := by
  intro L
  induction L with
  | nil => intro _; rfl
  | cons e L ih =>
    intro h
    have ih' := ih (fun f x hm => h f x (List.mem_cons_of_mem _ hm))
    cases e with
    | gave f x =>
      have ht : tag x = f := h f x List.mem_cons_self
      by_cases hf : f = sd
      · simp [gaveSeq, gaveBy, ht, hf] at ih' ⊢; exact ih'
      · simp [gaveSeq, gaveBy, ht, hf] at ih' ⊢; exact ih'
    | got f x => simpa [gaveSeq, gaveBy] using ih'

end JanetModel.Thread
