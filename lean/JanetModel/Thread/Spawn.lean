/- C08 - `ev/thread` value hand-over: cfun_ev_thread marshals a sequence of segments into ONE malloc'ed buffer (abstract registry
   unless :a, supervisor channel if there is one, cfunction registry unless :c, then `main`, then `value`), hands the buffer to
   exactly one new OS thread (janet_ev_threaded_call: init->msg.argp), and janet_go_thread_subr of that thread unmarshals the
   segments in the same order under the same flag word (msg.tag), then frees the buffer.
   The write plan and the read plan are REGENERATED from the source (Gen/Thread.lean: `threadWritePlan`, `threadReadPlan`).
   Core Lean only. -/
namespace JanetModel.Thread.Spawn

inductive SegKind | registry | supervisor | cfuns | main | value
  deriving DecidableEq, Repr

/-- one step of a plan: `if (flags & mask)` (wantSet) / `if (!(flags & mask))` / unconditional, then one segment of `kind` -/
structure PStep where
  always : Bool
  mask : Nat
  wantSet : Bool
  kind : SegKind
  deriving DecidableEq, Repr

def PStep.enabled (p : PStep) (flags : Nat) : Bool := p.always || (((flags &&& p.mask) != 0) == p.wantSet)

/-- what the caller passes for each segment kind (abstract value ids) -/
abbrev Args := SegKind → Nat
abbrev Buf := List (SegKind × Nat)

/-- cfun_ev_thread: the enabled steps, in order -/
def writeBuf (plan : List PStep) (flags : Nat) (a : Args) : Buf :=
  (plan.filter (fun p => p.enabled flags)).map (fun p => (p.kind, a p.kind))

/-- janet_go_thread_subr: consume the buffer in plan order; an enabled step that meets a segment of another kind (or the end of
    the buffer) reads something else than what was written: `none` -/
def readBuf : List PStep → Nat → Buf → Option (Buf × Buf)
  | [], _, b => some ([], b)
  | p :: ps, flags, b =>
    if p.enabled flags then
      match b with
      | (k, v) :: rest =>
        if k = p.kind then
          match readBuf ps flags rest with
          | some (got, left) => some ((k, v) :: got, left)
          | none => none
        else none
      | [] => none
    else readBuf ps flags b

/-! ### every started thread consumes its buffer exactly once -/

structure HSt where
  /-- (flags, buffer) handed to janet_ev_threaded_call whose thread has not run janet_go_thread_subr yet -/
  started : List (Nat × Buf) := []
  /-- what the threads that ran unmarshalled (`none` = garbage) -/
  ran : List (Option (Buf × Buf)) := []
  /-- buffers freed (janet_buffer_deinit + janet_free at the end of janet_go_thread_subr) -/
  freed : Nat := 0
  /-- ghost: every (main, value) pair handed to ev/thread -/
  spawned : List (Nat × Nat) := []
  deriving Repr

inductive HAct
  | spawn (flags : Nat) (a : Nat × Nat × Nat)   -- (supervisor, main, value) ids; registries are fixed per VM
  | run (i : Nat)
  deriving Repr

def mkArgs (a : Nat × Nat × Nat) : Args
  | .registry => 0
  | .supervisor => a.1
  | .cfuns => 0
  | .main => a.2.1
  | .value => a.2.2

def removeNth {α : Type} : Nat → List α → Option (α × List α)
  | _, [] => none
  | 0, a :: l => some (a, l)
  | n + 1, a :: l =>
    match removeNth n l with
    | some (b, l') => some (b, a :: l')
    | none => none

def hstep (wplan rplan : List PStep) (s : HSt) : HAct → HSt
  | .spawn flags a =>
    { s with started := s.started ++ [(flags, writeBuf wplan flags (mkArgs a))], spawned := s.spawned ++ [(a.2.1, a.2.2)] }
  | .run i =>
    match removeNth i s.started with
    | none => s
    | some ((flags, b), rest) => { s with started := rest, ran := s.ran ++ [readBuf rplan flags b], freed := s.freed + 1 }

def hrun (wplan rplan : List PStep) (acts : List HAct) (s : HSt) : HSt := acts.foldl (hstep wplan rplan) s

/-- (main, value) that a thread which ran received, if it read a well-formed buffer -/
def received (r : Option (Buf × Buf)) : Option (Nat × Nat) :=
  match r with
  | some (got, []) =>
    match got.find? (fun p => p.1 == SegKind.main), got.find? (fun p => p.1 == SegKind.value) with
    | some m, some v => some (m.2, v.2)
    | _, _ => none
  | _ => none

end JanetModel.Thread.Spawn
