/- C19 (session 4): depth guards recognised on the control-flow graph of the -O0 LLVM IR, as certificates.

   `tools/gen/cgguard.py` emits, per guard function, its CFG (block 0 = entry), the blocks that end in a conditional
   branch on `icmp PRED counter, K` (`checks`), the blocks that contain a recursive call (`targets`), the blocks that
   contain a call of a function that never returns (`stops`), and an UNTRUSTED set `safe` of blocks claimed to be all
   that can be reached from the entry without taking the pass edge of a check.  `certOK` re-checks the claim;
   `guard_dominates` (proved once, for every certificate) turns it into: every CFG path from the entry to a recursive
   call takes a pass edge - the call is dominated by "counter compared with the limit, limit not reached".
   Which branch side is the pass side is decided here (`refuseOnTrue`) from the predicate and the constant.
   Core Lean only. -/
namespace JanetModel.Depth

structure GCheck where
  block : Nat
  pred : String
  k : Int
  t : Nat
  f : Nat
  deriving Repr, DecidableEq

/-- bit `i` of a block set given as a bit mask (kernel-accelerated Nat operations: the certificate of run_vm has
    1049 blocks and 1491 edges) -/
def inMask (m i : Nat) : Bool := Nat.beq (Nat.land (Nat.shiftRight m i) 1) 1

/-- membership of an edge in a (short) edge list, by `Nat.beq` -/
def edgeIn (l : List (Nat × Nat)) (e : Nat × Nat) : Bool := l.any (fun x => Nat.beq x.1 e.1 && Nat.beq x.2 e.2)

theorem edgeIn_iff (l : List (Nat × Nat)) (e : Nat × Nat) : edgeIn l e = true ↔ e ∈ l := by
  simp only [edgeIn, List.any_eq_true, Bool.and_eq_true]
  constructor
  · rintro ⟨x, hx, h1, h2⟩
    have : x = e := Prod.ext (Nat.eq_of_beq_eq_true h1) (Nat.eq_of_beq_eq_true h2)
    exact this ▸ hx
  · intro h; exact ⟨e, h, Nat.beq_refl _, Nat.beq_refl _⟩

structure GuardCert where
  fn : String
  /-- "counter" (compares and charges a depth counter), "helper" (checker: target = may return 0), "via" (branches on
      a checker's result), "argconst" (self call passes a constant), "noreturn" (target = ret blocks, no checks) -/
  kind : String
  counter : String
  charge : String
  countdown : Bool
  inits : List Nat
  n : Nat
  cfg : List (Nat × Nat)
  checks : List GCheck
  targets : List Nat
  /-- bit mask of the blocks that contain a call of a function that never returns -/
  stops : Nat
  stopCallees : List String
  /-- UNTRUSTED: bit mask of the blocks reachable from the entry without taking a pass edge -/
  safe : Nat
  deriving Repr

/-- does the TRUE side of `br (icmp pred counter, k)` refuse to recurse?  `none`: not a limit test.
    count-up counters are refused at `>= / > K` (K ≥ 2); count-down counters at `== / <= / < K` (K ≤ 1);
    `!= / > K` (K ≤ 1) and `< / <= K` (K ≥ 2) are the same tests with the sides swapped.
    kind "via": the value is the result of a checker helper, 0 = may go on. -/
def refuseOnTrue (kind : String) (pred : String) (k : Int) : Option Bool :=
  if kind == "via" then
    (if pred == "ne" && k == 0 then some true else if pred == "eq" && k == 0 then some false else none)
  else if kind == "argconst" then
    -- `param == T` guards a self call that passes a constant S ≠ T: the pass side is the `== T` side
    (if pred == "eq" then some false else if pred == "ne" then some true else none)
  else if ["sge", "sgt", "uge", "ugt"].contains pred && decide (2 ≤ k) then some true
  else if ["eq", "sle", "slt", "ule", "ult"].contains pred && decide (k ≤ 1) then some true
  else if ["ne", "sgt", "ugt"].contains pred && decide (k ≤ 1) then some false
  else if ["slt", "sle", "ult", "ule"].contains pred && decide (2 ≤ k) then some false
  else none

def passEdge (kind : String) (c : GCheck) : Option (Nat × Nat) :=
  match refuseOnTrue kind c.pred c.k with
  | some true => some (c.block, c.f)
  | some false => some (c.block, c.t)
  | none => none

def isVia (c : GuardCert) : Bool := c.kind == "via"

def passEdges (c : GuardCert) : List (Nat × Nat) := c.checks.filterMap (passEdge c.kind)

/-- one CFG edge of the closure check: from a safe block that is not a stop, every edge that is not a pass edge stays
    inside `safe` -/
def edgeClosed (c : GuardCert) (pe : List (Nat × Nat)) (e : Nat × Nat) : Bool :=
  !(inMask c.safe e.1) || inMask c.stops e.1 || edgeIn pe e || inMask c.safe e.2

/-- The certificate check (run by the kernel on the generated certificates). -/
def certOK (c : GuardCert) : Bool :=
  inMask c.safe 0 &&
  c.cfg.all (fun e => Nat.ble (e.1 + 1) c.n && Nat.ble (e.2 + 1) c.n) &&
  c.checks.all (fun ch => (passEdge c.kind ch).isSome && edgeIn c.cfg (ch.block, ch.t) && edgeIn c.cfg (ch.block, ch.f)) &&
  c.cfg.all (edgeClosed c (passEdges c)) &&
  c.targets.all (fun t => !(inMask c.safe t))

/-- the limit side: a count-up compare refuses at K ≤ L + 1; a count-down counter is never initialised above L -/
def limitOK (L : Nat) (c : GuardCert) : Bool :=
  c.inits.all (fun i => Nat.ble i L) &&
  c.checks.all (fun ch => isVia c || decide (ch.k ≤ (L : Int) + 1))

/-- consecutive pairs of a path -/
def pairs : List Nat → List (Nat × Nat)
  | [] => []
  | [_] => []
  | a :: b :: rest => (a, b) :: pairs (b :: rest)

/-- a CFG path on which execution really continues: consecutive blocks are joined by CFG edges, and no block but the
    last contains a call of a function that never returns -/
def LivePath (c : GuardCert) (p : List Nat) : Prop :=
  ∀ e ∈ pairs p, e ∈ c.cfg ∧ inMask c.stops e.1 = false

theorem pairs_cons_mem {a b : Nat} {rest : List Nat} {e : Nat × Nat} (h : e ∈ pairs (b :: rest)) :
    e ∈ pairs (a :: b :: rest) := by
  simp [pairs, h]

/-- closure: on a live path that starts in `safe` and takes no pass edge, every block is in `safe` -/
theorem safe_closed (c : GuardCert) (hok : certOK c = true) :
    ∀ (p : List Nat) (a : Nat), inMask c.safe a = true → LivePath c (a :: p) →
      (∀ e ∈ pairs (a :: p), e ∉ passEdges c) → ∀ v ∈ a :: p, inMask c.safe v = true := by
  have hcl : ∀ e ∈ c.cfg, edgeClosed c (passEdges c) e = true := by
    simp only [certOK, Bool.and_eq_true, List.all_eq_true] at hok
    exact hok.1.2
  intro p
  induction p with
  | nil => intro a ha _ _ v hv; simp at hv; exact hv ▸ ha
  | cons b rest ih =>
    intro a ha hlive hnp v hv
    have he : (a, b) ∈ pairs (a :: b :: rest) := by simp [pairs]
    have h1 := hlive (a, b) he
    have h2 := hnp (a, b) he
    have hc := hcl (a, b) h1.1
    have hb : inMask c.safe b = true := by
      simp only [edgeClosed, Bool.or_eq_true, Bool.not_eq_true'] at hc
      rcases hc with ((hc | hc) | hc) | hc
      · rw [ha] at hc; exact Bool.noConfusion hc
      · rw [h1.2] at hc; exact Bool.noConfusion hc
      · exact absurd ((edgeIn_iff _ _).mp hc) h2
      · exact hc
    rcases List.mem_cons.mp hv with hv | hv
    · exact hv ▸ ha
    · exact ih b hb (fun e he => hlive e (pairs_cons_mem he)) (fun e he => hnp e (pairs_cons_mem he)) v hv

/-- ★ domination: with a valid certificate, every live CFG path from the entry that ends in a target block (a
    recursive call) takes the pass edge of a check somewhere. -/
theorem guard_dominates (c : GuardCert) (hok : certOK c = true) (p : List Nat) (t : Nat)
    (hlive : LivePath c (0 :: p)) (hlast : t ∈ 0 :: p) (ht : t ∈ c.targets) :
    ∃ e ∈ pairs (0 :: p), e ∈ passEdges c := by
  apply Classical.byContradiction
  intro hno
  have hnp : ∀ e ∈ pairs (0 :: p), e ∉ passEdges c := fun e he hpe => hno ⟨e, he, hpe⟩
  have h0 : inMask c.safe 0 = true := by
    simp only [certOK, Bool.and_eq_true] at hok
    exact hok.1.1.1.1
  have hs := safe_closed c hok p 0 h0 hlive hnp t hlast
  have htg : ∀ x ∈ c.targets, (!(inMask c.safe x)) = true := by
    simp only [certOK, Bool.and_eq_true, List.all_eq_true] at hok
    exact hok.2
  have := htg t ht
  rw [hs] at this
  exact Bool.noConfusion this

/-- every pass edge of a valid certificate leaves a block that ends in a compare the limit rule accepts -/
theorem passEdge_from_check (c : GuardCert) (e : Nat × Nat) (h : e ∈ passEdges c) :
    ∃ ch ∈ c.checks, e.1 = ch.block ∧ (refuseOnTrue c.kind ch.pred ch.k).isSome := by
  simp only [passEdges, List.mem_filterMap] at h
  obtain ⟨ch, hch, hpe⟩ := h
  refine ⟨ch, hch, ?_⟩
  unfold passEdge at hpe
  split at hpe <;> simp_all
  · exact hpe ▸ rfl
  · exact hpe ▸ rfl

/-! ### the certificate set of one tree -/

def findCert (cs : List GuardCert) (kind fn : String) : Option GuardCert :=
  cs.find? (fun c => c.fn == fn && c.kind == kind)

/-- a callee the certificates treat as never returning: declared/attributed `noreturn` in the IR, or it has a valid
    "noreturn" certificate (no `ret` reachable from its entry once execution stops at calls of such functions) -/
def stopsJustified (attr : List String) (nr : List GuardCert) (c : GuardCert) : Bool :=
  c.stopCallees.all (fun s => attr.contains s || (nr.any (fun d => d.fn == s && d.kind == "noreturn" && certOK d)))

/-- everything one guard certificate needs: the CFG claim, the limit, its stops justified (the noreturn certificates'
    own stops too), at least one check, and for a `via` guard a valid certificate of the helper it names -/
def guardOK (L : Nat) (attr : List String) (nr all : List GuardCert) (c : GuardCert) : Bool :=
  certOK c && limitOK L c && !c.checks.isEmpty && stopsJustified attr nr c &&
  nr.all (fun d => stopsJustified attr nr d) &&
  (c.kind == "counter" ||
   (c.kind == "via" && all.any (fun h => h.kind == "helper" && c.charge == "via:" ++ h.fn && certOK h && limitOK L h &&
      !h.checks.isEmpty && !h.targets.isEmpty && stopsJustified attr nr h)))

/-- names of the functions with a valid guard certificate -/
def certified (L : Nat) (attr : List String) (nr all : List GuardCert) : List String :=
  (all.filter (guardOK L attr nr all)).map (·.fn)

/-- the tie to the call graph: every guard mark is certified or a written exemption -/
def guardsCertified (names : List String) (guard : List Bool) (cert bounded : List String) : Bool :=
  (List.zip names guard).all (fun p => !p.2 || cert.contains p.1 || bounded.contains p.1)

end JanetModel.Depth

/-! ### counter balance on the IR control-flow graph (all paths, loops included) -/
namespace JanetModel.Depth

/-- per guard with a ±1 memory counter: net charges per block (`delta`), UNTRUSTED label `level` = charges outstanding
    when the block is entered, live blocks, blocks that never continue, return blocks, recursive calls with the level there -/
structure BalCert where
  fn : String
  counter : String
  n : Nat
  cfg : List (Nat × Nat)
  level : List Int
  delta : List Int
  live : Nat
  stops : Nat
  rets : List Nat
  calls : List (Nat × Int)

def lvl (c : BalCert) (b : Nat) : Int := c.level.getD b 0
def dlt (c : BalCert) (b : Nat) : Int := c.delta.getD b 0
def isRet (c : BalCert) (b : Nat) : Bool := c.rets.any (fun r => Nat.beq r b)

/-- an edge on which a charge is kept: into a return block, arriving with more charges outstanding than the block's label
    (an early error return; the counter is re-initialised by the next top-level entry) -/
def isLeak (c : BalCert) (e : Nat × Nat) : Bool :=
  inMask c.live e.1 && !(inMask c.stops e.1) && isRet c e.2 && decide (lvl c e.2 < lvl c e.1 + dlt c e.1)

def leakCount (c : BalCert) : Nat := (c.cfg.filter (isLeak c)).length

def balEdgeOK (c : BalCert) (e : Nat × Nat) : Bool :=
  !(inMask c.live e.1) || inMask c.stops e.1 ||
  (inMask c.live e.2 &&
    (if isRet c e.2 then decide (lvl c e.2 ≤ lvl c e.1 + dlt c e.1) else decide (lvl c e.2 = lvl c e.1 + dlt c e.1)))

/-- the balance check (kernel-evaluated): labels consistent along every live edge, 0 at the entry, never negative,
    every return block ends at 0 and changes nothing -/
def balOK (c : BalCert) : Bool :=
  inMask c.live 0 && decide (lvl c 0 = 0) &&
  c.cfg.all (fun e => Nat.ble (e.1 + 1) c.n && Nat.ble (e.2 + 1) c.n && balEdgeOK c e) &&
  (List.range c.n).all (fun b => !(inMask c.live b) || decide (0 ≤ lvl c b)) &&
  c.rets.all (fun r => decide (lvl c r = 0) && decide (dlt c r = 0))

/-- recursive calls made with no charge of THIS counter taken (must be justified one by one: see `unchargedAllowed`) -/
def unchargedCount (c : BalCert) : Nat := (c.calls.filter (fun p => decide (p.2 < 1))).length

/-- net charges on a path, the last block excluded -/
def pathDelta (c : BalCert) : List Nat → Int
  | [] => 0
  | [_] => 0
  | a :: b :: rest => dlt c a + pathDelta c (b :: rest)

def lastOf : Nat → List Nat → Nat
  | a, [] => a
  | _, b :: rest => lastOf b rest

/-- a path on which execution continues: CFG edges, no block but the last is a stop -/
def LiveB (c : BalCert) (p : List Nat) : Prop := ∀ e ∈ pairs p, e ∈ c.cfg ∧ inMask c.stops e.1 = false

/-- ★ on EVERY live path from a live block the label at its end is at most the label at its start plus the net charges
    taken on the way, and is never negative: nowhere on any path has more been released than was charged -/
theorem bal_path_le (c : BalCert) (hok : balOK c = true) :
    ∀ (p : List Nat) (a : Nat), a < c.n → inMask c.live a = true → LiveB c (a :: p) →
      lvl c (lastOf a p) ≤ lvl c a + pathDelta c (a :: p) ∧ 0 ≤ lvl c (lastOf a p) ∧ inMask c.live (lastOf a p) = true := by
  have hedge : ∀ e ∈ c.cfg, (Nat.ble (e.1 + 1) c.n && Nat.ble (e.2 + 1) c.n && balEdgeOK c e) = true := by
    simp only [balOK, Bool.and_eq_true, List.all_eq_true] at hok
    intro e he
    have := hok.1.1.2 e he
    simp only [Bool.and_eq_true]
    exact this
  have hnn : ∀ b, b < c.n → inMask c.live b = true → 0 ≤ lvl c b := by
    intro b hb hl
    simp only [balOK, Bool.and_eq_true, List.all_eq_true, List.mem_range] at hok
    have := hok.1.2 b hb
    rw [hl] at this
    simpa using this
  intro p
  induction p with
  | nil =>
    intro a han ha _
    exact ⟨by simp [lastOf, pathDelta], hnn a han ha, ha⟩
  | cons b rest ih =>
    intro a _ ha hlive
    have he : (a, b) ∈ pairs (a :: b :: rest) := by simp [pairs]
    have h1 := hlive (a, b) he
    have hc0 := hedge (a, b) h1.1
    simp only [Bool.and_eq_true] at hc0
    have hbn : b < c.n := by
      have := Nat.le_of_ble_eq_true hc0.1.2
      omega
    have hc := hc0.2
    simp only [balEdgeOK, Bool.or_eq_true, Bool.not_eq_true', Bool.and_eq_true] at hc
    have hb : inMask c.live b = true ∧ lvl c b ≤ lvl c a + dlt c a := by
      rcases hc with (hc | hc) | hc
      · rw [ha] at hc; exact Bool.noConfusion hc
      · rw [h1.2] at hc; exact Bool.noConfusion hc
      · refine ⟨hc.1, ?_⟩
        have h2 := hc.2
        cases hr : isRet c b with
        | true => simp [hr] at h2; exact h2
        | false => simp [hr] at h2; omega
    have ih' := ih b hbn hb.1 (fun e he => hlive e (pairs_cons_mem he))
    refine ⟨?_, ih'.2.1, ih'.2.2⟩
    simp only [lastOf, pathDelta]
    have := ih'.1
    omega

end JanetModel.Depth
