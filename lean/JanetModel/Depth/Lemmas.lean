/- C19: soundness of the rank certificate, for EVERY graph. -/
import JanetModel.Depth.Model
namespace JanetModel.Depth

theorem rankOK_edge {G : CG} {rank : List Nat} (h : rankOK G rank = true) {a b : Nat} (he : (a, b) ∈ G.edges) :
    a < G.n ∧ b < G.n ∧ (isGuard G a = true ∨ isGuard G b = true ∨ rk rank b < rk rank a) := by
  unfold rankOK at h
  rw [Bool.and_eq_true] at h
  have h1 := List.all_eq_true.mp h.1 (a, b) he
  unfold edgeOK at h1
  simp only [Bool.and_eq_true, Bool.or_eq_true, decide_eq_true_eq] at h1
  obtain ⟨⟨ha, hb⟩, h3⟩ := h1
  refine ⟨ha, hb, ?_⟩
  rcases h3 with (h3 | h3) | h3
  · exact Or.inl h3
  · exact Or.inr (Or.inl h3)
  · exact Or.inr (Or.inr h3)

theorem rankOK_node {G : CG} {rank : List Nat} (h : rankOK G rank = true) {v : Nat} (hv : v < G.n) :
    isGuard G v = true ∨ rk rank v < G.n := by
  unfold rankOK at h
  rw [Bool.and_eq_true] at h
  have h1 := List.all_eq_true.mp h.2 v (List.mem_range.mpr hv)
  unfold nodeOK at h1
  simp only [Bool.or_eq_true, decide_eq_true_eq] at h1
  exact h1

theorem IsChain.tail {G : CG} {a : Nat} {l : List Nat} (h : IsChain G (a :: l)) : IsChain G l := by
  cases l with
  | nil => trivial
  | cons b rest => exact h.2

theorem IsChain.of_append_right {G : CG} : ∀ (l1 l2 : List Nat), IsChain G (l1 ++ l2) → IsChain G l2
  | [], _, h => h
  | _ :: l1, l2, h => IsChain.of_append_right l1 l2 (IsChain.tail h)

theorem IsChain.of_append_left {G : CG} : ∀ (l1 l2 : List Nat), IsChain G (l1 ++ l2) → IsChain G l1
  | [], _, _ => trivial
  | [_], _, _ => trivial
  | a :: b :: l1, l2, h => by
    have h' : (a, b) ∈ G.edges ∧ IsChain G (b :: (l1 ++ l2)) := h
    exact ⟨h'.1, IsChain.of_append_left (b :: l1) l2 h'.2⟩

/-- Along a chain of non-guard frames the rank drops by one per frame:
    `rank(last) + (number of further frames) ≤ rank(first)`. -/
theorem chain_rank_drop {G : CG} {rank : List Nat} (hok : rankOK G rank = true) :
    ∀ (a : Nat) (l : List Nat), IsChain G (a :: l) → (∀ v ∈ a :: l, isGuard G v = false) →
      rk rank ((a :: l).getLast (List.cons_ne_nil a l)) + l.length ≤ rk rank a
  | a, [], _, _ => by simp
  | a, b :: rest, hc, hng => by
    have hc' : (a, b) ∈ G.edges ∧ IsChain G (b :: rest) := hc
    have ih := chain_rank_drop hok b rest hc'.2 (fun v hv => hng v (List.mem_cons_of_mem a hv))
    obtain ⟨_, _, h3⟩ := rankOK_edge hok hc'.1
    have ga := hng a (List.mem_cons_self)
    have gb := hng b (List.mem_cons_of_mem a List.mem_cons_self)
    have hlt : rk rank b < rk rank a := by
      rcases h3 with h3 | h3 | h3
      · rw [ga] at h3; cases h3
      · rw [gb] at h3; cases h3
      · exact h3
    have hl : (a :: b :: rest).getLast (List.cons_ne_nil a (b :: rest)) = (b :: rest).getLast (List.cons_ne_nil b rest) :=
      List.getLast_cons (List.cons_ne_nil b rest)
    rw [hl]
    simp only [List.length_cons] at ih ⊢
    omega

/-- every run of consecutive non-guard frames in a call chain is at most |V| long -/
theorem nonguard_run_le {G : CG} {rank : List Nat} (hok : rankOK G rank = true) (run : List Nat)
    (hc : IsChain G run) (hng : ∀ v ∈ run, isGuard G v = false) (hin : ∀ v ∈ run, v < G.n) :
    run.length ≤ G.n := by
  cases run with
  | nil => simp
  | cons a l =>
    have h := chain_rank_drop hok a l hc hng
    have ha := rankOK_node hok (hin a List.mem_cons_self)
    have ga := hng a List.mem_cons_self
    rcases ha with ha | ha
    · rw [ga] at ha; cases ha
    · simp only [List.length_cons]; omega

/-- potential used for the whole-chain bound -/
private def headSlack (G : CG) (rank : List Nat) (a : Nat) : Nat := if isGuard G a then 0 else rk rank a + 1

theorem chain_length_aux {G : CG} {rank : List Nat} (hok : rankOK G rank = true) :
    ∀ (a : Nat) (l : List Nat), IsChain G (a :: l) →
      (a :: l).length ≤ guardCount G (a :: l) * (G.n + 1) + (if isGuard G a then 0 else rk rank a + 1)
  | a, [], _ => by
    by_cases ga : isGuard G a = true
    · simp [guardCount, ga]
    · simp [guardCount, ga]
  | a, b :: rest, hc => by
    have hc' : (a, b) ∈ G.edges ∧ IsChain G (b :: rest) := hc
    have ih := chain_length_aux hok b rest hc'.2
    obtain ⟨_, hb, h3⟩ := rankOK_edge hok hc'.1
    have hbn := rankOK_node hok hb
    have hg : guardCount G (a :: b :: rest) = (if isGuard G a then 1 else 0) + guardCount G (b :: rest) := rfl
    rw [hg]
    simp only [List.length_cons] at ih ⊢
    by_cases ga : isGuard G a = true
    · simp only [ga, if_true]
      by_cases gb : isGuard G b = true
      · simp only [gb, if_true] at ih
        rw [Nat.add_mul]; omega
      · have gb' : isGuard G b = false := by simpa using gb
        simp only [gb', Bool.false_eq_true, if_false] at ih
        have : rk rank b < G.n := by
          rcases hbn with h | h
          · rw [gb'] at h; cases h
          · exact h
        rw [Nat.add_mul]; omega
    · have ga' : isGuard G a = false := by simpa using ga
      simp only [ga', Bool.false_eq_true, if_false, Nat.zero_add]
      by_cases gb : isGuard G b = true
      · simp only [gb, if_true] at ih
        omega
      · have gb' : isGuard G b = false := by simpa using gb
        simp only [gb', Bool.false_eq_true, if_false] at ih
        have hlt : rk rank b < rk rank a := by
          rcases h3 with h3 | h3 | h3
          · rw [ga'] at h3; cases h3
          · rw [gb'] at h3; cases h3
          · exact h3
        omega

/-- along a chain of non-guard frames every later frame has a strictly smaller rank than the first -/
theorem chain_rank_lt {G : CG} {rank : List Nat} (hok : rankOK G rank = true) :
    ∀ (a : Nat) (l : List Nat), IsChain G (a :: l) → (∀ v ∈ a :: l, isGuard G v = false) →
      ∀ v ∈ l, rk rank v < rk rank a
  | _, [], _, _ => by intro v hv; cases hv
  | a, b :: rest, hc, hng => by
    have hc' : (a, b) ∈ G.edges ∧ IsChain G (b :: rest) := hc
    have ih := chain_rank_lt hok b rest hc'.2 (fun v hv => hng v (List.mem_cons_of_mem a hv))
    obtain ⟨_, _, h3⟩ := rankOK_edge hok hc'.1
    have ga := hng a (List.mem_cons_self)
    have gb := hng b (List.mem_cons_of_mem a List.mem_cons_self)
    have hlt : rk rank b < rk rank a := by
      rcases h3 with h3 | h3 | h3
      · rw [ga] at h3; cases h3
      · rw [gb] at h3; cases h3
      · exact h3
    intro v hv
    rcases List.mem_cons.mp hv with h | h
    · rw [h]; exact hlt
    · exact Nat.lt_trans (ih v h) hlt

/-- A closed chain of non-guard frames refutes every rank certificate (completeness of the check:
    a failing `rankOK` is not an artefact of the rank search when the translator exhibits such a cycle). -/
theorem unguarded_cycle_no_rank {G : CG} (a : Nat) (mid : List Nat)
    (hc : IsChain G (a :: (mid ++ [a]))) (hng : ∀ v ∈ a :: (mid ++ [a]), isGuard G v = false) :
    ∀ rank : List Nat, rankOK G rank = false := by
  intro rank
  by_cases hok : rankOK G rank = true
  · have h := chain_rank_lt hok a (mid ++ [a]) hc hng a (List.mem_append_right mid List.mem_cons_self)
    exact absurd h (Nat.lt_irrefl _)
  · simpa using hok

/-- what `balanced` buys: along any sequence of completed paths the counter never ends above its starting value by
    more than zero, i.e. the net amount given back never exceeds the amount taken -/
theorem balanced_no_excess_release : ∀ (ps : List PathCount), balanced ps = true →
    (ps.map (·.releases)).sum ≤ (ps.map (·.charges)).sum
  | [], _ => by simp
  | p :: ps, h => by
    unfold balanced at h
    rw [List.all_cons, Bool.and_eq_true] at h
    have ih := balanced_no_excess_release ps h.2
    have hp : p.releases ≤ p.charges := by
      have := h.1
      unfold pathOK at this
      rw [Bool.and_eq_true] at this
      exact of_decide_eq_true this.1
    simp only [List.map_cons, List.sum_cons]
    omega

end JanetModel.Depth
