/- C19 (session 4): the per-SCC stack budgets composed along the SCC DAG.

   Session 3 summed the budgets of ALL recursive SCCs.  A real native stack passes through the SCCs it visits in the
   order of the call graph's condensation, so only SCCs on one path of that DAG can be live together.
   `ReachCert`: for every recursive SCC an UNTRUSTED set (bit mask over all functions of the module) claimed to contain
   everything reachable from it; `reachOK` re-checks membership and closure under EVERY call edge and that a pair of SCCs
   not listed in `claimed` is really unreachable.  `reach_sound`: then any call chain from a function of SCC i to a
   function of SCC j ≠ i makes (i, j) a claimed pair.  `sccPotOK` + `path_budget_le`: the budgets along any path of claimed
   pairs sum to at most the potential of its first SCC.  Core Lean only. -/
import JanetModel.Depth.Stack
import JanetModel.Depth.GuardCert
namespace JanetModel.Depth

structure ReachCert where
  n : Nat
  edges : List (Nat × Nat)
  members : List (List Nat)
  masks : List Nat
  claimed : List (Nat × Nat)

def maskOf (c : ReachCert) (i : Nat) : Nat := c.masks.getD i 0
def membersOf (c : ReachCert) (i : Nat) : List Nat := c.members.getD i []

def reachOK (c : ReachCert) : Bool :=
  (List.range c.members.length).all (fun i =>
    (membersOf c i).all (fun v => inMask (maskOf c i) v) &&
    c.edges.all (fun e => !(inMask (maskOf c i) e.1) || inMask (maskOf c i) e.2) &&
    (List.range c.members.length).all (fun j =>
      Nat.beq i j || edgeIn c.claimed (i, j) || (membersOf c j).all (fun v => !(inMask (maskOf c i) v))))

/-- a call chain over an edge list -/
def ChainE (es : List (Nat × Nat)) : List Nat → Prop
  | [] => True
  | [_] => True
  | a :: b :: rest => (a, b) ∈ es ∧ ChainE es (b :: rest)

theorem chain_in_mask (es : List (Nat × Nat)) (m : Nat)
    (hcl : ∀ e ∈ es, (!(inMask m e.1) || inMask m e.2) = true) :
    ∀ (l : List Nat) (a : Nat), inMask m a = true → ChainE es (a :: l) → ∀ v ∈ a :: l, inMask m v = true
  | [], a, ha, _, v, hv => by simp at hv; exact hv ▸ ha
  | b :: rest, a, ha, hc, v, hv => by
    have hab : (a, b) ∈ es := hc.1
    have h1 := hcl (a, b) hab
    have hb : inMask m b = true := by
      simp only [Bool.or_eq_true, Bool.not_eq_true'] at h1
      rcases h1 with h1 | h1
      · rw [ha] at h1; exact Bool.noConfusion h1
      · exact h1
    rcases List.mem_cons.mp hv with hv | hv
    · exact hv ▸ ha
    · exact chain_in_mask es m hcl rest b hb hc.2 v hv

/-- ★ soundness of the reachability certificate: a call chain (over ALL call edges of the module) from a function of SCC
    `i` that contains a function of SCC `j ≠ i` makes `(i, j)` a claimed pair -/
theorem reach_sound (c : ReachCert) (hok : reachOK c = true) (i j : Nat) (hi : i < c.members.length)
    (hj : j < c.members.length) (hne : i ≠ j) (a : Nat) (l : List Nat) (ha : a ∈ membersOf c i)
    (hc : ChainE c.edges (a :: l)) (b : Nat) (hb : b ∈ a :: l) (hbj : b ∈ membersOf c j) : (i, j) ∈ c.claimed := by
  simp only [reachOK, List.all_eq_true, List.mem_range, Bool.and_eq_true] at hok
  obtain ⟨⟨hmem, hcl⟩, hpairs⟩ := hok i hi
  have ham : inMask (maskOf c i) a = true := hmem a ha
  have hbm := chain_in_mask c.edges (maskOf c i) hcl l a ham hc b hb
  have hp := hpairs j hj
  simp only [Bool.or_eq_true, List.all_eq_true] at hp
  rcases hp with (hp | hp) | hp
  · exact absurd (Nat.eq_of_beq_eq_true hp) hne
  · exact (edgeIn_iff _ _).mp hp
  · have := hp b hbj
    rw [hbm] at this
    exact Bool.noConfusion this

/-! ### potential over the SCC DAG -/

def bud (budget : List Nat) (i : Nat) : Nat := budget.getD i 0

def sccPotOK (budget spot : List Nat) (claimed : List (Nat × Nat)) : Bool :=
  claimed.all (fun e => Nat.ble (bud budget e.1 + bud spot e.2) (bud spot e.1)) &&
  (List.range budget.length).all (fun i => Nat.ble (bud budget i) (bud spot i))

def PathIn (claimed : List (Nat × Nat)) : List Nat → Prop
  | [] => True
  | [_] => True
  | a :: b :: rest => (a, b) ∈ claimed ∧ PathIn claimed (b :: rest)

def pathBudget (budget : List Nat) : List Nat → Nat
  | [] => 0
  | a :: rest => bud budget a + pathBudget budget rest

/-- ★ the budgets along any path of the SCC DAG sum to at most the potential of its first SCC -/
theorem path_budget_le (budget spot : List Nat) (claimed : List (Nat × Nat)) (hok : sccPotOK budget spot claimed = true) :
    ∀ (rest : List Nat) (a : Nat), (∀ i ∈ a :: rest, i < budget.length) → PathIn claimed (a :: rest) →
      pathBudget budget (a :: rest) ≤ bud spot a
  | [], a, ha, _ => by
    simp only [sccPotOK, Bool.and_eq_true, List.all_eq_true, List.mem_range] at hok
    have := Nat.le_of_ble_eq_true (hok.2 a (ha a List.mem_cons_self))
    simpa [pathBudget] using this
  | b :: rest, a, hr, hp => by
    have hab : (a, b) ∈ claimed := hp.1
    have ih := path_budget_le budget spot claimed hok rest b (fun i hi => hr i (List.mem_cons_of_mem _ hi)) hp.2
    simp only [sccPotOK, Bool.and_eq_true, List.all_eq_true, List.mem_range] at hok
    have h1 := Nat.le_of_ble_eq_true (hok.1 (a, b) hab)
    simp only [pathBudget] at ih ⊢
    simp only at h1
    omega

/-- largest element of a list -/
def listMax : List Nat → Nat
  | [] => 0
  | a :: rest => max a (listMax rest)

theorem getD_le_listMax : ∀ (l : List Nat) (i : Nat), l.getD i 0 ≤ listMax l
  | [], i => by simp [listMax]
  | a :: rest, 0 => by simp [listMax]; exact Nat.le_max_left _ _
  | a :: rest, i + 1 => by
    simp only [List.getD_cons_succ, listMax]
    exact Nat.le_trans (getD_le_listMax rest i) (Nat.le_max_right _ _)

end JanetModel.Depth
