/- C19: frame arithmetic of calls and tail calls (fiber.c: janet_fiber_pushn, janet_fiber_funcframe,
   janet_fiber_funcframe_tail).  Only the index/capacity bookkeeping is modelled; slot contents are not. Core Lean. -/
namespace JanetModel.Depth

/-- JANET_FRAME_SIZE in Janet slots -/
def FRAME : Nat := 4

structure Fiber where
  frame : Nat
  stackstart : Nat
  stacktop : Nat
  capacity : Nat
  deriving Repr, DecidableEq

structure Fn where
  slotcount : Nat
  arity : Nat
  minArity : Nat
  maxArity : Nat
  vararg : Bool
  deriving Repr

/-- janet_fiber_grow + setcapacity: capacity := 2 * needed -/
def grow (needed : Nat) : Nat := 2 * needed

/-- janet_fiber_pushn (push / push2 / push3 are the cases n = 1, 2, 3 with the same arithmetic for n ≥ 2;
    janet_fiber_push grows when stacktop >= capacity, i.e. newtop > capacity as well) -/
def pushn (f : Fiber) (n : Nat) : Fiber :=
  let newtop := f.stacktop + n
  { f with stacktop := newtop, capacity := if newtop > f.capacity then grow newtop else f.capacity }

/-- janet_fiber_funcframe: push a new frame (non-tail call).  `none` = arity mismatch. -/
def funcframe (f : Fiber) (fn : Fn) : Option Fiber :=
  let nextframe := f.stackstart
  let nextstacktop := nextframe + fn.slotcount + FRAME
  let nextArity := f.stacktop - f.stackstart
  if nextArity < fn.minArity ∨ nextArity > fn.maxArity then none
  else
    let cap := if f.capacity < nextstacktop then 2 * nextstacktop else f.capacity
    some { frame := nextframe, stackstart := nextstacktop, stacktop := nextstacktop, capacity := cap }

/-- janet_fiber_funcframe_tail: reuse the current frame (JOP_TAILCALL).  `none` = arity mismatch. -/
def funcframeTail (f : Fiber) (fn : Fn) : Option Fiber :=
  let nextframetop := f.frame + fn.slotcount
  let nextstacktop := nextframetop + FRAME
  let nextArity := f.stacktop - f.stackstart
  if nextArity < fn.minArity ∨ nextArity > fn.maxArity then none
  else
    let cap1 := if f.capacity < nextstacktop then 2 * nextstacktop else f.capacity
    let tuplehead := f.stackstart + fn.arity
    let cap2 := if fn.vararg ∧ tuplehead ≥ f.stacktop ∧ tuplehead ≥ cap1 then 2 * (tuplehead + 1) else cap1
    some { frame := f.frame, stackstart := nextstacktop, stacktop := nextstacktop, capacity := cap2 }

/-- a sequence of tail calls: before each one the VM pushes `k` arguments -/
def tailLoop : Fiber → List (Nat × Fn) → Option Fiber
  | f, [] => some f
  | f, (k, fn) :: rest =>
    match funcframeTail (pushn f k) fn with
    | none => none
    | some f' => tailLoop f' rest

/-- a sequence of non-tail calls -/
def callLoop : Fiber → List (Nat × Fn) → Option Fiber
  | f, [] => some f
  | f, (k, fn) :: rest =>
    match funcframe (pushn f k) fn with
    | none => none
    | some f' => callLoop f' rest

end JanetModel.Depth
