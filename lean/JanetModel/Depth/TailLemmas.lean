/- C19: tail calls run in constant fiber stack; non-tail calls do not. -/
import JanetModel.Depth.Tail
namespace JanetModel.Depth

/-- invariant of a tail-call loop started in frame `fr0` with functions of at most `S` slots and at most `A` pushed
    arguments per call: the frame index never moves, the stack top stays within one frame, the capacity is bounded. -/
structure TailInv (fr0 S A cap0 : Nat) (f : Fiber) : Prop where
  frame_eq : f.frame = fr0
  start_eq : f.stackstart = f.stacktop
  top_le : f.stacktop ≤ fr0 + S + FRAME
  cap_le : f.capacity ≤ cap0 ∨ f.capacity ≤ 2 * (fr0 + 2 * S + A + FRAME + 1)

theorem funcframeTail_some {f f' : Fiber} {fn : Fn} (h : funcframeTail f fn = some f') :
    f'.frame = f.frame ∧ f'.stackstart = f.frame + fn.slotcount + FRAME ∧ f'.stacktop = f.frame + fn.slotcount + FRAME ∧
    (f'.capacity = f.capacity ∨ f'.capacity = 2 * (f.frame + fn.slotcount + FRAME) ∨
      f'.capacity = 2 * (f.stackstart + fn.arity + 1)) := by
  unfold funcframeTail at h
  simp only at h
  split at h
  · cases h
  · injection h with h
    subst h
    refine ⟨rfl, rfl, rfl, ?_⟩
    simp only
    repeat' split
    all_goals first | (left; rfl) | (right; left; rfl) | (right; right; rfl)

theorem tail_step {fr0 S A cap0 : Nat} {f f' : Fiber} {k : Nat} {fn : Fn}
    (hinv : TailInv fr0 S A cap0 f) (hk : k ≤ A) (hs : fn.slotcount ≤ S) (ha : fn.arity ≤ S)
    (h : funcframeTail (pushn f k) fn = some f') : TailInv fr0 S A cap0 f' := by
  obtain ⟨h1, h2, h3, h4⟩ := funcframeTail_some h
  have hp1 : (pushn f k).frame = f.frame := rfl
  have hp2 : (pushn f k).stackstart = f.stackstart := rfl
  have hp3 : (pushn f k).capacity = f.capacity ∨ (pushn f k).capacity = 2 * (f.stacktop + k) := by
    unfold pushn grow
    simp only
    split
    · right; rfl
    · left; rfl
  rw [hp1] at h1 h2 h3 h4
  rw [hp2] at h4
  have e1 := hinv.frame_eq
  have e2 := hinv.start_eq
  have e3 := hinv.top_le
  have e4 := hinv.cap_le
  simp only [FRAME] at h1 h2 h3 h4 e3 e4
  constructor
  · omega
  · omega
  · simp only [FRAME]; omega
  · simp only [FRAME]; omega

/-- **Tail calls of any depth run in constant fiber stack**: for every sequence of tail calls (any length) into
    functions with at most `S` slots, pushing at most `A` arguments each, the frame index is unchanged, the stack
    top stays within one frame above it and the fiber's capacity never exceeds a bound independent of the number
    of calls. -/
theorem tailLoop_inv {fr0 S A cap0 : Nat} :
    ∀ (calls : List (Nat × Fn)) (f f' : Fiber), TailInv fr0 S A cap0 f →
      (∀ c ∈ calls, c.1 ≤ A ∧ c.2.slotcount ≤ S ∧ c.2.arity ≤ S) →
      tailLoop f calls = some f' → TailInv fr0 S A cap0 f'
  | [], f, f', hinv, _, h => by
    unfold tailLoop at h
    injection h with h
    subst h
    exact hinv
  | (k, fn) :: rest, f, f', hinv, hall, h => by
    unfold tailLoop at h
    have hc := hall (k, fn) List.mem_cons_self
    cases hft : funcframeTail (pushn f k) fn with
    | none => rw [hft] at h; cases h
    | some f1 =>
      rw [hft] at h
      have hinv1 := tail_step hinv hc.1 hc.2.1 hc.2.2 hft
      exact tailLoop_inv rest f1 f' hinv1 (fun c hc' => hall c (List.mem_cons_of_mem _ hc')) h

theorem funcframe_some {f f' : Fiber} {fn : Fn} (h : funcframe f fn = some f') :
    f'.frame = f.stackstart ∧ f'.stackstart = f.stackstart + fn.slotcount + FRAME ∧ f'.stacktop = f'.stackstart := by
  unfold funcframe at h
  simp only at h
  split at h
  · cases h
  · injection h with h
    subst h
    exact ⟨rfl, rfl, rfl⟩

/-- contrast: every NON-tail call moves the stack start up by at least one frame header, so `d` nested calls need
    at least `FRAME * d` more slots (this is what the fiber's `maxstack` bounds: "stack overflow" is a catchable error). -/
theorem callLoop_grows :
    ∀ (calls : List (Nat × Fn)) (f f' : Fiber),
      callLoop f calls = some f' → f.stackstart + FRAME * calls.length ≤ f'.stackstart
  | [], f, f', h => by
    unfold callLoop at h
    injection h with h
    subst h
    simp
  | (k, fn) :: rest, f, f', h => by
    unfold callLoop at h
    cases hft : funcframe (pushn f k) fn with
    | none => rw [hft] at h; cases h
    | some f1 =>
      rw [hft] at h
      obtain ⟨_, g2, _⟩ := funcframe_some hft
      have hp2 : (pushn f k).stackstart = f.stackstart := rfl
      have ih := callLoop_grows rest f1 f' h
      simp only [List.length_cons]
      simp only [FRAME] at g2 ih ⊢
      rw [Nat.mul_add]
      omega

end JanetModel.Depth
