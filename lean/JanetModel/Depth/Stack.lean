/- C19: native stack BYTES of call chains.  Core Lean only.

`frame v` is the native frame size of function `v` (gcc -fstack-usage, regenerated per run: `Gen/DepthStack.lean`).
The certificate is a potential `pot`: `pot v` bounds the bytes of every chain that starts in `v` and passes no further
guard (`potOK`: `frame a + pot b ≤ pot a` for every call edge `a → b` into a non-guard `b`, and `frame v ≤ pot v`).
Then a chain costs at most the potential of its head plus the potential of every guard frame in it
(`StackLemmas.chain_bytes_le`), so bytes ≤ Σ over counter classes (live guard frames of the class) × (unit of the class). -/
import JanetModel.Depth.Model
namespace JanetModel.Depth

def wt (frame : List Nat) (v : Nat) : Nat := frame.getD v 0
def pt (pot : List Nat) (v : Nat) : Nat := pot.getD v 0

/-- native bytes of a call chain -/
def chainBytes (frame : List Nat) : List Nat → Nat
  | [] => 0
  | a :: rest => wt frame a + chainBytes frame rest

/-- sum of the potentials of the guard frames of a chain -/
def guardPot (G : CG) (pot : List Nat) : List Nat → Nat
  | [] => 0
  | a :: rest => (if isGuard G a then pt pot a else 0) + guardPot G pot rest

def potEdgeOK (G : CG) (frame pot : List Nat) (e : Nat × Nat) : Bool :=
  isGuard G e.2 || decide (wt frame e.1 + pt pot e.2 ≤ pt pot e.1)

def potNodeOK (frame pot : List Nat) (v : Nat) : Bool := decide (wt frame v ≤ pt pot v)

/-- the certificate check (kernel-evaluated on the generated tables) -/
def potOK (G : CG) (frame pot : List Nat) : Bool :=
  G.edges.all (potEdgeOK G frame pot) && (List.range G.n).all (potNodeOK frame pot)

/-- a counter class: guard functions that charge the same counter.
    `how`: 0 one live instance of the counter per chain (global variable, or created outside the SCC, or assumed);
           2 pool: instances nest, but every site that can start a new instance hands the depth used so far on;
           3 pool where some site does NOT hand its depth on;  4 out of scope (not budgeted) -/
structure ClassInfo where
  id : Nat
  name : String
  base : Nat
  how : Nat
  deriving Repr

/-- live guard frames of a class that its counter protocol allows in one chain (`Nest.lean`: `nest_frames_le` for
    how = 2, `nest_unshared_reaches` for how = 3) -/
def classLimit (c : ClassInfo) : Nat :=
  if c.how = 2 then 2 * c.base else if c.how = 3 then c.base * c.base else if c.how = 4 then 0 else c.base

def clsOf (cls : List Nat) (v : Nat) : Nat := cls.getD v 0
def unitOf (unit : List Nat) (c : Nat) : Nat := unit.getD c 0

/-- number of guard frames of class `c` in a chain -/
def classCount (G : CG) (cls : List Nat) (c : Nat) : List Nat → Nat
  | [] => 0
  | a :: rest => (if isGuard G a && clsOf cls a == c then 1 else 0) + classCount G cls c rest

/-- Σ over the guard frames of the unit of their class -/
def guardUnits (G : CG) (cls unit : List Nat) : List Nat → Nat
  | [] => 0
  | a :: rest => (if isGuard G a then unitOf unit (clsOf cls a) else 0) + guardUnits G cls unit rest

/-- Σ_{c < k} count_c · unit_c -/
def classSum (G : CG) (cls unit : List Nat) (l : List Nat) : Nat → Nat
  | 0 => 0
  | k + 1 => classSum G cls unit l k + classCount G cls k l * unitOf unit k

/-- Σ_{c < k} N_c · unit_c -/
def limitSum (N unit : List Nat) : Nat → Nat
  | 0 => 0
  | k + 1 => limitSum N unit k + N.getD k 0 * unitOf unit k

/-- every guard's potential is within the unit of its class, every class id is below `k`, every non-guard's potential
    is within `maxHead` -/
def unitsOK (G : CG) (pot cls unit : List Nat) (k maxHead : Nat) : Bool :=
  (List.range G.n).all fun v =>
    if isGuard G v then decide (pt pot v ≤ unitOf unit (clsOf cls v)) && decide (clsOf cls v < k)
    else decide (pt pot v ≤ maxHead)

/-- limits per class id (index = id), from the class table -/
def limitsOf (cs : List ClassInfo) (k : Nat) : List Nat :=
  (List.range k).map fun i => match cs.find? (fun c => c.id == i) with
    | some c => classLimit c
    | none => 0

end JanetModel.Depth
