/- C19: how many guard frames can be live at once when LOCAL depth counters are re-created under nested interpreter
   entry.  Core Lean only (linked into jm_c19).

   C side (vm.c, compile.c, specials.c, peg.c):
   * `janet_vm.stackn` is global: `janet_call` / `janet_check_can_resume` refuse at `stackn >= JANET_RECURSION_GUARD`,
     `janet_call` / `janet_continue_no_check` (janet_try_init) do `stackn++`.
   * the compiler's `c->recursion_guard`, quasiquote's `depth`, the PEG matcher's `s->depth` are local: every
     `janet_compile_lint` / peg match (and, before /repo 5f6c2dc, every quasiquote form) starts at the full limit.
   * since 5f6c2dc the sites that can start another instance hand on what they have used: `janetc_continue` does
     `stackn += JANET_RECURSION_GUARD - c->recursion_guard` around `janet_continue`; `peg_rule` does
     `stackn += JANET_RECURSION_GUARD - s->depth + 1` (after checking the sum) around a capture function / cfunction;
     a quasiquote form continues the compiler's counter.

   A chain is abstracted to its guard events, outermost first.  `share = true` is the protocol after the fix (every
   re-entry site hands its depth on; `Gen.DepthStack.allTransfer`), `share = false` the one before. -/
namespace JanetModel.Depth

inductive NEv
  | vm      -- frame that enters the interpreter (janet_call, janet_continue_no_check), or a call charged like one
  | loc     -- frame that charges the innermost local counter (janetc_value, destructure_nested, quasiquote, peg_rule)
  | fresh   -- a new instance of a local counter starts (janet_compile_lint, a peg match; unshared: a quasiquote form)
  deriving DecidableEq, Repr

structure NState where
  stackn : Nat      -- janet_vm.stackn
  used : Nat        -- depth used by the innermost local counter instance
  frames : Nat      -- live guard frames (what the byte budget multiplies with the unit)
  deriving DecidableEq, Repr

def nstep (share : Bool) (L : Nat) (s : NState) : NEv → Option NState
  | .vm =>
    if share then (if s.stackn + s.used < L then some ⟨s.stackn + s.used + 1, 0, s.frames + 1⟩ else none)
    else (if s.stackn < L then some ⟨s.stackn + 1, 0, s.frames + 1⟩ else none)
  | .loc => if s.used + 1 < L then some ⟨s.stackn, s.used + 1, s.frames + 1⟩ else none
  | .fresh =>
    if share then (if s.used = 0 then some s else none)      -- only directly under an interpreter entry
    else some ⟨s.stackn, 0, s.frames⟩                        -- anywhere; the depth used so far is forgotten

/-- run the events of a chain; `none` = some guard refused (catchable error), the chain does not exist -/
def nrun (share : Bool) (L : Nat) : NState → List NEv → Option NState
  | s, [] => some s
  | s, e :: es => match nstep share L s e with
    | some s' => nrun share L s' es
    | none => none

def NInv (L : Nat) (s : NState) : Prop := s.frames = s.stackn + s.used ∧ s.stackn ≤ L ∧ s.used ≤ L

theorem nstep_inv (L : Nat) (s s' : NState) (e : NEv) (h : NInv L s) (hs : nstep true L s e = some s') : NInv L s' := by
  obtain ⟨h1, h2, h3⟩ := h
  cases e with
  | vm =>
    simp only [nstep, if_true] at hs
    by_cases hc : s.stackn + s.used < L
    · rw [if_pos hc] at hs
      cases hs
      exact ⟨by simp only []; omega, by simp only []; omega, by simp only []; omega⟩
    · rw [if_neg hc] at hs; cases hs
  | loc =>
    simp only [nstep] at hs
    by_cases hc : s.used + 1 < L
    · rw [if_pos hc] at hs
      cases hs
      exact ⟨by simp only []; omega, h2, by simp only []; omega⟩
    · rw [if_neg hc] at hs; cases hs
  | fresh =>
    simp only [nstep, if_true] at hs
    by_cases hc : s.used = 0
    · rw [if_pos hc] at hs
      cases hs
      exact ⟨h1, h2, h3⟩
    · rw [if_neg hc] at hs; cases hs

theorem nrun_inv (L : Nat) : ∀ (evs : List NEv) (s s' : NState), NInv L s → nrun true L s evs = some s' → NInv L s'
  | [], s, s', h, hr => by
    simp only [nrun] at hr
    cases hr
    exact h
  | e :: es, s, s', h, hr => by
    simp only [nrun] at hr
    cases hn : nstep true L s e with
    | none => rw [hn] at hr; cases hr
    | some s1 =>
      rw [hn] at hr
      exact nrun_inv L es s1 s' (nstep_inv L s s1 e h hn) hr

/-- ★ with every re-entry site handing its depth on, at most `2·L` guard frames of the pool are live, however the
    interpreter, the compiler, quasiquote and the PEG matcher are nested (all event sequences) -/
theorem nest_frames_le (L : Nat) (evs : List NEv) (s' : NState) (h : nrun true L ⟨0, 0, 0⟩ evs = some s') :
    s'.frames ≤ 2 * L := by
  have hi : NInv L ⟨0, 0, 0⟩ := ⟨rfl, Nat.zero_le _, Nat.zero_le _⟩
  obtain ⟨h1, h2, h3⟩ := nrun_inv L evs _ s' hi h
  omega

theorem nrun_append (share : Bool) (L : Nat) : ∀ (a b : List NEv) (s : NState),
    nrun share L s (a ++ b) = (nrun share L s a).bind (fun s' => nrun share L s' b)
  | [], b, s => by simp [nrun]
  | e :: a, b, s => by
    simp only [List.cons_append, nrun]
    cases hn : nstep share L s e with
    | none => simp
    | some s1 => exact nrun_append share L a b s1

theorem nrun_locs (share : Bool) (L : Nat) : ∀ (m : Nat) (s : NState), s.used + m < L →
    nrun share L s (List.replicate m NEv.loc) = some ⟨s.stackn, s.used + m, s.frames + m⟩
  | 0, s, _ => by simp [nrun]
  | m + 1, s, h => by
    have hc : s.used + 1 < L := by omega
    simp only [List.replicate_succ, nrun, nstep, if_pos hc]
    rw [nrun_locs share L m ⟨s.stackn, s.used + 1, s.frames + 1⟩ (by simp only []; omega)]
    simp only [Option.some.injEq, NState.mk.injEq]
    and_intros <;> first | trivial | omega

/-- one level of the multiplying pattern: a fresh instance, `L-1` charged levels, an interpreter entry -/
def nestBlock (L : Nat) : List NEv := NEv.fresh :: (List.replicate (L - 1) NEv.loc ++ [NEv.vm])

theorem nrun_block (L : Nat) (hL : 0 < L) (s : NState) (hs : s.stackn < L) :
    nrun false L s (nestBlock L) = some ⟨s.stackn + 1, 0, s.frames + L⟩ := by
  unfold nestBlock
  simp only [nrun, nstep, Bool.false_eq_true, if_false]
  rw [nrun_append, nrun_locs false L (L - 1) ⟨s.stackn, 0, s.frames⟩ (by simp only []; omega)]
  simp only [Option.bind_some, nrun, nstep, Bool.false_eq_true, if_false, if_pos hs, Nat.zero_add]
  simp only [Option.some.injEq, NState.mk.injEq]
  and_intros <;> first | trivial | omega

/-- ★ without handing the depth on, the same guards accept chains with `k·L` live guard frames for every `k ≤ L`:
    the budget is a product (`L·L` frames at `k = L`), not a sum -/
theorem nest_unshared_reaches (L : Nat) (hL : 0 < L) : ∀ (k : Nat), k ≤ L →
    nrun false L ⟨0, 0, 0⟩ (List.flatten (List.replicate k (nestBlock L))) = some ⟨k, 0, k * L⟩
  | 0, _ => by simp [nrun]
  | k + 1, hk => by
    have ih := nest_unshared_reaches L hL k (by omega)
    have e : List.flatten (List.replicate (k + 1) (nestBlock L)) =
        List.flatten (List.replicate k (nestBlock L)) ++ nestBlock L := by
      rw [List.replicate_succ']; simp
    rw [e, nrun_append, ih]
    simp only [Option.bind_some]
    rw [nrun_block L hL ⟨k, 0, k * L⟩ (by simp only []; omega)]
    simp only [Option.some.injEq, NState.mk.injEq]
    refine ⟨trivial, trivial, ?_⟩
    rw [Nat.add_mul]; omega

/-- the shared protocol refuses the multiplying pattern at its second level (L ≥ 2) -/
theorem nest_shared_refuses (L : Nat) (hL : 2 ≤ L) :
    nrun true L ⟨0, 0, 0⟩ (nestBlock L ++ nestBlock L) = none := by
  unfold nestBlock
  rw [nrun_append]
  simp only [nrun, nstep, if_true]
  rw [nrun_append, nrun_locs true L (L - 1) ⟨0, 0, 0⟩ (by simp only []; omega)]
  simp only [Option.bind_some, nrun, nstep, if_true]
  have h1 : 0 + (0 + (L - 1)) < L := by omega
  rw [if_pos h1]
  simp only [Option.bind_some, if_true]
  rw [nrun_append, nrun_locs true L (L - 1) _ (by simp only []; omega)]
  simp only [Option.bind_some, nrun, nstep, if_true]
  have h2 : ¬ (0 + (0 + (L - 1)) + 1 + (0 + (L - 1)) < L) := by omega
  rw [if_neg h2]

end JanetModel.Depth
