/- C19: hand models of the three NON-recursive designs.

  1. value.c  janet_equals / janet_compare: explicit traversal stack (push_traversal_node / traversal_next); the C
     functions contain a loop and no self call.  Model: a work list of pairs, one non-recursive `step` per loop turn.
  2. parse.c  parser: explicit state stack (pushstate / popstate), one non-recursive transition per input byte.
  3. gc.c     marker: recursion on a depth counter; when the counter is used up the value is put on the root list
     (spill) and picked up again by the outer loop of janet_collect.
-/
namespace JanetModel.Depth

/-! ### 1. equality with an explicit traversal stack -/

/-- immutable janet data, tuples as cons cells (a struct is the same shape with key/value alternation) -/
inductive V where
  | atom : Nat → V
  | nil : V
  | cons : V → V → V
  deriving DecidableEq, Repr

def V.size : V → Nat
  | .atom _ => 1
  | .nil => 1
  | .cons a b => a.size + b.size + 1

/-- one turn of the loop in janet_equals: pop a pair, compare the heads, push the children.
    NOT recursive: the only unbounded storage is the work list (janet_vm.traversal, heap). -/
def eqStep : List (V × V) → Option (List (V × V))
  | [] => some []
  | (.atom m, .atom n) :: rest => if m = n then some rest else none
  | (.nil, .nil) :: rest => some rest
  | (.cons a1 a2, .cons b1 b2) :: rest => some ((a1, b1) :: (a2, b2) :: rest)
  | _ :: _ => none

/-- the loop: iterate `eqStep` until the work list is empty (`fuel` = loop turns) -/
def eqLoop : Nat → List (V × V) → Option Bool
  | _, [] => some true
  | 0, _ :: _ => none
  | fuel + 1, p :: rest =>
    match eqStep (p :: rest) with
    | none => some false
    | some w => eqLoop fuel w

def workSize : List (V × V) → Nat
  | [] => 0
  | p :: rest => p.1.size + workSize rest

theorem V.size_pos (v : V) : 0 < v.size := by cases v <;> simp [V.size]

/-- the loop decides structural equality of every pair on the work list, within `workSize` turns -/
theorem eqLoop_correct : ∀ (fuel : Nat) (w : List (V × V)), workSize w ≤ fuel →
    eqLoop fuel w = some (decide (∀ p ∈ w, p.1 = p.2))
  | _, [], _ => by simp [eqLoop]
  | 0, p :: rest, h => by
    have := V.size_pos p.1
    simp [workSize] at h
    omega
  | fuel + 1, (a, b) :: rest, h => by
    simp only [workSize] at h
    cases a with
    | atom m =>
      cases b with
      | atom n =>
        by_cases hmn : m = n
        · have ih := eqLoop_correct fuel rest (by simp [V.size] at h; omega)
          simp [eqLoop, eqStep, hmn, ih]
        · simp [eqLoop, eqStep, hmn]
      | nil => simp [eqLoop, eqStep]
      | cons b1 b2 => simp [eqLoop, eqStep]
    | nil =>
      cases b with
      | atom n => simp [eqLoop, eqStep]
      | nil =>
        have ih := eqLoop_correct fuel rest (by simp [V.size] at h; omega)
        simp [eqLoop, eqStep, ih]
      | cons b1 b2 => simp [eqLoop, eqStep]
    | cons a1 a2 =>
      cases b with
      | atom n => simp [eqLoop, eqStep]
      | nil => simp [eqLoop, eqStep]
      | cons b1 b2 =>
        have ih := eqLoop_correct fuel ((a1, b1) :: (a2, b2) :: rest) (by simp [V.size, workSize] at h ⊢; omega)
        simp only [eqLoop, eqStep, ih]
        simp only [List.mem_cons, forall_eq_or_imp, V.cons.injEq]
        congr 1
        apply decide_eq_decide.mpr
        constructor
        · rintro ⟨h1, h2, h3⟩; exact ⟨⟨h1, h2⟩, h3⟩
        · rintro ⟨⟨h1, h2⟩, h3⟩; exact ⟨h1, h2, h3⟩

/-- a value nested `n` deep (the sweep's "tuple" kind) -/
def nest : Nat → V → V
  | 0, leaf => leaf
  | n + 1, leaf => .cons (nest n leaf) .nil

/-! ### 2. parser with an explicit state stack -/

inductive Tok where
  | open_ : Tok
  | close : Tok
  | atom : Nat → Tok
  deriving Repr

/-- parser state: stack of partially built tuples (innermost first); `none` = error state (unmatched close) -/
abbrev PState := Option (List (List V))

def listToV : List V → V
  | [] => .nil
  | x :: xs => .cons x (listToV xs)

/-- one input token: pushstate on open, popstate on close (wrap the finished tuple and append it to its parent),
    append on atom.  NOT recursive; the stack is the heap array `parser->states`. -/
def pstep : PState → Tok → PState
  | none, _ => none
  | some st, .open_ => some ([] :: st)
  | some (top :: st), .atom n => some ((top ++ [.atom n]) :: st)
  | some (top :: parent :: st), .close => some ((parent ++ [listToV top]) :: st)
  | some _, _ => none

def pconsume (s : PState) (ts : List Tok) : PState := ts.foldl pstep s

theorem pconsume_opens (n : Nat) (st : List (List V)) :
    pconsume (some st) (List.replicate n Tok.open_) = some (List.replicate n [] ++ st) := by
  induction n generalizing st with
  | zero => rfl
  | succ n ih =>
    simp only [List.replicate_succ, pconsume, List.foldl_cons, pstep]
    have := ih ([] :: st)
    simp only [pconsume] at this
    rw [this]
    congr 1
    rw [← List.replicate_succ, List.replicate_succ', List.append_assoc]
    rfl

/-- `top` wrapped into `n + 1` nested tuples -/
def wrapL : Nat → List V → V
  | 0, top => listToV top
  | n + 1, top => wrapL n [listToV top]

theorem pconsume_closes : ∀ (n : Nat) (top root : List V),
    pconsume (some (top :: (List.replicate n [] ++ [root]))) (List.replicate (n + 1) Tok.close)
      = some [root ++ [wrapL n top]]
  | 0, top, root => by
    simp [pconsume, pstep, wrapL]
  | n + 1, top, root => by
    have ih := pconsume_closes n [listToV top] root
    simp only [pconsume] at ih ⊢
    rw [List.replicate_succ (n := n + 1), List.foldl_cons]
    simp only [List.replicate_succ, List.cons_append, pstep, List.nil_append]
    simp only [List.replicate_succ] at ih
    rw [ih]
    rfl

theorem pconsume_append (s : PState) (a b : List Tok) : pconsume s (a ++ b) = pconsume (pconsume s a) b := by
  simp [pconsume, List.foldl_append]

/-! ### 3. marker: depth counter with spill to the root list -/

structure MarkState where
  marked : List Nat
  spill : List Nat
  deriving Repr

/-- janet_mark with the thread-local `depth` counter: structural recursion on the counter, so the C recursion depth
    is at most the initial counter value by construction; at 0 the value is spilled to the root list. -/
def markD (succ : Nat → List Nat) : Nat → Nat → MarkState → MarkState
  | 0, x, s => { s with spill := x :: s.spill }
  | d + 1, x, s =>
    if x ∈ s.marked then s
    else (succ x).foldl (fun acc y => markD succ d y acc) { s with marked := x :: s.marked }

theorem foldl_markD_mono (succ : Nat → List Nat) (d : Nat)
    (ih : ∀ (y : Nat) (s : MarkState) (v : Nat), (v ∈ s.marked ∨ v ∈ s.spill) →
      (v ∈ (markD succ d y s).marked ∨ v ∈ (markD succ d y s).spill)) :
    ∀ (ys : List Nat) (s : MarkState) (v : Nat), (v ∈ s.marked ∨ v ∈ s.spill) →
      (v ∈ (ys.foldl (fun acc y => markD succ d y acc) s).marked ∨ v ∈ (ys.foldl (fun acc y => markD succ d y acc) s).spill)
  | [], _, _, h => h
  | y :: ys, s, v, h => by
    simp only [List.foldl_cons]
    exact foldl_markD_mono succ d ih ys (markD succ d y s) v (ih y s v h)

/-- nothing that was marked or spilled is ever lost -/
theorem markD_mono (succ : Nat → List Nat) : ∀ (d x : Nat) (s : MarkState) (v : Nat),
    (v ∈ s.marked ∨ v ∈ s.spill) → (v ∈ (markD succ d x s).marked ∨ v ∈ (markD succ d x s).spill)
  | 0, x, s, v, h => by
    simp only [markD]
    rcases h with h | h
    · exact Or.inl h
    · exact Or.inr (List.mem_cons_of_mem x h)
  | d + 1, x, s, v, h => by
    simp only [markD]
    split
    · exact h
    · apply foldl_markD_mono succ d (markD_mono succ d)
      rcases h with h | h
      · exact Or.inl (List.mem_cons_of_mem x h)
      · exact Or.inr h

/-- when the depth counter runs out nothing is dropped: after `markD d x`, `x` is marked or waits on the root list -/
theorem markD_marks_or_spills (succ : Nat → List Nat) (d x : Nat) (s : MarkState) :
    x ∈ (markD succ d x s).marked ∨ x ∈ (markD succ d x s).spill := by
  cases d with
  | zero => right; simp [markD]
  | succ d =>
    simp only [markD]
    split
    · left; assumption
    · apply foldl_markD_mono succ d (markD_mono succ d)
      left; exact List.mem_cons_self

end JanetModel.Depth
