/- C19: call graphs with guard marks, rank certificates, call chains.  Core Lean only (linked into jm_c19).

A `CG` is the call graph restricted to functions that lie on call cycles (generated: `Gen/Depth.lean`).  A function
is a *guard* when its body contains one of the depth-guard idioms (it refuses to recurse once its counter is used
up).  The certificate is a rank per function; `rankOK` checks that every edge between two non-guard functions
strictly decreases the rank, i.e. that every call cycle passes through a guard. -/
namespace JanetModel.Depth

structure CG where
  n : Nat
  edges : List (Nat × Nat)
  guard : List Bool
  deriving Repr

def isGuard (G : CG) (v : Nat) : Bool := G.guard.getD v false

def rk (rank : List Nat) (v : Nat) : Nat := rank.getD v 0

/-- one edge of the certificate check -/
def edgeOK (G : CG) (rank : List Nat) (e : Nat × Nat) : Bool :=
  (decide (e.1 < G.n) && decide (e.2 < G.n)) &&
  (isGuard G e.1 || isGuard G e.2 || decide (rk rank e.2 < rk rank e.1))

/-- one node of the certificate check: ranks of non-guard functions stay below |V| -/
def nodeOK (G : CG) (rank : List Nat) (v : Nat) : Bool :=
  isGuard G v || decide (rk rank v < G.n)

/-- The certificate check (run by the kernel on the generated graph). -/
def rankOK (G : CG) (rank : List Nat) : Bool :=
  G.edges.all (edgeOK G rank) && (List.range G.n).all (nodeOK G rank)

/-- a call chain: consecutive frames are connected by call edges (outermost frame first) -/
def IsChain (G : CG) : List Nat → Prop
  | [] => True
  | [_] => True
  | a :: b :: rest => (a, b) ∈ G.edges ∧ IsChain G (b :: rest)

/-- number of guard frames in a chain -/
def guardCount (G : CG) : List Nat → Nat
  | [] => 0
  | a :: rest => (if isGuard G a then 1 else 0) + guardCount G rest

/-- first failing edge / node of the certificate, for the driver and for diagnostics -/
def firstBadEdge (G : CG) (rank : List Nat) : Option (Nat × Nat) :=
  G.edges.find? (fun e => !edgeOK G rank e)

/-- one class of paths through a function that charges / releases a depth counter (generated from the source text) -/
structure PathCount where
  counter : String
  fn : String
  label : String
  errorExit : Bool
  charges : Nat
  releases : Nat
  deriving Repr

/-- a path never gives back more than it took; a path that ends normally (return / goto / loop iteration) gives back
    exactly what it took.  (An exit on an error path may keep its charge: the counter is re-initialised by the next
    top-level entry, and a charge that is kept can only make the guard fire earlier.) -/
def pathOK (p : PathCount) : Bool :=
  decide (p.releases ≤ p.charges) && (p.errorExit || p.releases == p.charges)

def balanced (ps : List PathCount) : Bool := ps.all pathOK

end JanetModel.Depth
