/- C19 (session 4): the fiber-stack side of "non-tail recursive calls raise a catchable error at a bounded depth".
   Mirrors, on top of the frame arithmetic of `Depth/Tail.lean`:
     fiber.c   fiber_alloc / fiber_reset / janet_fiber_reset  (`fiberNew`), janet_fiber_grow (`growCap`),
               janet_fiber_pushn and push/push2/push3 (`vpushn`: the INT32_MAX test, then the same arithmetic),
               janet_fiber_popframe (`vret`)
     vm.c      JOP_CALL / JOP_TAILCALL on a function callee (`vcall` / `vtail`): `if (fiber->stacktop > fiber->maxstack)
               vm_throw("stack overflow")`, then janet_fiber_funcframe / _tail, arity mismatch = janet_panicf
   An `Except.error` is a janet_panic: a catchable error of the running fiber.  Core Lean only (linked into jm_c19). -/
import JanetModel.Depth.Tail
namespace JanetModel.Depth

def INT32_MAX : Nat := 2147483647

/-- frame bookkeeping + the saved `prevframe` of every live frame (innermost first) + the fiber's `maxstack` -/
structure VFiber where
  f : Fiber
  prev : List Nat
  maxstack : Nat
  deriving Repr

/-- janet_fiber_grow: `needed > INT32_MAX / 2 ? INT32_MAX : 2 * needed` -/
def growCap (needed : Nat) : Nat := if needed > INT32_MAX / 2 then INT32_MAX else 2 * needed

/-- janet_fiber_pushn (push / push2 / push3: n = 1, 2, 3): overflow test first, then grow when newtop > capacity -/
def vpushn (v : VFiber) (n : Nat) : Except String VFiber :=
  -- C: `stacktop > INT32_MAX - n` on int32 operands (n ≤ INT32_MAX), i.e. stacktop + n > INT32_MAX
  if v.f.stacktop + n > INT32_MAX then .error "stack overflow"
  else
    let newtop := v.f.stacktop + n
    .ok { v with f := { v.f with stacktop := newtop,
                                 capacity := if newtop > v.f.capacity then growCap newtop else v.f.capacity } }

/-- JOP_CALL with a function callee -/
def vcall (v : VFiber) (fn : Fn) : Except String VFiber :=
  if v.f.stacktop > v.maxstack then .error "stack overflow"
  else match funcframe v.f fn with
    | none => .error "arity"
    | some f' => .ok { v with f := f', prev := v.f.frame :: v.prev }

/-- JOP_TAILCALL with a function callee -/
def vtail (v : VFiber) (fn : Fn) : Except String VFiber :=
  if v.f.stacktop > v.maxstack then .error "stack overflow"
  else match funcframeTail v.f fn with
    | none => .error "arity"
    | some f' => .ok { v with f := f' }

/-- janet_fiber_popframe -/
def vret (v : VFiber) : VFiber :=
  if v.f.frame = 0 then v
  else { v with f := { v.f with stacktop := v.f.frame, stackstart := v.f.frame, frame := v.prev.headD 0 },
                prev := v.prev.tail }

/-- janet_fiber(callee, capacity, 0, NULL) followed by fiber/setmaxstack: fiber_alloc (capacity ≥ 32), fiber_reset
    (frame 0, stackstart = stacktop = JANET_FRAME_SIZE), janet_fiber_funcframe(callee) -/
def fiberNew (capacity : Nat) (fn0 : Fn) (maxstack : Nat) : Option VFiber :=
  let cap := if capacity < 32 then 32 else capacity
  match funcframe ⟨0, FRAME, FRAME, cap⟩ fn0 with
  | none => none
  | some f' => some { f := f', prev := [0], maxstack := maxstack }

inductive VOp where
  | push (n : Nat)
  | call (fn : Fn)
  | tail (fn : Fn)
  | ret
  deriving Repr

def vstep (v : VFiber) : VOp → Except String VFiber
  | .push n => vpushn v n
  | .call fn => vcall v fn
  | .tail fn => vtail v fn
  | .ret => .ok (vret v)

/-- run a sequence of VM operations; the first error ends the run (the panic unwinds to the fiber's resume) -/
def vrun : VFiber → List VOp → Except String VFiber
  | v, [] => .ok v
  | v, op :: rest =>
    match vstep v op with
    | .error e => .error e
    | .ok v' => vrun v' rest

/-- how deep a non-tail self recursion gets: push `nargs`, call `fn`, repeat; returns the number of calls that
    succeeded before the first error, and the error (fuel = an upper bound on the answer) -/
def overflowDepth : Nat → VFiber → Nat → Fn → Nat × String
  | 0, _, _, _ => (0, "fuel")
  | fuel + 1, v, nargs, fn =>
    match vpushn v nargs with
    | .error e => (0, e)
    | .ok v1 =>
      match vcall v1 fn with
      | .error e => (0, e)
      | .ok v2 => let r := overflowDepth fuel v2 nargs fn; (r.1 + 1, r.2)

/-- the int32 quantities janet_fiber_funcframe / _tail compute for a call of `fn` in state `f` -/
def callTemps (f : Fiber) (fn : Fn) : List Nat :=
  [f.stackstart + fn.slotcount + FRAME, 2 * (f.stackstart + fn.slotcount + FRAME),
   f.frame + fn.slotcount + FRAME, 2 * (f.frame + fn.slotcount + FRAME),
   f.stackstart + fn.arity + 1, 2 * (f.stackstart + fn.arity + 1)]

end JanetModel.Depth
