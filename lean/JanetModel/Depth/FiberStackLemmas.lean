/- C19 (session 4): every sequence of VM operations keeps the fiber stack within its `maxstack` bound or raises a
   catchable error; the number of live frames is bounded; no int32 quantity of the frame functions overflows. -/
import JanetModel.Depth.FiberStack
import JanetModel.Depth.TailLemmas
namespace JanetModel.Depth

/-- the saved frame indices, innermost first, end in 0 and are at least one frame header apart -/
def chainOK : List Nat → Prop
  | [] => False
  | [x] => x = 0
  | x :: y :: r => y + FRAME ≤ x ∧ chainOK (y :: r)

theorem chain_len : ∀ (l : List Nat) (x : Nat), chainOK (x :: l) → FRAME * l.length ≤ x
  | [], x, _ => by simp
  | y :: r, x, h => by
    have h1 : y + FRAME ≤ x := h.1
    have h2 := chain_len r y h.2
    simp only [List.length_cons, FRAME] at *
    omega

/-- the bound everything is measured against: `maxstack`, but a fresh fiber already holds one frame header -/
def B (M : Nat) : Nat := max M FRAME

theorem le_B (M : Nat) : M ≤ B M := Nat.le_max_left _ _
theorem frame_le_B (M : Nat) : FRAME ≤ B M := Nat.le_max_right _ _

structure VInv (M S cap0 : Nat) (v : VFiber) : Prop where
  ms : v.maxstack = M
  chain : chainOK (v.f.frame :: v.prev)
  ss : v.f.frame + 4 ≤ v.f.stackstart
  top : v.f.stackstart ≤ v.f.stacktop
  fr : v.f.frame ≤ B M
  ssb : v.f.stackstart ≤ B M + S + 4
  t32 : v.f.stacktop ≤ 2147483647
  capb : v.f.capacity ≤ max cap0 2147483647

theorem growCap_le (n : Nat) : growCap n ≤ 2147483647 := by
  unfold growCap INT32_MAX
  split <;> omega

theorem funcframe_some4 {f f' : Fiber} {fn : Fn} (h : funcframe f fn = some f') :
    f'.frame = f.stackstart ∧ f'.stackstart = f.stackstart + fn.slotcount + 4 ∧
    f'.stacktop = f.stackstart + fn.slotcount + 4 ∧
    (f'.capacity = f.capacity ∨ f'.capacity = 2 * (f.stackstart + fn.slotcount + 4)) := by
  unfold funcframe at h
  simp only [FRAME] at h
  by_cases ha : f.stacktop - f.stackstart < fn.minArity ∨ f.stacktop - f.stackstart > fn.maxArity
  · simp [ha] at h
  · simp only [ha, if_false] at h
    injection h with h
    subst h
    refine ⟨rfl, rfl, rfl, ?_⟩
    by_cases hc : f.capacity < f.stackstart + fn.slotcount + 4
    · right; simp [hc]
    · left; simp [hc]

theorem funcframeTail_some' {f f' : Fiber} {fn : Fn} (h : funcframeTail f fn = some f') :
    f'.frame = f.frame ∧ f'.stackstart = f.frame + fn.slotcount + 4 ∧ f'.stacktop = f.frame + fn.slotcount + 4 ∧
    (f'.capacity = f.capacity ∨ f'.capacity = 2 * (f.frame + fn.slotcount + 4) ∨
      f'.capacity = 2 * (f.stackstart + fn.arity + 1)) := by
  have := funcframeTail_some h
  simp only [FRAME] at this
  exact this

/-- the size hypothesis under which nothing overflows an int32: all of `maxstack`, two frames and a header fit twice -/
def Fits (M S : Nat) : Prop := 2 * (B M + 2 * S + 4 + 1) ≤ 2147483647

def opFits (S : Nat) : VOp → Prop
  | .call fn => fn.slotcount ≤ S ∧ fn.arity ≤ S
  | .tail fn => fn.slotcount ≤ S ∧ fn.arity ≤ S
  | _ => True

theorem vstep_inv {M S cap0 : Nat} (hfit : Fits M S) {v v' : VFiber} {op : VOp} (hinv : VInv M S cap0 v)
    (hop : opFits S op) (h : vstep v op = .ok v') : VInv M S cap0 v' := by
  have hB1 := le_B M
  have hB2 : 4 ≤ B M := frame_le_B M
  obtain ⟨ms, chain, ss, top, fr, ssb, t32, capb⟩ := hinv
  unfold Fits at hfit
  have hmx : (2147483647 : Nat) ≤ max cap0 2147483647 := Nat.le_max_right _ _
  cases op with
  | push n =>
    simp only [vstep, vpushn, INT32_MAX] at h
    by_cases hov : v.f.stacktop + n > 2147483647
    · simp [hov] at h
    · simp only [hov, if_false] at h
      injection h with h
      subst h
      refine ⟨ms, chain, ss, ?_, fr, ssb, ?_, ?_⟩
      · simp only; omega
      · simp only; omega
      · simp only
        by_cases hg : v.f.stacktop + n > v.f.capacity
        · simp only [hg, if_true]; exact Nat.le_trans (growCap_le _) hmx
        · simp only [hg, if_false]; exact capb
  | call fn =>
    simp only [vstep, vcall] at h
    by_cases hchk : v.f.stacktop > v.maxstack
    · simp [hchk] at h
    · simp only [hchk, if_false] at h
      cases hf : funcframe v.f fn with
      | none => rw [hf] at h; cases h
      | some f' =>
        rw [hf] at h
        have hv := Except.ok.inj h
        rw [← hv]
        obtain ⟨h1, h2, h3, h4⟩ := funcframe_some4 hf
        simp only [opFits] at hop
        rw [ms] at hchk
        refine ⟨ms, ?_, ?_, ?_, ?_, ?_, ?_, ?_⟩
        · show chainOK (f'.frame :: v.f.frame :: v.prev)
          rw [h1]
          exact ⟨by simp only [FRAME]; exact ss, chain⟩
        · simp only [h1, h2]; omega
        · simp only [h2, h3]; omega
        · simp only [h1]; omega
        · simp only [h2]; omega
        · simp only [h3]; omega
        · rcases h4 with h4 | h4
          · rw [h4]; exact capb
          · rw [h4]; refine Nat.le_trans ?_ hmx; omega
  | tail fn =>
    simp only [vstep, vtail] at h
    by_cases hchk : v.f.stacktop > v.maxstack
    · simp [hchk] at h
    · simp only [hchk, if_false] at h
      cases hf : funcframeTail v.f fn with
      | none => rw [hf] at h; cases h
      | some f' =>
        rw [hf] at h
        have hv := Except.ok.inj h
        rw [← hv]
        obtain ⟨h1, h2, h3, h4⟩ := funcframeTail_some' hf
        simp only [opFits] at hop
        rw [ms] at hchk
        refine ⟨ms, ?_, ?_, ?_, ?_, ?_, ?_, ?_⟩
        · show chainOK (f'.frame :: v.prev); rw [h1]; exact chain
        · simp only [h1, h2]; omega
        · simp only [h2, h3]; omega
        · simp only [h1]; exact fr
        · simp only [h2]; omega
        · simp only [h3]; omega
        · rcases h4 with h4 | h4 | h4
          · rw [h4]; exact capb
          · rw [h4]; refine Nat.le_trans ?_ hmx; omega
          · rw [h4]; refine Nat.le_trans ?_ hmx; omega
  | ret =>
    simp only [vstep] at h
    injection h with h
    subst h
    unfold vret
    by_cases hne : v.f.frame = 0
    · simp only [hne, if_true]; exact ⟨ms, chain, ss, top, fr, ssb, t32, capb⟩
    · simp only [hne, if_false]
      cases hp : v.prev with
      | nil =>
        rw [hp] at chain
        exact absurd chain hne
      | cons y r =>
        rw [hp] at chain
        have c1 : y + 4 ≤ v.f.frame := chain.1
        refine ⟨ms, ?_, ?_, ?_, ?_, ?_, ?_, capb⟩
        · simp only [List.headD_cons, List.tail_cons]; exact chain.2
        · simp only [List.headD_cons]; exact c1
        · simp only; exact Nat.le_refl _
        · simp only [List.headD_cons]; omega
        · simp only; omega
        · simp only; omega

/-- every run keeps the invariant -/
theorem vrun_inv {M S cap0 : Nat} (hfit : Fits M S) :
    ∀ (ops : List VOp) (v v' : VFiber), VInv M S cap0 v → (∀ op ∈ ops, opFits S op) → vrun v ops = .ok v' →
      VInv M S cap0 v'
  | [], v, v', hinv, _, h => by
    simp only [vrun] at h; injection h with h; exact h ▸ hinv
  | op :: rest, v, v', hinv, hall, h => by
    simp only [vrun] at h
    cases h1 : vstep v op with
    | error e => rw [h1] at h; cases h
    | ok v1 =>
      rw [h1] at h
      exact vrun_inv hfit rest v1 v' (vstep_inv hfit hinv (hall op List.mem_cons_self) h1)
        (fun o ho => hall o (List.mem_cons_of_mem _ ho)) h

/-- a fresh fiber satisfies the invariant -/
theorem fiberNew_inv {cap M S : Nat} {fn0 : Fn} {v : VFiber} (hfit : Fits M S) (hs : fn0.slotcount ≤ S)
    (h : fiberNew cap fn0 M = some v) : VInv M S (if cap < 32 then 32 else cap) v := by
  have hB2 : 4 ≤ B M := frame_le_B M
  unfold Fits at hfit
  unfold fiberNew at h
  simp only at h
  cases hf : funcframe ⟨0, FRAME, FRAME, if cap < 32 then 32 else cap⟩ fn0 with
  | none => rw [hf] at h; cases h
  | some f' =>
    rw [hf] at h
    have hv := Option.some.inj h
    rw [← hv]
    obtain ⟨h1, h2, h3, h4⟩ := funcframe_some4 hf
    simp only [FRAME] at h1 h2 h3 h4
    refine ⟨rfl, ?_, ?_, ?_, ?_, ?_, ?_, ?_⟩
    · show chainOK (f'.frame :: [0]); rw [h1]; exact ⟨by simp [FRAME], rfl⟩
    · simp only [h1, h2]; omega
    · simp only [h2, h3]; omega
    · simp only [h1]; omega
    · simp only [h2]; omega
    · simp only [h3]; omega
    · rcases h4 with h4 | h4
      · rw [h4]; exact Nat.le_max_left _ _
      · rw [h4]; refine Nat.le_trans ?_ (Nat.le_max_right _ _); omega

/-- number of non-tail calls in an operation sequence -/
def nCalls : List VOp → Nat
  | [] => 0
  | .call _ :: r => nCalls r + 1
  | _ :: r => nCalls r

def noRet : List VOp → Prop
  | [] => True
  | .ret :: _ => False
  | _ :: r => noRet r

/-- without returns every successful non-tail call adds a live frame -/
theorem vrun_frames_noRet : ∀ (ops : List VOp) (v v' : VFiber), noRet ops → vrun v ops = .ok v' →
    v'.prev.length = v.prev.length + nCalls ops
  | [], v, v', _, h => by
    simp only [vrun] at h; have := Except.ok.inj h; subst this; simp [nCalls]
  | op :: rest, v, v', hn, h => by
    simp only [vrun] at h
    cases h1 : vstep v op with
    | error e => rw [h1] at h; cases h
    | ok v1 =>
      rw [h1] at h
      cases op with
      | push n =>
        have ih := vrun_frames_noRet rest v1 v' hn h
        simp only [vstep, vpushn] at h1
        by_cases hov : v.f.stacktop + n > INT32_MAX
        · simp [hov] at h1
        · simp only [hov, if_false] at h1
          have := Except.ok.inj h1
          rw [← this] at ih
          simpa [nCalls] using ih
      | call fn =>
        have ih := vrun_frames_noRet rest v1 v' hn h
        simp only [vstep, vcall] at h1
        by_cases hchk : v.f.stacktop > v.maxstack
        · simp [hchk] at h1
        · simp only [hchk, if_false] at h1
          cases hf : funcframe v.f fn with
          | none => rw [hf] at h1; cases h1
          | some f' =>
            rw [hf] at h1
            have := Except.ok.inj h1
            rw [← this] at ih
            simp only [List.length_cons, nCalls] at ih ⊢
            omega
      | tail fn =>
        have ih := vrun_frames_noRet rest v1 v' hn h
        simp only [vstep, vtail] at h1
        by_cases hchk : v.f.stacktop > v.maxstack
        · simp [hchk] at h1
        · simp only [hchk, if_false] at h1
          cases hf : funcframeTail v.f fn with
          | none => rw [hf] at h1; cases h1
          | some f' =>
            rw [hf] at h1
            have := Except.ok.inj h1
            rw [← this] at ih
            simpa [nCalls] using ih
      | ret => exact absurd hn (by simp [noRet])

/-- the only errors of a run are the two catchable panics -/
theorem vrun_error_kinds : ∀ (ops : List VOp) (v : VFiber) (e : String), vrun v ops = .error e →
    e = "stack overflow" ∨ e = "arity"
  | [], v, e, h => by simp [vrun] at h
  | op :: rest, v, e, h => by
    simp only [vrun] at h
    cases h1 : vstep v op with
    | ok v1 => rw [h1] at h; exact vrun_error_kinds rest v1 e h
    | error e1 =>
      rw [h1] at h
      have he : e1 = e := Except.error.inj h
      subst he
      cases op with
      | push n =>
        simp only [vstep, vpushn] at h1
        by_cases hov : v.f.stacktop + n > INT32_MAX
        · simp only [hov, if_true] at h1; left; exact (Except.error.inj h1).symm
        · simp [hov] at h1
      | call fn =>
        simp only [vstep, vcall] at h1
        by_cases hchk : v.f.stacktop > v.maxstack
        · simp only [hchk, if_true] at h1; left; exact (Except.error.inj h1).symm
        · simp only [hchk, if_false] at h1
          cases hf : funcframe v.f fn with
          | none => rw [hf] at h1; right; exact (Except.error.inj h1).symm
          | some f' => rw [hf] at h1; cases h1
      | tail fn =>
        simp only [vstep, vtail] at h1
        by_cases hchk : v.f.stacktop > v.maxstack
        · simp only [hchk, if_true] at h1; left; exact (Except.error.inj h1).symm
        · simp only [hchk, if_false] at h1
          cases hf : funcframeTail v.f fn with
          | none => rw [hf] at h1; right; exact (Except.error.inj h1).symm
          | some f' => rw [hf] at h1; cases h1
      | ret => simp [vstep] at h1

end JanetModel.Depth
