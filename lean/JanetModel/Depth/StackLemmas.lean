/- C19: soundness of the potential certificate for native stack bytes, for EVERY graph / frame table. -/
import JanetModel.Depth.Stack
import JanetModel.Depth.Lemmas
namespace JanetModel.Depth

theorem potOK_edge {G : CG} {frame pot : List Nat} (h : potOK G frame pot = true) {a b : Nat}
    (he : (a, b) ∈ G.edges) : isGuard G b = true ∨ wt frame a + pt pot b ≤ pt pot a := by
  unfold potOK at h
  rw [Bool.and_eq_true] at h
  have h1 := List.all_eq_true.mp h.1 (a, b) he
  unfold potEdgeOK at h1
  simp only [Bool.or_eq_true, decide_eq_true_eq] at h1
  exact h1

theorem potOK_node {G : CG} {frame pot : List Nat} (h : potOK G frame pot = true) {v : Nat} (hv : v < G.n) :
    wt frame v ≤ pt pot v := by
  unfold potOK at h
  rw [Bool.and_eq_true] at h
  have h1 := List.all_eq_true.mp h.2 v (List.mem_range.mpr hv)
  unfold potNodeOK at h1
  exact of_decide_eq_true h1

/-- ★ a chain costs at most the potential of its head plus the potentials of the guard frames after it -/
theorem chain_bytes_le {G : CG} {frame pot : List Nat} (hok : potOK G frame pot = true) :
    ∀ (a : Nat) (l : List Nat), IsChain G (a :: l) → (∀ v ∈ a :: l, v < G.n) →
      chainBytes frame (a :: l) ≤ pt pot a + guardPot G pot l
  | a, [], _, hin => by
    have hn := potOK_node hok (hin a List.mem_cons_self)
    have e1 : chainBytes frame [a] = wt frame a + 0 := rfl
    have e2 : guardPot G pot [] = 0 := rfl
    rw [e1, e2]; omega
  | a, b :: rest, hc, hin => by
    have hc' : (a, b) ∈ G.edges ∧ IsChain G (b :: rest) := hc
    have ih := chain_bytes_le hok b rest hc'.2 (fun v hv => hin v (List.mem_cons_of_mem a hv))
    have hn := potOK_node hok (hin a List.mem_cons_self)
    have he := potOK_edge hok hc'.1
    have e1 : chainBytes frame (a :: b :: rest) = wt frame a + chainBytes frame (b :: rest) := rfl
    have e2 : guardPot G pot (b :: rest) = (if isGuard G b then pt pot b else 0) + guardPot G pot rest := rfl
    rw [e1, e2]
    by_cases gb : isGuard G b = true
    · simp only [gb, if_true]; omega
    · rcases he with he | he
      · exact absurd he gb
      · have gb' : isGuard G b = false := by simpa using gb
        simp only [gb', Bool.false_eq_true, if_false]; omega

theorem unitsOK_guard {G : CG} {pot cls unit : List Nat} {k mh : Nat} (h : unitsOK G pot cls unit k mh = true)
    {v : Nat} (hv : v < G.n) (g : isGuard G v = true) :
    pt pot v ≤ unitOf unit (clsOf cls v) ∧ clsOf cls v < k := by
  have h1 : (if isGuard G v then decide (pt pot v ≤ unitOf unit (clsOf cls v)) && decide (clsOf cls v < k)
      else decide (pt pot v ≤ mh)) = true := List.all_eq_true.mp h v (List.mem_range.mpr hv)
  simp only [g, if_true, Bool.and_eq_true, decide_eq_true_eq] at h1
  exact h1

theorem unitsOK_nonguard {G : CG} {pot cls unit : List Nat} {k mh : Nat} (h : unitsOK G pot cls unit k mh = true)
    {v : Nat} (hv : v < G.n) (g : isGuard G v = false) : pt pot v ≤ mh := by
  have h1 : (if isGuard G v then decide (pt pot v ≤ unitOf unit (clsOf cls v)) && decide (clsOf cls v < k)
      else decide (pt pot v ≤ mh)) = true := List.all_eq_true.mp h v (List.mem_range.mpr hv)
  simp only [g, Bool.false_eq_true, if_false, decide_eq_true_eq] at h1
  exact h1

/-- one segment: bytes ≤ maxHead + Σ units of its guard frames -/
theorem segment_bytes_le {G : CG} {frame pot cls unit : List Nat} {k mh : Nat} (hok : potOK G frame pot = true)
    (hu : unitsOK G pot cls unit k mh = true) (s : List Nat) (hc : IsChain G s) (hin : ∀ v ∈ s, v < G.n) :
    chainBytes frame s ≤ mh + guardUnits G cls unit s := by
  cases s with
  | nil => simp [chainBytes]
  | cons a l =>
    have h1 := chain_bytes_le hok a l hc hin
    have h2 : ∀ (l : List Nat), (∀ v ∈ l, v < G.n) → guardPot G pot l ≤ guardUnits G cls unit l := by
      intro l
      induction l with
      | nil => intro _; simp [guardPot, guardUnits]
      | cons b rest ih =>
        intro hb
        have ihr := ih (fun v hv => hb v (List.mem_cons_of_mem b hv))
        have e1 : guardPot G pot (b :: rest) = (if isGuard G b then pt pot b else 0) + guardPot G pot rest := rfl
        have e2 : guardUnits G cls unit (b :: rest) =
            (if isGuard G b then unitOf unit (clsOf cls b) else 0) + guardUnits G cls unit rest := rfl
        rw [e1, e2]
        by_cases gb : isGuard G b = true
        · have := (unitsOK_guard hu (hb b List.mem_cons_self) gb).1
          simp only [gb, if_true]; omega
        · have gb' : isGuard G b = false := by simpa using gb
          simp only [gb', Bool.false_eq_true, if_false]; omega
    have h3 := h2 l (fun v hv => hin v (List.mem_cons_of_mem a hv))
    have e2 : guardUnits G cls unit (a :: l) =
        (if isGuard G a then unitOf unit (clsOf cls a) else 0) + guardUnits G cls unit l := rfl
    rw [e2]
    by_cases ga : isGuard G a = true
    · have := (unitsOK_guard hu (hin a List.mem_cons_self) ga).1
      simp only [ga, if_true]; omega
    · have ga' : isGuard G a = false := by simpa using ga
      have := unitsOK_nonguard hu (hin a List.mem_cons_self) ga'
      simp only [ga', Bool.false_eq_true, if_false]; omega

theorem guardUnits_append (G : CG) (cls unit : List Nat) : ∀ (l1 l2 : List Nat),
    guardUnits G cls unit (l1 ++ l2) = guardUnits G cls unit l1 + guardUnits G cls unit l2
  | [], l2 => by simp [guardUnits]
  | a :: l1, l2 => by
    have ih := guardUnits_append G cls unit l1 l2
    have e1 : guardUnits G cls unit (a :: l1 ++ l2) =
        (if isGuard G a then unitOf unit (clsOf cls a) else 0) + guardUnits G cls unit (l1 ++ l2) := rfl
    have e2 : guardUnits G cls unit (a :: l1) =
        (if isGuard G a then unitOf unit (clsOf cls a) else 0) + guardUnits G cls unit l1 := rfl
    rw [e1, e2, ih]; omega

/-- several segments (one per SCC the stack passes through) -/
theorem segments_bytes_le {G : CG} {frame pot cls unit : List Nat} {k mh : Nat} (hok : potOK G frame pot = true)
    (hu : unitsOK G pot cls unit k mh = true) : ∀ (segs : List (List Nat)),
    (∀ s ∈ segs, IsChain G s ∧ ∀ v ∈ s, v < G.n) →
    (segs.map (chainBytes frame)).sum ≤ segs.length * mh + guardUnits G cls unit segs.flatten
  | [], _ => by simp [guardUnits]
  | s :: segs, h => by
    have ih := segments_bytes_le hok hu segs (fun t ht => h t (List.mem_cons_of_mem s ht))
    have hs := h s List.mem_cons_self
    have h1 := segment_bytes_le hok hu s hs.1 hs.2
    have e1 : (s :: segs).flatten = s ++ segs.flatten := by simp
    rw [e1, guardUnits_append]
    simp only [List.map_cons, List.sum_cons, List.length_cons]
    rw [Nat.add_mul]
    omega

/-- Σ units of the guard frames whose class is below `k` -/
def unitsBelow (G : CG) (cls unit : List Nat) (k : Nat) : List Nat → Nat
  | [] => 0
  | a :: rest => (if isGuard G a && decide (clsOf cls a < k) then unitOf unit (clsOf cls a) else 0) + unitsBelow G cls unit k rest

theorem unitsBelow_succ (G : CG) (cls unit : List Nat) (k : Nat) : ∀ (l : List Nat),
    unitsBelow G cls unit (k + 1) l = unitsBelow G cls unit k l + classCount G cls k l * unitOf unit k
  | [] => by simp [unitsBelow, classCount]
  | a :: rest => by
    have ih := unitsBelow_succ G cls unit k rest
    have e1 : unitsBelow G cls unit (k + 1) (a :: rest) =
        (if isGuard G a && decide (clsOf cls a < k + 1) then unitOf unit (clsOf cls a) else 0) + unitsBelow G cls unit (k + 1) rest := rfl
    have e2 : unitsBelow G cls unit k (a :: rest) =
        (if isGuard G a && decide (clsOf cls a < k) then unitOf unit (clsOf cls a) else 0) + unitsBelow G cls unit k rest := rfl
    have e3 : classCount G cls k (a :: rest) =
        (if isGuard G a && clsOf cls a == k then 1 else 0) + classCount G cls k rest := rfl
    rw [e1, e2, e3, ih, Nat.add_mul]
    by_cases ga : isGuard G a = true
    · by_cases hlt : clsOf cls a < k
      · have hne : ¬ clsOf cls a = k := by omega
        have hlt' : clsOf cls a < k + 1 := by omega
        simp [ga, hlt, hlt', hne]; omega
      · by_cases heq : clsOf cls a = k
        · simp [ga, heq]; omega
        · have hnl : ¬ clsOf cls a < k + 1 := by omega
          simp [ga, hlt, hnl, heq]
    · have ga' : isGuard G a = false := by simpa using ga
      simp [ga']

theorem unitsBelow_eq_classSum (G : CG) (cls unit : List Nat) (l : List Nat) : ∀ (k : Nat),
    unitsBelow G cls unit k l = classSum G cls unit l k
  | 0 => by
    induction l with
    | nil => simp [unitsBelow, classSum]
    | cons a rest ih =>
      have e2 : unitsBelow G cls unit 0 (a :: rest) =
          (if isGuard G a && decide (clsOf cls a < 0) then unitOf unit (clsOf cls a) else 0) + unitsBelow G cls unit 0 rest := rfl
      rw [e2, ih]; simp [classSum]
  | k + 1 => by
    rw [unitsBelow_succ, unitsBelow_eq_classSum G cls unit l k]; rfl

theorem guardUnits_eq_unitsBelow (G : CG) (cls unit : List Nat) (k : Nat) : ∀ (l : List Nat),
    (∀ v ∈ l, isGuard G v = true → clsOf cls v < k) → guardUnits G cls unit l = unitsBelow G cls unit k l
  | [], _ => by simp [guardUnits, unitsBelow]
  | a :: rest, h => by
    have ih := guardUnits_eq_unitsBelow G cls unit k rest (fun v hv => h v (List.mem_cons_of_mem a hv))
    have e1 : guardUnits G cls unit (a :: rest) =
        (if isGuard G a then unitOf unit (clsOf cls a) else 0) + guardUnits G cls unit rest := rfl
    have e2 : unitsBelow G cls unit k (a :: rest) =
        (if isGuard G a && decide (clsOf cls a < k) then unitOf unit (clsOf cls a) else 0) + unitsBelow G cls unit k rest := rfl
    rw [e1, e2, ih]
    by_cases ga : isGuard G a = true
    · have := h a List.mem_cons_self ga
      simp [ga, this]
    · have ga' : isGuard G a = false := by simpa using ga
      simp [ga']

theorem classSum_le_limitSum (G : CG) (cls unit N : List Nat) (l : List Nat) : ∀ (k : Nat),
    (∀ c, c < k → classCount G cls c l ≤ N.getD c 0) → classSum G cls unit l k ≤ limitSum N unit k
  | 0, _ => by simp [classSum, limitSum]
  | k + 1, h => by
    have ih := classSum_le_limitSum G cls unit N l k (fun c hc => h c (Nat.lt_succ_of_lt hc))
    have hk := h k (Nat.lt_succ_self k)
    have hm : classCount G cls k l * unitOf unit k ≤ N.getD k 0 * unitOf unit k := Nat.mul_le_mul_right _ hk
    show classSum G cls unit l k + classCount G cls k l * unitOf unit k ≤ limitSum N unit k + N.getD k 0 * unitOf unit k
    omega

/-- ★ bytes of a stack made of segments, from the per-class counts of live guard frames -/
theorem segments_bytes_le_limits {G : CG} {frame pot cls unit N : List Nat} {k mh : Nat}
    (hok : potOK G frame pot = true) (hu : unitsOK G pot cls unit k mh = true) (segs : List (List Nat))
    (hseg : ∀ s ∈ segs, IsChain G s ∧ ∀ v ∈ s, v < G.n)
    (hcount : ∀ c, c < k → classCount G cls c segs.flatten ≤ N.getD c 0) :
    (segs.map (chainBytes frame)).sum ≤ segs.length * mh + limitSum N unit k := by
  have h1 := segments_bytes_le hok hu segs hseg
  have hin : ∀ v ∈ segs.flatten, isGuard G v = true → clsOf cls v < k := by
    intro v hv g
    obtain ⟨s, hs, hvs⟩ := List.mem_flatten.mp hv
    exact (unitsOK_guard hu ((hseg s hs).2 v hvs) g).2
  rw [guardUnits_eq_unitsBelow G cls unit k _ hin, unitsBelow_eq_classSum] at h1
  have h2 := classSum_le_limitSum G cls unit N segs.flatten k hcount
  omega

end JanetModel.Depth
