/-
C16 — the wait-status decoder specified as plain arithmetic on the 16-bit status word, and a range checker whose
kernel evaluation over the regenerated expression trees (Proc/All/P*.lean, eight ranges built in parallel) gives the
decoder's behaviour on EVERY 16-bit word (Proc/CurrentAll.lean).
-/
import JanetModel.Proc.Status

namespace JanetModel.Proc

/-- what `proc_get_status` has to return for the status word `w` (Linux layout): low 7 bits 0 → exited, bits 8‥15 are the
    exit code; low byte 0x7f → stopped, 128 + bits 8‥15; low 7 bits 0x7f otherwise (0xff) → no arm applies (panic); else
    killed by the signal in the low 7 bits (bit 7 = core dump), 128 + signal. -/
def specDecode (w : Nat) : Outcome :=
  if w % 128 = 0 then .code (Int.ofNat (w / 256 % 256))
  else if w % 256 = 127 then .code (Int.ofNat (w / 256 % 256 + 128))
  else if w % 128 = 127 then .panic
  else .code (Int.ofNat (w % 128 + 128))

def checkRange (bs : List Branch) (s n : Nat) : Bool :=
  (List.range n).all (fun i => decode bs (Int.ofNat (s + i)) == specDecode (s + i))

theorem checkRange_sound (bs : List Branch) (s n : Nat) (h : checkRange bs s n = true) (w : Nat) (h1 : s ≤ w) (h2 : w < s + n) :
    decode bs (Int.ofNat w) = specDecode w := by
  unfold checkRange at h
  rw [List.all_eq_true] at h
  have := h (w - s) (by rw [List.mem_range]; omega)
  have e : s + (w - s) = w := by omega
  rw [e] at this
  exact eq_of_beq this

end JanetModel.Proc
