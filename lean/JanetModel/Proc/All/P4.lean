import JanetModel.Proc.StatusSpec
import JanetModel.Gen.ProcStat
namespace JanetModel.Proc.All
open JanetModel.Proc
/-- status words 32768 ‥ 40959: the regenerated decoder agrees with the specification (kernel evaluation) -/
theorem part4 : checkRange Gen.ProcStat.branches 32768 8192 = true := by decide +kernel
end JanetModel.Proc.All
