import JanetModel.Proc.StatusSpec
import JanetModel.Gen.ProcStat
namespace JanetModel.Proc.All
open JanetModel.Proc
/-- status words 40960 ‥ 49151: the regenerated decoder agrees with the specification (kernel evaluation) -/
theorem part5 : checkRange Gen.ProcStat.branches 40960 8192 = true := by decide +kernel
end JanetModel.Proc.All
