import JanetModel.Proc.StatusSpec
import JanetModel.Gen.ProcStat
namespace JanetModel.Proc.All
open JanetModel.Proc
/-- status words 24576 ‥ 32767: the regenerated decoder agrees with the specification (kernel evaluation) -/
theorem part3 : checkRange Gen.ProcStat.branches 24576 8192 = true := by decide +kernel
end JanetModel.Proc.All
