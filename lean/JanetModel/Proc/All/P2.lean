import JanetModel.Proc.StatusSpec
import JanetModel.Gen.ProcStat
namespace JanetModel.Proc.All
open JanetModel.Proc
/-- status words 16384 ‥ 24575: the regenerated decoder agrees with the specification (kernel evaluation) -/
theorem part2 : checkRange Gen.ProcStat.branches 16384 8192 = true := by decide +kernel
end JanetModel.Proc.All
