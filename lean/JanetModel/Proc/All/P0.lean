import JanetModel.Proc.StatusSpec
import JanetModel.Gen.ProcStat
namespace JanetModel.Proc.All
open JanetModel.Proc
/-- status words 0 ‥ 8191: the regenerated decoder agrees with the specification (kernel evaluation) -/
theorem part0 : checkRange Gen.ProcStat.branches 0 8192 = true := by decide +kernel
end JanetModel.Proc.All
