import JanetModel.Proc.StatusSpec
import JanetModel.Gen.ProcStat
namespace JanetModel.Proc.All
open JanetModel.Proc
/-- status words 49152 ‥ 57343: the regenerated decoder agrees with the specification (kernel evaluation) -/
theorem part6 : checkRange Gen.ProcStat.branches 49152 8192 = true := by decide +kernel
end JanetModel.Proc.All
