import JanetModel.Proc.StatusSpec
import JanetModel.Gen.ProcStat
namespace JanetModel.Proc.All
open JanetModel.Proc
/-- status words 8192 ‥ 16383: the regenerated decoder agrees with the specification (kernel evaluation) -/
theorem part1 : checkRange Gen.ProcStat.branches 8192 8192 = true := by decide +kernel
end JanetModel.Proc.All
