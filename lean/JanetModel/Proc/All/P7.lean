import JanetModel.Proc.StatusSpec
import JanetModel.Gen.ProcStat
namespace JanetModel.Proc.All
open JanetModel.Proc
/-- status words 57344 ‥ 65535: the regenerated decoder agrees with the specification (kernel evaluation) -/
theorem part7 : checkRange Gen.ProcStat.branches 57344 8192 = true := by decide +kernel
end JanetModel.Proc.All
