/-
C16 — exit status, ALL 16-bit wait-status words, for the decoder of the CURRENT source (Gen/ProcStat.lean regenerated from
`cc -E` of os.c on every run): complete enumeration by kernel evaluation, split into eight ranges (Proc/All/P0…P7).
-/
import JanetModel.Proc.All.P0
import JanetModel.Proc.All.P1
import JanetModel.Proc.All.P2
import JanetModel.Proc.All.P3
import JanetModel.Proc.All.P4
import JanetModel.Proc.All.P5
import JanetModel.Proc.All.P6
import JanetModel.Proc.All.P7

namespace JanetModel.Proc.CurrentAll
open JanetModel.Proc

/-- ★ for EVERY 16-bit wait-status word the macro-expanded if / else-if chain of `proc_get_status` in the current tree
    computes `specDecode` -/
theorem status_decoder_total_current (w : Nat) (h : w < 65536) : decode Gen.ProcStat.branches (Int.ofNat w) = specDecode w := by
  have h0 := checkRange_sound _ _ _ All.part0 w
  have h1 := checkRange_sound _ _ _ All.part1 w
  have h2 := checkRange_sound _ _ _ All.part2 w
  have h3 := checkRange_sound _ _ _ All.part3 w
  have h4 := checkRange_sound _ _ _ All.part4 w
  have h5 := checkRange_sound _ _ _ All.part5 w
  have h6 := checkRange_sound _ _ _ All.part6 w
  have h7 := checkRange_sound _ _ _ All.part7 w
  by_cases c0 : w < 8192
  · exact h0 (by omega) (by omega)
  by_cases c1 : w < 16384
  · exact h1 (by omega) (by omega)
  by_cases c2 : w < 24576
  · exact h2 (by omega) (by omega)
  by_cases c3 : w < 32768
  · exact h3 (by omega) (by omega)
  by_cases c4 : w < 40960
  · exact h4 (by omega) (by omega)
  by_cases c5 : w < 49152
  · exact h5 (by omega) (by omega)
  by_cases c6 : w < 57344
  · exact h6 (by omega) (by omega)
  · exact h7 (by omega) (by omega)

/-- ★ exit code n ↦ n and signal s ↦ 128 + s, stated over the whole word: whatever the other bits of a 16-bit status word
    are, a word whose low 7 bits are 0 reports bits 8‥15 (the exit code), and a word whose low 7 bits are a signal number
    1‥126 reports 128 + that number (the core-dump bit and bits 8‥15 do not matter). -/
theorem exit_and_signal_words_total (w : Nat) (h : w < 65536) :
    (w % 128 = 0 → decode Gen.ProcStat.branches (Int.ofNat w) = .code (Int.ofNat (w / 256 % 256))) ∧
    (1 ≤ w % 128 → w % 128 ≤ 126 → decode Gen.ProcStat.branches (Int.ofNat w) = .code (Int.ofNat (w % 128 + 128))) := by
  rw [status_decoder_total_current w h]
  constructor
  · intro h0; simp [specDecode, h0]
  · intro h1 h2
    have a : ¬ w % 128 = 0 := by omega
    have b : ¬ w % 256 = 127 := by omega
    have c : ¬ w % 128 = 127 := by omega
    simp [specDecode, a, b, c]

example : decode Gen.ProcStat.branches (Int.ofNat (42 * 256)) = .code 42 := (exit_and_signal_words_total _ (by decide)).1 (by decide)
example : decode Gen.ProcStat.branches (Int.ofNat (9 + 128)) = .code 137 := (exit_and_signal_words_total _ (by decide)).2 (by decide) (by decide)

end JanetModel.Proc.CurrentAll
