/-
C16 — `os_execute_impl` establishes `Safe` (hypothesis of `child_table`): specs of `makePipes` / `moveStd`, the freshness
hypothesis on the kernel (`Fresh`), the origin of every source handed to `adddup2`, and `setup_safe`.
-/
import JanetModel.Proc.SpawnLemmas
namespace JanetModel.Proc

def Tab.le (t t' : Tab) : Prop := ∀ x, (t x).isSome → (t' x).isSome

theorem Tab.le_refl (t : Tab) : t.le t := fun _ h => h
theorem Tab.le_trans {a b c : Tab} (h1 : a.le b) (h2 : b.le c) : a.le c := fun x h => h2 x (h1 x h)
theorem Tab.le_put (t : Tab) (fd : Nat) (e : Ent) : t.le (t.put fd e) := by
  intro x h; unfold Tab.put; by_cases hx : x = fd <;> simp [hx, h]
theorem Tab.put_self (t : Tab) (fd : Nat) (e : Ent) : ((t.put fd e) fd).isSome := by simp [Tab.put]

/-- what `makePipes` returns when it does not fail -/
theorem makePipes_spec (s : PS) (k : Nat) (rev : Bool) (ans : Option (Nat × Nat))
    (h : (makePipes s k rev ans).2.2.2 = false) :
    ∃ r w, ans = some (r, w) ∧
      (makePipes s k rev ans).2.2.1 = some (if rev then r else w) ∧
      (makePipes s k rev ans).2.1 = some (if rev then w else r) ∧
      s.tab.le (makePipes s k rev ans).1.tab ∧
      ((makePipes s k rev ans).1.tab r).isSome ∧ ((makePipes s k rev ans).1.tab w).isSome := by
  cases ans with
  | none => simp [makePipes] at h
  | some rw =>
    obtain ⟨r, w⟩ := rw
    refine ⟨r, w, rfl, ?_⟩
    cases rev with
    | true =>
      simp only [makePipes, if_true]
      refine ⟨trivial, trivial, ?_, ?_, ?_⟩
      · exact Tab.le_trans (Tab.le_trans (Tab.le_put _ _ _) (Tab.le_put _ _ _)) (Tab.le_put _ _ _)
      · exact Tab.le_put _ _ _ _ (Tab.le_put _ _ _ _ (Tab.put_self _ _ _))
      · exact Tab.put_self _ _ _
    | false =>
      simp only [makePipes]
      refine ⟨rfl, rfl, ?_, ?_, ?_⟩
      · exact Tab.le_trans (Tab.le_trans (Tab.le_put _ _ _) (Tab.le_put _ _ _)) (Tab.le_put _ _ _)
      · exact Tab.put_self _ _ _
      · exact Tab.le_put _ _ _ _ (Tab.put_self _ _ _)

/-- what one iteration of the `src_handles` loop returns when the error flag stays clear -/
theorem moveStd_spec (s : PS) (i : Nat) (src ans : Option Nat) (err : Bool)
    (h : (moveStd true s i src ans err).2.2.2 = false) :
    err = false ∧ s.tab.le (moveStd true s i src ans err).1.tab ∧
    (((moveStd true s i src ans err).2.1 = src ∧ ∀ x, src = some x → 2 < x ∨ x = i) ∨
     (∃ x f, src = some x ∧ x ≤ 2 ∧ x ≠ i ∧ ans = some f ∧ (moveStd true s i src ans err).2.1 = some f ∧
        ((moveStd true s i src ans err).1.tab f).isSome)) := by
  cases err with
  | true => simp [moveStd] at h
  | false =>
    refine ⟨rfl, ?_⟩
    cases src with
    | none => simp [moveStd, Tab.le_refl]
    | some x =>
      by_cases hx : x > 2 ∨ x = i
      · have : (decide (x > 2) || decide (x = i)) = true := by simpa using hx
        simp only [moveStd, Bool.not_true, Bool.false_or, this, if_true, Bool.false_eq_true, if_false]
        exact ⟨Tab.le_refl _, Or.inl ⟨trivial, fun y hy => by cases hy; exact hx⟩⟩
      · have hx' : (decide (x > 2) || decide (x = i)) = false := by simpa using hx
        cases ans with
        | none => simp [moveStd, hx'] at h
        | some f =>
          cases hts : s.tab x with
          | none => simp [moveStd, hx', hts] at h
          | some e =>
            simp only [moveStd, Bool.not_true, Bool.false_or, hx', Bool.false_eq_true, if_false, hts]
            refine ⟨Tab.le_put _ _ _, Or.inr ⟨x, f, rfl, by omega, by omega, rfl, rfl, Tab.put_self _ _ _⟩⟩


def Ans.isPipeAns (a : Ans) (r w : Nat) : Prop := a.pin = some (r, w) ∨ a.pout = some (r, w) ∨ a.perr = some (r, w)
def Ans.isTmpAns (a : Ans) (f : Nat) : Prop := a.tmp0 = some f ∨ a.tmp1 = some f ∨ a.tmp2 = some f

/-- what is assumed of the kernel and of the caller: 0, 1, 2 and the handles given are open; `pipe()` and
    `fcntl(F_DUPFD, 3)` return descriptors that are not open (nothing is closed before `posix_spawn`, so they are also
    different from one another), F_DUPFD honours its minimum -/
structure Fresh (rq : Req) (a : Ans) (t0 : Tab) : Prop where
  std : (t0 0).isSome ∧ (t0 1).isSome ∧ (t0 2).isSome
  handles : ∀ fd, (rq.rin.handleFd = some fd ∨ rq.rout.handleFd = some fd ∨ rq.rerr.handleFd = some fd) → (t0 fd).isSome
  pipesNew : ∀ r w, a.isPipeAns r w → t0 r = none ∧ t0 w = none
  tmpsNew : ∀ f, a.isTmpAns f → t0 f = none ∧ 2 < f
  io : ∀ r w r' w', a.pin = some (r, w) → a.pout = some (r', w') → r ≠ r' ∧ r ≠ w' ∧ w ≠ r' ∧ w ≠ w'
  ie : ∀ r w r' w', a.pin = some (r, w) → a.perr = some (r', w') → r ≠ r' ∧ r ≠ w' ∧ w ≠ r' ∧ w ≠ w'
  oe : ∀ r w r' w', a.pout = some (r, w) → a.perr = some (r', w') → r ≠ r' ∧ r ≠ w' ∧ w ≠ r' ∧ w ≠ w'
  pt : ∀ r w f, a.isPipeAns r w → a.isTmpAns f → r ≠ f ∧ w ≠ f

/-- where the source a block hands to `adddup2` comes from -/
inductive Origin (a : Ans) (t0 : Tab) (pipeAns : Option (Nat × Nat)) (pipe src : Option Nat) (s : Nat) : Prop where
  | childEnd (r w : Nat) (h : pipeAns = some (r, w)) (hq : s = r ∨ s = w) (hp : pipe = some s)
  | handle (hp : pipe = none) (hs : src = some s) (ho : (t0 s).isSome)
  | tmp (hp : pipe = none) (hs : src = some s) (ht : a.isTmpAns s)

theorem fresh_gt_two {rq : Req} {a : Ans} {t0 : Tab} (hf : Fresh rq a t0) (x : Nat) (h : t0 x = none) : 2 < x := by
  obtain ⟨h0, h1, h2⟩ := hf.std
  by_cases hx : 2 < x
  · exact hx
  · have : x = 0 ∨ x = 1 ∨ x = 2 := by omega
    rcases this with e | e | e <;> subst e <;> simp [h] at h0 h1 h2

/-- two origins of different directions name different descriptors unless both are non-pipe sources (then the C compares
    `src_handles` itself) -/
theorem origin_ne {rq : Req} {a : Ans} {t0 : Tab} (hf : Fresh rq a t0)
    {pa pa' : Option (Nat × Nat)} {pipe src pipe' src' : Option Nat} {s s' : Nat}
    (o : Origin a t0 pa pipe src s) (o' : Origin a t0 pa' pipe' src' s')
    (hpa : ∀ r w r' w', pa = some (r, w) → pa' = some (r', w') → r ≠ r' ∧ r ≠ w' ∧ w ≠ r' ∧ w ≠ w')
    (hpa1 : ∀ r w, pa = some (r, w) → a.isPipeAns r w) (hpa2 : ∀ r w, pa' = some (r, w) → a.isPipeAns r w)
    (hsrc : pipe = none → pipe' = none → src ≠ src') : s ≠ s' := by
  cases o with
  | childEnd r w h hq hp =>
    have hn := hf.pipesNew r w (hpa1 r w h)
    have hsn : t0 s = none := by rcases hq with e | e <;> rw [e] <;> first | exact hn.1 | exact hn.2
    cases o' with
    | childEnd r' w' h' hq' hp' =>
      have := hpa r w r' w' h h'
      rcases hq with e | e <;> rcases hq' with e' | e' <;> rw [e, e'] <;> first | exact this.1 | exact this.2.1 | exact this.2.2.1 | exact this.2.2.2
    | handle hp' hs' ho' => intro e; rw [e] at hsn; rw [hsn] at ho'; cases ho'
    | tmp hp' hs' ht' =>
      have := hf.pt r w s' (hpa1 r w h) ht'
      rcases hq with e | e <;> rw [e] <;> first | exact this.1 | exact this.2
  | handle hp hs ho =>
    cases o' with
    | childEnd r' w' h' hq' hp' =>
      have hn := hf.pipesNew r' w' (hpa2 r' w' h')
      have hsn : t0 s' = none := by rcases hq' with e | e <;> rw [e] <;> first | exact hn.1 | exact hn.2
      intro e; rw [e] at ho; rw [hsn] at ho; cases ho
    | handle hp' hs' ho' => intro e; apply hsrc hp hp'; rw [hs, hs', e]
    | tmp hp' hs' ht' => intro e; apply hsrc hp hp'; rw [hs, hs', e]
  | tmp hp hs ht =>
    cases o' with
    | childEnd r' w' h' hq' hp' =>
      have := hf.pt r' w' s (hpa2 r' w' h') ht
      rcases hq' with e | e <;> rw [e] <;> first | exact fun x => this.1 x.symm | exact fun x => this.2 x.symm
    | handle hp' hs' ho' => intro e; apply hsrc hp hp'; rw [hs, hs', e]
    | tmp hp' hs' ht' => intro e; apply hsrc hp hp'; rw [hs, hs', e]


def effOf (i : Nat) (pipe new src : Option Nat) : Option Nat :=
  match pipe with
  | some q => some q
  | none => match new, src with
    | some n, some s => if n ≠ i then some s else none
    | _, _ => none

theorem effIn_eq (p : Plumb) : effIn p = effOf 0 p.pipeIn p.newIn p.srcIn := rfl
theorem effOut_eq (p : Plumb) : effOut p = effOf 1 p.pipeOut p.newOut p.srcOut := rfl
theorem effErr_eq (p : Plumb) : effErr p = effOf 2 p.pipeErr p.newErr p.srcErr := rfl

/-- one direction after the set-up: its effective source is above 2, open, and of known origin -/
def DirOK (a : Ans) (t0 tab : Tab) (i : Nat) (pa : Option (Nat × Nat)) (pipe new src : Option Nat) : Prop :=
  ∀ s, effOf i pipe new src = some s → 2 < s ∧ (tab s).isSome ∧ Origin a t0 pa pipe src s

/-- a direction that got a pipe: `r` = result of makePipes (before the src loop), `m` = result of its moveStd iteration -/
theorem dirOK_pipe {rq : Req} {a : Ans} {t0 : Tab} (hf : Fresh rq a t0) (i k : Nat) (rev : Bool) (pa : Option (Nat × Nat))
    (s0 sm : PS) (ans : Option Nat) (err : Bool) (tab : Tab)
    (hpa : ∀ r w, pa = some (r, w) → a.isPipeAns r w)
    (hr : (makePipes s0 k rev pa).2.2.2 = false)
    (hm : (moveStd true sm i (makePipes s0 k rev pa).2.1 ans err).2.2.2 = false)
    (hle : (makePipes s0 k rev pa).1.tab.le tab) :
    DirOK a t0 tab i pa (makePipes s0 k rev pa).2.2.1 (makePipes s0 k rev pa).2.1 (moveStd true sm i (makePipes s0 k rev pa).2.1 ans err).2.1 := by
  obtain ⟨r, w, hans, hpipe, hnew, _, hor, how⟩ := makePipes_spec s0 k rev pa hr
  intro s hs
  rw [hpipe] at hs ⊢
  simp only [effOf] at hs
  cases hs
  have hn := hf.pipesNew r w (hpa r w hans)
  cases rev with
  | true => exact ⟨fresh_gt_two hf r hn.1, hle r hor, Origin.childEnd r w hans (Or.inl rfl) rfl⟩
  | false => exact ⟨fresh_gt_two hf w hn.2, hle w how, Origin.childEnd r w hans (Or.inr rfl) rfl⟩

/-- a direction without a pipe: `new` is the handle given (or none), `m` its moveStd iteration -/
theorem dirOK_handle {rq : Req} {a : Ans} {t0 : Tab} (hf : Fresh rq a t0) (i : Nat) (pa : Option (Nat × Nat))
    (sm : PS) (new ans : Option Nat) (err : Bool) (tab : Tab)
    (hnew : ∀ x, new = some x → (t0 x).isSome)
    (hans : ∀ f, ans = some f → a.isTmpAns f)
    (hm : (moveStd true sm i new ans err).2.2.2 = false)
    (hle0 : t0.le tab) (hle : (moveStd true sm i new ans err).1.tab.le tab) :
    DirOK a t0 tab i pa none new (moveStd true sm i new ans err).2.1 := by
  obtain ⟨_, _, hcase⟩ := moveStd_spec sm i new ans err hm
  intro s hs
  rcases hcase with ⟨hsrc, hgt⟩ | ⟨x, f, hx, hx2, hxi, hf', hsrc, hopen⟩
  · rw [hsrc] at hs ⊢
    cases new with
    | none => simp [effOf] at hs
    | some n =>
      simp only [effOf] at hs
      by_cases hni : n = i
      · simp [hni] at hs
      · simp [hni] at hs
        subst hs
        rcases hgt n rfl with h | h
        · exact ⟨h, hle0 n (hnew n rfl), Origin.handle rfl rfl (hnew n rfl)⟩
        · exact absurd h hni
  · rw [hsrc] at hs ⊢
    rw [hx] at hs
    simp only [effOf] at hs
    rw [if_pos hxi] at hs
    have hfs : f = s := Option.some.inj hs
    subst hfs
    have ht := hans f hf'
    exact ⟨(hf.tmpsNew f ht).2, hle f hopen, Origin.tmp rfl rfl ht⟩


theorem safe_of_dirOK {rq : Req} {a : Ans} {t0 : Tab} (hf : Fresh rq a t0) (p : Plumb) (tab : Tab)
    (d0 : DirOK a t0 tab 0 a.pin p.pipeIn p.newIn p.srcIn)
    (d1 : DirOK a t0 tab 1 a.pout p.pipeOut p.newOut p.srcOut)
    (d2 : DirOK a t0 tab 2 a.perr p.pipeErr p.newErr p.srcErr)
    (hle : t0.le tab) : Safe p tab := by
  have pi : ∀ r w, a.pin = some (r, w) → a.isPipeAns r w := fun r w h => Or.inl h
  have po : ∀ r w, a.pout = some (r, w) → a.isPipeAns r w := fun r w h => Or.inr (Or.inl h)
  have pe : ∀ r w, a.perr = some (r, w) → a.isPipeAns r w := fun r w h => Or.inr (Or.inr h)
  refine ⟨?_, ?_, ?_, ?_, ?_, ?_⟩
  · intro s hs; rw [effIn_eq] at hs; exact ⟨(d0 s hs).1, (d0 s hs).2.1⟩
  · intro s hs; rw [effOut_eq] at hs; exact ⟨(d1 s hs).1, (d1 s hs).2.1⟩
  · intro s hs; rw [effErr_eq] at hs; exact ⟨(d2 s hs).1, (d2 s hs).2.1⟩
  · intro hc s hs
    rw [effIn_eq] at hs
    have o0 := (d0 s hs).2.2
    have hcl : p.pipeIn = none → p.srcIn ≠ p.srcOut ∧ p.srcIn ≠ p.srcErr := by
      intro hp; unfold clIn at hc; rw [hp] at hc; simpa using hc
    constructor
    · intro ho; rw [effOut_eq] at ho
      exact origin_ne hf o0 (d1 s ho).2.2 hf.io pi po (fun h _ => (hcl h).1) rfl
    · intro ho; rw [effErr_eq] at ho
      exact origin_ne hf o0 (d2 s ho).2.2 hf.ie pi pe (fun h _ => (hcl h).2) rfl
  · intro hc s hs
    rw [effOut_eq] at hs
    have o1 := (d1 s hs).2.2
    have hcl : p.pipeOut = none → p.srcOut ≠ p.srcErr := by
      intro hp; unfold clOut at hc; rw [hp] at hc; simpa using hc
    intro ho; rw [effErr_eq] at ho
    exact origin_ne hf o1 (d2 s ho).2.2 hf.oe po pe (fun h _ => hcl h) rfl
  · intro _ _ _; exact hle 1 hf.std.2.1


abbrev R4 := PS × Option Nat × Option Nat × Bool

theorem pipeStage_le (c : Bool) (s : PS) (k : Nat) (rev : Bool) (pa : Option (Nat × Nat)) (hfd : Option Nat)
    (r : R4) (hr : r = if c then makePipes s k rev pa else (s, hfd, none, false)) (he : r.2.2.2 = false) : s.tab.le r.1.tab := by
  cases c with
  | true =>
    simp only [if_true] at hr
    rw [hr] at he ⊢
    obtain ⟨_, _, _, _, _, hle, _, _⟩ := makePipes_spec s k rev pa he
    exact hle
  | false => simp only [Bool.false_eq_true, if_false] at hr; rw [hr]; exact Tab.le_refl _

theorem dirOK_stage {rq : Req} {a : Ans} {t0 : Tab} (hf : Fresh rq a t0) (c : Bool) (i k : Nat) (rev : Bool) (pa : Option (Nat × Nat))
    (hfd : Option Nat) (s sm : PS) (ans : Option Nat) (err : Bool) (tab : Tab) (r m : R4)
    (hr : r = if c then makePipes s k rev pa else (s, hfd, none, false))
    (hm : m = moveStd true sm i r.2.1 ans err)
    (hpa : ∀ r w, pa = some (r, w) → a.isPipeAns r w)
    (hnew : ∀ x, hfd = some x → (t0 x).isSome)
    (hans : ∀ f, ans = some f → a.isTmpAns f)
    (her : r.2.2.2 = false) (hem : m.2.2.2 = false)
    (hle0 : t0.le tab) (hler : r.1.tab.le tab) (hlem : m.1.tab.le tab) :
    DirOK a t0 tab i pa r.2.2.1 r.2.1 m.2.1 := by
  cases c with
  | true =>
    simp only [if_true] at hr
    subst hr
    subst hm
    exact dirOK_pipe hf i k rev pa s sm ans err tab hpa her hem hler
  | false =>
    simp only [Bool.false_eq_true, if_false] at hr
    subst hr
    subst hm
    exact dirOK_handle hf i pa sm hfd ans err tab hnew hans hem hle0 hlem

theorem setup_safe_aux {rq : Req} {a : Ans} {t0 : Tab} (hf : Fresh rq a t0) (c1 c2 c3 eo : Bool) (r1 r2 r3 m1 m2 m3 : R4)
    (h1 : r1 = if c1 then makePipes { tab := t0, log := [] } 0 true a.pin else ({ tab := t0, log := [] }, rq.rin.handleFd, none, false))
    (h2 : r2 = if c2 then makePipes r1.1 1 false a.pout else (r1.1, rq.rout.handleFd, none, false))
    (h3 : r3 = if c3 then makePipes r2.1 2 false a.perr else (r2.1, if eo then none else rq.rerr.handleFd, none, false))
    (g1 : m1 = moveStd true r3.1 0 r1.2.1 a.tmp0 (r1.2.2.2 || r2.2.2.2 || r3.2.2.2))
    (g2 : m2 = moveStd true m1.1 1 r2.2.1 a.tmp1 m1.2.2.2)
    (g3 : m3 = moveStd true m2.1 2 r3.2.1 a.tmp2 m2.2.2.2)
    (he : m3.2.2.2 = false) :
    Safe { pipeIn := r1.2.2.1, pipeOut := r2.2.2.1, pipeErr := r3.2.2.1, newIn := r1.2.1, newOut := r2.2.1, newErr := r3.2.1,
           srcIn := m1.2.1, srcOut := m2.2.1, srcErr := m3.2.1, errIsOut := eo } m3.1.tab := by
  have s3 := moveStd_spec m2.1 2 r3.2.1 a.tmp2 m2.2.2.2 (by rw [← g3]; exact he)
  have s2 := moveStd_spec m1.1 1 r2.2.1 a.tmp1 m1.2.2.2 (by rw [← g2]; exact s3.1)
  have s1 := moveStd_spec r3.1 0 r1.2.1 a.tmp0 (r1.2.2.2 || r2.2.2.2 || r3.2.2.2) (by rw [← g1]; exact s2.1)
  have e123 := s1.1
  simp only [Bool.or_eq_false_iff] at e123
  obtain ⟨⟨e1, e2⟩, e3⟩ := e123
  have l1 : t0.le r1.1.tab := pipeStage_le c1 _ 0 true a.pin _ r1 h1 e1
  have l2 : r1.1.tab.le r2.1.tab := pipeStage_le c2 _ 1 false a.pout _ r2 h2 e2
  have l3 : r2.1.tab.le r3.1.tab := pipeStage_le c3 _ 2 false a.perr _ r3 h3 e3
  have l4 : r3.1.tab.le m1.1.tab := by rw [g1]; exact s1.2.1
  have l5 : m1.1.tab.le m2.1.tab := by rw [g2]; exact s2.2.1
  have l6 : m2.1.tab.le m3.1.tab := by rw [g3]; exact s3.2.1
  have L0 : t0.le m3.1.tab := Tab.le_trans l1 (Tab.le_trans l2 (Tab.le_trans l3 (Tab.le_trans l4 (Tab.le_trans l5 l6))))
  have d0 := dirOK_stage hf c1 0 0 true a.pin rq.rin.handleFd _ r3.1 a.tmp0 _ m3.1.tab r1 m1 h1 g1 (fun r w h => Or.inl h)
    (fun x hx => hf.handles x (Or.inl hx)) (fun f h => Or.inl h) e1 s2.1 L0
    (Tab.le_trans l2 (Tab.le_trans l3 (Tab.le_trans l4 (Tab.le_trans l5 l6)))) (Tab.le_trans l5 l6)
  have d1 := dirOK_stage hf c2 1 1 false a.pout rq.rout.handleFd _ m1.1 a.tmp1 _ m3.1.tab r2 m2 h2 g2 (fun r w h => Or.inr (Or.inl h))
    (fun x hx => hf.handles x (Or.inr (Or.inl hx))) (fun f h => Or.inr (Or.inl h)) e2 s3.1 L0
    (Tab.le_trans l3 (Tab.le_trans l4 (Tab.le_trans l5 l6))) l6
  have d2 := dirOK_stage hf c3 2 2 false a.perr (if eo then none else rq.rerr.handleFd) _ m2.1 a.tmp2 _ m3.1.tab r3 m3 h3 g3 (fun r w h => Or.inr (Or.inr h))
    (fun x hx => by
      cases eo with
      | true => simp at hx
      | false => exact hf.handles x (Or.inr (Or.inr (by simpa using hx)))) (fun f h => Or.inr (Or.inr h)) e3 he L0
    (Tab.le_trans l4 (Tab.le_trans l5 l6)) (Tab.le_refl _)
  exact safe_of_dirOK hf _ _ d0 d1 d2 L0

/-- ☆ `os_execute_impl` ESTABLISHES `Safe`: for every request and every kernel that hands out descriptors that are not
    open (`Fresh`), when the set-up phase does not fail the handles and the table at `posix_spawn` satisfy the hypothesis of
    `child_table` / `child_stdio_exact`. -/
theorem setup_safe (rq : Req) (a : Ans) (t0 : Tab) (hf : Fresh rq a t0) (he : (setup true rq a t0).err = false) :
    Safe (setup true rq a t0).p (setup true rq a t0).s.tab := by
  simp only [setup] at he ⊢
  exact setup_safe_aux hf _ _ _ _ _ _ _ _ _ _ rfl rfl rfl rfl rfl rfl he

end JanetModel.Proc
