/-
C16 — subprocess exit status: bit-level model of `proc_get_status` (src/core/os.c, posix branch).

The C function is
    do { result = waitpid(proc->pid, &status, 0); } while (result == -1 && errno == EINTR);
    if (WIFEXITED(status)) status = WEXITSTATUS(status);
    else if (WIFSTOPPED(status)) status = WSTOPSIG(status) + 128;
    else if (WIFSIGNALED(status)) status = WTERMSIG(status) + 128;
    else janet_panicf(...);
The macros are whatever <sys/wait.h> of the build machine expands them to; the translator (tools/gen/procstat.py) runs
`cc -E` with the build's flags on os.c, parses the expanded conditions / values into `CExpr` and regenerates
`Gen/ProcStat.lean`.  This file gives the expression language its C semantics on 32-bit two's-complement `int`,
the decoder as an if-chain over such branches, the layout of the Linux wait-status word, and the branches the model
expects (`modelBranches`, glibc expansions).  Core Lean only (linked into the driver `jm_c16`).
-/
namespace JanetModel.Proc

/-- the C expressions that occur in the expanded wait-status macros; the only variable is `status` -/
inductive CExpr where
  | status
  | lit (n : Nat)
  | band (a b : CExpr)        -- a & b
  | shr (a b : CExpr)         -- a >> b   (arithmetic on negative values, as gcc / clang do)
  | add (a b : CExpr)         -- a + b
  | sub (a b : CExpr)         -- a - b
  | eq (a b : CExpr)          -- a == b   (0 / 1)
  | gt (a b : CExpr)          -- a > b    (0 / 1)
  | lt (a b : CExpr)          -- a < b    (0 / 1)
  | scast8 (a : CExpr)        -- (signed char) a
  | lor (a b : CExpr)         -- a || b   (0 / 1)
  | land (a b : CExpr)        -- a && b   (0 / 1)
  deriving DecidableEq, Repr

/-- reinterpret an integer as a 32-bit two's-complement `int` -/
def toI32 (x : Int) : Int := (x + 2147483648) % 4294967296 - 2147483648

/-- `a & b` on 32-bit two's-complement values -/
def band32 (a b : Int) : Int :=
  toI32 (Int.ofNat (Nat.land (a % 4294967296).toNat (b % 4294967296).toNat))

/-- `(signed char) a` (the implementation-defined conversion of gcc / clang: reduce modulo 2^8) -/
def sextChar (a : Int) : Int := (a + 128) % 256 - 128

def b2i (b : Bool) : Int := if b then 1 else 0

def CExpr.eval (w : Int) : CExpr → Int
  | .status => w
  | .lit n => Int.ofNat n
  | .band a b => band32 (a.eval w) (b.eval w)
  | .shr a b => (a.eval w) / (2 ^ (b.eval w).toNat : Int)      -- Int `/` rounds towards −∞ for a positive divisor
  | .add a b => toI32 (a.eval w + b.eval w)
  | .sub a b => toI32 (a.eval w - b.eval w)
  | .eq a b => b2i (a.eval w == b.eval w)
  | .gt a b => b2i (decide (a.eval w > b.eval w))
  | .lt a b => b2i (decide (a.eval w < b.eval w))
  | .scast8 a => sextChar (a.eval w)
  | .lor a b => b2i (a.eval w != 0 || b.eval w != 0)
  | .land a b => b2i (a.eval w != 0 && b.eval w != 0)

/-- one arm of the if / else-if chain: (condition, value assigned to `status`) -/
abbrev Branch := CExpr × CExpr

inductive Outcome where
  | code (n : Int)      -- the value `proc_get_status` returns (becomes `proc->return_code` and the result of os/proc-wait)
  | panic               -- "Undefined status code for process termination"
  deriving DecidableEq, Repr

/-- the if / else-if chain of `proc_get_status`, final `else` = panic -/
def decode : List Branch → Int → Outcome
  | [], _ => .panic
  | (c, v) :: rest, w => if c.eval w != 0 then .code (v.eval w) else decode rest w

/-! ### the glibc expansions (what the model expects `cc -E` to produce) -/
def mWTERMSIG : CExpr := .band .status (.lit 0x7f)
def mWEXITSTATUS : CExpr := .shr (.band .status (.lit 0xff00)) (.lit 8)
def mWSTOPSIG : CExpr := mWEXITSTATUS
def mWIFEXITED : CExpr := .eq mWTERMSIG (.lit 0)
def mWIFSTOPPED : CExpr := .eq (.band .status (.lit 0xff)) (.lit 0x7f)
def mWIFSIGNALED : CExpr := .gt (.shr (.scast8 (.add (.band .status (.lit 0x7f)) (.lit 1))) (.lit 1)) (.lit 0)

/-- `proc_get_status` as written: exited → exit code; stopped → 128 + stop signal; signaled → 128 + signal -/
def modelBranches : List Branch :=
  [ (mWIFEXITED, mWEXITSTATUS),
    (mWIFSTOPPED, .add mWSTOPSIG (.lit 128)),
    (mWIFSIGNALED, .add mWTERMSIG (.lit 128)) ]

/-! ### the Linux wait-status word (kernel/exit.c: `(code & 0xff) << 8` for exit(2), `sig | 0x80·core` for a fatal signal,
    `(sig << 8) | 0x7f` for a stop reported under WUNTRACED / ptrace, `0xffff` for a continue under WCONTINUED) -/
def exitWord (c : Nat) : Int := Int.ofNat (c * 256)
def sigWord (s : Nat) (core : Bool) : Int := Int.ofNat (s + (if core then 128 else 0))
def stopWord (s : Nat) : Int := Int.ofNat (s * 256 + 127)
def contWord : Int := 65535

end JanetModel.Proc
