/-
C16 — lemmas about the descriptor plumbing model (Proc/Spawn.lean): effect of the posix_spawn file actions on the
child's table, block by block; `child_table` is the statement Props/C16.lean builds on.
-/
import JanetModel.Proc.Spawn
namespace JanetModel.Proc
def effIn (p : Plumb) : Option Fd :=
  match p.pipeIn with
  | some q => some q
  | none => match p.newIn, p.srcIn with
    | some n, some s => if n ≠ 0 then some s else none
    | _, _ => none
def effOut (p : Plumb) : Option Fd :=
  match p.pipeOut with
  | some q => some q
  | none => match p.newOut, p.srcOut with
    | some n, some s => if n ≠ 1 then some s else none
    | _, _ => none
def effErr (p : Plumb) : Option Fd :=
  match p.pipeErr with
  | some q => some q
  | none => match p.newErr, p.srcErr with
    | some n, some s => if n ≠ 2 then some s else none
    | _, _ => none
def clIn (p : Plumb) : Bool :=
  match p.pipeIn with
  | some _ => true
  | none => decide (p.srcIn ≠ p.srcOut ∧ p.srcIn ≠ p.srcErr)
def clOut (p : Plumb) : Bool :=
  match p.pipeOut with
  | some _ => true
  | none => decide (p.srcOut ≠ p.srcErr)

def stageActs (i : Fd) : Option Fd → Bool → List Act
  | none, _ => []
  | some s, true => [.dup2 s i, .close s]
  | some s, false => [.dup2 s i]

def errTail (p : Plumb) : List Act :=
  match effErr p with
  | some _ => []
  | none => if p.errIsOut then [.dup2 1 2] else []

theorem inActs_eq (p : Plumb) : inActs p = stageActs 0 (effIn p) (clIn p) := by
  obtain ⟨pi, po, pe, ni, no, ne, si, so, se, eo⟩ := p
  cases pi <;> cases ni <;> cases si <;> simp [inActs, effIn, clIn, stageActs]
  rename_i n s
  by_cases h0 : n = 0 <;> by_cases h1 : so = some s <;> by_cases h2 : se = some s <;> simp [h0, h1, h2, stageActs, eq_comm]

theorem outActs_eq (p : Plumb) : outActs p = stageActs 1 (effOut p) (clOut p) := by
  obtain ⟨pi, po, pe, ni, no, ne, si, so, se, eo⟩ := p
  cases po <;> cases no <;> cases so <;> simp [outActs, effOut, clOut, stageActs]
  rename_i n s
  by_cases h0 : n = 1 <;> by_cases h2 : se = some s <;> simp [h0, h2, stageActs, eq_comm]

theorem errActs_eq (p : Plumb) : errActs p = stageActs 2 (effErr p) true ++ errTail p := by
  obtain ⟨pi, po, pe, ni, no, ne, si, so, se, eo⟩ := p
  cases pe <;> cases ne <;> cases se <;> cases eo <;> simp [errActs, effErr, errTail, stageActs]
  all_goals (rename_i n s; by_cases h0 : n = 2 <;> simp [h0, stageActs])

theorem runActs_append (t : Tab) (a b : List Act) :
    runActs t (a ++ b) = (runActs t a).bind (fun t' => runActs t' b) := by
  induction a generalizing t with
  | nil => rfl
  | cons x xs ih =>
    simp only [List.cons_append, runActs]
    cases x.run t with
    | none => rfl
    | some t' => exact ih t'

/-- the table after one direction's block -/
def stageTab (t : Tab) (i : Fd) (eff : Option Fd) (cl : Bool) : Tab :=
  match eff with
  | none => t
  | some s => match t s with
    | none => t
    | some e => if cl then (t.put i { e with cloexec := false }).del s else t.put i { e with cloexec := false }

theorem runActs_stage (t : Tab) (i : Fd) (eff : Option Fd) (cl : Bool)
    (h : ∀ s, eff = some s → (t s).isSome) :
    runActs t (stageActs i eff cl) = some (stageTab t i eff cl) := by
  cases eff with
  | none => rfl
  | some s =>
    have hs := h s rfl
    cases hts : t s with
    | none => rw [hts] at hs; cases hs
    | some e => cases cl <;> simp [stageActs, runActs, Act.run, stageTab, hts]

def clearCx (e : Ent) : Ent := { e with cloexec := false }

theorem stageTab_other (t : Tab) (i : Fd) (eff : Option Fd) (cl : Bool) (x : Fd)
    (hx : x ≠ i) (h : eff ≠ some x ∨ cl = false) : stageTab t i eff cl x = t x := by
  cases eff with
  | none => rfl
  | some s =>
    cases hts : t s with
    | none => simp [stageTab, hts]
    | some e =>
      cases cl with
      | false => simp [stageTab, hts, Tab.put, hx]
      | true =>
        have : x ≠ s := by
          rcases h with h | h
          · intro e; apply h; rw [e]
          · cases h
        simp [stageTab, hts, Tab.put, Tab.del, hx, this]

theorem stageTab_target (t : Tab) (i s : Fd) (cl : Bool) (e : Ent) (hs : t s = some e) (hne : i ≠ s) :
    stageTab t i (some s) cl i = some (clearCx e) := by
  cases cl <;> simp [stageTab, hs, Tab.put, Tab.del, hne, clearCx]

theorem stageTab_closed (t : Tab) (i s : Fd) (e : Ent) (hs : t s = some e) :
    stageTab t i (some s) true s = none := by
  simp [stageTab, hs, Tab.del]

theorem stageTab_above (t : Tab) (i : Fd) (eff : Option Fd) (cl : Bool) (x : Fd) (hx : x ≠ i) :
    stageTab t i eff cl x = t x ∨ stageTab t i eff cl x = none := by
  cases eff with
  | none => left; rfl
  | some s =>
    cases hts : t s with
    | none => left; simp [stageTab, hts]
    | some e =>
      cases cl with
      | false => left; simp [stageTab, hts, Tab.put, hx]
      | true =>
        by_cases hxs : x = s
        · right; simp [stageTab, hts, Tab.del, hxs]
        · left; simp [stageTab, hts, Tab.put, Tab.del, hx, hxs]


/-- what the three blocks need from the handles and the table at the time of posix_spawn -/
structure Safe (p : Plumb) (t : Tab) : Prop where
  inOpen : ∀ s, effIn p = some s → 2 < s ∧ (t s).isSome
  outOpen : ∀ s, effOut p = some s → 2 < s ∧ (t s).isSome
  errOpen : ∀ s, effErr p = some s → 2 < s ∧ (t s).isSome
  inKeep : clIn p = true → ∀ s, effIn p = some s → effOut p ≠ some s ∧ effErr p ≠ some s
  outKeep : clOut p = true → ∀ s, effOut p = some s → effErr p ≠ some s
  tailOpen : p.errIsOut = true → effErr p = none → effOut p = none → (t 1).isSome

/-- the entry a standard descriptor of the child must have: the redirection's source (never close-on-exec), else inherited -/
def redirected (t : Tab) (eff : Option Fd) (i : Fd) : Option Ent :=
  match eff with
  | some s => (t s).map clearCx
  | none => t i

theorem stage_self (t : Tab) (i : Fd) (eff : Option Fd) (cl : Bool)
    (h : ∀ s, eff = some s → i ≠ s ∧ (t s).isSome) : stageTab t i eff cl i = redirected t eff i := by
  cases eff with
  | none => rfl
  | some s =>
    obtain ⟨hne, ho⟩ := h s rfl
    cases hts : t s with
    | none => rw [hts] at ho; cases ho
    | some e => rw [stageTab_target t i s cl e hts hne]; simp [redirected, hts]

theorem child_table (p : Plumb) (t : Tab) (h : Safe p t) :
    ∃ t', runActs t (fileActions p) = some t' ∧
      t' 0 = redirected t (effIn p) 0 ∧
      t' 1 = redirected t (effOut p) 1 ∧
      t' 2 = (match effErr p with
              | some s => (t s).map clearCx
              | none => if p.errIsOut then (redirected t (effOut p) 1).map clearCx else t 2) ∧
      (∀ x, 2 < x → t' x = t x ∨ t' x = none) := by
  -- abbreviations
  obtain ⟨inOpen, outOpen, errOpen, inKeep, outKeep, tailOpen⟩ := h
  generalize hI : effIn p = eI at inOpen outOpen errOpen inKeep outKeep tailOpen
  generalize hO : effOut p = eO at inOpen outOpen errOpen inKeep outKeep tailOpen
  generalize hE : effErr p = eE at inOpen outOpen errOpen inKeep outKeep tailOpen
  generalize hcI : clIn p = cI at inKeep
  generalize hcO : clOut p = cO at outKeep
  -- the sources of later blocks are untouched by earlier ones
  have nI : ∀ s, eI = some s → (eO ≠ some s ∨ cI = false) ∧ (eE ≠ some s ∨ cI = false) := by
    intro s hs
    cases cI with
    | false => exact ⟨Or.inr rfl, Or.inr rfl⟩
    | true => have := inKeep rfl s hs; exact ⟨Or.inl this.1, Or.inl this.2⟩
  have F1 : ∀ s, eO = some s → stageTab t 0 eI cI s = t s := by
    intro s hs
    have h2 := (outOpen s hs).1
    apply stageTab_other _ _ _ _ _ (by omega)
    cases eI with
    | none => left; simp
    | some a =>
      by_cases ha : a = s
      · subst ha; rcases (nI a rfl).1 with h | h
        · exact absurd hs h
        · right; exact h
      · left; simp [ha]
  have F1e : ∀ s, eE = some s → stageTab t 0 eI cI s = t s := by
    intro s hs
    have h2 := (errOpen s hs).1
    apply stageTab_other _ _ _ _ _ (by omega)
    cases eI with
    | none => left; simp
    | some a =>
      by_cases ha : a = s
      · subst ha; rcases (nI a rfl).2 with h | h
        · exact absurd hs h
        · right; exact h
      · left; simp [ha]
  have F2 : ∀ s, eE = some s → stageTab (stageTab t 0 eI cI) 1 eO cO s = t s := by
    intro s hs
    have h2 := (errOpen s hs).1
    rw [stageTab_other _ _ _ _ _ (by omega)]
    · exact F1e s hs
    · cases eO with
      | none => left; simp
      | some b =>
        by_cases hb : b = s
        · subst hb
          cases cO with
          | false => right; rfl
          | true => exact absurd hs (outKeep rfl b rfl)
        · left; simp [hb]
  -- run the three blocks
  have r1 := runActs_stage t 0 eI cI (fun s hs => (inOpen s hs).2)
  have r2 := runActs_stage (stageTab t 0 eI cI) 1 eO cO (fun s hs => by rw [F1 s hs]; exact (outOpen s hs).2)
  have r3 := runActs_stage (stageTab (stageTab t 0 eI cI) 1 eO cO) 2 eE true (fun s hs => by rw [F2 s hs]; exact (errOpen s hs).2)
  -- entries 0, 1, 2 and the rest after the three blocks
  have e0 : stageTab (stageTab (stageTab t 0 eI cI) 1 eO cO) 2 eE true 0 = redirected t eI 0 := by
    rw [stageTab_other _ _ _ _ _ (by omega), stageTab_other _ _ _ _ _ (by omega)]
    · exact stage_self t 0 eI cI (fun s hs => ⟨by have := (inOpen s hs).1; omega, (inOpen s hs).2⟩)
    · cases eO with
      | none => left; simp
      | some b => left; have := (outOpen b rfl).1; simp; omega
    · cases eE with
      | none => left; simp
      | some c => left; have := (errOpen c rfl).1; simp; omega
  have e1 : stageTab (stageTab (stageTab t 0 eI cI) 1 eO cO) 2 eE true 1 = redirected t eO 1 := by
    rw [stageTab_other _ _ _ _ _ (by omega)]
    · rw [stage_self (stageTab t 0 eI cI) 1 eO cO (fun s hs => ⟨by have := (outOpen s hs).1; omega, by rw [F1 s hs]; exact (outOpen s hs).2⟩)]
      cases eO with
      | none =>
        simp only [redirected]
        apply stageTab_other _ _ _ _ _ (by omega)
        cases eI with
        | none => left; simp
        | some a => left; have := (inOpen a rfl).1; simp; omega
      | some b => simp only [redirected]; rw [F1 b rfl]
    · cases eE with
      | none => left; simp
      | some c => left; have := (errOpen c rfl).1; simp; omega
  have e2 : stageTab (stageTab (stageTab t 0 eI cI) 1 eO cO) 2 eE true 2 =
      (match eE with | some s => (t s).map clearCx | none => t 2) := by
    rw [stage_self _ 2 eE true (fun s hs => ⟨by have := (errOpen s hs).1; omega, by rw [F2 s hs]; exact (errOpen s hs).2⟩)]
    cases eE with
    | none =>
      simp only [redirected]
      rw [stageTab_other _ _ _ _ _ (by omega), stageTab_other _ _ _ _ _ (by omega)]
      · cases eI with
        | none => left; simp
        | some a => left; have := (inOpen a rfl).1; simp; omega
      · cases eO with
        | none => left; simp
        | some b => left; have := (outOpen b rfl).1; simp; omega
    | some c => simp only [redirected]; rw [F2 c rfl]
  have eX : ∀ x, 2 < x → stageTab (stageTab (stageTab t 0 eI cI) 1 eO cO) 2 eE true x = t x ∨
      stageTab (stageTab (stageTab t 0 eI cI) 1 eO cO) 2 eE true x = none := by
    intro x hx
    rcases stageTab_above (stageTab (stageTab t 0 eI cI) 1 eO cO) 2 eE true x (by omega) with h3 | h3
    · rcases stageTab_above (stageTab t 0 eI cI) 1 eO cO x (by omega) with h2 | h2
      · rcases stageTab_above t 0 eI cI x (by omega) with h1 | h1
        · left; rw [h3, h2, h1]
        · right; rw [h3, h2, h1]
      · right; rw [h3, h2]
    · right; exact h3
  -- assemble
  have run3 : runActs t (stageActs 0 eI cI ++ stageActs 1 eO cO ++ stageActs 2 eE true) =
      some (stageTab (stageTab (stageTab t 0 eI cI) 1 eO cO) 2 eE true) := by
    rw [runActs_append, runActs_append, r1]
    simp only [Option.bind_some]
    rw [r2]
    simp only [Option.bind_some]
    exact r3
  have hfa : fileActions p = (stageActs 0 eI cI ++ stageActs 1 eO cO ++ stageActs 2 eE true) ++ errTail p := by
    unfold fileActions
    rw [inActs_eq, outActs_eq, errActs_eq, hI, hO, hE, hcI, hcO, List.append_assoc, List.append_assoc, List.append_assoc]
  rw [hfa, runActs_append, run3]
  simp only [Option.bind_some]
  unfold errTail
  rw [hE]
  cases eE with
  | some c =>
    refine ⟨_, rfl, e0, e1, ?_, eX⟩
    rw [e2]
  | none =>
    cases hout : p.errIsOut with
    | false =>
      refine ⟨_, rfl, e0, e1, ?_, eX⟩
      rw [e2]; simp
    | true =>
      -- the child's descriptor 1 is open after the first two blocks
      have open1 : ∃ e, redirected t eO 1 = some e := by
        cases eO with
        | none =>
          have := tailOpen hout rfl rfl
          cases h1 : t 1 with
          | none => rw [h1] at this; cases this
          | some e => exact ⟨e, by simp [redirected, h1]⟩
        | some b =>
          have := (outOpen b rfl).2
          cases hb : t b with
          | none => rw [hb] at this; cases this
          | some e => exact ⟨clearCx e, by simp [redirected, hb]⟩
      obtain ⟨e, he⟩ := open1
      have h1 : stageTab (stageTab (stageTab t 0 eI cI) 1 eO cO) 2 none true 1 = some e := by rw [e1]; exact he
      refine ⟨(stageTab (stageTab (stageTab t 0 eI cI) 1 eO cO) 2 none true).put 2 (clearCx e), ?_, ?_, ?_, ?_, ?_⟩
      · simp [runActs, Act.run, h1, clearCx]
      · simp only [Tab.put]; rw [if_neg (by omega)]; exact e0
      · simp only [Tab.put]; rw [if_neg (by omega)]; exact e1
      · simp [Tab.put, he]
      · intro x hx
        simp only [Tab.put]; rw [if_neg (by omega)]; exact eX x hx


/-! ### `Safe` as an executable check (used by the driver on every intercepted spawn) -/
def optAll (o : Option Nat) (f : Nat → Bool) : Bool := match o with | some s => f s | none => true

def safeB (p : Plumb) (t : Tab) : Bool :=
  optAll (effIn p) (fun s => decide (2 < s) && (t s).isSome) &&
  optAll (effOut p) (fun s => decide (2 < s) && (t s).isSome) &&
  optAll (effErr p) (fun s => decide (2 < s) && (t s).isSome) &&
  (!clIn p || optAll (effIn p) (fun s => decide (effOut p ≠ some s) && decide (effErr p ≠ some s))) &&
  (!clOut p || optAll (effOut p) (fun s => decide (effErr p ≠ some s))) &&
  (!(p.errIsOut && (effErr p).isNone && (effOut p).isNone) || (t 1).isSome)

theorem optAll_spec (o : Option Nat) (f : Nat → Bool) (h : optAll o f = true) : ∀ s, o = some s → f s = true := by
  intro s hs; subst hs; exact h

theorem safeB_sound (p : Plumb) (t : Tab) (h : safeB p t = true) : Safe p t := by
  unfold safeB at h
  simp only [Bool.and_eq_true, Bool.or_eq_true, Bool.not_eq_true', decide_eq_true_eq] at h
  obtain ⟨⟨⟨⟨⟨h1, h2⟩, h3⟩, h4⟩, h5⟩, h6⟩ := h
  refine ⟨?_, ?_, ?_, ?_, ?_, ?_⟩
  · intro s hs; have := optAll_spec _ _ h1 s hs; simpa using this
  · intro s hs; have := optAll_spec _ _ h2 s hs; simpa using this
  · intro s hs; have := optAll_spec _ _ h3 s hs; simpa using this
  · intro hc s hs
    rcases h4 with h4 | h4
    · rw [hc] at h4; cases h4
    · have := optAll_spec _ _ h4 s hs; simpa using this
  · intro hc s hs
    rcases h5 with h5 | h5
    · rw [hc] at h5; cases h5
    · have := optAll_spec _ _ h5 s hs; simpa using this
  · intro ho he hu
    rcases h6 with h6 | h6
    · simp [ho, he, hu] at h6
    · exact h6

end JanetModel.Proc
