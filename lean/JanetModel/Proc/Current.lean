/-
C16 — obligations over the CURRENT source for the subprocess part: Gen/ProcStat.lean is regenerated from
src/core/os.c (after `cc -E` with the build's flags) on every run.  This file builds only when the expanded
if / else-if chain of `proc_get_status` is the one the model proves exact; then the theorems are instantiated for the
regenerated expression trees.  (Not imported by Props/C16.lean.)
-/
import JanetModel.Props.C16
import JanetModel.Gen.ProcStat

namespace JanetModel.Proc.Current
open JanetModel.Proc

/-- `waitpid` is called with options 0: stopped / continued children are never reported, so the terminated-child words
    are all the words `proc_get_status` ever decodes -/
theorem current_source_waitpid_options : Gen.ProcStat.waitpidOptions = 0 := by decide

/-- ☆ exit status exact, for the decoder of the CURRENT source: the statement of `exit_status_exact` evaluated by the
    kernel on the regenerated expression trees themselves (whatever the macros expand to on this machine — a different
    but equivalent expansion still checks, a decoder that misreports any of the 508 words does not) -/
theorem exit_status_exact_current :
    (∀ c, c < 256 → decode Gen.ProcStat.branches (exitWord c) = .code (Int.ofNat c)) ∧
    (∀ s, s < 127 → 1 ≤ s → ∀ core : Bool, decode Gen.ProcStat.branches (sigWord s core) = .code (Int.ofNat (128 + s))) := by
  refine ⟨?_, ?_⟩ <;> decide +kernel

-- (on glibc the regenerated chain is, token by token, `modelBranches`; that equality is deliberately NOT required here)

/-- the current source moves redirection sources that are standard descriptors above 2 before it builds the file
    actions (a3cd080) — the fact `Safe` rests on for `{:err stdout}`-style requests; on a tree without the loop this does
    not build and `std_source_unmoved_loses_descriptor` is the witness that replays on the implementation -/
theorem current_source_moves_std_sources : Gen.ProcStat.movesStdSources = true := by decide

end JanetModel.Proc.Current
