/-
C16 — descriptor plumbing of `os/spawn` / `os/execute` (src/core/os.c `os_execute_impl`, `make_pipes`; src/core/ev.c
`janet_make_pipe`; posix branch) and the life cycle of the process value (`os_proc_wait_impl`, `janet_proc_wait_cb`,
`os/proc-close`).

* A descriptor table is `Fd → Option Ent` (object + close-on-exec flag).  The kernel is an answer record: which numbers
  `pipe()` / `fcntl(F_DUPFD)` / `dup()` return (or that they fail) and whether `posix_spawn` succeeds.
* `osExecute` mirrors the C statement by statement and returns the parent's table, the list of system calls in program
  order (compared with the interposer's `K` lines), the `posix_spawn` file actions, and the process record.
* The child's table is the parent's table at the time of `posix_spawn`, transformed by the file actions in order, minus
  the close-on-exec entries (`Tab.exec`).
Core Lean only (linked into the driver `jm_c16`).
-/
namespace JanetModel.Proc

scoped notation "Fd" => Nat

/-- what a descriptor refers to: the object the parent's descriptor `n` referred to when `os/spawn` was called, or an end of
    the pipe created for direction `k` (0 = :in, 1 = :out, 2 = :err) -/
inductive Obj where
  | orig (n : Fd)
  | pipeR (k : Nat)
  | pipeW (k : Nat)
  deriving DecidableEq, Repr

structure Ent where
  obj : Obj
  cloexec : Bool
  deriving DecidableEq, Repr

abbrev Tab := Fd → Option Ent

def Tab.put (t : Tab) (fd : Fd) (e : Ent) : Tab := fun x => if x = fd then some e else t x
def Tab.del (t : Tab) (fd : Fd) : Tab := fun x => if x = fd then none else t x
/-- what survives `execve` -/
def Tab.exec (t : Tab) : Tab := fun x => match t x with
  | some e => if e.cloexec then none else some e
  | none => none
def Tab.objAt (t : Tab) (fd : Fd) : Option Obj := (t fd).map (·.obj)

/-! ### posix_spawn file actions, executed in the child in the order they were added -/
inductive Act where
  | dup2 (src dst : Fd)
  | close (fd : Fd)
  deriving DecidableEq, Repr

/-- `dup2` of a descriptor that is not open fails (the child exits 127 before exec); the new descriptor never has
    close-on-exec; `close` of a descriptor that is not open is ignored (glibc spawni.c). -/
def Act.run (t : Tab) : Act → Option Tab
  | .dup2 s d => match t s with
    | some e => some (t.put d { e with cloexec := false })
    | none => none
  | .close fd => some (t.del fd)

def runActs (t : Tab) : List Act → Option Tab
  | [] => some t
  | a :: as => match a.run t with
    | some t' => runActs t' as
    | none => none

/-! ### the handles `os_execute_impl` computes before it builds the file actions -/
structure Plumb where
  pipeIn : Option Fd      -- pipe_in / pipe_out / pipe_err: the child's end of a :pipe redirection (JANET_HANDLE_NONE = none)
  pipeOut : Option Fd
  pipeErr : Option Fd
  newIn : Option Fd       -- new_in / new_out / new_err: our end of the pipe, or the handle of the file / stream given
  newOut : Option Fd
  newErr : Option Fd
  srcIn : Option Fd       -- src_handles[0..2]: new_* unless it was one of 0,1,2 and has been duplicated above 2
  srcOut : Option Fd
  srcErr : Option Fd
  errIsOut : Bool         -- stderr_is_stdout  (:err :out)
  deriving DecidableEq, Repr

/-- `if (pipe_in != NONE) {…} else if (new_in != NONE && new_in != 0) {…}` -/
def inActs (p : Plumb) : List Act :=
  match p.pipeIn with
  | some q => [.dup2 q 0, .close q]
  | none => match p.newIn, p.srcIn with
    | some n, some s =>
      if n ≠ 0 then .dup2 s 0 :: (if p.srcIn ≠ p.srcOut ∧ p.srcIn ≠ p.srcErr then [.close s] else []) else []
    | _, _ => []

def outActs (p : Plumb) : List Act :=
  match p.pipeOut with
  | some q => [.dup2 q 1, .close q]
  | none => match p.newOut, p.srcOut with
    | some n, some s =>
      if n ≠ 1 then .dup2 s 1 :: (if p.srcOut ≠ p.srcErr then [.close s] else []) else []
    | _, _ => []

/-- `… else if (new_err != NONE && new_err != 2) {…} else if (stderr_is_stdout) { adddup2(1, 2) }` -/
def errActs (p : Plumb) : List Act :=
  match p.pipeErr with
  | some q => [.dup2 q 2, .close q]
  | none => match p.newErr, p.srcErr with
    | some n, some s => if n ≠ 2 then [.dup2 s 2, .close s] else (if p.errIsOut then [.dup2 1 2] else [])
    | _, _ => if p.errIsOut then [.dup2 1 2] else []

/-- the adddup2 / addclose calls of `os_execute_impl`, in program order -/
def fileActions (p : Plumb) : List Act := inActs p ++ outActs p ++ errActs p

/-! ### requests, kernel answers, system calls -/
inductive Redir where
  | inherit                               -- key absent / nil
  | pipe                                  -- :pipe   (os/spawn only)
  | errToOut                              -- :err :out  (os/spawn only, :err only)
  | handle (fd : Fd) (isFile : Bool)      -- a core/file (fileno) or core/stream (handle)
  deriving DecidableEq, Repr

structure Req where
  isSpawn : Bool
  rin : Redir
  rout : Redir
  rerr : Redir
  deriving DecidableEq, Repr

/-- the kernel's answers, one per potential call -/
structure Ans where
  pin : Option (Fd × Fd)      -- pipe() for :in  -> (read end, write end), none = failure
  pout : Option (Fd × Fd)
  perr : Option (Fd × Fd)
  tmp0 : Option Fd            -- fcntl(src, F_DUPFD, 3) for src_handles[0..2]
  tmp1 : Option Fd
  tmp2 : Option Fd
  spawnOk : Bool
  dupIn : Option Fd           -- dup(handle) in get_stdio_for_handle for a core/file
  dupOut : Option Fd
  dupErr : Option Fd
  deriving Repr

inductive Sys where
  | pipe (r w : Fd)
  | pipeFail
  | setCloexec (fd : Fd)
  | setNonblock (fd : Fd)
  | dupAbove (src : Fd) (res : Option Fd)      -- fcntl(src, F_DUPFD, 3)
  | close (fd : Fd)
  | addDup2 (src dst : Fd)
  | addClose (fd : Fd)
  | spawn (ok : Bool)
  | dup (src : Fd) (res : Option Fd)
  deriving DecidableEq, Repr

structure PS where
  tab : Tab
  log : List Sys      -- in REVERSE program order

def PS.sys (s : PS) (c : Sys) : PS := { s with log := c :: s.log }
def PS.closeFd (s : PS) (fd : Fd) : PS := { tab := s.tab.del fd, log := .close fd :: s.log }
def PS.closeOpt (s : PS) : Option Fd → PS
  | some fd => s.closeFd fd
  | none => s

/-- `make_pipes(&pipe_x, reverse, &errflag)` = `janet_make_pipe(handles, reverse ? 2 : 1)` + swap.
    Returns (state, our end `new_x`, the child's end `pipe_x`, errflag). -/
def makePipes (s : PS) (k : Nat) (reverse : Bool) : Option (Fd × Fd) → PS × Option Fd × Option Fd × Bool
  | none => (s.sys .pipeFail, none, none, true)
  | some (r, w) =>
    let t := (s.tab.put r ⟨.pipeR k, false⟩).put w ⟨.pipeW k, false⟩
    if reverse then
      -- mode 2: handles[1] (write end) is ours: close-on-exec + non-blocking; the child reads from handles[0]
      let t := t.put w ⟨.pipeW k, true⟩
      ({ tab := t, log := .setNonblock w :: .setCloexec w :: .pipe r w :: s.log }, some w, some r, false)
    else
      -- mode 1: handles[0] (read end) is ours; the child writes to handles[1]
      let t := t.put r ⟨.pipeR k, true⟩
      ({ tab := t, log := .setNonblock r :: .setCloexec r :: .pipe r w :: s.log }, some r, some w, false)

def Redir.handleFd : Redir → Option Fd
  | .handle fd _ => some fd
  | _ => none

def Redir.isFileHandle : Redir → Bool
  | .handle _ f => f
  | _ => false

/-- one iteration of the `src_handles` loop: a source that is 0, 1 or 2 but not its own target is duplicated above 2
    (close-on-exec).  Returns (state, src, tmp, errflag). -/
def moveStd (moves : Bool) (s : PS) (i : Fd) (src : Option Fd) (ans : Option Fd) (err : Bool) : PS × Option Fd × Option Fd × Bool :=
  if !moves || err then (s, src, none, err) else
  match src with
  | none => (s, src, none, err)
  | some h =>
    if h > 2 || h = i then (s, src, none, err) else
    match ans with
    | none => (s.sys (.dupAbove h none), none, none, true)
    | some f =>
      match s.tab h with
      | none => (s.sys (.dupAbove h none), none, none, true)      -- EBADF
      | some e => ({ tab := s.tab.put f { e with cloexec := true }, log := .setCloexec f :: .dupAbove h (some f) :: s.log }, some f, some f, false)

def actSys : Act → Sys
  | .dup2 a b => .addDup2 a b
  | .close a => .addClose a

/-- the process value: JANET_PROC_OWNS_* flags and the descriptors of `proc->in/out/err` -/
structure ProcRec where
  ownsIn : Bool
  ownsOut : Bool
  ownsErr : Bool
  pin : Option Fd
  pout : Option Fd
  perr : Option Fd
  deriving DecidableEq, Repr

inductive SpawnRes where
  | pipesFailed                 -- "failed to create pipes"
  | spawnFailed                 -- posix_spawn returned an error
  | procFailed                  -- "failed to construct proc" (dup of a file handle failed)
  | ok (p : ProcRec)
  deriving DecidableEq, Repr

structure Run where
  parent : Tab                  -- the parent's table when os_execute_impl returns / panics
  log : List Sys                -- system calls in program order
  acts : List Act               -- file actions handed to posix_spawn ([] when it was not reached)
  atSpawn : Tab                 -- the parent's table at the time of posix_spawn (what the child starts from)
  plumb : Option Plumb          -- the handles the file actions were built from (none: posix_spawn was not reached)
  res : SpawnRes

/-- `get_stdio_for_handle(new_x, orig_x, …)`: a pipe end is wrapped as it is, a stream is used as it is, the handle of a
    core/file is duplicated.  Returns (state, descriptor of proc->x, failed). -/
def stdioFor (s : PS) (new : Option Fd) (r : Redir) (ans : Option Fd) : PS × Option Fd × Bool :=
  match new with
  | none => (s, none, false)
  | some h =>
    if r.isFileHandle then
      match ans, s.tab h with
      | some f, some e => ({ tab := s.tab.put f { e with cloexec := false }, log := .dup h (some f) :: s.log }, some f, false)
      | _, _ => (s.sys (.dup h none), none, true)
    else (s, some h, false)

/-- everything `os_execute_impl` has computed when it reaches `if (pipe_errflag)` -/
structure Setup where
  s : PS
  inPipe : Bool
  outPipe : Bool
  errPipe : Bool
  p : Plumb
  tmpIn : Option Fd
  tmpOut : Option Fd
  tmpErr : Option Fd
  err : Bool

/-- the first half of `os_execute_impl`: handle redirections, then the pipes (in, out, err), then the `src_handles` loop -/
def setup (moves : Bool) (rq : Req) (a : Ans) (t0 : Tab) : Setup :=
  let s0 : PS := { tab := t0, log := [] }
  let inPipe := rq.isSpawn && rq.rin == .pipe
  let outPipe := rq.isSpawn && rq.rout == .pipe
  let errPipe := rq.isSpawn && rq.rerr == .pipe
  let errIsOut := rq.isSpawn && rq.rerr == .errToOut
  -- redirections that are handles first, then the pipes
  let r1 := if inPipe then makePipes s0 0 true a.pin else (s0, rq.rin.handleFd, none, false)
  let r2 := if outPipe then makePipes r1.1 1 false a.pout else (r1.1, rq.rout.handleFd, none, false)
  let r3 := if errPipe then makePipes r2.1 2 false a.perr else (r2.1, if errIsOut then none else rq.rerr.handleFd, none, false)
  -- src_handles / tmp_handles
  let m1 := moveStd moves r3.1 0 r1.2.1 a.tmp0 (r1.2.2.2 || r2.2.2.2 || r3.2.2.2)
  let m2 := moveStd moves m1.1 1 r2.2.1 a.tmp1 m1.2.2.2
  let m3 := moveStd moves m2.1 2 r3.2.1 a.tmp2 m2.2.2.2
  { s := m3.1, inPipe, outPipe, errPipe,
    p := { pipeIn := r1.2.2.1, pipeOut := r2.2.2.1, pipeErr := r3.2.2.1, newIn := r1.2.1, newOut := r2.2.1, newErr := r3.2.1,
           srcIn := m1.2.1, srcOut := m2.2.1, srcErr := m3.2.1, errIsOut },
    tmpIn := m1.2.2.1, tmpOut := m2.2.2.1, tmpErr := m3.2.2.1, err := m3.2.2.2 }

/-- `os_execute_impl` (posix, JANET_EV), from the redirection table to the process value.  `moves` = the source moves
    redirection sources that are standard descriptors above 2 (regenerated fact `movesStdSources`). -/
def osExecute (moves : Bool) (rq : Req) (a : Ans) (t0 : Tab) : Run :=
  let u := setup moves rq a t0
  let s := u.s
  let p := u.p
  if u.err then
    let s := ((s.closeOpt u.tmpIn).closeOpt u.tmpOut).closeOpt u.tmpErr
    let s := ((s.closeOpt p.pipeIn).closeOpt p.pipeOut).closeOpt p.pipeErr
    let s := if u.inPipe then s.closeOpt p.newIn else s
    let s := if u.outPipe then s.closeOpt p.newOut else s
    let s := if u.errPipe then s.closeOpt p.newErr else s
    { parent := s.tab, log := s.log.reverse, acts := [], atSpawn := s.tab, plumb := none, res := .pipesFailed }
  else
  let acts := fileActions p
  let atSpawn := s.tab
  let s : PS := { s with log := .spawn a.spawnOk :: (acts.map actSys).reverse ++ s.log }
  let s := ((s.closeOpt p.pipeIn).closeOpt p.pipeOut).closeOpt p.pipeErr
  let s := ((s.closeOpt u.tmpIn).closeOpt u.tmpOut).closeOpt u.tmpErr
  if !a.spawnOk then
    let s := if u.inPipe then s.closeOpt p.newIn else s
    let s := if u.outPipe then s.closeOpt p.newOut else s
    let s := if u.errPipe then s.closeOpt p.newErr else s
    { parent := s.tab, log := s.log.reverse, acts, atSpawn, plumb := some p, res := .spawnFailed }
  else if !rq.isSpawn then
    { parent := s.tab, log := s.log.reverse, acts, atSpawn, plumb := some p, res := .ok ⟨false, false, false, none, none, none⟩ }
  else
  let r1 := stdioFor s p.newIn rq.rin a.dupIn
  if r1.2.2 then
    let s := r1.1
    let s := if u.outPipe then s.closeOpt p.newOut else s
    let s := if u.errPipe then s.closeOpt p.newErr else s
    { parent := s.tab, log := s.log.reverse, acts, atSpawn, plumb := some p, res := .procFailed }
  else
  let r2 := stdioFor r1.1 p.newOut rq.rout a.dupOut
  if r2.2.2 then
    let s := r2.1
    let s := if u.errPipe then s.closeOpt p.newErr else s
    { parent := s.tab, log := s.log.reverse, acts, atSpawn, plumb := some p, res := .procFailed }
  else
  let r3 := stdioFor r2.1 p.newErr rq.rerr a.dupErr
  if r3.2.2 then
    { parent := r3.1.tab, log := r3.1.log.reverse, acts, atSpawn, plumb := some p, res := .procFailed }
  else
    { parent := r3.1.tab, log := r3.1.log.reverse, acts, atSpawn, plumb := some p,
      res := .ok ⟨u.inPipe, u.outPipe, u.errPipe, r1.2.1, r2.2.1, r3.2.1⟩ }

/-- the child's descriptor table when the new program starts (none: a file action failed, the child exits 127) -/
def Run.child (r : Run) : Option Tab := (runActs r.atSpawn r.acts).map Tab.exec

/-! ### life cycle of the process value: JANET_PROC_WAITED / WAITING / OWNS_*; `os/proc-wait`, the reaper callback,
    `os/proc-close` -/
structure ProcSt where
  waited : Bool := false
  waiting : Bool := false
  owns : Bool × Bool × Bool := (false, false, false)     -- OWNS_STDIN, OWNS_STDOUT, OWNS_STDERR
  fds : Option Fd × Option Fd × Option Fd := (none, none, none)
  returnCode : Option Int := none                          -- proc->return_code (-1 = none)
  closedFds : List Fd := []                                -- descriptors closed by os/proc-close, in order
  deriving Repr

inductive ProcOp where
  | wait                         -- os/proc-wait  (os_proc_wait_impl)
  | reaped (status : Int) (waiterAlive : Bool)   -- janet_proc_wait_cb: the helper thread delivered the decoded status
  | close                        -- os/proc-close
  deriving Repr

inductive ProcOut where
  | suspended                    -- the fiber waits for the reaper
  | errWaitTwice                 -- "cannot wait twice on a process"
  | resumed (status : Int)       -- the waiting fiber is resumed with the status
  | dropped                      -- the waiter is gone (cancelled / timed out): nobody is resumed
  | nilResult                    -- os/proc-close when somebody waits / has waited
  deriving DecidableEq, Repr

def ProcSt.waitImpl (p : ProcSt) : ProcSt × ProcOut :=
  if p.waited || p.waiting then (p, .errWaitTwice) else ({ p with waiting := true }, .suspended)

def closeOwned (owned : Bool) (fd : Option Fd) (acc : List Fd) : List Fd :=
  match owned, fd with
  | true, some f => acc ++ [f]
  | _, _ => acc

def ProcSt.step (p : ProcSt) : ProcOp → ProcSt × ProcOut
  | .wait => p.waitImpl
  | .reaped st alive =>
    ({ p with returnCode := some st, waited := true, waiting := false }, if alive then .resumed st else .dropped)
  | .close =>
    let c := closeOwned p.owns.2.2 p.fds.2.2 (closeOwned p.owns.2.1 p.fds.2.1 (closeOwned p.owns.1 p.fds.1 p.closedFds))
    let p := { p with closedFds := c, owns := (false, false, false) }
    if p.waited || p.waiting then (p, .nilResult) else p.waitImpl

def ProcSt.run (p : ProcSt) : List ProcOp → ProcSt × List ProcOut
  | [] => (p, [])
  | o :: os =>
    let (p', r) := p.step o
    let (p'', rs) := p'.run os
    (p'', r :: rs)

def ProcSt.ofRec (r : ProcRec) : ProcSt :=
  { owns := (r.ownsIn, r.ownsOut, r.ownsErr), fds := (r.pin, r.pout, r.perr) }

end JanetModel.Proc
