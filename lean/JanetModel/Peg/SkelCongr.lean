/-
Which operands `rule[k]` a case body of `peg_rule` consults - computed IN LEAN from the extracted IR program (`okProg`, a
decidable check of the program against a footprint), and the congruence that goes with it: two operand records that agree on
the footprint give the same run (`exec_congr`, `execL_congr`).

Used by Peg/TieSkel.lean (`decoded_*`): the `rule_x` theorems are stated for operand records that name the operands of the
decoded instruction; with the congruence they hold for the RAW words of the bytecode at `pc` (`rawOps`), whatever else the
bytecode contains - so the positions `k` at which the C reads `rule[k]` (extracted) and the positions at which `Decode.decode`
reads the instruction fields (the model) are compared by Lean, on every run, against the current peg.c.
-/
import JanetModel.Peg.Skel

namespace JanetModel.Peg.Skel

/-- a set of operand positions: listed ones, and (for the variadic / indexed operands) everything from a position on -/
structure FP where
  w : List Nat := []            -- rule[k] read as a number
  wFrom : Option Nat := none
  r : List Nat := []            -- s->bytecode + rule[k]
  rFrom : Option Nat := none
  c : List Nat := []            -- s->constants[rule[k]]
  b : List Nat := []            -- bytes at rule + k

def FP.W (f : FP) (j : Nat) : Bool := f.w.contains j || (match f.wFrom with | some a => decide (a ≤ j) | none => false)
def FP.R (f : FP) (j : Nat) : Bool := f.r.contains j || (match f.rFrom with | some a => decide (a ≤ j) | none => false)
def FP.C (f : FP) (j : Nat) : Bool := f.c.contains j
def FP.B (f : FP) (j : Nat) : Bool := f.b.contains j
def FP.WFrom (f : FP) (a : Nat) : Bool := match f.wFrom with | some x => decide (x ≤ a) | none => false
def FP.RFrom (f : FP) (a : Nat) : Bool := match f.rFrom with | some x => decide (x ≤ a) | none => false

variable {ρ : Type}

structure Agree (f : FP) (O O' : Operands ρ) : Prop where
  word : ∀ j, f.W j = true → O.word j = O'.word j
  rule : ∀ j, f.R j = true → O.rule j = O'.rule j
  const : ∀ j, f.C j = true → O.const j = O'.const j
  bytes : ∀ j, f.B j = true → O.bytes j = O'.bytes j

theorem FP.W_of_from {f : FP} {a j : Nat} (h : f.WFrom a = true) (hj : a ≤ j) : f.W j = true := by
  unfold FP.WFrom at h; unfold FP.W
  cases hw : f.wFrom with
  | none => simp [hw] at h
  | some x => simp [hw] at h; simp; right; omega

theorem FP.R_of_from {f : FP} {a j : Nat} (h : f.RFrom a = true) (hj : a ≤ j) : f.R j = true := by
  unfold FP.RFrom at h; unfold FP.R
  cases hw : f.rFrom with
  | none => simp [hw] at h
  | some x => simp [hw] at h; simp; right; omega

def okWE (f : FP) : WE → Bool
  | .op k => f.W k
  | .clamp k => f.W k
  | .lit _ => true
  | .byteOf k _ => f.W k
  | .lowBits k _ => f.W k

def okRE (f : FP) : RE → Bool
  | .op k => f.R k
  | .argsAt b _ => f.RFrom b
  | .argsLast b k => f.RFrom b && f.W k

def okCond (f : FP) : Cond → Bool
  | .tagZero k => f.W k
  | .numGtWord _ w => okWE f w
  | .numLtWord _ w => okWE f w
  | .wordIsMax w => okWE f w
  | .ptrPlusGtEnd _ w => okWE f w
  | .opIs _ => f.W 0
  | .numLtWordPred _ w => okWE f w
  | .bitSet base _ => f.WFrom base
  | .offLtStart _ k => f.W k
  | .offGtEnd _ k => f.W k
  | .tagAtEq _ w => okWE f w
  | .wordBit k _ => f.W k
  | .weGt a b => okWE f a && okWE f b
  | .not c => okCond f c
  | .and a b => okCond f a && okCond f b
  | .or a b => okCond f a && okCond f b
  | _ => true

def okVE (f : FP) : VE → Bool
  | .const k => f.C k
  | .capAt _ w => okWE f w
  | .argAt k => f.W k
  | .replaceOf k _ => f.C k
  | .s64Of _ w => okWE f w
  | .numSigned _ w => okWE f w
  | _ => true

def okStmt (f : FP) : Stmt → Bool
  | .call _ k _ => f.R k
  | .callE _ re _ => okRE f re
  | .valDef _ e => okVE f e
  | .push _ t => f.W t
  | .cmpLit _ _ base w => f.B base && okWE f w
  | .scanNum _ _ _ _ k => f.W k
  | .callOff _ re _ k => okRE f re && f.W k
  | _ => true

def okProg (f : FP) : Prog → Bool
  | .seq st rest => okStmt f st && okProg f rest
  | .ite c t e => okCond f c && okProg f t && okProg f e
  | .tail k => f.R k
  | .tailE re => okRE f re
  | .retPlus _ w => okWE f w
  | .loop c body rest => okCond f c && okProg f body && okProg f rest
  | .downLoop _ _ body rest => okProg f body && okProg f rest
  | .downLoopW _ w body rest => okWE f w && okProg f body && okProg f rest
  | _ => true

section
variable {f : FP} {O O' : Operands ρ} (h : Agree f O O')
include h

theorem evalWE_congr {w : WE} (hw : okWE f w = true) : evalWE O w = evalWE O' w := by
  cases w <;> simp only [okWE] at hw <;> simp only [evalWE] <;> first | rfl | rw [h.word _ hw]

theorem evalRE_congr {L : Loc} {re : RE} (hw : okRE f re = true) : evalRE O L re = evalRE O' L re := by
  cases re with
  | op k => exact h.rule _ hw
  | argsAt b n => exact h.rule _ (FP.R_of_from hw (Nat.le_add_right _ _))
  | argsLast b k =>
    simp only [okRE, Bool.and_eq_true] at hw
    simp only [evalRE, h.word _ hw.2]
    exact h.rule _ (FP.R_of_from hw.1 (Nat.le_add_right _ _))

theorem evalCond_congr (E : Env) (L : Loc) (s : St) : ∀ {c : Cond}, okCond f c = true → evalCond E O L s c = evalCond E O' L s c := by
  intro c
  induction c with
  | not c ih => intro hc; simp only [okCond] at hc; simp only [evalCond, ih hc]
  | and a b iha ihb => intro hc; simp only [okCond, Bool.and_eq_true] at hc; simp only [evalCond, iha hc.1, ihb hc.2]
  | or a b iha ihb => intro hc; simp only [okCond, Bool.and_eq_true] at hc; simp only [evalCond, iha hc.1, ihb hc.2]
  | tagZero k => intro hc; simp only [evalCond, h.word _ hc]
  | numGtWord n w => intro hc; simp only [evalCond, evalWE_congr h hc]
  | numLtWord n w => intro hc; simp only [evalCond, evalWE_congr h hc]
  | wordIsMax w => intro hc; simp only [evalCond, evalWE_congr h hc]
  | ptrPlusGtEnd x w => intro hc; simp only [evalCond, evalWE_congr h hc]
  | opIs n => intro hc; simp only [evalCond, h.word _ hc]
  | numLtWordPred n w => intro hc; simp only [evalCond, evalWE_congr h hc]
  | bitSet base n => intro hc; simp only [evalCond, h.word _ (FP.W_of_from hc (Nat.le_add_right _ _))]
  | offLtStart x k => intro hc; simp only [evalCond, h.word _ hc]
  | offGtEnd x k => intro hc; simp only [evalCond, h.word _ hc]
  | tagAtEq n w => intro hc; simp only [evalCond, evalWE_congr h hc]
  | wordBit kk bit => intro hc; simp only [evalCond, h.word _ hc]
  | weGt a b => intro hc; simp only [okCond, Bool.and_eq_true] at hc; simp only [evalCond, evalWE_congr h hc.1, evalWE_congr h hc.2]
  | _ => intro _; rfl

theorem evalVE_congr (E : Env) (L : Loc) (s : St) {e : VE} (he : okVE f e = true) : evalVE E O L s e = evalVE E O' L s e := by
  cases e <;> simp only [okVE] at he <;> simp only [evalVE] <;>
    first | rfl | rw [h.const _ he] | rw [evalWE_congr h he] | rw [h.word _ he]

theorem execStmt_congr (E : Env) (k : OK ρ) (L : Loc) (s : St) {st : Stmt} (hs : okStmt f st = true) :
    execStmt E k O L s st = execStmt E k O' L s st := by
  cases st with
  | call d kk a => simp only [execStmt, h.rule _ hs]
  | callE d re a => simp only [execStmt, evalRE_congr h hs]
  | valDef v e => simp only [execStmt, evalVE_congr h E L s hs]
  | push v t => simp only [execStmt, h.word _ hs]
  | cmpLit n x base w =>
    simp only [okStmt, Bool.and_eq_true] at hs
    simp only [execStmt, h.bytes _ hs.1, evalWE_congr h hs.2]
  | scanNum n v a b kk => simp only [execStmt, h.word _ hs]
  | callOff d re a kk =>
    simp only [okStmt, Bool.and_eq_true] at hs
    simp only [execStmt, evalRE_congr h hs.1, h.word _ hs.2]
  | _ => rfl

theorem exec_congr (E : Env) (k : OK ρ) : ∀ (p : Prog), okProg f p = true → ∀ (L : Loc) (s : St), exec E k O p L s = exec E k O' p L s := by
  intro p
  induction p with
  | seq st rest ih =>
    intro hp L s
    simp only [okProg, Bool.and_eq_true] at hp
    simp only [exec, execStmt_congr h E k L s hp.1]
    cases execStmt E k O' L s st with
    | error e => rfl
    | ok x => simp only [bind, Except.bind]; exact ih hp.2 _ _
  | ite c t e iht ihe =>
    intro hp L s
    simp only [okProg, Bool.and_eq_true] at hp
    simp only [exec, evalCond_congr h E L s hp.1.1, iht hp.1.2, ihe hp.2]
  | tail kk => intro hp L s; simp only [exec, h.rule _ hp]
  | tailE re => intro hp L s; simp only [exec, evalRE_congr h hp]
  | retPlus x w => intro hp L s; simp only [exec, evalWE_congr h hp]
  | _ => intros; rfl

theorem execL_congr (E : Env) (k : OK ρ) (fuel : Nat) :
    ∀ (p : Prog), okProg f p = true → ∀ (L : Loc) (s : St), execL E k O fuel p L s = execL E k O' fuel p L s := by
  intro p
  induction p with
  | seq st rest ih =>
    intro hp L s
    simp only [okProg, Bool.and_eq_true] at hp
    simp only [execL, execStmt_congr h E k L s hp.1]
    cases execStmt E k O' L s st with
    | error e => rfl
    | ok x => simp only [bind, Except.bind]; exact ih hp.2 _ _
  | ite c t e iht ihe =>
    intro hp L s
    simp only [okProg, Bool.and_eq_true] at hp
    simp only [execL, evalCond_congr h E L s hp.1.1, iht hp.1.2, ihe hp.2]
  | tail kk => intro hp L s; simp only [execL, h.rule _ hp]
  | tailE re => intro hp L s; simp only [execL, evalRE_congr h hp]
  | retPlus x w => intro hp L s; simp only [execL, evalWE_congr h hp]
  | loop c body rest ihb ihr =>
    intro hp L s
    simp only [okProg, Bool.and_eq_true] at hp
    have hc : (fun L s => evalCond E O L s c) = (fun L s => evalCond E O' L s c) :=
      funext fun L => funext fun s => evalCond_congr h E L s hp.1.1
    have hb : (fun L s => execL E k O fuel body L s) = (fun L s => execL E k O' fuel body L s) :=
      funext fun L => funext fun s => ihb hp.1.2 L s
    simp only [execL, hc, hb]
    cases loopN (fun L s => evalCond E O' L s c) (fun L s => execL E k O' fuel body L s) fuel L s with
    | error e => rfl
    | ok x =>
      cases x with
      | cont L' s' => simp only [bind, Except.bind]; exact ihr hp.2 _ _
      | _ => rfl
  | downLoop i bound body rest ihb ihr =>
    intro hp L s
    simp only [okProg, Bool.and_eq_true] at hp
    have hb : (fun L s => execL E k O fuel body L s) = (fun L s => execL E k O' fuel body L s) :=
      funext fun L => funext fun s => ihb hp.1 L s
    simp only [execL, hb]
    cases downN i (fun L s => execL E k O' fuel body L s) (evalNE L s bound) L s with
    | error e => rfl
    | ok x =>
      cases x with
      | cont L' s' => simp only [bind, Except.bind]; exact ihr hp.2 _ _
      | _ => rfl
  | downLoopW i bound body rest ihb ihr =>
    intro hp L s
    simp only [okProg, Bool.and_eq_true] at hp
    have hb : (fun L s => execL E k O fuel body L s) = (fun L s => execL E k O' fuel body L s) :=
      funext fun L => funext fun s => ihb hp.1.2 L s
    simp only [execL, hb, evalWE_congr h hp.1.1]
    cases downN i (fun L s => execL E k O' fuel body L s) (evalWE O' bound) L s with
    | error e => rfl
    | ok x =>
      cases x with
      | cont L' s' => simp only [bind, Except.bind]; exact ihr hp.2 _ _
      | _ => rfl
  | _ => intros; rfl

theorem run_congr (E : Env) (k : OK ρ) (p : Prog) (hp : okProg f p = true) (s : St) (pos : Nat) :
    run E k O p s pos = run E k O' p s pos := exec_congr h E k p hp _ _

theorem runL_congr (E : Env) (k : OK ρ) (fuel : Nat) (p : Prog) (hp : okProg f p = true) (s : St) (pos : Nat) :
    runL E k O fuel p s pos = runL E k O' fuel p s pos := by
  simp only [runL, execL_congr h E k fuel p hp]

end

end JanetModel.Peg.Skel
