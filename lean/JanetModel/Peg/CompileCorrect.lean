/- Correctness of the compile model: the simulation invariant of `compile1` and `compile_model_correct`. -/
import JanetModel.Peg.CompileLemmas
import JanetModel.Peg.CompileBeq
set_option linter.unusedSimpArgs false
namespace JanetModel.Peg
open Spec Compile JanetModel.Gen.Peg

/-! ### grammar tables -/

def HeapWF (h : List Tbl) : Prop :=
  ∀ (id : Nat) (t : Tbl), h[id]? = some t → t.sc = t.rules :: scOf h t.proto ∧ t.level = levelOf h t.proto + 1 ∧ t.level < maxProtoDepth ∧
    (∀ p, t.proto = some p → p < id)

def GOk (h : List Tbl) (g : Option Nat) : Prop := ∀ id, g = some id → id < h.length

def HeapExt (h h' : List Tbl) : Prop :=
  h.length ≤ h'.length ∧ ∀ (id : Nat) (t : Tbl), h[id]? = some t →
    ∃ t' : Tbl, h'[id]? = some t' ∧ t'.rules = t.rules ∧ t'.proto = t.proto ∧ t'.sc = t.sc ∧ t'.level = t.level

theorem HeapExt.refl (h : List Tbl) : HeapExt h h := ⟨Nat.le_refl _, fun _ t ht => ⟨t, ht, rfl, rfl, rfl, rfl⟩⟩

theorem HeapExt.trans {a b c : List Tbl} (h1 : HeapExt a b) (h2 : HeapExt b c) : HeapExt a c := by
  refine ⟨Nat.le_trans h1.1 h2.1, fun id t ht => ?_⟩
  obtain ⟨t1, e1, r1, p1, s1, l1⟩ := h1.2 id t ht
  obtain ⟨t2, e2, r2, p2, s2, l2⟩ := h2.2 id t1 e1
  exact ⟨t2, e2, r2.trans r1, p2.trans p1, s2.trans s1, l2.trans l1⟩

theorem HeapExt.scOf {h h' : List Tbl} (e : HeapExt h h') (g : Option Nat) (hg : GOk h g) : scOf h' g = scOf h g := by
  cases g with
  | none => rfl
  | some id =>
    have hid := hg id rfl
    have : h[id]? = some h[id] := List.getElem?_eq_getElem hid
    obtain ⟨t', e1, _, _, s1, _⟩ := e.2 id _ this
    simp [Compile.scOf, this, e1, s1]

theorem HeapExt.levelOf {h h' : List Tbl} (e : HeapExt h h') (g : Option Nat) (hg : GOk h g) : levelOf h' g = levelOf h g := by
  cases g with
  | none => rfl
  | some id =>
    have hid := hg id rfl
    have : h[id]? = some h[id] := List.getElem?_eq_getElem hid
    obtain ⟨t', e1, _, _, _, l1⟩ := e.2 id _ this
    simp [Compile.levelOf, this, e1, l1]

theorem GOk.ext {h h' : List Tbl} {g : Option Nat} (hg : GOk h g) (e : HeapExt h h') : GOk h' g :=
  fun id hid => Nat.lt_of_lt_of_le (hg id hid) e.1

theorem HeapWF.ext_put {h : List Tbl} (hwf : HeapWF h) (id : Nat) (f : Tbl → Tbl)
    (hf : ∀ t, (f t).rules = t.rules ∧ (f t).proto = t.proto ∧ (f t).sc = t.sc ∧ (f t).level = t.level) :
    HeapExt h (h.modify id f) ∧ HeapWF (h.modify id f) := by
  have hext : HeapExt h (h.modify id f) := by
    refine ⟨by simp, fun j t ht => ?_⟩
    by_cases hj : id = j
    · subst hj
      refine ⟨f t, by simp [List.getElem?_modify, ht], (hf t).1, (hf t).2.1, (hf t).2.2.1, (hf t).2.2.2⟩
    · exact ⟨t, by simp [List.getElem?_modify, hj, ht], rfl, rfl, rfl, rfl⟩
  refine ⟨hext, fun j t' ht' => ?_⟩
  have hjl : j < h.length := by
    have := (List.getElem?_eq_some_iff.mp ht').1; simpa using this
  have htj : h[j]? = some h[j] := List.getElem?_eq_getElem hjl
  obtain ⟨t'', e1, r1, p1, s1, l1⟩ := hext.2 j _ htj
  rw [e1] at ht'; cases ht'
  obtain ⟨w1, w2, w3, w4⟩ := hwf j _ htj
  have gp : GOk h h[j].proto := fun p hp => Nat.lt_trans (w4 p hp) hjl
  refine ⟨?_, ?_, ?_, ?_⟩
  · rw [s1, r1, p1, hext.scOf _ gp]; exact w1
  · rw [l1, p1, hext.levelOf _ gp]; exact w2
  · rw [l1]; exact w3
  · rw [p1]; exact w4

theorem lookupKw_resolve (heap : List Tbl) (hwf : HeapWF heap) : ∀ f g name, levelOf heap g < f → GOk heap g →
    match lookupKw heap f g name with
    | some (g', q) => g' < heap.length ∧ Spec.resolve (scOf heap g) name = some ⟨scOf heap (some g'), q⟩
    | none => Spec.resolve (scOf heap g) name = none := by
  intro f
  induction f with
  | zero => intro g name h; omega
  | succ f ih =>
    intro g name hl hg
    cases g with
    | none => simp [lookupKw, scOf, Spec.resolve]
    | some id =>
      have hid := hg id rfl
      have ht : heap[id]? = some heap[id] := List.getElem?_eq_getElem hid
      obtain ⟨w1, w2, w3, w4⟩ := hwf id _ ht
      have hsc : scOf heap (some id) = heap[id].rules :: scOf heap heap[id].proto := by
        simp only [scOf, ht]; exact w1
      simp only [lookupKw, ht]
      cases hs : lookupScope heap[id].rules name with
      | some p =>
        simp only []
        refine ⟨hid, ?_⟩
        rw [hsc, Spec.resolve, hs]
      | none =>
        simp only []
        have hl' : levelOf heap heap[id].proto < f := by
          simp only [levelOf, ht] at hl; omega
        have gp : GOk heap heap[id].proto := fun p hp => Nat.lt_trans (w4 p hp) hid
        have := ih heap[id].proto name hl' gp
        rw [hsc, Spec.resolve, hs]
        exact this

theorem levelOf_lt (heap : List Tbl) (hwf : HeapWF heap) (g : Option Nat) : levelOf heap g < maxProtoDepth + 1 := by
  cases g with
  | none => simp [levelOf]
  | some id =>
    simp only [levelOf]
    cases ht : heap[id]? with
    | none => simp
    | some t => have := (hwf id t ht).2.2.1; simp only []; omega

theorem resolveKw_ok (dflt : Scope) (heap : List Tbl) (hwf : HeapWF heap) : ∀ i g p g1 q il,
    resolveKw dflt heap i g p = some (g1, q, il) → GOk heap g →
    GOk heap g1 ∧ 1 ≤ il ∧ il ≤ i ∧ asRef q = none ∧
      ∀ n, fetchN dflt (n + (i - il)) ⟨scOf heap g, p⟩ = fetchN dflt n ⟨scOf heap g1, q⟩ := by
  intro i
  induction i with
  | zero => intro g p g1 q il h; simp [resolveKw] at h
  | succ i ih =>
    intro g p g1 q il h hg
    simp only [resolveKw] at h
    cases hr : asRef p with
    | none =>
      simp only [hr] at h
      cases h
      refine ⟨hg, by omega, Nat.le_refl _, hr, fun n => by simp⟩
    | some name =>
      simp only [hr] at h
      have hp := asRef_eq hr
      subst hp
      have hlk := lookupKw_resolve heap hwf (maxProtoDepth + 1) g name (levelOf_lt heap hwf g) hg
      cases hl : lookupKw heap (maxProtoDepth + 1) g name with
      | some gq =>
        obtain ⟨g', q'⟩ := gq
        simp only [hl] at h hlk
        obtain ⟨hg', hres⟩ := hlk
        obtain ⟨a1, a2, a3, a4, a5⟩ := ih (some g') q' g1 q il h (fun id hid => by cases hid; exact hg')
        refine ⟨a1, a2, by omega, a4, fun n => ?_⟩
        rw [show n + (i + 1 - il) = (n + (i - il)) + 1 by omega]
        rw [fetchN]
        simp only [hres]
        exact a5 n
      | none =>
        simp only [hl] at h hlk
        cases hd : lookupScope dflt name with
        | none => simp [hd] at h
        | some q' =>
          simp only [hd] at h
          obtain ⟨a1, a2, a3, a4, a5⟩ := ih g q' g1 q il h hg
          refine ⟨a1, a2, by omega, a4, fun n => ?_⟩
          rw [show n + (i + 1 - il) = (n + (i - il)) + 1 by omega]
          rw [fetchN]
          simp only [hlk, hd]
          exact a5 n
/-! ### the invariant -/

abbrev Pend := Nat × List Scope × Patt

def szOf (q : Patt) : Nat := match shape q with | some i => encSize i | none => 0
def keySc (q : Patt) (sc : List Scope) : List Scope := if isPrim q then [] else sc

def DoneAt (b : B) (a : Nat) (sc : List Scope) (q : Patt) : Prop :=
  ∃ (i : Instr Patt) (addrs : List Nat) (cidx : Nat),
    shape q = some i ∧ addrs.length = i.kids.length ∧ hdrAt b.code a (encode (i.rebuild addrs) cidx) ∧
    constOk b.consts i cidx ∧ ∀ pr ∈ addrs.zip i.kids, (pr.1, (⟨sc, pr.2⟩ : Closure)) ∈ b.log

/-- the form compiles to a tag-reading instruction (spec_reference / spec_backmatch) -/
def TaggedPatt (q : Patt) : Prop := ∃ i, shape q = some i ∧ i.readsTags = true

def Fin (A : List Pend) (b : B) (a : Nat) (sc : List Scope) (q : Patt) : Prop :=
  (a, sc, q) ∈ A ∨ (DoneAt b a sc q ∧ (∀ pe ∈ A, a + szOf q ≤ pe.1 ∨ pe.1 + szOf pe.2.2 ≤ a) ∧
    (TaggedPatt q → b.hasBackref = true))

structure Frame (b b' : B) : Prop where
  len : b.code.length ≤ b'.code.length
  code : ∀ k, k < b.code.length → b'.code.getD k 0 = b.code.getD k 0
  consts : ∀ (k : Nat) (v : Val), b.consts[k]? = some v → b'.consts[k]? = some v
  log : ∀ x, x ∈ b.log → x ∈ b'.log
  heap : HeapExt b.heap b'.heap
  flag : b.hasBackref = true → b'.hasBackref = true

theorem Frame.refl (b : B) : Frame b b := ⟨Nat.le_refl _, fun _ _ => rfl, fun _ _ h => h, fun _ h => h, HeapExt.refl _, fun h => h⟩

theorem Frame.trans {a b c : B} (h1 : Frame a b) (h2 : Frame b c) : Frame a c :=
  ⟨Nat.le_trans h1.len h2.len, fun k hk => (h2.code k (Nat.lt_of_lt_of_le hk h1.len)).trans (h1.code k hk),
   fun k v h => h2.consts k v (h1.consts k v h), fun x h => h2.log x (h1.log x h), h1.heap.trans h2.heap,
   fun h => h2.flag (h1.flag h)⟩

structure Inv (dflt : Scope) (A : List Pend) (b : B) : Prop where
  prims : ∀ e ∈ b.prims, Fin A b e.2 [] e.1
  root : ∀ e ∈ b.root, Fin A b e.2 [] e.1
  heap : ∀ t ∈ b.heap, ∀ e ∈ t.cache, Fin A b e.2 t.sc e.1
  log : ∀ x ∈ b.log, ∃ sc q h, h ≤ maxHops ∧ (∀ n, fetchN dflt (n + h) x.2 = fetchN dflt n ⟨sc, q⟩) ∧ Fin A b x.1 (keySc q sc) q
  pend : ∀ pe ∈ A, pe.1 + szOf pe.2.2 ≤ b.code.length
  wf : HeapWF b.heap

theorem szOf_eq {q : Patt} {i : Instr Patt} (h : shape q = some i) : szOf q = encSize i := by simp [szOf, h]

theorem DoneAt.size {b : B} {a : Nat} {sc : List Scope} {q : Patt} (h : DoneAt b a sc q) : a + szOf q ≤ b.code.length := by
  obtain ⟨i, addrs, c, hs, hl, hh, _⟩ := h
  have := hh.1
  rw [encode_length i addrs c hl] at this
  rw [szOf_eq hs]; exact this

/-- a finished header survives anything that keeps its words -/
theorem DoneAt.mono {b b' : B} {a : Nat} {sc : List Scope} {q : Patt} (h : DoneAt b a sc q)
    (hlen : b.code.length ≤ b'.code.length)
    (hcode : ∀ k, a ≤ k → k < a + szOf q → b'.code.getD k 0 = b.code.getD k 0)
    (hconsts : ∀ (k : Nat) (v : Val), b.consts[k]? = some v → b'.consts[k]? = some v)
    (hlog : ∀ x, x ∈ b.log → x ∈ b'.log) : DoneAt b' a sc q := by
  have hsz := h.size
  obtain ⟨i, addrs, c, hs, hl, hh, hc, hk⟩ := h
  refine ⟨i, addrs, c, hs, hl, ⟨Nat.le_trans hh.1 hlen, fun k hk' => ?_⟩, ?_, fun pr hpr => hlog _ (hk pr hpr)⟩
  · rw [hcode (a + k) (by omega) (by rw [szOf_eq hs, ← encode_length i addrs c hl]; omega)]
    exact hh.2 k hk'
  · unfold constOk at hc ⊢
    cases hco : i.constOf with
    | none => simp
    | some v => simp only [hco] at hc ⊢; exact hconsts _ _ hc

theorem Fin.mono {A : List Pend} {b b' : B} {a : Nat} {sc : List Scope} {q : Patt} (h : Fin A b a sc q) (f : Frame b b') :
    Fin A b' a sc q := by
  rcases h with h | ⟨h, hd, hfl⟩
  · exact Or.inl h
  · have := h.size
    exact Or.inr ⟨h.mono f.len (fun k _ hk => f.code k (by omega)) f.consts f.log, hd, fun ht => f.flag (hfl ht)⟩

theorem Inv.mono_tables {dflt : Scope} {A : List Pend} {b b' : B} (hi : Inv dflt A b) (f : Frame b b')
    (hp : b'.prims = b.prims) (hr : b'.root = b.root) (hh : b'.heap = b.heap) (hl : b'.log = b.log) : Inv dflt A b' := by
  refine ⟨?_, ?_, ?_, ?_, ?_, ?_⟩
  · rw [hp]; exact fun e he => (hi.prims e he).mono f
  · rw [hr]; exact fun e he => (hi.root e he).mono f
  · rw [hh]; exact fun t ht e he => (hi.heap t ht e he).mono f
  · rw [hl]; intro x hx
    obtain ⟨sc, q, h, h1, h2, h3⟩ := hi.log x hx
    exact ⟨sc, q, h, h1, h2, h3.mono f⟩
  · exact fun pe hpe => Nat.le_trans (hi.pend pe hpe) f.len
  · rw [hh]; exact hi.wf
/-! ### the induction -/

theorem patch_length (code : List Nat) (r : Nat) (ws : List Nat) : (patch code r ws).length = code.length := by simp [patch]

theorem patch_getD_in (code : List Nat) (r : Nat) (ws : List Nat) (k : Nat) (h1 : r ≤ k) (h2 : k < r + ws.length)
    (h3 : r + ws.length ≤ code.length) : (patch code r ws).getD k 0 = ws.getD (k - r) 0 := by
  have hk : k < code.length := by omega
  simp [patch, List.getD_eq_getElem?_getD, List.getElem?_map, List.getElem?_range, hk, h1, h2]

theorem patch_getD_out (code : List Nat) (r : Nat) (ws : List Nat) (k : Nat) (h : ¬ (r ≤ k ∧ k < r + ws.length)) :
    (patch code r ws).getD k 0 = code.getD k 0 := by
  by_cases hk : k < code.length
  · simp [patch, List.getD_eq_getElem?_getD, List.getElem?_map, List.getElem?_range, hk, h]
  · simp [patch, List.getD_eq_getElem?_getD, List.getElem?_map, List.getElem?_range, hk]

theorem lookupCache_some {c : List (Patt × Nat)} {q : Patt} {a : Nat} (h : lookupCache c q = some a) :
    ∃ e ∈ c, e.1.beq q = true ∧ e.2 = a := by
  unfold lookupCache at h
  cases hf : c.find? (fun e => e.1.beq q) with
  | none => simp [hf] at h
  | some e =>
    simp [hf] at h
    exact ⟨e, List.mem_of_find?_eq_some hf, by simpa using List.find?_some hf, h⟩

theorem Inv.addLog {dflt : Scope} {A : List Pend} {b : B} (hi : Inv dflt A b) (a : Nat) (c : Closure)
    (hn : ∃ sc q h, h ≤ maxHops ∧ (∀ n, fetchN dflt (n + h) c = fetchN dflt n ⟨sc, q⟩) ∧ Fin A b a (keySc q sc) q) :
    Inv dflt A (b.addLog a c) ∧ Frame b (b.addLog a c) := by
  have f : Frame b (b.addLog a c) :=
    ⟨Nat.le_refl _, fun _ _ => rfl, fun _ _ h => h, fun x hx => List.mem_cons_of_mem _ hx, HeapExt.refl _, fun h => h⟩
  refine ⟨⟨fun e he => (hi.prims e he).mono f, fun e he => (hi.root e he).mono f,
    fun t ht e he => (hi.heap t ht e he).mono f, ?_, hi.pend, hi.wf⟩, f⟩
  intro x hx
  simp only [B.addLog, List.mem_cons] at hx
  rcases hx with rfl | hx
  · obtain ⟨sc, q, h, h1, h2, h3⟩ := hn
    exact ⟨sc, q, h, h1, h2, h3.mono f⟩
  · obtain ⟨sc, q, h, h1, h2, h3⟩ := hi.log x hx
    exact ⟨sc, q, h, h1, h2, h3.mono f⟩

section main
variable (hbeq : ∀ p q : Patt, Patt.beq p q = true → p = q)
include hbeq

theorem getCache_fin {dflt : Scope} {A : List Pend} {b : B} (hi : Inv dflt A b) (g : Option Nat) (q : Patt) (a : Nat)
    (hg : GOk b.heap g) (h : getCache b g q = some a) : Fin A b a (keySc q (scOf b.heap g)) q := by
  unfold getCache at h
  by_cases hp : isPrim q = true
  · simp only [hp, if_true] at h
    obtain ⟨e, he, hb, rfl⟩ := lookupCache_some h
    have := hbeq _ _ hb; subst this
    simpa [keySc, hp] using hi.prims e he
  · simp only [hp] at h
    cases g with
    | none =>
      simp only [] at h
      obtain ⟨e, he, hb, rfl⟩ := lookupCache_some h
      have := hbeq _ _ hb; subst this
      simpa [keySc, hp, scOf] using hi.root e he
    | some id =>
      simp only [] at h
      cases ht : b.heap[id]? with
      | none => simp [ht] at h
      | some t =>
        simp only [ht] at h
        obtain ⟨e, he, hb, rfl⟩ := lookupCache_some h
        have := hbeq _ _ hb; subst this
        have hm : t ∈ b.heap := List.mem_of_getElem? ht
        simpa [keySc, hp, scOf, ht] using hi.heap t hm e he

omit hbeq in
theorem Fin.push {A : List Pend} {b b1 : B} {a : Nat} {sc : List Scope} {q : Patt} (self : Pend)
    (h : Fin A b a sc q) (f : Frame b b1) (hs : b.code.length ≤ self.1) : Fin (self :: A) b1 a sc q := by
  rcases h with h | ⟨h, hd, hfl⟩
  · exact Or.inl (List.mem_cons_of_mem _ h)
  · have hsz := h.size
    refine Or.inr ⟨h.mono f.len (fun k _ hk => f.code k (by omega)) f.consts f.log, fun pe hpe => ?_, fun ht => f.flag (hfl ht)⟩
    rcases List.mem_cons.mp hpe with rfl | hpe
    · exact Or.inl (by omega)
    · exact hd pe hpe

omit hbeq in
/-- reserve + cache put: the new rule is pending -/
theorem Inv.push {dflt : Scope} {A : List Pend} {b : B} (hi : Inv dflt A b) (g1 : Option Nat) (q : Patt) (i : Instr Patt)
    (hg1 : GOk b.heap g1) (hsh : shape q = some i) :
    let b1 := reserve (putCache b g1 q b.code.length) (encSize i)
    let self : Pend := (b.code.length, keySc q (scOf b.heap g1), q)
    Inv dflt (self :: A) b1 ∧ Frame b b1 ∧ b1.code.length = b.code.length + encSize i ∧ scOf b1.heap g1 = scOf b.heap g1 ∧
      GOk b1.heap g1 := by
  intro b1 self
  have hcode : b1.code = b.code ++ List.replicate (encSize i) 0 := by
    simp only [b1, reserve, putCache]; split <;> (try split) <;> rfl
  have hconsts : b1.consts = b.consts := by
    simp only [b1, reserve, putCache]; split <;> (try split) <;> rfl
  have hlog : b1.log = b.log := by
    simp only [b1, reserve, putCache]; split <;> (try split) <;> rfl
  have hheap : HeapExt b.heap b1.heap ∧ HeapWF b1.heap := by
    simp only [b1, reserve, putCache]
    split
    · exact ⟨HeapExt.refl _, hi.wf⟩
    · split
      · exact ⟨HeapExt.refl _, hi.wf⟩
      · exact hi.wf.ext_put _ _ (fun t => ⟨rfl, rfl, rfl, rfl⟩)
  have hflag : b1.hasBackref = b.hasBackref := by
    simp only [b1, reserve, putCache]; split <;> (try split) <;> rfl
  have f : Frame b b1 := by
    refine ⟨by simp [hcode], fun k hk => ?_, by simp [hconsts], by simp [hlog], hheap.1, by simp [hflag]⟩
    rw [hcode, List.getD_eq_getElem?_getD, List.getD_eq_getElem?_getD, List.getElem?_append_left hk]
  have hself : self.1 = b.code.length := rfl
  have push : ∀ {a sc q'}, Fin A b a sc q' → Fin (self :: A) b1 a sc q' := fun h => h.push self f (Nat.le_of_eq hself.symm)
  have hnew : Fin (self :: A) b1 b.code.length (keySc q (scOf b.heap g1)) q := Or.inl (List.mem_cons_self)
  refine ⟨⟨?_, ?_, ?_, ?_, ?_, hheap.2⟩, f, by simp [hcode], hheap.1.scOf g1 hg1, hg1.ext hheap.1⟩
  · -- prims
    intro e he
    by_cases hp : isPrim q = true
    · have : b1.prims = (q, b.code.length) :: b.prims := by simp [b1, reserve, putCache, hp]
      rw [this] at he
      rcases List.mem_cons.mp he with rfl | he
      · simpa [keySc, hp] using hnew
      · exact push (hi.prims e he)
    · have : b1.prims = b.prims := by
        cases g1 <;> simp [b1, reserve, putCache, hp]
      rw [this] at he
      exact push (hi.prims e he)
  · -- root
    intro e he
    by_cases hp : isPrim q = true
    · have : b1.root = b.root := by simp [b1, reserve, putCache, hp]
      rw [this] at he
      exact push (hi.root e he)
    · cases g1 with
      | none =>
        have : b1.root = (q, b.code.length) :: b.root := by simp [b1, reserve, putCache, hp]
        rw [this] at he
        rcases List.mem_cons.mp he with rfl | he
        · simpa [keySc, hp, scOf] using hnew
        · exact push (hi.root e he)
      | some id =>
        have : b1.root = b.root := by simp [b1, reserve, putCache, hp]
        rw [this] at he
        exact push (hi.root e he)
  · -- heap
    intro t ht e he
    by_cases hp : isPrim q = true
    · have : b1.heap = b.heap := by simp [b1, reserve, putCache, hp]
      rw [this] at ht
      exact push (hi.heap t ht e he)
    · cases g1 with
      | none =>
        have : b1.heap = b.heap := by simp [b1, reserve, putCache, hp]
        rw [this] at ht
        exact push (hi.heap t ht e he)
      | some id =>
        have hh : b1.heap = b.heap.modify id (fun t => { t with cache := (q, b.code.length) :: t.cache }) := by
          simp [b1, reserve, putCache, hp]
        rw [hh] at ht
        obtain ⟨j, hj⟩ := List.getElem?_of_mem ht
        rw [List.getElem?_modify] at hj
        by_cases hij : id = j
        · subst hij
          simp only [if_true] at hj
          cases hb : b.heap[id]? with
          | none => simp [hb] at hj
          | some t0 =>
            simp [hb] at hj
            subst hj
            simp only [List.mem_cons] at he
            rcases he with rfl | he
            · simpa [keySc, hp, scOf, hb] using hnew
            · exact push (hi.heap t0 (List.mem_of_getElem? hb) e he)
        · simp only [hij, if_false] at hj
          cases hb : b.heap[j]? with
          | none => simp [hb] at hj
          | some t0 =>
            simp [hb] at hj
            subst hj
            exact push (hi.heap t0 (List.mem_of_getElem? hb) e he)
  · -- log
    intro x hx
    rw [hlog] at hx
    obtain ⟨sc, q', h, h1, h2, h3⟩ := hi.log x hx
    exact ⟨sc, q', h, h1, h2, push h3⟩
  · -- pend
    intro pe hpe
    rcases List.mem_cons.mp hpe with rfl | hpe
    · simp only [self, hcode, List.length_append, List.length_replicate, szOf_eq hsh]; omega
    · exact Nat.le_trans (hi.pend pe hpe) f.len


omit hbeq in
theorem emitConst_props {ρ : Type} (i : Instr ρ) (b2 : B) :
    (emitConst i b2).2.code = b2.code ∧ (emitConst i b2).2.log = b2.log ∧ (emitConst i b2).2.heap = b2.heap ∧
    (emitConst i b2).2.prims = b2.prims ∧ (emitConst i b2).2.root = b2.root ∧
    (∀ (k : Nat) (v : Val), b2.consts[k]? = some v → (emitConst i b2).2.consts[k]? = some v) ∧
    constOk (emitConst i b2).2.consts i (emitConst i b2).1 ∧ (emitConst i b2).2.hasBackref = b2.hasBackref := by
  unfold emitConst constOk
  cases hco : i.constOf with
  | none => simp
  | some v =>
    refine ⟨rfl, rfl, rfl, rfl, rfl, fun k v' h => ?_, by simp, rfl⟩
    have hk : k < b2.consts.length := (List.getElem?_eq_some_iff.mp h).1
    simp only []
    rw [List.getElem?_append_left hk]; exact h

omit hbeq in
/-- header patched: the pending rule is finished -/
theorem Inv.pop {dflt : Scope} {A : List Pend} {b2 b4 : B} (self : Pend) (hi : Inv dflt (self :: A) b2)
    (hlen : b4.code.length = b2.code.length)
    (hcode : ∀ k, ¬ (self.1 ≤ k ∧ k < self.1 + szOf self.2.2) → b4.code.getD k 0 = b2.code.getD k 0)
    (hconsts : ∀ (k : Nat) (v : Val), b2.consts[k]? = some v → b4.consts[k]? = some v)
    (hlog : b4.log = b2.log) (hheap : b4.heap = b2.heap) (hprims : b4.prims = b2.prims) (hroot : b4.root = b2.root)
    (hdone : DoneAt b4 self.1 self.2.1 self.2.2)
    (hA : ∀ pe ∈ A, pe.1 + szOf pe.2.2 ≤ self.1)
    (hflag : b2.hasBackref = true → b4.hasBackref = true) (hself : TaggedPatt self.2.2 → b4.hasBackref = true) :
    Inv dflt A b4 := by
  have pop : ∀ {a sc q}, Fin (self :: A) b2 a sc q → Fin A b4 a sc q := by
    intro a sc q h
    rcases h with h | ⟨hd, hdisj, hfl⟩
    · rcases List.mem_cons.mp h with h | h
      · have e1 : a = self.1 := by rw [← h]
        have e2 : sc = self.2.1 := by rw [← h]
        have e3 : q = self.2.2 := by rw [← h]
        subst e1 e2 e3
        exact Or.inr ⟨hdone, fun pe hpe => Or.inr (hA pe hpe), hself⟩
      · exact Or.inl h
    · have hs := hdisj self List.mem_cons_self
      refine Or.inr ⟨hd.mono (by omega) (fun k h1 h2 => hcode k (by omega)) hconsts (by rw [hlog]; exact fun _ h => h),
        fun pe hpe => hdisj pe (List.mem_cons_of_mem _ hpe), fun ht => hflag (hfl ht)⟩
  refine ⟨?_, ?_, ?_, ?_, ?_, by rw [hheap]; exact hi.wf⟩
  · rw [hprims]; exact fun e he => pop (hi.prims e he)
  · rw [hroot]; exact fun e he => pop (hi.root e he)
  · rw [hheap]; exact fun t ht e he => pop (hi.heap t ht e he)
  · rw [hlog]; intro x hx
    obtain ⟨sc, q, h, h1, h2, h3⟩ := hi.log x hx
    exact ⟨sc, q, h, h1, h2, pop h3⟩
  · intro pe hpe
    have := hi.pend self List.mem_cons_self
    have := hA pe hpe
    omega

def Spec1 (dflt : Scope) (k : B → Option Nat → Patt → Option (Nat × Nat × B)) : Prop :=
  ∀ b g p a h b', k b g p = some (a, h, b') → ∀ A, Inv dflt A b → GOk b.heap g →
    Inv dflt A b' ∧ Frame b b' ∧ (a, (⟨scOf b.heap g, p⟩ : Closure)) ∈ b'.log ∧
    ∃ sc q, h ≤ maxHops ∧ (∀ n, fetchN dflt (n + h) ⟨scOf b.heap g, p⟩ = fetchN dflt n ⟨sc, q⟩) ∧ Fin A b' a (keySc q sc) q

omit hbeq in
theorem kids_ok {dflt : Scope} {k : B → Option Nat → Patt → Option (Nat × Nat × B)} (hk : Spec1 dflt k) :
    ∀ ps b g addrs b', compileKids k b g ps = some (addrs, b') → ∀ A, Inv dflt A b → GOk b.heap g →
      Inv dflt A b' ∧ Frame b b' ∧ addrs.length = ps.length ∧
      ∀ pr ∈ addrs.zip ps, (pr.1, (⟨scOf b.heap g, pr.2⟩ : Closure)) ∈ b'.log := by
  intro ps
  induction ps with
  | nil =>
    intro b g addrs b' h A hi hg
    simp [compileKids] at h
    obtain ⟨rfl, rfl⟩ := h
    exact ⟨hi, Frame.refl _, rfl, by simp⟩
  | cons p ps ih =>
    intro b g addrs b' h A hi hg
    simp only [compileKids] at h
    cases h1 : k b g p with
    | none => simp [h1] at h
    | some r =>
      obtain ⟨a, hh, b1⟩ := r
      simp only [h1] at h
      cases h2 : compileKids k b1 g ps with
      | none => simp [h2] at h
      | some r2 =>
        obtain ⟨as, b2⟩ := r2
        simp only [h2] at h
        cases h
        obtain ⟨i1, f1, m1, _⟩ := hk b g p a hh b1 h1 A hi hg
        obtain ⟨i2, f2, l2, m2⟩ := ih b1 g as b' h2 A i1 (hg.ext f1.heap)
        refine ⟨i2, f1.trans f2, by simp [l2], fun pr hpr => ?_⟩
        simp only [List.zip_cons_cons, List.mem_cons] at hpr
        rcases hpr with rfl | hpr
        · exact f2.log _ m1
        · have := m2 pr hpr
          rwa [f1.heap.scOf g hg] at this

theorem compile1_step (dflt : Scope) (d : Nat) (ih : ∀ d', d = d' + 1 → Spec1 dflt (compile1 dflt d')) :
    Spec1 dflt (compile1 dflt d) := by
  intro b g p a h b' hc A hinv hg
  unfold compile1 at hc
  cases hres : resolveKw dflt b.heap Compile.guard g p with
  | none => simp [hres] at hc
  | some r =>
    obtain ⟨g1, q, il⟩ := r
    simp only [hres] at hc
    obtain ⟨hg1, hil1, hil2, hnr, hfetch⟩ := resolveKw_ok dflt b.heap hinv.wf Compile.guard g p g1 q il hres hg
    have hgd : Compile.guard = 1024 := rfl
    have hkh : Compile.guard - il ≤ maxHops := by simp only [maxHops]; omega
    cases hcache : getCache b g1 q with
    | some a0 =>
      simp only [hcache] at hc
      cases hc
      have hfin := getCache_fin hbeq hinv g1 q a hg1 hcache
      have hn : ∃ sc q' h, h ≤ maxHops ∧ (∀ n, fetchN dflt (n + h) (⟨scOf b.heap g, p⟩ : Closure) = fetchN dflt n ⟨sc, q'⟩) ∧
          Fin A b a (keySc q' sc) q' := ⟨_, q, _, hkh, hfetch, hfin⟩
      obtain ⟨i1, f1⟩ := hinv.addLog a ⟨scOf b.heap g, p⟩ hn
      exact ⟨i1, f1, List.mem_cons_self, _, q, hkh, hfetch, hfin.mono f1⟩
    | none =>
      simp only [hcache] at hc
      cases d with
      | zero => simp at hc
      | succ d' =>
        simp only [] at hc
        have ihd := ih d' rfl
        cases hgr : asGrammar q with
        | some rules =>
          simp only [hgr] at hc
          have hq := asGrammar_eq hgr
          subst hq
          cases hm : lookupScope rules "main" with
          | none => simp [hm] at hc
          | some m =>
            simp only [hm] at hc
            by_cases hlv : levelOf b.heap g1 + 1 ≥ maxProtoDepth
            · simp [hlv] at hc
            · simp only [hlv, if_false] at hc
              let t : Tbl := ⟨rules, [], g1, levelOf b.heap g1 + 1, rules :: scOf b.heap g1⟩
              let b1 : B := { b with heap := b.heap ++ [t] }
              cases hrec : compile1 dflt d' b1 (some b.heap.length) m with
              | none => simp [b1, t, hrec] at hc
              | some r2 =>
                obtain ⟨a2, h2, b2⟩ := r2
                simp only [b1, t, hrec] at hc
                by_cases hh : Compile.guard - il + 1 + h2 > maxHops
                · simp [hh] at hc
                · simp only [hh, if_false] at hc
                  cases hc
                  -- the new table
                  have hext : HeapExt b.heap (b.heap ++ [t]) := by
                    refine ⟨by simp, fun id t0 ht0 => ⟨t0, ?_, rfl, rfl, rfl, rfl⟩⟩
                    have hid : id < b.heap.length := (List.getElem?_eq_some_iff.mp ht0).1
                    rw [List.getElem?_append_left hid]; exact ht0
                  have ht : (b.heap ++ [t])[b.heap.length]? = some t := by simp
                  have hwf1 : HeapWF (b.heap ++ [t]) := by
                    intro id t0 ht0
                    by_cases hid : id < b.heap.length
                    · rw [List.getElem?_append_left hid] at ht0
                      obtain ⟨w1, w2, w3, w4⟩ := hinv.wf id t0 ht0
                      have gp : GOk b.heap t0.proto := fun p hp => Nat.lt_trans (w4 p hp) hid
                      exact ⟨by rw [hext.scOf _ gp]; exact w1, by rw [hext.levelOf _ gp]; exact w2, w3, w4⟩
                    · have hid2 : id = b.heap.length := by
                        have := (List.getElem?_eq_some_iff.mp ht0).1
                        simp at this; omega
                      subst hid2
                      rw [ht] at ht0; cases ht0
                      refine ⟨by rw [hext.scOf _ hg1], by rw [hext.levelOf _ hg1], by simp only [t]; omega, fun p hp => hg1 p hp⟩
                  have f01 : Frame b b1 := ⟨Nat.le_refl _, fun _ _ => rfl, fun _ _ h => h, fun _ h => h, hext, fun h => h⟩
                  have hinv1 : Inv dflt A b1 := by
                    refine ⟨fun e he => (hinv.prims e he).mono f01, fun e he => (hinv.root e he).mono f01, ?_, ?_, hinv.pend, hwf1⟩
                    · intro t0 ht0 e he
                      simp only [b1, List.mem_append, List.mem_singleton] at ht0
                      rcases ht0 with ht0 | rfl
                      · exact (hinv.heap t0 ht0 e he).mono f01
                      · simp [t] at he
                    · intro x hx
                      obtain ⟨sc, q', h, h1, h2, h3⟩ := hinv.log x hx
                      exact ⟨sc, q', h, h1, h2, h3.mono f01⟩
                  have hg2 : GOk b1.heap (some b.heap.length) := by
                    intro id hid; cases hid; simp [b1]
                  obtain ⟨i2, f2, m2, sc', q', hh2, hf2, fin2⟩ := ihd b1 (some b.heap.length) m a h2 b2 hrec A hinv1 hg2
                  have hsc1 : scOf b1.heap (some b.heap.length) = rules :: scOf b.heap g1 := by
                    show (match (b.heap ++ [t])[b.heap.length]? with | some t => t.sc | none => []) = _
                    rw [ht]
                  rw [hsc1] at hf2
                  have hfe : ∀ n, fetchN dflt (n + (Compile.guard - il + 1 + h2)) (⟨scOf b.heap g, p⟩ : Closure) = fetchN dflt n ⟨sc', q'⟩ := by
                    intro n
                    rw [show n + (Compile.guard - il + 1 + h2) = (n + h2 + 1) + (Compile.guard - il) by omega, hfetch (n + h2 + 1)]
                    rw [fetchN]
                    simp only [hm]
                    exact hf2 n
                  have hle : Compile.guard - il + 1 + h2 ≤ maxHops := by omega
                  obtain ⟨i3, f3⟩ := i2.addLog a ⟨scOf b.heap g, p⟩ ⟨sc', q', _, hle, hfe, fin2⟩
                  exact ⟨i3, (f01.trans f2).trans f3, List.mem_cons_self, sc', q', hle, hfe, fin2.mono f3⟩
        | none =>
          simp only [hgr] at hc
          cases hsh : shape q with
          | none => simp [hsh] at hc
          | some i =>
            simp only [hsh] at hc
            cases hkids : compileKids (compile1 dflt d') (reserve (putCache b g1 q b.code.length) (encSize i)) g1 i.kids with
            | none => simp [hkids] at hc
            | some r2 =>
              obtain ⟨addrs, b2⟩ := r2
              simp only [hkids] at hc
              cases hc
              have hp := hinv.push g1 q i hg1 hsh
              dsimp only at hp
              obtain ⟨ip, f01, hlen1, hsc1, hg1'⟩ := hp
              obtain ⟨i2, f12, hlen2, hmem⟩ := kids_ok ihd i.kids _ g1 addrs b2 hkids _ ip hg1'
              obtain ⟨c1, c2, c3, c4, c5, c6, c7, c8⟩ := emitConst_props i b2
              have hwl : (encode (i.rebuild addrs) (emitConst i b2).1).length = encSize i := encode_length i addrs _ hlen2
              have hsz : szOf q = encSize i := szOf_eq hsh
              have hb2len : b.code.length + encSize i ≤ b2.code.length := by have := f12.len; omega
              -- the finished rule
              let b4 : B := { (emitConst i b2).2 with
                    code := patch (emitConst i b2).2.code b.code.length (encode (i.rebuild addrs) (emitConst i b2).1),
                    hasBackref := (emitConst i b2).2.hasBackref || i.readsTags }
              have hdone : DoneAt b4
                  b.code.length (keySc q (scOf b.heap g1)) q := by
                refine ⟨i, addrs, (emitConst i b2).1, hsh, hlen2, ⟨?_, fun k hk => ?_⟩, c7, fun pr hpr => ?_⟩
                · simp only [b4, patch_length, c1, hwl]; exact hb2len
                · simp only [b4, c1]
                  rw [patch_getD_in _ _ _ _ (by omega) (by omega) (by rw [hwl]; exact hb2len), Nat.add_sub_cancel_left]
                · simp only [b4, c2]
                  by_cases hpq : isPrim q = true
                  · have := shape_prim_kids q i hpq hsh
                    rw [this] at hpr; simp at hpr
                  · have := hmem pr hpr
                    rw [hsc1] at this
                    simpa [keySc, hpq] using this
              have hselfflag : TaggedPatt q → b4.hasBackref = true := by
                rintro ⟨i', hs', ht'⟩
                rw [hsh] at hs'; cases hs'
                simp only [b4, ht', Bool.or_true]
              have i4 : Inv dflt A b4 := Inv.pop (b4 := b4) (b.code.length, keySc q (scOf b.heap g1), q) i2 (by simp [b4, patch_length, c1])
                (fun k hk => by
                  simp only [b4, c1]
                  exact patch_getD_out _ _ _ _ (by rw [hwl, ← hsz]; exact hk))
                c6 c2 c3 c4 c5 hdone (fun pe hpe => hinv.pend pe hpe)
                (fun h => by simp only [b4, c8, h, Bool.true_or]) hselfflag
              have hfin : Fin A b4
                  b.code.length (keySc q (scOf b.heap g1)) q :=
                Or.inr ⟨hdone, fun pe hpe => Or.inr (hinv.pend pe hpe), hselfflag⟩
              obtain ⟨i5, f45⟩ := i4.addLog b.code.length ⟨scOf b.heap g, p⟩ ⟨_, q, _, hkh, hfetch, hfin⟩
              have f04 : Frame b b4 := by
                refine ⟨by simp only [b4, patch_length, c1]; omega, fun k hk => ?_, fun k v h => c6 k v (f12.consts k v (f01.consts k v h)),
                  fun x hx => by simp only [b4, c2]; exact f12.log x (f01.log x hx), by simp only [b4, c3]; exact f01.heap.trans f12.heap,
                  fun h => by simp only [b4, c8, f12.flag (f01.flag h), Bool.true_or]⟩
                simp only [b4, c1]
                rw [patch_getD_out _ _ _ _ (by omega), f12.code k (by omega), f01.code k hk]
              exact ⟨i5, f04.trans f45, List.mem_cons_self, _, q, hkh, hfetch, hfin.mono f45⟩

theorem compile1_ok (dflt : Scope) : ∀ d, Spec1 dflt (compile1 dflt d) := by
  intro d
  induction d with
  | zero => exact compile1_step hbeq dflt 0 (fun d' h => by omega)
  | succ n ih => exact compile1_step hbeq dflt (n + 1) (fun d' h => by cases h; exact ih)

omit hbeq in
theorem constOf_rebuild {ρ σ : Type} [Inhabited σ] (i : Instr ρ) (ks : List σ) : (i.rebuild ks).constOf = i.constOf := by
  cases i <;> rfl

omit hbeq in
theorem Inv.empty (dflt : Scope) : Inv dflt [] B.empty :=
  ⟨by simp [B.empty], by simp [B.empty], by simp [B.empty], by simp [B.empty], by simp,
   fun id t h => by simp [B.empty] at h⟩

/-- the log of a successful compilation is a simulation between rule addresses of the emitted program and source closures -/
theorem compile_bisim (dflt : Scope) (p : Patt) (o : Output) (h : compile dflt p = some o) :
    (o.entry, (⟨[], p⟩ : Closure)) ∈ o.log ∧
    ∀ a c, (a, c) ∈ o.log → ∃ (i : Instr Patt) (as : List Nat) (bs : List Closure),
      decode o.program a = some (i.rebuild as) ∧ Spec.fetch dflt c = some (i.rebuild bs) ∧
      as.length = i.kids.length ∧ bs.length = i.kids.length ∧ (∀ pr ∈ as.zip bs, (pr.1, pr.2) ∈ o.log) ∧
      (o.hasBackref = false → i.readsTags = false) := by
  unfold compile at h
  cases hc : compile1 dflt Compile.guard B.empty none p with
  | none => simp [hc] at h
  | some r =>
    obtain ⟨a0, h0, b'⟩ := r
    simp only [hc] at h
    cases h
    obtain ⟨hinv, _, hmem, _⟩ := compile1_ok hbeq dflt Compile.guard B.empty none p a0 h0 b' hc [] (Inv.empty dflt)
      (fun id hid => by cases hid)
    refine ⟨by simpa [scOf, B.empty] using hmem, fun a c hac => ?_⟩
    obtain ⟨sc, q, hh, hh1, hh2, hfin⟩ := hinv.log (a, c) hac
    rcases hfin with hfin | ⟨hdone, _, hflag⟩
    · simp at hfin
    · obtain ⟨i, addrs, cidx, hsh, hlen, hhdr, hco, hk⟩ := hdone
      refine ⟨i, addrs, i.kids.map (fun k => (⟨sc, k⟩ : Closure)), ?_, ?_, hlen, by simp, ?_, ?_⟩
      rotate_right
      · intro hf
        cases hrt : i.readsTags with
        | false => rfl
        | true =>
          have := hflag ⟨i, hsh, hrt⟩
          have hf' : b'.hasBackref = false := hf
          rw [hf'] at this; cases this
      · apply decode_encode _ _ _ _ cidx (shape_encOk q i addrs hsh) hhdr
        unfold constOk at hco ⊢
        rw [constOf_rebuild]; exact hco
      · have := hh2 (1023 - hh + 1)
        simp only [maxHops] at hh1
        rw [show 1023 - hh + 1 + hh = 1024 by omega] at this
        simp only [Spec.fetch]
        rw [this]
        exact shape_fetch dflt sc q i _ hsh
      · intro pr hpr
        by_cases hpq : isPrim q = true
        · have := shape_prim_kids q i hpq hsh
          rw [this] at hpr; simp at hpr
        · rw [List.zip_map_right] at hpr
          obtain ⟨pr0, hpr0, rfl⟩ := List.mem_map.mp hpr
          have := hk pr0 hpr0
          simpa [keySc, hpq] using this
end main

/-- `compile_bisim` with the soundness of the cache-key comparison discharged -/
theorem compile_sim_flag (dflt : Scope) (p : Patt) (o : Output) (h : compile dflt p = some o) :
    (o.entry, (⟨[], p⟩ : Closure)) ∈ o.log ∧
    ∀ a c, (a, c) ∈ o.log → ∃ (i : Instr Patt) (as : List Nat) (bs : List Closure),
      decode o.program a = some (i.rebuild as) ∧ Spec.fetch dflt c = some (i.rebuild bs) ∧
      as.length = i.kids.length ∧ bs.length = i.kids.length ∧ (∀ pr ∈ as.zip bs, (pr.1, pr.2) ∈ o.log) ∧
      (o.hasBackref = false → i.readsTags = false) :=
  compile_bisim Patt.beq_sound dflt p o h

theorem compile_sim (dflt : Scope) (p : Patt) (o : Output) (h : compile dflt p = some o) :
    (o.entry, (⟨[], p⟩ : Closure)) ∈ o.log ∧
    ∀ a c, (a, c) ∈ o.log → ∃ (i : Instr Patt) (as : List Nat) (bs : List Closure),
      decode o.program a = some (i.rebuild as) ∧ Spec.fetch dflt c = some (i.rebuild bs) ∧
      as.length = i.kids.length ∧ bs.length = i.kids.length ∧ ∀ pr ∈ as.zip bs, (pr.1, pr.2) ∈ o.log := by
  obtain ⟨h0, hs⟩ := compile_sim_flag dflt p o h
  refine ⟨h0, fun a c hac => ?_⟩
  obtain ⟨i, as, bs, h1, h2, h3, h4, h5, _⟩ := hs a c hac
  exact ⟨i, as, bs, h1, h2, h3, h4, h5⟩

/-- **denotation of the emitted program = denotation of the source**, every rule the compiler returned, every fuel -/
theorem compile_den_eq (E : Env) (dflt : Scope) (p : Patt) (o : Output) (h : compile dflt p = some o) (fuel : Nat) :
    Den.run E (decode o.program) fuel o.entry = Den.run E (Spec.fetch dflt) fuel ⟨[], p⟩ := by
  obtain ⟨h0, hsim⟩ := compile_sim dflt p o h
  exact bisim_run_eq (ρ := Patt) E (decode o.program) (Spec.fetch dflt) (fun a c => (a, c) ∈ o.log)
    (fun a c hac => hsim a c hac) fuel o.entry ⟨[], p⟩ h0
end JanetModel.Peg
