/-
Obligations that tie the hand-written PEG model to the CURRENT peg.c through Gen/Peg.lean (regenerated on every run).
Kept outside Props/C12.lean so that the library still builds on a tree on which they fail; checks/C12.py builds this
module separately and treats a failure as a broken obligation (then searches for a concrete failing input).
-/
import JanetModel.Gen.Peg
import JanetModel.Peg.Decode

namespace JanetModel.Peg.Tie
open JanetModel.Gen.Peg

/-- RULE_LENPREFIX restores `s->mode` before every return (the model `Op.step` is proved correct only then). -/
theorem lenprefix_mode_restored : lenprefixLeak = false := by decide

/-- no opcode case of `peg_rule` returns with `s->mode` still overwritten -/
theorem no_mode_leaks : modeLeaks = [] := by decide

/-- no opcode case of `peg_rule` returns with `s->text_end` still narrowed -/
theorem no_window_leaks : windowLeaks = [] := by decide

/-- RULE_CAPTURE_NUM accumulates the captured number (as `pushcap` does), not the raw matched text -/
theorem number_capture_not_raw : captureNumRaw = false := by decide

/-- every exit (return / goto tail) of every opcode case of `peg_rule` is reached with as many `up1` as `down1`
    (path-sensitive count extracted from the current peg.c); the semantic counterpart for the model is
    `Props.C12.depth_balanced` -/
theorem depth_exits_balanced : depthUnbalanced = [] ∧ depthExits = List.replicate opcodes.length [0] := by decide

/-- the depth budget of the model driver is the implementation's -/
theorem recursion_guard : recursionGuard = 1024 := by decide

end JanetModel.Peg.Tie
