/-
A small imperative IR for ONE `case RULE_*:` body of `peg_rule` (peg.c) and its semantics over the model state `St`.

tools/gen/pegskel.py parses the statements of ALL 37 opcode cases of the CURRENT peg.c into this IR (`Gen/PegSkel.lean`,
regenerated on every run): locals are numbered in order of first definition (a renamed local gives the same program), pure
operand aliases (`uint32_t tag = rule[2];`, `const uint32_t *rule_a = s->bytecode + rule[1];`) are substituted, an `if` takes
the rest of the case body into both branches (a program is a tree whose leaves are `return` / `goto tail`).

`Peg/TieSkel.lean` proves, for each opcode, that the extracted program run by `exec` IS the corresponding case of the
hand-written operational model `Op.step` - a semantic comparison: an edit of peg.c that keeps the behaviour of the case keeps
the theorem, an edit that changes the order of cap_save / cap_load, the mode or window save / restore, the depth counter, the
sub-rule calls or the returned pointer does not.
Core Lean only.
-/
import JanetModel.Peg.Op
import JanetModel.Peg.Decode

namespace JanetModel.Peg.Skel

/-- operand words -/
inductive WE
  | op (k : Nat)                -- rule[k]
  | clamp (k : Nat)             -- `uint32_t x = rule[k]; if (x > INT32_MAX) x = INT32_MAX;`
  | lit (v : Nat)               -- a literal
  | byteOf (k shift : Nat)      -- `(rule[k] >> shift) & 0xFF`
  | lowBits (k bits : Nat)      -- `rule[k] & (2^bits - 1)`   (`rule[1] & 0xF`)
  deriving Repr, DecidableEq

/-- rule operands -/
inductive RE
  | op (k : Nat)                -- s->bytecode + rule[k]
  | argsAt (base n : Nat)       -- s->bytecode + args[n] with `args = rule + base`, n a numeric local
  | argsLast (base k : Nat)     -- s->bytecode + args[rule[k] - 1]
  deriving Repr, DecidableEq

/-- numeric expressions (`int32_t` locals) -/
inductive NE
  | capCount                    -- s->captures->count
  | capsAbove (cs : Nat)        -- s->captures->count - cs.cap
  | lit (v : Nat)               -- a literal
  | succ (n : Nat)              -- n + 1   (`n++`)
  | capIntAt (cs : Nat)         -- janet_unwrap_integer(s->captures->data[cs.cap]) as a loop bound (negative = 0 iterations)
  | tagCount                    -- s->tags->count
  | strLen (v : Nat)            -- janet_string_length(janet_unwrap_string(v))
  | copy (n : Nat)              -- another numeric local
  deriving Repr, DecidableEq

/-- conditions of `if` -/
inductive Cond
  | isNull (x : Nat)            -- `!x`, `x == NULL`, `NULL == x`
  | tagZero (k : Nat)           -- `!rule[k]`
  | oldAcc                      -- `oldmode == PEG_MODE_ACCUMULATE`
  | curAcc                      -- `s->mode == PEG_MODE_ACCUMULATE`
  | hasBackref                  -- `s->has_backref`
  | numGtWord (n : Nat) (w : WE) -- `n > (int32_t) w` for a numeric local n
  | countGtNum (n : Nat)        -- `s->captures->count > n`
  | numLtWord (n : Nat) (w : WE) -- `n < w`
  | ptrEq (x y : Nat)           -- `x == y` (pointers)
  | wordIsMax (w : WE)          -- `w == UINT32_MAX`
  | ptrLeEnd (x : Nat)          -- `x <= s->text_end`
  | ptrGtEnd (x : Nat)          -- `x > s->text_end`
  | ptrLe (x y : Nat)           -- `x <= y` (pointers)
  | ptrPlusGtEnd (x : Nat) (w : WE) -- `x + w > s->text_end`
  | opIs (n : Nat)              -- `rule[0] == RULE_x` (n = the opcode number)
  | numLtWordPred (n : Nat) (w : WE) -- `n < w - 1`
  | numLtNum (a b : Nat)        -- `a < b` (numeric locals)
  | lenCapBad (cs : Nat)        -- `count - cs.cap <= 0 || !janet_checkint(s->captures->data[cs.cap])`
  | valTruthy (v : Nat)         -- `janet_truthy(v)`
  | ptrLtEnd (x : Nat)          -- `x < s->text_end`
  | numNZ (n : Nat)             -- `n` (a numeric local used as a truth value: the result of memcmp / janet_scan_number_base)
  | bitSet (base n : Nat)       -- `rule[base + (n >> 5)] & ((uint32_t)1 << (n & 0x1F))`, n a numeric local holding a byte
  | offLtStart (x k : Nat)      -- `x + ((int32_t *)rule)[k] < s->text_start`
  | offGtEnd (x k : Nat)        -- `x + ((int32_t *)rule)[k] > s->text_end`
  | tagAtEq (n : Nat) (w : WE)  -- `s->tags->data[n] == w`
  | valIsString (v : Nat)       -- `janet_checktype(v, JANET_STRING)`
  | ptrPlusNumGtEnd (x n : Nat) -- `x + n > s->text_end`, n a numeric local
  | wordBit (k bit : Nat)       -- `rule[k] & (1 << bit)` as a truth value (`signedness = rule[1] & 0x10`)
  | weGt (a b : WE)             -- `a > b` between operand words / literals (`width > 6`)
  | not (c : Cond)
  | and (a b : Cond)
  | or (a b : Cond)
  deriving Repr, DecidableEq

/-- value expressions (arguments of `pushcap`) -/
inductive VE
  | scratchFrom (cs : Nat)      -- janet_stringv(s->scratch->data + cs.scratch, s->scratch->count - cs.scratch)
  | slice (a b : Nat)           -- janet_stringv(a, b - a)
  | posOf (x : Nat)             -- janet_wrap_number(x - s->text_start)
  | const (k : Nat)             -- s->constants[rule[k]]
  | arrOf (cs n : Nat)          -- janet_array(n) filled by safe_memcpy from s->captures->data + cs.cap, count = n
  | capAt (cs : Nat) (w : WE)   -- s->captures->data[cs.cap + w]
  | nil                         -- janet_wrap_nil()
  | lineOf (x : Nat)            -- janet_wrap_number(get_linecol_from_position(s, x - s->text_start).line)
  | colOf (x : Nat)             -- ... .col
  | argAt (k : Nat)             -- (rule[k] >= s->extrac) ? janet_wrap_nil() : s->extrav[rule[k]]
  | taggedAt (n : Nat)          -- s->tagged_captures->data[n]
  | s64Of (acc : Nat) (w : WE)  -- janet_wrap_s64(peg_convert_u64_s64(acc, w))
  | u64Of (acc : Nat)           -- janet_wrap_u64(acc)
  | numSigned (acc : Nat) (w : WE)  -- janet_wrap_number((double) peg_convert_u64_s64(acc, w))
  | numOf (acc : Nat)           -- janet_wrap_number((double) acc)
  | copy (v : Nat)              -- another value local
  | replaceOf (k cs : Nat)      -- the `switch (janet_type(constant))` of RULE_REPLACE / RULE_MATCHTIME on s->constants[rule[k]]:
                                -- the constant itself, a struct / table lookup of the last capture, or a function applied to the
                                -- captures above cs.cap (with the C-stack charge around the call)
  deriving Repr, DecidableEq

/-- non-branching statements -/
inductive Stmt
  | down | up                   -- down1(s) / up1(s)
  | capSave (cs : Nat)          -- CapState cs = cap_save(s)
  | capLoad (cs : Nat)          -- cap_load(s, cs)
  | capLoadKeept (cs : Nat)     -- cap_load_keept(s, cs)
  | modeSave                    -- int oldmode = s->mode
  | modeSet (acc : Bool)        -- s->mode = PEG_MODE_ACCUMULATE / PEG_MODE_NORMAL
  | modeRestore                 -- s->mode = oldmode
  | endSave (x : Nat)           -- const uint8_t *x = s->text_end
  | endSet (x : Nat)            -- s->text_end = x
  | ptrCopy (dst src : Nat)     -- const uint8_t *dst = src
  | ptrNull (dst : Nat)         -- const uint8_t *dst = NULL
  | ptrInc (x : Nat)            -- x++
  | call (dst k src : Nat)      -- dst = peg_rule(s, s->bytecode + rule[k], src)
  | callE (dst : Nat) (re : RE) (src : Nat)  -- dst = peg_rule(s, re, src)
  | numDef (n : Nat) (e : NE)   -- int32_t n = e   (also `n++`, `n = ..`)
  | valDef (v : Nat) (e : VE)   -- Janet v = e
  | push (v : Nat) (tagk : Nat) -- pushcap(s, v, rule[tagk])
  | scratchPush (a b : Nat)     -- janet_buffer_push_bytes(s->scratch, a, b - a)
  | readByte (n x off : Nat)    -- n = x[off]   (a byte of the text, read where the C expression reads it)
  | cmpLit (n x base : Nat) (w : WE)  -- n = memcmp(x, rule + base, w)
  | cmpVal (n x v len : Nat)    -- n = memcmp(x, janet_unwrap_string(v), len), len a numeric local
  | scanNum (n v a b k : Nat)   -- n = janet_scan_number_base(a, b - a, rule[k], &v)
  | callOff (dst : Nat) (re : RE) (src k : Nat)  -- dst = peg_rule(s, re, src + ((int32_t *)rule)[k])
  | tagMove (w i : Nat)         -- s->tags->data[w] = s->tags->data[i]; s->tagged_captures->data[w] = s->tagged_captures->data[i]
  | tagSetCount (w : Nat)       -- s->tags->count = w; s->tagged_captures->count = w
  | accByte (acc x i : Nat)     -- acc = (acc << 8) | x[i]   (uint64_t acc; a byte is < 256), i a numeric local
  deriving Repr, DecidableEq

/-- one case body: a tree, every leaf leaves the case -/
inductive Prog
  | seq (st : Stmt) (rest : Prog)
  | ite (c : Cond) (t e : Prog)
  | retNull                     -- return NULL
  | ret (x : Nat)               -- return x
  | tail (k : Nat)              -- rule = s->bytecode + rule[k]; goto tail
  | tailE (re : RE)             -- rule = re; goto tail
  | retPlus (x : Nat) (w : WE)  -- return x + w
  | panicLast                   -- janet_panicv(s->captures->data[s->captures->count - 1])
  | panicMatchErr (x : Nat)     -- lc = get_linecol_from_position(s, x - s->text_start); janet_panicf("match error at line %d, column %d", ..)
  | fall                        -- control reaches the end of the case (does not happen in peg_rule)
  | loop (c : Cond) (body rest : Prog)  -- while (c) body; rest     (the leaves of body are cont / brk / return)
  | downLoop (n : Nat) (bound : NE) (body rest : Prog)  -- for (int32_t n = bound - 1; n >= 0; n--) body; rest
  | retPlusNum (x n : Nat)      -- return x + n, n a numeric local
  | downLoopW (n : Nat) (bound : WE) (body rest : Prog)  -- the same with an operand word as the bound (`width - 1`)
  | cont                        -- end of the loop body / `continue`
  | brk                         -- `break`
  deriving Repr, DecidableEq

/-- the locals of a case -/
structure Loc where
  ptr : Nat → Option Nat        -- pointer locals as text indices, NULL = none; local 0 is the parameter `text`
  cs : Nat → CapState
  val : Nat → Val
  num : Nat → Nat
  oldmode : Bool

def upd {α : Type} (f : Nat → α) (x : Nat) (v : α) : Nat → α := fun y => if y = x then v else f y

/-- the operands `rule[k]` of the instruction being executed -/
structure Operands (ρ : Type) where
  rule : Nat → Option ρ         -- s->bytecode + rule[k]
  word : Nat → Nat              -- rule[k] as a number (tags)
  const : Nat → Val             -- s->constants[rule[k]]
  bytes : Nat → List Nat        -- the bytes stored from `rule + k` on (the memcmp operand of RULE_LITERAL)

variable {ρ : Type}

def evalWE (O : Operands ρ) : WE → Nat
  | .op k => O.word k
  | .clamp k => if O.word k > int32Max then int32Max else O.word k
  | .lit v => v
  | .byteOf k sh => (O.word k / 2 ^ sh) % 256
  | .lowBits k b => O.word k % 2 ^ b

def evalRE (O : Operands ρ) (L : Loc) : RE → Option ρ
  | .op k => O.rule k
  | .argsAt b n => O.rule (b + L.num n)
  | .argsLast b k => O.rule (b + (O.word k - 1))     -- `len - 1` is computed first

def evalNE (L : Loc) (s : St) : NE → Nat
  | .capCount => s.caps.length
  | .capsAbove c => s.caps.length - (L.cs c).cap
  | .lit v => v
  | .succ n => L.num n + 1
  | .capIntAt c => match s.caps[(L.cs c).cap]? with | some (.int n) => n.toNat | _ => 0
  | .tagCount => s.tagged.length
  | .strLen v => match L.val v with | .str b => b.length | _ => 0
  | .copy n => L.num n

def evalCond (E : Env) (O : Operands ρ) (L : Loc) (s : St) : Cond → Bool
  | .isNull x => (L.ptr x).isNone
  | .tagZero k => O.word k == 0
  | .oldAcc => L.oldmode
  | .curAcc => s.acc
  | .hasBackref => E.hasBackref
  | .numGtWord n w => decide (L.num n > evalWE O w)
  | .countGtNum n => decide (s.caps.length > L.num n)
  | .numLtWord n w => decide (L.num n < evalWE O w)
  | .ptrEq x y => L.ptr x == L.ptr y
  | .wordIsMax w => evalWE O w == uintMax
  | .ptrLeEnd x => match L.ptr x with | some p => decide (p ≤ s.textEnd) | none => false
  | .ptrGtEnd x => match L.ptr x with | some p => decide (p > s.textEnd) | none => false
  | .ptrLe x y => match L.ptr x, L.ptr y with | some p, some q => decide (p ≤ q) | _, _ => false
  | .ptrPlusGtEnd x w => match L.ptr x with | some p => decide (p + evalWE O w > s.textEnd) | none => false
  | .opIs n => O.word 0 == n
  | .numLtWordPred n w => decide (L.num n < evalWE O w - 1)
  | .numLtNum a b => decide (L.num a < L.num b)
  | .valTruthy v => truthy (L.val v)
  | .ptrLtEnd x => match L.ptr x with | some p => decide (p < s.textEnd) | none => false
  | .numNZ n => L.num n != 0
  | .bitSet base n => (O.word (base + L.num n / 32) / 2 ^ (L.num n % 32)) % 2 == 1
  | .offLtStart x kk => match L.ptr x with | some p => decide ((p : Int) + asInt32 (O.word kk) < 0) | none => false
  | .offGtEnd x kk => match L.ptr x with | some p => decide ((p : Int) + asInt32 (O.word kk) > (s.textEnd : Int)) | none => false
  | .tagAtEq n w => match s.tagged[L.num n]? with | some tv => tv.1 == evalWE O w | none => false
  | .valIsString v => match L.val v with | .str _ => true | _ => false
  | .ptrPlusNumGtEnd x n => match L.ptr x with | some p => decide (p + L.num n > s.textEnd) | none => false
  | .wordBit kk bit => (O.word kk / 2 ^ bit) % 2 == 1
  | .weGt a b => decide (evalWE O a > evalWE O b)
  | .lenCapBad c =>
    match (s.caps.drop (L.cs c).cap).head? with
    | some (.int n) => !checkint n
    | _ => true
  | .not c => !evalCond E O L s c
  | .and a b => evalCond E O L s a && evalCond E O L s b
  | .or a b => evalCond E O L s a || evalCond E O L s b

def evalVE (E : Env) (O : Operands ρ) (L : Loc) (s : St) : VE → Except Err Val
  | .scratchFrom c => .ok (.str (s.scratch.drop (L.cs c).scratch))
  | .slice a b =>
    match L.ptr a, L.ptr b with
    | some a, some b => do let t ← E.slice s a b; .ok (.str t)
    | _, _ => .error .badop
  | .posOf x =>
    match L.ptr x with
    | some p => .ok (.int p)
    | none => .error .badop
  | .const k => .ok (O.const k)
  | .arrOf c n => .ok (.arr ((s.caps.drop (L.cs c).cap).take (L.num n)))
  | .capAt c w =>
    match s.caps[(L.cs c).cap + evalWE O w]? with
    | some v => .ok v
    | none => .error .oob
  | .nil => .ok .nil
  | .lineOf x => match L.ptr x with | some p => .ok (.int (lineCol E.text p).1) | none => .error .badop
  | .colOf x => match L.ptr x with | some p => .ok (.int (lineCol E.text p).2) | none => .error .badop
  | .argAt kk => .ok (E.args.getD (O.word kk) .nil)
  | .taggedAt n => match s.tagged[L.num n]? with | some tv => .ok tv.2 | none => .error .oob
  | .s64Of acc w => .ok (.s64 (toSigned (L.num acc) (evalWE O w)))
  | .u64Of acc => .ok (.u64 (L.num acc))
  | .numSigned acc w => .ok (.int (toSigned (L.num acc) (evalWE O w)))
  | .numOf acc => .ok (.int (L.num acc))
  | .copy v => .ok (L.val v)
  | .replaceOf kk c => do
    callGuard E s.depth (O.const kk)
    Op.replaceValue (O.const kk) s (L.cs c)

/-- a non-branching statement: new locals and state, or a raised error -/
def execStmt (E : Env) (k : OK ρ) (O : Operands ρ) (L : Loc) (s : St) : Stmt → Except Err (Loc × St)
  | .down => do let s' ← down1 s; .ok (L, s')
  | .up => .ok (L, up1 s)
  | .capSave c => .ok ({ L with cs := upd L.cs c (capSave s) }, s)
  | .capLoad c => .ok (L, capLoad s (L.cs c))
  | .capLoadKeept c => .ok (L, capLoadKeept s (L.cs c))
  | .modeSave => .ok ({ L with oldmode := s.acc }, s)
  | .modeSet a => .ok (L, { s with acc := a })
  | .modeRestore => .ok (L, { s with acc := L.oldmode })
  | .endSave x => .ok ({ L with ptr := upd L.ptr x (some s.textEnd) }, s)
  | .endSet x =>
    match L.ptr x with
    | some e => .ok (L, { s with textEnd := e })
    | none => .error .badop
  | .ptrCopy d x => .ok ({ L with ptr := upd L.ptr d (L.ptr x) }, s)
  | .ptrNull d => .ok ({ L with ptr := upd L.ptr d none }, s)
  | .ptrInc x => .ok ({ L with ptr := upd L.ptr x ((L.ptr x).map (· + 1)) }, s)
  | .call d kk a =>
    match O.rule kk, L.ptr a with
    | some r, some p => do
      let (res, s1) ← k r s p
      .ok ({ L with ptr := upd L.ptr d res }, s1)
    | _, _ => .error .badop
  | .numDef n e => .ok ({ L with num := upd L.num n (evalNE L s e) }, s)
  | .callE d re a =>
    match evalRE O L re, L.ptr a with
    | some r, some p => do
      let (res, s1) ← k r s p
      .ok ({ L with ptr := upd L.ptr d res }, s1)
    | _, _ => .error .badop
  | .valDef v e => do
    let x ← evalVE E O L s e
    .ok ({ L with val := upd L.val v x }, s)
  | .push v t => .ok (L, pushcap E s (L.val v) (O.word t))
  | .scratchPush a b =>
    match L.ptr a, L.ptr b with
    | some a, some b => do
      let t ← E.slice s a b
      .ok (L, { s with scratch := s.scratch ++ t })
    | _, _ => .error .badop
  | .readByte n x off =>
    match L.ptr x with
    | some p => do let b ← E.byte s (p + off); .ok ({ L with num := upd L.num n b }, s)
    | none => .error .badop
  | .cmpLit n x base w =>
    match L.ptr x with
    | some p => do
      let t ← E.slice s p (p + evalWE O w)
      .ok ({ L with num := upd L.num n (if t == (O.bytes base).take (evalWE O w) then 0 else 1) }, s)
    | none => .error .badop
  | .cmpVal n x v len =>
    match L.ptr x, L.val v with
    | some p, .str b => do
      let t ← E.slice s p (p + L.num len)
      .ok ({ L with num := upd L.num n (if t == b.take (L.num len) then 0 else 1) }, s)
    | _, _ => .error .badop
  | .scanNum n v a b kk =>
    match L.ptr a, L.ptr b with
    | some a, some b => do
      let t ← E.slice s a b
      match scanNumber t (O.word kk) with
      | none => .ok ({ L with num := upd L.num n 1 }, s)
      | some x => .ok ({ L with num := upd L.num n 0, val := upd L.val v x }, s)
    | _, _ => .error .badop
  | .callOff d re a kk =>
    match evalRE O L re, L.ptr a with
    | some r, some p => do
      let (res, s1) ← k r s ((p : Int) + asInt32 (O.word kk)).toNat
      .ok ({ L with ptr := upd L.ptr d res }, s1)
    | _, _ => .error .badop
  | .tagMove w i =>
    match s.tagged[L.num i]? with
    | some tv => if L.num w < s.tagged.length then .ok (L, { s with tagged := s.tagged.set (L.num w) tv }) else .error .oob
    | none => .error .oob
  | .tagSetCount w => .ok (L, { s with tagged := s.tagged.take (L.num w) })
  | .accByte acc x i =>
    match L.ptr x with
    | some p => do
      let b ← E.byte s (p + L.num i)
      .ok ({ L with num := upd L.num acc ((L.num acc * 256 + b) % 18446744073709551616) }, s)
    | none => .error .badop

/-- run one case body -/
def exec (E : Env) (k : OK ρ) (O : Operands ρ) : Prog → Loc → St → ORes
  | .seq st rest, L, s => do
    let (L', s') ← execStmt E k O L s st
    exec E k O rest L' s'
  | .ite c t e, L, s => if evalCond E O L s c then exec E k O t L s else exec E k O e L s
  | .retNull, _, s => .ok (none, s)
  | .ret x, L, s => .ok (L.ptr x, s)
  | .tail kk, L, s =>
    match O.rule kk, L.ptr 0 with
    | some r, some p => k r s p
    | _, _ => .error .badop
  | .panicLast, _, s =>
    match s.caps.getLast? with
    | some v => .error (.user v)
    | none => .error .badop
  | .panicMatchErr x, L, _ =>
    match L.ptr x with
    | some p => .error (.matchErr (lineCol E.text p).1 (lineCol E.text p).2)
    | none => .error .badop
  | .tailE re, L, s =>
    match evalRE O L re, L.ptr 0 with
    | some r, some p => k r s p
    | _, _ => .error .badop
  | .retPlus x w, L, s => .ok ((L.ptr x).map (· + evalWE O w), s)
  | .retPlusNum x n, L, s => .ok ((L.ptr x).map (· + L.num n), s)
  | .fall, _, _ => .error .badop
  | .loop _ _ _, _, _ => .error .badop      -- programs with loops are run by `execL`
  | .downLoop _ _ _ _, _, _ => .error .badop
  | .downLoopW _ _ _ _, _, _ => .error .badop
  | .cont, _, _ => .error .badop
  | .brk, _, _ => .error .badop

/-- locals on entry of a case: `text` = local 0 -/
def Loc.init (pos : Nat) : Loc :=
  { ptr := fun x => if x = 0 then some pos else none, cs := fun _ => ⟨0, 0, 0⟩, val := fun _ => .nil, num := fun _ => 0, oldmode := false }

def run (E : Env) (k : OK ρ) (O : Operands ρ) (p : Prog) (s : St) (pos : Nat) : ORes := exec E k O p (Loc.init pos) s

/-! ### programs with loops -/

/-- how a piece of a case body ends -/
inductive Out
  | ret (r : Option Nat × St)   -- the case returned (or jumped to `tail`)
  | cont (L : Loc) (s : St)     -- fell through to what follows / next iteration
  | brk (L : Loc) (s : St)      -- `break`

/-- `while (cond) body` with Lean fuel `n` (exhausted = `Err.fuel`, as in the model's `betweenLoop` / `splitLoop`) -/
def loopN (cond : Loc → St → Bool) (body : Loc → St → Except Err Out) : Nat → Loc → St → Except Err Out
  | 0, _, _ => .error .fuel
  | n + 1, L, s =>
    if cond L s then do
      match ← body L s with
      | .cont L' s' => loopN cond body n L' s'
      | .brk L' s' => .ok (.cont L' s')
      | .ret r => .ok (.ret r)
    else .ok (.cont L s)

/-- `for (int32_t i = bound - 1; i >= 0; i--) body` (the body does not assign `i`): no fuel, the counter decreases -/
def downN (i : Nat) (body : Loc → St → Except Err Out) : Nat → Loc → St → Except Err Out
  | 0, L, s => .ok (.cont L s)
  | j + 1, L, s => do
    match ← body { L with num := upd L.num i j } s with
    | .cont L' s' => downN i body j L' s'
    | .brk L' s' => .ok (.cont L' s')
    | .ret r => .ok (.ret r)

def execL (E : Env) (k : OK ρ) (O : Operands ρ) (fuel : Nat) : Prog → Loc → St → Except Err Out
  | .seq st rest, L, s => do
    let (L', s') ← execStmt E k O L s st
    execL E k O fuel rest L' s'
  | .ite c t e, L, s => if evalCond E O L s c then execL E k O fuel t L s else execL E k O fuel e L s
  | .retNull, _, s => .ok (.ret (none, s))
  | .ret x, L, s => .ok (.ret (L.ptr x, s))
  | .tail kk, L, s =>
    match O.rule kk, L.ptr 0 with
    | some r, some p => do let r ← k r s p; .ok (.ret r)
    | _, _ => .error .badop
  | .panicLast, _, s =>
    match s.caps.getLast? with
    | some v => .error (.user v)
    | none => .error .badop
  | .panicMatchErr x, L, _ =>
    match L.ptr x with
    | some p => .error (.matchErr (lineCol E.text p).1 (lineCol E.text p).2)
    | none => .error .badop
  | .tailE re, L, s =>
    match evalRE O L re, L.ptr 0 with
    | some r, some p => do let r ← k r s p; .ok (.ret r)
    | _, _ => .error .badop
  | .retPlus x w, L, s => .ok (.ret ((L.ptr x).map (· + evalWE O w), s))
  | .fall, _, _ => .error .badop
  | .loop c body rest, L, s => do
    match ← loopN (fun L s => evalCond E O L s c) (fun L s => execL E k O fuel body L s) fuel L s with
    | .cont L' s' => execL E k O fuel rest L' s'
    | .brk _ _ => .error .badop
    | .ret r => .ok (.ret r)
  | .downLoop i bound body rest, L, s => do
    match ← downN i (fun L s => execL E k O fuel body L s) (evalNE L s bound) L s with
    | .cont L' s' => execL E k O fuel rest L' s'
    | .brk _ _ => .error .badop
    | .ret r => .ok (.ret r)
  | .downLoopW i bound body rest, L, s => do
    match ← downN i (fun L s => execL E k O fuel body L s) (evalWE O bound) L s with
    | .cont L' s' => execL E k O fuel rest L' s'
    | .brk _ _ => .error .badop
    | .ret r => .ok (.ret r)
  | .retPlusNum x n, L, s => .ok (.ret ((L.ptr x).map (· + L.num n), s))
  | .cont, L, s => .ok (.cont L s)
  | .brk, L, s => .ok (.brk L s)

def runL (E : Env) (k : OK ρ) (O : Operands ρ) (fuel : Nat) (p : Prog) (s : St) (pos : Nat) : ORes :=
  match execL E k O fuel p (Loc.init pos) s with
  | .error e => .error e
  | .ok (.ret r) => .ok r
  | .ok _ => .error .badop

/-- sub-rule runners that leave the text window as they found it: hypothesis of the loop theorems whose model counterpart counts
    positions (`Op.toLoop`); true of `Op.run` (`Props.C12.op_run_keeps_window`, from `op_eq_den`) -/
def KeepsWindow (k : OK ρ) : Prop := ∀ r s p res s', k r s p = .ok (res, s') → s'.textEnd = s.textEnd

/-- sub-rule runners that return with the depth budget they were given (true of `Op.run`: `Props.C12.depth_balanced`); used
    where the C reads `s->depth` after a sub-rule call (the C-stack charge of RULE_REPLACE / RULE_MATCHTIME) -/
def KeepsDepth (k : OK ρ) : Prop := ∀ r s p res s', k r s p = .ok (res, s') → s'.depth = s.depth

/-- operand layout of the instructions covered (which `rule[k]` is which field of the decoded instruction; the decoder
    `Decode.decode`, tied by `decode_sizes_agree` and by correspondence, reads the same positions) -/
def opsRule (l : List (Nat × ρ)) : Nat → Option ρ := fun k => (l.find? (fun kr => kr.1 == k)).map (·.2)
def opsWord (l : List (Nat × Nat)) : Nat → Nat := fun k => ((l.find? (fun kw => kw.1 == k)).map (·.2)).getD 0

/-- The C loops have no fuel.  `Returns f r`: run with ANY sufficiently large Lean fuel, the IR program gives `r` - the meaning of a
    case body with loops that does not mention fuel (unique: `Returns.unique`; in particular `r` is not a fuel artefact of the IR). -/
def Returns {α : Type} (f : Nat → α) (r : α) : Prop := ∃ f0, ∀ fuel, f0 ≤ fuel → f fuel = r

theorem Returns.unique {α : Type} {f : Nat → α} {r r' : α} (h : Returns f r) (h' : Returns f r') : r = r' := by
  obtain ⟨a, ha⟩ := h
  obtain ⟨b, hb⟩ := h'
  rw [← ha (max a b) (Nat.le_max_left a b), ← hb (max a b) (Nat.le_max_right a b)]

end JanetModel.Peg.Skel
