/-
Executable model of the PEG compiler: `peg_compile1` (peg.c:1377-1532), the `spec_*` emitters of `peg_specials[]`, the
rule cache, keyword references, nested grammar tables and the constants table.

C side                                       model
-------------------------------------------  -------------------------------------------------------------------------
Builder.bytecode / .constants / .has_backref  `B.code` / `B.consts` / `B.hasBackref`
Builder.depth                                 the recursion parameter `d` of `compile1` (JANET_RECURSION_GUARD at the top)
Builder.grammar (JanetTable *, ->proto)       `g : Option Nat` = index into `B.heap` (`none` = the root table of compile_peg);
                                              a grammar table holds the keyword bindings (`rules`) AND the rule cache
                                              (`cache`: form -> rule address) exactly like the C table does
root table                                    `B.prims` (primitive forms: cached globally, `which_grammar = root`) and
                                              `B.root` (tuples compiled outside every grammar)
keyword loop `for (; i > 0 && keyword; --i)`  `resolveKw`  (janet_table_get_ex = `lookupKw`: found -> grammar moves to the
                                              table that binds the name; not found -> default grammar, grammar unchanged)
cache check / cache put                       `getCache` / `putCache` (tuples: rawget in the current table only)
case JANET_STRUCT                             new table (proto = current grammar), main rule compiled in it, NOT cached
reserve / emit_rule / emit_bytes              `reserve` / `patch` with the words of `encode`
spec_* (one per entry of peg_specials[])      `shape` (argument checks `peg_getnat`, `peg_getrange`, ... = the conditions) gives
                                              the instruction with the sub-FORMS as operands; `compileKids` compiles them in
                                              order (spec_variadic / spec_branch / spec_onerule / spec_cap1 / ...); `encode`
                                              lays out the header words (emit_1/2/3, emit_rule, emit_bytes)
emit_constant                                 `emitConst` (after the sub-rule, as in spec_replace / spec_matchtime)
b->has_backref = 1                            `readsTags` (spec_reference, spec_backmatch)

`B.log` and `Tbl.sc` are ghost fields (never read by the compiler): the list of (rule address, source closure) pairs of all
`peg_compile1` calls, and the lexical scope chain of a table.  They carry the simulation relation of `compile_correct`
(Peg/CompileLemmas.lean, Props/C12.lean).

Explicitly rejected by the model (`none`) although peg.c accepts: grammar nesting deeper than JANET_MAX_PROTO_DEPTH tables
(table lookups stop there), reference chains that cross nested grammars with more than 1023 links in total (each
peg_compile1 call allows 1023).  Tags are numbers here (the harness numbers keywords in `emit_tag` order).
Core Lean only.
-/
import JanetModel.Peg.Spec
import JanetModel.Peg.Decode
import JanetModel.Gen.Peg

namespace JanetModel.Peg

/-! ### structural equality of forms (janet_equals on the source data = key of the rule cache) -/

mutual
def Val.beq : Val → Val → Bool
  | .nil, .nil => true
  | .bool a, .bool b => a == b
  | .int a, .int b => a == b
  | .str a, .str b => a == b
  | .kw a, .kw b => a == b
  | .arr a, .arr b => Val.beqL a b
  | .s64 a, .s64 b => a == b
  | .u64 a, .u64 b => a == b
  | .struct a, .struct b => Val.beqS a b
  | .fn a, .fn b => a == b
  | _, _ => false
def Val.beqL : List Val → List Val → Bool
  | [], [] => true
  | a :: as, b :: bs => Val.beq a b && Val.beqL as bs
  | _, _ => false
def Val.beqS : List (Key × Val) → List (Key × Val) → Bool
  | [], [] => true
  | (k, a) :: as, (k', b) :: bs => k == k' && Val.beq a b && Val.beqS as bs
  | _, _ => false
end

open Spec in
mutual
def Spec.Patt.beq : Patt → Patt → Bool
  | .str a, .str b => a == b
  | .int a, .int b => a == b
  | .bool a, .bool b => a == b
  | .ref a, .ref b => a == b
  | .range a, .range b => a == b
  | .set a, .set b => a == b
  | .look o p, .look o' p' => o == o' && p.beq p'
  | .choice ps, .choice qs => Spec.Patt.beqL ps qs
  | .seq ps, .seq qs => Spec.Patt.beqL ps qs
  | .if_ c p, .if_ c' p' => c.beq c' && p.beq p'
  | .ifnot c p, .ifnot c' p' => c.beq c' && p.beq p'
  | .not p, .not p' => p.beq p'
  | .any p, .any p' => p.beq p'
  | .some p, .some p' => p.beq p'
  | .opt p, .opt p' => p.beq p'
  | .between lo hi p, .between lo' hi' p' => lo == lo' && hi == hi' && p.beq p'
  | .atleast n p, .atleast n' p' => n == n' && p.beq p'
  | .atmost n p, .atmost n' p' => n == n' && p.beq p'
  | .repeat_ n p, .repeat_ n' p' => n == n' && p.beq p'
  | .to p, .to p' => p.beq p'
  | .thru p, .thru p' => p.beq p'
  | .capture p t, .capture p' t' => t == t' && p.beq p'
  | .accumulate p t, .accumulate p' t' => t == t' && p.beq p'
  | .group p t, .group p' t' => t == t' && p.beq p'
  | .drop p, .drop p' => p.beq p'
  | .onlytags p, .onlytags p' => p.beq p'
  | .replace p v t, .replace p' v' t' => t == t' && Val.beq v v' && p.beq p'
  | .cmt p v t, .cmt p' v' t' => t == t' && Val.beq v v' && p.beq p'
  | .constant v t, .constant v' t' => t == t' && Val.beq v v'
  | .argument n t, .argument n' t' => n == n' && t == t'
  | .position t, .position t' => t == t'
  | .line t, .line t' => t == t'
  | .column t, .column t' => t == t'
  | .backref s t, .backref s' t' => s == s' && t == t'
  | .backmatch t, .backmatch t' => t == t'
  | .unref p t, .unref p' t' => t == t' && p.beq p'
  | .nth n p t, .nth n' p' t' => n == n' && t == t' && p.beq p'
  | .error none, .error none => true
  | .error (some p), .error (some p') => p.beq p'
  | .lenprefix a p, .lenprefix a' p' => a.beq a' && p.beq p'
  | .sub a p, .sub a' p' => a.beq a' && p.beq p'
  | .split a p, .split a' p' => a.beq a' && p.beq p'
  | .til a p, .til a' p' => a.beq a' && p.beq p'
  | .readint w s b t, .readint w' s' b' t' => w == w' && s == s' && b == b' && t == t'
  | .number p b t, .number p' b' t' => b == b' && t == t' && p.beq p'
  | .grammar rs, .grammar rs' => Spec.Patt.beqR rs rs'
  | _, _ => false
def Spec.Patt.beqL : List Patt → List Patt → Bool
  | [], [] => true
  | a :: as, b :: bs => a.beq b && Spec.Patt.beqL as bs
  | _, _ => false
def Spec.Patt.beqR : List (String × Patt) → List (String × Patt) → Bool
  | [], [] => true
  | (n, a) :: as, (m, b) :: bs => n == m && a.beq b && Spec.Patt.beqR as bs
  | _, _ => false
end

/-! ### instructions: operands that are sub-rules -/

def Instr.kids {ρ : Type} : Instr ρ → List ρ
  | .look _ r => [r]
  | .choice rs => rs
  | .sequence rs => rs
  | .if_ a b => [a, b]
  | .ifnot a b => [a, b]
  | .not a => [a]
  | .between _ _ r => [r]
  | .capture r _ => [r]
  | .accumulate r _ => [r]
  | .group r _ => [r]
  | .replace r _ _ => [r]
  | .matchtime r _ _ => [r]
  | .error r => [r]
  | .drop r => [r]
  | .to r => [r]
  | .thru r => [r]
  | .lenprefix a b => [a, b]
  | .unref r _ => [r]
  | .capturenum r _ _ => [r]
  | .sub a b => [a, b]
  | .til a b => [a, b]
  | .split a b => [a, b]
  | .nth _ r _ => [r]
  | .onlytags r => [r]
  | _ => []

/-- the same instruction with the sub-rule operands replaced, in order, by `ks` -/
def Instr.rebuild {ρ σ : Type} [Inhabited σ] : Instr ρ → List σ → Instr σ
  | .literal b, _ => .literal b
  | .nchar n, _ => .nchar n
  | .notnchar n, _ => .notnchar n
  | .range lo hi, _ => .range lo hi
  | .set bm, _ => .set bm
  | .look o _, ks => .look o (ks.getD 0 default)
  | .choice _, ks => .choice ks
  | .sequence _, ks => .sequence ks
  | .if_ _ _, ks => .if_ (ks.getD 0 default) (ks.getD 1 default)
  | .ifnot _ _, ks => .ifnot (ks.getD 0 default) (ks.getD 1 default)
  | .not _, ks => .not (ks.getD 0 default)
  | .between lo hi _, ks => .between lo hi (ks.getD 0 default)
  | .gettag s t, _ => .gettag s t
  | .capture _ t, ks => .capture (ks.getD 0 default) t
  | .position t, _ => .position t
  | .argument i t, _ => .argument i t
  | .constant v t, _ => .constant v t
  | .accumulate _ t, ks => .accumulate (ks.getD 0 default) t
  | .group _ t, ks => .group (ks.getD 0 default) t
  | .replace _ v t, ks => .replace (ks.getD 0 default) v t
  | .matchtime _ v t, ks => .matchtime (ks.getD 0 default) v t
  | .error _, ks => .error (ks.getD 0 default)
  | .drop _, ks => .drop (ks.getD 0 default)
  | .backmatch t, _ => .backmatch t
  | .to _, ks => .to (ks.getD 0 default)
  | .thru _, ks => .thru (ks.getD 0 default)
  | .lenprefix _ _, ks => .lenprefix (ks.getD 0 default) (ks.getD 1 default)
  | .readint f t, _ => .readint f t
  | .line t, _ => .line t
  | .column t, _ => .column t
  | .unref _ t, ks => .unref (ks.getD 0 default) t
  | .capturenum _ b t, ks => .capturenum (ks.getD 0 default) b t
  | .sub _ _, ks => .sub (ks.getD 0 default) (ks.getD 1 default)
  | .til _ _, ks => .til (ks.getD 0 default) (ks.getD 1 default)
  | .split _ _, ks => .split (ks.getD 0 default) (ks.getD 1 default)
  | .nth n _ t, ks => .nth n (ks.getD 0 default) t
  | .onlytags _, ks => .onlytags (ks.getD 0 default)

/-- the constant operand (RULE_CONSTANT, RULE_REPLACE, RULE_MATCHTIME index the constants table) -/
def Instr.constOf {ρ : Type} : Instr ρ → Option Val
  | .constant v _ => some v
  | .replace _ v _ => some v
  | .matchtime _ v _ => some v
  | _ => none

/-- spec_reference / spec_backmatch set `b->has_backref` -/
def Instr.readsTags {ρ : Type} : Instr ρ → Bool
  | .gettag _ _ => true
  | .backmatch _ => true
  | _ => false

namespace Compile
open JanetModel.Peg.Spec JanetModel.Gen.Peg

instance : Inhabited Closure := ⟨⟨[], .bool true⟩⟩

/-- emit_bytes: bytes packed little-endian into 32-bit words -/
def packBytes : List Nat → List Nat
  | [] => []
  | [a] => [a]
  | [a, b] => [a + 256 * b]
  | [a, b, c] => [a + 256 * b + 65536 * c]
  | a :: b :: c :: d :: rest => (a + 256 * b + 65536 * c + 16777216 * d) :: packBytes rest

/-- `(uint32_t) offset` -/
def u32 (n : Int) : Nat := if n < 0 then (n + 4294967296).toNat else n.toNat

/-- header words of a rule (emit_1 / emit_2 / emit_3 / emit_rule / emit_bytes / spec_variadic); `c` = constants index -/
def encode : Instr Nat → Nat → List Nat
  | .literal b, _ => [RULE_LITERAL, b.length] ++ packBytes b
  | .nchar n, _ => [RULE_NCHAR, n]
  | .notnchar n, _ => [RULE_NOTNCHAR, n]
  | .range lo hi, _ => [RULE_RANGE, lo + 65536 * hi]
  | .set bm, _ => RULE_SET :: bm
  | .look o r, _ => [RULE_LOOK, u32 o, r]
  | .choice rs, _ => [RULE_CHOICE, rs.length] ++ rs
  | .sequence rs, _ => [RULE_SEQUENCE, rs.length] ++ rs
  | .if_ a b, _ => [RULE_IF, a, b]
  | .ifnot a b, _ => [RULE_IFNOT, a, b]
  | .not a, _ => [RULE_NOT, a]
  | .between lo hi r, _ => [RULE_BETWEEN, lo, hi, r]
  | .gettag s t, _ => [RULE_GETTAG, s, t]
  | .capture r t, _ => [RULE_CAPTURE, r, t]
  | .position t, _ => [RULE_POSITION, t]
  | .argument i t, _ => [RULE_ARGUMENT, i, t]
  | .constant _ t, c => [RULE_CONSTANT, c, t]
  | .accumulate r t, _ => [RULE_ACCUMULATE, r, t]
  | .group r t, _ => [RULE_GROUP, r, t]
  | .replace r _ t, c => [RULE_REPLACE, r, c, t]
  | .matchtime r _ t, c => [RULE_MATCHTIME, r, c, t]
  | .error r, _ => [RULE_ERROR, r]
  | .drop r, _ => [RULE_DROP, r]
  | .backmatch t, _ => [RULE_BACKMATCH, t]
  | .to r, _ => [RULE_TO, r]
  | .thru r, _ => [RULE_THRU, r]
  | .lenprefix a b, _ => [RULE_LENPREFIX, a, b]
  | .readint f t, _ => [RULE_READINT, f, t]
  | .line t, _ => [RULE_LINE, t]
  | .column t, _ => [RULE_COLUMN, t]
  | .unref r t, _ => [RULE_UNREF, r, t]
  | .capturenum r b t, _ => [RULE_CAPTURE_NUM, r, b, t]
  | .sub a b, _ => [RULE_SUB, a, b]
  | .til a b, _ => [RULE_TIL, a, b]
  | .split a b, _ => [RULE_SPLIT, a, b]
  | .nth n r t, _ => [RULE_NTH, n, r, t]
  | .onlytags r, _ => [RULE_ONLY_TAGS, r]

/-- words reserved for the rule header (`reserve(b, n)`; for literals and variadic rules the pushes of emit_bytes /
    spec_variadic) -/
def encSize {ρ : Type} (i : Instr ρ) : Nat := (encode (i.rebuild (i.kids.map (fun _ => 0))) 0).length

def isInt32 (n : Int) : Bool := -2147483648 ≤ n && n ≤ 2147483647
def isNat31 (n : Nat) : Bool := n ≤ int32Max
def okTag (t : Nat) : Bool := t ≤ 255

/-- One source tuple / primitive as the instruction it compiles to, sub-forms as operands; `none` = peg_panic (argument
    checks of the spec_* function) or not a tuple / primitive (keyword, struct). -/
def shape : Patt → Option (Instr Patt)
  | .str b => if b.all (· < 256) then some (.literal b) else none
  | .int n => if isInt32 n then some (if n < 0 then .notnchar (-n).toNat else .nchar n.toNat) else none
  | .bool true => some (.nchar 0)
  | .bool false => some (.notnchar 0)
  | .ref _ => none
  | .grammar _ => none
  | .range [] => none                                                    -- spec_range: peg_arity(b, argc, 1, -1)
  | .range [(lo, hi)] => if lo ≤ hi ∧ hi < 256 then some (.range lo hi) else none
  | .range rs =>
    if rs.all (fun r => r.1 ≤ r.2 ∧ r.2 < 256) then some (.set (bitmapOf (fun c => rs.any (fun r => r.1 ≤ c ∧ c ≤ r.2))))
    else none
  | .set chars => some (.set (bitmapOf (fun c => chars.contains c)))
  | .look off q => if isInt32 off then some (.look off q) else none      -- spec_look
  | .choice ps => some (.choice ps)                                       -- spec_choice -> spec_variadic
  | .seq ps => some (.sequence ps)                                        -- spec_sequence -> spec_variadic
  | .if_ c q => some (.if_ c q)                                           -- spec_if -> spec_branch
  | .ifnot c q => some (.ifnot c q)                                       -- spec_ifnot -> spec_branch
  | .not q => some (.not q)                                               -- spec_not -> spec_onerule
  | .any q => some (.between 0 uintMax q)                                 -- spec_any -> spec_repeater 0
  | .some q => some (.between 1 uintMax q)                                -- spec_some -> spec_repeater 1
  | .opt q => some (.between 0 1 q)                                       -- spec_opt
  | .between lo hi q => if isNat31 lo && isNat31 hi then some (.between lo hi q) else none   -- spec_between
  | .atleast n q => if isNat31 n then some (.between n uintMax q) else none                  -- spec_atleast
  | .atmost n q => if isNat31 n then some (.between 0 n q) else none                         -- spec_atmost
  | .repeat_ n q => if isNat31 n then some (.between n n q) else none                        -- spec_repeat / (n patt)
  | .to q => some (.to q)                                                 -- spec_to -> spec_onerule
  | .thru q => some (.thru q)
  | .capture q tag => if okTag tag then some (.capture q tag) else none   -- spec_capture -> spec_cap1
  | .accumulate q tag => if okTag tag then some (.accumulate q tag) else none
  | .group q tag => if okTag tag then some (.group q tag) else none
  | .drop q => some (.drop q)
  | .onlytags q => some (.onlytags q)
  | .replace q v tag => if okTag tag then some (.replace q v tag) else none                  -- spec_replace
  | .cmt q (.fn f) tag => if okTag tag then some (.matchtime q (.fn f) tag) else none        -- spec_matchtime
  | .cmt _ _ _ => none                                                    -- "expected function or cfunction"
  | .constant v tag => if okTag tag then some (.constant v tag) else none -- spec_constant
  | .argument n tag => if isNat31 n && okTag tag then some (.argument n tag) else none       -- spec_argument
  | .position tag => if okTag tag then some (.position tag) else none     -- spec_position -> spec_tag1
  | .line tag => if okTag tag then some (.line tag) else none
  | .column tag => if okTag tag then some (.column tag) else none
  | .backref s tag => if okTag s && okTag tag then some (.gettag s tag) else none            -- spec_reference
  | .backmatch tag => if okTag tag then some (.backmatch tag) else none   -- spec_backmatch -> spec_tag1
  | .unref q tag => if okTag tag then some (.unref q tag) else none
  | .nth n q tag => if isNat31 n && okTag tag then some (.nth n q tag) else none             -- spec_nth
  | .error none => some (.error (.int 0))                                 -- spec_error, argc == 0: compiles the number 0
  | .error (some q) => some (.error q)
  | .lenprefix n q => some (.lenprefix n q)                               -- spec_lenprefix -> spec_branch
  | .sub w q => some (.sub w q)
  | .split s q => some (.split s q)
  | .til t q => some (.til t q)
  | .readint w sg be tag =>                                               -- spec_readint (mask 0x10 signed, 0x20 big endian)
    if w ≤ maxReadintWidth && okTag tag then some (.readint (w + (if sg then 16 else 0) + (if be then 32 else 0)) tag) else none
  | .number q base tag =>                                                 -- spec_capture_number
    if (base == 0 || (2 ≤ base && base ≤ 36)) && okTag tag then some (.capturenum q base tag) else none

def asRef : Patt → Option String
  | .ref n => some n
  | _ => none

def asGrammar : Patt → Option Scope
  | .grammar rs => some rs
  | _ => none

/-- primitive patterns go to the global cache (root grammar table) -/
def isPrim : Patt → Bool
  | .str _ => true
  | .int _ => true
  | .bool _ => true
  | _ => false

/-- a grammar table: keyword bindings + rule cache, `proto` = enclosing table (`none` = root) -/
structure Tbl where
  rules : Scope
  cache : List (Patt × Nat)
  proto : Option Nat
  level : Nat
  sc : List Scope          -- ghost: `rules` of this table and of its protos, innermost first

structure B where
  code : List Nat
  consts : List Val
  hasBackref : Bool
  prims : List (Patt × Nat)
  root : List (Patt × Nat)
  heap : List Tbl
  log : List (Nat × Closure)   -- ghost

def B.empty : B := ⟨[], [], false, [], [], [], []⟩

def scOf (heap : List Tbl) : Option Nat → List Scope
  | none => []
  | some id => match heap[id]? with
    | some t => t.sc
    | none => []

def levelOf (heap : List Tbl) : Option Nat → Nat
  | none => 0
  | some id => match heap[id]? with
    | some t => t.level
    | none => 0

/-- janet_table_get_ex on a keyword: walk the proto chain (at most JANET_MAX_PROTO_DEPTH tables; nesting is bounded by
    `maxProtoDepth` below, so the bound is never the reason for a miss); the root table binds no keywords -/
def lookupKw (heap : List Tbl) : Nat → Option Nat → String → Option (Nat × Patt)
  | 0, _, _ => none
  | _ + 1, none, _ => none
  | f + 1, some id, name =>
    match heap[id]? with
    | none => none
    | some t =>
      match lookupScope t.rules name with
      | some p => some (id, p)
      | none => lookupKw heap f t.proto name

abbrev maxProtoDepth : Nat := 200

/-- the keyword loop at the head of peg_compile1; returns the grammar, the form and what is left of `i` -/
def resolveKw (dflt : Scope) (heap : List Tbl) : Nat → Option Nat → Patt → Option (Option Nat × Patt × Nat)
  | 0, _, _ => none                                        -- `if (i == 0) peg_panic("reference chain too deep")`
  | i + 1, g, p =>
    match asRef p with
    | none => some (g, p, i + 1)
    | some name =>
      match lookupKw heap (maxProtoDepth + 1) g name with
      | some (g', q) => resolveKw dflt heap i (some g') q
      | none =>
        match lookupScope dflt name with
        | some q => resolveKw dflt heap i g q
        | none => none                                     -- "unknown rule"

def lookupCache (c : List (Patt × Nat)) (q : Patt) : Option Nat := (c.find? (fun e => e.1.beq q)).map (·.2)

def getCache (b : B) (g : Option Nat) (q : Patt) : Option Nat :=
  if isPrim q then lookupCache b.prims q
  else match g with
    | none => lookupCache b.root q
    | some id => match b.heap[id]? with
      | some t => lookupCache t.cache q
      | none => none

def putCache (b : B) (g : Option Nat) (q : Patt) (rule : Nat) : B :=
  if isPrim q then { b with prims := (q, rule) :: b.prims }
  else match g with
    | none => { b with root := (q, rule) :: b.root }
    | some id => { b with heap := b.heap.modify id (fun t => { t with cache := (q, rule) :: t.cache }) }

def reserve (b : B) (n : Nat) : B := { b with code := b.code ++ List.replicate n 0 }

/-- memcpy of the header words into the reserved slot -/
def patch (code : List Nat) (r : Nat) (ws : List Nat) : List Nat :=
  (List.range code.length).map (fun k => if r ≤ k ∧ k < r + ws.length then ws.getD (k - r) 0 else code.getD k 0)

def emitConst {ρ : Type} (i : Instr ρ) (b : B) : Nat × B :=
  match i.constOf with
  | some v => (b.consts.length, { b with consts := b.consts ++ [v] })
  | none => (0, b)

def B.addLog (b : B) (a : Nat) (c : Closure) : B := { b with log := (a, c) :: b.log }

/-- the sub-forms one after the other (each `peg_compile1(b, argv[i])` of a spec_* function) -/
def compileKids (k : B → Option Nat → Patt → Option (Nat × Nat × B)) : B → Option Nat → List Patt → Option (List Nat × B)
  | b, _, [] => some ([], b)
  | b, g, p :: ps =>
    match k b g p with
    | none => none
    | some (a, _, b1) =>
      match compileKids k b1 g ps with
      | none => none
      | some (as, b2) => some (a :: as, b2)

abbrev guard : Nat := recursionGuard
/-- longest reference chain `Spec.fetch` follows -/
abbrev maxHops : Nat := 1023

/-- peg_compile1.  Result: rule address, number of keyword / grammar links followed, builder. -/
def compile1 (dflt : Scope) : Nat → B → Option Nat → Patt → Option (Nat × Nat × B)
  | d, b, g, p =>
    match resolveKw dflt b.heap guard g p with
    | none => none
    | some (g1, q, il) =>
      let kh := guard - il
      let c : Closure := ⟨scOf b.heap g, p⟩
      match getCache b g1 q with
      | some a => some (a, kh, b.addLog a c)
      | none =>
        match d with
        | 0 => none                                          -- "peg grammar recursed too deeply"
        | d' + 1 =>
          let rule := b.code.length
          match asGrammar q with
          | some rules =>
            match lookupScope rules "main" with
            | none => none                                   -- "grammar requires :main rule"
            | some m =>
              if levelOf b.heap g1 + 1 ≥ maxProtoDepth then none else
              let t : Tbl := ⟨rules, [], g1, levelOf b.heap g1 + 1, rules :: scOf b.heap g1⟩
              match compile1 dflt d' { b with heap := b.heap ++ [t] } (some b.heap.length) m with
              | none => none
              | some (a, h2, b2) =>
                if kh + 1 + h2 > maxHops then none else some (a, kh + 1 + h2, b2.addLog a c)
          | none =>
            match shape q with
            | none => none
            | some i =>
              let b1 := reserve (putCache b g1 q rule) (encSize i)
              match compileKids (compile1 dflt d') b1 g1 i.kids with
              | none => none
              | some (addrs, b2) =>
                let cb := emitConst i b2
                let b4 : B := { cb.2 with code := patch cb.2.code rule (encode (i.rebuild addrs) cb.1),
                                          hasBackref := cb.2.hasBackref || i.readsTags }
                some (rule, kh, b4.addLog rule c)

structure Output where
  entry : Nat
  code : List Nat
  consts : List Val
  hasBackref : Bool
  log : List (Nat × Closure)

/-- compile_peg: empty root table, depth JANET_RECURSION_GUARD -/
def compile (dflt : Scope) (p : Patt) : Option Output :=
  match compile1 dflt guard B.empty none p with
  | none => none
  | some (a, _, b) => some ⟨a, b.code, b.consts, b.hasBackref, b.log⟩

def Output.program (o : Output) : Program := { bytecode := o.code.toArray, constants := o.consts.toArray }

end Compile
end JanetModel.Peg
