/-
Executable model of the PEG compiler: `peg_compile1` (peg.c:1377-1532), the `spec_*` emitters of `peg_specials[]`, the
rule cache, keyword references, nested grammar tables and the constants table.

C side                                       model
-------------------------------------------  -------------------------------------------------------------------------
Builder.bytecode / .constants / .has_backref  `B.code` / `B.consts` / `B.hasBackref`
Builder.depth                                 the recursion parameter `d` of `compile1` (JANET_RECURSION_GUARD at the top)
Builder.grammar (JanetTable *, ->proto)       `g : Option Nat` = index into `B.heap` (`none` = the root table of compile_peg);
                                              a grammar table holds the keyword bindings (`rules`) AND the rule cache
                                              (`cache`: form -> rule address) exactly like the C table does
root table                                    `B.prims` (primitive forms: cached globally, `which_grammar = root`) and
                                              `B.root` (tuples compiled outside every grammar)
keyword loop `for (; i > 0 && keyword; --i)`  `resolveKw`  (janet_table_get_ex = `lookupKw`: found -> grammar moves to the
                                              table that binds the name; not found -> default grammar, grammar unchanged)
cache check / cache put                       `getCache` / `putCache` (tuples: rawget in the current table only)
case JANET_STRUCT                             new table (proto = current grammar), main rule compiled in it, NOT cached
reserve / emit_rule / emit_bytes              `reserve` / `patch` with the words of `encode`
spec_* (one per entry of peg_specials[])      `shape` (argument checks `peg_getnat`, `peg_getrange`, ... = the conditions) gives
                                              the instruction with the sub-FORMS as operands; `compileKids` compiles them in
                                              order (spec_variadic / spec_branch / spec_onerule / spec_cap1 / ...); `encode`
                                              lays out the header words (emit_1/2/3, emit_rule, emit_bytes)
emit_constant                                 `emitConst` (after the sub-rule, as in spec_replace / spec_matchtime)
b->has_backref = 1                            `readsTags` (spec_reference, spec_backmatch)

`B.log` and `Tbl.sc` are ghost fields (never read by the compiler): the list of (rule address, source closure) pairs of all
`peg_compile1` calls, and the lexical scope chain of a table.  They carry the simulation relation of `compile_correct`
(Peg/CompileLemmas.lean, Props/C12.lean).

Explicitly rejected by the model (`none`) although peg.c accepts: grammar nesting deeper than JANET_MAX_PROTO_DEPTH tables
(table lookups stop there), reference chains that cross nested grammars with more than 1023 links in total (each
peg_compile1 call allows 1023).  Tags are numbers here (the harness numbers keywords in `emit_tag` order).
Core Lean only.
-/
import JanetModel.Peg.Spec
import JanetModel.Peg.Decode
import JanetModel.Gen.Peg

namespace JanetModel.Peg

/-! ### structural equality of forms (janet_equals on the source data = key of the rule cache) -/

mutual
def Val.beq : Val → Val → Bool
  | .nil, .nil => true
  | .bool a, .bool b => a == b
  | .int a, .int b => a == b
  | .str a, .str b => a == b
  | .kw a, .kw b => a == b
  | .arr a, .arr b => Val.beqL a b
  | .s64 a, .s64 b => a == b
  | .u64 a, .u64 b => a == b
  | .struct a, .struct b => Val.beqS a b
  | .fn a, .fn b => a == b
  | _, _ => false
def Val.beqL : List Val → List Val → Bool
  | [], [] => true
  | a :: as, b :: bs => Val.beq a b && Val.beqL as bs
  | _, _ => false
def Val.beqS : List (Key × Val) → List (Key × Val) → Bool
  | [], [] => true
  | (k, a) :: as, (k', b) :: bs => k == k' && Val.beq a b && Val.beqS as bs
  | _, _ => false
end

/-! destructors: `as_look q = some (off, p)` iff `q = .look off p` (the comparison below is by the constructor of the left form) -/
section
open Spec
def Spec.Patt.as_str : Patt → Option ((List Nat))
  | .str b => Option.some b
  | _ => none
def Spec.Patt.as_int : Patt → Option (Int)
  | .int n => Option.some n
  | _ => none
def Spec.Patt.as_bool : Patt → Option (Bool)
  | .bool b => Option.some b
  | _ => none
def Spec.Patt.as_ref : Patt → Option (String)
  | .ref name => Option.some name
  | _ => none
def Spec.Patt.as_range : Patt → Option ((List (Nat × Nat)))
  | .range rs => Option.some rs
  | _ => none
def Spec.Patt.as_set : Patt → Option ((List Nat))
  | .set chars => Option.some chars
  | _ => none
def Spec.Patt.as_look : Patt → Option (Int × Patt)
  | .look off p => Option.some (off, p)
  | _ => none
def Spec.Patt.as_choice : Patt → Option ((List Patt))
  | .choice ps => Option.some ps
  | _ => none
def Spec.Patt.as_seq : Patt → Option ((List Patt))
  | .seq ps => Option.some ps
  | _ => none
def Spec.Patt.as_if : Patt → Option (Patt × Patt)
  | .if_ c p => Option.some (c, p)
  | _ => none
def Spec.Patt.as_ifnot : Patt → Option (Patt × Patt)
  | .ifnot c p => Option.some (c, p)
  | _ => none
def Spec.Patt.as_not : Patt → Option (Patt)
  | .not p => Option.some p
  | _ => none
def Spec.Patt.as_any : Patt → Option (Patt)
  | .any p => Option.some p
  | _ => none
def Spec.Patt.as_some : Patt → Option (Patt)
  | .some p => Option.some p
  | _ => none
def Spec.Patt.as_opt : Patt → Option (Patt)
  | .opt p => Option.some p
  | _ => none
def Spec.Patt.as_between : Patt → Option (Nat × Nat × Patt)
  | .between lo hi p => Option.some (lo, hi, p)
  | _ => none
def Spec.Patt.as_atleast : Patt → Option (Nat × Patt)
  | .atleast n p => Option.some (n, p)
  | _ => none
def Spec.Patt.as_atmost : Patt → Option (Nat × Patt)
  | .atmost n p => Option.some (n, p)
  | _ => none
def Spec.Patt.as_repeat : Patt → Option (Nat × Patt)
  | .repeat_ n p => Option.some (n, p)
  | _ => none
def Spec.Patt.as_to : Patt → Option (Patt)
  | .to p => Option.some p
  | _ => none
def Spec.Patt.as_thru : Patt → Option (Patt)
  | .thru p => Option.some p
  | _ => none
def Spec.Patt.as_capture : Patt → Option (Patt × Nat)
  | .capture p tag => Option.some (p, tag)
  | _ => none
def Spec.Patt.as_accumulate : Patt → Option (Patt × Nat)
  | .accumulate p tag => Option.some (p, tag)
  | _ => none
def Spec.Patt.as_group : Patt → Option (Patt × Nat)
  | .group p tag => Option.some (p, tag)
  | _ => none
def Spec.Patt.as_drop : Patt → Option (Patt)
  | .drop p => Option.some p
  | _ => none
def Spec.Patt.as_onlytags : Patt → Option (Patt)
  | .onlytags p => Option.some p
  | _ => none
def Spec.Patt.as_replace : Patt → Option (Patt × Val × Nat)
  | .replace p v tag => Option.some (p, v, tag)
  | _ => none
def Spec.Patt.as_cmt : Patt → Option (Patt × Val × Nat)
  | .cmt p v tag => Option.some (p, v, tag)
  | _ => none
def Spec.Patt.as_constant : Patt → Option (Val × Nat)
  | .constant v tag => Option.some (v, tag)
  | _ => none
def Spec.Patt.as_argument : Patt → Option (Nat × Nat)
  | .argument n tag => Option.some (n, tag)
  | _ => none
def Spec.Patt.as_position : Patt → Option (Nat)
  | .position tag => Option.some tag
  | _ => none
def Spec.Patt.as_line : Patt → Option (Nat)
  | .line tag => Option.some tag
  | _ => none
def Spec.Patt.as_column : Patt → Option (Nat)
  | .column tag => Option.some tag
  | _ => none
def Spec.Patt.as_backref : Patt → Option (Nat × Nat)
  | .backref s tag => Option.some (s, tag)
  | _ => none
def Spec.Patt.as_backmatch : Patt → Option (Nat)
  | .backmatch tag => Option.some tag
  | _ => none
def Spec.Patt.as_unref : Patt → Option (Patt × Nat)
  | .unref p tag => Option.some (p, tag)
  | _ => none
def Spec.Patt.as_nth : Patt → Option (Nat × Patt × Nat)
  | .nth n p tag => Option.some (n, p, tag)
  | _ => none
def Spec.Patt.as_error : Patt → Option ((Option Patt))
  | .error o => Option.some o
  | _ => none
def Spec.Patt.as_lenprefix : Patt → Option (Patt × Patt)
  | .lenprefix a p => Option.some (a, p)
  | _ => none
def Spec.Patt.as_sub : Patt → Option (Patt × Patt)
  | .sub a p => Option.some (a, p)
  | _ => none
def Spec.Patt.as_split : Patt → Option (Patt × Patt)
  | .split a p => Option.some (a, p)
  | _ => none
def Spec.Patt.as_til : Patt → Option (Patt × Patt)
  | .til a p => Option.some (a, p)
  | _ => none
def Spec.Patt.as_readint : Patt → Option (Nat × Bool × Bool × Nat)
  | .readint w sg be tag => Option.some (w, sg, be, tag)
  | _ => none
def Spec.Patt.as_number : Patt → Option (Patt × Nat × Nat)
  | .number p base tag => Option.some (p, base, tag)
  | _ => none
def Spec.Patt.as_grammar : Patt → Option ((List (String × Patt)))
  | .grammar rs => Option.some rs
  | _ => none

mutual
def Spec.Patt.beq : Patt → Patt → Bool
  | .str b, q => match q.as_str with
    | Option.some b' => b == b'
    | none => false
  | .int n, q => match q.as_int with
    | Option.some n' => n == n'
    | none => false
  | .bool b, q => match q.as_bool with
    | Option.some b' => b == b'
    | none => false
  | .ref name, q => match q.as_ref with
    | Option.some name' => name == name'
    | none => false
  | .range rs, q => match q.as_range with
    | Option.some rs' => rs == rs'
    | none => false
  | .set chars, q => match q.as_set with
    | Option.some chars' => chars == chars'
    | none => false
  | .look off p, q => match q.as_look with
    | Option.some (off', p') => off == off' && p.beq p'
    | none => false
  | .choice ps, q => match q.as_choice with
    | Option.some ps' => Spec.Patt.beqL ps ps'
    | none => false
  | .seq ps, q => match q.as_seq with
    | Option.some ps' => Spec.Patt.beqL ps ps'
    | none => false
  | .if_ c p, q => match q.as_if with
    | Option.some (c', p') => c.beq c' && p.beq p'
    | none => false
  | .ifnot c p, q => match q.as_ifnot with
    | Option.some (c', p') => c.beq c' && p.beq p'
    | none => false
  | .not p, q => match q.as_not with
    | Option.some p' => p.beq p'
    | none => false
  | .any p, q => match q.as_any with
    | Option.some p' => p.beq p'
    | none => false
  | .some p, q => match q.as_some with
    | Option.some p' => p.beq p'
    | none => false
  | .opt p, q => match q.as_opt with
    | Option.some p' => p.beq p'
    | none => false
  | .between lo hi p, q => match q.as_between with
    | Option.some (lo', hi', p') => lo == lo' && hi == hi' && p.beq p'
    | none => false
  | .atleast n p, q => match q.as_atleast with
    | Option.some (n', p') => n == n' && p.beq p'
    | none => false
  | .atmost n p, q => match q.as_atmost with
    | Option.some (n', p') => n == n' && p.beq p'
    | none => false
  | .repeat_ n p, q => match q.as_repeat with
    | Option.some (n', p') => n == n' && p.beq p'
    | none => false
  | .to p, q => match q.as_to with
    | Option.some p' => p.beq p'
    | none => false
  | .thru p, q => match q.as_thru with
    | Option.some p' => p.beq p'
    | none => false
  | .capture p tag, q => match q.as_capture with
    | Option.some (p', tag') => p.beq p' && tag == tag'
    | none => false
  | .accumulate p tag, q => match q.as_accumulate with
    | Option.some (p', tag') => p.beq p' && tag == tag'
    | none => false
  | .group p tag, q => match q.as_group with
    | Option.some (p', tag') => p.beq p' && tag == tag'
    | none => false
  | .drop p, q => match q.as_drop with
    | Option.some p' => p.beq p'
    | none => false
  | .onlytags p, q => match q.as_onlytags with
    | Option.some p' => p.beq p'
    | none => false
  | .replace p v tag, q => match q.as_replace with
    | Option.some (p', v', tag') => p.beq p' && Val.beq v v' && tag == tag'
    | none => false
  | .cmt p v tag, q => match q.as_cmt with
    | Option.some (p', v', tag') => p.beq p' && Val.beq v v' && tag == tag'
    | none => false
  | .constant v tag, q => match q.as_constant with
    | Option.some (v', tag') => Val.beq v v' && tag == tag'
    | none => false
  | .argument n tag, q => match q.as_argument with
    | Option.some (n', tag') => n == n' && tag == tag'
    | none => false
  | .position tag, q => match q.as_position with
    | Option.some tag' => tag == tag'
    | none => false
  | .line tag, q => match q.as_line with
    | Option.some tag' => tag == tag'
    | none => false
  | .column tag, q => match q.as_column with
    | Option.some tag' => tag == tag'
    | none => false
  | .backref s tag, q => match q.as_backref with
    | Option.some (s', tag') => s == s' && tag == tag'
    | none => false
  | .backmatch tag, q => match q.as_backmatch with
    | Option.some tag' => tag == tag'
    | none => false
  | .unref p tag, q => match q.as_unref with
    | Option.some (p', tag') => p.beq p' && tag == tag'
    | none => false
  | .nth n p tag, q => match q.as_nth with
    | Option.some (n', p', tag') => n == n' && p.beq p' && tag == tag'
    | none => false
  | .error o, q => match q.as_error with
    | Option.some o' => Spec.Patt.beqO o o'
    | none => false
  | .lenprefix a p, q => match q.as_lenprefix with
    | Option.some (a', p') => a.beq a' && p.beq p'
    | none => false
  | .sub a p, q => match q.as_sub with
    | Option.some (a', p') => a.beq a' && p.beq p'
    | none => false
  | .split a p, q => match q.as_split with
    | Option.some (a', p') => a.beq a' && p.beq p'
    | none => false
  | .til a p, q => match q.as_til with
    | Option.some (a', p') => a.beq a' && p.beq p'
    | none => false
  | .readint w sg be tag, q => match q.as_readint with
    | Option.some (w', sg', be', tag') => w == w' && sg == sg' && be == be' && tag == tag'
    | none => false
  | .number p base tag, q => match q.as_number with
    | Option.some (p', base', tag') => p.beq p' && base == base' && tag == tag'
    | none => false
  | .grammar rs, q => match q.as_grammar with
    | Option.some rs' => Spec.Patt.beqR rs rs'
    | none => false
def Spec.Patt.beqL : List Patt → List Patt → Bool
  | [], [] => true
  | a :: as, b :: bs => a.beq b && Spec.Patt.beqL as bs
  | _, _ => false
def Spec.Patt.beqO : Option Patt → Option Patt → Bool
  | none, none => true
  | Option.some a, Option.some b => a.beq b
  | _, _ => false
def Spec.Patt.beqR : List (String × Patt) → List (String × Patt) → Bool
  | [], [] => true
  | (n, a) :: as, (m, b) :: bs => n == m && a.beq b && Spec.Patt.beqR as bs
  | _, _ => false
end
end

/-! ### instructions: operands that are sub-rules -/

def Instr.kids {ρ : Type} : Instr ρ → List ρ
  | .look _ r => [r]
  | .choice rs => rs
  | .sequence rs => rs
  | .if_ a b => [a, b]
  | .ifnot a b => [a, b]
  | .not a => [a]
  | .between _ _ r => [r]
  | .capture r _ => [r]
  | .accumulate r _ => [r]
  | .group r _ => [r]
  | .replace r _ _ => [r]
  | .matchtime r _ _ => [r]
  | .error r => [r]
  | .drop r => [r]
  | .to r => [r]
  | .thru r => [r]
  | .lenprefix a b => [a, b]
  | .unref r _ => [r]
  | .capturenum r _ _ => [r]
  | .sub a b => [a, b]
  | .til a b => [a, b]
  | .split a b => [a, b]
  | .nth _ r _ => [r]
  | .onlytags r => [r]
  | _ => []

/-- the same instruction with the sub-rule operands replaced, in order, by `ks` -/
def Instr.rebuild {ρ σ : Type} [Inhabited σ] : Instr ρ → List σ → Instr σ
  | .literal b, _ => .literal b
  | .nchar n, _ => .nchar n
  | .notnchar n, _ => .notnchar n
  | .range lo hi, _ => .range lo hi
  | .set bm, _ => .set bm
  | .look o _, ks => .look o (ks.getD 0 default)
  | .choice _, ks => .choice ks
  | .sequence _, ks => .sequence ks
  | .if_ _ _, ks => .if_ (ks.getD 0 default) (ks.getD 1 default)
  | .ifnot _ _, ks => .ifnot (ks.getD 0 default) (ks.getD 1 default)
  | .not _, ks => .not (ks.getD 0 default)
  | .between lo hi _, ks => .between lo hi (ks.getD 0 default)
  | .gettag s t, _ => .gettag s t
  | .capture _ t, ks => .capture (ks.getD 0 default) t
  | .position t, _ => .position t
  | .argument i t, _ => .argument i t
  | .constant v t, _ => .constant v t
  | .accumulate _ t, ks => .accumulate (ks.getD 0 default) t
  | .group _ t, ks => .group (ks.getD 0 default) t
  | .replace _ v t, ks => .replace (ks.getD 0 default) v t
  | .matchtime _ v t, ks => .matchtime (ks.getD 0 default) v t
  | .error _, ks => .error (ks.getD 0 default)
  | .drop _, ks => .drop (ks.getD 0 default)
  | .backmatch t, _ => .backmatch t
  | .to _, ks => .to (ks.getD 0 default)
  | .thru _, ks => .thru (ks.getD 0 default)
  | .lenprefix _ _, ks => .lenprefix (ks.getD 0 default) (ks.getD 1 default)
  | .readint f t, _ => .readint f t
  | .line t, _ => .line t
  | .column t, _ => .column t
  | .unref _ t, ks => .unref (ks.getD 0 default) t
  | .capturenum _ b t, ks => .capturenum (ks.getD 0 default) b t
  | .sub _ _, ks => .sub (ks.getD 0 default) (ks.getD 1 default)
  | .til _ _, ks => .til (ks.getD 0 default) (ks.getD 1 default)
  | .split _ _, ks => .split (ks.getD 0 default) (ks.getD 1 default)
  | .nth n _ t, ks => .nth n (ks.getD 0 default) t
  | .onlytags _, ks => .onlytags (ks.getD 0 default)

/-- the constant operand (RULE_CONSTANT, RULE_REPLACE, RULE_MATCHTIME index the constants table) -/
def Instr.constOf {ρ : Type} : Instr ρ → Option Val
  | .constant v _ => some v
  | .replace _ v _ => some v
  | .matchtime _ v _ => some v
  | _ => none

/-- spec_reference / spec_backmatch set `b->has_backref` -/
def Instr.readsTags {ρ : Type} : Instr ρ → Bool
  | .gettag _ _ => true
  | .backmatch _ => true
  | _ => false

namespace Compile
open JanetModel.Peg.Spec JanetModel.Gen.Peg

instance : Inhabited Closure := ⟨⟨[], .bool true⟩⟩

/-- emit_bytes: bytes packed little-endian into 32-bit words -/
def packBytes : List Nat → List Nat
  | [] => []
  | [a] => [a]
  | [a, b] => [a + 256 * b]
  | [a, b, c] => [a + 256 * b + 65536 * c]
  | a :: b :: c :: d :: rest => (a + 256 * b + 65536 * c + 16777216 * d) :: packBytes rest

/-- `(uint32_t) offset` -/
def u32 (n : Int) : Nat := if n < 0 then (n + 4294967296).toNat else n.toNat

/-- header words of a rule (emit_1 / emit_2 / emit_3 / emit_rule / emit_bytes / spec_variadic); `c` = constants index -/
def encode : Instr Nat → Nat → List Nat
  | .literal b, _ => [RULE_LITERAL, b.length] ++ packBytes b
  | .nchar n, _ => [RULE_NCHAR, n]
  | .notnchar n, _ => [RULE_NOTNCHAR, n]
  | .range lo hi, _ => [RULE_RANGE, lo + 65536 * hi]
  | .set bm, _ => RULE_SET :: bm
  | .look o r, _ => [RULE_LOOK, u32 o, r]
  | .choice rs, _ => [RULE_CHOICE, rs.length] ++ rs
  | .sequence rs, _ => [RULE_SEQUENCE, rs.length] ++ rs
  | .if_ a b, _ => [RULE_IF, a, b]
  | .ifnot a b, _ => [RULE_IFNOT, a, b]
  | .not a, _ => [RULE_NOT, a]
  | .between lo hi r, _ => [RULE_BETWEEN, lo, hi, r]
  | .gettag s t, _ => [RULE_GETTAG, s, t]
  | .capture r t, _ => [RULE_CAPTURE, r, t]
  | .position t, _ => [RULE_POSITION, t]
  | .argument i t, _ => [RULE_ARGUMENT, i, t]
  | .constant _ t, c => [RULE_CONSTANT, c, t]
  | .accumulate r t, _ => [RULE_ACCUMULATE, r, t]
  | .group r t, _ => [RULE_GROUP, r, t]
  | .replace r _ t, c => [RULE_REPLACE, r, c, t]
  | .matchtime r _ t, c => [RULE_MATCHTIME, r, c, t]
  | .error r, _ => [RULE_ERROR, r]
  | .drop r, _ => [RULE_DROP, r]
  | .backmatch t, _ => [RULE_BACKMATCH, t]
  | .to r, _ => [RULE_TO, r]
  | .thru r, _ => [RULE_THRU, r]
  | .lenprefix a b, _ => [RULE_LENPREFIX, a, b]
  | .readint f t, _ => [RULE_READINT, f, t]
  | .line t, _ => [RULE_LINE, t]
  | .column t, _ => [RULE_COLUMN, t]
  | .unref r t, _ => [RULE_UNREF, r, t]
  | .capturenum r b t, _ => [RULE_CAPTURE_NUM, r, b, t]
  | .sub a b, _ => [RULE_SUB, a, b]
  | .til a b, _ => [RULE_TIL, a, b]
  | .split a b, _ => [RULE_SPLIT, a, b]
  | .nth n r t, _ => [RULE_NTH, n, r, t]
  | .onlytags r, _ => [RULE_ONLY_TAGS, r]

/-- words reserved for the rule header (`reserve(b, n)`; for literals and variadic rules the pushes of emit_bytes /
    spec_variadic) -/
def encSize {ρ : Type} (i : Instr ρ) : Nat := (encode (i.rebuild (i.kids.map (fun _ => 0))) 0).length

def isInt32 (n : Int) : Bool := -2147483648 ≤ n && n ≤ 2147483647
def isNat31 (n : Nat) : Bool := n ≤ int32Max
def okTag (t : Nat) : Bool := t ≤ 255

/-- One source tuple / primitive as the instruction it compiles to, sub-forms as operands; `none` = peg_panic (argument
    checks of the spec_* function) or not a tuple / primitive (keyword, struct). -/
def shape : Patt → Option (Instr Patt)
  | .str b => if b.all (· < 256) then some (.literal b) else none
  | .int n => if isInt32 n then some (if n < 0 then .notnchar (-n).toNat else .nchar n.toNat) else none
  | .bool true => some (.nchar 0)
  | .bool false => some (.notnchar 0)
  | .ref _ => none
  | .grammar _ => none
  | .range [] => none                                                    -- spec_range: peg_arity(b, argc, 1, -1)
  | .range [(lo, hi)] => if lo ≤ hi ∧ hi < 256 then some (.range lo hi) else none
  | .range rs =>
    if rs.all (fun r => r.1 ≤ r.2 ∧ r.2 < 256) then some (.set (bitmapOf (fun c => rs.any (fun r => r.1 ≤ c ∧ c ≤ r.2))))
    else none
  | .set chars => some (.set (bitmapOf (fun c => chars.contains c)))
  | .look off q => if isInt32 off then some (.look off q) else none      -- spec_look
  | .choice ps => some (.choice ps)                                       -- spec_choice -> spec_variadic
  | .seq ps => some (.sequence ps)                                        -- spec_sequence -> spec_variadic
  | .if_ c q => some (.if_ c q)                                           -- spec_if -> spec_branch
  | .ifnot c q => some (.ifnot c q)                                       -- spec_ifnot -> spec_branch
  | .not q => some (.not q)                                               -- spec_not -> spec_onerule
  | .any q => some (.between 0 uintMax q)                                 -- spec_any -> spec_repeater 0
  | .some q => some (.between 1 uintMax q)                                -- spec_some -> spec_repeater 1
  | .opt q => some (.between 0 1 q)                                       -- spec_opt
  | .between lo hi q => if isNat31 lo && isNat31 hi then some (.between lo hi q) else none   -- spec_between
  | .atleast n q => if isNat31 n then some (.between n uintMax q) else none                  -- spec_atleast
  | .atmost n q => if isNat31 n then some (.between 0 n q) else none                         -- spec_atmost
  | .repeat_ n q => if isNat31 n then some (.between n n q) else none                        -- spec_repeat / (n patt)
  | .to q => some (.to q)                                                 -- spec_to -> spec_onerule
  | .thru q => some (.thru q)
  | .capture q tag => if okTag tag then some (.capture q tag) else none   -- spec_capture -> spec_cap1
  | .accumulate q tag => if okTag tag then some (.accumulate q tag) else none
  | .group q tag => if okTag tag then some (.group q tag) else none
  | .drop q => some (.drop q)
  | .onlytags q => some (.onlytags q)
  | .replace q v tag => if okTag tag then some (.replace q v tag) else none                  -- spec_replace
  | .cmt q (.fn f) tag => if okTag tag then some (.matchtime q (.fn f) tag) else none        -- spec_matchtime
  | .cmt _ _ _ => none                                                    -- "expected function or cfunction"
  | .constant v tag => if okTag tag then some (.constant v tag) else none -- spec_constant
  | .argument n tag => if isNat31 n && okTag tag then some (.argument n tag) else none       -- spec_argument
  | .position tag => if okTag tag then some (.position tag) else none     -- spec_position -> spec_tag1
  | .line tag => if okTag tag then some (.line tag) else none
  | .column tag => if okTag tag then some (.column tag) else none
  | .backref s tag => if okTag s && okTag tag then some (.gettag s tag) else none            -- spec_reference
  | .backmatch tag => if okTag tag then some (.backmatch tag) else none   -- spec_backmatch -> spec_tag1
  | .unref q tag => if okTag tag then some (.unref q tag) else none
  | .nth n q tag => if isNat31 n && okTag tag then some (.nth n q tag) else none             -- spec_nth
  | .error none => some (.error (.int 0))                                 -- spec_error, argc == 0: compiles the number 0
  | .error (some q) => some (.error q)
  | .lenprefix n q => some (.lenprefix n q)                               -- spec_lenprefix -> spec_branch
  | .sub w q => some (.sub w q)
  | .split s q => some (.split s q)
  | .til t q => some (.til t q)
  | .readint w sg be tag =>                                               -- spec_readint (mask 0x10 signed, 0x20 big endian)
    if w ≤ maxReadintWidth && okTag tag then some (.readint (w + (if sg then 16 else 0) + (if be then 32 else 0)) tag) else none
  | .number q base tag =>                                                 -- spec_capture_number
    if (base == 0 || (2 ≤ base && base ≤ 36)) && okTag tag then some (.capturenum q base tag) else none

def asRef : Patt → Option String
  | .ref n => some n
  | _ => none

def asGrammar : Patt → Option Scope
  | .grammar rs => some rs
  | _ => none

/-- primitive patterns go to the global cache (root grammar table) -/
def isPrim : Patt → Bool
  | .str _ => true
  | .int _ => true
  | .bool _ => true
  | _ => false

/-- a grammar table: keyword bindings + rule cache, `proto` = enclosing table (`none` = root) -/
structure Tbl where
  rules : Scope
  cache : List (Patt × Nat)
  proto : Option Nat
  level : Nat
  sc : List Scope          -- ghost: `rules` of this table and of its protos, innermost first

structure B where
  code : List Nat
  consts : List Val
  hasBackref : Bool
  prims : List (Patt × Nat)
  root : List (Patt × Nat)
  heap : List Tbl
  log : List (Nat × Closure)   -- ghost

def B.empty : B := ⟨[], [], false, [], [], [], []⟩

def scOf (heap : List Tbl) : Option Nat → List Scope
  | none => []
  | some id => match heap[id]? with
    | some t => t.sc
    | none => []

def levelOf (heap : List Tbl) : Option Nat → Nat
  | none => 0
  | some id => match heap[id]? with
    | some t => t.level
    | none => 0

/-- janet_table_get_ex on a keyword: walk the proto chain (at most JANET_MAX_PROTO_DEPTH tables; nesting is bounded by
    `maxProtoDepth` below, so the bound is never the reason for a miss); the root table binds no keywords -/
def lookupKw (heap : List Tbl) : Nat → Option Nat → String → Option (Nat × Patt)
  | 0, _, _ => none
  | _ + 1, none, _ => none
  | f + 1, some id, name =>
    match heap[id]? with
    | none => none
    | some t =>
      match lookupScope t.rules name with
      | some p => some (id, p)
      | none => lookupKw heap f t.proto name

abbrev maxProtoDepth : Nat := 200

/-- the keyword loop at the head of peg_compile1; returns the grammar, the form and what is left of `i` -/
def resolveKw (dflt : Scope) (heap : List Tbl) : Nat → Option Nat → Patt → Option (Option Nat × Patt × Nat)
  | 0, _, _ => none                                        -- `if (i == 0) peg_panic("reference chain too deep")`
  | i + 1, g, p =>
    match asRef p with
    | none => some (g, p, i + 1)
    | some name =>
      match lookupKw heap (maxProtoDepth + 1) g name with
      | some (g', q) => resolveKw dflt heap i (some g') q
      | none =>
        match lookupScope dflt name with
        | some q => resolveKw dflt heap i g q
        | none => none                                     -- "unknown rule"

def lookupCache (c : List (Patt × Nat)) (q : Patt) : Option Nat := (c.find? (fun e => e.1.beq q)).map (·.2)

def getCache (b : B) (g : Option Nat) (q : Patt) : Option Nat :=
  if isPrim q then lookupCache b.prims q
  else match g with
    | none => lookupCache b.root q
    | some id => match b.heap[id]? with
      | some t => lookupCache t.cache q
      | none => none

def putCache (b : B) (g : Option Nat) (q : Patt) (rule : Nat) : B :=
  if isPrim q then { b with prims := (q, rule) :: b.prims }
  else match g with
    | none => { b with root := (q, rule) :: b.root }
    | some id => { b with heap := b.heap.modify id (fun t => { t with cache := (q, rule) :: t.cache }) }

def reserve (b : B) (n : Nat) : B := { b with code := b.code ++ List.replicate n 0 }

/-- memcpy of the header words into the reserved slot -/
def patch (code : List Nat) (r : Nat) (ws : List Nat) : List Nat :=
  (List.range code.length).map (fun k => if r ≤ k ∧ k < r + ws.length then ws.getD (k - r) 0 else code.getD k 0)

def emitConst {ρ : Type} (i : Instr ρ) (b : B) : Nat × B :=
  match i.constOf with
  | some v => (b.consts.length, { b with consts := b.consts ++ [v] })
  | none => (0, b)

def B.addLog (b : B) (a : Nat) (c : Closure) : B := { b with log := (a, c) :: b.log }

/-- the sub-forms one after the other (each `peg_compile1(b, argv[i])` of a spec_* function) -/
def compileKids (k : B → Option Nat → Patt → Option (Nat × Nat × B)) : B → Option Nat → List Patt → Option (List Nat × B)
  | b, _, [] => some ([], b)
  | b, g, p :: ps =>
    match k b g p with
    | none => none
    | some (a, _, b1) =>
      match compileKids k b1 g ps with
      | none => none
      | some (as, b2) => some (a :: as, b2)

abbrev guard : Nat := recursionGuard
/-- longest reference chain `Spec.fetch` follows -/
abbrev maxHops : Nat := 1023

/-- peg_compile1.  Result: rule address, number of keyword / grammar links followed, builder. -/
def compile1 (dflt : Scope) : Nat → B → Option Nat → Patt → Option (Nat × Nat × B)
  | d, b, g, p =>
    match resolveKw dflt b.heap guard g p with
    | none => none
    | some (g1, q, il) =>
      let kh := guard - il
      let c : Closure := ⟨scOf b.heap g, p⟩
      match getCache b g1 q with
      | some a => some (a, kh, b.addLog a c)
      | none =>
        match d with
        | 0 => none                                          -- "peg grammar recursed too deeply"
        | d' + 1 =>
          let rule := b.code.length
          match asGrammar q with
          | some rules =>
            match lookupScope rules "main" with
            | none => none                                   -- "grammar requires :main rule"
            | some m =>
              if levelOf b.heap g1 + 1 ≥ maxProtoDepth then none else
              let t : Tbl := ⟨rules, [], g1, levelOf b.heap g1 + 1, rules :: scOf b.heap g1⟩
              match compile1 dflt d' { b with heap := b.heap ++ [t] } (some b.heap.length) m with
              | none => none
              | some (a, h2, b2) =>
                if kh + 1 + h2 > maxHops then none else some (a, kh + 1 + h2, b2.addLog a c)
          | none =>
            match shape q with
            | none => none
            | some i =>
              let b1 := reserve (putCache b g1 q rule) (encSize i)
              match compileKids (compile1 dflt d') b1 g1 i.kids with
              | none => none
              | some (addrs, b2) =>
                let cb := emitConst i b2
                let b4 : B := { cb.2 with code := patch cb.2.code rule (encode (i.rebuild addrs) cb.1),
                                          hasBackref := cb.2.hasBackref || i.readsTags }
                some (rule, kh, b4.addLog rule c)

structure Output where
  entry : Nat
  code : List Nat
  consts : List Val
  hasBackref : Bool
  log : List (Nat × Closure)

/-- compile_peg: empty root table, depth JANET_RECURSION_GUARD -/
def compile (dflt : Scope) (p : Patt) : Option Output :=
  match compile1 dflt guard B.empty none p with
  | none => none
  | some (a, _, b) => some ⟨a, b.code, b.consts, b.hasBackref, b.log⟩

def Output.program (o : Output) : Program := { bytecode := o.code.toArray, constants := o.consts.toArray }

end Compile
end JanetModel.Peg
