/-
Executable model of `peg_compile1` (peg.c:1381-1536) and the `spec_*` emitters for the forms whose compilation is a direct
encoding: the rule header is reserved first, then the sub-forms are compiled in order right behind it, and their
addresses are patched into the header - so a form compiled at address `base` occupies a contiguous block.

Not modelled here: the rule cache (a form that occurs twice is compiled once by the real compiler), keyword references and
nested grammars, the constants table (`constant`, `replace`, `cmt`), tag numbering (tags are taken as numbers).
The model is tied to peg.c by correspondence (words produced here = words of the real `peg/compile`, checks/C12.py) and
its output is checked against the source form by the proved-sound validator (Peg/Validate.lean) - there is no separate
structural-induction proof about the layout.
Core Lean only.
-/
import JanetModel.Peg.Spec
import JanetModel.Gen.Peg

namespace JanetModel.Peg.Compile
open JanetModel.Peg JanetModel.Peg.Spec JanetModel.Gen.Peg

/-- emit_bytes: bytes packed little-endian into 32-bit words -/
def packBytes : List Nat → List Nat
  | [] => []
  | [a] => [a]
  | [a, b] => [a + 256 * b]
  | [a, b, c] => [a + 256 * b + 65536 * c]
  | a :: b :: c :: d :: rest => (a + 256 * b + 65536 * c + 16777216 * d) :: packBytes rest

def u32 (n : Int) : Nat := if n < 0 then (n + 4294967296).toNat else n.toNat

mutual
/-- words of `p` compiled at address `base` (fuel bounds the nesting) -/
def compileAt : Nat → Nat → Patt → Option (List Nat)
  | 0, _, _ => none
  | k + 1, base, p =>
    let one (op : Nat) (pre : List Nat) (post : List Nat) (q : Patt) (hdr : Nat) : Option (List Nat) := do
      -- header: op, pre..., <child address>, post...   ; child directly behind the header
      let ws ← compileAt k (base + hdr) q
      pure ([op] ++ pre ++ [base + hdr] ++ post ++ ws)
    let two (op : Nat) (a b : Patt) : Option (List Nat) := do
      let wa ← compileAt k (base + 3) a
      let wb ← compileAt k (base + 3 + wa.length) b
      pure ([op, base + 3, base + 3 + wa.length] ++ wa ++ wb)
    match p with
    | .str b => some ([RULE_LITERAL, b.length] ++ packBytes b)
    | .int n => some (if n < 0 then [RULE_NOTNCHAR, (-n).toNat] else [RULE_NCHAR, n.toNat])
    | .bool true => some [RULE_NCHAR, 0]
    | .bool false => some [RULE_NOTNCHAR, 0]
    | .range [(lo, hi)] => some [RULE_RANGE, lo + 65536 * hi]
    | .range rs => some (RULE_SET :: bitmapOf (fun c => rs.any (fun r => r.1 ≤ c ∧ c ≤ r.2)))
    | .set chars => some (RULE_SET :: bitmapOf (fun c => chars.contains c))
    | .look off q => do
      let ws ← compileAt k (base + 3) q
      pure ([RULE_LOOK, u32 off, base + 3] ++ ws)
    | .choice ps => do
      let (addrs, ws) ← compileList k (base + 2 + ps.length) ps
      pure ([RULE_CHOICE, ps.length] ++ addrs ++ ws)
    | .seq ps => do
      let (addrs, ws) ← compileList k (base + 2 + ps.length) ps
      pure ([RULE_SEQUENCE, ps.length] ++ addrs ++ ws)
    | .if_ c q => two RULE_IF c q
    | .ifnot c q => two RULE_IFNOT c q
    | .lenprefix n q => two RULE_LENPREFIX n q
    | .sub w q => two RULE_SUB w q
    | .til t q => two RULE_TIL t q
    | .split s q => two RULE_SPLIT s q
    | .not q => one RULE_NOT [] [] q 2
    | .to q => one RULE_TO [] [] q 2
    | .thru q => one RULE_THRU [] [] q 2
    | .drop q => one RULE_DROP [] [] q 2
    | .onlytags q => one RULE_ONLY_TAGS [] [] q 2
    | .error (some q) => one RULE_ERROR [] [] q 2
    | .error none => some [RULE_ERROR, base + 2, RULE_NCHAR, 0]
    | .any q => one RULE_BETWEEN [0, uintMax] [] q 4
    | .some q => one RULE_BETWEEN [1, uintMax] [] q 4
    | .opt q => one RULE_BETWEEN [0, 1] [] q 4
    | .between lo hi q => one RULE_BETWEEN [lo, hi] [] q 4
    | .atleast n q => one RULE_BETWEEN [n, uintMax] [] q 4
    | .atmost n q => one RULE_BETWEEN [0, n] [] q 4
    | .repeat_ n q => one RULE_BETWEEN [n, n] [] q 4
    | .capture q tag => one RULE_CAPTURE [] [tag] q 3
    | .accumulate q tag => one RULE_ACCUMULATE [] [tag] q 3
    | .group q tag => one RULE_GROUP [] [tag] q 3
    | .unref q tag => one RULE_UNREF [] [tag] q 3
    | .nth n q tag => one RULE_NTH [n] [tag] q 4
    | .number q b tag => one RULE_CAPTURE_NUM [] [b, tag] q 4
    | .position tag => some [RULE_POSITION, tag]
    | .line tag => some [RULE_LINE, tag]
    | .column tag => some [RULE_COLUMN, tag]
    | .backmatch tag => some [RULE_BACKMATCH, tag]
    | .backref s tag => some [RULE_GETTAG, s, tag]
    | .argument n tag => some [RULE_ARGUMENT, n, tag]
    | .readint w sg be tag => some [RULE_READINT, w + (if sg then 16 else 0) + (if be then 32 else 0), tag]
    | _ => none
/-- spec_variadic: the sub-forms one after the other from `base`; returns their addresses and the words -/
def compileList : Nat → Nat → List Patt → Option (List Nat × List Nat)
  | 0, _, _ => none
  | _, _, [] => some ([], [])
  | k + 1, base, p :: ps => do
    let w ← compileAt k base p
    let (addrs, ws) ← compileList k (base + w.length) ps
    pure (base :: addrs, w ++ ws)
end

def compile (p : Patt) : Option (List Nat) := compileAt 64 0 p

end JanetModel.Peg.Compile
