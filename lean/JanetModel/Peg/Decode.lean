/-
Decoding of compiled PEG bytecode (JanetPeg.bytecode / .constants) into `Instr Nat`.
Operand layout per opcode as in the comments of `JanetPegOpcod` (janet.h) and as used by `peg_rule`;
opcode numbers come from Gen/Peg.lean (regenerated from the current janet.h on every run) and the operand
counts are checked against the verifier in `peg_unmarshal` (`decode_sizes_agree` in Props/C12.lean).
Core Lean only.
-/
import JanetModel.Peg.Basic
import JanetModel.Gen.Peg

namespace JanetModel.Peg
open JanetModel.Gen.Peg

structure Program where
  bytecode : Array Nat
  constants : Array Val

def Program.word (P : Program) (i : Nat) : Nat := P.bytecode.getD i 0

/-- byte `j` of the literal stored from word `base` on (little endian, as memcpy'd by emit_bytes) -/
def Program.litByte (P : Program) (base j : Nat) : Nat := (P.word (base + j / 4) / 256 ^ (j % 4)) % 256

/-- `(int32_t) w` -/
def asInt32 (w : Nat) : Int := if w < 2147483648 then (w : Int) else (w : Int) - 4294967296

/-- words (including the opcode word) each fixed-size opcode occupies in this decoder; 0 = variable -/
def decodeSizes : List Nat :=
  [0, 2, 2, 2, 9, 3, 0, 0, 3, 3, 2, 4, 3, 3, 2, 3, 3, 3, 3, 4, 4, 2, 2, 2, 2, 2, 3, 3, 2, 2, 3, 4, 3, 3, 3, 4, 2]

def decode (P : Program) (pc : Nat) : Option (Instr Nat) :=
  if pc ≥ P.bytecode.size then none else
  let op := P.word pc
  let a := P.word (pc + 1)
  let b := P.word (pc + 2)
  let c := P.word (pc + 3)
  if op == RULE_LITERAL then some (.literal ((List.range a).map (P.litByte (pc + 2))))
  else if op == RULE_NCHAR then some (.nchar a)
  else if op == RULE_NOTNCHAR then some (.notnchar a)
  else if op == RULE_RANGE then some (.range (a % 256) ((a / 65536) % 256))
  else if op == RULE_SET then some (.set ((List.range 8).map (fun j => P.word (pc + 1 + j))))
  else if op == RULE_LOOK then some (.look (asInt32 a) b)
  else if op == RULE_CHOICE then some (.choice ((List.range a).map (fun j => P.word (pc + 2 + j))))
  else if op == RULE_SEQUENCE then some (.sequence ((List.range a).map (fun j => P.word (pc + 2 + j))))
  else if op == RULE_IF then some (.if_ a b)
  else if op == RULE_IFNOT then some (.ifnot a b)
  else if op == RULE_NOT then some (.not a)
  else if op == RULE_BETWEEN then some (.between a b c)
  else if op == RULE_GETTAG then some (.gettag a b)
  else if op == RULE_CAPTURE then some (.capture a b)
  else if op == RULE_POSITION then some (.position a)
  else if op == RULE_ARGUMENT then some (.argument a b)
  else if op == RULE_CONSTANT then (P.constants[a]?).map (fun v => .constant v b)
  else if op == RULE_ACCUMULATE then some (.accumulate a b)
  else if op == RULE_GROUP then some (.group a b)
  else if op == RULE_REPLACE then (P.constants[b]?).map (fun v => .replace a v c)
  else if op == RULE_MATCHTIME then (P.constants[b]?).map (fun v => .matchtime a v c)
  else if op == RULE_ERROR then some (.error a)
  else if op == RULE_DROP then some (.drop a)
  else if op == RULE_BACKMATCH then some (.backmatch a)
  else if op == RULE_TO then some (.to a)
  else if op == RULE_THRU then some (.thru a)
  else if op == RULE_LENPREFIX then some (.lenprefix a b)
  else if op == RULE_READINT then some (.readint a b)
  else if op == RULE_LINE then some (.line a)
  else if op == RULE_COLUMN then some (.column a)
  else if op == RULE_UNREF then some (.unref a b)
  else if op == RULE_CAPTURE_NUM then some (.capturenum a b c)
  else if op == RULE_SUB then some (.sub a b)
  else if op == RULE_TIL then some (.til a b)
  else if op == RULE_SPLIT then some (.split a b)
  else if op == RULE_NTH then some (.nth a b c)
  else if op == RULE_ONLY_TAGS then some (.onlytags a)
  else none

end JanetModel.Peg
