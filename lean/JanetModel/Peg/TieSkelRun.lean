/-
The two loop cases of peg.c whose fuel-free tie (`rule_between_returns`, `rule_split_returns`) assumed "the MODEL's loop fuel
sufficed", restated about the match as a whole: the only hypothesis left is that the whole run `Op.run` did not answer `Err.fuel`
at SOME fuel; by fuel monotonicity (`Peg/FuelMono.lean`) the conclusion then holds with the child runner at EVERY larger fuel.
Core Lean only.
-/
import JanetModel.Peg.TieSkel
import JanetModel.Peg.FuelMono

namespace JanetModel.Peg.TieSkel
open JanetModel.Peg JanetModel.Peg.Skel
variable {ρ : Type}

/-- RULE_BETWEEN inside a whole run: if `peg_rule` at rule `r` (a `between`) answered anything but `Err.fuel` at fuel `f + 1`,
    the extracted C case, run with the sub-rule runner of that fuel, returns exactly that answer (fuel-free meaning). -/
theorem between_returns_of_run (E : Env) (fetch : ρ → Option (Instr ρ)) (f lo hi : Nat) (r' r : ρ) (s : St) (pos : Nat)
    (hf : fetch r = some (.between lo hi r')) (hne : Op.run E fetch (f + 1) r s pos ≠ .error .fuel) :
    Returns (fun fuel => runL E (Op.run E fetch f) (ops [(3, r')] [(1, lo), (2, hi)]) fuel Gen.PegSkel.RULE_BETWEEN s pos)
      (Op.run E fetch (f + 1) r s pos) := by
  have hrun : Op.run E fetch (f + 1) r s pos = Op.step E (Op.run E fetch f) (f + 1) (.between lo hi r') s pos := by
    rw [Op.run, hf]
  rw [hrun] at hne ⊢
  refine rule_between_returns E (Op.run E fetch f) (f + 1) lo hi r' s pos (fun s0 hd hbad => hne ?_)
  simp only [Op.step, hd, hbad, bind, Except.bind]

/-- RULE_SPLIT inside a whole run -/
theorem split_returns_of_run (E : Env) (fetch : ρ → Option (Instr ρ)) (f : Nat) (sep sub r : ρ) (s : St) (pos : Nat)
    (hf : fetch r = some (.split sep sub)) (hne : Op.run E fetch (f + 1) r s pos ≠ .error .fuel) :
    Returns (fun fuel => runL E (Op.run E fetch f) (ops [(1, sep), (2, sub)] []) fuel Gen.PegSkel.RULE_SPLIT s pos)
      (Op.run E fetch (f + 1) r s pos) := by
  have hrun : Op.run E fetch (f + 1) r s pos = Op.step E (Op.run E fetch f) (f + 1) (.split sep sub) s pos := by
    rw [Op.run, hf]
  rw [hrun] at hne ⊢
  exact rule_split_returns E (Op.run E fetch f) (f + 1) sep sub s pos hne

/-- ... and the answer does not depend on which sufficient fuel the sub-rule runner has: for every `g ≥ f` -/
theorem between_returns_any_fuel (E : Env) (fetch : ρ → Option (Instr ρ)) (f g : Nat) (hfg : f ≤ g) (lo hi : Nat) (r' r : ρ)
    (s : St) (pos : Nat) (hf : fetch r = some (.between lo hi r')) (hne : Op.run E fetch (f + 1) r s pos ≠ .error .fuel) :
    Returns (fun fuel => runL E (Op.run E fetch g) (ops [(3, r')] [(1, lo), (2, hi)]) fuel Gen.PegSkel.RULE_BETWEEN s pos)
      (Op.run E fetch (f + 1) r s pos) := by
  have hm := Op.run_fuel_mono E fetch (f + 1) (g + 1) (by omega) r s pos hne
  rw [← hm]
  exact between_returns_of_run E fetch g lo hi r' r s pos hf (by rw [hm]; exact hne)

theorem split_returns_any_fuel (E : Env) (fetch : ρ → Option (Instr ρ)) (f g : Nat) (hfg : f ≤ g) (sep sub r : ρ)
    (s : St) (pos : Nat) (hf : fetch r = some (.split sep sub)) (hne : Op.run E fetch (f + 1) r s pos ≠ .error .fuel) :
    Returns (fun fuel => runL E (Op.run E fetch g) (ops [(1, sep), (2, sub)] []) fuel Gen.PegSkel.RULE_SPLIT s pos)
      (Op.run E fetch (f + 1) r s pos) := by
  have hm := Op.run_fuel_mono E fetch (f + 1) (g + 1) (by omega) r s pos hne
  rw [← hm]
  exact split_returns_of_run E fetch g sep sub r s pos hf (by rw [hm]; exact hne)

/-! non-vacuity: `(between 0 3 "a")` as rule 0 over `exE` ("abc"): the whole run at fuel 2 answers a match (not `Err.fuel`), at
    fuel 1 it answers `Err.fuel`; so the hypotheses of `between_returns_of_run` hold at f = 1 and the theorem applies -/
def exFetchB : Nat → Option (Instr Nat)
  | 0 => some (.between 0 3 1)
  | 1 => some (.literal [97])
  | _ => none

def notFuel (r : ORes) : Bool :=
  match r with
  | .error .fuel => false
  | _ => true

theorem ne_fuel_of_notFuel {r : ORes} (h : notFuel r = true) : r ≠ .error .fuel := by
  intro e; rw [e] at h; exact absurd h (by decide)

example : notFuel (Op.run exE exFetchB 2 0 exS 0) = true ∧ notFuel (Op.run exE exFetchB 1 0 exS 0) = false := by decide

example : Returns (fun fuel => runL exE (Op.run exE exFetchB 1) (ops [(3, 1)] [(1, 0), (2, 3)]) fuel Gen.PegSkel.RULE_BETWEEN exS 0)
    (Op.run exE exFetchB 2 0 exS 0) :=
  between_returns_of_run exE exFetchB 1 0 3 1 0 exS 0 rfl (ne_fuel_of_notFuel (by decide))

section DecodedRun
open JanetModel.Gen.Peg

/-- RULE_BETWEEN on the RAW bytecode inside a whole run of the decoded program: the only hypotheses are the opcode word at `pc`
    and that the whole run at `pc` did not answer `Err.fuel`; then the extracted C case on the raw words of the instruction
    returns (fuel-free) exactly what the run answered. -/
theorem decoded_between_of_run (E : Env) (P : Program) (pc f : Nat) (s : St) (pos : Nat)
    (hpc : pc < P.bytecode.size) (hop : P.word pc = RULE_BETWEEN)
    (hne : Op.run E (decode P) (f + 1) pc s pos ≠ .error .fuel) :
    Returns (fun fuel => runL E (Op.run E (decode P) f) (rawOps P pc 4) fuel Gen.PegSkel.RULE_BETWEEN s pos)
      (Op.run E (decode P) (f + 1) pc s pos) := by
  have hdec : decode P pc = some (.between (P.word (pc + 1)) (P.word (pc + 2)) (P.word (pc + 3))) := by decode_tac hpc hop
  have hrun : Op.run E (decode P) (f + 1) pc s pos =
      Op.step E (Op.run E (decode P) f) (f + 1) (.between (P.word (pc + 1)) (P.word (pc + 2)) (P.word (pc + 3))) s pos := by
    rw [Op.run, hdec]
  rw [hrun] at hne ⊢
  obtain ⟨i, hi, hr⟩ := decoded_between E (Op.run E (decode P) f) (f + 1) P pc s pos hpc hop (fun s0 hd hbad => hne (by
    simp only [Op.step, hd, hbad, bind, Except.bind]))
  rw [hdec] at hi
  cases hi
  exact hr

/-- RULE_SPLIT on the RAW bytecode inside a whole run -/
theorem decoded_split_of_run (E : Env) (P : Program) (pc f : Nat) (s : St) (pos : Nat)
    (hpc : pc < P.bytecode.size) (hop : P.word pc = RULE_SPLIT)
    (hne : Op.run E (decode P) (f + 1) pc s pos ≠ .error .fuel) :
    Returns (fun fuel => runL E (Op.run E (decode P) f) (rawOps P pc 3) fuel Gen.PegSkel.RULE_SPLIT s pos)
      (Op.run E (decode P) (f + 1) pc s pos) := by
  have hdec : decode P pc = some (.split (P.word (pc + 1)) (P.word (pc + 2))) := by decode_tac hpc hop
  have hrun : Op.run E (decode P) (f + 1) pc s pos =
      Op.step E (Op.run E (decode P) f) (f + 1) (.split (P.word (pc + 1)) (P.word (pc + 2))) s pos := by
    rw [Op.run, hdec]
  rw [hrun] at hne ⊢
  obtain ⟨i, hi, hr⟩ := decoded_split E (Op.run E (decode P) f) (f + 1) P pc s pos hpc hop hne
  rw [hdec] at hi
  cases hi
  exact hr

end DecodedRun

end JanetModel.Peg.TieSkel
