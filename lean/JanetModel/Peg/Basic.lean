/-
PEG model, shared definitions: capture values, decoded instructions, matcher state.
Core Lean only (linked into the driver jm_c12).

C side: /repo/src/core/peg.c  (PegState, CapState, cap_save, cap_load, cap_load_keept, pushcap).
-/
namespace JanetModel.Peg

/-- keys of replacement structs (only strings and integers are generated) -/
inductive Key
  | str (b : List Nat)
  | int (n : Int)
  deriving DecidableEq, Repr

/-- Janet values that can appear as captures / constants / arguments in the modelled fragment. -/
inductive Val
  | nil
  | bool (b : Bool)
  | int (n : Int)              -- a janet number with integral value
  | str (b : List Nat)
  | kw (b : List Nat)
  | arr (xs : List Val)        -- result of `group`
  | s64 (n : Int)
  | u64 (n : Nat)
  | struct (kvs : List (Key × Val))
  | fn (name : String)         -- one of the harness' named functions, see `applyFn`

inductive Err
  | fuel                       -- model artefact: Lean recursion fuel exhausted
  | depth                      -- "peg/match recursed too deeply"
  | badop                      -- "unexpected opcode" / malformed program
  | oob                        -- a text read outside the current window (never happens: `never_reads_outside`)
  | user (v : Val)             -- (error patt) with a capture
  | matchErr (line col : Nat)  -- (error patt) without capture
  | call                       -- replacement function not known to the model

abbrev uintMax : Nat := 4294967295
abbrev int32Max : Nat := 2147483647

/-- Decoded instruction; `ρ` is how sub-rules are referenced (bytecode address, or source closure). -/
inductive Instr (ρ : Type)
  | literal (bytes : List Nat)
  | nchar (n : Nat)
  | notnchar (n : Nat)
  | range (lo hi : Nat)
  | set (bitmap : List Nat)            -- 8 words of 32 bits
  | look (off : Int) (r : ρ)
  | choice (rs : List ρ)
  | sequence (rs : List ρ)
  | if_ (a b : ρ)
  | ifnot (a b : ρ)
  | not (a : ρ)
  | between (lo hi : Nat) (r : ρ)
  | gettag (search tag : Nat)
  | capture (r : ρ) (tag : Nat)
  | position (tag : Nat)
  | argument (idx : Nat) (tag : Nat)
  | constant (v : Val) (tag : Nat)
  | accumulate (r : ρ) (tag : Nat)
  | group (r : ρ) (tag : Nat)
  | replace (r : ρ) (v : Val) (tag : Nat)
  | matchtime (r : ρ) (v : Val) (tag : Nat)
  | error (r : ρ)
  | drop (r : ρ)
  | backmatch (tag : Nat)
  | to (r : ρ)
  | thru (r : ρ)
  | lenprefix (a b : ρ)
  | readint (flags : Nat) (tag : Nat)
  | line (tag : Nat)
  | column (tag : Nat)
  | unref (r : ρ) (tag : Nat)
  | capturenum (r : ρ) (base : Nat) (tag : Nat)
  | sub (a b : ρ)
  | til (a b : ρ)
  | split (a b : ρ)
  | nth (n : Nat) (r : ρ) (tag : Nat)
  | onlytags (r : ρ)

/-- Per-call constants of a match (PegState fields that never change during `peg_rule`). -/
structure Env where
  text : List Nat
  args : List Val
  hasBackref : Bool
  /-- generated from the current source (Gen/Peg.lean): does RULE_LENPREFIX return on failure of the length
      pattern *before* restoring `s->mode`?  `false` on a correct tree. -/
  lenprefixLeak : Bool := false
  /-- generated from the current source: does RULE_CAPTURE_NUM, in accumulate mode without back-references, append the
      matched TEXT instead of the to-string of the captured NUMBER?  `false` on a correct tree. -/
  numRaw : Bool := false
  /-- `janet_vm.stackn` when the match was entered: RULE_REPLACE / RULE_MATCHTIME charge the depth the match has used to the
      VM's C stack guard while a capture FUNCTION runs (`used = JANET_RECURSION_GUARD - s->depth + 1`) and raise
      "C stack recursed too deeply" when `stackn + used` exceeds the guard, i.e. when `s->depth <= stackn`. -/
  stackn : Nat := 0

/-- The mutable part of PegState. -/
structure St where
  caps : List Val
  tagged : List (Nat × Val)     -- tags buffer and tagged_captures array, always the same length
  scratch : List Nat
  acc : Bool                    -- mode == PEG_MODE_ACCUMULATE
  textEnd : Nat                 -- s->text_end as an index into the text
  depth : Nat

structure CapState where
  cap : Nat
  tcap : Nat
  scratch : Nat

def capSave (s : St) : CapState := ⟨s.caps.length, s.tagged.length, s.scratch.length⟩

def capLoad (s : St) (cs : CapState) : St :=
  { s with scratch := s.scratch.take cs.scratch, caps := s.caps.take cs.cap, tagged := s.tagged.take cs.tcap }

def capLoadKeept (s : St) (cs : CapState) : St :=
  { s with scratch := s.scratch.take cs.scratch, caps := s.caps.take cs.cap }

/-- what a successful rule adds -/
structure Delta where
  caps : List Val := []
  tagged : List (Nat × Val) := []
  scratch : List Nat := []

def St.extend (s : St) (d : Delta) : St :=
  { s with caps := s.caps ++ d.caps, tagged := s.tagged ++ d.tagged, scratch := s.scratch ++ d.scratch }

def Delta.append (a b : Delta) : Delta := ⟨a.caps ++ b.caps, a.tagged ++ b.tagged, a.scratch ++ b.scratch⟩

/-! ### to-string of a capture (janet_to_string_b), canonical for addresses -/

def natDigits : Nat → Nat → List Nat → List Nat
  | 0, _, acc => acc
  | fuel + 1, n, acc => if n < 10 then (48 + n) :: acc else natDigits fuel (n / 10) ((48 + n % 10) :: acc)

def natStr (n : Nat) : List Nat := natDigits (n + 1) n []

def intStr (n : Int) : List Nat := if n < 0 then 45 :: natStr (-n).toNat else natStr n.toNat

def bytesOf (s : String) : List Nat := s.toList.map Char.toNat

def toStr : Val → List Nat
  | .nil => []
  | .bool true => bytesOf "true"
  | .bool false => bytesOf "false"
  | .int n => intStr n
  | .str b => b
  | .kw b => b
  | .arr _ => bytesOf "<array>"
  | .s64 n => intStr n
  | .u64 n => natStr n
  | .struct _ => bytesOf "<struct>"
  | .fn name => bytesOf ("<function " ++ name ++ ">")

def truthy : Val → Bool
  | .nil => false
  | .bool false => false
  | _ => true

def keyOf : Val → Option Key
  | .str b => some (.str b)
  | .int n => some (.int n)
  | _ => none

def structGet (kvs : List (Key × Val)) (v : Val) : Val :=
  match keyOf v with
  | none => .nil
  | some k => match kvs.find? (fun kv => kv.1 == k) with
    | some kv => kv.2
    | none => .nil

/-- The named functions the harness defines in janet (harness/C12/prelude.janet) with the same meaning. -/
def applyFn (name : String) (xs : List Val) : Except Err Val :=
  if name == "f-count" then .ok (.int xs.length)
  else if name == "f-cat" then .ok (.str (xs.flatMap toStr))
  else if name == "f-last" then .ok (xs.getLast?.getD .nil)
  else if name == "f-first" then .ok (xs.head?.getD .nil)
  else if name == "f-true" then .ok (.bool true)
  else if name == "f-false" then .ok (.bool false)
  else if name == "f-two" then .ok (.bool (xs.length ≥ 2))
  else .error .call

/-- the C-stack charge around the call of a capture function in RULE_REPLACE / RULE_MATCHTIME (`depth` = `s->depth` there,
    counted down from JANET_RECURSION_GUARD): `stackn + (GUARD - depth + 1) > GUARD` iff `depth ≤ stackn` -/
def callGuard (E : Env) (depth : Nat) (v : Val) : Except Err Unit :=
  match v with
  | .fn _ => if depth ≤ E.stackn then .error (.user (.str (bytesOf "C stack recursed too deeply"))) else .ok ()
  | _ => .ok ()

/-! ### text access: every read goes through these guarded accessors -/

/-- text[i], only if `i` lies inside the current window `[0, textEnd)` and inside the text. -/
def Env.byte (E : Env) (s : St) (i : Nat) : Except Err Nat :=
  if i < s.textEnd then
    match E.text[i]? with
    | some b => .ok b
    | none => .error .oob
  else .error .oob

/-- text[a, b) (memcmp / janet_stringv), only if inside the current window and the text. -/
def Env.slice (E : Env) (s : St) (a b : Nat) : Except Err (List Nat) :=
  if a ≤ b ∧ b ≤ s.textEnd ∧ b ≤ E.text.length then .ok ((E.text.drop a).take (b - a)) else .error .oob

/-! ### pushcap -/

def pushcap (E : Env) (s : St) (v : Val) (tag : Nat) : St :=
  let s1 : St := if s.acc then { s with scratch := s.scratch ++ toStr v } else { s with caps := s.caps ++ [v] }
  if E.hasBackref then { s1 with tagged := s1.tagged ++ [(tag % 256, v)] } else s1

/-- the same as a delta -/
def pushDelta (E : Env) (acc : Bool) (v : Val) (tag : Nat) : Delta :=
  { caps := if acc then [] else [v],
    scratch := if acc then toStr v else [],
    tagged := if E.hasBackref then [(tag % 256, v)] else [] }

/-- search the tag stack from the top (RULE_GETTAG / RULE_BACKMATCH loop) -/
def findTag (tagged : List (Nat × Val)) (search : Nat) : Option Val :=
  (tagged.reverse.find? (fun tv => tv.1 == search)).map (·.2)

/-! ### line / column (get_linecol_from_position; the line map is computed over the whole text, not the window) -/

def lineCol (text : List Nat) (pos : Nat) : Nat × Nat :=
  let before := text.take pos
  let nl := (before.filter (· == 10)).length
  -- index of the last newline strictly before pos
  let lastNl := (List.range pos).reverse.find? (fun i => text[i]? == some 10)
  match lastNl with
  | none => (1, pos + 1)
  | some i => (nl + 1, pos - i)

/-! ### number scanning for `(number patt base)`: digits of the given base only (generator keeps to this fragment) -/

def digitVal (c : Nat) : Option Nat :=
  if 48 ≤ c ∧ c ≤ 57 then some (c - 48)
  else if 97 ≤ c ∧ c ≤ 122 then some (c - 87)
  else if 65 ≤ c ∧ c ≤ 90 then some (c - 55)
  else none

def scanDigits (base : Nat) : List Nat → Nat → Option Nat
  | [], acc => some acc
  | c :: cs, acc =>
    match digitVal c with
    | some d => if d < base then scanDigits base cs (acc * base + d) else none
    | none => none

/-- janet_scan_number_base restricted to unsigned digit strings; base 0 = default (10) -/
def scanNumber (bytes : List Nat) (base : Nat) : Option Val :=
  if bytes.isEmpty then none
  else (scanDigits (if base == 0 then 10 else base) bytes 0).map (fun n => Val.int n)

def checkint (n : Int) : Bool := -2147483648 ≤ n ∧ n ≤ 2147483647

/-! ### integer readers -/

def readLE : List Nat → Nat
  | [] => 0
  | b :: bs => b + 256 * readLE bs

def readBE (bs : List Nat) : Nat := bs.foldl (fun a b => a * 256 + b) 0

/-- peg_convert_u64_s64 -/
def toSigned (x : Nat) (width : Nat) : Int :=
  if width == 0 then 0
  else if x < 2 ^ (8 * width - 1) then (x : Int) else (x : Int) - (2 ^ (8 * width) : Nat)

def readintVal (bytes : List Nat) (flags : Nat) : Val :=
  let width := flags % 16
  let signed := (flags / 16) % 2 == 1
  let be := (flags / 32) % 2 == 1
  let accum := if be then readBE bytes else readLE bytes
  if width > 6 then
    if signed then .s64 (toSigned accum width) else .u64 accum
  else
    if signed then .int (toSigned accum width) else .int accum

end JanetModel.Peg
