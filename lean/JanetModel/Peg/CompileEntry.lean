/-
The rule `compile_peg` starts matching at: peg.c ignores the address returned by the outermost `peg_compile1` and starts at
bytecode address 0.  For the compile model: the outermost call always returns 0 (the first header reserved is at the start of
the empty bytecode buffer; grammar tables opened on the way have empty caches, so nothing is answered from a cache before).
-/
import JanetModel.Peg.Compile

namespace JanetModel.Peg.Compile
open JanetModel.Peg.Spec

def CachesEmpty (b : B) : Prop := b.prims = [] ∧ b.root = [] ∧ ∀ t ∈ b.heap, t.cache = []

theorem getCache_none_of_empty (b : B) (h : CachesEmpty b) (g : Option Nat) (q : Patt) : getCache b g q = none := by
  obtain ⟨h1, h2, h3⟩ := h
  unfold getCache
  by_cases hp : isPrim q = true
  · simp [hp, h1, lookupCache]
  · simp only [hp]
    cases g with
    | none => simp [h2, lookupCache]
    | some id =>
      cases ht : b.heap[id]? with
      | none => simp [ht]
      | some t =>
        have : t ∈ b.heap := List.mem_of_getElem? ht
        simp [ht, h3 t this, lookupCache]

theorem compile1_entry_zero (dflt : Scope) : ∀ (d : Nat) (b : B) (g : Option Nat) (p : Patt) (a h : Nat) (b' : B),
    b.code = [] → CachesEmpty b → compile1 dflt d b g p = some (a, h, b') → a = 0 := by
  intro d
  induction d with
  | zero =>
    intro b g p a h b' hc he hr
    rw [compile1] at hr
    cases hk : resolveKw dflt b.heap guard g p with
    | none => simp [hk] at hr
    | some r =>
      obtain ⟨g1, q, il⟩ := r
      simp [hk, getCache_none_of_empty b he] at hr
  | succ d ih =>
    intro b g p a h b' hc he hr
    rw [compile1] at hr
    cases hk : resolveKw dflt b.heap guard g p with
    | none => simp [hk] at hr
    | some r =>
      obtain ⟨g1, q, il⟩ := r
      simp only [hk, getCache_none_of_empty b he] at hr
      cases hg : asGrammar q with
      | some rules =>
        simp only [hg] at hr
        cases hm : lookupScope rules "main" with
        | none => simp [hm] at hr
        | some m =>
          simp only [hm] at hr
          split at hr
          · cases hr
          · cases hr2 : compile1 dflt d { b with heap := b.heap ++ [⟨rules, [], g1, levelOf b.heap g1 + 1, rules :: scOf b.heap g1⟩] }
                (some b.heap.length) m with
            | none => simp [hr2] at hr
            | some r2 =>
              obtain ⟨a2, h2, b2⟩ := r2
              simp only [hr2] at hr
              split at hr
              · cases hr
              · cases hr
                refine ih { b with heap := b.heap ++ [⟨rules, [], g1, levelOf b.heap g1 + 1, rules :: scOf b.heap g1⟩] }
                  _ _ _ _ _ hc ?_ hr2
                refine ⟨he.1, he.2.1, fun t ht => ?_⟩
                rcases List.mem_append.mp ht with ht | ht
                · exact he.2.2 t ht
                · simp at ht; subst ht; rfl
      | none =>
        simp only [hg] at hr
        cases hs : shape q with
        | none => simp [hs] at hr
        | some i =>
          simp only [hs] at hr
          cases hkids : compileKids (compile1 dflt d) (reserve (putCache b g1 q b.code.length) (encSize i)) g1 i.kids with
          | none => simp [hkids] at hr
          | some r3 =>
            obtain ⟨addrs, b2⟩ := r3
            simp only [hkids] at hr
            cases hr
            simp [hc]

/-- the compile model's entry rule is address 0, where peg.c starts matching -/
theorem compile_entry_zero (dflt : Scope) (p : Patt) (o : Output) (h : compile dflt p = some o) : o.entry = 0 := by
  unfold compile at h
  cases hc : compile1 dflt guard B.empty none p with
  | none => simp [hc] at h
  | some r =>
    obtain ⟨a, hh, b⟩ := r
    simp only [hc] at h
    cases h
    exact compile1_entry_zero dflt guard B.empty none p a hh b rfl ⟨rfl, rfl, fun t ht => by simp [B.empty] at ht⟩ hc

end JanetModel.Peg.Compile
