/- `Patt.beq` (the key comparison of the rule cache in Peg/Compile.lean) is sound: equal keys are equal forms. -/
import JanetModel.Peg.Compile
set_option linter.unusedSimpArgs false
namespace JanetModel.Peg
open Spec

mutual
theorem Val.beq_sound (a b : Val) (h : Val.beq a b = true) : a = b := by
  cases a <;> cases b <;> simp only [Val.beq] at h <;> (try rfl) <;> (try (simp at h)) <;> (try (subst h; rfl))
  case arr.arr xs ys => rw [Val.beqL_sound xs ys h]
  case struct.struct xs ys => rw [Val.beqS_sound xs ys h]
termination_by sizeOf a
theorem Val.beqL_sound (a b : List Val) (h : Val.beqL a b = true) : a = b := by
  match a, b, h with
  | [], [], _ => rfl
  | x :: xs, y :: ys, h =>
    simp only [Val.beqL, Bool.and_eq_true] at h
    rw [Val.beq_sound x y h.1, Val.beqL_sound xs ys h.2]
termination_by sizeOf a
theorem Val.beqS_sound (a b : List (Key × Val)) (h : Val.beqS a b = true) : a = b := by
  match a, b, h with
  | [], [], _ => rfl
  | (k, x) :: xs, (k', y) :: ys, h =>
    simp only [Val.beqS, Bool.and_eq_true, beq_iff_eq] at h
    rw [h.1.1, Val.beq_sound x y h.1.2, Val.beqS_sound xs ys h.2]
termination_by sizeOf a
end

theorem Patt.as_str_eq {q : Patt} {b : List Nat} (h : q.as_str = some b) : q = .str b := by
  cases q <;> simp [Patt.as_str] at h
  subst h; rfl
theorem Patt.as_int_eq {q : Patt} {n : Int} (h : q.as_int = some n) : q = .int n := by
  cases q <;> simp [Patt.as_int] at h
  subst h; rfl
theorem Patt.as_bool_eq {q : Patt} {b : Bool} (h : q.as_bool = some b) : q = .bool b := by
  cases q <;> simp [Patt.as_bool] at h
  subst h; rfl
theorem Patt.as_ref_eq {q : Patt} {name : String} (h : q.as_ref = some name) : q = .ref name := by
  cases q <;> simp [Patt.as_ref] at h
  subst h; rfl
theorem Patt.as_range_eq {q : Patt} {rs : List (Nat × Nat)} (h : q.as_range = some rs) : q = .range rs := by
  cases q <;> simp [Patt.as_range] at h
  subst h; rfl
theorem Patt.as_set_eq {q : Patt} {chars : List Nat} (h : q.as_set = some chars) : q = .set chars := by
  cases q <;> simp [Patt.as_set] at h
  subst h; rfl
theorem Patt.as_look_eq {q : Patt} {off : Int} {p : Patt} (h : q.as_look = some (off, p)) : q = .look off p := by
  cases q <;> simp [Patt.as_look] at h
  obtain ⟨rfl, rfl⟩ := h; rfl
theorem Patt.as_choice_eq {q : Patt} {ps : List Patt} (h : q.as_choice = some ps) : q = .choice ps := by
  cases q <;> simp [Patt.as_choice] at h
  subst h; rfl
theorem Patt.as_seq_eq {q : Patt} {ps : List Patt} (h : q.as_seq = some ps) : q = .seq ps := by
  cases q <;> simp [Patt.as_seq] at h
  subst h; rfl
theorem Patt.as_if_eq {q : Patt} {c : Patt} {p : Patt} (h : q.as_if = some (c, p)) : q = .if_ c p := by
  cases q <;> simp [Patt.as_if] at h
  obtain ⟨rfl, rfl⟩ := h; rfl
theorem Patt.as_ifnot_eq {q : Patt} {c : Patt} {p : Patt} (h : q.as_ifnot = some (c, p)) : q = .ifnot c p := by
  cases q <;> simp [Patt.as_ifnot] at h
  obtain ⟨rfl, rfl⟩ := h; rfl
theorem Patt.as_not_eq {q : Patt} {p : Patt} (h : q.as_not = some p) : q = .not p := by
  cases q <;> simp [Patt.as_not] at h
  subst h; rfl
theorem Patt.as_any_eq {q : Patt} {p : Patt} (h : q.as_any = some p) : q = .any p := by
  cases q <;> simp [Patt.as_any] at h
  subst h; rfl
theorem Patt.as_some_eq {q : Patt} {p : Patt} (h : q.as_some = some p) : q = .some p := by
  cases q <;> simp [Patt.as_some] at h
  subst h; rfl
theorem Patt.as_opt_eq {q : Patt} {p : Patt} (h : q.as_opt = some p) : q = .opt p := by
  cases q <;> simp [Patt.as_opt] at h
  subst h; rfl
theorem Patt.as_between_eq {q : Patt} {lo : Nat} {hi : Nat} {p : Patt} (h : q.as_between = some (lo, hi, p)) : q = .between lo hi p := by
  cases q <;> simp [Patt.as_between] at h
  obtain ⟨rfl, rfl, rfl⟩ := h; rfl
theorem Patt.as_atleast_eq {q : Patt} {n : Nat} {p : Patt} (h : q.as_atleast = some (n, p)) : q = .atleast n p := by
  cases q <;> simp [Patt.as_atleast] at h
  obtain ⟨rfl, rfl⟩ := h; rfl
theorem Patt.as_atmost_eq {q : Patt} {n : Nat} {p : Patt} (h : q.as_atmost = some (n, p)) : q = .atmost n p := by
  cases q <;> simp [Patt.as_atmost] at h
  obtain ⟨rfl, rfl⟩ := h; rfl
theorem Patt.as_repeat_eq {q : Patt} {n : Nat} {p : Patt} (h : q.as_repeat = some (n, p)) : q = .repeat_ n p := by
  cases q <;> simp [Patt.as_repeat] at h
  obtain ⟨rfl, rfl⟩ := h; rfl
theorem Patt.as_to_eq {q : Patt} {p : Patt} (h : q.as_to = some p) : q = .to p := by
  cases q <;> simp [Patt.as_to] at h
  subst h; rfl
theorem Patt.as_thru_eq {q : Patt} {p : Patt} (h : q.as_thru = some p) : q = .thru p := by
  cases q <;> simp [Patt.as_thru] at h
  subst h; rfl
theorem Patt.as_capture_eq {q : Patt} {p : Patt} {tag : Nat} (h : q.as_capture = some (p, tag)) : q = .capture p tag := by
  cases q <;> simp [Patt.as_capture] at h
  obtain ⟨rfl, rfl⟩ := h; rfl
theorem Patt.as_accumulate_eq {q : Patt} {p : Patt} {tag : Nat} (h : q.as_accumulate = some (p, tag)) : q = .accumulate p tag := by
  cases q <;> simp [Patt.as_accumulate] at h
  obtain ⟨rfl, rfl⟩ := h; rfl
theorem Patt.as_group_eq {q : Patt} {p : Patt} {tag : Nat} (h : q.as_group = some (p, tag)) : q = .group p tag := by
  cases q <;> simp [Patt.as_group] at h
  obtain ⟨rfl, rfl⟩ := h; rfl
theorem Patt.as_drop_eq {q : Patt} {p : Patt} (h : q.as_drop = some p) : q = .drop p := by
  cases q <;> simp [Patt.as_drop] at h
  subst h; rfl
theorem Patt.as_onlytags_eq {q : Patt} {p : Patt} (h : q.as_onlytags = some p) : q = .onlytags p := by
  cases q <;> simp [Patt.as_onlytags] at h
  subst h; rfl
theorem Patt.as_replace_eq {q : Patt} {p : Patt} {v : Val} {tag : Nat} (h : q.as_replace = some (p, v, tag)) : q = .replace p v tag := by
  cases q <;> simp [Patt.as_replace] at h
  obtain ⟨rfl, rfl, rfl⟩ := h; rfl
theorem Patt.as_cmt_eq {q : Patt} {p : Patt} {v : Val} {tag : Nat} (h : q.as_cmt = some (p, v, tag)) : q = .cmt p v tag := by
  cases q <;> simp [Patt.as_cmt] at h
  obtain ⟨rfl, rfl, rfl⟩ := h; rfl
theorem Patt.as_constant_eq {q : Patt} {v : Val} {tag : Nat} (h : q.as_constant = some (v, tag)) : q = .constant v tag := by
  cases q <;> simp [Patt.as_constant] at h
  obtain ⟨rfl, rfl⟩ := h; rfl
theorem Patt.as_argument_eq {q : Patt} {n : Nat} {tag : Nat} (h : q.as_argument = some (n, tag)) : q = .argument n tag := by
  cases q <;> simp [Patt.as_argument] at h
  obtain ⟨rfl, rfl⟩ := h; rfl
theorem Patt.as_position_eq {q : Patt} {tag : Nat} (h : q.as_position = some tag) : q = .position tag := by
  cases q <;> simp [Patt.as_position] at h
  subst h; rfl
theorem Patt.as_line_eq {q : Patt} {tag : Nat} (h : q.as_line = some tag) : q = .line tag := by
  cases q <;> simp [Patt.as_line] at h
  subst h; rfl
theorem Patt.as_column_eq {q : Patt} {tag : Nat} (h : q.as_column = some tag) : q = .column tag := by
  cases q <;> simp [Patt.as_column] at h
  subst h; rfl
theorem Patt.as_backref_eq {q : Patt} {s : Nat} {tag : Nat} (h : q.as_backref = some (s, tag)) : q = .backref s tag := by
  cases q <;> simp [Patt.as_backref] at h
  obtain ⟨rfl, rfl⟩ := h; rfl
theorem Patt.as_backmatch_eq {q : Patt} {tag : Nat} (h : q.as_backmatch = some tag) : q = .backmatch tag := by
  cases q <;> simp [Patt.as_backmatch] at h
  subst h; rfl
theorem Patt.as_unref_eq {q : Patt} {p : Patt} {tag : Nat} (h : q.as_unref = some (p, tag)) : q = .unref p tag := by
  cases q <;> simp [Patt.as_unref] at h
  obtain ⟨rfl, rfl⟩ := h; rfl
theorem Patt.as_nth_eq {q : Patt} {n : Nat} {p : Patt} {tag : Nat} (h : q.as_nth = some (n, p, tag)) : q = .nth n p tag := by
  cases q <;> simp [Patt.as_nth] at h
  obtain ⟨rfl, rfl, rfl⟩ := h; rfl
theorem Patt.as_error_eq {q : Patt} {o : Option Patt} (h : q.as_error = some o) : q = .error o := by
  cases q <;> simp [Patt.as_error] at h
  subst h; rfl
theorem Patt.as_lenprefix_eq {q : Patt} {a : Patt} {p : Patt} (h : q.as_lenprefix = some (a, p)) : q = .lenprefix a p := by
  cases q <;> simp [Patt.as_lenprefix] at h
  obtain ⟨rfl, rfl⟩ := h; rfl
theorem Patt.as_sub_eq {q : Patt} {a : Patt} {p : Patt} (h : q.as_sub = some (a, p)) : q = .sub a p := by
  cases q <;> simp [Patt.as_sub] at h
  obtain ⟨rfl, rfl⟩ := h; rfl
theorem Patt.as_split_eq {q : Patt} {a : Patt} {p : Patt} (h : q.as_split = some (a, p)) : q = .split a p := by
  cases q <;> simp [Patt.as_split] at h
  obtain ⟨rfl, rfl⟩ := h; rfl
theorem Patt.as_til_eq {q : Patt} {a : Patt} {p : Patt} (h : q.as_til = some (a, p)) : q = .til a p := by
  cases q <;> simp [Patt.as_til] at h
  obtain ⟨rfl, rfl⟩ := h; rfl
theorem Patt.as_readint_eq {q : Patt} {w : Nat} {sg : Bool} {be : Bool} {tag : Nat} (h : q.as_readint = some (w, sg, be, tag)) : q = .readint w sg be tag := by
  cases q <;> simp [Patt.as_readint] at h
  obtain ⟨rfl, rfl, rfl, rfl⟩ := h; rfl
theorem Patt.as_number_eq {q : Patt} {p : Patt} {base : Nat} {tag : Nat} (h : q.as_number = some (p, base, tag)) : q = .number p base tag := by
  cases q <;> simp [Patt.as_number] at h
  obtain ⟨rfl, rfl, rfl⟩ := h; rfl
theorem Patt.as_grammar_eq {q : Patt} {rs : List (String × Patt)} (h : q.as_grammar = some rs) : q = .grammar rs := by
  cases q <;> simp [Patt.as_grammar] at h
  subst h; rfl

mutual
theorem Patt.beq_sound : ∀ (p q : Patt), Patt.beq p q = true → p = q
  | .str b, q, h => by
    simp only [Patt.beq] at h
    cases hq : q.as_str with
    | none => simp [hq] at h
    | some r =>
      simp only [hq, Bool.and_eq_true, beq_iff_eq] at h
      rw [Patt.as_str_eq hq]
      rw [h]
  | .int n, q, h => by
    simp only [Patt.beq] at h
    cases hq : q.as_int with
    | none => simp [hq] at h
    | some r =>
      simp only [hq, Bool.and_eq_true, beq_iff_eq] at h
      rw [Patt.as_int_eq hq]
      rw [h]
  | .bool b, q, h => by
    simp only [Patt.beq] at h
    cases hq : q.as_bool with
    | none => simp [hq] at h
    | some r =>
      simp only [hq, Bool.and_eq_true, beq_iff_eq] at h
      rw [Patt.as_bool_eq hq]
      rw [h]
  | .ref name, q, h => by
    simp only [Patt.beq] at h
    cases hq : q.as_ref with
    | none => simp [hq] at h
    | some r =>
      simp only [hq, Bool.and_eq_true, beq_iff_eq] at h
      rw [Patt.as_ref_eq hq]
      rw [h]
  | .range rs, q, h => by
    simp only [Patt.beq] at h
    cases hq : q.as_range with
    | none => simp [hq] at h
    | some r =>
      simp only [hq, Bool.and_eq_true, beq_iff_eq] at h
      rw [Patt.as_range_eq hq]
      rw [h]
  | .set chars, q, h => by
    simp only [Patt.beq] at h
    cases hq : q.as_set with
    | none => simp [hq] at h
    | some r =>
      simp only [hq, Bool.and_eq_true, beq_iff_eq] at h
      rw [Patt.as_set_eq hq]
      rw [h]
  | .look off p, q, h => by
    simp only [Patt.beq] at h
    cases hq : q.as_look with
    | none => simp [hq] at h
    | some r =>
      obtain ⟨off', p'⟩ := r
      simp only [hq, Bool.and_eq_true, beq_iff_eq] at h
      rw [Patt.as_look_eq hq]
      rw [h.1, Patt.beq_sound _ _ (h.2)]
  | .choice ps, q, h => by
    simp only [Patt.beq] at h
    cases hq : q.as_choice with
    | none => simp [hq] at h
    | some r =>
      simp only [hq, Bool.and_eq_true, beq_iff_eq] at h
      rw [Patt.as_choice_eq hq]
      rw [Patt.beqL_sound _ _ (h)]
  | .seq ps, q, h => by
    simp only [Patt.beq] at h
    cases hq : q.as_seq with
    | none => simp [hq] at h
    | some r =>
      simp only [hq, Bool.and_eq_true, beq_iff_eq] at h
      rw [Patt.as_seq_eq hq]
      rw [Patt.beqL_sound _ _ (h)]
  | .if_ c p, q, h => by
    simp only [Patt.beq] at h
    cases hq : q.as_if with
    | none => simp [hq] at h
    | some r =>
      obtain ⟨c', p'⟩ := r
      simp only [hq, Bool.and_eq_true, beq_iff_eq] at h
      rw [Patt.as_if_eq hq]
      rw [Patt.beq_sound _ _ (h.1), Patt.beq_sound _ _ (h.2)]
  | .ifnot c p, q, h => by
    simp only [Patt.beq] at h
    cases hq : q.as_ifnot with
    | none => simp [hq] at h
    | some r =>
      obtain ⟨c', p'⟩ := r
      simp only [hq, Bool.and_eq_true, beq_iff_eq] at h
      rw [Patt.as_ifnot_eq hq]
      rw [Patt.beq_sound _ _ (h.1), Patt.beq_sound _ _ (h.2)]
  | .not p, q, h => by
    simp only [Patt.beq] at h
    cases hq : q.as_not with
    | none => simp [hq] at h
    | some r =>
      simp only [hq, Bool.and_eq_true, beq_iff_eq] at h
      rw [Patt.as_not_eq hq]
      rw [Patt.beq_sound _ _ (h)]
  | .any p, q, h => by
    simp only [Patt.beq] at h
    cases hq : q.as_any with
    | none => simp [hq] at h
    | some r =>
      simp only [hq, Bool.and_eq_true, beq_iff_eq] at h
      rw [Patt.as_any_eq hq]
      rw [Patt.beq_sound _ _ (h)]
  | .some p, q, h => by
    simp only [Patt.beq] at h
    cases hq : q.as_some with
    | none => simp [hq] at h
    | some r =>
      simp only [hq, Bool.and_eq_true, beq_iff_eq] at h
      rw [Patt.as_some_eq hq]
      rw [Patt.beq_sound _ _ (h)]
  | .opt p, q, h => by
    simp only [Patt.beq] at h
    cases hq : q.as_opt with
    | none => simp [hq] at h
    | some r =>
      simp only [hq, Bool.and_eq_true, beq_iff_eq] at h
      rw [Patt.as_opt_eq hq]
      rw [Patt.beq_sound _ _ (h)]
  | .between lo hi p, q, h => by
    simp only [Patt.beq] at h
    cases hq : q.as_between with
    | none => simp [hq] at h
    | some r =>
      obtain ⟨lo', hi', p'⟩ := r
      simp only [hq, Bool.and_eq_true, beq_iff_eq] at h
      rw [Patt.as_between_eq hq]
      rw [h.1.1, h.1.2, Patt.beq_sound _ _ (h.2)]
  | .atleast n p, q, h => by
    simp only [Patt.beq] at h
    cases hq : q.as_atleast with
    | none => simp [hq] at h
    | some r =>
      obtain ⟨n', p'⟩ := r
      simp only [hq, Bool.and_eq_true, beq_iff_eq] at h
      rw [Patt.as_atleast_eq hq]
      rw [h.1, Patt.beq_sound _ _ (h.2)]
  | .atmost n p, q, h => by
    simp only [Patt.beq] at h
    cases hq : q.as_atmost with
    | none => simp [hq] at h
    | some r =>
      obtain ⟨n', p'⟩ := r
      simp only [hq, Bool.and_eq_true, beq_iff_eq] at h
      rw [Patt.as_atmost_eq hq]
      rw [h.1, Patt.beq_sound _ _ (h.2)]
  | .repeat_ n p, q, h => by
    simp only [Patt.beq] at h
    cases hq : q.as_repeat with
    | none => simp [hq] at h
    | some r =>
      obtain ⟨n', p'⟩ := r
      simp only [hq, Bool.and_eq_true, beq_iff_eq] at h
      rw [Patt.as_repeat_eq hq]
      rw [h.1, Patt.beq_sound _ _ (h.2)]
  | .to p, q, h => by
    simp only [Patt.beq] at h
    cases hq : q.as_to with
    | none => simp [hq] at h
    | some r =>
      simp only [hq, Bool.and_eq_true, beq_iff_eq] at h
      rw [Patt.as_to_eq hq]
      rw [Patt.beq_sound _ _ (h)]
  | .thru p, q, h => by
    simp only [Patt.beq] at h
    cases hq : q.as_thru with
    | none => simp [hq] at h
    | some r =>
      simp only [hq, Bool.and_eq_true, beq_iff_eq] at h
      rw [Patt.as_thru_eq hq]
      rw [Patt.beq_sound _ _ (h)]
  | .capture p tag, q, h => by
    simp only [Patt.beq] at h
    cases hq : q.as_capture with
    | none => simp [hq] at h
    | some r =>
      obtain ⟨p', tag'⟩ := r
      simp only [hq, Bool.and_eq_true, beq_iff_eq] at h
      rw [Patt.as_capture_eq hq]
      rw [Patt.beq_sound _ _ (h.1), h.2]
  | .accumulate p tag, q, h => by
    simp only [Patt.beq] at h
    cases hq : q.as_accumulate with
    | none => simp [hq] at h
    | some r =>
      obtain ⟨p', tag'⟩ := r
      simp only [hq, Bool.and_eq_true, beq_iff_eq] at h
      rw [Patt.as_accumulate_eq hq]
      rw [Patt.beq_sound _ _ (h.1), h.2]
  | .group p tag, q, h => by
    simp only [Patt.beq] at h
    cases hq : q.as_group with
    | none => simp [hq] at h
    | some r =>
      obtain ⟨p', tag'⟩ := r
      simp only [hq, Bool.and_eq_true, beq_iff_eq] at h
      rw [Patt.as_group_eq hq]
      rw [Patt.beq_sound _ _ (h.1), h.2]
  | .drop p, q, h => by
    simp only [Patt.beq] at h
    cases hq : q.as_drop with
    | none => simp [hq] at h
    | some r =>
      simp only [hq, Bool.and_eq_true, beq_iff_eq] at h
      rw [Patt.as_drop_eq hq]
      rw [Patt.beq_sound _ _ (h)]
  | .onlytags p, q, h => by
    simp only [Patt.beq] at h
    cases hq : q.as_onlytags with
    | none => simp [hq] at h
    | some r =>
      simp only [hq, Bool.and_eq_true, beq_iff_eq] at h
      rw [Patt.as_onlytags_eq hq]
      rw [Patt.beq_sound _ _ (h)]
  | .replace p v tag, q, h => by
    simp only [Patt.beq] at h
    cases hq : q.as_replace with
    | none => simp [hq] at h
    | some r =>
      obtain ⟨p', v', tag'⟩ := r
      simp only [hq, Bool.and_eq_true, beq_iff_eq] at h
      rw [Patt.as_replace_eq hq]
      rw [Patt.beq_sound _ _ (h.1.1), Val.beq_sound _ _ (h.1.2), h.2]
  | .cmt p v tag, q, h => by
    simp only [Patt.beq] at h
    cases hq : q.as_cmt with
    | none => simp [hq] at h
    | some r =>
      obtain ⟨p', v', tag'⟩ := r
      simp only [hq, Bool.and_eq_true, beq_iff_eq] at h
      rw [Patt.as_cmt_eq hq]
      rw [Patt.beq_sound _ _ (h.1.1), Val.beq_sound _ _ (h.1.2), h.2]
  | .constant v tag, q, h => by
    simp only [Patt.beq] at h
    cases hq : q.as_constant with
    | none => simp [hq] at h
    | some r =>
      obtain ⟨v', tag'⟩ := r
      simp only [hq, Bool.and_eq_true, beq_iff_eq] at h
      rw [Patt.as_constant_eq hq]
      rw [Val.beq_sound _ _ (h.1), h.2]
  | .argument n tag, q, h => by
    simp only [Patt.beq] at h
    cases hq : q.as_argument with
    | none => simp [hq] at h
    | some r =>
      obtain ⟨n', tag'⟩ := r
      simp only [hq, Bool.and_eq_true, beq_iff_eq] at h
      rw [Patt.as_argument_eq hq]
      rw [h.1, h.2]
  | .position tag, q, h => by
    simp only [Patt.beq] at h
    cases hq : q.as_position with
    | none => simp [hq] at h
    | some r =>
      simp only [hq, Bool.and_eq_true, beq_iff_eq] at h
      rw [Patt.as_position_eq hq]
      rw [h]
  | .line tag, q, h => by
    simp only [Patt.beq] at h
    cases hq : q.as_line with
    | none => simp [hq] at h
    | some r =>
      simp only [hq, Bool.and_eq_true, beq_iff_eq] at h
      rw [Patt.as_line_eq hq]
      rw [h]
  | .column tag, q, h => by
    simp only [Patt.beq] at h
    cases hq : q.as_column with
    | none => simp [hq] at h
    | some r =>
      simp only [hq, Bool.and_eq_true, beq_iff_eq] at h
      rw [Patt.as_column_eq hq]
      rw [h]
  | .backref s tag, q, h => by
    simp only [Patt.beq] at h
    cases hq : q.as_backref with
    | none => simp [hq] at h
    | some r =>
      obtain ⟨s', tag'⟩ := r
      simp only [hq, Bool.and_eq_true, beq_iff_eq] at h
      rw [Patt.as_backref_eq hq]
      rw [h.1, h.2]
  | .backmatch tag, q, h => by
    simp only [Patt.beq] at h
    cases hq : q.as_backmatch with
    | none => simp [hq] at h
    | some r =>
      simp only [hq, Bool.and_eq_true, beq_iff_eq] at h
      rw [Patt.as_backmatch_eq hq]
      rw [h]
  | .unref p tag, q, h => by
    simp only [Patt.beq] at h
    cases hq : q.as_unref with
    | none => simp [hq] at h
    | some r =>
      obtain ⟨p', tag'⟩ := r
      simp only [hq, Bool.and_eq_true, beq_iff_eq] at h
      rw [Patt.as_unref_eq hq]
      rw [Patt.beq_sound _ _ (h.1), h.2]
  | .nth n p tag, q, h => by
    simp only [Patt.beq] at h
    cases hq : q.as_nth with
    | none => simp [hq] at h
    | some r =>
      obtain ⟨n', p', tag'⟩ := r
      simp only [hq, Bool.and_eq_true, beq_iff_eq] at h
      rw [Patt.as_nth_eq hq]
      rw [h.1.1, Patt.beq_sound _ _ (h.1.2), h.2]
  | .error o, q, h => by
    simp only [Patt.beq] at h
    cases hq : q.as_error with
    | none => simp [hq] at h
    | some r =>
      simp only [hq, Bool.and_eq_true, beq_iff_eq] at h
      rw [Patt.as_error_eq hq]
      rw [Patt.beqO_sound _ _ (h)]
  | .lenprefix a p, q, h => by
    simp only [Patt.beq] at h
    cases hq : q.as_lenprefix with
    | none => simp [hq] at h
    | some r =>
      obtain ⟨a', p'⟩ := r
      simp only [hq, Bool.and_eq_true, beq_iff_eq] at h
      rw [Patt.as_lenprefix_eq hq]
      rw [Patt.beq_sound _ _ (h.1), Patt.beq_sound _ _ (h.2)]
  | .sub a p, q, h => by
    simp only [Patt.beq] at h
    cases hq : q.as_sub with
    | none => simp [hq] at h
    | some r =>
      obtain ⟨a', p'⟩ := r
      simp only [hq, Bool.and_eq_true, beq_iff_eq] at h
      rw [Patt.as_sub_eq hq]
      rw [Patt.beq_sound _ _ (h.1), Patt.beq_sound _ _ (h.2)]
  | .split a p, q, h => by
    simp only [Patt.beq] at h
    cases hq : q.as_split with
    | none => simp [hq] at h
    | some r =>
      obtain ⟨a', p'⟩ := r
      simp only [hq, Bool.and_eq_true, beq_iff_eq] at h
      rw [Patt.as_split_eq hq]
      rw [Patt.beq_sound _ _ (h.1), Patt.beq_sound _ _ (h.2)]
  | .til a p, q, h => by
    simp only [Patt.beq] at h
    cases hq : q.as_til with
    | none => simp [hq] at h
    | some r =>
      obtain ⟨a', p'⟩ := r
      simp only [hq, Bool.and_eq_true, beq_iff_eq] at h
      rw [Patt.as_til_eq hq]
      rw [Patt.beq_sound _ _ (h.1), Patt.beq_sound _ _ (h.2)]
  | .readint w sg be tag, q, h => by
    simp only [Patt.beq] at h
    cases hq : q.as_readint with
    | none => simp [hq] at h
    | some r =>
      obtain ⟨w', sg', be', tag'⟩ := r
      simp only [hq, Bool.and_eq_true, beq_iff_eq] at h
      rw [Patt.as_readint_eq hq]
      rw [h.1.1.1, h.1.1.2, h.1.2, h.2]
  | .number p base tag, q, h => by
    simp only [Patt.beq] at h
    cases hq : q.as_number with
    | none => simp [hq] at h
    | some r =>
      obtain ⟨p', base', tag'⟩ := r
      simp only [hq, Bool.and_eq_true, beq_iff_eq] at h
      rw [Patt.as_number_eq hq]
      rw [Patt.beq_sound _ _ (h.1.1), h.1.2, h.2]
  | .grammar rs, q, h => by
    simp only [Patt.beq] at h
    cases hq : q.as_grammar with
    | none => simp [hq] at h
    | some r =>
      simp only [hq, Bool.and_eq_true, beq_iff_eq] at h
      rw [Patt.as_grammar_eq hq]
      rw [Patt.beqR_sound _ _ (h)]
theorem Patt.beqL_sound : ∀ (a b : List Patt), Patt.beqL a b = true → a = b
  | [], [], _ => rfl
  | x :: xs, y :: ys, h => by
    simp only [Patt.beqL, Bool.and_eq_true] at h
    rw [Patt.beq_sound x y h.1, Patt.beqL_sound xs ys h.2]
  | [], _ :: _, h => by simp [Patt.beqL] at h
  | _ :: _, [], h => by simp [Patt.beqL] at h
theorem Patt.beqO_sound : ∀ (a b : Option Patt), Patt.beqO a b = true → a = b
  | none, none, _ => rfl
  | some x, some y, h => by
    simp only [Patt.beqO] at h
    rw [Patt.beq_sound x y h]
  | none, some _, h => by simp [Patt.beqO] at h
  | some _, none, h => by simp [Patt.beqO] at h
theorem Patt.beqR_sound : ∀ (a b : List (String × Patt)), Patt.beqR a b = true → a = b
  | [], [], _ => rfl
  | (k, x) :: xs, (k', y) :: ys, h => by
    simp only [Patt.beqR, Bool.and_eq_true, beq_iff_eq] at h
    rw [h.1.1, Patt.beq_sound x y h.1.2, Patt.beqR_sound xs ys h.2]
  | [], _ :: _, h => by simp [Patt.beqR] at h
  | _ :: _, [], h => by simp [Patt.beqR] at h
end
end JanetModel.Peg
