/-
Denotational semantics of PEG instructions.

A rule, run in a context `St` (captures so far, tagged captures so far, mode, window end, depth) at a text
position, yields `none` (no match) or `some (next position, Delta)` where `Delta` is what the match ADDS to the
capture stack, the tagged-capture stack and the accumulation buffer.  A failing rule returns nothing at all, so
captures made inside a failed alternative vanish by construction; mode and window are parameters, never mutated.

The same function gives the meaning of compiled bytecode (`ρ = Nat`, `fetch = decode`) and of source grammars
(`ρ = Spec.Closure`, `fetch = Spec.fetch`, see Peg/Spec.lean).
Core Lean only.
-/
import JanetModel.Peg.Basic
import JanetModel.Peg.Op

namespace JanetModel.Peg

abbrev DRes := Except Err (Option (Nat × Delta))
abbrev DK (ρ : Type) := ρ → St → Nat → DRes

namespace Den
variable {ρ : Type}

def choiceLoop (k : DK ρ) : List ρ → St → Nat → DRes
  | [], _, _ => .ok none
  | [r], s, pos => k r (up1 s) pos
  | r :: rs, s, pos => do
    match ← k r s pos with
    | some pd => .ok (some pd)
    | none => choiceLoop k rs s pos

def seqLoop (k : DK ρ) : List ρ → St → Nat → Delta → DRes
  | [], _, pos, d => .ok (some (pos, d))
  | [r], s, pos, d => do
    match ← k r (up1 (s.extend d)) pos with
    | some (p, d2) => .ok (some (p, d.append d2))
    | none => .ok none
  | r :: rs, s, pos, d => do
    match ← k r (s.extend d) pos with
    | some (p, d2) => seqLoop k rs s p (d.append d2)
    | none => .ok none

def toLoop (k : DK ρ) (r : ρ) (isTo : Bool) : Nat → St → Nat → DRes
  | 0, _, _ => .ok none
  | n + 1, s, pos => do
    match ← k r s pos with
    | some (p, d) => if isTo then .ok (some (pos, {})) else .ok (some (p, d))
    | none => toLoop k r isTo n s (pos + 1)

def betweenLoop (k : DK ρ) (r : ρ) (hi : Nat) : Nat → Nat → St → Nat → Delta → Except Err (Nat × Nat × Delta)
  | 0, _, _, _, _ => .error .fuel
  | n + 1, captured, s, pos, d =>
    if captured < hi then do
      match ← k r (s.extend d) pos with
      | none => .ok (captured, pos, d)
      | some (p, d2) =>
        if p == pos ∧ hi == uintMax then .ok (captured, pos, d)
        else betweenLoop k r hi n (captured + 1) s p (d.append d2)
    else .ok (captured, pos, d)

def lenLoop (k : DK ρ) (r : ρ) : Nat → St → Nat → Delta → DRes
  | 0, _, pos, d => .ok (some (pos, d))
  | n + 1, s, pos, d => do
    let s0 ← down1 (s.extend d)
    match ← k r s0 pos with
    | none => .ok none
    | some (p, d2) => lenLoop k r n s p (d.append d2)

def tilLoop (k : DK ρ) (r : ρ) : Nat → St → Nat → Except Err (Option (Nat × Nat))
  | 0, _, _ => .ok none
  | n + 1, s, pos => do
    match ← k r s pos with
    | some (e, _) => .ok (some (pos, e))
    | none => tilLoop k r n s (pos + 1)

def splitFind (k : DK ρ) (sep : ρ) : Nat → St → Nat → Nat → Except Err (Nat × Nat)
  | 0, _, chunkEnd, pos => .ok (chunkEnd, pos)
  | n + 1, s, _, pos => do
    match ← k sep s pos with
    | some (c, _) => .ok (pos, c)
    | none => splitFind k sep n s pos (pos + 1)

def splitLoop (k : DK ρ) (sep sub : ρ) (savedEnd : Nat) : Nat → St → Nat → Nat → Delta → DRes
  | 0, _, _, _, _ => .error .fuel
  | n + 1, s, chunkStart, pos, d =>
    if pos ≤ savedEnd then do
      let sd := s.extend d
      let s0 ← down1 sd
      let (chunkEnd, pos') ← splitFind k sep (savedEnd + 1 - pos) s0 pos pos
      let s4 ← down1 { sd with textEnd := chunkEnd }
      match ← k sub s4 chunkStart with
      | none => .ok none
      | some (_, d2) =>
        if pos' == chunkStart then .ok none
        else splitLoop k sep sub savedEnd n s pos' pos' (d.append d2)
    else .ok (some (savedEnd, d))

/-- value of RULE_REPLACE / RULE_MATCHTIME: `before` = captures before the rule, `sub` = captures of the sub-pattern -/
def replaceValue (v : Val) (before sub : List Val) : Except Err Val :=
  match v with
  | .struct kvs => .ok (match (before ++ sub).getLast? with | some c => structGet kvs c | none => .nil)
  | .fn name => applyFn name sub
  | v => .ok v

def step (E : Env) (k : DK ρ) (n : Nat) (i : Instr ρ) (s : St) (pos : Nat) : DRes :=
  match i with
  | .literal bytes =>
    if pos + bytes.length > s.textEnd then .ok none
    else do
      let t ← E.slice s pos (pos + bytes.length)
      .ok (if t == bytes then some (pos + bytes.length, {}) else none)
  | .nchar c => .ok (if pos + c > s.textEnd then none else some (pos + c, {}))
  | .notnchar c => .ok (if pos + c > s.textEnd then some (pos, {}) else none)
  | .range lo hi =>
    if pos < s.textEnd then do
      let b ← E.byte s pos
      .ok (if lo ≤ b ∧ b ≤ hi then some (pos + 1, {}) else none)
    else .ok none
  | .set bm =>
    if pos ≥ s.textEnd then .ok none
    else do
      let b ← E.byte s pos
      let word := bm.getD (b / 32) 0
      .ok (if (word / 2 ^ (b % 32)) % 2 == 1 then some (pos + 1, {}) else none)
  | .look off r =>
    let t : Int := (pos : Int) + off
    if t < 0 ∨ t > (s.textEnd : Int) then .ok none
    else do
      let s0 ← down1 s
      match ← k r s0 t.toNat with
      | some (_, d) => .ok (some (pos, d))
      | none => .ok none
  | .choice rs =>
    if rs.isEmpty then .ok none
    else do
      let s0 ← down1 s
      choiceLoop k rs s0 pos
  | .sequence rs =>
    if rs.isEmpty then .ok (some (pos, {}))
    else do
      let s0 ← down1 s
      seqLoop k rs s0 pos {}
  | .if_ a b => do
    let s0 ← down1 s
    match ← k a s0 pos with
    | none => .ok none
    | some (_, d) =>
      match ← k b (s.extend d) pos with
      | some (p, d2) => .ok (some (p, d.append d2))
      | none => .ok none
  | .ifnot a b => do
    let s0 ← down1 s
    match ← k a s0 pos with
    | some _ => .ok none
    | none => k b s pos
  | .not a => do
    let s0 ← down1 s
    match ← k a s0 pos with
    | some _ => .ok none
    | none => .ok (some (pos, {}))
  | .to r => do
    let s0 ← down1 s
    toLoop k r true (s.textEnd + 1 - pos) s0 pos
  | .thru r => do
    let s0 ← down1 s
    toLoop k r false (s.textEnd + 1 - pos) s0 pos
  | .between lo hi r => do
    let s0 ← down1 s
    let (captured, p, d) ← betweenLoop k r hi n 0 s0 pos {}
    if captured < lo then .ok none else .ok (some (p, d))
  | .gettag search tag =>
    match findTag s.tagged search with
    | some v => .ok (some (pos, pushDelta E s.acc v tag))
    | none => .ok none
  | .position tag => .ok (some (pos, pushDelta E s.acc (.int pos) tag))
  | .line tag => .ok (some (pos, pushDelta E s.acc (.int (lineCol E.text pos).1) tag))
  | .column tag => .ok (some (pos, pushDelta E s.acc (.int (lineCol E.text pos).2) tag))
  | .argument idx tag => .ok (some (pos, pushDelta E s.acc (E.args.getD idx .nil) tag))
  | .constant v tag => .ok (some (pos, pushDelta E s.acc v tag))
  | .capture r tag => do
    let s0 ← down1 s
    match ← k r s0 pos with
    | none => .ok none
    | some (p, d) => do
      let t ← E.slice s pos p
      if !E.hasBackref ∧ s.acc then .ok (some (p, d.append { scratch := t }))
      else .ok (some (p, d.append (pushDelta E s.acc (.str t) tag)))
  | .capturenum r base tag => do
    let s0 ← down1 s
    match ← k r s0 pos with
    | none => .ok none
    | some (p, d) => do
      let t ← E.slice s pos p
      match scanNumber t base with
      | none => .ok none
      | some x =>
        if E.numRaw ∧ !E.hasBackref ∧ s.acc then .ok (some (p, d.append { scratch := t }))
        else .ok (some (p, d.append (pushDelta E s.acc x tag)))
  | .accumulate r tag =>
    if tag == 0 ∧ s.acc then k r s pos
    else do
      let s0 ← down1 { s with acc := true }
      match ← k r s0 pos with
      | none => .ok none
      | some (p, d) =>
        -- the accumulated text becomes one capture; tagged captures of the sub-pattern stay
        .ok (some (p, Delta.append { tagged := d.tagged } (pushDelta E s.acc (.str d.scratch) tag)))
  | .drop r => do
    let s0 ← down1 s
    match ← k r s0 pos with
    | none => .ok none
    | some (p, _) => .ok (some (p, {}))
  | .onlytags r => do
    let s0 ← down1 s
    match ← k r s0 pos with
    | none => .ok none
    | some (p, d) => .ok (some (p, { tagged := d.tagged }))
  | .group r tag => do
    let s0 ← down1 { s with acc := false }
    match ← k r s0 pos with
    | none => .ok none
    | some (p, d) => .ok (some (p, Delta.append { tagged := d.tagged } (pushDelta E s.acc (.arr d.caps) tag)))
  | .nth nth r tag => do
    let nth := if nth > int32Max then int32Max else nth
    let s0 ← down1 { s with acc := false }
    match ← k r s0 pos with
    | none => .ok none
    | some (p, d) =>
      match d.caps[nth]? with
      | none => .ok none
      | some cap => .ok (some (p, Delta.append { tagged := d.tagged } (pushDelta E s.acc cap tag)))
  | .sub w r => do
    let s0 ← down1 s
    match ← k w s0 pos with
    | none => .ok none
    | some (windowEnd, d) => do
      let s3 ← down1 { s.extend d with textEnd := windowEnd }
      match ← k r s3 pos with
      | none => .ok none
      | some (_, d2) => .ok (some (windowEnd, d.append d2))
  | .til t r => do
    let s0 ← down1 s
    match ← tilLoop k t (s.textEnd + 1 - pos) s0 pos with
    | none => .ok none
    | some (termStart, termEnd) => do
      let s3 ← down1 { s with textEnd := termStart }
      match ← k r s3 pos with
      | none => .ok none
      | some (_, d2) => .ok (some (termEnd, d2))
  | .split sep r => splitLoop k sep r s.textEnd n s pos pos {}
  | .replace r v tag => do
    let s0 ← down1 { s with acc := false }
    match ← k r s0 pos with
    | none => .ok none
    | some (p, d) => do
      callGuard E s.depth v
      let cap ← replaceValue v s.caps d.caps
      .ok (some (p, Delta.append { tagged := d.tagged } (pushDelta E s.acc cap tag)))
  | .matchtime r v tag => do
    let s0 ← down1 { s with acc := false }
    match ← k r s0 pos with
    | none => .ok none
    | some (p, d) => do
      callGuard E s.depth v
      let cap ← replaceValue v s.caps d.caps
      if truthy cap then .ok (some (p, Delta.append { tagged := d.tagged } (pushDelta E s.acc cap tag)))
      else .ok none
  | .error r => do
    let s0 ← down1 { s with acc := false }
    match ← k r s0 pos with
    | none => .ok none
    | some (_, d) =>
      match d.caps.getLast? with
      | some v => .error (.user v)
      | none =>
        let lc := lineCol E.text pos
        .error (.matchErr lc.1 lc.2)
  | .backmatch search =>
    match findTag s.tagged search with
    | some (.str bytes) =>
      if pos + bytes.length > s.textEnd then .ok none
      else do
        let t ← E.slice s pos (pos + bytes.length)
        .ok (if t == bytes then some (pos + bytes.length, {}) else none)
    | _ => .ok none
  | .lenprefix a b => do
    let s0 ← down1 { s with acc := false }
    match ← k a s0 pos with
    | none => .ok none
    | some (p, d) =>
      match d.caps.head? with
      | some (.int nrep) =>
        if checkint nrep then lenLoop k b nrep.toNat s p {} else .ok none
      | _ => .ok none
  | .readint flags tag =>
    let width := flags % 16
    if pos + width > s.textEnd then .ok none
    else do
      let t ← E.slice s pos (pos + width)
      .ok (some (pos + width, pushDelta E s.acc (readintVal t flags) tag))
  | .unref r tag => do
    let s0 ← down1 s
    match ← k r s0 pos with
    | none => .ok none
    | some (p, d) =>
      .ok (some (p, { d with tagged := if tag != 0 then d.tagged.filter (fun tv => tv.1 != tag % 256) else [] }))

def run (E : Env) (fetch : ρ → Option (Instr ρ)) : Nat → DK ρ
  | 0, _, _, _ => .error .fuel
  | fuel + 1, r, s, pos =>
    match fetch r with
    | none => .error .badop
    | some i => step E (run E fetch fuel) (fuel + 1) i s pos

end Den
end JanetModel.Peg
