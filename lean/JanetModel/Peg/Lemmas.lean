/-
Lemmas relating the operational model (Peg/Op.lean) and the denotational semantics (Peg/Den.lean).
-/
import JanetModel.Peg.Op
import JanetModel.Peg.Den

namespace JanetModel.Peg

/-- `s'` is `s` with possibly more entries on the three stacks: what a FAILED rule may leave behind. -/
structure St.le (s s' : St) : Prop where
  caps : s'.caps.take s.caps.length = s.caps
  tagged : s'.tagged.take s.tagged.length = s.tagged
  scratch : s'.scratch.take s.scratch.length = s.scratch
  acc : s'.acc = s.acc
  textEnd : s'.textEnd = s.textEnd
  depth : s'.depth = s.depth

/-- operational result `o` from state `s` agrees with denotation `d` -/
def Agree (o : ORes) (d : DRes) (s : St) : Prop :=
  match d with
  | .error e => o = .error e
  | .ok none => ∃ s', o = .ok (none, s') ∧ s.le s'
  | .ok (some (p, dl)) => o = .ok (some p, s.extend dl)

def KAgree {ρ : Type} (ko : OK ρ) (kd : DK ρ) : Prop := ∀ r s pos, Agree (ko r s pos) (kd r s pos) s

theorem St.le_refl (s : St) : s.le s := ⟨by simp, by simp, by simp, rfl, rfl, rfl⟩

theorem St.le_extend (s : St) (d : Delta) : s.le (s.extend d) :=
  ⟨by simp [St.extend], by simp [St.extend], by simp [St.extend], rfl, rfl, rfl⟩

theorem capLoad_of_le {s s' : St} (h : s.le s') : capLoad s' (capSave s) = s := by
  cases s; cases s'
  obtain ⟨h1, h2, h3, h4, h5, h6⟩ := h
  simp_all [capLoad, capSave]

end JanetModel.Peg

namespace JanetModel.Peg

theorem down1_cases (s : St) :
    (down1 s = .error .depth) ∨ (2 ≤ s.depth ∧ down1 s = .ok { s with depth := s.depth - 1 }) := by
  unfold down1
  by_cases h : s.depth ≤ 1
  · left; simp [h]
  · right; simp [h]; omega

theorem up1_extend_down {s : St} (d : Delta) (h : 2 ≤ s.depth) :
    up1 (St.extend { s with depth := s.depth - 1 } d) = s.extend d := by
  cases s; simp [up1, St.extend] at *; omega

theorem le_up1_of_down {s s1 : St} (h : 2 ≤ s.depth) (hle : St.le { s with depth := s.depth - 1 } s1) : s.le (up1 s1) := by
  obtain ⟨h1, h2, h3, h4, h5, h6⟩ := hle
  refine ⟨by simpa [up1] using h1, by simpa [up1] using h2, by simpa [up1] using h3, by simpa [up1] using h4, by simpa [up1] using h5, ?_⟩
  simp [up1] at *; omega

theorem up1_down {s : St} (h : 2 ≤ s.depth) : up1 { s with depth := s.depth - 1 } = s := by
  cases s; simp [up1] at *; omega

@[simp] theorem extend_empty (s : St) : s.extend {} = s := by
  cases s; simp [St.extend]

variable {ρ : Type}

theorem agree_not (E : Env) {ko : OK ρ} {kd : DK ρ} (hk : KAgree ko kd) (n : Nat) (a : ρ) (s : St) (pos : Nat) :
    Agree (Op.step E ko n (.not a) s pos) (Den.step E kd n (.not a) s pos) s := by
  simp only [Op.step, Den.step]
  rcases down1_cases s with hd | ⟨hdep, hd⟩
  · simp [hd, Agree, bind, Except.bind]
  · have h := hk a { s with depth := s.depth - 1 } pos
    simp only [hd, bind, Except.bind]
    revert h
    cases hkd : kd a { s with depth := s.depth - 1 } pos with
    | error e => intro h; simp [Agree] at h; simp [h, Agree]
    | ok v =>
      cases v with
      | none =>
        intro h
        obtain ⟨s1, h1, hle⟩ := h
        simp only [h1, Agree]
        have hcl := capLoad_of_le hle
        simp only [capSave] at hcl
        simp only [capSave, hcl, up1_down hdep, extend_empty]
      | some pd =>
        obtain ⟨p, d⟩ := pd
        intro h
        simp only [Agree] at h
        simp only [h, Agree]
        exact ⟨_, rfl, le_up1_of_down hdep (St.le_extend _ d)⟩

end JanetModel.Peg

namespace JanetModel.Peg
variable {ρ : Type}

theorem child_cases {ko : OK ρ} {kd : DK ρ} (hk : KAgree ko kd) (r : ρ) (s0 : St) (pos : Nat) :
    (∃ e, kd r s0 pos = .error e ∧ ko r s0 pos = .error e) ∨
    (kd r s0 pos = .ok none ∧ ∃ s1, ko r s0 pos = .ok (none, s1) ∧ s0.le s1) ∨
    (∃ p d, kd r s0 pos = .ok (some (p, d)) ∧ ko r s0 pos = .ok (some p, s0.extend d)) := by
  have h := hk r s0 pos
  cases hkd : kd r s0 pos with
  | error e => left; rw [hkd] at h; exact ⟨e, rfl, h⟩
  | ok v =>
    cases v with
    | none => right; left; rw [hkd] at h; exact ⟨rfl, h⟩
    | some pd => right; right; obtain ⟨p, d⟩ := pd; rw [hkd] at h; exact ⟨p, d, rfl, h⟩

theorem pushcap_eq (E : Env) (s : St) (v : Val) (tag : Nat) :
    pushcap E s v tag = s.extend (pushDelta E s.acc v tag) := by
  cases s
  simp only [pushcap, pushDelta, St.extend]
  split <;> split <;> simp

theorem agree_fail (s : St) : Agree (.ok (none, s)) (.ok none) s := ⟨s, rfl, St.le_refl s⟩

theorem agree_ok (s : St) (p : Nat) : Agree (.ok (some p, s)) (.ok (some (p, {}))) s := by simp [Agree]

theorem agree_leaf (E : Env) {ko : OK ρ} {kd : DK ρ} (n : Nat) (i : Instr ρ) (s : St) (pos : Nat)
    (hi : match i with
      | .literal _ | .nchar _ | .notnchar _ | .range _ _ | .set _ | .gettag _ _ | .position _ | .line _ | .column _
      | .argument _ _ | .constant _ _ | .backmatch _ | .readint _ _ => True
      | _ => False) :
    Agree (Op.step E ko n i s pos) (Den.step E kd n i s pos) s := by
  cases i <;> simp only at hi <;> simp only [Op.step, Den.step]
  case literal bytes =>
    split
    · exact agree_fail s
    · cases E.slice s pos (pos + bytes.length) with
      | error e => simp [bind, Except.bind, Agree]
      | ok t => simp only [bind, Except.bind]; split <;> simp [Agree, St.le_refl]
  case nchar c => split <;> simp [Agree, St.le_refl]
  case notnchar c => split <;> simp [Agree, St.le_refl]
  case range lo hi =>
    split
    · cases E.byte s pos with
      | error e => simp [bind, Except.bind, Agree]
      | ok t => simp only [bind, Except.bind]; split <;> simp [Agree, St.le_refl]
    · exact agree_fail s
  case set bm =>
    split
    · exact agree_fail s
    · cases E.byte s pos with
      | error e => simp [bind, Except.bind, Agree]
      | ok t => simp only [bind, Except.bind]; split <;> simp [Agree, St.le_refl]
  case gettag search tag =>
    cases findTag s.tagged search with
    | none => exact agree_fail s
    | some v => simp [Agree, pushcap_eq]
  case position tag => simp [Agree, pushcap_eq]
  case line tag => simp [Agree, pushcap_eq]
  case column tag => simp [Agree, pushcap_eq]
  case argument idx tag => simp [Agree, pushcap_eq]
  case constant v tag => simp [Agree, pushcap_eq]
  case backmatch search =>
    cases findTag s.tagged search with
    | none => exact agree_fail s
    | some v =>
      cases v <;> try exact agree_fail s
      rename_i bytes
      simp only
      split
      · exact agree_fail s
      · cases E.slice s pos (pos + bytes.length) with
        | error e => simp [bind, Except.bind, Agree]
        | ok t => simp only [bind, Except.bind]; split <;> simp [Agree, St.le_refl]
  case readint flags tag =>
    split
    · exact agree_fail s
    · cases E.slice s pos (pos + flags % 16) with
      | error e => simp [bind, Except.bind, Agree]
      | ok t => simp [bind, Except.bind, Agree, pushcap_eq]

end JanetModel.Peg

namespace JanetModel.Peg
variable {ρ : Type}

/-- finishing tactic for equalities / `le` facts between concrete states -/
macro "st_fin" : tactic =>
  `(tactic| (simp [St.extend, up1, capLoad, capLoadKeept, capSave, pushcap_eq, pushDelta, Delta.append] at * <;> omega))

theorem le_of_fields {s s' : St} (h1 : s'.caps.take s.caps.length = s.caps) (h2 : s'.tagged.take s.tagged.length = s.tagged)
    (h3 : s'.scratch.take s.scratch.length = s.scratch) (h4 : s'.acc = s.acc) (h5 : s'.textEnd = s.textEnd)
    (h6 : s'.depth = s.depth) : s.le s' := ⟨h1, h2, h3, h4, h5, h6⟩

/-- a failed child below `down1` (possibly with another mode / window), state restored by `f` -/
theorem le_restore {s s0 s1 : St} (hle : s0.le s1) (hc : s0.caps = s.caps) (ht : s0.tagged = s.tagged)
    (hs : s0.scratch = s.scratch) (s2 : St) (e1 : s2.caps = s1.caps) (e2 : s2.tagged = s1.tagged) (e3 : s2.scratch = s1.scratch)
    (e4 : s2.acc = s.acc) (e5 : s2.textEnd = s.textEnd) (e6 : s2.depth = s.depth) : s.le s2 := by
  obtain ⟨h1, h2, h3, _, _, _⟩ := hle
  refine ⟨?_, ?_, ?_, e4, e5, e6⟩
  · rw [e1, ← hc]; exact h1
  · rw [e2, ← ht]; exact h2
  · rw [e3, ← hs]; exact h3

theorem agree_drop (E : Env) {ko : OK ρ} {kd : DK ρ} (hk : KAgree ko kd) (n : Nat) (r : ρ) (s : St) (pos : Nat) :
    Agree (Op.step E ko n (.drop r) s pos) (Den.step E kd n (.drop r) s pos) s := by
  simp only [Op.step, Den.step]
  rcases down1_cases s with hd | ⟨hdep, hd⟩
  · simp [hd, Agree, bind, Except.bind]
  · simp only [hd, bind, Except.bind]
    rcases child_cases hk r { s with depth := s.depth - 1 } pos with ⟨e, h1, h2⟩ | ⟨h1, s1, h2, hle⟩ | ⟨p, d, h1, h2⟩
    · simp [h1, h2, Agree]
    · simp only [h1, h2, Agree]
      exact ⟨_, rfl, le_up1_of_down hdep hle⟩
    · simp only [h1, h2, Agree]
      cases s; st_fin

end JanetModel.Peg

namespace JanetModel.Peg
variable {ρ : Type}

theorem agree_onlytags (E : Env) {ko : OK ρ} {kd : DK ρ} (hk : KAgree ko kd) (n : Nat) (r : ρ) (s : St) (pos : Nat) :
    Agree (Op.step E ko n (.onlytags r) s pos) (Den.step E kd n (.onlytags r) s pos) s := by
  simp only [Op.step, Den.step]
  rcases down1_cases s with hd | ⟨hdep, hd⟩
  · simp [hd, Agree, bind, Except.bind]
  · simp only [hd, bind, Except.bind]
    rcases child_cases hk r { s with depth := s.depth - 1 } pos with ⟨e, h1, h2⟩ | ⟨h1, s1, h2, hle⟩ | ⟨p, d, h1, h2⟩
    · simp [h1, h2, Agree]
    · simp only [h1, h2, Agree]
      exact ⟨_, rfl, le_up1_of_down hdep hle⟩
    · simp only [h1, h2, Agree]
      cases s; st_fin

theorem agree_unref (E : Env) {ko : OK ρ} {kd : DK ρ} (hk : KAgree ko kd) (n : Nat) (r : ρ) (tag : Nat) (s : St) (pos : Nat) :
    Agree (Op.step E ko n (.unref r tag) s pos) (Den.step E kd n (.unref r tag) s pos) s := by
  simp only [Op.step, Den.step]
  rcases down1_cases s with hd | ⟨hdep, hd⟩
  · simp [hd, Agree, bind, Except.bind]
  · simp only [hd, bind, Except.bind]
    rcases child_cases hk r { s with depth := s.depth - 1 } pos with ⟨e, h1, h2⟩ | ⟨h1, s1, h2, hle⟩ | ⟨p, d, h1, h2⟩
    · simp [h1, h2, Agree]
    · simp only [h1, h2, Agree]
      exact ⟨_, rfl, le_up1_of_down hdep hle⟩
    · simp only [h1, h2, Agree]
      cases s
      by_cases ht : tag = 0 <;> st_fin

theorem slice_congr (E : Env) {s s' : St} (h : s'.textEnd = s.textEnd) (a b : Nat) : E.slice s' a b = E.slice s a b := by
  simp [Env.slice, h]

theorem agree_capture (E : Env) {ko : OK ρ} {kd : DK ρ} (hk : KAgree ko kd) (n : Nat) (r : ρ) (tag : Nat) (s : St) (pos : Nat) :
    Agree (Op.step E ko n (.capture r tag) s pos) (Den.step E kd n (.capture r tag) s pos) s := by
  simp only [Op.step, Den.step]
  rcases down1_cases s with hd | ⟨hdep, hd⟩
  · simp [hd, Agree, bind, Except.bind]
  · simp only [hd, bind, Except.bind]
    rcases child_cases hk r { s with depth := s.depth - 1 } pos with ⟨e, h1, h2⟩ | ⟨h1, s1, h2, hle⟩ | ⟨p, d, h1, h2⟩
    · simp [h1, h2, Agree]
    · simp only [h1, h2, Agree]
      exact ⟨_, rfl, le_up1_of_down hdep hle⟩
    · simp only [h1, h2]
      rw [up1_extend_down d hdep, slice_congr E (s := s) (s' := s.extend d) rfl]
      cases E.slice s pos p with
      | error e => simp [Agree]
      | ok t =>
        simp only
        by_cases hc : (!E.hasBackref ∧ s.acc)
        · have hc' : (!E.hasBackref ∧ (s.extend d).acc) := hc
          rw [if_pos hc, if_pos hc']
          simp only [Agree]
          cases s; st_fin
        · have hc' : ¬ (!E.hasBackref ∧ (s.extend d).acc) := hc
          rw [if_neg hc, if_neg hc']
          simp only [Agree]
          cases s; st_fin

end JanetModel.Peg

namespace JanetModel.Peg
variable {ρ : Type}

theorem agree_capturenum (E : Env) {ko : OK ρ} {kd : DK ρ} (hk : KAgree ko kd) (n : Nat) (r : ρ) (base tag : Nat) (s : St) (pos : Nat) :
    Agree (Op.step E ko n (.capturenum r base tag) s pos) (Den.step E kd n (.capturenum r base tag) s pos) s := by
  simp only [Op.step, Den.step]
  rcases down1_cases s with hd | ⟨hdep, hd⟩
  · simp [hd, Agree, bind, Except.bind]
  · simp only [hd, bind, Except.bind]
    rcases child_cases hk r { s with depth := s.depth - 1 } pos with ⟨e, h1, h2⟩ | ⟨h1, s1, h2, hle⟩ | ⟨p, d, h1, h2⟩
    · simp [h1, h2, Agree]
    · simp only [h1, h2, Agree]
      exact ⟨_, rfl, le_up1_of_down hdep hle⟩
    · simp only [h1, h2]
      rw [up1_extend_down d hdep, slice_congr E (s := s) (s' := s.extend d) rfl]
      cases E.slice s pos p with
      | error e => simp [Agree]
      | ok t =>
        simp only
        cases scanNumber t base with
        | none => exact ⟨_, rfl, St.le_extend s d⟩
        | some x =>
          simp only
          by_cases hc : (E.numRaw ∧ !E.hasBackref ∧ s.acc)
          · have hc' : (E.numRaw ∧ !E.hasBackref ∧ (s.extend d).acc) := hc
            rw [if_pos hc, if_pos hc']
            simp only [Agree]
            cases s; st_fin
          · have hc' : ¬ (E.numRaw ∧ !E.hasBackref ∧ (s.extend d).acc) := hc
            rw [if_neg hc, if_neg hc']
            simp only [Agree]
            cases s; st_fin

/-- common part of the mode-switching capture combinators: run the child under `down1` in mode `m` -/
theorem mode_child {ko : OK ρ} {kd : DK ρ} (hk : KAgree ko kd) (r : ρ) (s : St) (m : Bool) (pos : Nat) :
    (down1 { s with acc := m } = .error .depth) ∨
    (2 ≤ s.depth ∧ down1 { s with acc := m } = .ok { s with acc := m, depth := s.depth - 1 } ∧
      ((∃ e, kd r { s with acc := m, depth := s.depth - 1 } pos = .error e ∧ ko r { s with acc := m, depth := s.depth - 1 } pos = .error e) ∨
       (kd r { s with acc := m, depth := s.depth - 1 } pos = .ok none ∧
          ∃ s1, ko r { s with acc := m, depth := s.depth - 1 } pos = .ok (none, s1) ∧
            s.le { up1 s1 with acc := s.acc }) ∨
       (∃ p d, kd r { s with acc := m, depth := s.depth - 1 } pos = .ok (some (p, d)) ∧
          ko r { s with acc := m, depth := s.depth - 1 } pos = .ok (some p, St.extend { s with acc := m, depth := s.depth - 1 } d)))) := by
  rcases down1_cases { s with acc := m } with hd | ⟨hdep, hd⟩
  · left; exact hd
  · right
    refine ⟨hdep, hd, ?_⟩
    rcases child_cases hk r { s with acc := m, depth := s.depth - 1 } pos with ⟨e, h1, h2⟩ | ⟨h1, s1, h2, hle⟩ | ⟨p, d, h1, h2⟩
    · left; exact ⟨e, h1, h2⟩
    · right; left
      refine ⟨h1, s1, h2, ?_⟩
      obtain ⟨a1, a2, a3, a4, a5, a6⟩ := hle
      refine ⟨by simpa [up1] using a1, by simpa [up1] using a2, by simpa [up1] using a3, rfl, by simpa [up1] using a5, ?_⟩
      simp [up1] at *; omega
    · right; right; exact ⟨p, d, h1, h2⟩

theorem agree_group (E : Env) {ko : OK ρ} {kd : DK ρ} (hk : KAgree ko kd) (n : Nat) (r : ρ) (tag : Nat) (s : St) (pos : Nat) :
    Agree (Op.step E ko n (.group r tag) s pos) (Den.step E kd n (.group r tag) s pos) s := by
  simp only [Op.step, Den.step]
  rcases mode_child hk r s false pos with hd | ⟨hdep, hd, ⟨e, h1, h2⟩ | ⟨h1, s1, h2, hle⟩ | ⟨p, d, h1, h2⟩⟩
  · simp [hd, Agree, bind, Except.bind]
  · simp [hd, h1, h2, Agree, bind, Except.bind]
  · simp only [hd, h1, h2, Agree, bind, Except.bind]
    exact ⟨_, rfl, hle⟩
  · simp only [hd, h1, h2, Agree, bind, Except.bind]
    cases s; st_fin

theorem agree_accumulate (E : Env) {ko : OK ρ} {kd : DK ρ} (hk : KAgree ko kd) (n : Nat) (r : ρ) (tag : Nat) (s : St) (pos : Nat) :
    Agree (Op.step E ko n (.accumulate r tag) s pos) (Den.step E kd n (.accumulate r tag) s pos) s := by
  simp only [Op.step, Den.step]
  by_cases hc : (tag == 0 ∧ s.acc)
  · rw [if_pos hc, if_pos hc]; exact hk r s pos
  · rw [if_neg hc, if_neg hc]
    rcases mode_child hk r s true pos with hd | ⟨hdep, hd, ⟨e, h1, h2⟩ | ⟨h1, s1, h2, hle⟩ | ⟨p, d, h1, h2⟩⟩
    · simp [hd, Agree, bind, Except.bind]
    · simp [hd, h1, h2, Agree, bind, Except.bind]
    · simp only [hd, h1, h2, Agree, bind, Except.bind]
      exact ⟨_, rfl, hle⟩
    · simp only [hd, h1, h2, Agree, bind, Except.bind]
      cases s; st_fin

theorem agree_nth (E : Env) {ko : OK ρ} {kd : DK ρ} (hk : KAgree ko kd) (n : Nat) (k : Nat) (r : ρ) (tag : Nat) (s : St) (pos : Nat) :
    Agree (Op.step E ko n (.nth k r tag) s pos) (Den.step E kd n (.nth k r tag) s pos) s := by
  simp only [Op.step, Den.step]
  rcases mode_child hk r s false pos with hd | ⟨hdep, hd, ⟨e, h1, h2⟩ | ⟨h1, s1, h2, hle⟩ | ⟨p, d, h1, h2⟩⟩
  · simp [hd, Agree, bind, Except.bind]
  · simp [hd, h1, h2, Agree, bind, Except.bind]
  · simp only [hd, h1, h2, Agree, bind, Except.bind]
    exact ⟨_, rfl, hle⟩
  · simp only [hd, h1, h2, bind, Except.bind]
    have hdrop : (List.drop (capSave s).cap ({ up1 (St.extend { s with acc := false, depth := s.depth - 1 } d) with acc := s.acc } : St).caps) = d.caps := by
      cases s; simp [St.extend, up1, capSave]
    rw [hdrop]
    cases d.caps[if k > int32Max then int32Max else k]? with
    | none =>
      simp only [Agree]
      refine ⟨_, rfl, ?_⟩
      cases s
      refine ⟨?_, ?_, ?_, ?_, ?_, ?_⟩ <;> st_fin
    | some cap =>
      simp only [Agree]
      cases s; st_fin

end JanetModel.Peg

namespace JanetModel.Peg
variable {ρ : Type}

theorem replaceValue_eq (v : Val) (s : St) (d : Delta) (m : Bool) :
    Op.replaceValue v ({ up1 (St.extend { s with acc := m, depth := s.depth - 1 } d) with acc := s.acc } : St) (capSave s)
      = Den.replaceValue v s.caps d.caps := by
  cases s
  cases v <;> simp [Op.replaceValue, Den.replaceValue, St.extend, up1, capSave] <;> rfl

theorem agree_replace (E : Env) {ko : OK ρ} {kd : DK ρ} (hk : KAgree ko kd) (n : Nat) (r : ρ) (v : Val) (tag : Nat) (s : St) (pos : Nat) :
    Agree (Op.step E ko n (.replace r v tag) s pos) (Den.step E kd n (.replace r v tag) s pos) s := by
  simp only [Op.step, Den.step]
  rcases mode_child hk r s false pos with hd | ⟨hdep, hd, ⟨e, h1, h2⟩ | ⟨h1, s1, h2, hle⟩ | ⟨p, d, h1, h2⟩⟩
  · simp [hd, Agree, bind, Except.bind]
  · simp [hd, h1, h2, Agree, bind, Except.bind]
  · simp only [hd, h1, h2, Agree, bind, Except.bind]
    exact ⟨_, rfl, hle⟩
  · simp only [hd, h1, h2, bind, Except.bind]
    cases callGuard E s.depth v with
    | error e => simp [Agree]
    | ok _ =>
    simp only []
    rw [replaceValue_eq]
    cases Den.replaceValue v s.caps d.caps with
    | error e => simp [Agree]
    | ok cap =>
      simp only [Agree]
      cases s; st_fin

theorem agree_matchtime (E : Env) {ko : OK ρ} {kd : DK ρ} (hk : KAgree ko kd) (n : Nat) (r : ρ) (v : Val) (tag : Nat) (s : St) (pos : Nat) :
    Agree (Op.step E ko n (.matchtime r v tag) s pos) (Den.step E kd n (.matchtime r v tag) s pos) s := by
  simp only [Op.step, Den.step]
  rcases mode_child hk r s false pos with hd | ⟨hdep, hd, ⟨e, h1, h2⟩ | ⟨h1, s1, h2, hle⟩ | ⟨p, d, h1, h2⟩⟩
  · simp [hd, Agree, bind, Except.bind]
  · simp [hd, h1, h2, Agree, bind, Except.bind]
  · simp only [hd, h1, h2, Agree, bind, Except.bind]
    exact ⟨_, rfl, hle⟩
  · simp only [hd, h1, h2, bind, Except.bind]
    cases callGuard E s.depth v with
    | error e => simp [Agree]
    | ok _ =>
    simp only []
    rw [replaceValue_eq]
    cases Den.replaceValue v s.caps d.caps with
    | error e => simp [Agree]
    | ok cap =>
      simp only
      by_cases ht : truthy cap = true
      · rw [if_pos ht, if_pos ht]
        simp only [Agree]
        cases s; st_fin
      · rw [if_neg ht, if_neg ht]
        simp only [Agree]
        refine ⟨_, rfl, ?_⟩
        cases s
        refine ⟨?_, ?_, ?_, ?_, ?_, ?_⟩ <;> st_fin

theorem agree_error (E : Env) {ko : OK ρ} {kd : DK ρ} (hk : KAgree ko kd) (n : Nat) (r : ρ) (s : St) (pos : Nat) :
    Agree (Op.step E ko n (.error r) s pos) (Den.step E kd n (.error r) s pos) s := by
  simp only [Op.step, Den.step]
  rcases mode_child hk r s false pos with hd | ⟨hdep, hd, ⟨e, h1, h2⟩ | ⟨h1, s1, h2, hle⟩ | ⟨p, d, h1, h2⟩⟩
  · simp [hd, Agree, bind, Except.bind]
  · simp [hd, h1, h2, Agree, bind, Except.bind]
  · simp only [hd, h1, h2, Agree, bind, Except.bind]
    exact ⟨_, rfl, hle⟩
  · simp only [hd, h1, h2, bind, Except.bind]
    have hcaps : ({ up1 (St.extend { s with acc := false, depth := s.depth - 1 } d) with acc := s.acc } : St).caps = s.caps ++ d.caps := by
      cases s; simp [St.extend, up1]
    rw [hcaps]
    cases hdc : d.caps with
    | nil => simp [Agree]
    | cons c cs =>
      have hlen : (s.caps ++ c :: cs).length > s.caps.length := by simp
      rw [if_pos hlen]
      have hl : (s.caps ++ c :: cs).getLast? = (c :: cs).getLast? := by
        rw [List.getLast?_append]
        cases hg : (c :: cs).getLast? with
        | none => simp at hg
        | some v => simp
      rw [hl]
      cases hg : (c :: cs).getLast? with
      | none => simp at hg
      | some v => simp [Agree]

end JanetModel.Peg

namespace JanetModel.Peg
variable {ρ : Type}

theorem agree_look (E : Env) {ko : OK ρ} {kd : DK ρ} (hk : KAgree ko kd) (n : Nat) (off : Int) (r : ρ) (s : St) (pos : Nat) :
    Agree (Op.step E ko n (.look off r) s pos) (Den.step E kd n (.look off r) s pos) s := by
  simp only [Op.step, Den.step]
  split
  · exact agree_fail s
  · rcases down1_cases s with hd | ⟨hdep, hd⟩
    · simp [hd, Agree, bind, Except.bind]
    · simp only [hd, bind, Except.bind]
      rcases child_cases hk r { s with depth := s.depth - 1 } ((pos : Int) + off).toNat with ⟨e, h1, h2⟩ | ⟨h1, s1, h2, hle⟩ | ⟨p, d, h1, h2⟩
      · simp [h1, h2, Agree]
      · simp only [h1, h2, Agree, Option.map]
        exact ⟨_, rfl, le_up1_of_down hdep hle⟩
      · simp only [h1, h2, Agree, Option.map]
        rw [up1_extend_down d hdep]

theorem extend_extend (s : St) (d d2 : Delta) : (s.extend d).extend d2 = s.extend (d.append d2) := by
  cases s; simp [St.extend, Delta.append]

theorem take_of_take_append {α : Type} {l l' d : List α} (h : l'.take (l.length + d.length) = l ++ d) :
    l'.take l.length = l := by
  have h2 := congrArg (List.take l.length) h
  rw [List.take_take, Nat.min_eq_left (Nat.le_add_right _ _)] at h2
  simpa using h2

theorem le_trans_extend {s s' : St} (d : Delta) (h : (s.extend d).le s') : s.le s' := by
  obtain ⟨h1, h2, h3, h4, h5, h6⟩ := h
  cases s; cases s'
  simp [St.extend] at *
  exact ⟨take_of_take_append h1, take_of_take_append h2, take_of_take_append h3, h4, h5, h6⟩

theorem agree_if (E : Env) {ko : OK ρ} {kd : DK ρ} (hk : KAgree ko kd) (n : Nat) (a b : ρ) (s : St) (pos : Nat) :
    Agree (Op.step E ko n (.if_ a b) s pos) (Den.step E kd n (.if_ a b) s pos) s := by
  simp only [Op.step, Den.step]
  rcases down1_cases s with hd | ⟨hdep, hd⟩
  · simp [hd, Agree, bind, Except.bind]
  · simp only [hd, bind, Except.bind]
    rcases child_cases hk a { s with depth := s.depth - 1 } pos with ⟨e, h1, h2⟩ | ⟨h1, s1, h2, hle⟩ | ⟨p, d, h1, h2⟩
    · simp [h1, h2, Agree]
    · simp only [h1, h2, Agree]
      exact ⟨_, rfl, le_up1_of_down hdep hle⟩
    · simp only [h1, h2]
      rw [up1_extend_down d hdep]
      rcases child_cases hk b (s.extend d) pos with ⟨e, g1, g2⟩ | ⟨g1, s1, g2, gle⟩ | ⟨p2, d2, g1, g2⟩
      · simp [g1, g2, Agree]
      · simp only [g1, g2, Agree]
        exact ⟨_, rfl, le_trans_extend d gle⟩
      · simp only [g1, g2, Agree, extend_extend]

theorem agree_ifnot (E : Env) {ko : OK ρ} {kd : DK ρ} (hk : KAgree ko kd) (n : Nat) (a b : ρ) (s : St) (pos : Nat) :
    Agree (Op.step E ko n (.ifnot a b) s pos) (Den.step E kd n (.ifnot a b) s pos) s := by
  simp only [Op.step, Den.step]
  rcases down1_cases s with hd | ⟨hdep, hd⟩
  · simp [hd, Agree, bind, Except.bind]
  · simp only [hd, bind, Except.bind]
    rcases child_cases hk a { s with depth := s.depth - 1 } pos with ⟨e, h1, h2⟩ | ⟨h1, s1, h2, hle⟩ | ⟨p, d, h1, h2⟩
    · simp [h1, h2, Agree]
    · simp only [h1, h2]
      have hcl := capLoad_of_le hle
      rw [hcl, up1_down hdep]
      exact hk b s pos
    · simp only [h1, h2, Agree]
      exact ⟨_, rfl, le_up1_of_down hdep (St.le_extend _ d)⟩

end JanetModel.Peg

namespace JanetModel.Peg
variable {ρ : Type}

/-- run a child under `down1` inside a narrowed window `we` -/
theorem win_child {ko : OK ρ} {kd : DK ρ} (hk : KAgree ko kd) (r : ρ) (s : St) (we : Nat) (pos : Nat) :
    (down1 { s with textEnd := we } = .error .depth) ∨
    (2 ≤ s.depth ∧ down1 { s with textEnd := we } = .ok { s with textEnd := we, depth := s.depth - 1 } ∧
      ((∃ e, kd r { s with textEnd := we, depth := s.depth - 1 } pos = .error e ∧ ko r { s with textEnd := we, depth := s.depth - 1 } pos = .error e) ∨
       (kd r { s with textEnd := we, depth := s.depth - 1 } pos = .ok none ∧
          ∃ s1, ko r { s with textEnd := we, depth := s.depth - 1 } pos = .ok (none, s1) ∧
            s.le { up1 s1 with textEnd := s.textEnd }) ∨
       (∃ p d, kd r { s with textEnd := we, depth := s.depth - 1 } pos = .ok (some (p, d)) ∧
          ko r { s with textEnd := we, depth := s.depth - 1 } pos = .ok (some p, St.extend { s with textEnd := we, depth := s.depth - 1 } d) ∧
          ({ up1 (St.extend { s with textEnd := we, depth := s.depth - 1 } d) with textEnd := s.textEnd } : St) = s.extend d))) := by
  rcases down1_cases { s with textEnd := we } with hd | ⟨hdep, hd⟩
  · left; exact hd
  · right
    refine ⟨hdep, hd, ?_⟩
    rcases child_cases hk r { s with textEnd := we, depth := s.depth - 1 } pos with ⟨e, h1, h2⟩ | ⟨h1, s1, h2, hle⟩ | ⟨p, d, h1, h2⟩
    · left; exact ⟨e, h1, h2⟩
    · right; left
      refine ⟨h1, s1, h2, ?_⟩
      obtain ⟨a1, a2, a3, a4, a5, a6⟩ := hle
      refine ⟨by simpa [up1] using a1, by simpa [up1] using a2, by simpa [up1] using a3, by simpa [up1] using a4, rfl, ?_⟩
      simp [up1] at *; omega
    · right; right
      refine ⟨p, d, h1, h2, ?_⟩
      cases s; st_fin

theorem agree_sub (E : Env) {ko : OK ρ} {kd : DK ρ} (hk : KAgree ko kd) (n : Nat) (w r : ρ) (s : St) (pos : Nat) :
    Agree (Op.step E ko n (.sub w r) s pos) (Den.step E kd n (.sub w r) s pos) s := by
  simp only [Op.step, Den.step]
  rcases down1_cases s with hd | ⟨hdep, hd⟩
  · simp [hd, Agree, bind, Except.bind]
  · simp only [hd, bind, Except.bind]
    rcases child_cases hk w { s with depth := s.depth - 1 } pos with ⟨e, h1, h2⟩ | ⟨h1, s1, h2, hle⟩ | ⟨we, d, h1, h2⟩
    · simp [h1, h2, Agree]
    · simp only [h1, h2, Agree]
      exact ⟨_, rfl, le_up1_of_down hdep hle⟩
    · simp only [h1, h2]
      rw [up1_extend_down d hdep]
      rcases win_child hk r (s.extend d) we pos with gd | ⟨gdep, gd, ⟨e, g1, g2⟩ | ⟨g1, s1, g2, gle⟩ | ⟨p2, d2, g1, g2, geq⟩⟩
      · simp [gd, Agree]
      · simp [gd, g1, g2, Agree]
      · simp only [gd, g1, g2, Agree]
        exact ⟨_, rfl, le_trans_extend d gle⟩
      · simp only [gd, g1, g2, Agree]
        rw [geq, extend_extend]

end JanetModel.Peg

namespace JanetModel.Peg
variable {ρ : Type}

theorem capLoad_extend (s : St) (d : Delta) : capLoad (s.extend d) (capSave s) = s :=
  capLoad_of_le (St.le_extend s d)

theorem choiceLoop_agree {ko : OK ρ} {kd : DK ρ} (hk : KAgree ko kd) (s : St) (hdep : 2 ≤ s.depth) (pos : Nat) :
    ∀ rs : List ρ, rs ≠ [] →
      Agree (Op.choiceLoop ko (capSave { s with depth := s.depth - 1 }) rs { s with depth := s.depth - 1 } pos)
        (Den.choiceLoop kd rs { s with depth := s.depth - 1 } pos) s := by
  intro rs
  induction rs with
  | nil => intro h; exact absurd rfl h
  | cons r rest ih =>
    intro _
    cases rest with
    | nil =>
      simp only [Op.choiceLoop, Den.choiceLoop, up1_down hdep]
      exact hk r s pos
    | cons r' rest' =>
      simp only [Op.choiceLoop, Den.choiceLoop, bind, Except.bind]
      rcases child_cases hk r { s with depth := s.depth - 1 } pos with ⟨e, h1, h2⟩ | ⟨h1, s1, h2, hle⟩ | ⟨p, d, h1, h2⟩
      · simp [h1, h2, Agree]
      · simp only [h1, h2]
        rw [capLoad_of_le hle]
        exact ih (by simp)
      · simp only [h1, h2, Agree]
        rw [up1_extend_down d hdep]

theorem agree_choice (E : Env) {ko : OK ρ} {kd : DK ρ} (hk : KAgree ko kd) (n : Nat) (rs : List ρ) (s : St) (pos : Nat) :
    Agree (Op.step E ko n (.choice rs) s pos) (Den.step E kd n (.choice rs) s pos) s := by
  simp only [Op.step, Den.step]
  by_cases he : rs.isEmpty = true
  · rw [if_pos he, if_pos he]; exact agree_fail s
  · rw [if_neg he, if_neg he]
    rcases down1_cases s with hd | ⟨hdep, hd⟩
    · simp [hd, Agree, bind, Except.bind]
    · simp only [hd, bind, Except.bind]
      exact choiceLoop_agree hk s hdep pos rs (by intro h; simp [h] at he)

theorem seqLoop_agree {ko : OK ρ} {kd : DK ρ} (hk : KAgree ko kd) (s : St) (hdep : 2 ≤ s.depth) :
    ∀ rs : List ρ, rs ≠ [] → ∀ (pos : Nat) (d : Delta),
      Agree (Op.seqLoop ko rs (St.extend { s with depth := s.depth - 1 } d) pos)
        (Den.seqLoop kd rs { s with depth := s.depth - 1 } pos d) s := by
  intro rs
  induction rs with
  | nil => intro h; exact absurd rfl h
  | cons r rest ih =>
    intro _ pos d
    cases rest with
    | nil =>
      simp only [Op.seqLoop, Den.seqLoop, up1_extend_down d hdep, bind, Except.bind]
      rcases child_cases hk r (s.extend d) pos with ⟨e, h1, h2⟩ | ⟨h1, s1, h2, hle⟩ | ⟨p, d2, h1, h2⟩
      · simp [h1, h2, Agree]
      · simp only [h1, h2, Agree]
        exact ⟨_, rfl, le_trans_extend d hle⟩
      · simp only [h1, h2, Agree, extend_extend]
    | cons r' rest' =>
      simp only [Op.seqLoop, Den.seqLoop, bind, Except.bind]
      rcases child_cases hk r (St.extend { s with depth := s.depth - 1 } d) pos with ⟨e, h1, h2⟩ | ⟨h1, s1, h2, hle⟩ | ⟨p, d2, h1, h2⟩
      · simp [h1, h2, Agree]
      · simp only [h1, h2, Agree]
        exact ⟨_, rfl, le_up1_of_down hdep (le_trans_extend d hle)⟩
      · simp only [h1, h2, extend_extend]
        exact ih (by simp) p (d.append d2)

theorem agree_sequence (E : Env) {ko : OK ρ} {kd : DK ρ} (hk : KAgree ko kd) (n : Nat) (rs : List ρ) (s : St) (pos : Nat) :
    Agree (Op.step E ko n (.sequence rs) s pos) (Den.step E kd n (.sequence rs) s pos) s := by
  simp only [Op.step, Den.step]
  by_cases he : rs.isEmpty = true
  · rw [if_pos he, if_pos he]; exact agree_ok s pos
  · rw [if_neg he, if_neg he]
    rcases down1_cases s with hd | ⟨hdep, hd⟩
    · simp [hd, Agree, bind, Except.bind]
    · simp only [hd, bind, Except.bind]
      have := seqLoop_agree hk s hdep rs (by intro h; simp [h] at he) pos {}
      simpa using this

end JanetModel.Peg

namespace JanetModel.Peg
variable {ρ : Type}

theorem capSave_down (s : St) : capSave { s with depth := s.depth - 1 } = capSave s := rfl

theorem capLoad_self (s : St) : capLoad s (capSave s) = s := capLoad_of_le (St.le_refl s)

theorem toLoop_agree {ko : OK ρ} {kd : DK ρ} (hk : KAgree ko kd) (r : ρ) (isTo : Bool) (s : St) (hdep : 2 ≤ s.depth) :
    ∀ (n pos : Nat),
      Agree (Op.toLoop ko r isTo (capSave s) n { s with depth := s.depth - 1 } pos)
        (Den.toLoop kd r isTo n { s with depth := s.depth - 1 } pos) s := by
  intro n
  induction n with
  | zero =>
    intro pos
    simp only [Op.toLoop, Den.toLoop, up1_down hdep, capLoad_self]
    exact agree_fail s
  | succ n ih =>
    intro pos
    simp only [Op.toLoop, Den.toLoop, bind, Except.bind]
    rcases child_cases hk r { s with depth := s.depth - 1 } pos with ⟨e, h1, h2⟩ | ⟨h1, s1, h2, hle⟩ | ⟨p, d, h1, h2⟩
    · simp [h1, h2, Agree]
    · simp only [h1, h2]
      rw [capLoad_of_le hle]
      exact ih (pos + 1)
    · simp only [h1, h2]
      cases isTo with
      | true =>
        simp only [if_true, capLoad_extend, up1_down hdep]
        exact agree_ok s pos
      | false =>
        simp only [Bool.false_eq_true, if_false, Agree]
        rw [up1_extend_down d hdep]

theorem agree_to (E : Env) {ko : OK ρ} {kd : DK ρ} (hk : KAgree ko kd) (n : Nat) (r : ρ) (s : St) (pos : Nat) :
    Agree (Op.step E ko n (.to r) s pos) (Den.step E kd n (.to r) s pos) s := by
  simp only [Op.step, Den.step]
  rcases down1_cases s with hd | ⟨hdep, hd⟩
  · simp [hd, Agree, bind, Except.bind]
  · simp only [hd, bind, Except.bind]
    exact toLoop_agree hk r true s hdep _ pos

theorem agree_thru (E : Env) {ko : OK ρ} {kd : DK ρ} (hk : KAgree ko kd) (n : Nat) (r : ρ) (s : St) (pos : Nat) :
    Agree (Op.step E ko n (.thru r) s pos) (Den.step E kd n (.thru r) s pos) s := by
  simp only [Op.step, Den.step]
  rcases down1_cases s with hd | ⟨hdep, hd⟩
  · simp [hd, Agree, bind, Except.bind]
  · simp only [hd, bind, Except.bind]
    exact toLoop_agree hk r false s hdep _ pos

theorem betweenLoop_agree {ko : OK ρ} {kd : DK ρ} (hk : KAgree ko kd) (r : ρ) (hi : Nat) (s0 : St) :
    ∀ (n captured pos : Nat) (d : Delta),
      match Den.betweenLoop kd r hi n captured s0 pos d with
      | .error e => Op.betweenLoop ko r hi n captured (s0.extend d) pos = .error e
      | .ok (c, p, d') => Op.betweenLoop ko r hi n captured (s0.extend d) pos = .ok (c, p, s0.extend d') := by
  intro n
  induction n with
  | zero => intro captured pos d; simp [Op.betweenLoop, Den.betweenLoop]
  | succ n ih =>
    intro captured pos d
    simp only [Op.betweenLoop, Den.betweenLoop]
    by_cases hc : captured < hi
    · rw [if_pos hc, if_pos hc]
      simp only [bind, Except.bind]
      rcases child_cases hk r (s0.extend d) pos with ⟨e, h1, h2⟩ | ⟨h1, s1, h2, hle⟩ | ⟨p, d2, h1, h2⟩
      · simp [h1, h2]
      · simp only [h1, h2]
        rw [capLoad_of_le hle]
      · simp only [h1, h2]
        by_cases hz : ((p == pos) = true ∧ (hi == uintMax) = true)
        · rw [if_pos hz, if_pos hz]
          simp only [capLoad_extend]
        · rw [if_neg hz, if_neg hz, extend_extend]
          exact ih (captured + 1) p (d.append d2)
    · rw [if_neg hc, if_neg hc]

theorem agree_between (E : Env) {ko : OK ρ} {kd : DK ρ} (hk : KAgree ko kd) (n : Nat) (lo hi : Nat) (r : ρ) (s : St) (pos : Nat) :
    Agree (Op.step E ko n (.between lo hi r) s pos) (Den.step E kd n (.between lo hi r) s pos) s := by
  simp only [Op.step, Den.step]
  rcases down1_cases s with hd | ⟨hdep, hd⟩
  · simp [hd, Agree, bind, Except.bind]
  · simp only [hd, bind, Except.bind]
    have h := betweenLoop_agree hk r hi { s with depth := s.depth - 1 } n 0 pos {}
    rw [extend_empty] at h
    revert h
    cases Den.betweenLoop kd r hi n 0 { s with depth := s.depth - 1 } pos {} with
    | error e => intro h; simp [h, Agree]
    | ok v =>
      obtain ⟨c, p, d'⟩ := v
      intro h
      simp only [h]
      rw [up1_extend_down d' hdep]
      by_cases hl : c < lo
      · rw [if_pos hl, if_pos hl, capLoad_extend]
        exact agree_fail s
      · rw [if_neg hl, if_neg hl]
        simp [Agree]

end JanetModel.Peg

namespace JanetModel.Peg
variable {ρ : Type}

theorem lenLoop_agree {ko : OK ρ} {kd : DK ρ} (hk : KAgree ko kd) (r : ρ) (s : St) :
    ∀ (n pos : Nat) (d : Delta),
      Agree (Op.lenLoop ko r (capSave s) n (s.extend d) pos) (Den.lenLoop kd r n s pos d) s := by
  intro n
  induction n with
  | zero => intro pos d; simp [Op.lenLoop, Den.lenLoop, Agree]
  | succ n ih =>
    intro pos d
    simp only [Op.lenLoop, Den.lenLoop]
    rcases down1_cases (s.extend d) with hd | ⟨hdep, hd⟩
    · simp [hd, Agree, bind, Except.bind]
    · simp only [hd, bind, Except.bind]
      rcases child_cases hk r { s.extend d with depth := (s.extend d).depth - 1 } pos with ⟨e, h1, h2⟩ | ⟨h1, s1, h2, hle⟩ | ⟨p, d2, h1, h2⟩
      · simp [h1, h2, Agree]
      · simp only [h1, h2, Agree]
        have hl : s.le (up1 s1) := le_trans_extend d (le_up1_of_down hdep hle)
        exact ⟨_, rfl, by rw [capLoad_of_le hl]; exact St.le_refl s⟩
      · simp only [h1, h2]
        rw [up1_extend_down d2 hdep, extend_extend]
        exact ih p (d.append d2)

theorem agree_lenprefix (E : Env) (hE : E.lenprefixLeak = false) {ko : OK ρ} {kd : DK ρ} (hk : KAgree ko kd) (n : Nat) (a b : ρ)
    (s : St) (pos : Nat) :
    Agree (Op.step E ko n (.lenprefix a b) s pos) (Den.step E kd n (.lenprefix a b) s pos) s := by
  simp only [Op.step, Den.step]
  rcases mode_child hk a s false pos with hd | ⟨hdep, hd, ⟨e, h1, h2⟩ | ⟨h1, s1, h2, hle⟩ | ⟨p, d, h1, h2⟩⟩
  · simp [hd, Agree, bind, Except.bind]
  · simp [hd, h1, h2, Agree, bind, Except.bind]
  · simp only [hd, h1, h2, Agree, bind, Except.bind, hE]
    exact ⟨_, rfl, hle⟩
  · simp only [hd, h1, h2, bind, Except.bind]
    have hs3 : ({ up1 (St.extend { s with acc := false, depth := s.depth - 1 } d) with acc := s.acc } : St) = s.extend d := by
      cases s; st_fin
    rw [hs3]
    have hdrop : (up1 (St.extend { s with acc := false, depth := s.depth - 1 } d)).caps.drop (capSave s).cap = d.caps := by
      cases s; simp [St.extend, capSave, up1]
    rw [hdrop, capLoad_extend]
    cases d.caps.head? with
    | none => exact agree_fail s
    | some v =>
      cases v <;> try exact agree_fail s
      rename_i nrep
      simp only
      by_cases hc : checkint nrep = true
      · rw [if_pos hc, if_pos hc]
        have := lenLoop_agree hk b s nrep.toNat p {}
        simpa using this
      · rw [if_neg hc, if_neg hc]
        exact agree_fail s

theorem tilLoop_agree {ko : OK ρ} {kd : DK ρ} (hk : KAgree ko kd) (t : ρ) (s0 : St) :
    ∀ (n pos : Nat),
      match Den.tilLoop kd t n s0 pos with
      | .error e => Op.tilLoop ko t n s0 pos = .error e
      | .ok res => Op.tilLoop ko t n s0 pos = .ok (res, s0) := by
  intro n
  induction n with
  | zero => intro pos; simp [Op.tilLoop, Den.tilLoop]
  | succ n ih =>
    intro pos
    simp only [Op.tilLoop, Den.tilLoop, bind, Except.bind]
    rcases child_cases hk t s0 pos with ⟨e, h1, h2⟩ | ⟨h1, s1, h2, hle⟩ | ⟨p, d, h1, h2⟩
    · simp [h1, h2]
    · simp only [h1, h2]
      rw [capLoad_of_le hle]
      exact ih (pos + 1)
    · simp only [h1, h2, capLoad_extend]

theorem agree_til (E : Env) {ko : OK ρ} {kd : DK ρ} (hk : KAgree ko kd) (n : Nat) (t r : ρ) (s : St) (pos : Nat) :
    Agree (Op.step E ko n (.til t r) s pos) (Den.step E kd n (.til t r) s pos) s := by
  simp only [Op.step, Den.step]
  rcases down1_cases s with hd | ⟨hdep, hd⟩
  · simp [hd, Agree, bind, Except.bind]
  · simp only [hd, bind, Except.bind]
    have h := tilLoop_agree hk t { s with depth := s.depth - 1 } (s.textEnd + 1 - pos) pos
    revert h
    cases Den.tilLoop kd t (s.textEnd + 1 - pos) { s with depth := s.depth - 1 } pos with
    | error e => intro h; simp [h, Agree]
    | ok res =>
      intro h
      simp only [h, up1_down hdep]
      cases res with
      | none => exact agree_fail s
      | some se =>
        obtain ⟨termStart, termEnd⟩ := se
        simp only
        rcases win_child hk r s termStart pos with gd | ⟨gdep, gd, ⟨e, g1, g2⟩ | ⟨g1, s1, g2, gle⟩ | ⟨p2, d2, g1, g2, geq⟩⟩
        · simp [gd, Agree]
        · simp [gd, g1, g2, Agree]
        · simp only [gd, g1, g2, Agree]
          exact ⟨_, rfl, gle⟩
        · simp only [gd, g1, g2, Agree]
          rw [geq]

theorem splitFind_agree {ko : OK ρ} {kd : DK ρ} (hk : KAgree ko kd) (sep : ρ) (s0 : St) :
    ∀ (n chunkEnd pos : Nat),
      match Den.splitFind kd sep n s0 chunkEnd pos with
      | .error e => Op.splitFind ko sep (capSave s0) n s0 chunkEnd pos = .error e
      | .ok (ce, p) => Op.splitFind ko sep (capSave s0) n s0 chunkEnd pos = .ok (ce, p, s0) := by
  intro n
  induction n with
  | zero => intro chunkEnd pos; simp [Op.splitFind, Den.splitFind]
  | succ n ih =>
    intro chunkEnd pos
    simp only [Op.splitFind, Den.splitFind, bind, Except.bind]
    rcases child_cases hk sep s0 pos with ⟨e, h1, h2⟩ | ⟨h1, s1, h2, hle⟩ | ⟨p, d, h1, h2⟩
    · simp [h1, h2]
    · simp only [h1, h2]
      rw [capLoad_of_le hle]
      exact ih pos (pos + 1)
    · simp only [h1, h2, capLoad_extend]

theorem splitLoop_agree {ko : OK ρ} {kd : DK ρ} (hk : KAgree ko kd) (sep sub : ρ) (s : St) :
    ∀ (n chunkStart pos : Nat) (d : Delta),
      Agree (Op.splitLoop ko sep sub s.textEnd n (s.extend d) chunkStart pos)
        (Den.splitLoop kd sep sub s.textEnd n s chunkStart pos d) s := by
  intro n
  induction n with
  | zero => intro chunkStart pos d; simp [Op.splitLoop, Den.splitLoop, Agree]
  | succ n ih =>
    intro chunkStart pos d
    simp only [Op.splitLoop, Den.splitLoop]
    by_cases hp : pos ≤ s.textEnd
    · rw [if_pos hp, if_pos hp]
      rcases down1_cases (s.extend d) with hd | ⟨hdep, hd⟩
      · simp [hd, Agree, bind, Except.bind]
      · simp only [hd, bind, Except.bind]
        have hf := splitFind_agree hk sep { s.extend d with depth := (s.extend d).depth - 1 } (s.textEnd + 1 - pos) pos pos
        rw [capSave_down] at hf
        revert hf
        cases Den.splitFind kd sep (s.textEnd + 1 - pos) { s.extend d with depth := (s.extend d).depth - 1 } pos pos with
        | error e => intro hf; simp [hf, Agree]
        | ok v =>
          obtain ⟨chunkEnd, pos'⟩ := v
          intro hf
          simp only [hf, up1_down hdep]
          rcases win_child hk sub (s.extend d) chunkEnd chunkStart with gd | ⟨gdep, gd, ⟨e, g1, g2⟩ | ⟨g1, s1, g2, gle⟩ | ⟨p2, d2, g1, g2, geq⟩⟩
          · simp [gd, Agree]
          · simp [gd, g1, g2, Agree]
          · simp only [gd, g1, g2, Agree]
            exact ⟨_, rfl, le_trans_extend d gle⟩
          · simp only [gd, g1, g2]
            have geq' : ({ up1 (St.extend { s.extend d with textEnd := chunkEnd, depth := (s.extend d).depth - 1 } d2) with textEnd := s.textEnd } : St)
                = s.extend (d.append d2) := by
              rw [← extend_extend]; exact geq
            rw [geq']
            by_cases hz : (pos' == chunkStart) = true
            · rw [if_pos hz, if_pos hz]
              exact ⟨_, rfl, St.le_extend s _⟩
            · rw [if_neg hz, if_neg hz]
              exact ih pos' pos' (d.append d2)
    · rw [if_neg hp, if_neg hp]
      simp only [Agree]
      cases s; simp [St.extend]

theorem agree_split (E : Env) {ko : OK ρ} {kd : DK ρ} (hk : KAgree ko kd) (n : Nat) (sep r : ρ) (s : St) (pos : Nat) :
    Agree (Op.step E ko n (.split sep r) s pos) (Den.step E kd n (.split sep r) s pos) s := by
  simp only [Op.step, Den.step]
  have := splitLoop_agree hk sep r s n pos pos {}
  simpa using this

end JanetModel.Peg

namespace JanetModel.Peg
variable {ρ : Type}

/-- every opcode: if the sub-rule runners agree, so does the instruction -/
theorem step_agree (E : Env) (hE : E.lenprefixLeak = false) {ko : OK ρ} {kd : DK ρ} (hk : KAgree ko kd) (n : Nat)
    (i : Instr ρ) (s : St) (pos : Nat) :
    Agree (Op.step E ko n i s pos) (Den.step E kd n i s pos) s := by
  cases i with
  | literal _ => exact agree_leaf E n _ s pos trivial
  | nchar _ => exact agree_leaf E n _ s pos trivial
  | notnchar _ => exact agree_leaf E n _ s pos trivial
  | range _ _ => exact agree_leaf E n _ s pos trivial
  | set _ => exact agree_leaf E n _ s pos trivial
  | gettag _ _ => exact agree_leaf E n _ s pos trivial
  | position _ => exact agree_leaf E n _ s pos trivial
  | line _ => exact agree_leaf E n _ s pos trivial
  | column _ => exact agree_leaf E n _ s pos trivial
  | argument _ _ => exact agree_leaf E n _ s pos trivial
  | constant _ _ => exact agree_leaf E n _ s pos trivial
  | backmatch _ => exact agree_leaf E n _ s pos trivial
  | readint _ _ => exact agree_leaf E n _ s pos trivial
  | look off r => exact agree_look E hk n off r s pos
  | choice rs => exact agree_choice E hk n rs s pos
  | sequence rs => exact agree_sequence E hk n rs s pos
  | if_ a b => exact agree_if E hk n a b s pos
  | ifnot a b => exact agree_ifnot E hk n a b s pos
  | not a => exact agree_not E hk n a s pos
  | between lo hi r => exact agree_between E hk n lo hi r s pos
  | capture r tag => exact agree_capture E hk n r tag s pos
  | accumulate r tag => exact agree_accumulate E hk n r tag s pos
  | group r tag => exact agree_group E hk n r tag s pos
  | replace r v tag => exact agree_replace E hk n r v tag s pos
  | matchtime r v tag => exact agree_matchtime E hk n r v tag s pos
  | error r => exact agree_error E hk n r s pos
  | drop r => exact agree_drop E hk n r s pos
  | to r => exact agree_to E hk n r s pos
  | thru r => exact agree_thru E hk n r s pos
  | lenprefix a b => exact agree_lenprefix E hE hk n a b s pos
  | unref r tag => exact agree_unref E hk n r tag s pos
  | capturenum r base tag => exact agree_capturenum E hk n r base tag s pos
  | sub a b => exact agree_sub E hk n a b s pos
  | til a b => exact agree_til E hk n a b s pos
  | split a b => exact agree_split E hk n a b s pos
  | nth k r tag => exact agree_nth E hk n k r tag s pos
  | onlytags r => exact agree_onlytags E hk n r s pos

theorem run_agree (E : Env) (hE : E.lenprefixLeak = false) (fetch : ρ → Option (Instr ρ)) :
    ∀ fuel, KAgree (Op.run E fetch fuel) (Den.run E fetch fuel) := by
  intro fuel
  induction fuel with
  | zero => intro r s pos; simp [Op.run, Den.run, Agree]
  | succ f ih =>
    intro r s pos
    simp only [Op.run, Den.run]
    cases fetch r with
    | none => simp [Agree]
    | some i => exact step_agree E hE ih (f + 1) i s pos

end JanetModel.Peg
