/-
Entry points peg/match, peg/find, peg/find-all, peg/replace, peg/replace-all (peg.c:1854-1984) as loops over one
function `m : start → result of a single match attempt from a freshly reset state` (peg_call_reset).
Core Lean only.
-/
import JanetModel.Peg.Den
import JanetModel.Peg.Decode
import JanetModel.Peg.Spec

namespace JanetModel.Peg

/-- result of one match attempt: next position and the capture array -/
abbrev MRes := Except Err (Option (Nat × List Val))
abbrev Matcher := Nat → MRes

def initSt (E : Env) (guard : Nat) : St :=
  { caps := [], tagged := [], scratch := [], acc := false, textEnd := E.text.length, depth := guard }

/-- one attempt with the operational model -/
def opMatcher {ρ : Type} (E : Env) (fetch : ρ → Option (Instr ρ)) (main : ρ) (fuel guard : Nat) : Matcher := fun start =>
  match Op.run E fetch fuel main (initSt E guard) start with
  | .error e => .error e
  | .ok (none, _) => .ok none
  | .ok (some p, s) => .ok (some (p, s.caps))

/-- one attempt with the denotational model -/
def denMatcher {ρ : Type} (E : Env) (fetch : ρ → Option (Instr ρ)) (main : ρ) (fuel guard : Nat) : Matcher := fun start =>
  match Den.run E fetch fuel main (initSt E guard) start with
  | .error e => .error e
  | .ok none => .ok none
  | .ok (some (p, d)) => .ok (some (p, d.caps))

/-- peg/match -/
def pegMatch (m : Matcher) (start : Nat) : Except Err (Option (List Val)) := do
  match ← m start with
  | some (_, caps) => .ok (some caps)
  | none => .ok none

/-- peg/find: `for (i = start; i < len; i++)`; `n` = len - start -/
def findLoop (m : Matcher) : Nat → Nat → Except Err (Option Nat)
  | 0, _ => .ok none
  | n + 1, i => do
    match ← m i with
    | some _ => .ok (some i)
    | none => findLoop m n (i + 1)

def pegFind (m : Matcher) (len start : Nat) : Except Err (Option Nat) := findLoop m (len - start) start

def findAllLoop (m : Matcher) : Nat → Nat → Except Err (List Nat)
  | 0, _ => .ok []
  | n + 1, i => do
    match ← m i with
    | some _ => do
      let rest ← findAllLoop m n (i + 1)
      .ok (i :: rest)
    | none => findAllLoop m n (i + 1)

def pegFindAll (m : Matcher) (len start : Nat) : Except Err (List Nat) := findAllLoop m (len - start) start

/-- janet_text_substitution for the modelled substitutes: a byte string, or a named function applied to the
    matched text followed by the captures -/
def substitute (subst : Val) (matched : List Nat) (caps : List Val) : Except Err (List Nat) :=
  match subst with
  | .fn name => do
    let v ← applyFn name (Val.str matched :: caps)
    .ok (toStr v)
  | v => .ok (toStr v)

/-- text[a, b) -/
def sl (text : List Nat) (a b : Nat) : List Nat := (text.drop a).take (b - a)

/-- cfun_peg_replace_generic; `n` = Lean fuel (len - start + 1 suffices); returns (output so far, trail) -/
def replaceLoop (m : Matcher) (text : List Nat) (subst : Val) (onlyOne : Bool) :
    Nat → Nat → Nat → List Nat → Except Err (List Nat × Nat)
  | 0, _, trail, out => .ok (out, trail)
  | n + 1, i, trail, out =>
    if i < text.length then do
      match ← m i with
      | some (nexti, caps) => do
        -- if (trail < i) push text[trail, i)
        let out1 := if trail < i then out ++ sl text trail i else out
        let sub ← substitute subst (sl text i nexti) caps
        let out2 := out1 ++ sub
        -- trail = nexti; if (nexti == i) nexti++; i = nexti; if (only_one) break
        let i' := if nexti == i then nexti + 1 else nexti
        if onlyOne then .ok (out2, nexti) else replaceLoop m text subst onlyOne n i' nexti out2
      | none => replaceLoop m text subst onlyOne n (i + 1) trail out
    else .ok (out, trail)

def pegReplace (m : Matcher) (text : List Nat) (subst : Val) (onlyOne : Bool) (start : Nat) : Except Err (List Nat) := do
  let (out, trail) ← replaceLoop m text subst onlyOne (text.length + 1 - start) start 0 []
  .ok (if trail < text.length then out ++ text.drop trail else out)

/-! ### what "agrees with repeated matching" means for replace / replace-all: a closed form over positions

`f i` = result of a single match attempt at `i` (end position, captures); `g matched caps` = the replacement text.
Walking the positions from `start`: an unmatched byte is copied; at a match the replacement is emitted and the walk
continues at the end of the match - or, after an EMPTY match, the byte at `i` is copied and the walk continues at `i + 1`
(`if (nexti == i) nexti++` in the C: advance by max(1, consumed)).  `one` = peg/replace: stop after the first match. -/

def replSpecGo (f : Nat → Option (Nat × List Val)) (g : List Nat → List Val → List Nat) (text : List Nat) (one : Bool) :
    Nat → Nat → List Nat
  | 0, _ => []
  | n + 1, i =>
    if i < text.length then
      match f i with
      | none => sl text i (i + 1) ++ replSpecGo f g text one n (i + 1)
      | some (e, caps) =>
        g (sl text i e) caps ++
          (if one then text.drop e
           else if e == i then sl text i (i + 1) ++ replSpecGo f g text one n (i + 1)
           else replSpecGo f g text one n e)
    else []

/-- the bytes before `start` are kept, then the walk -/
def replSpec (f : Nat → Option (Nat × List Val)) (g : List Nat → List Val → List Nat) (text : List Nat) (one : Bool)
    (start : Nat) : List Nat :=
  text.take start ++ replSpecGo f g text one (text.length + 1 - start) start

end JanetModel.Peg
